// applying one textual operation of a case to the multigraph / weighted classes; shared by the harnesses
#pragma once
#include "common.hpp"
#include "BaseGraph/directed_multigraph.hpp"
#include "BaseGraph/undirected_multigraph.hpp"
#include "BaseGraph/directed_weighted_graph.hpp"
#include "BaseGraph/undirected_weighted_graph.hpp"
using namespace BaseGraph;
using namespace vh;
template <class G> void recip(G &g, long i, long j, bool f, std::true_type) { g.addReciprocalEdge(i, j, f); }
template <class G> void recip(G &g, long i, long j, bool f, std::false_type) { g.addEdge(i, j, f); }
template <class G> void recipM(G &g, long i, long j, unsigned k, bool f, std::true_type) { g.addReciprocalMultiedge(i, j, k, f); }
template <class G> void recipM(G &g, long i, long j, unsigned k, bool f, std::false_type) { g.addMultiedge(i, j, k, f); }

template <class G, class IsDir> Z applyMulti(G &g, const std::string &op) {
        std::istringstream is(op); std::string k; is >> k; long i = 0, j = 0, m = 0, f = 0;
        return guard([&]() -> Z {
            if (k == "A") { is >> i >> j >> f; g.addEdge(i, j, (bool)f); }
            else if (k == "AR") { is >> i >> j >> f; recip(g, i, j, (bool)f, IsDir()); }
            else if (k == "MA") { is >> i >> j >> m >> f; g.addMultiedge(i, j, (EdgeMultiplicity)m, (bool)f); }
            else if (k == "MAR") { is >> i >> j >> m >> f; recipM(g, i, j, (EdgeMultiplicity)m, (bool)f, IsDir()); }
            else if (k == "R") { is >> i >> j; removeEdgeAliased(g, i, j); }
            else if (k == "MR") { is >> i >> j >> m; g.removeMultiedge(i, j, (EdgeMultiplicity)m); }
            else if (k == "MS") { is >> i >> j >> m; g.setEdgeMultiplicity(i, j, (EdgeMultiplicity)m); }
            else if (k == "SL") g.removeSelfLoops();
            else if (k == "V") { is >> i; removeVertexAliased(g, i); }
            else if (k == "CL") g.clearEdges();
            else if (k == "RZ") { is >> i; g.resize(i); }
            else if (k == "DD") g.removeDuplicateEdges();
            else throw std::logic_error("unknown op " + k);
            return 0; });
}
Z applyOp(DirectedMultigraph &g, const std::string &op) { return applyMulti<DirectedMultigraph, std::true_type>(g, op); }
Z applyOp(UndirectedMultigraph &g, const std::string &op) { return applyMulti<UndirectedMultigraph, std::false_type>(g, op); }
template <class G> Z applyWeighted(G &g, const std::string &op) {
        std::istringstream is(op); std::string k; is >> k; long i = 0, j = 0, w = 0, f = 0;
        return guard([&]() -> Z {
            if (k == "WA") { is >> i >> j >> w >> f; g.addEdge(i, j, w / 4.0, (bool)f); }
            else if (k == "R") { is >> i >> j; removeEdgeAliased(g, i, j); }
            else if (k == "WS") { is >> i >> j >> w; g.setEdgeWeight(i, j, w / 4.0); }
            else if (k == "SL") g.removeSelfLoops();
            else if (k == "V") { is >> i; removeVertexAliased(g, i); }
            else if (k == "CL") g.clearEdges();
            else if (k == "RZ") { is >> i; g.resize(i); }
            else if (k == "DD") g.removeDuplicateEdges();
            else throw std::logic_error("unknown op " + k);
            return 0; });
}
Z applyOp(DirectedWeightedGraph &g, const std::string &op) { return applyWeighted(g, op); }
Z applyOp(UndirectedWeightedGraph &g, const std::string &op) { return applyWeighted(g, op); }
