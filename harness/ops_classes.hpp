// applying one textual operation of a case to a (un)directed labelled graph; shared by the harnesses
#pragma once
#include "common.hpp"
#include "BaseGraph/directed_graph.hpp"
#include "BaseGraph/undirected_graph.hpp"
using namespace BaseGraph;
using namespace vh;
template <class L> Z applyOp(LabeledDirectedGraph<L> &g, const std::string &op) {
        std::istringstream is(op); std::string k; is >> k; long i = 0, j = 0, l = 0, f = 0;
        return guard([&]() -> Z {
            if (k == "A") { is >> i >> j >> l >> f; g.addEdge(i, j, Lab<L>::mk(l), (bool)f); }
            else if (k == "AR") { is >> i >> j >> l >> f; g.addReciprocalEdge(i, j, Lab<L>::mk(l), (bool)f); }
            else if (k == "R") { is >> i >> j; removeEdgeAliased(g, i, j); }
            else if (k == "SL") g.removeSelfLoops();
            else if (k == "V") { is >> i; removeVertexAliased(g, i); }
            else if (k == "CL") g.clearEdges();
            else if (k == "RZ") { is >> i; g.resize(i); }
            else if (k == "SLB") { is >> i >> j >> l >> f; g.setEdgeLabel(i, j, Lab<L>::mk(l), (bool)f); }
            else if (k == "DD") g.removeDuplicateEdges();
            else throw std::logic_error("unknown op " + k);
            return 0; });
}
template <class L> Z applyOp(LabeledUndirectedGraph<L> &g, const std::string &op) {
        std::istringstream is(op); std::string k; is >> k; long i = 0, j = 0, l = 0, f = 0;
        return guard([&]() -> Z {
            if (k == "A") { is >> i >> j >> l >> f; g.addEdge(i, j, Lab<L>::mk(l), (bool)f); }
            else if (k == "R") { is >> i >> j; removeEdgeAliased(g, i, j); }
            else if (k == "SL") g.removeSelfLoops();
            else if (k == "V") { is >> i; removeVertexAliased(g, i); }
            else if (k == "CL") g.clearEdges();
            else if (k == "RZ") { is >> i; g.resize(i); }
            else if (k == "SLB") { is >> i >> j >> l >> f; g.setEdgeLabel(i, j, Lab<L>::mk(l), (bool)f); }
            else if (k == "DD") g.removeDuplicateEdges();
            else throw std::logic_error("unknown op " + k);
            return 0; });
}
