// Implementation side of the class-history correspondence (C01 C02 C03 C06 C07 C16 ...):
// replays each case on the real graph classes and prints, after every call, how it ended and what every public observer reports.
#include "common.hpp"
#include "BaseGraph/directed_graph.hpp"
#include "BaseGraph/undirected_graph.hpp"
#include "BaseGraph/algorithms/topology.hpp"
#include "ops_classes.hpp"
#include <unordered_set>
using namespace BaseGraph;
using namespace vh;

// ---- observation of LabeledDirectedGraph<L>: layout of DirectedModel.observe ----
template <class L> Segs observeD(const LabeledDirectedGraph<L> &g) {
    Segs S(9); size_t n = g.getSize(); S[8] = iterSeg(g);
    S[0].push_back(n); S[0].push_back(g.getEdgeNumber());
    for (unsigned i = 0; i < n; i++) for (unsigned j = 0; j < n; j++) S[1].push_back(guard([&] { return (Z)g.hasEdge(i, j); }));
    for (unsigned i = 0; i < n; i++) {
        S[2].push_back(guard([&] { return (Z)g.getOutDegree(i); }));
        guardVec(S[2], n, [&] { std::vector<Z> c(n, 0); for (auto j : g.getOutNeighbours(i)) if (j < n) c[j]++; return c; });
    }
    for (unsigned i = 0; i < n; i++) for (unsigned j = 0; j < n; j++) {
        S[3].push_back(guard([&] { return Lab<L>::code(g.getEdgeLabel(i, j, false)); }));
        S[3].push_back(guard([&] { g.getEdgeLabel(i, j, true); return (Z)1; }));
    }
    for (unsigned i = 0; i < n; i++) for (unsigned j = 0; j < n; j++) for (size_t l = 0; l < Lab<L>::alpha(); l++)
        S[4].push_back(guard([&] { return (Z)g.hasEdge(i, j, Lab<L>::mk(l)); }));
    guardVec(S[5], n, [&] { auto d = g.getInDegrees(); return std::vector<Z>(d.begin(), d.end()); });
    for (unsigned i = 0; i < n; i++) S[5].push_back(guard([&] { return (Z)g.getInDegree(i); }));
    guardVec(S[5], n, [&] { auto d = g.getOutDegrees(); return std::vector<Z>(d.begin(), d.end()); });
    guardVec(S[6], n * n, [&] { auto m = g.getAdjacencyMatrix(); std::vector<Z> v; for (auto &r : m) for (auto x : r) v.push_back(x); return v; });
    guardVec(S[7], n * n + 1, [&] {
        std::vector<Z> c(n * n + 1, 0);
        for (auto e : g.edges()) { c[0]++; if (e.first < n && e.second < n) c[1 + e.first * n + e.second]++; }
        return c; });
    return S;
}

template <class L> Obs queryD(const LabeledDirectedGraph<L> &g, unsigned v) {
    Obs q;
    q.push_back(guard([&] { return (Z)g.hasEdge(v, 0); })); q.push_back(guard([&] { return (Z)g.hasEdge(0, v); }));
    q.push_back(guard([&] { return (Z)g.getOutNeighbours(v).size(); })); q.push_back(guard([&] { return (Z)g.getOutDegree(v); }));
    q.push_back(guard([&] { return (Z)g.getInDegree(v); }));
    q.push_back(guard([&] { return Lab<L>::code(g.getEdgeLabel(v, 0, false)); })); q.push_back(guard([&] { return Lab<L>::code(g.getEdgeLabel(0, v, true)); }));
    q.push_back(guard([&] { return (Z)g.hasEdge(v, 0, Lab<L>::mk(0)); }));
    return q;
}
template <class L> void runD(size_t n0, const std::vector<std::string> &ops) {
    LabeledDirectedGraph<L> g(n0);
    for (auto &op : ops) {
        std::istringstream is(op); std::string k; long i = 0; is >> k;
        if (k == "Q") { is >> i; Segs o = observeD(g); o.insert(o.begin(), Obs{0}); o.push_back(queryD(g, (unsigned)i)); emit("I", o); continue; }
        if (!k.empty() && k[0] == '~') { Z r = applyOp(g, op.substr(op.find('~') + 1)); emit("I", Segs{Obs{r}}); continue; }   // silent step: result only
        Z r = applyOp(g, op);
        Segs o = observeD(g); o.insert(o.begin(), Obs{r}); o.push_back(Obs{}); emit("I", o);
    }
}

// ---- observation of LabeledUndirectedGraph<L>: layout of UndirectedModel.u_observe ----
template <class L> Segs observeU(const LabeledUndirectedGraph<L> &g) {
    Segs S(9); size_t n = g.getSize(); S[8] = iterSeg(g);
    S[0].push_back(n); S[0].push_back(g.getEdgeNumber());
    for (unsigned i = 0; i < n; i++) for (unsigned j = 0; j < n; j++) S[1].push_back(guard([&] { return (Z)g.hasEdge(i, j); }));
    for (unsigned i = 0; i < n; i++)
        guardVec(S[2], n, [&] { std::vector<Z> c(n, 0); for (auto j : (i % 2 ? g.getNeighbours(i) : g.getOutNeighbours(i))) if (j < n) c[j]++; return c; });
    for (unsigned i = 0; i < n; i++) for (unsigned j = 0; j < n; j++) {
        S[3].push_back(guard([&] { return Lab<L>::code(g.getEdgeLabel(i, j, false)); }));
        S[3].push_back(guard([&] { g.getEdgeLabel(i, j, true); return (Z)1; }));
    }
    for (unsigned i = 0; i < n; i++) for (unsigned j = 0; j < n; j++) for (size_t l = 0; l < Lab<L>::alpha(); l++)
        S[4].push_back(guard([&] { return (Z)g.hasEdge(i, j, Lab<L>::mk(l)); }));
    for (unsigned i = 0; i < n; i++) S[5].push_back(guard([&] { return (Z)g.getDegree(i, true); }));
    for (unsigned i = 0; i < n; i++) S[5].push_back(guard([&] { return (Z)g.getDegree(i, false); }));
    guardVec(S[5], n, [&] { auto d = g.getDegrees(true); return std::vector<Z>(d.begin(), d.end()); });
    guardVec(S[5], n, [&] { auto d = g.getDegrees(false); return std::vector<Z>(d.begin(), d.end()); });
    for (int tw = 1; tw >= 0; tw--)
        guardVec(S[6], n * n, [&] { auto m = g.getAdjacencyMatrix((bool)tw); std::vector<Z> v; for (auto &r : m) for (auto x : r) v.push_back(x); return v; });
    guardVec(S[7], n * n + 1, [&] {
        std::vector<Z> c(n * n + 1, 0);
        for (auto e : g.edges()) { c[0]++; if (e.first < n && e.second < n) c[1 + e.first * n + e.second]++; }
        return c; });
    return S;
}

template <class L> Obs queryU(const LabeledUndirectedGraph<L> &g, unsigned v) {
    Obs q;
    q.push_back(guard([&] { return (Z)g.hasEdge(v, 0); })); q.push_back(guard([&] { return (Z)g.hasEdge(0, v); }));
    q.push_back(guard([&] { return (Z)g.getNeighbours(v).size(); })); q.push_back(guard([&] { return (Z)g.getDegree(v, true); }));
    q.push_back(guard([&] { return (Z)g.getDegree(v, false); }));
    q.push_back(guard([&] { return Lab<L>::code(g.getEdgeLabel(v, 0, false)); })); q.push_back(guard([&] { return Lab<L>::code(g.getEdgeLabel(0, v, true)); }));
    q.push_back(guard([&] { return (Z)g.hasEdge(v, 0, Lab<L>::mk(0)); }));
    return q;
}
template <class L> void runU(size_t n0, const std::vector<std::string> &ops) {
    LabeledUndirectedGraph<L> g(n0);
    for (auto &op : ops) {
        std::istringstream is(op); std::string k; long i = 0; is >> k;
        if (k == "Q") { is >> i; Segs o = observeU(g); o.insert(o.begin(), Obs{0}); o.push_back(queryU(g, (unsigned)i)); emit("I", o); continue; }
        if (!k.empty() && k[0] == '~') { Z r = applyOp(g, op.substr(op.find('~') + 1)); emit("I", Segs{Obs{r}}); continue; }   // silent step: result only
        Z r = applyOp(g, op);
        Segs o = observeU(g); o.insert(o.begin(), Obs{r}); o.push_back(Obs{}); emit("I", o);
    }
}
template <class L> Segs obsOf(const LabeledDirectedGraph<L> &g) { return observeD(g); }
template <class L> Segs obsOf(const LabeledUndirectedGraph<L> &g) { return observeU(g); }
#include "eqcase.hpp"
template <class L> void eqD(size_t n, const std::vector<std::string> &a, const std::vector<std::string> &b) { eqCase<LabeledDirectedGraph<L>>(n, a, b); }
template <class L> void eqU(size_t n, const std::vector<std::string> &a, const std::vector<std::string> &b) { eqCase<LabeledUndirectedGraph<L>>(n, a, b); }

#define DISPATCH(fn, lk, ...)                                                                                         \
    do {                                                                                                              \
        if (lk == "none") fn<NoLabel>(__VA_ARGS__); else if (lk == "int") fn<int>(__VA_ARGS__);                       \
        else if (lk == "dbl") fn<double>(__VA_ARGS__); else if (lk == "chr") fn<char>(__VA_ARGS__);                   \
        else if (lk == "str") fn<std::string>(__VA_ARGS__); else if (lk == "pt") fn<Pt>(__VA_ARGS__);                 \
        else if (lk == "long") fn<long>(__VA_ARGS__);                                                                  \
        else throw std::logic_error("unknown label kind " + lk);                                                      \
    } while (0)

namespace std { template <> struct hash<vh::Pt> { size_t operator()(const vh::Pt &p) const { return p.x; } }; }

// ---- C09: conversions of the graph a history builds ----
template <class L> void cvD(size_t n, const std::vector<std::string> &ops) {
    LabeledDirectedGraph<L> g(n); for (auto &op : ops) applyOp(g, op);
    emitGuarded([&] { return observeD(g.getReversedGraph()); });
    emitGuarded([&] { auto r = g.getReversedGraph(); auto rr = r.getReversedGraph(); return Segs{Obs{(Z)((rr == g) && (g == rr) && !(rr != g))}}; });
    emitGuarded([&] { LabeledUndirectedGraph<L> u(g); return observeU(u); });
}
template <class L> void cvU(size_t n, const std::vector<std::string> &ops) {
    LabeledUndirectedGraph<L> g(n); for (auto &op : ops) applyOp(g, op);
    emitGuarded([&] { return observeD(g.getDirectedGraph()); });
    emitGuarded([&] { auto d = g.getDirectedGraph(); LabeledUndirectedGraph<L> u(d); return Segs{Obs{(Z)((u == g) && (g == u))}}; });
}
// ---- C09: edge-list constructors from several containers ----
template <class G, class L> struct FromList {
    template <class C> static G make(const std::vector<Triple> &ts) {
        C c; for (auto it = ts.rbegin(); it != ts.rend(); ++it) c.push_front(LabeledEdge<L>(it->i, it->j, Lab<L>::mk(it->l))); return G(c); }
    static Segs run(const std::vector<Triple> &ts, Segs (*obs)(const G &)) {
        std::vector<LabeledEdge<L>> v; for (auto &t : ts) v.push_back(LabeledEdge<L>(t.i, t.j, Lab<L>::mk(t.l)));
        G gv(v);
        G gl = make<std::list<LabeledEdge<L>>>(ts), gd = make<std::deque<LabeledEdge<L>>>(ts), gf = make<std::forward_list<LabeledEdge<L>>>(ts);
        Segs o = obs(gv);
        if (!(gv == gl && gl == gd && gd == gf && gf == gv) || obs(gl) != o || obs(gd) != o || obs(gf) != o) o.push_back(Obs{-7});   // containers must agree
        return o;
    }
};
template <class G> struct FromList<G, NoLabel> {
    template <class C> static G make(const std::vector<Triple> &ts) { C c; for (auto it = ts.rbegin(); it != ts.rend(); ++it) c.push_front(Edge(it->i, it->j)); return G(c); }
    static Segs run(const std::vector<Triple> &ts, Segs (*obs)(const G &)) {
        std::vector<Edge> v; for (auto &t : ts) v.push_back(Edge(t.i, t.j));
        G gv(v);
        G gl = make<std::list<Edge>>(ts), gd = make<std::deque<Edge>>(ts), gf = make<std::forward_list<Edge>>(ts);
        std::set<Edge> st(v.begin(), v.end()); G gs(st);            // a sorted container: same graph as a value (no labels to lose)
        Segs o = obs(gv);
        if (!(gv == gl && gl == gd && gd == gf && gf == gs && gs == gv) || obs(gl) != o || obs(gd) != o || obs(gf) != o) o.push_back(Obs{-7});
        return o;
    }
};
template <class L> void elD(const std::vector<Triple> &ts) { emitGuarded([&] { return FromList<LabeledDirectedGraph<L>, L>::run(ts, &observeD<L>); }); }
template <class L> void elU(const std::vector<Triple> &ts) { emitGuarded([&] { return FromList<LabeledUndirectedGraph<L>, L>::run(ts, &observeU<L>); }); }

// ---- C10: subgraph extraction on the graph a history builds; the iteration order of the very unordered_set object is reported first ----
template <class G, class ObsF> void subCase(G &g, const std::vector<unsigned> &vs, ObsF obs) {
    std::unordered_set<VertexIndex> S(vs.begin(), vs.end());
    Obs order; for (auto v : S) order.push_back(v > 1000 ? 1000 : v);     // the driver represents every huge index by 1000
    emit("I", Segs{order});
    emitGuarded([&] { return obs(algorithms::getSubgraph(g, S)); });
    emitGuarded([&] {
        auto r = algorithms::getSubgraphWithRemap(g, S);
        Segs o = obs(r.first); Obs m;
        for (auto v : S) { auto it = r.second.find(v); m.push_back(it == r.second.end() ? -1 : (Z)it->second); }
        if (r.second.size() != S.size()) m.push_back(-9);
        o.push_back(m); return o; });
}
static std::vector<unsigned> parseSet(const std::string &str) { std::vector<unsigned> v; std::istringstream is(str); unsigned x; while (is >> x) v.push_back(x); return v; }
template <class L> void subD(size_t n, const std::vector<std::string> &ops, const std::vector<unsigned> &vs) {
    LabeledDirectedGraph<L> g(n); for (auto &op : ops) applyOp(g, op); subCase(g, vs, [](const LabeledDirectedGraph<L> &h) { return observeD(h); }); }
template <class L> void subU(size_t n, const std::vector<std::string> &ops, const std::vector<unsigned> &vs) {
    LabeledUndirectedGraph<L> g(n); for (auto &op : ops) applyOp(g, op); subCase(g, vs, [](const LabeledUndirectedGraph<L> &h) { return observeU(h); }); }

int main() {
    std::string line;
    while (std::getline(std::cin, line)) {
        auto c = line.find(':'); if (c == std::string::npos) continue;
        std::istringstream hd(line.substr(0, c)); std::string cls, lk; size_t n; hd >> cls;
        bool eq = cls == "EQ", cv = cls == "CV", el = cls == "EL", sub = cls == "SUB"; if (eq || cv || el || sub) hd >> cls;
        hd >> lk; if (!el) hd >> n;
        fputs(("CASE " + line + "\n").c_str(), stdout); fflush(stdout);
        if (eq) {
            std::string body = line.substr(c + 1); auto bar = body.find('|');
            auto a = splitOps(body.substr(0, bar)), b = splitOps(bar == std::string::npos ? "" : body.substr(bar + 1));
            if (cls == "D") DISPATCH(eqD, lk, n, a, b); else if (cls == "U") DISPATCH(eqU, lk, n, a, b);
            continue;
        }
        if (sub) {
            std::string body = line.substr(c + 1); auto bar = body.find('|');
            auto a = splitOps(body.substr(0, bar)); auto vs = parseSet(bar == std::string::npos ? "" : body.substr(bar + 1));
            if (cls == "D") DISPATCH(subD, lk, n, a, vs); else DISPATCH(subU, lk, n, a, vs);
            continue;
        }
        if (el) { auto ts = parseTriples(line.substr(c + 1)); if (cls == "D") DISPATCH(elD, lk, ts); else DISPATCH(elU, lk, ts); continue; }
        auto ops = splitOps(line.substr(c + 1));
        if (cv) { if (cls == "D") DISPATCH(cvD, lk, n, ops); else DISPATCH(cvU, lk, n, ops); continue; }
        if (cls == "D") DISPATCH(runD, lk, n, ops);
        else if (cls == "U") DISPATCH(runU, lk, n, ops);
        else { fputs("I unknown-class\n", stdout); }
    }
    return 0;
}
