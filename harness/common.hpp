// Shared pieces of the implementation-side harnesses.  Everything here drives the real headers under /repo/include
// through their public API and prints integer observation vectors in exactly the layout of the Coq `observe` functions.
#pragma once
#include <algorithm>
#include <cstdio>
#include <functional>
#include <iostream>
#include <sstream>
#include <stdexcept>
#include <string>
#include <vector>
#include <deque>
#include <forward_list>
#include <list>
#include <set>
#include "BaseGraph/types.h"

namespace vh {
using BaseGraph::NoLabel;
typedef long long Z;
typedef std::vector<Z> Obs;

// error codes = Base.zexn
const Z E_OOR = -101, E_INV = -102, E_RTE = -103, E_STD = -104, E_OTHER = -107;

template <class F> Z guard(F f) {
    try { return f(); }
    catch (std::out_of_range &) { return E_OOR; }
    catch (std::invalid_argument &) { return E_INV; }
    catch (std::runtime_error &) { return E_RTE; }
    catch (std::exception &) { return E_STD; }
    catch (...) { return E_OTHER; }
}
// a vector-valued observer: its entries (must be n of them) or n copies of the error code
template <class F> void guardVec(Obs &o, size_t n, F f) {
    std::vector<Z> v;
    Z code = guard([&]() { v = f(); return 0; });
    if (code == 0) { for (Z x : v) o.push_back(x); }
    else for (size_t k = 0; k < n; k++) o.push_back(code);
}

// user-defined label type
struct Pt {
    int x = 0; int y = 0;
    bool operator==(const Pt &o) const { return x == o.x && y == o.y; }
};

// integer code <-> label value, injective on the small alphabet the generators use; code 0 <-> EdgeLabel()
template <class L> struct Lab {
    static L mk(long c) { return (L)c; }
    static Z code(const L &l) { return (Z)l; }
    static size_t alpha() { return 4; }
};
template <> struct Lab<NoLabel> {
    static NoLabel mk(long) { return NoLabel(); }
    static Z code(const NoLabel &) { return 0; }
    static size_t alpha() { return 1; }
};
template <> struct Lab<std::string> {
    static std::string mk(long c) { return c == 0 ? std::string() : "L" + std::to_string(c); }
    static Z code(const std::string &s) { return s.empty() ? 0 : std::stol(s.substr(1)); }
    static size_t alpha() { return 4; }
};
template <> struct Lab<Pt> {
    static Pt mk(long c) { Pt p; p.x = (int)c; p.y = (int)(-2 * c); return p; }
    static Z code(const Pt &p) { return p.x; }
    static size_t alpha() { return 4; }
};
template <> struct Lab<double> {            // dyadic values: code c <-> c / 4
    static double mk(long c) { return c / 4.0; }
    static Z code(const double &d) { return (Z)(d * 4.0); }
    static size_t alpha() { return 4; }
};
template <> struct Lab<char> {
    static char mk(long c) { return c == 0 ? char() : (char)('a' + c); }
    static Z code(const char &c) { return c == char() ? 0 : (Z)(c - 'a'); }
    static size_t alpha() { return 4; }
};

typedef std::vector<Obs> Segs;
inline void emit(const char *tag, const Segs &segs) {
    std::string s(tag);
    for (size_t k = 0; k < segs.size(); k++) { if (k) s += " |"; for (Z x : segs[k]) { s += ' '; s += std::to_string(x); } }
    s += '\n';
    fputs(s.c_str(), stdout);
    fflush(stdout);
}
// iteration segment (C08): the vertex sequence of a range-for, then three flags - the post-increment traversal of edges() equals the
// pre-increment one, a second traversal equals the first, begin() == end() - or an error code in place of the flags
template <class G> Obs iterSeg(const G &g) {
    Obs o;
    for (auto v : g) o.push_back(v);
    typedef std::pair<BaseGraph::VertexIndex, BaseGraph::VertexIndex> E;
    std::vector<E> pre, post, again;
    Z code = guard([&]() -> Z {
        { auto es = g.edges(); for (auto it = es.begin(); it != es.end(); ++it) pre.push_back(*it); }
        { auto es = g.edges(); auto it = es.begin(); while (it != es.end()) { auto old = it++; post.push_back(*old); } }
        for (auto e : g.edges()) again.push_back(e);
        return 0; });
    if (code != 0) { o.push_back(code); o.push_back(code); o.push_back(code); return o; }
    // vertex enumeration with post-increment (*it++ and old = it++) must visit what range-for visits
    std::vector<BaseGraph::VertexIndex> vfor, vpost; for (auto v : g) vfor.push_back(v);
    { auto it = g.begin(); while (it != g.end()) { auto old = it++; vpost.push_back(*old); } }
    o.push_back(pre == post && vfor == vpost); o.push_back(pre == again);
    o.push_back(guard([&]() -> Z {
        auto es = g.edges(); bool eq = es.begin() == es.end(); bool ne = es.begin() != es.end();
        if (eq == ne) return -7;
        // the same question asked of two separate edges() ranges of the one graph, and a traversal written with separate calls
        bool eq2 = g.edges().begin() == g.edges().end(), ne2 = g.edges().begin() != g.edges().end();
        if (eq2 != eq || ne2 != ne) return -8;
        size_t k = 0; for (auto it = g.edges().begin(); it != g.edges().end(); ++it) if (++k > pre.size()) break;
        if (k != pre.size()) return -8;
        return (Z)eq; }));
    return o;
}
// C17: an argument may be handed over as a reference to an element of the graph's OWN adjacency lists - perfectly valid use of an API
// that takes vertex indices by value (g.removeVertexFromEdgeList(g.getOutNeighbours(2).front())). Same meaning as passing the number.
template <class G> void removeVertexAliased(G &g, long v) {
    if (v >= 0 && (size_t)v < g.getSize())
        for (BaseGraph::VertexIndex u : g) for (const BaseGraph::VertexIndex &w : g.getOutNeighbours(u)) if ((long)w == v) { g.removeVertexFromEdgeList(w); return; }
    g.removeVertexFromEdgeList(v);
}
template <class G> void removeEdgeAliased(G &g, long i, long j) {
    if (i >= 0 && (size_t)i < g.getSize())
        for (const BaseGraph::VertexIndex &w : g.getOutNeighbours(i)) if ((long)w == j) { g.removeEdge(i, w); return; }
    g.removeEdge(i, j);
}
inline std::vector<std::string> splitOps(const std::string &body) {
    std::vector<std::string> r; std::stringstream ss(body); std::string op;
    while (std::getline(ss, op, ';')) { std::istringstream is(op); std::string k; if (is >> k) r.push_back(op); }
    return r;
}
// parse "i j l ; i j l ; ..." into triples
struct Triple { unsigned i, j; long l; };
inline std::vector<Triple> parseTriples(const std::string &body) {
    std::vector<Triple> r;
    for (auto &t : splitOps(body)) { std::istringstream is(t); Triple x{0, 0, 0}; is >> x.i >> x.j >> x.l; r.push_back(x); }
    return r;
}
// run f, emit its segments, or the error code as a one-segment line
template <class F> void emitGuarded(F f) {
    Segs out; Z code = guard([&]() -> Z { out = f(); return 0; });
    if (code != 0) out = Segs{Obs{code}};
    emit("I", out);
}
} // namespace vh
