// Implementation side of C18 for the multigraph and weighted classes: reader threads over ONE shared graph object (see impl_conc.cpp).
// Const entry points exercised by every thread: all observers and both iterators, ==, copy construction, findGeodesicsDijkstra (weighted
// classes) from two sources, vertex and edge iteration.  (The BFS-based searches and the file routines do not accept these classes:
// their labelled-graph base is private.)
#define main impl_multi_main
#include "impl_multi.cpp"
#undef main
#include "BaseGraph/algorithms/paths.hpp"
#include <atomic>
#include <thread>
using namespace BaseGraph::algorithms;

static std::string ser(const Segs &s) { std::string r; for (auto &o : s) { for (Z x : o) { r += std::to_string(x); r += ' '; } r += '|'; } return r; }
template <class F> std::string serGuarded(F f) { Segs out; Z code = guard([&]() -> Z { out = f(); return 0; }); if (code != 0) out = Segs{Obs{code}}; return ser(out); }
static Z zv(size_t x) { return x == BASEGRAPH_VERTEX_MAX ? 4294967295LL : (Z)x; }
template <class G> struct IsWeighted { static const bool value = false; };
template <> struct IsWeighted<DirectedWeightedGraph> { static const bool value = true; };
template <> struct IsWeighted<UndirectedWeightedGraph> { static const bool value = true; };
template <class G> typename std::enable_if<IsWeighted<G>::value, Segs>::type dijkstraOf(const G &g, unsigned s) {
    auto r = findGeodesicsDijkstra(g, s); Segs o(2);
    for (auto d : r.first) o[0].push_back(d == BASEGRAPH_INFINITY ? -1 : (Z)(d * 4.0));
    for (auto p : r.second) o[1].push_back(zv(p));
    return o;
}
template <class G> typename std::enable_if<!IsWeighted<G>::value, Segs>::type dijkstraOf(const G &g, unsigned s) { return Segs{Obs{(Z)g.getTotalEdgeNumber(), (Z)s}}; }

template <class G> std::string readerCall(const G &g, int k, unsigned s, unsigned t) {
    switch (k) {
    case 0: return ser(obsOf(g));
    case 1: return serGuarded([&] { G c(g); Z e = (c == g) && (g == c) && !(g != c) && (g == g); Segs o = obsOf(c); o.push_back(Obs{e}); return o; });
    case 2: return serGuarded([&] { return dijkstraOf(g, s); });
    case 3: return serGuarded([&] { return dijkstraOf(g, t); });
    default: return serGuarded([&] { Segs o(2); for (auto v : g) o[0].push_back(v); for (auto e : g.edges()) { o[1].push_back(e.first); o[1].push_back(e.second); } return o; });
    }
}
static const int NCALLS = 5;
template <class G> void emitAsStep(const G &g) { Segs o = obsOf(g); o.insert(o.begin(), Obs{0}); o.push_back(Obs{}); emit("I", o); }

template <class G> void concCase(size_t n, const std::vector<std::string> &ops, unsigned T, unsigned R, unsigned s, unsigned t) {
    G gm(n); for (auto &op : ops) applyOp(gm, op);
    const G &g = gm;
    std::vector<std::string> ref(NCALLS);
    const G refg(gm);           // reference on a copy: the shared object is met "cold" by the reader threads
    for (int k = 0; k < NCALLS; k++) ref[k] = readerCall(refg, k, s, t);
    emitAsStep(refg);
    std::atomic<int> go(0); std::atomic<long> bad(0);
    std::vector<std::thread> th;
    for (unsigned id = 0; id < T; id++)
        th.emplace_back([&, id] {
            while (!go.load()) std::this_thread::yield();
            for (unsigned r = 0; r < R; r++)
                for (int q = 0; q < NCALLS; q++) { int k = (q + id) % NCALLS; if (readerCall(g, k, s, t) != ref[k]) bad++; }
        });
    go.store(1);
    for (auto &x : th) x.join();
    emit("I", Segs{Obs{(Z)T, (Z)R, (Z)bad.load()}});
    emitAsStep(g);
}
// CONC DM|UM|DW|UW <lk> <n> : ops | T R s t |
int main() {
    std::string line;
    while (std::getline(std::cin, line)) {
        auto c = line.find(':'); if (c == std::string::npos) continue;
        std::istringstream hd(line.substr(0, c)); std::string kind, cls, lk; size_t n; hd >> kind >> cls >> lk >> n;
        fputs(("CASE " + line + "\n").c_str(), stdout); fflush(stdout);
        std::string body = line.substr(c + 1); std::vector<std::string> parts; { std::stringstream ss(body); std::string p; while (std::getline(ss, p, '|')) parts.push_back(p); }
        while (parts.size() < 2) parts.push_back("");
        auto ops = splitOps(parts[0]); unsigned T = 2, R = 1, s = 0, t = 0; { std::istringstream q(parts[1]); q >> T >> R >> s >> t; }
        if (cls == "DM") concCase<DirectedMultigraph>(n, ops, T, R, s, t); else if (cls == "UM") concCase<UndirectedMultigraph>(n, ops, T, R, s, t);
        else if (cls == "DW") concCase<DirectedWeightedGraph>(n, ops, T, R, s, t); else if (cls == "UW") concCase<UndirectedWeightedGraph>(n, ops, T, R, s, t);
        else fputs("I unknown-class\n", stdout);
    }
    return 0;
}
