// Implementation side of the file-routine correspondence (C13 C14 C15): byte strings are written to a scratch file and given to the real
// loaders; graphs built by histories are written by the real writers and the bytes read back.
#include "ops_classes.hpp"
#include "BaseGraph/fileio.hpp"
#include <cstring>
#include <unistd.h>
using namespace BaseGraph::io;

static std::string scratchDir;
static std::string scratch(const char *name) { return scratchDir + "/" + name; }
static std::vector<unsigned char> unhex(const std::string &s) {
    std::vector<unsigned char> b; std::string t; for (char c : s) if (!isspace((unsigned char)c)) t += c;
    for (size_t k = 0; k + 1 < t.size(); k += 2) b.push_back((unsigned char)std::stoul(t.substr(k, 2), nullptr, 16));
    return b;
}
static void putFile(const std::string &path, const std::vector<unsigned char> &b) { FILE *f = fopen(path.c_str(), "wb"); if (!b.empty()) fwrite(b.data(), 1, b.size(), f); fclose(f); }
static std::vector<unsigned char> getFile(const std::string &path) {
    std::vector<unsigned char> b; FILE *f = fopen(path.c_str(), "rb"); if (!f) return b; int c; while ((c = fgetc(f)) != EOF) b.push_back((unsigned char)c); fclose(f); return b; }

// label -> integers of the observation
template <class T> struct Bits { static void put(Obs &o, const T &v) { unsigned long long x = 0; memcpy(&x, &v, sizeof(T)); o.push_back((Z)x); } };
template <> struct Bits<NoLabel> { static void put(Obs &, const NoLabel &) {} };
template <> struct Bits<std::string> { static void put(Obs &o, const std::string &s) { o.push_back(s.size()); for (unsigned char c : s) o.push_back(c); } };
template <> struct Bits<int> { static void put(Obs &o, const int &v) { o.push_back(v); } };
// unsigned 64-bit patterns do not fit a signed long long above 2^63: printed through a string
static std::string u64(unsigned long long v) { return std::to_string(v); }

template <class G> Segs ioObs(const G &g, std::vector<std::string> *big = nullptr) {
    Segs S(3); size_t n = g.getSize(); S[0] = {(Z)n, (Z)g.getEdgeNumber()};
    for (unsigned i = 0; i < n; i++) { auto &l = g.getOutNeighbours(i); S[1].push_back(l.size()); for (auto j : l) S[1].push_back(j); }
    return S;
}
template <class G, class T> Segs ioObsL(const G &g) {
    Segs S = ioObs(g); size_t n = g.getSize();
    for (unsigned i = 0; i < n; i++) for (auto j : g.getOutNeighbours(i)) Bits<T>::put(S[2], g.getEdgeLabel(i, j, false));
    return S;
}
// emit with 64-bit unsigned support: values are kept as strings
static void emitRaw(const std::vector<std::vector<std::string>> &segs) {
    std::string s("I"); for (size_t k = 0; k < segs.size(); k++) { if (k) s += " |"; for (auto &x : segs[k]) { s += ' '; s += x; } } s += '\n'; fputs(s.c_str(), stdout); fflush(stdout); }
template <class G> void emitU64(const G &g, bool lead = false) {     // observation of a graph with 8-byte labels
    std::vector<std::vector<std::string>> S(3); size_t n = g.getSize();
    S[0] = {std::to_string(n), std::to_string(g.getEdgeNumber())};
    for (unsigned i = 0; i < n; i++) { auto &l = g.getOutNeighbours(i); S[1].push_back(std::to_string(l.size())); for (auto j : l) S[1].push_back(std::to_string(j)); }
    for (unsigned i = 0; i < n; i++) for (auto j : g.getOutNeighbours(i)) { auto v = g.getEdgeLabel(i, j, false); unsigned long long x = 0; memcpy(&x, &v, 8); S[2].push_back(u64(x)); }
    if (lead) S.insert(S.begin(), std::vector<std::string>{"1"});
    emitRaw(S);
}
template <class F> void guardedRaw(F f) { Z code = guard([&]() -> Z { f(); return 0; }); if (code != 0) emit("I", Segs{Obs{code}}); }

template <template <class...> class G, class T> void binLoad(const std::string &path) {
    if (sizeof(T) == 8) guardedRaw([&] { auto g = loadBinaryEdgeList<G, T>(path); emitU64(g); });
    else emitGuarded([&] { auto g = loadBinaryEdgeList<G, T>(path); return ioObsL<G<T>, T>(g); });
}
template <template <class...> class G> void binLoadNone(const std::string &path) { emitGuarded([&] { auto g = loadBinaryEdgeList<G, NoLabel>(path); return ioObs(g); }); }
template <template <class...> class G> void binCase(const std::string &w, const std::vector<unsigned char> &bytes) {
    std::string path = scratch("in.bin"); putFile(path, bytes);
    if (w == "0") binLoadNone<G>(path); else if (w == "1") binLoad<G, unsigned char>(path); else if (w == "2") binLoad<G, unsigned short>(path);
    else if (w == "4") binLoad<G, unsigned int>(path); else if (w == "4f") binLoad<G, float>(path);
    else if (w == "8") binLoad<G, unsigned long long>(path); else if (w == "8f") binLoad<G, double>(path);
}
// the target of a writer holds older content (27 bytes, not a whole number of records of any width): the writer must replace it
static void putStale(const std::string &path) { putFile(path, std::vector<unsigned char>(27, 0xEE)); }
// records of a written file, sorted by (source, destination)
static Obs sortedRecords(const std::vector<unsigned char> &b, size_t w) {
    size_t rs = 8 + w; std::vector<std::vector<unsigned char>> recs;
    for (size_t k = 0; k + rs <= b.size(); k += rs) recs.push_back(std::vector<unsigned char>(b.begin() + k, b.begin() + k + rs));
    auto key = [](const std::vector<unsigned char> &r) { unsigned long long s = 0, d = 0; for (int i = 3; i >= 0; i--) { s = s * 256 + r[i]; d = d * 256 + r[4 + i]; } return std::make_pair(s, d); };
    std::stable_sort(recs.begin(), recs.end(), [&](const std::vector<unsigned char> &x, const std::vector<unsigned char> &y) { return key(x) < key(y); });
    Obs o; for (auto &r : recs) for (auto c : r) o.push_back(c);
    if (b.size() % rs) o.push_back(-9);           // the file is not a whole number of records
    return o;
}
template <template <class...> class G, class T> void binWrite(size_t n, const std::vector<std::string> &ops, size_t w) {
    G<T> g(n); for (auto &op : ops) applyOp(g, op);
    std::string path = scratch("out.bin"); putStale(path);
    emitGuarded([&] { writeBinaryEdgeList(g, path); return Segs{sortedRecords(getFile(path), w)}; });
    if (w == 8) guardedRaw([&] { auto h = loadBinaryEdgeList<G, T>(path); emitU64(h, true); });
    else emitGuarded([&] { auto h = loadBinaryEdgeList<G, T>(path); Segs S = ioObsL<G<T>, T>(h); S.insert(S.begin(), Obs{1}); return S; });
    emitGuarded([&] { auto h = loadBinaryEdgeList<G, T>(path); if (h.getSize() < g.getSize()) h.resize(g.getSize()); return Segs{Obs{(Z)((h == g) && (g == h))}}; });
}
template <template <class...> class G> void binWriteNone(size_t n, const std::vector<std::string> &ops) {
    G<NoLabel> g(n); for (auto &op : ops) applyOp(g, op);
    std::string path = scratch("out.bin"); putStale(path);
    emitGuarded([&] { writeBinaryEdgeList(g, path); return Segs{sortedRecords(getFile(path), 0)}; });
    emitGuarded([&] { auto h = loadBinaryEdgeList<G, NoLabel>(path); Segs S = ioObs(h); S.insert(S.begin(), Obs{1}); return S; });
    emitGuarded([&] { auto h = loadBinaryEdgeList<G, NoLabel>(path); if (h.getSize() < g.getSize()) h.resize(g.getSize()); return Segs{Obs{(Z)((h == g) && (g == h))}}; });
}
template <template <class...> class G> void binwCase(const std::string &w, size_t n, const std::vector<std::string> &ops) {
    if (w == "0") binWriteNone<G>(n, ops); else if (w == "1") binWrite<G, unsigned char>(n, ops, 1); else if (w == "2") binWrite<G, unsigned short>(n, ops, 2);
    else if (w == "4") binWrite<G, unsigned int>(n, ops, 4); else if (w == "8") binWrite<G, unsigned long long>(n, ops, 8);
}
// ---- text ----
static void putNames(Obs &o, const std::vector<std::string> &names) { for (auto &s : names) { o.push_back(s.size()); for (unsigned char c : s) o.push_back(c); } }
template <template <class...> class G, class T, class Parser> void txtLoad(const std::string &path, bool names, Parser parse) {
    emitGuarded([&] {
        auto r = names ? loadTextVertexLabeledEdgeList<G, T>(path, parse) : loadTextEdgeList<G, T>(path, parse);
        Segs S = ioObsL<G<T>, T>(r.first); Obs nm; putNames(nm, r.second); S.push_back(nm); return S; });
}
template <template <class...> class G> void txtCase(const std::string &lk, bool names, const std::vector<unsigned char> &bytes) {
    std::string path = scratch("in.txt"); putFile(path, bytes);
    if (lk == "none") emitGuarded([&] { auto r = names ? loadTextVertexLabeledEdgeList<G, NoLabel>(path) : loadTextEdgeList<G, NoLabel>(path);
                                        Segs S = ioObs(r.first); Obs nm; putNames(nm, r.second); S.push_back(nm); return S; });
    else if (lk == "int") txtLoad<G, int>(path, names, [](const std::string &s) { return std::stoi(s); });
    else txtLoad<G, std::string>(path, names, [](const std::string &s) { return s; });
}
template <template <class...> class G> void txtwCase(const std::string &lk, size_t n, const std::vector<std::string> &ops) {
    std::string path = scratch("out.txt"); putStale(path);
    if (lk == "none") {
        G<NoLabel> g(n); for (auto &op : ops) applyOp(g, op);
        emitGuarded([&] { writeTextEdgeList(g, path); Obs o; for (auto c : getFile(path)) o.push_back(c); return Segs{o}; });
        emitGuarded([&] { auto r = loadTextEdgeList<G, NoLabel>(path); auto h = r.first; if (h.getSize() < g.getSize()) h.resize(g.getSize()); return Segs{Obs{(Z)((h == g) && (g == h))}}; });
    } else {
        G<int> g(n); for (auto &op : ops) applyOp(g, op);
        emitGuarded([&] { writeTextEdgeList<G, int>(g, path, [](const int &v) { return std::to_string(v); }); Obs o; for (auto c : getFile(path)) o.push_back(c); return Segs{o}; });
        emitGuarded([&] { auto r = loadTextEdgeList<G, int>(path, [](const std::string &s) { return std::stoi(s); }); auto h = r.first;
                          if (h.getSize() < g.getSize()) h.resize(g.getSize()); return Segs{Obs{(Z)((h == g) && (g == h))}}; });
    }
}
static void noFile() {
    std::string bad = scratch("no/such/dir/file");
    Obs o;
    o.push_back(guard([&] { loadBinaryEdgeList<LabeledDirectedGraph, NoLabel>(bad); return (Z)0; }));
    o.push_back(guard([&] { loadBinaryEdgeList<LabeledUndirectedGraph, int>(bad); return (Z)0; }));
    o.push_back(guard([&] { loadTextEdgeList<LabeledDirectedGraph, NoLabel>(bad); return (Z)0; }));
    o.push_back(guard([&] { loadTextVertexLabeledEdgeList<LabeledUndirectedGraph, NoLabel>(bad); return (Z)0; }));
    LabeledDirectedGraph<NoLabel> g(2); g.addEdge(0, 1); LabeledUndirectedGraph<int> u(2); u.addEdge(0, 1, 5);
    o.push_back(guard([&] { writeBinaryEdgeList(g, bad); return (Z)0; }));
    o.push_back(guard([&] { writeBinaryEdgeList(u, bad); return (Z)0; }));
    o.push_back(guard([&] { writeTextEdgeList(g, bad); return (Z)0; }));
    o.push_back(guard([&] { writeTextEdgeList<LabeledUndirectedGraph, int>(u, bad, [](const int &v) { return std::to_string(v); }); return (Z)0; }));
    emit("I", Segs{o});
}
int main() {
    std::string tdir = std::string(getenv("TMPDIR") ? getenv("TMPDIR") : "/tmp") + "/verif-io-XXXXXX"; std::vector<char> tmpl(tdir.begin(), tdir.end()); tmpl.push_back(0);
    scratchDir = mkdtemp(tmpl.data());
    std::string line;
    while (std::getline(std::cin, line)) {
        auto c = line.find(':'); if (c == std::string::npos) continue;
        std::istringstream hd(line.substr(0, c)); std::string kind, cls, a, b; hd >> kind >> cls >> a >> b;
        fputs(("CASE " + line + "\n").c_str(), stdout); fflush(stdout);
        std::string body = line.substr(c + 1);
        if (kind == "BIN") { if (cls == "D") binCase<LabeledDirectedGraph>(a, unhex(body)); else binCase<LabeledUndirectedGraph>(a, unhex(body)); }
        else if (kind == "BINW") { auto ops = splitOps(body); if (cls == "D") binwCase<LabeledDirectedGraph>(a, std::stoul(b), ops); else binwCase<LabeledUndirectedGraph>(a, std::stoul(b), ops); }
        else if (kind == "TXT") { if (cls == "D") txtCase<LabeledDirectedGraph>(a, b == "1", unhex(body)); else txtCase<LabeledUndirectedGraph>(a, b == "1", unhex(body)); }
        else if (kind == "TXTW") { auto ops = splitOps(body); if (cls == "D") txtwCase<LabeledDirectedGraph>(a, std::stoul(b), ops); else txtwCase<LabeledUndirectedGraph>(a, std::stoul(b), ops); }
        else if (kind == "NOFILE") noFile();
        else fputs("I unknown-case\n", stdout);
    }
    std::string cmd = "rm -rf " + scratchDir; if (system(cmd.c_str())) {}
    return 0;
}
