// Implementation side of the path-search correspondence (C11 C12 C19, path-search part of C07): the searches run on counting graph
// types (derived classes that record every getOutNeighbours call), so the scan count and the pop sequence are observed without any hook.
#include "ops_classes.hpp"
#include "ops_multi.hpp"
#include "BaseGraph/algorithms/paths.hpp"
using namespace BaseGraph::algorithms;

template <class L> struct CountD : LabeledDirectedGraph<L> {
    explicit CountD(size_t n = 0) : LabeledDirectedGraph<L>(n) {}
    mutable std::vector<VertexIndex> scans;
    const Successors &getOutNeighbours(VertexIndex v) const { scans.push_back(v); return LabeledDirectedGraph<L>::getOutNeighbours(v); }
};
template <class L> struct CountU : LabeledUndirectedGraph<L> {
    explicit CountU(size_t n = 0) : LabeledUndirectedGraph<L>(n) {}
    mutable std::vector<VertexIndex> scans;
    const Successors &getOutNeighbours(VertexIndex v) const { scans.push_back(v); return LabeledUndirectedGraph<L>::getOutNeighbours(v); }
};
template <class W> struct CountW : W {
    explicit CountW(size_t n = 0) : W(n) {}
    mutable std::vector<VertexIndex> scans;
    const Successors &getOutNeighbours(VertexIndex v) const { scans.push_back(v); return W::getOutNeighbours(v); }
};
static Z zv(size_t x) { return x == BASEGRAPH_VERTEX_MAX ? 4294967295LL : (Z)x; }
static void putPath(Obs &o, const Path &p) { o.push_back(p.size()); for (auto v : p) o.push_back(v); }
static void putPaths(Obs &o, const MultiplePaths &ps) {
    std::vector<std::vector<Z>> v; for (auto &p : ps) v.push_back(std::vector<Z>(p.begin(), p.end()));
    std::sort(v.begin(), v.end()); o.push_back(v.size()); for (auto &p : v) { o.push_back(p.size()); for (auto x : p) o.push_back(x); }
}
template <class G> void pathCase(G &g, unsigned s, unsigned t) {
    emitGuarded([&] { g.scans.clear(); auto r = findVertexPredecessors(g, s); Segs o(3);
        for (auto d : r.first) o[0].push_back(zv(d)); for (auto p : r.second) o[1].push_back(zv(p)); o[2].push_back(g.scans.size()); return o; });
    emitGuarded([&] { g.scans.clear(); auto r = findAllVertexPredecessors(g, s); Segs o(3);
        for (auto d : r.first) o[0].push_back(zv(d));
        for (auto &l : r.second) { std::vector<Z> v(l.begin(), l.end()); std::sort(v.begin(), v.end()); o[1].push_back(v.size()); for (auto x : v) o[1].push_back(x); }
        o[2].push_back(g.scans.size()); return o; });
    emitGuarded([&] { Segs o(1); putPath(o[0], findGeodesics(g, s, t)); return o; });
    emitGuarded([&] { Segs o(1); putPaths(o[0], findAllGeodesics(g, s, t)); return o; });
    emitGuarded([&] { Segs o(1); for (auto &p : findGeodesicsFromVertex(g, s)) putPath(o[0], p); return o; });
    emitGuarded([&] { Segs o(1); for (auto &ps : findAllGeodesicsFromVertex(g, s)) putPaths(o[0], ps); return o; });
    // the two reconstruction functions called directly with (s, t): they take vertex indices themselves (C07). The table handed in is the
    // one the search from s computes, or from vertex 0 when s is out of range (the call has to be rejected before it is looked at)
    unsigned s0 = s < g.getSize() ? s : 0;
    emitGuarded([&] { Segs o(1); Predecessors P; if (g.getSize() > 0) P = findVertexPredecessors(g, s0);
        putPath(o[0], findPathToVertexFromPredecessors(g, s, t, P)); return o; });
    emitGuarded([&] { Segs o(1); MultiplePredecessors P; if (g.getSize() > 0) P = findAllVertexPredecessors(g, s0);
        putPaths(o[0], findMultiplePathsToVertexFromPredecessors(g, s, t, P)); return o; });
}
template <class G> void djCase(G &g, unsigned s) {
    emitGuarded([&] { g.scans.clear(); auto r = findGeodesicsDijkstra(g, s); Segs o(4);
        for (auto d : r.first) o[0].push_back(d == BASEGRAPH_INFINITY ? -1 : (Z)(d * 4.0));
        for (auto p : r.second) o[1].push_back(zv(p)); o[2].push_back(g.scans.size()); for (auto v : g.scans) o[3].push_back(v); return o; });
}
int main() {
    std::string line;
    while (std::getline(std::cin, line)) {
        auto c = line.find(':'); if (c == std::string::npos) continue;
        std::istringstream hd(line.substr(0, c)); std::string kind, cls, lk; size_t n; hd >> kind >> cls >> lk >> n;
        fputs(("CASE " + line + "\n").c_str(), stdout); fflush(stdout);
        std::string body = line.substr(c + 1); auto bar = body.find('|');
        auto ops = splitOps(body.substr(0, bar)); std::istringstream q(bar == std::string::npos ? "" : body.substr(bar + 1)); long s = 0, t = 0; q >> s >> t;
        if (kind == "PATH" && cls == "D") { CountD<NoLabel> g(n); for (auto &op : ops) applyOp(static_cast<LabeledDirectedGraph<NoLabel> &>(g), op); pathCase(g, (unsigned)s, (unsigned)t); }
        else if (kind == "PATH" && cls == "U") { CountU<NoLabel> g(n); for (auto &op : ops) applyOp(static_cast<LabeledUndirectedGraph<NoLabel> &>(g), op); pathCase(g, (unsigned)s, (unsigned)t); }
        else if (kind == "DJ" && cls == "DW") { CountW<DirectedWeightedGraph> g(n); for (auto &op : ops) applyOp(static_cast<DirectedWeightedGraph &>(g), op); djCase(g, (unsigned)s); }
        else if (kind == "DJ" && cls == "UW") { CountW<UndirectedWeightedGraph> g(n); for (auto &op : ops) applyOp(static_cast<UndirectedWeightedGraph &>(g), op); djCase(g, (unsigned)s); }
        else fputs("I unknown-case\n", stdout);
    }
    return 0;
}
