// Implementation side of the floating-point half of C05: histories on the weighted classes with ARBITRARY double weights (given as IEEE bit
// patterns); after every call the running total (long double, x87 extended) is printed as a canonical triple sign / odd mantissa /
// exponent, to be compared bit for bit with the Flocq model FloatTotal.ftrace, together with the edge count.
#include "common.hpp"
#include "BaseGraph/directed_weighted_graph.hpp"
#include "BaseGraph/undirected_weighted_graph.hpp"
#include <cmath>
#include <cstring>
using namespace BaseGraph;
using namespace vh;
static double dblOfHex(const std::string &h) { unsigned long long b = std::stoull(h, nullptr, 16); double d; std::memcpy(&d, &b, 8); return d; }
static void printTotal(long double t, Z code, size_t edges) {
    char buf[128];
    if (std::isnan(t) || std::isinf(t)) { snprintf(buf, sizeof buf, "I %lld | 2 0 0 | %zu\n", code, edges); fputs(buf, stdout); return; }
    int s = std::signbit(t) ? 1 : 0; unsigned long long m = 0; int e = 0;
    if (t != 0) { long double f = frexpl(fabsl(t), &e); m = (unsigned long long)ldexpl(f, 64); e -= 64; while (!(m & 1ULL)) { m >>= 1; e++; } }
    else s = 0;                                            // the sign of a zero total is not compared
    snprintf(buf, sizeof buf, "I %lld | %d %llu %d | %zu\n", code, s, m, e, edges); fputs(buf, stdout);
}
template <class G> void run(size_t n, const std::vector<std::string> &ops) {
    G g(n);
    for (auto &op : ops) {
        std::istringstream is(op); std::string k, h; long i = 0, j = 0; is >> k;
        Z r = guard([&]() -> Z {
            if (k == "FA") { is >> i >> j >> h; g.addEdge(i, j, dblOfHex(h)); }
            else if (k == "FS") { is >> i >> j >> h; g.setEdgeWeight(i, j, dblOfHex(h)); }
            else if (k == "FR") { is >> i >> j; g.removeEdge(i, j); }
            else if (k == "FC") g.clearEdges();
            else throw std::logic_error("unknown op " + k);
            return 0; });
        printTotal(g.getTotalWeight(), r, g.getEdgeNumber());
    }
    fflush(stdout);
}
// ---- Dijkstra with arbitrary double weights: distances as IEEE bit patterns, predecessors, the pop sequence (counting graph type) ----
#include "BaseGraph/algorithms/paths.hpp"
template <class W> struct CountWF : W {
    explicit CountWF(size_t n = 0) : W(n) {}
    mutable std::vector<VertexIndex> scans;
    const Successors &getOutNeighbours(VertexIndex v) const { scans.push_back(v); return W::getOutNeighbours(v); }
};
template <class G> void runDj(size_t n, const std::vector<std::string> &ops, unsigned src) {
    CountWF<G> g(n);
    for (auto &op : ops) { std::istringstream is(op); std::string k, h; long i = 0, j = 0; is >> k >> i >> j >> h; if (k == "FA") guard([&]() -> Z { static_cast<G &>(g).addEdge(i, j, dblOfHex(h)); return 0; }); }
    std::string line = "I";
    Z code = guard([&]() -> Z {
        g.scans.clear(); auto r = BaseGraph::algorithms::findGeodesicsDijkstra(g, src);
        for (auto d : r.first) { unsigned long long b; std::memcpy(&b, &d, 8); line += ' '; line += std::to_string(b); }
        line += " |"; for (auto p : r.second) { line += ' '; line += std::to_string(p == BaseGraph::algorithms::BASEGRAPH_VERTEX_MAX ? 4294967295ULL : (unsigned long long)p); }
        line += " | " + std::to_string(g.scans.size()) + " |"; for (auto v : g.scans) { line += ' '; line += std::to_string(v); }
        return 0; });
    if (code != 0) line = "I " + std::to_string(code);
    line += '\n'; fputs(line.c_str(), stdout); fflush(stdout);
}
// ---- operator== / != on two histories with arbitrary double weights ----
template <class G> void applyF(G &g, const std::vector<std::string> &ops) {
    for (auto &op : ops) {
        std::istringstream is(op); std::string k, h; long i = 0, j = 0; is >> k;
        guard([&]() -> Z {
            if (k == "FA") { is >> i >> j >> h; g.addEdge(i, j, dblOfHex(h)); }
            else if (k == "FS") { is >> i >> j >> h; g.setEdgeWeight(i, j, dblOfHex(h)); }
            else if (k == "FR") { is >> i >> j; g.removeEdge(i, j); }
            else if (k == "FC") g.clearEdges();
            return 0; });
    }
}
template <class G> void runEq(size_t n, const std::vector<std::string> &a, const std::vector<std::string> &b) {
    G g(n), h(n); applyF(g, a); applyF(h, b);
    emitGuarded([&] { G c(g); return Segs{Obs{(Z)(g == h), (Z)(h == g), (Z)(g != h), (Z)(h != g), (Z)(g == g), (Z)((c == g) && !(c != g))}}; });
}
// WF DW|UW hex <n> : ops          DJF DW|UW hex <n> : FA i j <hex> ; ... | source          EQF DW|UW hex <n> : ops | ops
int main() {
    std::string line;
    while (std::getline(std::cin, line)) {
        auto c = line.find(':'); if (c == std::string::npos) continue;
        std::istringstream hd(line.substr(0, c)); std::string kind, cls, lk; size_t n; hd >> kind >> cls >> lk >> n;
        fputs(("CASE " + line + "\n").c_str(), stdout); fflush(stdout);
        if (kind == "EQF") {
            std::string body = line.substr(c + 1); auto bar = body.find('|');
            auto a = splitOps(body.substr(0, bar)), b = splitOps(bar == std::string::npos ? "" : body.substr(bar + 1));
            if (cls == "DW") runEq<DirectedWeightedGraph>(n, a, b); else runEq<UndirectedWeightedGraph>(n, a, b);
            continue;
        }
        if (kind == "DJF") {
            std::string body = line.substr(c + 1); auto bar = body.find('|');
            auto ops = splitOps(body.substr(0, bar)); unsigned src = 0; { std::istringstream q(bar == std::string::npos ? "" : body.substr(bar + 1)); q >> src; }
            if (cls == "DW") runDj<DirectedWeightedGraph>(n, ops, src); else runDj<UndirectedWeightedGraph>(n, ops, src);
            continue;
        }
        auto ops = splitOps(line.substr(c + 1));
        if (cls == "DW") run<DirectedWeightedGraph>(n, ops); else run<UndirectedWeightedGraph>(n, ops);
    }
    return 0;
}
