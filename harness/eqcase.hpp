// included AFTER the applyOp / obsOf overloads of a harness are declared (ordinary lookup at the point of definition)
#pragma once
using namespace vh;
// C06: two graphs built by two histories from the same initial size; operator== / != in both directions, reflexivity, copy construction,
// assignment, and independence of a copy from later changes to its source.  G must have applyOp(G&, op) and obsOf(const G&) overloads.
template <class G> void eqCase(size_t n, const std::vector<std::string> &a, const std::vector<std::string> &b) {
    G ga(n), gb(n);
    for (auto &op : a) applyOp(ga, op);
    for (auto &op : b) applyOp(gb, op);
    Obs o;
    o.push_back(guard([&] { return (Z)(ga == gb); })); o.push_back(guard([&] { return (Z)(gb == ga); }));
    o.push_back(guard([&] { return (Z)(ga != gb); })); o.push_back(guard([&] { return (Z)(gb != ga); }));
    o.push_back(guard([&] { return (Z)(ga == ga); })); o.push_back(guard([&] { return (Z)(gb == gb); }));
    G copy(ga);                                  // copy construction
    o.push_back(guard([&] { return (Z)(copy == ga && ga == copy && !(copy != ga)); }));
    G assigned(0); assigned = gb;                // copy assignment
    o.push_back(guard([&] { return (Z)(assigned == gb && gb == assigned); }));
    Segs before = obsOf(copy);
    for (auto &op : b) applyOp(ga, op);          // later changes to the source ...
    o.push_back((Z)(obsOf(copy) == before));     // ... do not reach the copy
    Segs beforeB = obsOf(gb);
    for (auto &op : a) applyOp(assigned, op);    // and changes to an assigned-to graph do not reach its source
    o.push_back((Z)(obsOf(gb) == beforeB));
    emit("I", Segs{o});
}
