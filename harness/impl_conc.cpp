// Implementation side of C18: reader threads over ONE shared graph object.  The graph a history builds is observed single-threaded
// (reference), then T threads run R rounds of every const entry point against the same object (observers, iteration, ==, copy
// construction, reversal / conversion, subgraph extraction, path searches, the text writer - each thread to its own file), then it is
// observed again.  Printed: the reference observation (compared with the Coq model), the number of thread rounds whose results differ
// from the single-threaded ones (the model says 0: Properties_C18.C18_readers_deterministic), the observation afterwards.
// Built with -fsanitize=thread: a data race on the shared object aborts the run in the case that exhibits it.
#define main impl_classes_main
#include "impl_classes.cpp"
#undef main
#include "BaseGraph/algorithms/paths.hpp"
#include "BaseGraph/fileio.hpp"
#include <atomic>
#include <fstream>
#include <thread>
#include <unistd.h>
using namespace BaseGraph::algorithms;
using namespace BaseGraph::io;

static std::string ser(const Segs &s) { std::string r; for (auto &o : s) { for (Z x : o) { r += std::to_string(x); r += ' '; } r += '|'; } return r; }
template <class F> std::string serGuarded(F f) { Segs out; Z code = guard([&]() -> Z { out = f(); return 0; }); if (code != 0) out = Segs{Obs{code}}; return ser(out); }
static Z zv(size_t x) { return x == BASEGRAPH_VERTEX_MAX ? 4294967295LL : (Z)x; }
static std::string slurp(const std::string &p) { std::ifstream f(p, std::ios::binary); std::stringstream ss; ss << f.rdbuf(); return ss.str(); }

template <class L> Segs derived(const LabeledDirectedGraph<L> &g) { return observeD(g.getReversedGraph()); }
template <class L> Segs derived(const LabeledUndirectedGraph<L> &g) { return observeD(g.getDirectedGraph()); }
template <class L> Segs derived2(const LabeledDirectedGraph<L> &g) { LabeledUndirectedGraph<L> u(g); return observeU(u); }
template <class L> Segs derived2(const LabeledUndirectedGraph<L> &g) { auto d = g.getDirectedGraph(); return Segs{Obs{(Z)(LabeledUndirectedGraph<L>(d) == g)}}; }
template <class G> void writeIt(const G &g, const std::string &p, NoLabel *) { writeTextEdgeList(g, p); }
template <class G> void writeIt(const G &g, const std::string &p, int *) { writeBinaryEdgeList(g, p); }
template <template <class...> class G> void writeIt(const G<std::string> &g, const std::string &p, std::string *) { writeTextEdgeList<G, std::string>(g, p, [](const std::string &v) { return v; }); }

// one const call, by number; everything it returns, as text
template <class G, class L> std::string readerCall(const G &g, int k, const std::unordered_set<VertexIndex> &S, unsigned s, unsigned t, const std::string &file) {
    switch (k) {
    case 0: return ser(obsOf(g));
    case 1: return serGuarded([&] { G c(g); Z e = (c == g) && (g == c) && !(g != c) && (g == g); Segs o = obsOf(c); o.push_back(Obs{e}); return o; });
    case 2: return serGuarded([&] { return derived(g); });
    case 3: return serGuarded([&] { return derived2(g); });
    case 4: return serGuarded([&] { Segs o = obsOf(getSubgraph(g, S)); auto r = getSubgraphWithRemap(g, S); Segs o2 = obsOf(r.first); o.insert(o.end(), o2.begin(), o2.end()); return o; });
    case 5: return serGuarded([&] { auto r = findVertexPredecessors(g, s); Segs o(3); for (auto d : r.first) o[0].push_back(zv(d)); for (auto p : r.second) o[1].push_back(zv(p));
                                    auto a = findAllGeodesics(g, s, t); o[2].push_back(a.size()); auto p = findGeodesics(g, s, t); for (auto v : p) o[2].push_back(v); return o; });
    case 6: return serGuarded([&] { auto r = findAllVertexPredecessors(g, s); Segs o(2); for (auto d : r.first) o[0].push_back(zv(d)); for (auto &l : r.second) { o[1].push_back(l.size()); for (auto x : l) o[1].push_back(x); }
                                    for (auto &ps : findAllGeodesicsFromVertex(g, s)) o[1].push_back(ps.size()); return o; });
    default: return serGuarded([&] { writeIt(g, file, (L *)nullptr); Obs o; for (unsigned char c : slurp(file)) o.push_back(c); return Segs{o}; });
    }
}
static const int NCALLS = 8;
template <class L> Obs queryOf(const LabeledDirectedGraph<L> &g) { return queryD(g, 0); }
template <class L> Obs queryOf(const LabeledUndirectedGraph<L> &g) { return queryU(g, 0); }
// the line the history harness prints after a call that returned normally
template <class G> void emitAsQuery(const G &g) { Segs o = obsOf(g); o.insert(o.begin(), Obs{0}); o.push_back(Obs{}); emit("I", o); }
static std::string scratch;

template <class G, class L> void concCase(size_t n, const std::vector<std::string> &ops, unsigned T, unsigned R, const std::vector<unsigned> &vs, unsigned s, unsigned t) {
    G gm(n); for (auto &op : ops) applyOp(gm, op);
    const G &g = gm;
    std::unordered_set<VertexIndex> S(vs.begin(), vs.end());
    std::vector<std::string> ref(NCALLS);
    // the single-threaded reference is computed on a COPY: the shared object itself must be met "cold" by the reader threads (a lazily
    // filled cache or hint would otherwise be warmed up here and the race on its first use never happen)
    const G refg(gm);
    for (int k = 0; k < NCALLS; k++) ref[k] = readerCall<G, L>(refg, k, S, s, t, scratch + "/ref");
    emitAsQuery(refg);
    std::atomic<int> go(0); std::atomic<long> bad(0);
    std::vector<std::thread> th;
    for (unsigned id = 0; id < T; id++)
        th.emplace_back([&, id] {
            std::string file = scratch + "/net.t" + std::to_string(id);      // distinct files that share directory and stem
            while (!go.load()) std::this_thread::yield();
            for (unsigned r = 0; r < R; r++)
                for (int q = 0; q < NCALLS; q++) { int k = (q + id) % NCALLS; if (readerCall<G, L>(g, k, S, s, t, file) != ref[k]) bad++; }
        });
    go.store(1);
    for (auto &x : th) x.join();
    emit("I", Segs{Obs{(Z)T, (Z)R, (Z)bad.load()}});
    emitAsQuery(g);
}
template <class L> void concD(size_t n, const std::vector<std::string> &ops, unsigned T, unsigned R, const std::vector<unsigned> &vs, unsigned s, unsigned t) { concCase<LabeledDirectedGraph<L>, L>(n, ops, T, R, vs, s, t); }
template <class L> void concU(size_t n, const std::vector<std::string> &ops, unsigned T, unsigned R, const std::vector<unsigned> &vs, unsigned s, unsigned t) { concCase<LabeledUndirectedGraph<L>, L>(n, ops, T, R, vs, s, t); }

// CONC D|U <lk> <n> : ops | T R s t | v v v
int main() {
    std::string tdir = std::string(getenv("TMPDIR") ? getenv("TMPDIR") : "/tmp") + "/bgconcXXXXXX"; std::vector<char> tmpl(tdir.begin(), tdir.end()); tmpl.push_back(0);
    if (!mkdtemp(tmpl.data())) return 3; scratch = tmpl.data();
    std::string line;
    while (std::getline(std::cin, line)) {
        auto c = line.find(':'); if (c == std::string::npos) continue;
        std::istringstream hd(line.substr(0, c)); std::string kind, cls, lk; size_t n; hd >> kind >> cls >> lk >> n;
        fputs(("CASE " + line + "\n").c_str(), stdout); fflush(stdout);
        std::string body = line.substr(c + 1); std::vector<std::string> parts; { std::stringstream ss(body); std::string p; while (std::getline(ss, p, '|')) parts.push_back(p); }
        while (parts.size() < 3) parts.push_back("");
        auto ops = splitOps(parts[0]); unsigned T = 2, R = 1, s = 0, t = 0; { std::istringstream q(parts[1]); q >> T >> R >> s >> t; }
        auto vs = parseSet(parts[2]);
        if (lk == "int") { if (cls == "D") concD<int>(n, ops, T, R, vs, s, t); else concU<int>(n, ops, T, R, vs, s, t); }
        else if (lk == "str") { if (cls == "D") concD<std::string>(n, ops, T, R, vs, s, t); else concU<std::string>(n, ops, T, R, vs, s, t); }
        else { if (cls == "D") concD<NoLabel>(n, ops, T, R, vs, s, t); else concU<NoLabel>(n, ops, T, R, vs, s, t); }
    }
    std::string cmd = "rm -rf " + scratch; if (system(cmd.c_str())) {}
    return 0;
}
