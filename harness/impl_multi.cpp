// Implementation side for the multigraph and weighted classes (C04 C05 C06 C07 C16): same protocol as impl_classes.cpp.
#include "common.hpp"
#include "BaseGraph/directed_multigraph.hpp"
#include "BaseGraph/undirected_multigraph.hpp"
#include "BaseGraph/directed_weighted_graph.hpp"
#include "BaseGraph/undirected_weighted_graph.hpp"
using namespace BaseGraph;
using namespace vh;
#include "ops_multi.hpp"

template <class G> void commonSegs(Segs &S, const G &g, size_t n) {
    for (unsigned i = 0; i < n; i++) for (unsigned j = 0; j < n; j++) S[1].push_back(guard([&] { return (Z)g.hasEdge(i, j); }));
    for (unsigned i = 0; i < n; i++)
        guardVec(S[2], n, [&] { std::vector<Z> c(n, 0); for (auto j : g.getOutNeighbours(i)) if (j < n) c[j]++; return c; });
}
template <class G> void edgeSeg(Obs &o, const G &g, size_t n) {
    guardVec(o, n * n + 1, [&] {
        std::vector<Z> c(n * n + 1, 0);
        for (auto e : g.edges()) { c[0]++; if (e.first < n && e.second < n) c[1 + e.first * n + e.second]++; }
        return c; });
}
template <class M> std::vector<Z> flat(const M &m) { std::vector<Z> v; for (auto &r : m) for (auto x : r) v.push_back((Z)x); return v; }
static Z wcode(long double w) { return (Z)(w * 4.0L); }

Segs observe(const DirectedMultigraph &g) {
    Segs S(8); size_t n = g.getSize(); S[7] = iterSeg(g);
    S[0] = {(Z)n, (Z)g.getEdgeNumber(), (Z)g.getTotalEdgeNumber()};
    commonSegs(S, g, n);
    for (unsigned i = 0; i < n; i++) for (unsigned j = 0; j < n; j++) S[3].push_back(guard([&] { return (Z)g.getEdgeMultiplicity(i, j); }));
    for (unsigned i = 0; i < n; i++) S[4].push_back(guard([&] { return (Z)g.getOutDegree(i); }));
    guardVec(S[4], n, [&] { auto d = g.getOutDegrees(); return std::vector<Z>(d.begin(), d.end()); });
    for (unsigned i = 0; i < n; i++) S[4].push_back(guard([&] { return (Z)g.getInDegree(i); }));
    guardVec(S[4], n, [&] { auto d = g.getInDegrees(); return std::vector<Z>(d.begin(), d.end()); });
    guardVec(S[5], n * n, [&] { return flat(g.getAdjacencyMatrix()); });
    edgeSeg(S[6], g, n);
    return S;
}
Segs observe(const UndirectedMultigraph &g) {
    Segs S(8); size_t n = g.getSize(); S[7] = iterSeg(g);
    S[0] = {(Z)n, (Z)g.getEdgeNumber(), (Z)g.getTotalEdgeNumber()};
    commonSegs(S, g, n);
    for (unsigned i = 0; i < n; i++) for (unsigned j = 0; j < n; j++) S[3].push_back(guard([&] { return (Z)g.getEdgeMultiplicity(i, j); }));
    for (unsigned i = 0; i < n; i++) S[4].push_back(guard([&] { return (Z)g.getDegree(i, true); }));
    for (unsigned i = 0; i < n; i++) S[4].push_back(guard([&] { return (Z)g.getDegree(i, false); }));
    guardVec(S[4], n, [&] { auto d = g.getDegrees(true); return std::vector<Z>(d.begin(), d.end()); });
    guardVec(S[4], n, [&] { auto d = g.getDegrees(false); return std::vector<Z>(d.begin(), d.end()); });
    guardVec(S[5], n * n, [&] { return flat(g.getAdjacencyMatrix(true)); });
    guardVec(S[5], n * n, [&] { return flat(g.getAdjacencyMatrix(false)); });
    edgeSeg(S[6], g, n);
    return S;
}
Segs observe(const DirectedWeightedGraph &g) {
    Segs S(9); size_t n = g.getSize(); S[8] = iterSeg(g);
    S[0] = {(Z)n, (Z)g.getEdgeNumber(), wcode(g.getTotalWeight())};
    commonSegs(S, g, n);
    for (unsigned i = 0; i < n; i++) for (unsigned j = 0; j < n; j++) {
        S[3].push_back(guard([&] { return wcode(g.getEdgeWeight(i, j, false)); }));
        S[3].push_back(guard([&] { g.getEdgeWeight(i, j, true); return (Z)1; }));
    }
    guardVec(S[4], n, [&] { auto d = g.getInDegrees(); return std::vector<Z>(d.begin(), d.end()); });
    for (unsigned i = 0; i < n; i++) S[4].push_back(guard([&] { return (Z)g.getInDegree(i); }));
    guardVec(S[4], n, [&] { auto d = g.getOutDegrees(); return std::vector<Z>(d.begin(), d.end()); });
    for (unsigned i = 0; i < n; i++) S[4].push_back(guard([&] { return (Z)g.getOutDegree(i); }));
    guardVec(S[5], n * n, [&] { return flat(g.getAdjacencyMatrix()); });
    guardVec(S[6], n * n, [&] { std::vector<Z> v; for (auto &r : g.getWeightMatrix()) for (auto x : r) v.push_back(wcode(x)); return v; });
    edgeSeg(S[7], g, n);
    return S;
}
Segs observe(const UndirectedWeightedGraph &g) {
    Segs S(9); size_t n = g.getSize(); S[8] = iterSeg(g);
    S[0] = {(Z)n, (Z)g.getEdgeNumber(), wcode(g.getTotalWeight())};
    commonSegs(S, g, n);
    for (unsigned i = 0; i < n; i++) for (unsigned j = 0; j < n; j++) {
        S[3].push_back(guard([&] { return wcode(g.getEdgeWeight(i, j, false)); }));
        S[3].push_back(guard([&] { g.getEdgeWeight(i, j, true); return (Z)1; }));
    }
    for (unsigned i = 0; i < n; i++) S[4].push_back(guard([&] { return (Z)g.getDegree(i, true); }));
    for (unsigned i = 0; i < n; i++) S[4].push_back(guard([&] { return (Z)g.getDegree(i, false); }));
    guardVec(S[4], n, [&] { auto d = g.getDegrees(true); return std::vector<Z>(d.begin(), d.end()); });
    guardVec(S[4], n, [&] { auto d = g.getDegrees(false); return std::vector<Z>(d.begin(), d.end()); });
    guardVec(S[5], n * n, [&] { return flat(g.getAdjacencyMatrix(true)); });
    guardVec(S[5], n * n, [&] { return flat(g.getAdjacencyMatrix(false)); });
    guardVec(S[6], n * n, [&] { std::vector<Z> v; for (auto &r : g.getWeightMatrix()) for (auto x : r) v.push_back(wcode(x)); return v; });
    edgeSeg(S[7], g, n);
    return S;
}

Obs query(const DirectedMultigraph &g, unsigned v) {
    Obs q;
    q.push_back(guard([&] { return (Z)g.hasEdge(v, 0); })); q.push_back(guard([&] { return (Z)g.hasEdge(0, v); }));
    q.push_back(guard([&] { return (Z)g.getOutNeighbours(v).size(); }));
    q.push_back(guard([&] { return (Z)g.getEdgeMultiplicity(v, 0); })); q.push_back(guard([&] { return (Z)g.getEdgeMultiplicity(0, v); }));
    q.push_back(guard([&] { return (Z)g.getOutDegree(v); })); q.push_back(guard([&] { return (Z)g.getInDegree(v); }));
    return q;
}
Obs query(const UndirectedMultigraph &g, unsigned v) {
    Obs q;
    q.push_back(guard([&] { return (Z)g.hasEdge(v, 0); })); q.push_back(guard([&] { return (Z)g.hasEdge(0, v); }));
    q.push_back(guard([&] { return (Z)g.getOutNeighbours(v).size(); }));
    q.push_back(guard([&] { return (Z)g.getEdgeMultiplicity(v, 0); })); q.push_back(guard([&] { return (Z)g.getEdgeMultiplicity(0, v); }));
    q.push_back(guard([&] { return (Z)g.getDegree(v, true); })); q.push_back(guard([&] { return (Z)g.getDegree(v, false); }));
    return q;
}
Obs query(const DirectedWeightedGraph &g, unsigned v) {
    Obs q;
    q.push_back(guard([&] { return (Z)g.hasEdge(v, 0); })); q.push_back(guard([&] { return (Z)g.hasEdge(0, v); }));
    q.push_back(guard([&] { return (Z)g.getOutNeighbours(v).size(); }));
    q.push_back(guard([&] { return wcode(g.getEdgeWeight(v, 0, false)); })); q.push_back(guard([&] { return wcode(g.getEdgeWeight(0, v, true)); }));
    q.push_back(guard([&] { return (Z)g.getOutDegree(v); })); q.push_back(guard([&] { return (Z)g.getInDegree(v); }));
    return q;
}
Obs query(const UndirectedWeightedGraph &g, unsigned v) {
    Obs q;
    q.push_back(guard([&] { return (Z)g.hasEdge(v, 0); })); q.push_back(guard([&] { return (Z)g.hasEdge(0, v); }));
    q.push_back(guard([&] { return (Z)g.getOutNeighbours(v).size(); }));
    q.push_back(guard([&] { return wcode(g.getEdgeWeight(v, 0, false)); })); q.push_back(guard([&] { return wcode(g.getEdgeWeight(0, v, true)); }));
    q.push_back(guard([&] { return (Z)g.getDegree(v, true); })); q.push_back(guard([&] { return (Z)g.getDegree(v, false); }));
    return q;
}

template <class G> Segs obsOf(const G &g) { return observe(g); }
#include "eqcase.hpp"
template <class G> void runAny(size_t n0, const std::vector<std::string> &ops) {
    G g(n0);
    for (auto &op : ops) {
        std::istringstream is(op); std::string k; long i = 0; is >> k;
        if (k == "Q") { is >> i; Segs o = observe(g); o.insert(o.begin(), Obs{0}); o.push_back(query(g, (unsigned)i)); emit("I", o); continue; }
        if (!k.empty() && k[0] == '~') { Z r = applyOp(g, op.substr(op.find('~') + 1)); emit("I", Segs{Obs{r}}); continue; }   // silent step: result only
        Z r = applyOp(g, op);
        Segs o = observe(g); o.insert(o.begin(), Obs{r}); o.push_back(Obs{}); emit("I", o);
    }
}
// ---- C09: edge-list constructors of the multigraph and weighted classes ----
template <class G, class V> Segs elRun(const std::vector<Triple> &ts, V (*mkv)(long)) {
    typedef LabeledEdge<V> E;
    std::vector<E> v; for (auto &t : ts) v.push_back(E(t.i, t.j, mkv(t.l)));
    G gv(v); std::list<E> l(v.begin(), v.end()); std::deque<E> d(v.begin(), v.end()); std::forward_list<E> f(v.begin(), v.end());
    G gl(l), gd(d), gf(f);
    Segs o = observe(gv);
    if (!(gv == gl && gl == gd && gd == gf && gf == gv) || observe(gl) != o || observe(gd) != o || observe(gf) != o) o.push_back(Obs{-7});
    return o;
}
static EdgeMultiplicity mkMult(long c) { return (EdgeMultiplicity)c; }
static EdgeWeight mkWeight(long c) { return c / 4.0; }

int main() {
    std::string line;
    while (std::getline(std::cin, line)) {
        auto c = line.find(':'); if (c == std::string::npos) continue;
        std::istringstream hd(line.substr(0, c)); std::string cls, lk; size_t n; hd >> cls;
        bool eq = cls == "EQ", el = cls == "EL"; if (eq || el) hd >> cls;
        hd >> lk; if (!el) hd >> n;
        fputs(("CASE " + line + "\n").c_str(), stdout); fflush(stdout);
        if (eq) {
            std::string body = line.substr(c + 1); auto bar = body.find('|');
            auto a = splitOps(body.substr(0, bar)), b = splitOps(bar == std::string::npos ? "" : body.substr(bar + 1));
            if (cls == "DM") eqCase<DirectedMultigraph>(n, a, b); else if (cls == "UM") eqCase<UndirectedMultigraph>(n, a, b);
            else if (cls == "DW") eqCase<DirectedWeightedGraph>(n, a, b); else if (cls == "UW") eqCase<UndirectedWeightedGraph>(n, a, b);
            continue;
        }
        if (el) {
            auto ts = parseTriples(line.substr(c + 1));
            if (cls == "DM") emitGuarded([&] { return elRun<DirectedMultigraph>(ts, &mkMult); });
            else if (cls == "UM") emitGuarded([&] { return elRun<UndirectedMultigraph>(ts, &mkMult); });
            else if (cls == "DW") emitGuarded([&] { return elRun<DirectedWeightedGraph>(ts, &mkWeight); });
            else if (cls == "UW") emitGuarded([&] { return elRun<UndirectedWeightedGraph>(ts, &mkWeight); });
            continue;
        }
        auto ops = splitOps(line.substr(c + 1));
        if (cls == "DM") runAny<DirectedMultigraph>(n, ops);
        else if (cls == "UM") runAny<UndirectedMultigraph>(n, ops);
        else if (cls == "DW") runAny<DirectedWeightedGraph>(n, ops);
        else if (cls == "UW") runAny<UndirectedWeightedGraph>(n, ops);
        else fputs("I unknown-class\n", stdout);
    }
    return 0;
}
