#!/bin/sh
# Build the Coq development (full .vo), extract the models and build the OCaml driver. Offline; reads nothing from /repo.
set -e
cd "$(dirname "$0")"
cd coq && coq_makefile -f _CoqProject -o Makefile >/dev/null && (ulimit -v 24000000; timeout 3000 make -j16) && cd ..
[ -d ocaml ] && timeout 600 make -C ocaml || true
