(* Correspondence driver: reads the implementation harness's output (CASE lines followed by I lines), runs the
   extracted model (M lines) and spec oracle (S lines; "S -" = no opinion) on every case and prints them after the CASE line.
   Glue only: parsing and printing. *)
open Model
let rec nat_of_int n = if n <= 0 then O else S (nat_of_int (n-1))
let rec pos_of_int n = if n = 1 then XH else if n land 1 = 0 then XO (pos_of_int (n lsr 1)) else XI (pos_of_int (n lsr 1))
let z_of_int n = if n = 0 then Z0 else if n > 0 then Zpos (pos_of_int n) else Zneg (pos_of_int (-n))
let rec int_of_pos = function XH -> 1 | XO p -> 2 * int_of_pos p | XI p -> 2 * int_of_pos p + 1
let int_of_z = function Z0 -> 0 | Zpos p -> int_of_pos p | Zneg p -> - (int_of_pos p)
(* vertex arguments above 1000 (UINT_MAX and the like) are represented by 1000: out of range for every generated graph, and no unary numeral of 2^32 is built *)
let ni s = nat_of_int (min (int_of_string s) 1000)
let zi s = z_of_int (int_of_string s)
let toks s = List.filter (fun x -> x <> "") (String.split_on_char ' ' s)
(* decimal printing without going through OCaml ints (64-bit label patterns do not fit) *)
let rec dec_double (ds : int list) (carry : int) : int list =      (* little-endian decimal digits, times two plus carry *)
  match ds with [] -> if carry = 0 then [] else [carry] | d :: t -> let x = 2 * d + carry in (x mod 10) :: dec_double t (x / 10)
let rec dec_of_pos = function XH -> [1] | XO p -> dec_double (dec_of_pos p) 0 | XI p -> dec_double (dec_of_pos p) 1
let string_of_pos p = String.concat "" (List.rev_map string_of_int (dec_of_pos p))
let string_of_z = function Z0 -> "0" | Zpos p -> string_of_pos p | Zneg p -> "-" ^ string_of_pos p
let zline tag segs = print_string tag;
  List.iteri (fun k l -> if k > 0 then print_string " |"; List.iter (fun z -> print_char ' '; print_string (string_of_z z)) l) segs; print_char '\n'
let parse_dop t = match t with
  | ["A";i;j;l;f] -> AddEdge (ni i, ni j, zi l, f = "1")
  | ["AR";i;j;l;f] -> AddReciprocal (ni i, ni j, zi l, f = "1")
  | ["R";i;j] -> RemoveEdge (ni i, ni j)
  | ["SL"] -> RemoveSelfLoops | ["V";v] -> RemoveVertex (ni v) | ["CL"] -> ClearEdges
  | ["RZ";n] -> Resize (ni n)
  | ["SLB";i;j;l;f] -> SetLabel (ni i, ni j, zi l, f = "1")
  | ["DD"] -> RemoveDuplicates
  | _ -> failwith ("bad op: " ^ String.concat " " t)
let parse_uop t = match t with
  | ["A";i;j;l;f] -> UAdd (ni i, ni j, zi l, f = "1")
  | ["R";i;j] -> URemove (ni i, ni j)
  | ["SL"] -> USelfLoops | ["V";v] -> URemoveVertex (ni v) | ["CL"] -> UClear
  | ["RZ";n] -> UResize (ni n)
  | ["SLB";i;j;l;f] -> USetLabel (ni i, ni j, zi l, f = "1")
  | ["DD"] -> URemoveDuplicates
  | _ -> failwith ("bad op: " ^ String.concat " " t)
let fb f = (f = "1")
let parse_mop t = match t with
  | ["A";i;j;f] -> MAdd (ni i, ni j, fb f) | ["AR";i;j;f] -> MAddRecip (ni i, ni j, fb f)
  | ["MA";i;j;k;f] -> MAddMulti (ni i, ni j, zi k, fb f) | ["MAR";i;j;k;f] -> MAddRecipMulti (ni i, ni j, zi k, fb f)
  | ["R";i;j] -> MRemove (ni i, ni j) | ["MR";i;j;k] -> MRemoveMulti (ni i, ni j, zi k) | ["MS";i;j;k] -> MSet (ni i, ni j, zi k)
  | ["SL"] -> MSelfLoops | ["V";v] -> MRemoveVertex (ni v) | ["CL"] -> MClear | ["RZ";n] -> MResize (ni n) | ["DD"] -> MRemoveDuplicates
  | _ -> failwith ("bad op: " ^ String.concat " " t)
let parse_wop t = match t with
  | ["WA";i;j;w;f] -> WAdd (ni i, ni j, zi w, fb f) | ["R";i;j] -> WRemove (ni i, ni j) | ["WS";i;j;w] -> WSet (ni i, ni j, zi w)
  | ["SL"] -> WSelfLoops | ["V";v] -> WRemoveVertex (ni v) | ["CL"] -> WClear | ["RZ";n] -> WResize (ni n) | ["DD"] -> WRemoveDuplicates
  | _ -> failwith ("bad op: " ^ String.concat " " t)
let qwrap parse t = match t with ["Q"; v] -> Inr (ni v) | _ -> Inl (parse t)
let variant = ref repaired
let um_set0 = ref true
let uw_canon = ref true
let fspec = ref false
let codes = ref false   (* C07: after a forced call the spec goes on speaking about the result code alone (CodesSpec.v) *)
let keep_label = ref true
let rec emit_ms m s = match m, s with
  | [], _ -> ()
  | x :: m', [] -> zline "M" x; print_string "S -\n"; emit_ms m' []
  | x :: m', y :: s' -> zline "M" x; (match y with Some v -> zline "S" v | None -> print_string "S -\n"); emit_ms m' s'
(* silent steps ("~op"): the harness prints only how the call ended; so do we (first segment of the model / spec line) *)
let emit_ms_sel (flags : bool list) m s =
  let rec go f m s = match f, m, s with
    | _, [], _ -> ()
    | fl :: f', x :: m', s ->
      let (y, s') = (match s with [] -> (None, []) | y :: s' -> (y, s')) in
      let cut l = (match l with h :: _ -> [h] | [] -> []) in
      if fl then (zline "M" (cut x); (match y with Some v -> zline "S" (cut v) | None -> print_string "S -\n"))
      else (zline "M" x; (match y with Some v -> zline "S" v | None -> print_string "S -\n"));
      go f' m' s'
    | [], x :: m', s -> go [false] (x :: m') s in
  go flags m s
let strip_silent (ops : string list list) : bool list * string list list =
  let fl = List.map (fun t -> match t with x :: _ when String.length x > 0 && x.[0] = '~' -> true | _ -> false) ops in
  let st = List.map (fun t -> match t with x :: r when String.length x > 0 && x.[0] = '~' -> (String.sub x 1 (String.length x - 1)) :: r | _ -> t) ops in
  (fl, st)
let unq = function Inl o -> o | Inr _ -> failwith "Q not allowed in an EQ case"
let run_eq_case hd body =
  let parts = String.split_on_char '|' body in
  let opsof str = List.filter (fun t -> t <> []) (List.map toks (String.split_on_char ';' str)) in
  let a, b = (match parts with [a] -> opsof a, [] | a :: b :: _ -> opsof a, opsof b | [] -> [], []) in
  let out m s = zline "M" [m]; (match s with Some v -> zline "S" [v] | None -> print_string "S -\n") in
  match hd with
  | ["EQ"; "D"; lk; n] -> let hs = lk <> "none" in let a = List.map parse_dop a and b = List.map parse_dop b in out (d_eq_case hs !variant (ni n) a b) (d_eq_spec hs (ni n) a b)
  | ["EQ"; "U"; lk; n] -> let hs = lk <> "none" in let a = List.map parse_uop a and b = List.map parse_uop b in out (u_eq_case hs !variant (ni n) a b) (u_eq_spec hs (ni n) a b)
  | ["EQ"; "DM"; _; n] -> let a = List.map parse_mop a and b = List.map parse_mop b in out (dm_eq_case !variant (ni n) a b) (m_eq_spec false (ni n) a b)
  | ["EQ"; "UM"; _; n] -> let a = List.map parse_mop a and b = List.map parse_mop b in out (um_eq_case !variant !um_set0 (ni n) a b) (m_eq_spec true (ni n) a b)
  | ["EQ"; "DW"; _; n] -> let a = List.map parse_wop a and b = List.map parse_wop b in out (dw_eq_case !variant (ni n) a b) (w_eq_spec false (ni n) a b)
  | ["EQ"; "UW"; _; n] -> let a = List.map parse_wop a and b = List.map parse_wop b in out (uw_eq_case !variant !uw_canon (ni n) a b) (w_eq_spec true (ni n) a b)
  | _ -> failwith "bad EQ case"
let parse_triple t = match t with [i; j; l] -> ((ni i, ni j), zi l) | _ -> failwith "bad triple"
let run_conv_case hd body =
  let opsof str = List.filter (fun t -> t <> []) (List.map toks (String.split_on_char ';' str)) in
  let ops = opsof body in
  match hd with
  | ["CV"; "D"; lk; n] -> let hs = lk <> "none" in let o = List.map parse_dop ops in emit_ms (d_cv_case hs !variant (ni n) o) (d_cv_spec hs (ni n) o)
  | ["CV"; "U"; lk; n] -> let hs = lk <> "none" in let o = List.map parse_uop ops in emit_ms (u_cv_case hs !variant !keep_label (ni n) o) (u_cv_spec hs (ni n) o)
  | ["EL"; "D"; lk] -> let hs = lk <> "none" in let es = List.map parse_triple ops in emit_ms (d_el_case hs !variant es) (d_el_spec hs es)
  | ["EL"; "U"; lk] -> let hs = lk <> "none" in let es = List.map parse_triple ops in emit_ms (u_el_case hs !variant es) (u_el_spec hs es)
  | ["EL"; "DM"; _] -> let es = List.map parse_triple ops in emit_ms (dm_el_case !variant es) (m_el_spec false es)
  | ["EL"; "UM"; _] -> let es = List.map parse_triple ops in emit_ms (um_el_case !variant es) (m_el_spec true es)
  | ["EL"; "DW"; _] -> let es = List.map parse_triple ops in emit_ms (dw_el_case !variant es) (w_el_spec false es)
  | ["EL"; "UW"; _] -> let es = List.map parse_triple ops in emit_ms (uw_el_case !variant es) (w_el_spec true es)
  | _ -> failwith "bad CV/EL case"
let ilines : string list ref = ref []          (* the implementation's lines for the current case (oracle values are read from them) *)
let ints_of str = List.map int_of_string (toks str)
let segs_of_iline l = (* "I a b | c d | ..." -> int list list *)
  let body = if String.length l > 2 then String.sub l 2 (String.length l - 2) else "" in List.map (fun sg -> try ints_of sg with _ -> []) (String.split_on_char '|' body)
let run_sub_case hd body =
  let parts = String.split_on_char '|' body in
  let opsof str = List.filter (fun t -> t <> []) (List.map toks (String.split_on_char ';' str)) in
  let ops, sset = (match parts with [a; b] -> opsof a, List.map (fun x -> nat_of_int (min (int_of_string x) 1000)) (toks b) | [a] -> opsof a, [] | _ -> failwith "bad SUB case") in
  let il = List.filter (fun l -> l = "I" || (String.length l >= 2 && String.sub l 0 2 = "I ")) !ilines in
  let so = (match il with l :: _ -> (match segs_of_iline l with sg :: _ -> List.map (fun x -> nat_of_int (min x 1000)) sg | [] -> []) | [] -> sset) in
  let fmap = (match il with [_; _; l3] -> let sg = segs_of_iline l3 in (match List.rev sg with last :: _ when List.length last = List.length so -> List.map2 (fun v x -> (v, nat_of_int x)) so last | _ -> []) | _ -> []) in
  match hd with
  | ["SUB"; "D"; lk; n] -> let hs = lk <> "none" in let o = List.map parse_dop ops in emit_ms (d_sub_case hs !variant (ni n) o sset so) (d_sub_spec hs (ni n) o sset so fmap)
  | ["SUB"; "U"; lk; n] -> let hs = lk <> "none" in let o = List.map parse_uop ops in emit_ms (u_sub_case hs !variant (ni n) o sset so) (u_sub_spec hs (ni n) o sset so fmap)
  | _ -> failwith "bad SUB case"
let strict_index = ref true     (* repaired: the text loader rejects negative vertex indices *)
let once = ref true            (* repaired: findAllVertexPredecessors enqueues a vertex on first discovery only *)
let run_path_case hd body =
  let parts = String.split_on_char '|' body in
  let opsof str = List.filter (fun t -> t <> []) (List.map toks (String.split_on_char ';' str)) in
  let ops, q = (match parts with [a; b] -> opsof a, toks b | [a] -> opsof a, [] | _ -> failwith "bad PATH/DJ case") in
  let s, t = (match q with [s] -> ni s, ni "0" | s :: t :: _ -> ni s, ni t | [] -> ni "0", ni "0") in
  let il = Array.of_list (List.map segs_of_iline (List.filter (fun l -> l = "I" || (String.length l >= 2 && String.sub l 0 2 = "I ")) !ilines)) in
  let seg k j = if k < Array.length il then (match List.nth_opt il.(k) j with Some x -> x | None -> []) else [] in
  let zl = List.map z_of_int in
  let hd1 l = match l with x :: _ -> z_of_int x | [] -> z_of_int (-1) in
  match hd with
  | ["PATH"; cls; _; n] ->
    let im = { pi_pred = zl (seg 0 1); pi_scans1 = hd1 (seg 0 2); pi_scans2 = hd1 (seg 1 2); pi_path = zl (seg 2 0); pi_from = zl (seg 4 0) } in
    if cls = "D" then (let o = List.map parse_dop ops in emit_ms (d_path_case !variant !once (ni n) o s t) (d_path_spec !variant (ni n) o s t im))
    else (let o = List.map parse_uop ops in emit_ms (u_path_case !variant !once (ni n) o s t) (u_path_spec !variant (ni n) o s t im))
  | ["DJ"; cls; _; n] ->
    let ipred = zl (seg 0 1) and cs = List.map (fun x -> nat_of_int (min x 1000)) (seg 0 3) in
    let o = List.map parse_wop ops in
    if cls = "DW" then emit_ms (dw_dj_case !variant (ni n) o s cs) (dw_dj_spec !variant (ni n) o s ipred cs)
    else emit_ms (uw_dj_case !variant (ni n) o s cs) (uw_dj_spec !variant (ni n) o s ipred cs)
  | _ -> failwith "bad PATH/DJ case"
let hexbytes str =
  let str = String.concat "" (toks str) in
  let n = String.length str / 2 in
  List.init n (fun k -> let v = int_of_string ("0x" ^ String.sub str (2 * k) 2) in if v = 0 then N0 else Npos (pos_of_int v))
let tlabel_of = function "none" -> TNone | "int" -> TInt | _ -> TStr
let run_io_case hd body =
  let opsof str = List.filter (fun t -> t <> []) (List.map toks (String.split_on_char ';' str)) in
  match hd with
  | ["BIN"; cls; w] -> let w = String.concat "" (String.split_on_char 'f' w) in let b = hexbytes body in emit_ms (bin_load_case !variant (cls = "U") (ni w) b) (bin_load_spec !variant (cls = "U") (ni w) b)
  | ["BINW"; "D"; w; n] -> let o = List.map parse_dop (opsof body) in emit_ms (d_binw_case !variant (ni w) (ni n) o) (d_binw_spec (ni w) (ni n) o)
  | ["BINW"; "U"; w; n] -> let o = List.map parse_uop (opsof body) in emit_ms (u_binw_case !variant (ni w) (ni n) o) (u_binw_spec (ni w) (ni n) o)
  | ["TXT"; cls; lk; names] -> let b = hexbytes body in
      emit_ms (text_load_case !variant (cls = "U") !strict_index (names = "1") (tlabel_of lk) b) (text_load_spec !variant (cls = "U") (names = "1") (tlabel_of lk) b)
  | ["TXTW"; "D"; lk; n] -> let o = List.map parse_dop (opsof body) in emit_ms (d_txtw_case !variant (tlabel_of lk) (ni n) o) txtw_spec
  | ["TXTW"; "U"; lk; n] -> let o = List.map parse_uop (opsof body) in emit_ms (u_txtw_case !variant (tlabel_of lk) (ni n) o) txtw_spec
  | "NOFILE" :: _ -> let l = [List.init 8 (fun _ -> z_of_int (-103))] in zline "M" l; zline "S" l
  | _ -> failwith "bad IO case"
let run_conc_case hd body =
  let opsof str = List.filter (fun t -> t <> []) (List.map toks (String.split_on_char ';' str)) in
  let parts = String.split_on_char '|' body in
  let a, q, vs = (match parts with [a; q; vs] -> opsof a, toks q, toks vs | [a; q] -> opsof a, toks q, [] | _ -> failwith "bad CONC case") in
  let tt, r, s, t = (match q with [tt; r; s; t] -> ni tt, ni r, ni s, ni t | _ -> failwith "bad CONC parameters") in
  let so = List.map ni vs in
  match hd with
  | ["CONC"; "D"; lk; n] -> let hs = lk <> "none" in let o = List.map parse_dop a in emit_ms (d_conc_case hs !variant (ni n) o tt r so s t) (d_conc_spec hs (ni n) o tt r)
  | ["CONC"; "U"; lk; n] -> let hs = lk <> "none" in let o = List.map parse_uop a in emit_ms (u_conc_case hs !variant (ni n) o tt r so s t) (u_conc_spec hs (ni n) o tt r)
  | ["CONC"; "DM"; _; n] -> let o = List.map parse_mop a in emit_ms (dm_conc_case !variant (ni n) o tt r s t) (m_conc_spec false (ni n) o tt r)
  | ["CONC"; "UM"; _; n] -> let o = List.map parse_mop a in emit_ms (um_conc_case !variant (ni n) o tt r s t) (m_conc_spec true (ni n) o tt r)
  | ["CONC"; "DW"; _; n] -> let o = List.map parse_wop a in emit_ms (dw_conc_case !variant (ni n) o tt r s t) (w_conc_spec false (ni n) o tt r)
  | ["CONC"; "UW"; _; n] -> let o = List.map parse_wop a in emit_ms (uw_conc_case !variant (ni n) o tt r s t) (w_conc_spec true (ni n) o tt r)
  | _ -> failwith "bad CONC case"
(* decimal string of any size -> Z (mantissas of long double totals reach 2^64) *)
let zbig (str : string) : z =
  let neg = String.length str > 0 && str.[0] = '-' in
  let digits = if neg then String.sub str 1 (String.length str - 1) else str in
  let ten = z_of_int 10 in
  let v = ref Z0 in String.iter (fun c -> v := Z.add (Z.mul !v ten) (z_of_int (Char.code c - 48))) digits;
  if neg then Z.opp !v else !v
let segs_of_iline_z l = let body = if String.length l > 2 then String.sub l 2 (String.length l - 2) else "" in List.map (fun sg -> List.map zbig (toks sg)) (String.split_on_char '|' body)
(* floating-point totals: WF DW|UW hex n : FA i j <16 hex digits> ; FS i j <hex> ; FR i j ; FC *)
let run_float_case hd body =
  let opsof str = List.filter (fun t -> t <> []) (List.map toks (String.split_on_char ';' str)) in
  let halves h = let h = (String.make (16 - String.length h) '0') ^ h in (zi (string_of_int (int_of_string ("0x" ^ String.sub h 0 8))), zi (string_of_int (int_of_string ("0x" ^ String.sub h 8 8)))) in
  let parse t = match t with
    | ["FA"; i; j; h] -> let (hi, lo) = halves h in fop_add (ni i) (ni j) hi lo
    | ["FS"; i; j; h] -> let (hi, lo) = halves h in fop_set (ni i) (ni j) hi lo
    | ["FR"; i; j] -> FRemove (ni i, ni j) | ["FC"] -> FClear | _ -> failwith "bad float op" in
  let ops = List.map parse (opsof body) in
  let und = (match hd with [_; "UW"; _; _] -> true | _ -> false) in
  let il = List.filter (fun l -> String.length l >= 2 && String.sub l 0 2 = "I ") !ilines in
  let obs = List.map (fun l -> match segs_of_iline_z l with _ :: [s; m; e] :: _ -> ((s, m), e) | _ -> ((zi "2", zi "0"), zi "0")) il in
  emit_ms (f_case und ops) (f_spec und ops obs)
(* equality of weighted graphs with double weights: EQF DW|UW hex n : ops | ops *)
let run_feq_case hd body =
  let opsof str = List.filter (fun t -> t <> []) (List.map toks (String.split_on_char ';' str)) in
  let halves h = let h = (String.make (16 - String.length h) '0') ^ h in (zi (string_of_int (int_of_string ("0x" ^ String.sub h 0 8))), zi (string_of_int (int_of_string ("0x" ^ String.sub h 8 8)))) in
  let parse t = match t with
    | ["FA"; i; j; h] -> let (hi, lo) = halves h in fop_add (ni i) (ni j) hi lo
    | ["FS"; i; j; h] -> let (hi, lo) = halves h in fop_set (ni i) (ni j) hi lo
    | ["FR"; i; j] -> FRemove (ni i, ni j) | ["FC"] -> FClear | _ -> failwith "bad float op" in
  let parts = String.split_on_char '|' body in
  let a, b = (match parts with [a; b] -> List.map parse (opsof a), List.map parse (opsof b) | [a] -> List.map parse (opsof a), [] | _ -> failwith "bad EQF case") in
  let und = (match hd with [_; "UW"; _; _] -> true | _ -> false) in
  let m = feq_case und a b in emit_ms m (List.map (fun x -> Some x) m)
(* Dijkstra with double weights: DJF DW|UW hex n : FA i j <hex> ; ... | source *)
let run_djf_case hd body =
  let opsof str = List.filter (fun t -> t <> []) (List.map toks (String.split_on_char ';' str)) in
  let parts = String.split_on_char '|' body in
  let ops, q = (match parts with [a; b] -> opsof a, toks b | [a] -> opsof a, [] | _ -> failwith "bad DJF case") in
  let halves h = let h = (String.make (16 - String.length h) '0') ^ h in (zi (string_of_int (int_of_string ("0x" ^ String.sub h 0 8))), zi (string_of_int (int_of_string ("0x" ^ String.sub h 8 8)))) in
  let es = List.filter_map (fun t -> match t with ["FA"; i; j; h] -> Some ((ni i, ni j), halves h) | _ -> None) ops in
  let s = (match q with s :: _ -> ni s | [] -> ni "0") in
  let il = List.filter (fun l -> String.length l >= 2 && String.sub l 0 2 = "I ") !ilines in
  let sg = (match il with l :: _ -> segs_of_iline_z l | [] -> []) in
  let seg j = (match List.nth_opt sg j with Some x -> x | None -> []) in
  let cs = List.map (fun z -> nat_of_int (min (int_of_z z) 1000)) (seg 3) in
  match hd with
  | ["DJF"; cls; _; n] -> let und = (cls = "UW") in emit_ms (djf_case und (ni n) es s (seg 0) (seg 1) cs) (djf_spec und (ni n) es s (seg 0) (seg 1) cs)
  | _ -> failwith "bad DJF case"
let run_case line =
  match String.index_opt line ':' with
  | None -> failwith ("bad case: " ^ line)
  | Some c ->
    let hd = toks (String.sub line 0 c) and body = String.sub line (c+1) (String.length line - c - 1) in
    if (match hd with "EQ" :: _ -> true | _ -> false) then run_eq_case hd body else
    if (match hd with "CV" :: _ | "EL" :: _ -> true | _ -> false) then run_conv_case hd body else
    if (match hd with "SUB" :: _ -> true | _ -> false) then run_sub_case hd body else
    if (match hd with "CONC" :: _ -> true | _ -> false) then run_conc_case hd body else
    if (match hd with "WF" :: _ -> true | _ -> false) then run_float_case hd body else
    if (match hd with "DJF" :: _ -> true | _ -> false) then run_djf_case hd body else
    if (match hd with "EQF" :: _ -> true | _ -> false) then run_feq_case hd body else
    if (match hd with "PATH" :: _ | "DJ" :: _ -> true | _ -> false) then run_path_case hd body else
    if (match hd with "BIN" :: _ | "BINW" :: _ | "TXT" :: _ | "TXTW" :: _ | "NOFILE" :: _ -> true | _ -> false) then run_io_case hd body else
    let ops = List.filter (fun t -> t <> []) (List.map toks (String.split_on_char ';' body)) in
    let (silent, ops) = strip_silent ops in
    let emit_ms = emit_ms_sel silent in
    (match hd with
     | ["D"; lk; n] ->
       let hs = lk <> "none" in let ops = List.map (qwrap parse_dop) ops in
       emit_ms (d_trace hs !variant (ni n) ops) (if !fspec then d_fspec_trace hs (ni n) ops else if !codes then d_cspec_trace hs (ni n) ops else d_spec_trace hs (ni n) ops)
     | ["U"; lk; n] ->
       let hs = lk <> "none" in let ops = List.map (qwrap parse_uop) ops in
       emit_ms (u_trace_z hs !variant (ni n) ops) (if !fspec then u_fspec_trace hs (ni n) ops else if !codes then u_cspec_trace hs (ni n) ops else u_spec_trace hs (ni n) ops)
     | ["DM"; _; n] -> let ops = List.map (qwrap parse_mop) ops in emit_ms (dm_trace_z !variant (ni n) ops) (if !fspec then m_fspec_trace false (ni n) ops else m_spec_trace false (ni n) ops)
     | ["UM"; _; n] -> let ops = List.map (qwrap parse_mop) ops in emit_ms (um_trace_z !variant !um_set0 (ni n) ops) (if !fspec then m_fspec_trace true (ni n) ops else m_spec_trace true (ni n) ops)
     | ["DW"; _; n] -> let ops = List.map (qwrap parse_wop) ops in emit_ms (dw_trace_z !variant (ni n) ops) (if !fspec then w_fspec_trace false (ni n) ops else w_spec_trace false (ni n) ops)
     | ["UW"; _; n] -> let ops = List.map (qwrap parse_wop) ops in emit_ms (uw_trace_z !variant !uw_canon (ni n) ops) (if !fspec then w_fspec_trace true (ni n) ops else w_spec_trace true (ni n) ops)
     | _ -> failwith ("unknown class in: " ^ line))
let () =
  Array.iter (fun a -> if a = "pinned" then (variant := pinned; um_set0 := false; uw_canon := false); if a = "fspec" then fspec := true; if a = "codes" then codes := true; if a = "nokeep" then keep_label := false; if a = "requeue" then once := false) Sys.argv;
  let lines = ref [] in
  (try while true do lines := input_line stdin :: !lines done with End_of_file -> ());
  let rec go = function
    | [] -> ()
    | l :: rest when String.length l > 5 && String.sub l 0 5 = "CASE " ->
      let rec split acc = function
        | (x :: _) as r when String.length x > 5 && String.sub x 0 5 = "CASE " -> (List.rev acc, r)
        | x :: r -> split (x :: acc) r
        | [] -> (List.rev acc, []) in
      let (mine, others) = split [] rest in
      ilines := mine; print_string l; print_char '\n'; run_case (String.sub l 5 (String.length l - 5)); go others
    | _ :: rest -> go rest in
  go (List.rev !lines)
