# Seeded generators of call histories on the graph classes.  A tiny edge-set simulation is kept only to aim the
# random choices at the case splits of the proofs (edge present / absent, loop / non-loop, i<j / i>j, size 0 and 1,
# vertex being removed carries loops, re-creation under another label ...); it never decides a verdict.
import random

LABEL_KINDS_QUICK = ['none', 'int']
LABEL_KINDS_ALL = ['none', 'int', 'long', 'dbl', 'chr', 'str', 'pt']


def history(rng, cls, lk, maxops=30, force_p=0.0, reject_p=0.04, dd_p=0.0, setlabel=True, sizes=(0, 1, 1, 2, 3, 3, 4, 5)):
    undirected = cls.startswith('U')
    n = rng.choice(sizes)
    cur = n
    edges = set()
    ops = []
    key = (lambda i, j: (min(i, j), max(i, j))) if undirected else (lambda i, j: (i, j))
    nops = rng.randint(0, maxops)
    for _ in range(nops):
        r = rng.random()
        if cur == 0:
            c = rng.choice(['CL', 'SL', 'RZ', 'RZ', 'DD' if dd_p else 'CL', 'BAD' if reject_p > 0 else 'RZ'])
            if c == 'RZ':
                cur += rng.randint(0, 2); ops.append('RZ %d' % cur)
            elif c == 'BAD':
                ops.append(rng.choice(['A 0 0 1 0', 'R 0 0', 'V 0', 'SLB 0 0 1 0']))
            else:
                ops.append(c)
            continue
        # choose a pair, biased toward present edges / loops / the same pair reversed
        if edges and rng.random() < 0.45:
            i, j = rng.choice(sorted(edges))
            if rng.random() < 0.5: i, j = j, i
        else:
            i = rng.randrange(cur); j = rng.choice([i, rng.randrange(cur), rng.randrange(cur)])
        l = rng.randint(0, 3)
        f = 1 if rng.random() < force_p else 0
        if r < reject_p:
            big = rng.choice([cur, cur + 1, 4294967295])
            k = rng.choice(['A', 'AR', 'R', 'V', 'SLB', 'RZ'])
            if k == 'A': ops.append('A %d %d %d %d' % ((big, j, l, f) if rng.random() < 0.5 else (i, big, l, f)))
            elif k == 'AR' and not undirected: ops.append('AR %d %d %d %d' % ((big, j, l, f) if rng.random() < 0.5 else (i, big, l, f)))
            elif k == 'R': ops.append('R %d %d' % ((big, j) if rng.random() < 0.5 else (i, big)))
            elif k == 'V': ops.append('V %d' % big)
            elif k == 'SLB' and lk != 'none' and setlabel: ops.append('SLB %d %d %d 0' % ((big, j, l) if rng.random() < 0.5 else (i, big, l)))
            elif cur > 0: ops.append('RZ %d' % (cur - 1))
            continue
        r = rng.random()
        if r < 0.34:
            ops.append('A %d %d %d %d' % (i, j, l, f)); edges.add(key(i, j))
        elif r < 0.40 and not undirected:
            ops.append('AR %d %d %d %d' % (i, j, l, f)); edges.add((i, j)); edges.add((j, i))
        elif r < 0.58:
            ops.append('R %d %d' % (i, j)); edges.discard(key(i, j))
        elif r < 0.68:
            ops.append('V %d' % i); edges = {e for e in edges if i not in e}
        elif r < 0.73:
            ops.append('SL'); edges = {e for e in edges if e[0] != e[1]}
        elif r < 0.78:
            ops.append('CL'); edges = set()
        elif r < 0.84:
            cur += rng.randint(0, 2); ops.append('RZ %d' % cur)
        elif r < 0.94 and lk != 'none' and setlabel:
            ops.append('SLB %d %d %d 0' % (i, j, l))
        elif dd_p and rng.random() < dd_p * 4:
            ops.append('DD')
        else:
            ops.append('A %d %d %d %d' % (i, j, l, f)); edges.add(key(i, j))
    return '%s %s %d : %s' % (cls, lk, n, ' ; '.join(ops))


def histories(rng, count, classes, kinds, **kw):
    return [history(rng, rng.choice(classes), rng.choice(kinds), **kw) for _ in range(count)]


def op_histogram(cases):
    h = {}
    for c in cases:
        for o in c.split(':', 1)[1].split(';'):
            t = o.split()
            if t: h[t[0]] = h.get(t[0], 0) + 1
    return h


# ---- case -> Coq term (for the in-kernel cross-check of the extracted model) ----
def coq_bool(x): return 'true' if x in ('1', 1, True) else 'false'

def coq_dop(op):
    t = op.split()
    k = t[0]
    z = lambda s: '(%s)%%Z' % s
    if k == 'A': return 'AddEdge %s %s %s %s' % (t[1], t[2], z(t[3]), coq_bool(t[4]))
    if k == 'AR': return 'AddReciprocal %s %s %s %s' % (t[1], t[2], z(t[3]), coq_bool(t[4]))
    if k == 'R': return 'RemoveEdge %s %s' % (t[1], t[2])
    if k == 'SL': return 'RemoveSelfLoops'
    if k == 'V': return 'RemoveVertex %s' % t[1]
    if k == 'CL': return 'ClearEdges'
    if k == 'RZ': return 'Resize %s' % t[1]
    if k == 'SLB': return 'SetLabel %s %s %s %s' % (t[1], t[2], z(t[3]), coq_bool(t[4]))
    if k == 'DD': return 'RemoveDuplicates'
    raise ValueError(op)

def coq_term_history(case, variant='repaired'):
    head, body = case.split(':', 1)
    cls, lk, n = head.split()
    ops = [o.strip() for o in body.split(';') if o.strip()]
    if any(tok.isdigit() and int(tok) > 5000 for o in ops for tok in o.split()):
        return None            # no huge nat numerals inside Coq
    hs = 'false' if lk == 'none' else 'true'
    if cls == 'D':
        return 'd_trace %s %s %s [%s]' % (hs, variant, n, '; '.join(coq_dop(o) for o in ops))
    return None
