# Seeded generators of call histories on the graph classes.  A tiny edge-set simulation is kept only to aim the
# random choices at the case splits of the proofs (edge present / absent, loop / non-loop, i<j / i>j, size 0 and 1,
# vertex being removed carries loops, re-creation under another label ...); it never decides a verdict.
import random

LABEL_KINDS_QUICK = ['none', 'int']
LABEL_KINDS_ALL = ['none', 'int', 'long', 'dbl', 'chr', 'str', 'pt']


def history(rng, cls, lk, maxops=30, force_p=0.0, reject_p=0.04, dd_p=0.0, setlabel=True, sizes=(0, 1, 1, 2, 3, 3, 4, 5), reject_force_p=0.0, query_p=0.0, slb_force_p=0.0):
    undirected = cls.startswith('U')
    n = rng.choice(sizes)
    cur = n
    edges = set()
    ops = []
    key = (lambda i, j: (min(i, j), max(i, j))) if undirected else (lambda i, j: (i, j))
    nops = rng.randint(0, maxops)
    for _ in range(nops):
        r = rng.random()
        if cur == 0:
            c = rng.choice(['CL', 'SL', 'RZ', 'RZ', 'DD' if dd_p else 'CL', 'BAD' if reject_p > 0 else 'RZ'])
            if c == 'RZ':
                cur += rng.randint(0, 2); ops.append('RZ %d' % cur)
            elif c == 'BAD':
                ops.append(rng.choice(['A 0 0 1 0', 'R 0 0', 'V 0', 'SLB 0 0 1 0']))
            else:
                ops.append(c)
            continue
        # choose a pair, biased toward present edges / loops / the same pair reversed
        if edges and rng.random() < 0.45:
            i, j = rng.choice(sorted(edges))
            if rng.random() < 0.5: i, j = j, i
        else:
            i = rng.randrange(cur); j = rng.choice([i, rng.randrange(cur), rng.randrange(cur)])
        l = rng.randint(0, 3)
        f = 1 if rng.random() < force_p else 0
        if rng.random() < query_p:
            ops.append('Q %d' % rng.choice([cur, cur + 1, 4294967295])); continue
        if r < reject_p:
            big = rng.choice([cur, cur + 1, 4294967295])
            if rng.random() < reject_force_p: f = 1
            k = rng.choice(['A', 'AR', 'R', 'V', 'SLB', 'RZ'])
            if k == 'A': ops.append('A %d %d %d %d' % ((big, j, l, f) if rng.random() < 0.5 else (i, big, l, f)))
            elif k == 'AR' and not undirected: ops.append('AR %d %d %d %d' % ((big, j, l, f) if rng.random() < 0.5 else (i, big, l, f)))
            elif k == 'R': ops.append('R %d %d' % ((big, j) if rng.random() < 0.5 else (i, big)))
            elif k == 'V': ops.append('V %d' % big)
            elif k == 'SLB' and lk != 'none' and setlabel: ops.append('SLB %d %d %d %d' % ((big, j, l, f) if rng.random() < 0.5 else (i, big, l, f)))
            elif cur > 0: ops.append('RZ %d' % (cur - 1))
            continue
        r = rng.random()
        if r < 0.34:
            ops.append('A %d %d %d %d' % (i, j, l, f)); edges.add(key(i, j))
        elif r < 0.40 and not undirected:
            ops.append('AR %d %d %d %d' % (i, j, l, f)); edges.add((i, j)); edges.add((j, i))
        elif r < 0.58:
            ops.append('R %d %d' % (i, j)); edges.discard(key(i, j))
        elif r < 0.68:
            ops.append('V %d' % i); edges = {e for e in edges if i not in e}
        elif r < 0.73:
            ops.append('SL'); edges = {e for e in edges if e[0] != e[1]}
        elif r < 0.78:
            ops.append('CL'); edges = set()
        elif r < 0.84:
            cur += rng.randint(0, 2); ops.append('RZ %d' % cur)
        elif r < 0.94 and lk != 'none' and setlabel:
            ops.append('SLB %d %d %d %d' % (i, j, l, 1 if rng.random() < slb_force_p else 0))      # force=true may leave an orphan label (documented); later unforced calls on the pair must still be rejected
        elif dd_p and rng.random() < dd_p * 4:
            ops.append('DD')
        else:
            ops.append('A %d %d %d %d' % (i, j, l, f)); edges.add(key(i, j))
    return '%s %s %d : %s' % (cls, lk, n, ' ; '.join(ops))


def histories(rng, count, classes, kinds, **kw):
    return [history(rng, rng.choice(classes), rng.choice(kinds), **kw) for _ in range(count)]


def op_histogram(cases):
    h = {}
    for c in cases:
        for o in c.split(':', 1)[1].split(';'):
            t = o.split()
            if t: h[t[0]] = h.get(t[0], 0) + 1
    return h


# ---- case -> Coq term (for the in-kernel cross-check of the extracted model) ----
def qw(f, op):
    t = op.split()
    return 'inr %s%%nat' % t[1] if t[0] == 'Q' else 'inl (%s)' % f(op)

def coq_bool(x): return 'true' if x in ('1', 1, True) else 'false'

def coq_dop(op):
    t = op.split()
    k = t[0]
    if k == 'Q': return None
    z = lambda s: '(%s)%%Z' % s
    if k == 'A': return 'AddEdge %s %s %s %s' % (t[1], t[2], z(t[3]), coq_bool(t[4]))
    if k == 'AR': return 'AddReciprocal %s %s %s %s' % (t[1], t[2], z(t[3]), coq_bool(t[4]))
    if k == 'R': return 'RemoveEdge %s %s' % (t[1], t[2])
    if k == 'SL': return 'RemoveSelfLoops'
    if k == 'V': return 'RemoveVertex %s' % t[1]
    if k == 'CL': return 'ClearEdges'
    if k == 'RZ': return 'Resize %s' % t[1]
    if k == 'SLB': return 'SetLabel %s %s %s %s' % (t[1], t[2], z(t[3]), coq_bool(t[4]))
    if k == 'DD': return 'RemoveDuplicates'
    raise ValueError(op)

def coq_uop(op):
    t = op.split(); k = t[0]
    z = lambda s: '(%s)%%Z' % s
    if k == 'A': return 'UAdd %s %s %s %s' % (t[1], t[2], z(t[3]), coq_bool(t[4]))
    if k == 'R': return 'URemove %s %s' % (t[1], t[2])
    if k == 'SL': return 'USelfLoops'
    if k == 'V': return 'URemoveVertex %s' % t[1]
    if k == 'CL': return 'UClear'
    if k == 'RZ': return 'UResize %s' % t[1]
    if k == 'SLB': return 'USetLabel %s %s %s %s' % (t[1], t[2], z(t[3]), coq_bool(t[4]))
    if k == 'DD': return 'URemoveDuplicates'
    raise ValueError(op)

def coq_term_history(case, variant='repaired'):
    if '~' in case: return None
    head, body = case.split(':', 1)
    cls, lk, n = head.split()
    ops = [o.strip() for o in body.split(';') if o.strip()]
    if any(tok.isdigit() and int(tok) > 5000 for o in ops for tok in o.split()):
        return None            # no huge nat numerals inside Coq
    hs = 'false' if lk == 'none' else 'true'
    if cls == 'D':
        return 'd_trace %s %s %s [%s]' % (hs, variant, n, '; '.join(qw(coq_dop, o) for o in ops))
    if cls == 'U':
        return 'u_trace_z %s %s %s [%s]' % (hs, variant, n, '; '.join(qw(coq_uop, o) for o in ops))
    return None


# ---- multigraph / weighted histories ----
def multi_history(rng, cls, maxops=30, force_p=0.0, reject_p=0.0, dd_p=0.0, sizes=(0, 1, 1, 2, 3, 3, 4, 5), reject_force_p=0.0, query_p=0.0):
    und = cls == 'UM'
    n = rng.choice(sizes); cur = n
    mult = {}
    key = (lambda i, j: (min(i, j), max(i, j))) if und else (lambda i, j: (i, j))
    ops = []
    for _ in range(rng.randint(0, maxops)):
        if cur == 0:
            c = rng.choice(['CL', 'SL', 'RZ', 'RZ', 'DD' if dd_p else 'CL', 'BAD' if reject_p > 0 else 'RZ'])
            if c == 'RZ': cur += rng.randint(0, 2); ops.append('RZ %d' % cur)
            elif c == 'BAD': ops.append(rng.choice(['A 0 0 0', 'MA 0 1 2 0', 'R 0 0', 'V 0', 'MS 0 0 1', 'MR 0 0 1']))
            else: ops.append(c)
            continue
        if mult and rng.random() < 0.5:
            i, j = rng.choice(sorted(mult))
            if rng.random() < 0.5: i, j = j, i
        else:
            i = rng.randrange(cur); j = rng.choice([i, rng.randrange(cur), rng.randrange(cur)])
        c0 = mult.get(key(i, j), 0)
        k = rng.choice([0, 1, 1, 2, 3, max(c0 - 1, 0), c0, c0 + 1])        # multiplicity arguments around the current value
        f = 1 if rng.random() < force_p else 0
        r = rng.random()
        if rng.random() < query_p:
            ops.append('Q %d' % rng.choice([cur, cur + 1, 4294967295])); continue
        if r < reject_p:
            if rng.random() < reject_force_p: f = 1
            big = rng.choice([cur, cur + 1, 4294967295]); a, b = ((big, j) if rng.random() < 0.5 else (i, big))
            ops.append(rng.choice(['A %d %d %d' % (a, b, f), 'MA %d %d %d %d' % (a, b, k, f), 'R %d %d' % (a, b), 'MR %d %d %d' % (a, b, k),
                                   'MS %d %d %d' % (a, b, k), 'V %d' % big, 'RZ %d' % max(cur - 1, 0) if cur > 0 else 'V %d' % big]))
            continue
        r = rng.random()
        if r < 0.12: ops.append('A %d %d %d' % (i, j, f)); mult[key(i, j)] = c0 + 1
        elif r < 0.34:
            ops.append('MA %d %d %d %d' % (i, j, k, f))
            if k: mult[key(i, j)] = c0 + k
        elif r < 0.38 and not und:
            ops.append(rng.choice(['AR %d %d %d' % (i, j, f), 'MAR %d %d %d %d' % (i, j, max(k, 1), f)]))
            mult[key(i, j)] = mult.get(key(i, j), 0) + 1; mult[key(j, i)] = mult.get(key(j, i), 0) + 1
        elif r < 0.46:
            ops.append('R %d %d' % (i, j))
            if c0 > 1: mult[key(i, j)] = c0 - 1
            else: mult.pop(key(i, j), None)
        elif r < 0.60:
            ops.append('MR %d %d %d' % (i, j, k))
            if c0 > k: mult[key(i, j)] = c0 - k
            else: mult.pop(key(i, j), None)
        elif r < 0.76:
            ops.append('MS %d %d %d' % (i, j, k))
            if k: mult[key(i, j)] = k
            else: mult.pop(key(i, j), None)
        elif r < 0.83: ops.append('V %d' % i); mult = {e: v for e, v in mult.items() if i not in e}
        elif r < 0.87: ops.append('SL'); mult = {e: v for e, v in mult.items() if e[0] != e[1]}
        elif r < 0.91: ops.append('CL'); mult = {}
        elif r < 0.96: cur += rng.randint(0, 2); ops.append('RZ %d' % cur)
        elif dd_p: ops.append('DD')
        else: ops.append('A %d %d %d' % (i, j, f)); mult[key(i, j)] = c0 + 1
    return '%s mult %d : %s' % (cls, n, ' ; '.join(ops))


def weighted_history(rng, cls, maxops=30, force_p=0.0, reject_p=0.0, dd_p=0.0, sizes=(0, 1, 1, 2, 3, 3, 4, 5), reject_force_p=0.0, query_p=0.0):
    und = cls == 'UW'
    n = rng.choice(sizes); cur = n
    edges = set()
    key = (lambda i, j: (min(i, j), max(i, j))) if und else (lambda i, j: (i, j))
    ops = []
    for _ in range(rng.randint(0, maxops)):
        if cur == 0:
            c = rng.choice(['CL', 'SL', 'RZ', 'RZ', 'DD' if dd_p else 'CL', 'BAD' if reject_p > 0 else 'RZ'])
            if c == 'RZ': cur += rng.randint(0, 2); ops.append('RZ %d' % cur)
            elif c == 'BAD': ops.append(rng.choice(['WA 0 0 4 0', 'R 0 0', 'V 0', 'WS 0 1 2']))
            else: ops.append(c)
            continue
        if edges and rng.random() < 0.5:
            i, j = rng.choice(sorted(edges))
            if rng.random() < 0.5: i, j = j, i
        else:
            i = rng.randrange(cur); j = rng.choice([i, rng.randrange(cur), rng.randrange(cur)])
        w = rng.choice([-9, -4, -1, 0, 0, 1, 2, 3, 4, 6, 10, 20])          # units of 1/4: negative, zero, positive, non-integers
        f = 1 if rng.random() < force_p else 0
        r = rng.random()
        if rng.random() < query_p:
            ops.append('Q %d' % rng.choice([cur, cur + 1, 4294967295])); continue
        if r < reject_p:
            if rng.random() < reject_force_p: f = 1
            big = rng.choice([cur, cur + 1, 4294967295]); a, b = ((big, j) if rng.random() < 0.5 else (i, big))
            ops.append(rng.choice(['WA %d %d %d %d' % (a, b, w, f), 'R %d %d' % (a, b), 'WS %d %d %d' % (a, b, w), 'V %d' % big, 'RZ %d' % max(cur - 1, 0) if cur > 0 else 'V %d' % big]))
            continue
        r = rng.random()
        if r < 0.32: ops.append('WA %d %d %d %d' % (i, j, w, f)); edges.add(key(i, j))
        elif r < 0.55: ops.append('WS %d %d %d' % (i, j, w)); edges.add(key(i, j))
        elif r < 0.72: ops.append('R %d %d' % (i, j)); edges.discard(key(i, j))
        elif r < 0.81: ops.append('V %d' % i); edges = {e for e in edges if i not in e}
        elif r < 0.86: ops.append('SL'); edges = {e for e in edges if e[0] != e[1]}
        elif r < 0.90: ops.append('CL'); edges = set()
        elif r < 0.96: cur += rng.randint(0, 2); ops.append('RZ %d' % cur)
        elif dd_p: ops.append('DD')
        else: ops.append('WA %d %d %d %d' % (i, j, w, f)); edges.add(key(i, j))
    return '%s dbl %d : %s' % (cls, n, ' ; '.join(ops))


def coq_mop(op):
    t = op.split(); k = t[0]; z = lambda s: '(%s)%%Z' % s
    if k == 'A': return 'MAdd %s %s %s' % (t[1], t[2], coq_bool(t[3]))
    if k == 'AR': return 'MAddRecip %s %s %s' % (t[1], t[2], coq_bool(t[3]))
    if k == 'MA': return 'MAddMulti %s %s %s %s' % (t[1], t[2], z(t[3]), coq_bool(t[4]))
    if k == 'MAR': return 'MAddRecipMulti %s %s %s %s' % (t[1], t[2], z(t[3]), coq_bool(t[4]))
    if k == 'R': return 'MRemove %s %s' % (t[1], t[2])
    if k == 'MR': return 'MRemoveMulti %s %s %s' % (t[1], t[2], z(t[3]))
    if k == 'MS': return 'MSet %s %s %s' % (t[1], t[2], z(t[3]))
    return {'SL': 'MSelfLoops', 'CL': 'MClear', 'DD': 'MRemoveDuplicates'}.get(k) or ('MRemoveVertex %s' % t[1] if k == 'V' else 'MResize %s' % t[1])

def coq_wop(op):
    t = op.split(); k = t[0]; z = lambda s: '(%s)%%Z' % s
    if k == 'WA': return 'WAdd %s %s %s %s' % (t[1], t[2], z(t[3]), coq_bool(t[4]))
    if k == 'R': return 'WRemove %s %s' % (t[1], t[2])
    if k == 'WS': return 'WSet %s %s %s' % (t[1], t[2], z(t[3]))
    return {'SL': 'WSelfLoops', 'CL': 'WClear', 'DD': 'WRemoveDuplicates'}.get(k) or ('WRemoveVertex %s' % t[1] if k == 'V' else 'WResize %s' % t[1])

def coq_term_mw(case):
    if '~' in case: return None
    head, body = case.split(':', 1)
    cls, lk, n = head.split()
    ops = [o.strip() for o in body.split(';') if o.strip()]
    if any(tok.isdigit() and int(tok) > 5000 for o in ops for tok in o.split()): return None
    if cls == 'DM': return 'dm_trace_z repaired %s [%s]' % (n, '; '.join(qw(coq_mop, o) for o in ops))
    if cls == 'UM': return 'um_trace_z repaired true %s [%s]' % (n, '; '.join(qw(coq_mop, o) for o in ops))
    if cls == 'DW': return 'dw_trace_z repaired %s [%s]' % (n, '; '.join(qw(coq_wop, o) for o in ops))
    if cls == 'UW': return 'uw_trace_z repaired true %s [%s]' % (n, '; '.join(qw(coq_wop, o) for o in ops))
    return None


# ---- C16: forced insertions on the multigraph / weighted classes, then removeDuplicateEdges, then ordinary use ----
def forced_then_dedup(rng, cls, sizes=(1, 2, 3, 3, 4, 5)):
    und = cls in ('UM', 'UW'); multi = cls in ('DM', 'UM')
    n = rng.choice(sizes)
    key = (lambda i, j: (min(i, j), max(i, j))) if und else (lambda i, j: (i, j))
    val = {}
    ops = []
    for _ in range(rng.randint(1, 12)):
        if val and rng.random() < 0.5:
            i, j = rng.choice(sorted(val))
            if rng.random() < 0.5: i, j = j, i
        else:
            i = rng.randrange(n); j = rng.choice([i, rng.randrange(n), rng.randrange(n)])
        k = key(i, j)
        if k in val:
            v = val[k] if rng.random() < 0.93 else val[k] + 1          # all copies carry the same value (rarely not: the oracle must then abstain)
            f = 1 if rng.random() < 0.8 else 0
        else:
            v = rng.randint(1, 3) if multi else rng.choice([-5, -1, 0, 2, 4, 7]); f = rng.randint(0, 1)
        if multi:
            if f == 0 and k in val: continue                           # an unforced addMultiedge on a present pair accumulates: not a duplicate
            ops.append('MA %d %d %d %d' % (i, j, v, f)) if (v != 1 or rng.random() < 0.5) else ops.append('A %d %d %d' % (i, j, f))
        else:
            ops.append('WA %d %d %d %d' % (i, j, v, f))
        val.setdefault(k, v)
    ops.append('DD')
    tail = (multi_history if multi else weighted_history)(rng, cls, maxops=8, sizes=(n,)).split(':', 1)[1].strip()
    if tail: ops.append(tail)
    return '%s %s %d : %s' % (cls, 'mult' if multi else 'dbl', n, ' ; '.join(ops))


# ---- C06: pairs of histories ----
def _construct(rng, cls, n, target):
    """a random history from size n that denotes `target` (dict key -> value); detours through junk edges and every kind of removal"""
    und = cls.startswith('U'); multi = cls in ('DM', 'UM'); weighted = cls in ('DW', 'UW'); labelled = cls in ('D', 'U')
    ops = []
    add = lambda i, j, v: ('MA %d %d %d 0' % (i, j, v)) if multi else ('WA %d %d %d 0' % (i, j, v)) if weighted else ('A %d %d %d 0' % (i, j, v))
    orient = lambda i, j: (j, i) if und and rng.random() < 0.5 else (i, j)
    junkval = lambda: rng.randint(1, 3) if multi else rng.choice([-3, 1, 5, 0, 0]) if weighted else rng.randint(0, 3)      # weight 0: 'no weight' and 'weight zero' must not be confused
    if n > 0 and rng.random() < 0.6:                       # junk first, then wipe it: the past must not matter
        for _ in range(rng.randint(1, 4)):
            i, j = rng.randrange(n), rng.randrange(n); ops.append(add(*orient(i, j), junkval()))
        ops.append(rng.choice(['CL', 'CL', 'SL ; CL'] + ['V %d ; CL' % rng.randrange(n)]))
    keys = list(target); rng.shuffle(keys)
    done = set()
    for k in keys:
        i, j = k; v = target[k]
        if n > 0 and rng.random() < 0.25:                   # a junk edge removed again, by removeEdge or removeVertexFromEdgeList on an untouched vertex
            a, b = rng.randrange(n), rng.randrange(n)
            kk = (min(a, b), max(a, b)) if und else (a, b)
            if kk not in target:
                ops.append(add(*orient(a, b), junkval()))
                how = rng.random()
                if multi and how < 0.25: ops.append(rng.choice(['MS %d %d 0', 'MR %d %d 7']) % orient(a, b))      # the other ways a multigraph drops a pair
                elif a == b and how < 0.5:
                    ops.append('SL')                                   # removeSelfLoops; the target's own loops are put back
                    for k2 in sorted(done):
                        if k2[0] == k2[1]: ops.append(add(*k2, target[k2]))
                elif how < 0.5: ops.append('R %d %d' % orient(a, b))
                else:
                    # removeVertexFromEdgeList on either endpoint (lower or higher), then whatever it destroyed of the target is put back
                    v = rng.choice([a, b]); ops.append('V %d' % v)
                    for k2 in sorted(done):
                        if v in k2: ops.append(add(*orient(*k2), target[k2]))
        if n > 0 and rng.random() < 0.2:                    # calls that must leave no trace: removal of a pair that is not an edge (never was, or was removed)
            a, b = rng.randrange(n), rng.randrange(n)
            kk = (min(a, b), max(a, b)) if und else (a, b)
            if kk not in target:
                ops.append(rng.choice(['R %d %d' % orient(a, b)] + (['MR %d %d %d' % (*orient(a, b), rng.randint(1, 3)), 'MS %d %d 0' % orient(a, b)] if multi else [])))
        r = rng.random()
        if multi and v > 1 and r < 0.4:
            v1 = rng.randint(1, v - 1); ops.append(add(*orient(i, j), v1)); ops.append(add(*orient(i, j), v - v1))
        elif multi and r < 0.6:
            ops.append(add(*orient(i, j), v + 2)); ops.append('MR %d %d 2' % orient(i, j))
        elif multi and r < 0.75:
            ops.append(add(*orient(i, j), 1)); ops.append('MS %d %d %d' % (*orient(i, j), v))
        elif weighted and r < 0.4:
            ops.append(add(*orient(i, j), v + 3)); ops.append('WS %d %d %d' % (*orient(i, j), v))
        elif weighted and r < 0.55:
            ops.append('WS %d %d %d' % (*orient(i, j), v))
        elif labelled and r < 0.35:
            ops.append(add(*orient(i, j), (v + 1) % 4)); ops.append('SLB %d %d %d 0' % (*orient(i, j), v))
        elif labelled and r < 0.5:
            ops.append(add(*orient(i, j), v)); ops.append(add(*orient(i, j), (v + 2) % 4))       # re-adding keeps the first label
        elif r < 0.6:
            ops.append(add(*orient(i, j), junkval())); ops.append('R %d %d' % orient(i, j)); ops.append(add(*orient(i, j), v))   # re-created: only the new value counts
        else:
            ops.append(add(*orient(i, j), v))
        done.add(k)
    if rng.random() < 0.2: ops.append('DD')
    return ' ; '.join(ops)

def eq_pair(rng, cls, lk):
    und = cls.startswith('U'); multi = cls in ('DM', 'UM'); weighted = cls in ('DW', 'UW')
    n = rng.choice([0, 1, 2, 3, 3, 4, 5])
    target = {}
    for _ in range(rng.randint(0, 7) if n else 0):
        i, j = rng.randrange(n), rng.randrange(n)
        k = (min(i, j), max(i, j)) if und else (i, j)
        target[k] = rng.randint(1, 3) if multi else rng.choice([-4, -1, 0, 2, 6]) if weighted else rng.randint(0, 3)
    kind = rng.choice(['same', 'same', 'oneoff', 'oneoff', 'random'])
    a = _construct(rng, cls, n, target)
    if kind == 'same':
        b = _construct(rng, cls, n, target)
    elif kind == 'oneoff':
        t2 = dict(target); how = rng.random()
        if t2 and how < 0.35: t2.pop(rng.choice(sorted(t2)))
        elif t2 and how < 0.7 and lk != 'none':
            k = rng.choice(sorted(t2)); t2[k] = t2[k] + 1 if (multi or weighted) else (t2[k] + 1) % 4
        elif n > 0:
            i, j = rng.randrange(n), rng.randrange(n); k = (min(i, j), max(i, j)) if und else (i, j)
            if k in t2: t2.pop(k)
            else: t2[k] = 1
        b = _construct(rng, cls, n, t2)
        if not t2 and not target and rng.random() < 0.5: b = 'RZ %d' % (n + 1)          # differ in size only
    else:
        b = (multi_history(rng, cls, maxops=10, sizes=(n,)) if multi else weighted_history(rng, cls, maxops=10, sizes=(n,)) if weighted
             else history(rng, cls, lk, maxops=10, reject_p=0.0, sizes=(n,))).split(':', 1)[1].strip()
    return 'EQ %s %s %d : %s | %s' % (cls, lk, n, a, b)

def eq_big(rng, cls, lk):
    """two graphs of 36-48 vertices with a hub of 33 or more neighbours that is not vertex 0 (so that it has lower-numbered neighbours),
    built in different orders: equal, or differing in exactly one pair / one value"""
    und = cls.startswith('U'); multi = cls in ('DM', 'UM'); weighted = cls in ('DW', 'UW')
    n = rng.randint(36, 48); h = rng.randrange(1, n)
    key = lambda i, j: (min(i, j), max(i, j)) if und else (i, j)
    val = lambda: rng.randint(1, 3) if multi else rng.choice([-4, -1, 0, 2, 6]) if weighted else rng.randint(0, 3)
    target = {}
    for v in rng.sample(range(n), rng.randint(33, n - 1)):
        target[key(h, v) if rng.random() < 0.7 or und else key(v, h)] = val()
    for _ in range(rng.randint(0, 12)): target[key(rng.randrange(n), rng.randrange(n))] = val()
    add = lambda i, j, v: ('MA %d %d %d 0' % (i, j, v)) if multi else ('WA %d %d %d 0' % (i, j, v)) if weighted else ('A %d %d %d 0' % (i, j, v))
    def build(t):
        ks = list(t); rng.shuffle(ks)
        return ' ; '.join(add(*((k[1], k[0]) if und and rng.random() < 0.5 else k), t[k]) for k in ks)
    t2 = dict(target); how = rng.random()
    if how < 0.5: pass
    elif how < 0.75: t2.pop(rng.choice(sorted(t2)))
    elif lk != 'none': k = rng.choice(sorted(t2)); t2[k] = t2[k] + 1 if (multi or weighted) else (t2[k] + 1) % 4
    return 'EQ %s %s %d : %s | %s' % (cls, lk, n, build(target), build(t2))

def coq_term_eq(case):
    head, body = case.split(':', 1)
    _, cls, lk, n = head.split()
    a, b = (body.split('|') + [''])[:2]
    if any(tok.isdigit() and int(tok) > 5000 for tok in body.replace(';', ' ').replace('|', ' ').split()): return None
    f = {'D': coq_dop, 'U': coq_uop, 'DM': coq_mop, 'UM': coq_mop, 'DW': coq_wop, 'UW': coq_wop}[cls]
    la = '[%s]' % '; '.join(f(o.strip()) for o in a.split(';') if o.strip()); lb = '[%s]' % '; '.join(f(o.strip()) for o in b.split(';') if o.strip())
    hs = 'false' if lk == 'none' else 'true'
    t = {'D': 'd_eq_case %s repaired' % hs, 'U': 'u_eq_case %s repaired' % hs, 'DM': 'dm_eq_case repaired', 'UM': 'um_eq_case repaired true',
         'DW': 'dw_eq_case repaired', 'UW': 'uw_eq_case repaired true'}[cls]
    return '[[%s %s %s %s]]' % (t, n, la, lb)


# ---- C09: conversions and edge-list constructors ----
def cv_case(rng, cls, lk):
    h = history(rng, cls, lk, maxops=14, reject_p=0.0, sizes=(0, 1, 2, 3, 3, 4))
    if cls == 'D' and lk != 'none' and rng.random() < 0.7:
        # make most reciprocal pairs carry the same label, so that "labelled as one of them" is unambiguous and the oracle speaks
        head, body = h.split(':', 1)
        ops = [o.strip() for o in body.split(';') if o.strip()]
        ops = [('AR' + o[1:] if o.startswith('A ') and rng.random() < 0.3 else o) for o in ops]
        ops = [o for o in ops if not o.startswith('SLB')]
        h = head + ': ' + ' ; '.join(ops)
    return 'CV ' + h

def el_case(rng, cls, lk):
    multi = cls in ('DM', 'UM'); weighted = cls in ('DW', 'UW')
    n = rng.choice([0, 1, 2, 3, 4, 6, 9])
    k = rng.randint(0, 8) if n else 0
    ts = []
    for _ in range(k):
        if ts and rng.random() < 0.3:
            i, j, _l = rng.choice(ts)
            if rng.random() < 0.5: i, j = j, i
        else:
            i = rng.randrange(n); j = rng.choice([i, rng.randrange(n), rng.randrange(n)])
        l = rng.randint(0, 3) if multi else rng.choice([-5, 0, 1, 6]) if weighted else rng.randint(0, 3)
        ts.append((i, j, l))
    return 'EL %s %s : %s' % (cls, lk, ' ; '.join('%d %d %d' % t for t in ts))

def coq_term_conv(case):
    head, body = case.split(':', 1)
    t = head.split()
    if t[0] == 'CV':
        _, cls, lk, n = t
        ops = [o.strip() for o in body.split(';') if o.strip()]
        hs = 'false' if lk == 'none' else 'true'
        if cls == 'D': return 'd_cv_case %s repaired %s [%s]' % (hs, n, '; '.join(coq_dop(o) for o in ops))
        return 'u_cv_case %s repaired true %s [%s]' % (hs, n, '; '.join(coq_uop(o) for o in ops))
    _, cls, lk = t
    es = '[%s]' % '; '.join('(%s%%nat, %s%%nat, (%s)%%Z)' % tuple(o.split()) for o in body.split(';') if o.strip())
    hs = 'false' if lk == 'none' else 'true'
    f = {'D': 'd_el_case %s repaired' % hs, 'U': 'u_el_case %s repaired' % hs, 'DM': 'dm_el_case repaired', 'UM': 'um_el_case repaired',
         'DW': 'dw_el_case repaired', 'UW': 'uw_el_case repaired'}[cls]
    return '%s %s' % (f, es)


# ---- C10: (history, vertex subset) ----
def sub_cases(rng, cls, lk, all_subsets_upto=4, oor_p=0.04):
    h = history(rng, cls, lk, maxops=14, reject_p=0.0, sizes=(0, 1, 2, 3, 3, 4, 4, 5))
    head, body = h.split(':', 1)
    n = int(head.split()[2])
    if n > 0:       # histories often end nearly empty: add a few edges at the end so that the induced subgraphs are not all trivial
        extra = ['A %d %d %d 0' % (rng.randrange(n), rng.randrange(n), rng.randint(0, 3)) for _ in range(rng.randint(0, 6))]
        if extra: h = h + (' ; ' if body.strip() else ' ') + ' ; '.join(extra); head, body = h.split(':', 1)
    for o in body.split(';'):
        t = o.split()
        if t and t[0] == 'RZ': n = max(n, int(t[1]))
    out = []
    if n <= all_subsets_upto: masks = range(1 << n)
    else: masks = [0, (1 << n) - 1] + [rng.getrandbits(n) for _ in range(10)]
    for m in masks:
        vs = [v for v in range(n) if m >> v & 1]
        rng.shuffle(vs)
        if rng.random() < oor_p: vs.insert(rng.randint(0, len(vs)), rng.choice([n, n + 1, 4294967295]))
        out.append('SUB %s| %s' % (h + ' ', ' '.join(map(str, vs))))
    return out

def coq_term_sub(case):
    return None      # the oracle values (set order, returned map) come from the implementation run; cross-checked through the other properties' samples


# ---- exhaustive small scopes (thorough tier): every history of the given depth over a small alphabet on n vertices ----
def exhaustive_histories(cls, lk, n, depth, rich):
    import itertools
    pairs = [(i, j) for i in range(n) for j in range(n)]
    if cls in ('D', 'U'):
        labs = [1, 2] if (rich and lk != 'none') else [1]
        alpha = ['A %d %d %d 0' % (i, j, l) for i, j in pairs for l in labs] + ['R %d %d' % p for p in pairs] + ['V %d' % v for v in range(n)] + ['SL', 'CL']
        if rich: alpha += ['SLB %d %d 3 0' % p for p in pairs] + ['RZ %d' % (n + 1), 'A %d %d 2 1' % pairs[-1], 'DD'] + (['AR 0 %d 1 0' % (n - 1)] if cls == 'D' else [])
    elif cls in ('DM', 'UM'):
        alpha = ['MA %d %d %d 0' % (i, j, k) for i, j in pairs for k in ((1, 2) if rich else (1,))] + ['MR %d %d %d' % (i, j, k) for i, j in pairs for k in ((1, 3) if rich else (1,))] + ['V %d' % v for v in range(n)] + ['SL', 'CL']
        if rich: alpha += ['MS %d %d %d' % (i, j, k) for i, j in pairs for k in (0, 2)]
    else:
        alpha = ['WA %d %d %d 0' % (i, j, w) for i, j in pairs for w in ((4, -2) if rich else (4,))] + ['R %d %d' % p for p in pairs] + ['V %d' % v for v in range(n)] + ['SL', 'CL']
        if rich: alpha += ['WS %d %d %d' % (i, j, w) for i, j in pairs for w in (0, 6)]
    return ['%s %s %d : %s' % (cls, lk, n, ' ; '.join(h)) for h in itertools.product(alpha, repeat=depth)]


# ---- large scopes: many vertices / many copies / huge counters, built with SILENT steps ("~op": applied on both sides, only the way the
# call ended is compared) and then observed in full for a few calls.  Aimed at code whose behaviour changes with size: small-buffer or
# bitmap optimisations (32 / 64 / 256 boundaries), hubs, counters that wrap ----
def big_history(rng, cls, lk):
    und = cls.startswith('U')
    n = rng.choice([33, 34, 40, 41, 65, 66, 70])
    lab = (lambda: rng.randint(0, 3)) if lk != 'none' else (lambda: 0)
    ops = []
    hub = rng.choice([0, n - 1, rng.randrange(n)])
    deg = rng.choice([31, 32, 33, 34, min(n - 1, 40)])
    nbrs = rng.sample([v for v in range(n)], min(deg, n))
    for j in nbrs: ops.append('~A %d %d %d 0' % (((hub, j) if (not und or rng.random() < 0.5) else (j, hub)) + (lab(),)))
    # pairs whose indices differ by 32 / 64 around another vertex
    v = rng.randrange(n); base = rng.randrange(0, max(1, min(31, n - 32)))
    for j in (base, base + 32) + ((base + 64,) if base + 64 < n else ()):
        ops.append('~A %d %d %d 0' % (v, j, lab()))
    if rng.random() < 0.5: ops.append('~A %d %d %d 0' % (v, v, lab()))
    for _ in range(rng.randint(0, 6)): ops.append('~A %d %d %d 0' % (rng.randrange(n), rng.randrange(n), lab()))
    # observed calls
    def pair():
        r = rng.random()
        if r < 0.4: return (hub, rng.choice(nbrs))
        if r < 0.6: return (rng.choice(nbrs), hub)
        if r < 0.8: return (v, rng.choice([base, base + 32]))
        return (rng.randrange(n), rng.randrange(n))
    for _ in range(rng.randint(3, 6)):
        r = rng.random(); i, j = pair()
        if r < 0.35: ops.append('A %d %d %d 0' % (i, j, lab()))
        elif r < 0.5: ops.append('R %d %d' % (i, j))
        elif r < 0.65: ops.append('DD')
        elif r < 0.75: ops.append('V %d' % rng.choice([hub, v, i]))
        elif r < 0.85: ops.append('SL')
        elif cls == 'D' and r < 0.92: ops.append('AR %d %d %d 0' % (i, j, lab()))
        else: ops.append('SLB %d %d %d 0' % (i, j, lab()))
    return '%s %s %d : %s' % (cls, lk, n, ' ; '.join(ops))

def many_copies_history(rng, cls, lk):
    """one pair (and one loop) forced hundreds of times, then removeDuplicateEdges / removeEdge observed"""
    und = cls.startswith('U'); n = rng.randint(2, 4)
    a, b = rng.sample(range(n), 2); c = rng.randrange(n)
    k1 = rng.choice([255, 256, 257, 258, 300, 513]); k2 = rng.choice([2, 255, 256, 257, 300])
    ops = ['~A %d %d 1 1' % ((a, b) if (not und or t % 2 == 0) else (b, a)) for t in range(k1)]
    ops += ['~A %d %d 2 1' % (c, c) for _ in range(k2)]
    ops += ['A %d %d 3 1' % (a, b), rng.choice(['DD', 'DD', 'R %d %d' % (a, b)]), 'A %d %d 1 0' % (a, b), 'DD', 'R %d %d' % (c, c)]
    return '%s %s %d : %s' % (cls, lk, n, ' ; '.join(ops))

HUGE = [2147483647, 2147483648, 2147483649, 3000000000, 4000000000]      # the stored 32-bit multiplicity itself must not wrap (capacity of the type, outside the property): small additions only
def huge_multiplicity_history(rng, cls):
    n = rng.randint(2, 4); ops = []
    for _ in range(rng.randint(4, 12)):
        i, j = rng.randrange(n), rng.randrange(n); r = rng.random()
        k = rng.choice(HUGE + [1, 2, 5])
        if r < 0.3: ops.append('MA %d %d %d 0' % (i, j, rng.choice([1, 2, 5])))       # additions stay small: the 32-bit multiplicity itself must not wrap
        elif r < 0.65: ops.append('MS %d %d %d' % (i, j, k))
        elif r < 0.85: ops.append('MR %d %d %d' % (i, j, rng.choice(HUGE + [1, 3])))
        elif r < 0.92: ops.append('V %d' % i)
        else: ops.append('SL')
    return '%s mult %d : %s' % (cls, n, ' ; '.join(ops))
