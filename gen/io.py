# Generators for the file routines: binary record files (every cut offset, shuffled records, all label widths), well-formed text files
# from a grammar (comments, arbitrary horizontal whitespace, names), a separate malformed-text stream, and graphs to be written.
import random, struct
import classes as G

WIDTHS = {'0': 0, '1': 1, '2': 2, '4': 4, '4f': 4, '8': 8, '8f': 8}
def hexs(b): return ''.join('%02x' % x for x in b)

def rand_label(rng, w):
    k = WIDTHS[w]
    if k == 0: return b''
    if w == '4f': return struct.pack('<f', rng.choice([0.0, 1.5, -2.25, 1e10, 3.0e-5, float(rng.randint(-50, 50))]))
    if w == '8f': return struct.pack('<d', rng.choice([0.0, 1.5, -2.25, 1e100, 3.0e-50, float(rng.randint(-50, 50))]))
    return bytes(rng.randrange(256) for _ in range(k)) if rng.random() < 0.5 else (rng.randrange(4)).to_bytes(k, 'little')

WIDE_VERTICES = [0, 1, 254, 255, 256, 257, 510, 511, 512, 767, 768, 999]
def bin_records(rng, w, nrec, nmax=6):
    recs = []
    wide = rng.random() < 0.12          # vertex numbers whose low byte is 0xFF / 0x00 (a byte that looks like EOF or like a terminator)
    for _ in range(nrec):
        i = rng.randrange(nmax); j = rng.choice([i, rng.randrange(nmax), rng.randrange(nmax)])
        if wide: i = rng.choice(WIDE_VERTICES); j = rng.choice(WIDE_VERTICES + [i])
        recs.append(struct.pack('<II', i, j) + rand_label(rng, w))
    return recs

def bin_big_cases(rng, count):
    """unlabelled / labelled files longer than a stream buffer (8192 bytes and more), whole and cut near the end and near the buffer boundary"""
    out = []
    for t in range(count):
        cls = rng.choice(['D', 'U']); w = rng.choice(['0', '0', '1', '4']); nrec = rng.choice([1023, 1024, 1025, 1100, 2050])
        if t == 0: w, nrec = '0', 1100          # at least one unlabelled file well past the first buffer refill
        recs = [struct.pack('<II', k % 7, (k * 3 + 1) % 7) + rand_label(rng, w) for k in range(nrec)]
        data = b''.join(recs)
        for cut in {len(data), len(data) - 1, len(data) - 5, 8192, 8191, 8193, 8200}:
            if 0 <= cut <= len(data): out.append('BIN %s %s : %s' % (cls, w, hexs(data[:cut])))
    return out
def bin_cases(rng, count, cuts):
    out = []
    for _ in range(count):
        cls = rng.choice(['D', 'U']); w = rng.choice(list(WIDTHS))
        recs = bin_records(rng, w, rng.randint(0, 4))
        data = b''.join(recs)
        if cuts:
            for k in range(len(data) + 1): out.append('BIN %s %s : %s' % (cls, w, hexs(data[:k])))
        else:
            rng.shuffle(recs)
            out.append('BIN %s %s : %s' % (cls, w, hexs(b''.join(recs))))
    return out

def binw_cases(rng, count):
    out = []
    for _ in range(count):
        cls = rng.choice(['D', 'U']); w = rng.choice(['0', '1', '2', '4', '8'])
        h = G.history(rng, cls, 'none' if w == '0' else 'int', maxops=14, reject_p=0.0, sizes=(0, 1, 2, 3, 4, 5))
        head, body = h.split(':', 1)
        # labels in the history are 0..3; spread them over the width of the label type
        ops = []
        for o in body.split(';'):
            t = o.split()
            if t and t[0] in ('A', 'AR', 'SLB') and w != '0':
                t[3] = str((int(t[3]) * 0x0101010101010101 + int(t[3]) * 7) % (256 ** WIDTHS[w]) if rng.random() < 0.7 else rng.randrange(256 ** WIDTHS[w]) % (2 ** 62))
            if t: ops.append(' '.join(t))
        out.append('BINW %s %s %s : %s' % (cls, w, head.split()[2], ' ; '.join(ops)))
    for _ in range(max(2, count // 40)):      # graphs whose vertex numbers contain 0xFF / 0x00 bytes (written and read back)
        cls = rng.choice(['D', 'U']); w = rng.choice(['0', '1', '4'])
        es = ['A %d %d %d 0' % (rng.choice(WIDE_VERTICES), rng.choice(WIDE_VERTICES), rng.randrange(4) if w != '0' else 0) for _ in range(rng.randint(1, 5))]
        out.append('BINW %s %s 0 : RZ 1000 ; %s' % (cls, w, ' ; '.join(es)))
    return out

WS = [b' ', b'\t', b'  ', b' \t ', b'\t\t']
def ws(rng): return rng.choice(WS)
def text_file(rng, lk, names, nmax=8):
    lines = []
    pool = [b'alice', b'bob', b'x', b'node_7', b'0', b'42', b'htag', b'Z', b'#tag', b'#', b'a#b']
    for _ in range(rng.randint(0, 8)):
        r = rng.random()
        if r < 0.15: lines.append(b'#' + rng.choice([b'', b' comment 1 2', b' 3 4 5', b'\t#', b' ' + b'x' * rng.choice([254, 255, 256, 300, 1000]), b' 1 2 ' * rng.choice([60, 120])]))
        else:
            if names: a, b = rng.choice(pool), rng.choice(pool)
            else: a, b = str(rng.randrange(nmax)).encode(), str(rng.choice([rng.randrange(nmax), rng.randrange(nmax)])).encode()
            lead = ws(rng) if rng.random() < 0.4 else b''
            line = lead + a + ws(rng) + b
            if lk == 'int':
                line += ws(rng) + str(rng.choice([0, 1, 7, 13, -4, 250, 99999])).encode()
                if rng.random() < 0.2: line += ws(rng)
            elif lk == 'str':
                if rng.random() < 0.8: line += ws(rng) + rng.choice([b'a', b'hello world', b'x\ty', b'7', b'#not a comment', b'trailing  '])
                elif rng.random() < 0.5: line += ws(rng)
            else:
                if rng.random() < 0.3: line += ws(rng) + rng.choice([b'', b'ignored text', b'9'])
            lines.append(line)
    data = b'\n'.join(lines)
    if lines and rng.random() < 0.8: data += b'\n'
    return data

def txt_cases(rng, count):
    out = []
    for _ in range(count):
        cls = rng.choice(['D', 'U']); lk = rng.choice(['none', 'int', 'str']); names = rng.random() < 0.35
        out.append('TXT %s %s %d : %s' % (cls, lk, 1 if names else 0, hexs(text_file(rng, lk, names))))
    return out

BAD_LINES = [b'', b' ', b'\t', b'7', b' 7 ', b'a b', b'1 b', b'a 1', b'-1 -1', b'-1 2', b'2 -3', b'+1 2', b'1.5 2', b'99999999999 1', b'1 2147483648', b'1 -2147483649',
             b'0x10 1', b'1 2 x', b'\x00 1', b'\xff\xfe 1', b'1\x002', b'1 2\r', b'\r', b'1,2', b'1 ' , b' # 1 2', b'1 2 3 4 5', b'12abc 3', b'3 12abc', b'2999 0', b'1' * 40 + b' 1']
def txt_bad_cases(rng, count):
    out = []
    for _ in range(count):
        cls = rng.choice(['D', 'U']); lk = rng.choice(['none', 'int', 'str'])
        good = text_file(rng, lk, False).split(b'\n')
        k = rng.randint(1, 3)
        for _ in range(k): good.insert(rng.randint(0, len(good)), rng.choice(BAD_LINES))
        if rng.random() < 0.1: good = [bytes(rng.randrange(256) for _ in range(rng.randint(1, 20)))]
        out.append('TXT %s %s 0 : %s' % (cls, lk, hexs(b'\n'.join(good))))
    return out

def txtw_cases(rng, count):
    out = []
    for _ in range(count):
        cls = rng.choice(['D', 'U']); lk = rng.choice(['none', 'int'])
        h = G.history(rng, cls, lk, maxops=14, reject_p=0.0, sizes=(0, 1, 2, 3, 4, 5))
        head, body = h.split(':', 1)
        out.append('TXTW %s %s %s :%s' % (cls, lk, head.split()[2], body))
    return out
