# Generators for the path searches: exhaustive small graphs x all (source, destination), families with exponentially many shortest
# paths (layered, grid), cycles through the source, several components, forced duplicates, zero-weight edges and cycles.
import itertools, random

def graph_case(kind, cls, n, edges, q, force=False):
    ops = ' ; '.join(('A %d %d 0 %d' % (i, j, 1 if force and k % 3 == 2 else 0)) for k, (i, j) in enumerate(edges))
    return '%s %s none %d : %s | %s' % (kind, cls, n, ops, ' '.join(map(str, q)))

def all_graph_cases(rng, cls, n, pairs_per_graph=None, sample=None):
    allp = [(i, j) for i in range(n) for j in range(n)] if cls == 'D' else [(i, j) for i in range(n) for j in range(i, n)]
    masks = range(1 << len(allp)) if sample is None else [rng.getrandbits(len(allp)) for _ in range(sample)]
    out = []
    for m in masks:
        es = [p for k, p in enumerate(allp) if m >> k & 1]
        rng.shuffle(es)
        if cls == 'U': es = [(j, i) if rng.random() < 0.5 else (i, j) for i, j in es]
        qs = [(s, t) for s in range(n) for t in range(n)]
        if pairs_per_graph is not None and len(qs) > pairs_per_graph: qs = rng.sample(qs, pairs_per_graph)
        for q in qs: out.append(graph_case('PATH', cls, n, es, q))
    return out

def layered(cls, width, layers):
    # source 0, then `layers` layers of `width` vertices, every vertex joined to every vertex of the next layer, sink at the end
    n = 1 + width * layers + 1
    lay = [[0]] + [[1 + l * width + k for k in range(width)] for l in range(layers)] + [[n - 1]]
    es = [(a, b) for x, y in zip(lay, lay[1:]) for a in x for b in y]
    return n, es

def grid(cls, r, c):
    idx = lambda i, j: i * c + j
    es = []
    for i in range(r):
        for j in range(c):
            if j + 1 < c: es.append((idx(i, j), idx(i, j + 1)))
            if i + 1 < r: es.append((idx(i, j), idx(i + 1, j)))
    return r * c, es

def random_graph(rng, cls, nmax=9):
    n = rng.randint(1, nmax)
    m = rng.randint(0, min(3 * n, n * n))
    es = [(rng.randrange(n), rng.randrange(n)) for _ in range(m)]
    return n, es

def family_cases(rng, tier):
    out = []
    for cls in ('D', 'U'):
        for width, layers in [(2, 2), (2, 4), (2, 6), (3, 3), (2, 8)] + ([(2, 10), (3, 5), (2, 12)] if tier != 'quick' else []):
            if cls == 'U' and layers >= 12: continue       # the brute-force spec enumerates walks: minutes per case on the undirected 26-vertex graph
            n, es = layered(cls, width, layers)
            out.append(graph_case('PATH', cls, n, es, (0, n - 1)))
            out.append(graph_case('PATH', cls, n, es, (0, 1)))
        for r, c in [(2, 2), (3, 3), (3, 4)] + ([(4, 4), (4, 5)] if tier != 'quick' else []):
            n, es = grid(cls, r, c)
            out.append(graph_case('PATH', cls, n, es, (0, n - 1)))
            out.append(graph_case('PATH', cls, n, es, (n // 2, 0)))
    return out

def random_cases(rng, k, nmax=9, oor_p=0.03):
    out = []
    for _ in range(k):
        cls = rng.choice(['D', 'U'])
        n, es = random_graph(rng, cls, nmax)
        s, t = rng.randrange(n), rng.randrange(n)
        if rng.random() < oor_p:
            big = rng.choice([n, n + 1, 4294967295])
            s, t = rng.choice([(big, t), (s, big), (big, big)])
        out.append(graph_case('PATH', cls, n, es, (s, t), force=rng.random() < 0.2))
    return out

# ---- Dijkstra ----
WEIGHTS = [0, 4, 8, 20]          # 0, 1, 2, 5 in units of 1/4
def dj_case(cls, n, wedges, s, updates=()):
    # updates: setEdgeWeight calls after the insertions (either endpoint order; the graph the search sees is the updated one)
    ops = ' ; '.join(['WA %d %d %d 0' % e for e in wedges] + ['WS %d %d %d' % u for u in updates])
    return 'DJ %s dbl %d : %s | %d' % (cls, n, ops, s)

def dj_random(rng, k, nmax=8, oor_p=0.03, weights=WEIGHTS):
    out = []
    for _ in range(k):
        cls = rng.choice(['DW', 'UW'])
        n = rng.randint(1, nmax)
        m = rng.randint(0, min(3 * n, n * n))
        wes = [(rng.randrange(n), rng.randrange(n), rng.choice(weights)) for _ in range(m)]
        s = rng.randrange(n)
        if rng.random() < oor_p: s = rng.choice([n, n + 1, 4294967295])
        ups = []
        if wes and rng.random() < 0.35:          # weights changed afterwards with setEdgeWeight, endpoints in either order
            for _ in range(rng.randint(1, 3)):
                i, j, _w = rng.choice(wes)
                if cls == 'UW' and rng.random() < 0.6: i, j = max(i, j), min(i, j)
                ups.append((i, j, rng.choice(weights)))
        out.append(dj_case(cls, n, wes, s, ups))
    return out

def dj_small_exhaustive(rng, n, per_topology, weights=WEIGHTS):
    allp = [(i, j) for i in range(n) for j in range(n) if i != j]
    out = []
    for m in range(1 << len(allp)):
        es = [p for k, p in enumerate(allp) if m >> k & 1]
        for _ in range(per_topology):
            wes = [(i, j, rng.choice(weights)) for i, j in es]
            rng.shuffle(wes)
            for s in range(n): out.append(dj_case(rng.choice(['DW', 'UW']), n, wes, s))
    return out

def dj_families(rng, tier):
    out = []
    for cls in ('DW', 'UW'):
        # zero-weight cycles, ties between routes, long chains with a shortcut
        for n in (3, 5, 8):
            cyc = [(i, (i + 1) % n, 0) for i in range(n)]
            out.append(dj_case(cls, n, cyc, 0)); out.append(dj_case(cls, n, cyc + [(0, n - 1, 4)], 1))
        for width, layers in [(2, 3), (2, 5), (3, 3)] + ([(2, 8), (3, 5)] if tier != 'quick' else []):
            n, es = layered('D', width, layers)
            out.append(dj_case(cls, n, [(a, b, rng.choice([0, 4])) for a, b in es], 0))
            out.append(dj_case(cls, n, [(a, b, 4) for a, b in es], 0))
        n, es = grid('D', 3, 4)
        out.append(dj_case(cls, n, [(a, b, rng.choice(WEIGHTS)) for a, b in es], 0))
    return out

# ---- Dijkstra: shapes in which a vertex that is already queued gets its distance lowered (decrease-key), with vertices hanging off it ----
def dj_funnel(rng, k):
    out = []
    for _ in range(k):
        cls = rng.choice(['DW', 'UW'])
        m = rng.randint(2, 5); mids = list(range(1, m + 1)); v = m + 1; n = m + 2
        es = []; base = rng.randint(0, 3)
        for idx, a in enumerate(mids):
            es.append((0, a, base + idx * rng.randint(1, 2)))
            es.append((a, v, max(0, (m - idx) * rng.randint(2, 4) - rng.randint(0, 2))))
        for _ in range(rng.randint(1, 4)):
            u = n; n += 1
            es.append((rng.choice([v] + mids + list(range(m + 2, u))) if u > m + 2 else v, u, rng.randint(0, 6)))
            if rng.random() < 0.6: es.append((rng.choice(mids), u, rng.randint(0, 12)))
        for _ in range(rng.randint(0, 3)): es.append((rng.randrange(n), rng.randrange(n), rng.randint(0, 12)))
        rng.shuffle(es); perm = list(range(n)); rng.shuffle(perm)
        out.append(dj_case(cls, n, [(perm[a], perm[b], w) for a, b, w in es], perm[0]))
    return out
def dj_wide(rng, k, nmax=9):
    out = []
    for _ in range(k):
        n = rng.randint(4, nmax)
        es = [(rng.randrange(n), rng.randrange(n), rng.randint(0, 16)) for _ in range(rng.randint(n, 3 * n))]
        out.append(dj_case(rng.choice(['DW', 'UW']), n, es, rng.randrange(n)))
    return out

# ---- change-directed search for C19: hill-climb on (neighbourhood scans) / bound over graphs, evaluated on the implementation ----
def _edge_entries(case):
    t = case.split(); cls = t[1]; es = set()
    for op in case.split(':', 1)[1].split('|')[0].split(';'):
        o = op.split()
        if o: a, b = int(o[1]), int(o[2]); es.add((a, b) if cls in ('DW', 'D') else (min(a, b), max(a, b)))
    return len(es) if cls in ('DW', 'D') else sum(1 if a == b else 2 for a, b in es)
def scan_ratio(case, I):
    """scans / bound for a DJ case (line 0, bound V+E+1) or a PATH case (all-predecessor search = line 1, bound V+E)"""
    try:
        dj = case.startswith('DJ'); segs = I[0 if dj else 1][2:].split('|')
        n = int(case.split()[3]); return int(segs[2].split()[0]) / float(n + _edge_entries(case) + (1 if dj else 0))
    except Exception: return 0.0
def climb_scans(run_only, rng, budget_s, kinds=('DJ', 'PATH'), log=None):
    import time
    t0 = time.time(); tried = []; top = {}
    for kind in kinds:
        def mk(st):
            cls, n, es, s = st
            return dj_case(cls, n, es, s) if kind == 'DJ' else graph_case('PATH', cls, n, [(a, b) for a, b, _ in es], (s, (s + 1) % max(n, 1)))
        def mutate(st):
            cls, n, es, s = st; es = list(es); r = rng.random()
            if r < 0.35 and es: k = rng.randrange(len(es)); a, b, w = es[k]; es[k] = (a, b, max(0, w + rng.choice([-3, -2, -1, 1, 2, 3, 5])))
            elif r < 0.6: es.append((rng.randrange(n), rng.randrange(n), rng.randint(0, 20)))
            elif r < 0.7 and es: es.pop(rng.randrange(len(es)))
            elif r < 0.85 and n < 16: es.append((rng.randrange(n), n, rng.randint(0, 20))); es.append((n, rng.randrange(n), rng.randint(0, 20))); n += 1
            elif es: k = rng.randrange(len(es)); a, b, w = es[k]; es[k] = (a, rng.randrange(n), w)
            return (cls, n, es, s)
        pop = []
        for _ in range(40):
            n = rng.randint(5, 9)
            pop.append((rng.choice(['DW', 'UW'] if kind == 'DJ' else ['D', 'U']), n, [(rng.randrange(n), rng.randrange(n), rng.randint(0, 16)) for _ in range(rng.randint(n, 3 * n))], 0))
        best = 0.0; deadline = t0 + budget_s * (kinds.index(kind) + 1) / len(kinds)
        while time.time() < deadline and best <= 1.0:
            cand = {mk(st): st for st in pop + [mutate(rng.choice(pop)) for _ in range(200)]}
            impl, _ = run_only(list(cand))
            sc = {c: scan_ratio(c, impl.get(c, [])) for c in cand}
            ranked = sorted(cand, key=lambda c: -sc[c])
            pop = [cand[c] for c in ranked[:30]]; best = max(best, sc[ranked[0]]); tried += ranked[:3]
        top[kind] = round(best, 3)
    if log is not None: log.update(top)
    return list(dict.fromkeys(tried))


def long_chain_cases(rng, k):
    """searches that dequeue several hundred vertices (the BFS queue and the Dijkstra heap go through many blocks / reallocations):
    directed chains and rings, every vertex with one successor so that the brute-force spec (all walks of minimal length) stays linear"""
    out = []
    for _ in range(k):
        n = rng.choice([130, 160, 200, 260, 300])
        es = [(i, i + 1) for i in range(n - 1)]
        if rng.random() < 0.5: es.append((n - 1, 0))
        s = rng.choice([0, 0, 1, n // 2]); t = rng.choice([n - 1, n - 2, (s + n - 1) % n])
        out.append(graph_case('PATH', 'D', n, es, (s, t)))
        out.append(dj_case('DW', n, [(a, b, rng.choice([4, 8, 20])) for a, b in es], s))
    return out
