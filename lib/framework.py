# Generic machinery of the checks: Coq obligations, harness builds, implementation/model/spec runs, comparison,
# shrinking, verdicts and evidence.  Property-specific parts (generators, which harness, which theorems) live in props.py.
import ast, fcntl, hashlib, json, os, random, re, shutil, subprocess, sys, time

ROOT = os.path.dirname(os.path.dirname(os.path.abspath(__file__)))
REPO = os.environ.get('VERIF_REPO', '/repo')
COQ = os.path.join(ROOT, 'coq')
BUILD = os.path.join(ROOT, 'build')
CXX_QUICK = ['g++', '-std=c++14', '-O1', '-g', '-fsanitize=address,undefined', '-fno-sanitize-recover=all']
ENV = dict(os.environ, ASAN_OPTIONS='detect_leaks=0:abort_on_error=0:max_allocation_size_mb=2048', UBSAN_OPTIONS='print_stacktrace=0', TSAN_OPTIONS='halt_on_error=1:second_deadlock_stack=0')


def sh(cmd, timeout=600, inp=None, cwd=None, env=None):
    t0 = time.time()
    if cmd and cmd[0] in ('coqc', 'make', 'coqchk'):
        cmd = ['bash', '-c', 'ulimit -v 24000000; exec "$@"', 'bash'] + list(cmd)       # a runaway coqc must not take the machine down
    try:
        p = subprocess.run(cmd, input=inp, capture_output=True, text=True, timeout=timeout, cwd=cwd, env=env or ENV)
        return p.returncode, p.stdout, p.stderr, time.time() - t0
    except subprocess.TimeoutExpired as e:
        out = e.stdout.decode() if isinstance(e.stdout, bytes) else (e.stdout or '')
        return 124, out, 'TIMEOUT', time.time() - t0


class Lock:
    def __init__(self, name):
        os.makedirs(BUILD, exist_ok=True)
        self.path = os.path.join(BUILD, name)
    def __enter__(self):
        self.f = open(self.path, 'w'); fcntl.flock(self.f, fcntl.LOCK_EX); return self
    def __exit__(self, *a):
        fcntl.flock(self.f, fcntl.LOCK_UN); self.f.close()


# ---------------------------------------------------------------- Coq side
def coq_build():
    """Incremental full .vo build of the development and of the extracted driver (setup.sh did the clean build)."""
    with Lock('coq.lock'):
        if not os.path.exists(os.path.join(COQ, 'Makefile')):
            sh(['coq_makefile', '-f', '_CoqProject', '-o', 'Makefile'], cwd=COQ)
        rc, out, err, dt = sh(['make', '-k', '-j16'], timeout=3000, cwd=COQ)
        rc2, out2, err2, dt2 = sh(['make', '-C', os.path.join(ROOT, 'ocaml')], timeout=900)
        return rc == 0, rc2 == 0, (out + err)[-4000:] + (out2 + err2)[-2000:]


def check_obligations(pid):
    """Re-compile Properties_<pid>.v from scratch; return (theorems, discharged, assumptions per theorem, log)."""
    vf = os.path.join(COQ, 'theories', 'Properties_%s.v' % pid)
    if not os.path.exists(vf):
        return [], [], {}, 'no property file'
    src = open(vf).read()
    theorems = re.findall(r'^(?:Theorem|Corollary)\s+(\w+)', src, re.M)
    with Lock('coq.lock'):
        rc, out, err, dt = sh(['make', 'theories/Properties_%s.vo' % pid], timeout=3000, cwd=COQ)      # dependencies
        rc, out, err, dt = sh(['coqc', '-Q', 'theories', 'BG', '-w', '-all', 'theories/Properties_%s.v' % pid], timeout=1800, cwd=COQ)
    log = out + err
    if rc != 0:
        # which theorem broke?  (line number of the error against theorem positions)
        m = re.search(r'line (\d+)', err)
        broken = None
        if m:
            ln = int(m.group(1)); pos = [(src[:mm.start()].count('\n') + 1, mm.group(1)) for mm in re.finditer(r'^(?:Theorem|Corollary)\s+(\w+)', src, re.M)]
            for l, name in pos:
                if l <= ln: broken = name
        return theorems, [], {'_broken': broken or 'dependency of Properties_%s.v' % pid}, log[-3000:]
    # Print Assumptions blocks, in order
    blocks = re.split(r'(?=^(?:Closed under the global context|Axioms:))', out, flags=re.M)
    blocks = [b.strip() for b in blocks if b.startswith('Closed') or b.startswith('Axioms:')]
    pa = re.findall(r'^Print Assumptions\s+(\w+)', src, re.M)
    assum = {}
    for name, b in zip(pa, blocks):
        assum[name] = ' '.join(b.split())
    return theorems, list(theorems), assum, log[-1500:]


def coqchk(pid):
    """Independent re-check of the compiled property file and everything it depends on (thorough tier); returns (ok, summary)."""
    with Lock('coq.lock'):
        rc, out, err, dt = sh(['coqchk', '-o', '-silent', '-Q', 'theories', 'BG', 'BG.Properties_%s' % pid], timeout=3000, cwd=COQ)
    txt = (out + err)
    m = re.search(r'CONTEXT SUMMARY.*', txt, re.S)
    summ = ' '.join((m.group(0) if m else txt[-800:]).split())
    return rc == 0, summ[:1500]


def forbidden_scan():
    """No Admitted/admit/Axiom/Parameter/... anywhere in the development."""
    bad = []
    pat = re.compile(r'\b(Admitted|admit|Axiom|Axioms|Parameter|Parameters|Conjecture|Admit Obligations|Unset Guard Checking|Unset Positivity Checking|Unset Universe Checking|bypass_check|native_compute)\b')
    for fn in sorted(os.listdir(os.path.join(COQ, 'theories'))):
        if fn.endswith('.v'):
            txt = re.sub(r'\(\*.*?\*\)', '', open(os.path.join(COQ, 'theories', fn)).read(), flags=re.S)
            for i, line in enumerate(txt.split('\n')):
                if pat.search(line): bad.append('%s:%d:%s' % (fn, i + 1, line.strip()[:80]))
    return bad


# ---------------------------------------------------------------- implementation side
def build_harness(name, out_dir, flags=None, extra=None, tag=''):
    os.makedirs(out_dir, exist_ok=True)
    exe = os.path.join(out_dir, 'impl_%s%s' % (name, tag))
    cmd = (flags or CXX_QUICK) + ['-I' + os.path.join(REPO, 'include'), '-I' + os.path.join(ROOT, 'harness'),
                                  os.path.join(ROOT, 'harness', 'impl_%s.cpp' % name), '-o', exe] + (extra or [])
    rc, out, err, dt = sh(cmd, timeout=900)
    return (exe if rc == 0 else None), err[-3000:], dt


def parse_blocks(text):
    """{case line: [lines]} in order, from 'CASE <line>' followed by tagged lines."""
    res, order, cur = {}, [], None
    for ln in text.split('\n'):
        if ln.startswith('CASE '):
            cur = ln[5:]; res[cur] = []; order.append(cur)
        elif ln and cur is not None:
            res[cur].append(ln)
    return res, order


HANGS_SEEN = 0
def run_impl(exe, cases, timeout=600, env=None, wrap=None):
    """Run the harness over all cases; a crash (sanitizer abort, signal) is recorded against the case it happened in and
    the run resumes with the next case.  Returns ({case: [I lines]}, {case: abort text})."""
    global HANGS_SEEN
    # the harnesses create their scratch files under $TMPDIR: a directory of this run, removed afterwards even if the harness was aborted
    import tempfile
    os.makedirs(os.path.join(BUILD, 'tmp'), exist_ok=True)
    tdir = tempfile.mkdtemp(dir=os.path.join(BUILD, 'tmp'))
    env = dict(env or ENV, TMPDIR=tdir)
    try:
        return _run_impl(exe, cases, timeout, env, wrap)
    finally:
        shutil.rmtree(tdir, ignore_errors=True)

def _run_impl(exe, cases, timeout, env, wrap):
    global HANGS_SEEN
    results, aborts = {}, {}
    todo = list(cases)
    hangs = 0
    if HANGS_SEEN >= 3: timeout = min(timeout, 30); hangs = 2          # this process has met non-terminating cases already: do not spend the budget on more of them
    while todo:
        # a case that does not terminate must not cost the whole budget each time: the limit shrinks to what the cases need (a harness
        # handles thousands of cases per second; valgrind runs pass their own limit) and the run stops after three hangs
        tmo = timeout if hangs == 0 else min(timeout, max(30, len(todo) // 20))
        rc, out, err, dt = sh((wrap or []) + [exe], timeout=tmo, inp='\n'.join(todo) + '\n', env=env)
        blocks, order = parse_blocks(out)
        for c in order: results[c] = blocks[c]
        if rc == 0:
            break
        if not order:
            bad = todo[0]
            results[bad] = []
        else:
            bad = order[-1]
        aborts[bad] = ('timeout (no termination within %ds)' % tmo if rc == 124 else 'exit %d: ' % rc) + ' | '.join(err.strip().split('\n')[:6])[:600]
        results[bad].append('I ABORT')
        idx = todo.index(bad)
        todo = todo[idx + 1:]
        if rc == 124:
            hangs += 1; HANGS_SEEN += 1
            if hangs >= 3:
                for c in todo: results[c] = ['I NOTRUN']
                break
    return results, aborts


def run_driver(impl_results, order, args=None, timeout=1800):
    text = []
    for c in order:
        text.append('CASE ' + c)
        text.extend(impl_results.get(c, []))
    # the extracted functions recurse on unary nat and on lists (not always in tail position): give the driver a large stack
    cmd = ['bash', '-c', 'ulimit -s 4000000 2>/dev/null || ulimit -s unlimited 2>/dev/null; exec "$@"', 'bash', os.path.join(ROOT, 'ocaml', 'driver')] + (args or [])
    rc, out, err, dt = sh(cmd, timeout=timeout, inp='\n'.join(text) + '\n')
    blocks, _ = parse_blocks(out)
    return blocks, rc, err[-1000:]


def triples(case, I, MS):
    """Align implementation lines with model/spec lines step by step."""
    Il = [x[2:] for x in I if x.startswith('I ') or x == 'I']
    M = [x[2:] for x in MS if x.startswith('M ') or x == 'M']
    S = [x[2:] for x in MS if x.startswith('S ') or x == 'S']
    return Il, M, S


def project(line, segs):
    """keep only the '|'-separated segments a property is about (None = all)"""
    if segs is None or line in ('-', 'MISSING', 'ABORT', 'NOTRUN') or '|' not in line: return line
    parts = [x.strip() for x in line.split('|')]
    return ' | '.join(parts[k] if k < len(parts) else '?' for k in segs)


def judge(case, I, MS, segs=None):
    """-> (corr_ok, prop_ok, step, detail).  prop failure: the spec has an opinion and the implementation differs.
    corr failure: implementation differs from the model (where the model is defined).  Only the segments the property
    is about are compared."""
    Il, M, S = triples(case, I, MS)
    # a spec line "<code> | -777" (CodesSpec.v) speaks about the result code alone: compare the first segment here, then no opinion
    code_fail = None
    for k, s_ in enumerate(S):
        if s_ not in ('-',) and '|' in s_ and s_.split('|', 1)[1].strip() == '-777':
            want = s_.split('|', 1)[0].strip()
            if k < len(Il) and Il[k] not in ('MISSING', 'ABORT', 'NOTRUN'):
                got = Il[k].split('|', 1)[0].strip()
                if got != want and code_fail is None: code_fail = (k, got, want)
            S[k] = '-'
    if callable(segs):        # per-line selection: segs(case, k) -> list of segments, None (all) or 'skip'
        sel = [segs(case, k) for k in range(max(len(Il), len(M), len(S)))]
        pr = lambda xs: [('-' if (k < len(sel) and sel[k] == 'skip') else project(x, sel[k] if k < len(sel) else None)) for k, x in enumerate(xs)]
        Il, M, S = pr(Il), pr(M), pr(S)
        M = [m if m != '-' else None for m in M]
        Il = [i if i != '-' or (k < len(sel) and sel[k] != 'skip') else 'SKIP' for k, i in enumerate(Il)]
        M = [('SKIP' if (k < len(sel) and sel[k] == 'skip') else m) for k, m in enumerate(M)]
    else:
        Il = [project(x, segs) for x in Il]; M = [project(x, segs) for x in M]; S = [project(x, segs) for x in S]
    corr_ok, prop_ok, step, detail = True, True, None, None
    for k in range(max(len(Il), len(M))):
        i = Il[k] if k < len(Il) else 'MISSING'
        m = M[k] if k < len(M) else None
        s = S[k] if k < len(S) else '-'
        if m is not None and m.split(' ', 1)[0] == '-199':
            # the model itself says the call is undefined behaviour: nothing to compare from here on
            if prop_ok and s != '-' and i != s:
                prop_ok = False; step = k if step is None else step; detail = detail or ('spec', k, i, s)
            break
        if i == 'NOTRUN': break                      # the run was stopped after repeated hangs: no information about this case
        if i == 'ABORT' and prop_ok:
            # a crash, a sanitizer report or a call that does not return is outside every property, whatever the spec oracle has to say
            prop_ok = False
            if step is None: step = k
            detail = ('abort', k, i, s if s != '-' else (m or '-'))
        if s != '-' and i != s and prop_ok:
            prop_ok = False
            if step is None: step = k
            detail = ('spec', k, i, s)
        if code_fail is not None and code_fail[0] == k and prop_ok:
            prop_ok = False
            if step is None: step = k
            detail = ('spec', k, code_fail[1], code_fail[2] + ' (result code; the spec speaks of the code alone after a forced call)')
        if m is not None and i != m and corr_ok:
            corr_ok = False
            if step is None: step = k
            if detail is None: detail = ('model', k, i, m)
        if m is None and i != 'MISSING' and k >= len(M) and corr_ok and len(M) > 0:
            pass
    return corr_ok, prop_ok, step, detail


def diff_positions(a, b, limit=8):
    x, y = a.split(), b.split()
    d = [(k, x[k] if k < len(x) else None, y[k] if k < len(y) else None) for k in range(max(len(x), len(y)))
         if (x[k] if k < len(x) else None) != (y[k] if k < len(y) else None)]
    return d[:limit]


# ---------------------------------------------------------------- in-kernel cross-check of the extracted model
def kernel_crosscheck(pid, coq_terms, expected, imports='Base DirectedModel DirectedSpec Instances'):
    """coq_terms: list of Coq expressions of type list (list Z); expected: list of list of list of int (from the extracted
    model).  Evaluates them with vm_compute inside coqc and compares."""
    if not coq_terms:
        return 0, 0, ''
    d = os.path.join(BUILD, pid); os.makedirs(d, exist_ok=True)
    vf = os.path.join(d, 'cases_%s.v' % pid)
    with open(vf, 'w') as f:
        f.write('From BG Require Import %s.\nLocal Open Scope Z_scope.\n' % imports)
        for t in coq_terms:
            f.write('Eval vm_compute in (%s).\n' % t)
    rc, out, err, dt = sh(['coqc', '-Q', os.path.join(COQ, 'theories'), 'BG', '-w', '-all', vf], timeout=900, cwd=d)
    if rc != 0:
        return len(coq_terms), len(coq_terms), 'coqc failed on cases file: ' + err[-500:]
    vals = []
    for blk in re.split(r'^\s*=\s', out, flags=re.M)[1:]:
        body = blk.split(' : list')[0] if ' : list' in blk else blk.split('\n     :')[0]
        body = re.sub(r'%Z|\s', '', body).replace(';', ',')
        try: vals.append(ast.literal_eval(body))
        except Exception as e: vals.append(('unparsable', body[:100]))
    bad = sum(1 for v, e in zip(vals, expected) if v != e) + abs(len(vals) - len(expected))
    return len(coq_terms), bad, ''


# ---------------------------------------------------------------- shrinking (delta debugging over ';'-separated ops)
def _ddmin(items, fails_one, budget_s=40):
    """delta debugging on a list: remove chunks (halves, quarters, ... single items) while the failure persists; stops after budget_s seconds"""
    t0 = time.time(); n = 2
    while len(items) >= 2 and time.time() - t0 < budget_s:
        size = max(1, len(items) // n); removed = False
        for start in range(0, len(items), size):
            cand = items[:start] + items[start + size:]
            if time.time() - t0 > budget_s: break
            if fails_one(cand): items = cand; n = max(n - 1, 2); removed = True; break
        if not removed:
            if size == 1: break
            n = min(len(items), n * 2)
    return items


def shrink_history(case, fails_batch, max_rounds=30):
    """case = 'HEAD : op ; op ; ...'.  fails_batch(list of cases) -> list of bool.  Delta debugging over the op list (time-limited)."""
    head, body = case.split(':', 1)
    ops = [o.strip() for o in body.split(';') if o.strip()]
    mk = lambda o: head.rstrip() + ' : ' + ' ; '.join(o)
    ops = _ddmin(ops, lambda o: fails_batch([mk(o)])[0])
    return mk(ops)


def shrink_ops(case, fails_batch, max_rounds=40):
    """Generalisation to 'HEAD : ops | tail' and 'EQ ... : ops | ops': delta debugging in every ';'-separated op list of the case
    (for an EQ case both histories, for the others only the part before the first '|'); hex-encoded file cases are left alone."""
    head, body = case.split(':', 1)
    kind = head.split()[0]
    if kind in ('BIN', 'TXT', 'NOFILE'): return case
    parts = body.split('|')
    nlists = 2 if kind in ('EQ', 'EQF') else 1
    lists = [[o.strip() for o in parts[k].split(';') if o.strip()] if k < len(parts) else [] for k in range(nlists)]
    def mk(ls):
        ps = [' ' + ' ; '.join(l) + ' ' for l in ls] + parts[nlists:]
        return head.rstrip() + ' :' + '|'.join(ps)
    for k in range(nlists):
        def fails_one(l, k=k):
            ls = [list(x) for x in lists]; ls[k] = l; return fails_batch([mk(ls)])[0]
        lists[k] = _ddmin(lists[k], fails_one, budget_s=35)
    return mk(lists)


def source_fingerprints():
    """what tree was checked: HEAD of /repo, whether include/ differs from it, and a hash per header"""
    fp = {}
    inc = os.path.join(REPO, 'include')
    for root, _, files in os.walk(inc):
        for fn in sorted(files):
            pth = os.path.join(root, fn)
            fp[os.path.relpath(pth, REPO)] = hashlib.sha256(open(pth, 'rb').read()).hexdigest()[:16]
    rc, head, _, _ = sh(['git', '-C', REPO, 'rev-parse', '--short', 'HEAD'], timeout=30)
    rc2, st, _, _ = sh(['git', '-C', REPO, 'status', '--short', '--', 'include'], timeout=30)
    return {'repo_head': head.strip(), 'include_modified_files': [l.strip() for l in st.split('\n') if l.strip()], 'sha256_16': fp}


# ---------------------------------------------------------------- verdicts, evidence
def load_known(pid):
    p = os.path.join(ROOT, 'known_findings.json')
    if not os.path.exists(p): return []
    return [e for e in json.load(open(p)).get('findings', []) if e.get('property') == pid and e.get('kind') == 'known']


def write_replay(pid, payload):
    d = os.path.join(ROOT, 'replays'); os.makedirs(d, exist_ok=True)
    h = hashlib.sha1(json.dumps(payload, sort_keys=True).encode()).hexdigest()[:10]
    p = os.path.join(d, '%s-%s.json' % (pid, h))
    json.dump(payload, open(p, 'w'), indent=1)
    return p


def write_evidence(pid, ev):
    os.makedirs(os.path.join(ROOT, 'evidence'), exist_ok=True)
    json.dump(ev, open(os.path.join(ROOT, 'evidence', '%s.json' % pid), 'w'), indent=1)
