# Registry: per property, which harness, which generator, which theorems file, what counts as a non-trivial case.
import json, os, sys
import classes as G
import paths as GP
import io as _pyio
import importlib.util, os as _os
_spec = importlib.util.spec_from_file_location('gen_io', _os.path.join(_os.path.dirname(_os.path.abspath(__file__)), '..', 'gen', 'io.py')); GI = importlib.util.module_from_spec(_spec); _spec.loader.exec_module(GI)
import runner
from framework import *

def _steps_with_edges(c, I):
    return any(len(l.split()) > 4 and l.split()[4] not in ('0', '-', '|') for l in I if l.startswith('I '))

def gen_C01(rng, tier):
    kinds = G.LABEL_KINDS_QUICK if tier == 'quick' else G.LABEL_KINDS_ALL
    n = 2500 if tier == 'quick' else 30000
    ex = (G.exhaustive_histories('D', 'int', 2, 3, True) + G.exhaustive_histories('D', 'none', 2, 4, False)) if tier != 'quick' else []
    big = [G.big_history(rng, 'D', rng.choice(['none', 'int', 'str'])) for _ in range(24 if tier == 'quick' else 80)]
    return G.histories(rng, n, ['D'], kinds, maxops=30 if tier == 'quick' else 40, reject_p=0.0) + ex + big

def gen_C02(rng, tier):
    kinds = G.LABEL_KINDS_QUICK if tier == 'quick' else G.LABEL_KINDS_ALL
    n = 2500 if tier == 'quick' else 30000
    ex = (G.exhaustive_histories('U', 'int', 2, 3, True) + G.exhaustive_histories('U', 'none', 2, 4, False)) if tier != 'quick' else []
    big = [G.big_history(rng, 'U', rng.choice(['none', 'int', 'str'])) for _ in range(24 if tier == 'quick' else 80)]
    # the undirected graph built FROM a directed one (the converting constructor lives in undirected_graph.hpp): every one-way and reciprocal pair, loops
    conv = [G.cv_case(rng, 'D', rng.choice(['none', 'int', 'str'])) for _ in range(200 if tier == 'quick' else 2500)]
    return G.histories(rng, n, ['U'], kinds, maxops=30 if tier == 'quick' else 40, reject_p=0.0) + ex + big + conv
def seg_C02(case, k): return None if case.startswith('CV') else [0, 1, 2, 3, 6, 7, 8]

def gen_C04(rng, tier):
    n = 2500 if tier == 'quick' else 30000
    ex = (G.exhaustive_histories('DM', 'mult', 2, 3, True) + G.exhaustive_histories('UM', 'mult', 2, 3, True)) if tier != 'quick' else []
    huge = [G.huge_multiplicity_history(rng, rng.choice(['DM', 'UM'])) for _ in range(200 if tier == 'quick' else 3000)]
    return [G.multi_history(rng, rng.choice(['DM', 'UM']), maxops=30 if tier == 'quick' else 45) for _ in range(n)] + ex + huge
def _rand_double_hex(rng):
    import struct
    r = rng.random()
    if r < 0.25: d = rng.choice([0.1, 0.2, 0.3, -0.1, 1e16, -1e16, 1.0, 0.0, 3.5, 1e-8, 123456.789, 5e-324, 2.2250738585072014e-308, 1e300 / 7, -2.5e15])
    elif r < 0.6: d = rng.uniform(-10, 10)
    elif r < 0.8: d = rng.uniform(-1, 1) * 2.0 ** rng.randint(-70, 70)
    else: d = float(rng.randint(-2 ** 53, 2 ** 53)) * 2.0 ** rng.randint(-60, 20)
    return '%016X' % struct.unpack('<Q', struct.pack('<d', d))[0]
def float_cases(rng, k):
    """histories with ARBITRARY double weights (bit patterns): the running total is compared bit for bit with the Flocq model"""
    out = []
    for _ in range(k):
        cls = rng.choice(['DW', 'UW']); n = rng.randint(1, 5); ops = []; cur = {}
        key = (lambda i, j: (min(i, j), max(i, j))) if cls == 'UW' else (lambda i, j: (i, j))
        for _ in range(rng.randint(3, 40)):
            r = rng.random(); i, j = rng.randrange(n), rng.randrange(n); kk = key(i, j)
            if r < 0.45:
                h = _rand_double_hex(rng); ops.append('FA %d %d %s' % (i, j, h)); cur.setdefault(kk, h)
            elif r < 0.7:
                if kk in cur and rng.random() < 0.35:        # a neighbouring double (1 ulp away, or the other zero): "equal up to noise" is not equal
                    b = int(cur[kk], 16); h = '%016X' % ((b + rng.choice([1, -1, 2])) % (1 << 64) if b % (1 << 63) not in (0, 0x7FEFFFFFFFFFFFFF) else b ^ (1 << 63))
                    if (int(h, 16) >> 52) & 0x7FF == 0x7FF: h = cur[kk]
                else: h = _rand_double_hex(rng)
                ops.append('FS %d %d %s' % (i, j, h)); cur[kk] = h
            elif r < 0.95: ops.append('FR %d %d' % (i, j)); cur.pop(kk, None)
            else: ops.append('FC'); cur = {}
        out.append('WF %s hex %d : %s' % (cls, n, ' ; '.join(ops)))
    return out
def gen_C05(rng, tier):
    n = 2500 if tier == 'quick' else 30000
    return [G.weighted_history(rng, rng.choice(['DW', 'UW']), maxops=30 if tier == 'quick' else 45) for _ in range(n)] + float_cases(rng, 700 if tier == 'quick' else 10000) \
        + ((G.exhaustive_histories('DW', 'dbl', 2, 3, True) + G.exhaustive_histories('UW', 'dbl', 2, 3, True)) if tier != 'quick' else [])
def route_C05(case): return 'float' if case.startswith('WF') else 'multi'
MW_IMPORTS = 'Base DirectedModel DirectedSpec UndirectedModel UndirectedSpec MultiModel WeightedModel MultiSpec Instances'

def _shuffled_adds(rng, cls, lk, n, pairs, fmt):
    ps = list(pairs); rng.shuffle(ps)
    return '%s %s %d : %s' % (cls, lk, n, ' ; '.join(fmt(rng, i, j) for i, j in ps))
def gen_C08(rng, tier):
    import itertools
    out = []
    nmax = 3 if tier == 'quick' else 4
    fmtD = lambda r, i, j: 'A %d %d %d 0' % (i, j, r.randint(0, 3))
    # every directed graph on <= nmax vertices (sampled at nmax = 4), every undirected one, in a random insertion order
    for n in range(0, nmax + 1):
        allp = [(i, j) for i in range(n) for j in range(n)]
        subsets = range(1 << len(allp)) if len(allp) <= 9 else [rng.getrandbits(len(allp)) for _ in range(3000)]
        for m in subsets:
            ps = [p for k, p in enumerate(allp) if m >> k & 1]
            out.append(_shuffled_adds(rng, 'D', rng.choice(['none', 'int']), n, ps, fmtD))
        up = [(i, j) for i in range(n) for j in range(i, n)]
        for m in range(1 << len(up)):
            ps = [(p if rng.random() < 0.5 else (p[1], p[0])) for k, p in enumerate(up) if m >> k & 1]
            out.append(_shuffled_adds(rng, 'U', rng.choice(['none', 'int']), n, ps, fmtD))
            if n <= 3 or rng.random() < 0.2:
                out.append(_shuffled_adds(rng, 'UM', 'mult', n, ps, lambda r, i, j: 'MA %d %d %d 0' % (i, j, r.randint(1, 3))))
                out.append(_shuffled_adds(rng, 'UW', 'dbl', n, ps, lambda r, i, j: 'WA %d %d %d 0' % (i, j, r.choice([-3, 0, 2, 5]))))
    for n in range(0, 3):
        allp = [(i, j) for i in range(n) for j in range(n)]
        for m in range(1 << len(allp)):
            ps = [p for k, p in enumerate(allp) if m >> k & 1]
            out.append(_shuffled_adds(rng, 'DM', 'mult', n, ps, lambda r, i, j: 'MA %d %d %d 0' % (i, j, r.randint(1, 3))))
            out.append(_shuffled_adds(rng, 'DW', 'dbl', n, ps, lambda r, i, j: 'WA %d %d %d 0' % (i, j, r.choice([-3, 0, 2, 5]))))
    # histories with removals (isolated first/last vertices, emptied graphs), forced duplicates included for D and U
    k = 300 if tier == 'quick' else 4000
    out += G.histories(rng, k, ['D', 'U'], ['none', 'int'], maxops=25, reject_p=0.0, force_p=0.15, dd_p=0.03, sizes=(0, 1, 2, 3, 4, 5, 6))
    out += [G.multi_history(rng, rng.choice(['DM', 'UM']), maxops=20, sizes=(0, 1, 2, 3, 4, 5, 6)) for _ in range(k // 2)]
    out += [G.weighted_history(rng, rng.choice(['DW', 'UW']), maxops=20, sizes=(0, 1, 2, 3, 4, 5, 6)) for _ in range(k // 2)]
    return out
def coq_term_any(case):
    return G.coq_term_history(case) if case.split()[0] in ('D', 'U') else G.coq_term_mw(case)

def gen_C03(rng, tier):
    kinds = ['int', 'int', 'str', 'pt'] if tier == 'quick' else ['int', 'long', 'dbl', 'chr', 'str', 'pt']
    n = 2500 if tier == 'quick' else 30000
    ex = (G.exhaustive_histories('D', 'int', 2, 3, True) + G.exhaustive_histories('U', 'int', 2, 3, True)) if tier != 'quick' else []
    return G.histories(rng, n, ['D', 'U'], kinds, maxops=30 if tier == 'quick' else 40, reject_p=0.0) + ex

def gen_C07(rng, tier):
    n = 500 if tier == 'quick' else 6000
    kw = dict(reject_p=0.3, reject_force_p=0.5, query_p=0.12, maxops=25)
    kinds = ['none', 'int', 'str'] if tier == 'quick' else G.LABEL_KINDS_ALL
    out = G.histories(rng, 2 * n, ['D', 'U'], kinds, slb_force_p=0.3, **kw)
    out += [G.multi_history(rng, rng.choice(['DM', 'UM']), **kw) for _ in range(n)]
    out += [G.weighted_history(rng, rng.choice(['DW', 'UW']), **kw) for _ in range(n)]
    # path searches and subgraph extraction with out-of-range arguments (and valid ones in between)
    out += GP.random_cases(rng, n // 2, nmax=6, oor_p=0.6) + GP.dj_random(rng, n // 4, nmax=6, oor_p=0.6)
    for _ in range(n // 8):
        out += [c for c in G.sub_cases(rng, rng.choice(['D', 'U']), rng.choice(['none', 'int']), all_subsets_upto=2, oor_p=0.7)][:4]
    return out
def route_all(case):
    t = case.split()
    if t[0] in ('PATH', 'DJ'): return 'paths'
    if t[0] in ('BIN', 'BINW', 'TXT', 'TXTW', 'NOFILE'): return 'io'
    if t[0] == 'SUB': return 'classes'
    if t[0] == 'WF': return 'float'
    return route_eq(case)
def _has_reject(c, I):
    if c.split()[0] in ('PATH', 'DJ', 'SUB'): return any('-101' in l for l in I)
    return _steps_with_edges(c, I) and any(l.split()[1] in ('-101', '-102') or l.rstrip().endswith('-101') for l in I if l.startswith('I '))

def gen_C16(rng, tier):
    n = 1500 if tier == 'quick' else 20000
    kinds = ['none', 'int'] if tier == 'quick' else G.LABEL_KINDS_ALL
    out = G.histories(rng, n, ['D', 'U'], kinds, maxops=25, reject_p=0.0, force_p=0.4, dd_p=0.06)
    out += [G.forced_then_dedup(rng, rng.choice(['DM', 'UM', 'DW', 'UW'])) for _ in range(n // 2)]
    # neighbour lists in a shuffled (not ascending) order with forced copies of earlier neighbours, then removeDuplicateEdges and ordinary use
    for _ in range(n // 4):
        cls = rng.choice(['D', 'U']); lk = rng.choice(kinds); nv = rng.randint(2, 6); src = rng.randrange(nv)
        nbrs = rng.sample(range(nv), rng.randint(2, nv)); ops = []
        for j in nbrs: ops.append('A %d %d %d 0' % (src, j, rng.randint(0, 3)))
        for _ in range(rng.randint(1, 4)):
            j = rng.choice(nbrs); a, b = (src, j) if cls == 'D' or rng.random() < 0.5 else (j, src); ops.append('A %d %d %d 1' % (a, b, rng.randint(0, 3)))
        ops.append('DD')
        for _ in range(rng.randint(0, 3)): ops.append(rng.choice(['R %d %d' % (src, rng.choice(nbrs)), 'A %d %d 1 0' % (rng.randrange(nv), rng.randrange(nv)), 'DD']))
        out.append('%s %s %d : %s' % (cls, lk, nv, ' ; '.join(ops)))
    # one pair forced hundreds of times (counters of 8 bits and the like), and graphs with 33-70 vertices
    out += [G.many_copies_history(rng, rng.choice(['D', 'U']), rng.choice(kinds)) for _ in range(16 if tier == 'quick' else 60)]
    out += [G.big_history(rng, rng.choice(['D', 'U']), rng.choice(kinds)) for _ in range(12 if tier == 'quick' else 40)]
    # multigraphs: forced duplicates followed by removals and every observer (before removeDuplicateEdges is called)
    out += [G.multi_history(rng, rng.choice(['DM', 'UM']), maxops=12, force_p=0.35, dd_p=0.05) for _ in range(n // 6)]
    return out
def _has_forced_dup(c, I):
    # a forced insertion actually created a duplicate: some neighbour-multiset entry or edges() count exceeds 1 at some step
    for l in I:
        if not l.startswith('I '): continue
        segs = l[2:].split('|')
        k = 3 if c.split()[0] in ('D', 'U') else 3
        if len(segs) > k and any(t not in ('0', '1') and not t.startswith('-') for t in segs[k].split()): return True
    return False

def eqf_cases(rng, k):
    """two histories of the SAME weighted graph with arbitrary double weights: different insertion orders, junk edges of huge weight added and
    removed, weights set to something else and back - operator== must not look at anything order-dependent (the running total is)"""
    out = []
    for _ in range(k):
        cls = rng.choice(['DW', 'UW']); n = rng.randint(2, 5); und = cls == 'UW'
        tgt = {}
        for _ in range(rng.randint(1, 6)):
            i, j = rng.randrange(n), rng.randrange(n); tgt[(min(i, j), max(i, j)) if und else (i, j)] = _rand_double_hex(rng)
        def build(t):
            ops = []; ks = list(t); rng.shuffle(ks)
            for (i, j) in ks:
                if und and rng.random() < 0.5: i, j = j, i
                r = rng.random()
                if r < 0.3: ops += ['FA %d %d %s' % (i, j, _rand_double_hex(rng)), 'FS %d %d %s' % (i, j, t[(min(i, j), max(i, j)) if und else (i, j)])]
                elif r < 0.5: ops += ['FA %d %d %s' % (i, j, t[(min(i, j), max(i, j)) if und else (i, j)]), 'FS %d %d 7E37E43C8800759C' % (i, j), 'FS %d %d %s' % (i, j, t[(min(i, j), max(i, j)) if und else (i, j)])]
                else: ops.append('FA %d %d %s' % (i, j, t[(min(i, j), max(i, j)) if und else (i, j)]))
                if rng.random() < 0.3:
                    a, b = rng.randrange(n), rng.randrange(n)
                    if ((min(a, b), max(a, b)) if und else (a, b)) not in t: ops += ['FA %d %d %s' % (a, b, rng.choice(['7E37E43C8800759C', 'FE37E43C8800759C', _rand_double_hex(rng)])), 'FR %d %d' % (a, b)]
            return ' ; '.join(ops)
        t2 = dict(tgt)
        if rng.random() < 0.35 and t2:
            kk = rng.choice(sorted(t2))
            if rng.random() < 0.5: t2.pop(kk)
            else: t2[kk] = _rand_double_hex(rng)
        out.append('EQF %s hex %d : %s | %s' % (cls, n, build(tgt), build(t2)))
    return out
def gen_C06(rng, tier):
    return _gen_C06(rng, tier) + eqf_cases(rng, 600 if tier == 'quick' else 8000)
def _gen_C06(rng, tier):
    n = 2500 if tier == 'quick' else 30000
    out = []
    for _ in range(n):
        cls = rng.choice(['D', 'U', 'D', 'U', 'DM', 'UM', 'DW', 'UW'])
        lk = rng.choice(['none', 'int', 'str'] if tier == 'quick' else G.LABEL_KINDS_ALL) if cls in ('D', 'U') else ('mult' if cls in ('DM', 'UM') else 'dbl')
        out.append(G.eq_pair(rng, cls, lk))
    for _ in range(60 if tier == 'quick' else 400):          # hubs of more than 32 neighbours, all classes
        cls = rng.choice(['D', 'U', 'U', 'DM', 'UM', 'DW', 'UW'])
        out.append(G.eq_big(rng, cls, rng.choice(['none', 'int', 'str']) if cls in ('D', 'U') else ('mult' if cls in ('DM', 'UM') else 'dbl')))
    return out
def route_eq(case):
    t = case.split()
    if t[0] in ('EQF', 'WF', 'DJF'): return 'float'
    return runner.HARNESS_OF_CLASS.get(t[1] if t[0] in ('EQ', 'CV', 'EL') else t[0])

def cv_big(rng, k):
    out = []
    for _ in range(k):
        cls = rng.choice(['D', 'D', 'U']); lk = rng.choice(['none', 'int']); n = rng.randint(26, 44)
        es = ['A %d %d %d 0' % (rng.randrange(n), rng.randrange(n), rng.randint(0, 3)) for _ in range(rng.randint(n, 3 * n))]
        out.append('CV %s %s %d : %s' % (cls, lk, n, ' ; '.join(es)))
    return out
def gen_C09(rng, tier):
    n = 1200 if tier == 'quick' else 15000
    kinds = ['none', 'int', 'str'] if tier == 'quick' else G.LABEL_KINDS_ALL
    out = [G.cv_case(rng, rng.choice(['D', 'U']), rng.choice(kinds)) for _ in range(n)] + cv_big(rng, 90 if tier == 'quick' else 300)
    for _ in range(n):
        cls = rng.choice(['D', 'U', 'DM', 'UM', 'DW', 'UW'])
        out.append(G.el_case(rng, cls, rng.choice(kinds) if cls in ('D', 'U') else ('mult' if cls in ('DM', 'UM') else 'dbl')))
    return out

def sub_big(rng, k):
    out = []
    for _ in range(k):
        cls = rng.choice(['D', 'U']); lk = rng.choice(['none', 'int']); n = rng.randint(65, 140)
        a = rng.randrange(n - 4); S = sorted(set([a] + [min(n - 1, a + rng.randrange(0, 60)) for _ in range(rng.randint(1, 6))]))
        es = []
        for v in S:
            for d in (64, 128):
                if v + d < n and rng.random() < 0.7: es.append((v, v + d))
            for u in S:
                if rng.random() < 0.4: es.append((v, u))
            if rng.random() < 0.5: es.append((v, rng.randrange(n)))
        for _ in range(rng.randint(0, 10)): es.append((rng.randrange(n), rng.randrange(n)))
        rng.shuffle(es)
        ops = ' ; '.join('A %d %d %d 0' % ((i, j) if rng.random() < 0.5 or cls == 'D' else (j, i)) + () if False else 'A %d %d %d 0' % (((i, j) if (rng.random() < 0.5 or cls == 'D') else (j, i)) + (rng.randint(0, 3),)) for i, j in es)
        out.append('SUB %s %s %d : %s | %s' % (cls, lk, n, ops, ' '.join(map(str, S))))
    return out
def gen_C10(rng, tier):
    return _gen_C10(rng, tier) + sub_big(rng, 14 if tier == 'quick' else 60)
def _gen_C10(rng, tier):
    k = 110 if tier == 'quick' else 1500
    kinds = ['none', 'int', 'str'] if tier == 'quick' else G.LABEL_KINDS_ALL
    out = []
    for _ in range(k):
        out += G.sub_cases(rng, rng.choice(['D', 'U']), rng.choice(kinds), all_subsets_upto=4 if tier == 'quick' else 5)
    return out
def route_prefixed(case):
    t = case.split()
    return 'classes' if t[0] in ('SUB',) else route_eq(case)

def gen_C11(rng, tier):
    out = []
    if tier == 'quick':
        out += GP.all_graph_cases(rng, 'D', 2) + GP.all_graph_cases(rng, 'D', 3, pairs_per_graph=3) + GP.all_graph_cases(rng, 'U', 3)
        out += GP.all_graph_cases(rng, 'U', 4, pairs_per_graph=2, sample=300) + GP.random_cases(rng, 250, nmax=8, oor_p=0.0)
    else:
        out += GP.all_graph_cases(rng, 'D', 3) + GP.all_graph_cases(rng, 'D', 4, pairs_per_graph=1, sample=20000) + GP.all_graph_cases(rng, 'U', 4, pairs_per_graph=4)
        out += GP.all_graph_cases(rng, 'U', 5, pairs_per_graph=2, sample=5000) + GP.random_cases(rng, 5000, nmax=12, oor_p=0.0)
    return out + GP.family_cases(rng, tier)
def djf_cases(rng, k):
    """graphs with ARBITRARY non-negative double weights (bit patterns): findGeodesicsDijkstra compared bit for bit with the Flocq model"""
    import struct
    def w():
        r = rng.random()
        if r < 0.3: d = rng.choice([0.1, 0.2, 0.3, 0.30000000000000004, 1.0, 0.0, -0.0, 2.5, 1e-8, 1e16, 123456.789, 5e-324, 0.7, 1e300 / 7])
        elif r < 0.7: d = rng.uniform(0, 10)
        else: d = rng.uniform(0, 1) * 2.0 ** rng.randint(-60, 60)
        return '%016X' % struct.unpack('<Q', struct.pack('<d', d))[0]
    out = []
    for _ in range(k):
        cls = rng.choice(['DW', 'UW']); n = rng.randint(1, 8)
        es = ['FA %d %d %s' % (rng.randrange(n), rng.randrange(n), w()) for _ in range(rng.randint(0, 3 * n))]
        out.append('DJF %s hex %d : %s | %d' % (cls, n, ' ; '.join(es), rng.randrange(n)))
    return out
def djf_overflow_cases(rng, k):
    """path sums that overflow to +infinity (weights near DBL_MAX), with cycles, loops and layers behind the overflow point: the search must still stop within the bound"""
    import struct
    hx = lambda d: '%016X' % struct.unpack('<Q', struct.pack('<d', d))[0]
    out = []
    for _ in range(k):
        cls = rng.choice(['DW', 'UW']); n = rng.randint(3, 8)
        es = ['FA %d %d %s' % (rng.randrange(n), rng.randrange(n), hx(rng.choice([1.7976931348623157e308, 1e308, 9e307, 1.0, 0.0, 2.5]))) for _ in range(rng.randint(2, 3 * n))]
        out.append('DJF %s hex %d : %s | %d' % (cls, n, ' ; '.join(es), rng.randrange(n)))
    return out
def route_paths(case): return 'float' if case.split(None, 1)[0] in ('DJF', 'WF') else 'paths'
def gen_C12(rng, tier):
    return _gen_C12(rng, tier) + djf_cases(rng, 3000 if tier == 'quick' else 40000) + djf_overflow_cases(rng, 200 if tier == 'quick' else 3000)
def _gen_C12(rng, tier):
    if tier == 'quick':
        return GP.dj_small_exhaustive(rng, 3, 2) + GP.dj_random(rng, 1200, nmax=7, oor_p=0.0) + GP.dj_families(rng, tier) + GP.dj_funnel(rng, 12000) + GP.dj_wide(rng, 12000)
    return GP.dj_small_exhaustive(rng, 3, 8) + GP.dj_small_exhaustive(rng, 4, 1) + GP.dj_random(rng, 15000, nmax=30, oor_p=0.0) + GP.dj_families(rng, tier) \
        + GP.dj_funnel(rng, 150000) + GP.dj_wide(rng, 150000) + GP.dj_wide(rng, 30000, nmax=16)
def gen_C19(rng, tier):
    k = 400 if tier == 'quick' else 6000
    return GP.family_cases(rng, tier) + GP.dj_families(rng, tier) + GP.random_cases(rng, k, nmax=10, oor_p=0.0) + GP.dj_random(rng, k, nmax=10, oor_p=0.0) \
        + (GP.all_graph_cases(rng, 'D', 3, pairs_per_graph=1) if tier == 'quick' else GP.all_graph_cases(rng, 'D', 4, pairs_per_graph=1, sample=20000)) \
        + djf_cases(rng, 300 if tier == 'quick' else 4000) + djf_overflow_cases(rng, 300 if tier == 'quick' else 4000)
def adaptive_C19(run_only, rng, tier, log):
    cs = GP.climb_scans(run_only, rng, 24 if tier == 'quick' else 240, log=log)
    log['what'] = 'hill-climb on scans/bound over weighted digraphs (Dijkstra, bound V+E+1) and digraphs (all-predecessor BFS, bound V+E); best ratio reached per kind'
    return cs
def seg_C11(case, k): return [0, 1] if k in (0, 1) else None
def seg_C12(case, k): return [0, 1]
def seg_C19(case, k):
    if case.startswith('DJF'): return [2]
    if case.startswith('DJ'): return [2]
    return [2] if k in (0, 1) else 'skip'
def _path_nontrivial(c, I):
    return ';' in c
PATH_RULE = ('graphs given as insertion histories: %s; for each (source, destination): findVertexPredecessors, findAllVertexPredecessors, findGeodesics, findAllGeodesics, '
             'findGeodesicsFromVertex, findAllGeodesicsFromVertex on a counting graph type; compared with the Coq model and with the brute-force spec (hop minima by iterated successor '
             'sets, all walks of minimal length); implementation-chosen values (the single parent, the single path) are VALIDATED against the relation, not fixed; '
             'non-trivial = graph with >= 2 insertions')

def gen_C13(rng, tier):
    k = 900 if tier == 'quick' else 12000
    return GI.txt_cases(rng, k) + GI.txtw_cases(rng, k // 2)
def gen_C14(rng, tier):
    k = 700 if tier == 'quick' else 10000
    return ['NOFILE x x : '] + GI.bin_cases(rng, k, cuts=False) + GI.binw_cases(rng, k) + GI.bin_big_cases(rng, 1 if tier == 'quick' else 6)
def gen_C15(rng, tier):
    k = 120 if tier == 'quick' else 1500
    return GI.bin_cases(rng, k, cuts=True) + GI.txt_bad_cases(rng, 6 * k) + GI.bin_big_cases(rng, 2 if tier == 'quick' else 12)
def io_nontrivial(c, I): return len(c.split(':', 1)[1].strip()) > 8

def gen_C18(rng, tier):
    k = 260 if tier == 'quick' else 4000
    out = []
    for _ in range(k):
        cls = rng.choice(['D', 'U']); lk = rng.choice(['none', 'int', 'str'])
        h = G.history(rng, cls, lk, maxops=rng.choice([6, 14, 25]), reject_p=0.0, force_p=0.08, sizes=(0, 1, 2, 3, 4, 5, 6))
        T = rng.choice([2, 2, 3, 4, 8] if tier == 'quick' else [2, 3, 4, 8, 16]); R = rng.choice([1, 2, 3] if tier == 'quick' else [2, 4, 8])
        sub = ' '.join(str(v) for v in range(7) if rng.random() < 0.45)
        out.append('CONC %s | %d %d %d %d | %s' % (h, T, R, rng.randint(0, 5), rng.randint(0, 5), sub))
    for _ in range(k // 2):          # multigraph and weighted classes (Dijkstra from two sources on the weighted ones)
        cls = rng.choice(['DW', 'UW', 'DW', 'UW', 'DM', 'UM'])
        h = (G.weighted_history if cls in ('DW', 'UW') else G.multi_history)(rng, cls, maxops=rng.choice([6, 14, 25]), sizes=(1, 2, 3, 4, 5, 6))
        if cls in ('DW', 'UW'):      # Dijkstra needs non-negative weights
            hd, body = h.split(':', 1); ops = []
            for o in body.split(';'):
                t = o.split()
                if t and t[0] in ('WA', 'WS'): t[3] = str(abs(int(t[3])))
                if t: ops.append(' '.join(t))
            h = hd + ': ' + ' ; '.join(ops)
        T = rng.choice([2, 3, 4, 8]); R = rng.choice([1, 2, 3])
        n = int(h.split()[2])
        out.append('CONC %s | %d %d %d %d |' % (h, T, R, rng.randrange(n), rng.randrange(n)))
    return out
def route_conc(case):
    return 'concw' if case.split()[1] in ('DM', 'UM', 'DW', 'UW') else 'conc'
def _sample(rng, xs, k): return xs if len(xs) <= k else rng.sample(xs, k)
def gen_C17(rng, tier):
    # every kind of case the other checks use (valid calls, rejected calls, malformed files), in smaller numbers
    k = 1 if tier == 'quick' else 8
    out = []
    for g, n in ((gen_C01, 150), (gen_C02, 150), (gen_C03, 120), (gen_C04, 150), (gen_C05, 150), (gen_C06, 100), (gen_C07, 250), (gen_C08, 250), (gen_C09, 120),
                 (gen_C10, 150), (gen_C11, 250), (gen_C12, 250), (gen_C13, 200), (gen_C14, 150), (gen_C15, 250), (gen_C19, 100)):
        out += _sample(rng, g(rng, 'quick'), n * k)
    out += [c for c in G.histories(rng, 200 * k, ['D', 'U'], ['none', 'int', 'str'], maxops=25, reject_p=0.02, force_p=0.3, dd_p=0.06)]
    out += [G.multi_history(rng, rng.choice(['DM', 'UM']), maxops=14, force_p=0.35, dd_p=0.05) for _ in range(150 * k)]
    out += [G.weighted_history(rng, rng.choice(['DW', 'UW']), maxops=14, force_p=0.35, dd_p=0.05) for _ in range(100 * k)]
    out += [G.big_history(rng, rng.choice(['D', 'U']), 'int') for _ in range(6 * k)] + [G.many_copies_history(rng, rng.choice(['D', 'U']), 'none') for _ in range(4 * k)]
    out += GP.long_chain_cases(rng, 3 * k)
    return out
CXX_MATRIX = [
    dict(tag='gxx_O0_debugstl', flags=['g++', '-std=c++14', '-O0', '-g', '-D_GLIBCXX_DEBUG', '-D_GLIBCXX_DEBUG_PEDANTIC']),
    dict(tag='gxx_O2', flags=['g++', '-std=c++14', '-O2', '-D_GLIBCXX_ASSERTIONS']),
    dict(tag='clang_O2_asan_ubsan', flags=['clang++', '-std=c++14', '-O2', '-g', '-fsanitize=address,undefined', '-fno-sanitize-recover=all']),
]
CXX_MATRIX_THOROUGH = CXX_MATRIX + [
    dict(tag='clang_O0_debugstl', flags=['clang++', '-std=c++14', '-O0', '-g', '-D_GLIBCXX_DEBUG']),
    dict(tag='gxx_O3_asan_ubsan', flags=['g++', '-std=c++14', '-O3', '-g', '-fsanitize=address,undefined', '-fno-sanitize-recover=all']),
    # valgrind emulates x87 extended precision with 64-bit doubles (documented limitation): the long double totals of the floating-point cases differ there by design
    dict(tag='gxx_O0_valgrind', flags=['g++', '-std=c++14', '-O0', '-g'], wrap=['valgrind', '-q', '--error-exitcode=97', '--exit-on-first-error=yes'], sample=1500,
         skip=lambda c: c.split(None, 1)[0] in ('WF', 'DJF')),
]
def kind_histogram(cases):
    h = {}
    for c in cases: k = c.split()[0]; h[k] = h.get(k, 0) + 1
    return h

PROPS = {
 'C17': dict(harness=['classes', 'multi', 'paths', 'io', 'float'], route=route_all, gen=gen_C17, shrink=shrink_ops, shards=4, histogram=kind_histogram,
             matrix=lambda tier: CXX_MATRIX if tier == 'quick' else CXX_MATRIX_THOROUGH, nontrivial=lambda c, I: len(c.split(':', 1)[1].strip()) > 8,
             model_name='all class / path-search / IO models (every call defined: no UBk / Undef outcome)',
             rule='a sample of the cases of every other check (histories on all eight classes incl. forced insertions and rejected calls, equality / conversion / constructor / subgraph '
                  'cases, path searches and Dijkstra incl. chains and rings of 130-300 vertices, well-formed, truncated and malformed files; removeEdge / removeVertexFromEdgeList are handed '
                  'references to elements of the graph\'s own adjacency lists) run (i) in the base configuration g++ -O1 with ASan+UBSan and compared with the Coq models '
                  'and spec oracles, (ii) in every configuration of the build matrix (g++ -O0 with the checked standard library _GLIBCXX_DEBUG, g++ -O2 with _GLIBCXX_ASSERTIONS, '
                  'clang++ -O2 with ASan+UBSan; thorough adds clang++ -O0 debug STL, g++ -O3 sanitised, g++ -O0 under valgrind memcheck): every configuration must finish every case '
                  'normally and print byte-for-byte what the base configuration printed; non-trivial = non-empty case',
             trusted=['the sanitizers, _GLIBCXX_DEBUG and valgrind detect only the undefined behaviour they instrument; the model-level theorems cover definedness of the logic (indices, iterator positions, loop exits), the build matrix exhibits the rest on the generated cases only']),
 'C18': dict(harness=['conc', 'concw'], route=route_conc, gen=gen_C18, shrink=shrink_ops, flags=['g++', '-std=c++14', '-O1', '-g', '-fsanitize=thread', '-pthread'], histogram=lambda cases: {'threads': {str(t): sum(1 for c in cases if c.split('|')[1].split()[0] == str(t)) for t in (2, 3, 4, 8, 16)}, 'classes': kind_histogram([c.split(None, 1)[1] for c in cases])},
             nontrivial=lambda c, I: ';' in c, model_name='ConcModel (interleaving semantics of reader threads; round-robin schedule evaluated) and the class models for the reference observation',
             rule='graphs built by seeded histories (directed / undirected; unlabelled, int, std::string labels; sizes 0-6; forced duplicates), then T in {2,3,4,8} (thorough: to 16) threads '
                  'x R rounds of EVERY const entry point against the one shared object (labelled classes; the multigraph and weighted classes with their observers, ==, copy, iteration and findGeodesicsDijkstra from two sources): all observers and both iterators, ==, copy construction, getReversedGraph / getDirectedGraph / '
                  'undirected-from-directed, getSubgraph / getSubgraphWithRemap, six path searches, the writers (own file per thread); each thread starts at another call so that different '
                  'calls overlap; built with -fsanitize=thread (a reported race aborts the case); compared: the single-threaded reference observation with the Coq model and spec, the '
                  'number of thread rounds whose results differ from the single-threaded results (model: 0), the observation after all threads joined; non-trivial = non-empty history',
             trusted=['ThreadSanitizer (g++ 12) observes only the schedules that actually occur in the run; the absence of a data race for all schedules is not proved']),
 'C13': dict(harness='io', gen=gen_C13, shrink=shrink_ops, nontrivial=io_nontrivial, model_name='IOModel text routines (getline, findEdgeFromString, stoi, to_string, name table)',
             histogram=lambda cases: {'load_cases': sum(1 for c in cases if c.startswith('TXT ')), 'name_loader_cases': sum(1 for c in cases if c.startswith('TXT ') and c.split()[3] == '1'), 'write_reload_cases': sum(1 for c in cases if c.startswith('TXTW'))},
             rule='well-formed text files from a grammar (comment lines, any mix of spaces and tabs before/between/after the two vertex tokens, optional label text, with or without final '
                  'newline; numeric vertices or vertex names) loaded with loadTextEdgeList / loadTextVertexLabeledEdgeList for unlabelled, int (std::stoi) and std::string labels, '
                  'directed and undirected; loaded graph (size, lists in order, labels) and name table compared with the Coq model and with an independent reading of the documented '
                  'format; plus graphs built by histories written with writeTextEdgeList and reloaded (bytes compared with the model writer, reloaded graph == original); '
                  'non-trivial = file with at least one data line'),
 'C14': dict(harness='io', gen=gen_C14, shrink=shrink_ops, nontrivial=io_nontrivial, model_name='IOModel binary codec / loader / writer',
             histogram=lambda cases: {'hand_made_files': sum(1 for c in cases if c.startswith('BIN ')), 'write_reload_cases': sum(1 for c in cases if c.startswith('BINW')), 'missing_file': 1},
             rule='hand-made binary files with records in shuffled order for label widths 0 (unlabelled), 1, 2, 4, 8 bytes and float/double bit patterns, directed and undirected, '
                  'loaded with loadBinaryEdgeList; graphs built by histories written with writeBinaryEdgeList: the file must be exactly one little-endian record per edge (compared as a '
                  'multiset of records with the model and the spec), then reloaded and compared (==) with the original after resize; every loader and writer on an unopenable path '
                  '(std::runtime_error); non-trivial = at least one record'),
 'C15': dict(harness='io', flags=CXX_QUICK + ['-D_GLIBCXX_ASSERTIONS'], gen=gen_C15, shrink=shrink_ops, nontrivial=io_nontrivial, model_name='IOModel loaders on truncated / malformed input',
             histogram=lambda cases: {'binary_cut_cases': sum(1 for c in cases if c.startswith('BIN ')), 'malformed_text_cases': sum(1 for c in cases if c.startswith('TXT '))},
             rule='EVERY cut offset (0..length) of valid binary files of 0-4 records for all label widths: the loader must return exactly the complete records before the cut; and a '
                  'separate stream of malformed text (blank and one-token lines, non-numeric, negative, overflowing and partly numeric indices, NUL and high bytes, CR, random bytes) mixed '
                  'into valid files: the loader must return a graph or throw a std::exception; harness under ASan+UBSan with _GLIBCXX_ASSERTIONS (a crash, sanitizer report or failed library assertion is a violation); '
                  'non-trivial = non-empty input'),
 'C11': dict(harness='paths', impl_timeout=120, gen=gen_C11, shrink=shrink_ops, segments=seg_C11, nontrivial=_path_nontrivial, model_name='PathsModel (BFS, parent walk, stack loop)',
             histogram=lambda cases: {'directed': sum(1 for c in cases if c.startswith('PATH D')), 'undirected': sum(1 for c in cases if c.startswith('PATH U'))},
             rule=PATH_RULE % 'every directed graph on <=3 vertices and every undirected graph on <=3 (sampled on 4) with self-loops x (all) source/destination pairs, layered and grid families, random graphs to 8 vertices with cycles, several components and forced duplicates (thorough: directed <=4, undirected <=5, random to 12)'),
 'C12': dict(harness=['paths', 'float'], route=route_paths, impl_timeout=120, trusted=['Flocq 4 and the Coq Reals for the C12_float_* theorems: standard-library axioms ClassicalDedekindReals.sig_forall_dec, ClassicalDedekindReals.sig_not_dec, Classical_Prop.classic, FunctionalExtensionality.functional_extensionality_dep; platform assumption checked by the bit-for-bit comparison: double additions evaluated in binary64 (x86-64 SSE)'], gen=gen_C12, shrink=shrink_ops, segments=seg_C12, nontrivial=_path_nontrivial, model_name='Dj.run (choice-driven Dijkstra) following the implementation pop sequence',
             histogram=lambda cases: {'directed': sum(1 for c in cases if c.startswith('DJ DW')), 'undirected': sum(1 for c in cases if c.startswith('DJ UW'))},
             rule='weighted graphs with exactly representable weights from {0, 1, 2, 5}: every loop-free directed topology on 3 vertices x random weight assignments x all sources (as '
                  'DirectedWeightedGraph or UndirectedWeightedGraph), random graphs to 7 vertices (thorough: 30), zero-weight cycles, ties, layered and grid families; '
                  'findGeodesicsDijkstra on a counting graph type; distances compared exactly with the model (which replays the implementation pop sequence and checks every pop is a '
                  'minimum of the worklist) and with Bellman-Ford on the spec side; the predecessor vector is validated against dist[v] = dist[p] + w(p,v); plus graphs with ARBITRARY non-negative double weights (bit patterns: decimal fractions, ties such as 0.1+0.2 vs 0.30000000000000004, subnormal, 1e16- and 1e299-scale, random exponents -60..60): distances compared BIT FOR BIT with the Flocq model following the implementation pop sequence and with the own schedule of the model, predecessors validated with the rounded addition; non-trivial = >= 2 edges'),
 'C19': dict(harness=['paths', 'float'], route=route_paths, impl_timeout=120, gen=gen_C19, adaptive=adaptive_C19, shrink=shrink_ops, segments=seg_C19, nontrivial=_path_nontrivial, model_name='scan counters of the path-search models',
             histogram=lambda cases: {'bfs_cases': sum(1 for c in cases if c.startswith('PATH')), 'dijkstra_cases': sum(1 for c in cases if c.startswith('DJ'))},
             rule='the number of getOutNeighbours calls made by findVertexPredecessors, findAllVertexPredecessors and findGeodesicsDijkstra on a counting graph type, compared with the '
                  'scan counters of the Coq models and with the bounds V, V+E, V+E+1 (E = total length of all neighbour lists): layered graphs of width 2-3 with up to 8 (thorough 12) '
                  'layers and grids (exponentially many shortest paths), zero-weight cycles, random graphs, all digraphs on 3 (thorough: sampled on 4) vertices; non-trivial = >= 2 insertions'),
 'C10': dict(harness='classes', gen=gen_C10, shrink=shrink_ops, histogram=lambda cases: {'subset_sizes': {str(k): sum(1 for c in cases if len(c.split('|')[-1].split()) == k) for k in range(0, 7)}},
             nontrivial=lambda c, I: any(len(l.split()) > 2 and l.split()[2] not in ('0', '|') for l in I[1:2]), model_name='TopologyModel.subgraph / subgraph_remap',
             rule='graphs built by seeded histories (directed and undirected, unlabelled / int / std::string labels, self-loops, sizes 0-5) x ALL 2^n vertex subsets for n <= 4 '
                  '(n = 5: empty, full and 10 random subsets); rarely a subset containing an out-of-range vertex (std::out_of_range expected). The harness reports the iteration order '
                  'of its unordered_set; getSubgraph (all observers) and getSubgraphWithRemap (all observers + the returned map) are compared with the Coq model given that order, and '
                  'with the spec: induced subgraph, and its image under the RETURNED map after checking that the map is a bijection onto 0..|S|-1; '
                  'non-trivial = the extracted subgraph has at least one edge'),
 'C09': dict(harness=['classes', 'multi'], gen=gen_C09, route=route_eq, coq_term=G.coq_term_conv, coq_imports=MW_IMPORTS + ' ConvModel', shrink=shrink_ops,
             histogram=lambda cases: {'conversion_cases': sum(1 for c in cases if c.startswith('CV')), 'constructor_cases': sum(1 for c in cases if c.startswith('EL'))},
             nontrivial=lambda c, I: ';' in c, model_name='reversed / to_directed / of_directed / of_edge_list models',
             rule='(a) the graph built by a seeded history (directed or undirected, unlabelled / int / std::string labels, sizes 0-4 incl. isolated and zero vertices, self-loops): '
                  'getReversedGraph (all observers), reverse twice == original, undirected-from-directed (all observers), getDirectedGraph (all observers), undirected->directed->undirected '
                  '== original; (b) explicit edge lists (duplicates, both orientations, loops, index gaps, empty) given to the constructors of all eight classes through vector, list, deque, '
                  'forward_list (and set for unlabelled): all observers of the result, and agreement between containers; compared with the Coq model and the spec images; '
                  'non-trivial = case with at least two operations / edges'),
 'C06': dict(harness=['classes', 'multi', 'float'], gen=gen_C06, route=route_eq, coq_term=lambda c: None if c.startswith('EQF') else G.coq_term_eq(c), coq_imports=MW_IMPORTS, shrink=shrink_ops,
             histogram=lambda cases: {'equal_verdicts': 0},
             nontrivial=lambda c, I: any(l.startswith('I ') for l in I) and ';' in c, model_name='DirectedModel.graph_eqb (operator==) on the final states of two histories',
             rule='pairs of histories on each of the eight graph classes (six implementations x label kinds) from the same initial size: (i) two DIFFERENT constructions of the same '
                  'target graph (shuffled insertion order, flipped undirected orientations, junk edges removed by removeEdge / removeVertexFromEdgeList / removeSelfLoops / clearEdges, '
                  'relabel / setEdgeWeight / multiplicity detours, re-creation under another value), (ii) targets differing in exactly one edge, one label or the size, (iii) random pairs; '
                  'compared: g==h, h==g, g!=h, h!=g, reflexivity, copy construction, assignment and independence of copies from later mutation, against the Coq model of operator== and '
                  'the spec; plus pairs of histories of one weighted graph with ARBITRARY double weights (orders, junk edges of weight 1e300 added and removed, weights set away and back): == must not depend on anything order-dependent such as the running total; '
                  'the spec (same size, same keys, equal values); non-trivial = both histories non-empty'),
 'C16': dict(harness=['classes', 'multi'], gen=gen_C16, driver_args=['fspec'], coq_term=coq_term_any, histogram=G.op_histogram, coq_imports=MW_IMPORTS,
             nontrivial=_has_forced_dup, model_name='force=true branches and removeDuplicateEdges of the six class models',
             rule='simple/labelled classes: seeded histories mixing forced and unforced insertions (both orientations, loops), removeEdge, removeDuplicateEdges and the other '
                  'mutators; multigraph/weighted classes: forced insertions (copies of a pair carrying the same value, rarely not) then removeDuplicateEdges then ordinary use; '
                  'all observers after every call compared with the Coq model and with the multiset spec (which abstains while a multigraph/weighted pair is duplicated); '
                  'non-trivial = a forced insertion really created a duplicate entry'),
 'C07': dict(harness=['classes', 'multi', 'paths'], route=route_all, gen=gen_C07, shrink=shrink_ops, driver_args=['codes'], coq_term=lambda c: coq_term_any(c) if c.split()[0] in ('D', 'U', 'DM', 'UM', 'DW', 'UW') else None, histogram=G.op_histogram, coq_imports=MW_IMPORTS,
             nontrivial=_has_reject, model_name='the six class models (Throw outcomes, checked accessors)',
             rule='seeded histories on all six graph classes interleaving valid calls with rejected ones: every mutator with an out-of-range vertex (size, size+1, UINT_MAX) in '
                  'either argument position, with and without force, resize to fewer vertices, setEdgeLabel on missing edges, and Q v = every observer taking a vertex asked about '
                  'an out-of-range v; plus every path search (both argument positions) and both subgraph functions with out-of-range vertices; harness under ASan+UBSan; after every call the exception kind and ALL observers are compared with the Coq model and the spec (state unchanged); '
                  'non-trivial = reaches >=1 edge and contains a rejected call'),
 'C03': dict(harness='classes', gen=gen_C03, coq_term=G.coq_term_history, histogram=G.op_histogram, coq_imports='Base DirectedModel DirectedSpec UndirectedModel UndirectedSpec Instances',
             segments=[0, 4, 5], nontrivial=lambda c, I: _steps_with_edges(c, I) and any(k in c for k in (' R ', ' V ', ' SL', ' CL')), model_name='DirectedModel/UndirectedModel label store',
             rule='seeded random histories on labelled directed and undirected graphs (int, std::string, struct labels; thorough adds long, double, char): creation, setEdgeLabel, '
                  're-adding present edges under another label, every kind of removal, re-creation; after every call getEdgeLabel (throwing and non-throwing) for ALL pairs in both '
                  'orientations and hasEdge(i,j,l) over a label alphabet are compared with the Coq model and the spec; non-trivial = reaches >=1 edge and contains a removal'),
 'C08': dict(harness=['classes', 'multi'], gen=gen_C08, coq_term=coq_term_any, histogram=G.op_histogram, coq_imports=MW_IMPORTS,
             segments={'D': [0, 6, 7, 8, 9], 'U': [0, 6, 7, 8, 9], 'DM': [0, 5, 6, 7, 8], 'UM': [0, 5, 6, 7, 8], 'DW': [0, 5, 6, 7, 8, 9], 'UW': [0, 5, 6, 7, 8, 9]},
             nontrivial=_steps_with_edges, model_name='DirectedModel.iterate / UndirectedModel.u_iterate (cursor model) and the observers built on them', shrink=shrink_ops,
             rule='every directed graph on <=3 (thorough: all on <=3, 3000 sampled on 4) vertices and every undirected graph on <=3 (<=4) vertices, edges inserted in a random order, '
                  'for the labelled/unlabelled, multigraph and weighted classes, plus random histories with removals and forced duplicates (sizes 0-6); after every call: '
                  'the vertex sequence of range-for, the multiset yielded by edges(), pre- vs post-increment traversal, a second traversal, begin()==end(), and the users '
                  '(degrees, matrices) are compared with the cursor model and the spec; non-trivial = reaches a state with >=1 edge'),
 'C04': dict(harness='multi', gen=gen_C04, coq_term=G.coq_term_mw, histogram=G.op_histogram, coq_imports=MW_IMPORTS,
             nontrivial=_steps_with_edges, model_name='MultiModel.dm_step/um_step',
             rule='seeded random histories on DirectedMultigraph / UndirectedMultigraph (force off): addEdge, addMultiedge, reciprocal variants, removeEdge, removeMultiedge, '
                  'setEdgeMultiplicity, bulk removals, resize; multiplicity arguments drawn around the current value (0, 1, cur-1, cur, cur+1); both orientations; '
                  'all observers compared after every call with the Coq model and the multiplicity-function spec; non-trivial = reaches a state with >=1 edge'),
 'C05': dict(harness=['multi', 'float'], route=route_C05, trusted=['Flocq 4 and the Coq Reals for the C05_float_* theorems: standard-library axioms ClassicalDedekindReals.sig_forall_dec, ClassicalDedekindReals.sig_not_dec, Classical_Prop.classic, FunctionalExtensionality.functional_extensionality_dep (see the per-theorem Print Assumptions lines); platform assumption checked by the bit-for-bit comparison: long double = x87 extended, double arithmetic in binary64'], gen=gen_C05, coq_term=lambda c: None if c.startswith('WF') else G.coq_term_mw(c), histogram=G.op_histogram, coq_imports=MW_IMPORTS,
             nontrivial=_steps_with_edges, model_name='WeightedModel.dw_step/uw_step',
             rule='seeded random histories on DirectedWeightedGraph / UndirectedWeightedGraph (force off) with exactly representable weights k/4 (negative, zero, positive); '
                  'addEdge, setEdgeWeight on present and absent edges in both orientations, every removal, resize; all observers incl. getTotalWeight and getWeightMatrix '
                  'compared after every call with the Coq model and the weight-function spec; plus histories with ARBITRARY double weights given as bit patterns (0.1-like decimals, 1e16-scale and subnormal values, random mantissas with exponents -70..70, both signs): getTotalWeight (long double, resp. its double rounding for the undirected class) after every call compared BIT FOR BIT with the Flocq model of the running total and checked against the proved accumulated-rounding-error bound of the exact sum; non-trivial = reaches a state with >=1 edge'),
 'C02': dict(harness='classes', gen=gen_C02, coq_term=lambda c: None if c.startswith('CV') else G.coq_term_history(c), histogram=G.op_histogram, coq_imports='Base DirectedModel DirectedSpec UndirectedModel UndirectedSpec Instances',
             segments=seg_C02, nontrivial=lambda c, I: (';' in c) if c.startswith('CV') else _steps_with_edges(c, I), model_name='UndirectedModel.ustep/u_observe',
             rule='seeded random histories of LabeledUndirectedGraph<L> mutators (force off), each call naming its pair in a random orientation; sizes 0-5(+resize); '
                  'after every call ALL observers (hasEdge both orientations, neighbour lists, degrees in both conventions, both matrices, edges()) are compared with the Coq model '
                  'and the unordered-pair spec; plus undirected graphs built from directed ones by the converting constructor (all observers of the result, round trip); '
                  'non-trivial = distinct history that reaches a state with >=1 edge'),
 'C01': dict(harness='classes', gen=gen_C01, coq_term=G.coq_term_history, histogram=G.op_histogram,
             segments=[0, 1, 2, 3, 6, 7, 8], nontrivial=_steps_with_edges, model_name='DirectedModel.step/observe',
             rule='seeded random histories of LabeledDirectedGraph<L> mutators (force off) incl. rejected calls; sizes 0-5(+resize); '
                  'after every call ALL observers are compared with the Coq model and with the pair-set spec; '
                  'non-trivial = distinct history that reaches a state with >=1 edge'),
}

def replay(path):
    rp = json.load(open(path))
    pid = rp['property']; P = PROPS[pid]
    print(json.dumps({k: rp[k] for k in rp if k in ('property', 'kind', 'what', 'case')}, indent=1))
    if 'case' not in rp: return 0
    import runner
    hnames = P['harness'] if isinstance(P['harness'], list) else [P['harness']]
    exes = {}
    for h in hnames:
        if len(hnames) > 1 and (P.get('route') or runner.default_route)(rp['case']) != h: continue
        fl = rp['flags'].split() if rp.get('configuration') and rp.get('flags') else P.get('flags')      # a build-matrix replay uses the configuration it failed in
        exe, cerr, _ = build_harness(h, os.path.join(BUILD, pid), flags=fl, tag=('_' + rp['configuration']) if rp.get('configuration') else '')
        if exe is None: print('harness does not compile:', cerr); return 1
        exes[h] = exe
    S = runner.Session(dict(P, wrap=rp.get('wrapper')) if rp.get('configuration') else P, pid, exes)
    ctx = rp.get('context') or []
    if ctx: print('context: %d earlier case(s) run first in the same process' % len(ctx))
    impl, ms, aborts, verdicts, _ = S.evaluate(ctx + [rp['case']])
    c = rp['case']
    Il, M, Sp = triples(c, impl.get(c, []), ms.get(c, []))
    ops = [o.strip() for o in c.split(':', 1)[1].split(';') if o.strip()]
    for k in range(max(len(Il), len(M))):
        print('step %d  %s' % (k, ops[k] if k < len(ops) else ''))
        print('  impl :', Il[k] if k < len(Il) else '-')
        print('  model:', M[k] if k < len(M) else '-')
        print('  spec :', Sp[k] if k < len(Sp) else '-')
    if aborts.get(c): print('  abort:', aborts[c])
    co, po, step, detail = verdicts[c]
    print('correspondence %s, spec oracle %s' % ('ok' if co else 'BROKEN', 'ok' if po else 'VIOLATED'))
    return 0 if (co and po) else 1
