# Registry: per property, which harness, which generator, which theorems file, what counts as a non-trivial case.
import json, os, sys
import classes as G
from framework import *

def _steps_with_edges(c, I):
    return any(len(l.split()) > 4 and l.split()[4] not in ('0', '-', '|') for l in I if l.startswith('I '))

def gen_C01(rng, tier):
    kinds = G.LABEL_KINDS_QUICK if tier == 'quick' else G.LABEL_KINDS_ALL
    n = 2500 if tier == 'quick' else 30000
    return G.histories(rng, n, ['D'], kinds, maxops=30 if tier == 'quick' else 40, reject_p=0.0)

def gen_C02(rng, tier):
    kinds = G.LABEL_KINDS_QUICK if tier == 'quick' else G.LABEL_KINDS_ALL
    n = 2500 if tier == 'quick' else 30000
    return G.histories(rng, n, ['U'], kinds, maxops=30 if tier == 'quick' else 40, reject_p=0.0)

def gen_C04(rng, tier):
    n = 2500 if tier == 'quick' else 30000
    return [G.multi_history(rng, rng.choice(['DM', 'UM']), maxops=30 if tier == 'quick' else 45) for _ in range(n)]
def gen_C05(rng, tier):
    n = 2500 if tier == 'quick' else 30000
    return [G.weighted_history(rng, rng.choice(['DW', 'UW']), maxops=30 if tier == 'quick' else 45) for _ in range(n)]
MW_IMPORTS = 'Base DirectedModel DirectedSpec UndirectedModel UndirectedSpec MultiModel WeightedModel MultiSpec Instances'

PROPS = {
 'C04': dict(harness='multi', gen=gen_C04, coq_term=G.coq_term_mw, histogram=G.op_histogram, coq_imports=MW_IMPORTS,
             nontrivial=_steps_with_edges, model_name='MultiModel.dm_step/um_step',
             rule='seeded random histories on DirectedMultigraph / UndirectedMultigraph (force off): addEdge, addMultiedge, reciprocal variants, removeEdge, removeMultiedge, '
                  'setEdgeMultiplicity, bulk removals, resize; multiplicity arguments drawn around the current value (0, 1, cur-1, cur, cur+1); both orientations; '
                  'all observers compared after every call with the Coq model and the multiplicity-function spec; non-trivial = reaches a state with >=1 edge'),
 'C05': dict(harness='multi', gen=gen_C05, coq_term=G.coq_term_mw, histogram=G.op_histogram, coq_imports=MW_IMPORTS,
             nontrivial=_steps_with_edges, model_name='WeightedModel.dw_step/uw_step',
             rule='seeded random histories on DirectedWeightedGraph / UndirectedWeightedGraph (force off) with exactly representable weights k/4 (negative, zero, positive); '
                  'addEdge, setEdgeWeight on present and absent edges in both orientations, every removal, resize; all observers incl. getTotalWeight and getWeightMatrix '
                  'compared after every call with the Coq model and the weight-function spec; non-trivial = reaches a state with >=1 edge'),
 'C02': dict(harness='classes', gen=gen_C02, coq_term=G.coq_term_history, histogram=G.op_histogram, coq_imports='Base DirectedModel DirectedSpec UndirectedModel UndirectedSpec Instances',
             segments=[0, 1, 2, 3, 6, 7, 8], nontrivial=_steps_with_edges, model_name='UndirectedModel.ustep/u_observe',
             rule='seeded random histories of LabeledUndirectedGraph<L> mutators (force off), each call naming its pair in a random orientation; sizes 0-5(+resize); '
                  'after every call ALL observers (hasEdge both orientations, neighbour lists, degrees in both conventions, both matrices, edges()) are compared with the Coq model '
                  'and the unordered-pair spec; non-trivial = distinct history that reaches a state with >=1 edge'),
 'C01': dict(harness='classes', gen=gen_C01, coq_term=G.coq_term_history, histogram=G.op_histogram,
             segments=[0, 1, 2, 3, 6, 7, 8], nontrivial=_steps_with_edges, model_name='DirectedModel.step/observe',
             rule='seeded random histories of LabeledDirectedGraph<L> mutators (force off) incl. rejected calls; sizes 0-5(+resize); '
                  'after every call ALL observers are compared with the Coq model and with the pair-set spec; '
                  'non-trivial = distinct history that reaches a state with >=1 edge'),
}

def replay(path):
    rp = json.load(open(path))
    pid = rp['property']; P = PROPS[pid]
    print(json.dumps({k: rp[k] for k in rp if k in ('property', 'kind', 'what', 'case')}, indent=1))
    if 'case' not in rp: return 0
    import runner
    exe, cerr, _ = build_harness(P['harness'], os.path.join(BUILD, pid), flags=P.get('flags'))
    if exe is None: print('harness does not compile:', cerr); return 1
    S = runner.Session(P, pid, exe)
    impl, ms, aborts, verdicts, _ = S.evaluate([rp['case']])
    c = rp['case']
    Il, M, Sp = triples(c, impl.get(c, []), ms.get(c, []))
    ops = [o.strip() for o in c.split(':', 1)[1].split(';') if o.strip()]
    for k in range(max(len(Il), len(M))):
        print('step %d  %s' % (k, ops[k] if k < len(ops) else ''))
        print('  impl :', Il[k] if k < len(Il) else '-')
        print('  model:', M[k] if k < len(M) else '-')
        print('  spec :', Sp[k] if k < len(Sp) else '-')
    if aborts.get(c): print('  abort:', aborts[c])
    co, po, step, detail = verdicts[c]
    print('correspondence %s, spec oracle %s' % ('ok' if co else 'BROKEN', 'ok' if po else 'VIOLATED'))
    return 0 if (co and po) else 1
