#!/usr/bin/env python3
# Prints the markdown table of DESIGN.md section 12.4 from seeded/*/meta.json
import json, os, glob
ROOT = os.path.dirname(os.path.dirname(os.path.abspath(__file__)))
print('| seed | change (one line) | checks run | verdict |'); print('|---|---|---|---|')
for d in sorted(glob.glob(os.path.join(ROOT, 'seeded', '*'))):
    mp = os.path.join(d, 'meta.json')
    if not os.path.exists(mp): continue
    m = json.load(open(mp))
    first = (m.get('what_it_needs') or '').strip().split('\n')
    line = ' '.join(first[:3])[:230].replace('|', '/')
    res = []
    for c, r in m.get('check_results', {}).items():
        v = r.get('violations') or []
        kind = (r.get('first_replay') or {}).get('kind')
        tag = 'OK (no alarm)' if r['exit'] == 0 else ('VIOLATION with failing input' if kind == 'failing-input' else 'VIOLATION ' + (kind or ''))
        if r['exit'] != 0 and v and v[0].rstrip().endswith('no-failing-input-found'): tag = 'VIOLATION no-failing-input-found (' + str(kind) + ')'
        res.append('%s: %s' % (c, tag))
    print('| %s | %s | %s | %s |' % (m['name'], line, ', '.join(m.get('check_results', {})), '; '.join(res)))
