#!/usr/bin/env python3
# usage: [SEEDWT=/tmp/seedwt3] [SEEDSUFFIX=-3] [SEEDPHASE=confirm|check|both] seedtest.py <seed dir name> <property id> [check ids...]
# Confirms a seeded change (tests still pass, the demonstration fails with it and passes without it), stores it under /verif/seeded/<name>/,
# runs the named checks against /repo with the change applied and restores /repo.
# Phase "confirm" works only in the scratch worktree (several can run in parallel); phase "check" patches /repo (one at a time).
import json, os, shutil, subprocess, sys, time
name, pid = sys.argv[1], sys.argv[2]
checks = sys.argv[3:] or [pid]
wt = os.environ.get('SEEDWT', '/tmp/seedwt') + '/' + name
name = name + os.environ.get('SEEDSUFFIX', '')           # e.g. C17 -> C17-2 for the second round
out = '/verif/seeded/' + name
PHASE = os.environ.get('SEEDPHASE', 'both')
def sh(cmd, cwd=None, timeout=3000):
    p = subprocess.run(cmd, shell=True, cwd=cwd, capture_output=True, text=True, timeout=timeout)
    return p.returncode, (p.stdout + p.stderr)
os.makedirs(out, exist_ok=True)
cj = os.path.join(out, 'confirmed.json')
if PHASE in ('confirm', 'both'):
    for f in ('patch.diff', 'demo.cpp', 'notes.txt', 'demo_flags.txt'):
        if os.path.exists(os.path.join(wt, 'seed_out', f)): shutil.copy(os.path.join(wt, 'seed_out', f), out)
    conf = {}
    sh('git checkout -- include && git apply seed_out/patch.diff', cwd=wt)          # the worktree holds exactly the patch
    rc, o = sh('cmake -G Ninja -B _build -DBUILD_TESTS=ON -DCMAKE_BUILD_TYPE=RelWithDebInfo -DCMAKE_PREFIX_PATH=/root/miniconda >/dev/null && cmake --build _build 2>&1 | tail -2 && ctest --test-dir _build -j4 --timeout 900 2>&1 | tail -4', cwd=wt)
    conf['tests_with_change'] = '100% tests passed' in o
    fl = open(os.path.join(wt, 'seed_out', 'demo_flags.txt')).read().strip().replace('\n', ' ') if os.path.exists(os.path.join(wt, 'seed_out', 'demo_flags.txt')) else ''
    rc1, o1 = sh('g++ -std=c++14 %s -Iinclude seed_out/demo.cpp -o seed_out/demo_with && ./seed_out/demo_with' % fl, cwd=wt)
    conf['demo_with_change_exit'] = rc1
    sh('git checkout -- include', cwd=wt)
    rc2, o2 = sh('g++ -std=c++14 %s -Iinclude seed_out/demo.cpp -o seed_out/demo_without && ./seed_out/demo_without' % fl, cwd=wt)
    conf['demo_without_change_exit'] = rc2
    sh('git apply seed_out/patch.diff', cwd=wt)
    conf['demo_output_with_change'] = o1[-600:]
    conf['ok'] = bool(conf['tests_with_change'] and rc1 != 0 and rc2 == 0)
    json.dump(conf, open(cj, 'w'), indent=1)
    print(name, 'confirmed' if conf['ok'] else 'NOT CONFIRMED', json.dumps(conf)[:300])
if PHASE == 'confirm': sys.exit(0)
mj = os.path.join(out, 'meta.json')
old_meta = json.load(open(mj)) if os.path.exists(mj) else {}
conf = json.load(open(cj)) if os.path.exists(cj) else old_meta['confirmed']       # a re-run after the checks were strengthened
meta = {'name': name, 'breaks_property': pid, 'confirmed': conf}
if old_meta.get('check_results'):
    meta['earlier_results'] = old_meta.get('earlier_results', []) + [{k: {'exit': v['exit'], 'summary': v['summary']} for k, v in old_meta['check_results'].items()}]
results = {}
if conf['ok']:
    rc, o = sh('git -C /repo apply %s/patch.diff' % out)
    if rc != 0: print('patch does not apply to /repo:', o); sys.exit(1)
    try:
        for c in checks:
            t0 = time.time()
            rc, o = sh('./check %s --tier quick' % c, cwd='/verif', timeout=3000)
            lines = [l for l in o.split('\n') if l.startswith('VIOLATION') or l.startswith('OK ') or l.startswith('FAIL ')]
            results[c] = {'exit': rc, 'summary': lines[-1] if lines else o[-300:], 'violations': [l for l in lines if l.startswith('VIOLATION')][:3], 'wall_s': round(time.time() - t0, 1)}
            rp = [l.split('replay=')[1].split()[0] for l in lines if l.startswith('VIOLATION')]
            if rp and os.path.exists(rp[0]):
                r = json.load(open(rp[0])); results[c]['first_replay'] = {k: r.get(k) for k in ('kind', 'case', 'step', 'differs_at', 'abort', 'configuration')}
            print(name, c, 'exit', rc, results[c]['summary'])
    finally:
        sh('git -C /repo checkout -- .')
meta['what_it_needs'] = open(os.path.join(out, 'notes.txt')).read() if os.path.exists(os.path.join(out, 'notes.txt')) else ''
meta['what_i_ran'] = 'lib/seedtest.py %s %s %s : rebuilt and ran the 11 ctest binaries in a scratch worktree with the change; compiled and ran demo.cpp with and without it; git -C /repo apply patch.diff; ./check <id> --tier quick; git -C /repo checkout -- .' % (name, pid, ' '.join(checks))
meta['check_results'] = results
json.dump(meta, open(os.path.join(out, 'meta.json'), 'w'), indent=1)
if os.path.exists(cj): os.remove(cj)
