# The check itself: obligations -> harness -> corpus + generated cases -> implementation / model / spec -> verdict + evidence.
import json, os, random, sys, time, zlib
from framework import *

def stable_seed(pid, seed):
    return (zlib.crc32(pid.encode()) * 7919 + seed * 1000003) & 0x7fffffff

def corpus_cases(pid):
    d = os.path.join(ROOT, 'corpus', pid); out = []
    if os.path.isdir(d):
        for fn in sorted(os.listdir(d)):
            if not fn.endswith('.cases'): continue
            for ln in open(os.path.join(d, fn)):
                ln = ln.strip()
                if ln and not ln.startswith('#'): out.append(ln)
    return out

HARNESS_OF_CLASS = {'EQF': 'float', 'DJF': 'float', 'WF': 'float', 'CONC': 'conc', 'D': 'classes', 'U': 'classes', 'DM': 'multi', 'UM': 'multi', 'DW': 'multi', 'UW': 'multi'}
def default_route(case):
    return HARNESS_OF_CLASS.get(case.split(None, 1)[0])

class Session:
    """Harness binaries + the driver; evaluates batches of cases (each case goes to the harness that knows its class)."""
    def __init__(self, P, pid, exes):
        self.P, self.pid, self.exes = P, pid, exes
    def run_only(self, cases):
        impl, aborts = {}, {}
        names = list(self.exes)
        from concurrent.futures import ThreadPoolExecutor
        jobs = []
        for name in names:
            sub = [c for c in cases if len(names) == 1 or (self.P.get('route') or default_route)(c) == name]
            if not sub: continue
            k = max(1, min(self.P.get('shards', 1), len(sub) // 50))
            for j in range(k): jobs.append((name, sub[j::k]))
        with ThreadPoolExecutor(max_workers=8) as ex:
            for i2, a2 in ex.map(lambda nb: run_impl(self.exes[nb[0]], nb[1], timeout=self.P.get('impl_timeout', 900), wrap=self.P.get('wrap')), jobs):
                impl.update(i2); aborts.update(a2)
        return impl, aborts
    def evaluate(self, cases):
        impl, aborts = self.run_only(cases)
        ms, rc, err = run_driver(impl, cases, self.P.get('driver_args'))
        verdicts = {}
        segs = self.P.get('segments')
        for c in cases:
            sg = segs.get(c.split(None, 1)[0]) if isinstance(segs, dict) else segs
            verdicts[c] = judge(c, impl.get(c, ['I MISSING']), ms.get(c, []), sg)
        return impl, ms, aborts, verdicts, (rc, err)

def run_property(pid, P, tier, seed):
    t0 = time.time()
    rng = random.Random(stable_seed(pid, seed))
    lines = []                       # stdout lines
    rd = os.path.join(ROOT, 'replays')
    if os.path.isdir(rd):
        for fn in os.listdir(rd):
            if fn.startswith(pid + '-'): os.remove(os.path.join(rd, fn))
    ev_cov = {}
    # ---- 1. proof obligations
    coq_ok, drv_ok, blog = coq_build()
    theorems, discharged, assum, plog = check_obligations(pid)
    forb = forbidden_scan()
    proof_broken = None
    chk = None
    if tier == 'thorough' and theorems and len(discharged) == len(theorems):
        ok, summ = coqchk(pid); chk = summ
        if not ok: proof_broken = 'coqchk rejects the compiled development: ' + summ[-600:]
    if not theorems: proof_broken = 'no theorem found for %s' % pid
    elif len(discharged) != len(theorems): proof_broken = 'theorem %s (coqc rejects Properties_%s.v): %s' % (assum.get('_broken'), pid, plog[-600:])
    elif forb: proof_broken = 'forbidden construct in the development: ' + '; '.join(forb[:5])
    elif not drv_ok: proof_broken = 'extracted driver does not build: ' + blog[-600:]
    # ---- 2. harness from /repo's current tree
    bdir = os.path.join(BUILD, pid)
    hnames = P['harness'] if isinstance(P['harness'], list) else [P['harness']]
    from concurrent.futures import ThreadPoolExecutor
    with ThreadPoolExecutor(max_workers=4) as ex:
        built = list(ex.map(lambda h: build_harness(h, bdir, flags=P.get('flags')), hnames))
    exes = {h: b[0] for h, b in zip(hnames, built)}
    cerr = '\n'.join(b[1] for b in built if b[0] is None)
    exe = None if any(b[0] is None for b in built) else exes
    if exe is None:
        rp = write_replay(pid, {'property': pid, 'kind': 'harness-does-not-compile', 'detail': cerr, 'what': 'the public API used by harness/impl_%s.cpp no longer compiles against /repo/include' % P['harness'], 'note': 'build flags ' + ' '.join(P.get('flags') or CXX_QUICK)})
        lines.append('VIOLATION property=%s replay=%s no-failing-input-found' % (pid, rp))
        finish(pid, P, tier, seed, t0, theorems, discharged, assum, {}, 1, lines, extra={'harness_error': cerr[-800:]})
        return 1
    S = Session(P, pid, exe)
    # ---- 3. cases
    corp = corpus_cases(pid)
    gen = P['gen'](rng, tier)
    seen, cases = set(), []
    for c in corp + gen:
        if c not in seen: seen.add(c); cases.append(c)
    impl, ms, aborts, verdicts, drv = S.evaluate(cases)
    adaptive_log = {}
    if P.get('adaptive'):
        # change-directed search: new cases chosen by looking at what the implementation does (all of them are then judged like the others)
        more = [c for c in P['adaptive'](S.run_only, rng, tier, adaptive_log) if c not in seen]
        if more:
            i2, m2, a2, v2, d2 = S.evaluate(more)
            impl.update(i2); ms.update(m2); aborts.update(a2); verdicts.update(v2); cases += more; seen.update(more)
            if d2[0] != 0: drv = d2
    prop_fail = [c for c in cases if not verdicts[c][1]]
    corr_fail = [c for c in cases if not verdicts[c][0]]
    if drv[0] != 0:
        proof_broken = proof_broken or ('driver failed: ' + drv[1])
    # ---- 3b. build matrix (C17): the same cases under other compilers / optimisation levels / checked standard library; every
    # configuration must terminate normally on every case and print exactly what the base configuration printed
    matrix_fail = []; matrix_cov = []
    for cfg in P.get('matrix', lambda tier: [])(tier):
        with ThreadPoolExecutor(max_workers=4) as ex:
            built2 = list(ex.map(lambda h: build_harness(h, bdir, flags=cfg['flags'], tag='_' + cfg['tag']), hnames))
        if any(b[0] is None for b in built2):
            proof_broken = proof_broken or ('harness does not compile in configuration %s: %s' % (cfg['tag'], ' '.join(b[1] for b in built2 if b[0] is None)[-500:])); continue
        pool = [c for c in cases if not (cfg.get('skip') and cfg['skip'](c))]
        cs0 = set(cases[:len(corp)]); rest = [c for c in pool if c not in cs0]
        sub = pool if not cfg.get('sample') else [c for c in pool if c in cs0] + random.Random(seed).sample(rest, min(cfg['sample'], len(rest)))
        S2 = Session(dict(P, wrap=cfg.get('wrap')), pid, {h: b[0] for h, b in zip(hnames, built2)})
        impl2, aborts2 = S2.run_only(sub)
        bad = [c for c in sub if c in aborts2 or impl2.get(c) != impl.get(c)]
        matrix_cov.append({'configuration': cfg['tag'], 'flags': ' '.join(cfg['flags']), 'wrapper': ' '.join(cfg.get('wrap') or []), 'cases': len(sub), 'aborts': len(aborts2), 'diverging': len(bad)})
        for c in bad[:3]: matrix_fail.append((c, cfg, impl2.get(c), aborts2.get(c)))
    # ---- 4. in-kernel cross-check of the extracted model on a sample
    kc_n = kc_bad = 0; kc_msg = ''
    if P.get('coq_term') and drv_ok:
        sample = []
        for c in cases:
            t = P['coq_term'](c)
            if t is not None and c in ms and len(c) < 400: sample.append((c, t))
            if len(sample) >= P.get('kernel_sample', 40): break
        exp = [[[[int(x) for x in seg.split()] for seg in l[2:].split('|')] for l in ms[c] if l.startswith('M ')] for c, _ in sample]
        kc_n, kc_bad, kc_msg = kernel_crosscheck(pid, [t for _, t in sample], exp, P.get('coq_imports', 'Base DirectedModel DirectedSpec Instances'))
        if kc_bad: proof_broken = proof_broken or ('extracted model disagrees with vm_compute on %d of %d sampled cases %s' % (kc_bad, kc_n, kc_msg))
    # ---- 5. verdict
    violations = 0
    known = load_known(pid)
    reported = set()
    def fails_prop(batch):
        _, _, _, v, _ = S.evaluate(batch); return [not v[c][1] for c in batch]
    def fails_corr(batch):
        _, _, _, v, _ = S.evaluate(batch); return [not v[c][0] for c in batch]
    shr = P.get('shrink', shrink_history)
    for c in prop_fail[:P.get('max_report', 6)]:
        m = shr(c, fails_prop) if shr else c
        if m in reported: continue
        reported.add(m)
        i2, ms2, ab2, v2, _ = S.evaluate([m])
        co, po, step, detail = v2[m]
        context = None; ctx_note = None
        if po:
            ctx_note = 'fails within the generated batch but no short preceding context reproduced it' 
            # the case fails in the batch but not on its own: the implementation carries state from one call sequence to the next (a static
            # or thread_local buffer, a file left behind).  Find a short list of earlier cases after which it fails again; they are part of the replay.
            m = c
            route = (P.get('route') or default_route)
            preds = [x for x in cases[:cases.index(c)] if len(S.exes) == 1 or route(x) == route(c)] if c in cases else []
            def fails_after(ctx):
                _, _, _, vv, _ = S.evaluate(ctx + [c]); return not vv[c][1]
            k = 1; context = None
            while k <= max(1, len(preds)):
                ctx = preds[-k:]
                if fails_after(ctx): context = ctx; break
                if k >= len(preds): break
                k = min(len(preds), k * 4)
            if context is not None:
                for _ in range(12):                       # drop what is not needed, front first, in halves
                    if len(context) <= 1: break
                    half = context[len(context) // 2:]
                    if fails_after(half): context = half
                    else:
                        rest = context[:len(context) // 2]
                        if len(rest) < len(context) and fails_after(rest): context = rest
                        else: break
            if context is not None: ctx_note = 'the case fails only when the cases listed under "context" have run before it in the same process (state carried across calls)'
            i2, ms2, ab2, v2, _ = S.evaluate((context or []) + [c])
            co, po, step, detail = v2[c]
        hit = None
        for k in known:
            if re.search(k['match'], m): hit = k
        if hit:
            lines.append('KNOWN-FINDING: property=%s %s' % (pid, hit['what'])); continue
        rp = write_replay(pid, {'property': pid, 'kind': 'failing-input', 'case': m, 'original_case': c, 'step': step, 'context': context,
                                'context_note': ctx_note,
                                'implementation': i2.get(m), 'model_and_spec': ms2.get(m), 'abort': ab2.get(m),
                                'differs_at': diff_positions(detail[2], detail[3]) if detail else None,
                                'seed': seed, 'tier': tier, 'harness': P['harness'], 'flags': ' '.join(P.get('flags') or CXX_QUICK)})
        lines.append('VIOLATION property=%s replay=%s' % (pid, rp)); violations += 1
    for c, cfg, out2, ab2 in matrix_fail[:P.get('max_report', 6)]:
        if c in reported: continue
        reported.add(c)
        rp = write_replay(pid, {'property': pid, 'kind': 'failing-input', 'case': c, 'configuration': cfg['tag'], 'flags': ' '.join(cfg['flags']), 'wrapper': cfg.get('wrap'),
                                'what': 'this build configuration aborts on the case or prints something else than the base configuration (ASan+UBSan, g++ -O1)',
                                'implementation_this_configuration': out2, 'implementation_base': impl.get(c), 'abort': ab2, 'seed': seed, 'tier': tier})
        lines.append('VIOLATION property=%s replay=%s' % (pid, rp)); violations += 1
    only_corr = [c for c in corr_fail if c not in prop_fail]
    if only_corr and not violations:
        # implementation left the model's behaviours but the spec oracle has no complaint on these cases: widen the search
        found = None
        for extra_seed in range(1, P.get('widen_rounds', 4) + 1):
            r2 = random.Random(stable_seed(pid, seed) + extra_seed * 7727)
            more = P['gen'](r2, tier)
            _, _, _, v3, _ = S.evaluate(more)
            pf = [c for c in more if not v3[c][1]]
            if pf: found = pf[0]; break
        if found:
            m = shr(found, fails_prop) if shr else found
            i2, ms2, ab2, v2, _ = S.evaluate([m])
            rp = write_replay(pid, {'property': pid, 'kind': 'failing-input', 'case': m, 'implementation': i2.get(m), 'model_and_spec': ms2.get(m), 'abort': ab2.get(m), 'seed': seed, 'tier': tier})
            lines.append('VIOLATION property=%s replay=%s' % (pid, rp)); violations += 1
        else:
            c = only_corr[0]
            m = shr(c, fails_corr) if shr else c
            i2, ms2, ab2, v2, _ = S.evaluate([m])
            d = v2[m][3]
            rp = write_replay(pid, {'property': pid, 'kind': 'correspondence-broken', 'what': 'implementation and Coq model (%s) disagree; no input violating the spec oracle was found' % P.get('model_name', P['harness']),
                                    'case': m, 'implementation': i2.get(m), 'model_and_spec': ms2.get(m), 'differs_at': diff_positions(d[2], d[3]) if d else None, 'seed': seed, 'tier': tier})
            lines.append('VIOLATION property=%s replay=%s no-failing-input-found' % (pid, rp)); violations += 1
    if proof_broken and not violations:
        rp = write_replay(pid, {'property': pid, 'kind': 'proof-obligation-broken', 'what': proof_broken, 'theorems': theorems, 'discharged': discharged})
        lines.append('VIOLATION property=%s replay=%s no-failing-input-found' % (pid, rp)); violations += 1
    # ---- 6. evidence
    nontriv = P.get('nontrivial', lambda c, I: any(len(l.split()) > 3 and l.split()[3] not in ('0',) for l in I))
    distinct = len({c for c in cases if nontriv(c, impl.get(c, []))})
    cov = {'evaluations': len(cases), 'distinct_nontrivial': distinct,
           'rule': P.get('rule', ''), 'samples': cases[len(corp):len(corp) + 3] + cases[-2:],
           'steps_compared': sum(len([l for l in impl.get(c, []) if l.startswith('I ')]) for c in cases),
           'corpus_cases': len(corp), 'correspondence_mismatches': len(corr_fail), 'spec_oracle_failures': len(prop_fail),
           'implementation_aborts': len(aborts), 'kernel_crosscheck': {'cases_evaluated_with_vm_compute': kc_n, 'disagreements': kc_bad},
           'input_distribution': P['histogram'](cases) if P.get('histogram') else {}}
    if matrix_cov: cov['build_matrix'] = matrix_cov
    if chk: cov['coqchk'] = chk
    if adaptive_log: cov['directed_search'] = adaptive_log
    finish(pid, P, tier, seed, t0, theorems, discharged, assum, cov, violations, lines)
    return 1 if violations else 0

def finish(pid, P, tier, seed, t0, theorems, discharged, assum, cov, violations, lines, extra=None):
    tb = ['Coq 8.16.1 kernel (coqc, full .vo build; vm_compute used, native_compute not used)',
          'extraction: ExtrOcamlBasic only (Extract Inductive bool/option/unit/list/prod/sumbool/sumor, Extract Inlined Constant andb/orb); nat/positive/Z stay inductive; no Extract Constant of ours',
          'OCaml driver (parsing/printing glue), cross-checked in-kernel on a sample each run',
          'C++ harness ' + ', '.join('harness/impl_%s.cpp' % h for h in (P['harness'] if isinstance(P['harness'], list) else [P['harness']])) + ' + generators + comparison (lib/, gen/)',
          'g++ 12 / libstdc++ / ASan+UBSan as installed']
    for name in theorems:
        tb.append('Print Assumptions %s: %s' % (name, assum.get(name, 'n/a')))
    tb += P.get('trusted', [])
    cov = dict(cov)
    cov.update({'obligations': len(theorems), 'discharged': len(discharged), 'theorems': theorems,
                'checker_cmd': 'cd /verif/coq && make -j16 && coqc -Q theories BG theories/Properties_%s.v' % pid,
                'trusted_base': tb})
    cov['source'] = source_fingerprints()
    if extra: cov.update(extra)
    ev = {'property_id': pid, 'tier': tier, 'seed': seed, 'level': 'proof', 'coverage': cov,
          'assumptions': P.get('assumptions', []), 'wall_s': round(time.time() - t0, 2), 'violations': violations}
    write_evidence(pid, ev)
    for l in lines: print(l)
    print('%s %s tier=%s seed=%d obligations=%d/%d cases=%s nontrivial=%s corr_mismatch=%s spec_fail=%s aborts=%s wall=%.1fs' % (
        'FAIL' if violations else 'OK', pid, tier, seed, len(discharged), len(theorems), cov.get('evaluations'), cov.get('distinct_nontrivial'),
        cov.get('correspondence_mismatches'), cov.get('spec_oracle_failures'), cov.get('implementation_aborts'), time.time() - t0))
    sys.stdout.flush()
