#!/usr/bin/env python3
# Regenerates /verif/MANIFEST.json from the table below (kept here so the manifest stays consistent with the checks).
import json, os, sys
ROOT = os.path.dirname(os.path.dirname(os.path.abspath(__file__)))
TB = ("Trusted: Coq 8.16.1 kernel (full .vo build, vm_compute, no native_compute); no axioms declared; every property theorem's Print Assumptions "
      "output is copied into the evidence on each run; extraction with ExtrOcamlBasic only; OCaml driver glue (cross-checked in-kernel on a sample each run); "
      "the C++ harness, generators and comparison scripts under /verif; g++/libstdc++/sanitizers as installed. The C++ is not verified: it is shown, on every run "
      "and on the generated inputs, to behave as the verified Coq model does (hand-written model + correspondence check). Besides small and exhaustive scopes the generated inputs "
      "include large ones where a property's code can depend on size: graphs of 33-140 vertices and hubs of more than 32 neighbours, a pair forced more than 256 times, "
      "multiplicities of 2^31 and more, weights +-0, one ulp apart and near DBL_MAX, files longer than a stream buffer, very long lines. ")
CHECKS = {
 'C01': dict(text="Theorem C01_faithful (Coq): for every valid history of the eight mutators, every initial size and every label type, the model run ends normally and "
                  "size, edge count, hasEdge, neighbour lists (NoDup, exact membership), labels equal the pair-set spec; C01_all_observers: the model's WHOLE observation vector (degrees, matrices, edges(), "
                  "iteration included) equals the vector computed from the spec - the vector the differential test's spec oracle prints. The model is tied to /repo by differential execution: "
                  "thousands of seeded histories per run, all observers compared after every call against the extracted model and the spec oracle.",
             note=TB + "Modelled, not verified: std::list/vector/unordered_map as lists and association lists; VertexIndex as nat (no 2^32 wrap).",
             tech="Coq refinement proof (model -> pair-set spec) + differential correspondence check model/implementation", ref="DESIGN.md §6 C01"),
}
CHECKS.update({
 'C02': dict(text="Theorem C02_faithful (Coq): for every valid history on the undirected model (any orientation per call, any size, any label type) the run ends normally, the "
                  "symmetric invariant holds and hasEdge (both orientations), neighbour lists, edge count, getDegree (both self-loop conventions), edges() and labels equal the "
                  "unordered-pair spec; C02_removals_exact states what each removal must not change; C02_degree / C02_adjacency_matrix(_symmetric) / C02_all_observers: degrees, the symmetric matrix in both self-loop "
                  "conventions and the model's whole observation vector equal what the spec gives. Tied to /repo by differential execution of seeded histories with all observers compared, "
                  "and of undirected graphs built from directed ones by the converting constructor (C09's theorems are the proof side of that part).",
             note=TB + "Modelled, not verified: std::list/vector/unordered_map as lists and association lists.",
             tech="Coq refinement proof (model -> unordered-pair spec) + differential correspondence check", ref="DESIGN.md §6 C02"),
 'C03': dict(text="Theorems C03_directed_labels / C03_undirected_labels (Coq): after any valid history getEdgeLabel (throwing and not) and hasEdge(i,j,l) answer exactly from the spec, "
                  "whose semantics (C03_spec_semantics) is: value at creation or last setEdgeLabel, re-add keeps it, every removal forgets it. Witnesses of the repaired stale-label "
                  "defects are kept as kernel-checked examples on the pinned variant. Tied to /repo by differential execution over several label types.",
             note=TB + "Label types enter the proofs only through equality and the default value (one proof for every L); the harness instantiates int, long, double, char, std::string and a struct.",
             tech="Coq refinement proof (label store = spec map) + differential correspondence check", ref="DESIGN.md §6 C03"),
 'C08': dict(text="Theorems C08_* (Coq): the (vertex, list-position) cursor model of Edges::constEdgeIterator - begin(), end(), operator++, operator*, operator== - enumerates exactly the "
                  "flattened adjacency lists (directed, ANY graph with size-many lists, zero vertices included) resp. their i<=j half (undirected, under the symmetric invariant), "
                  "begin()==end() iff no edge, range-for yields 0..n-1, and the users (in-degrees, adjacency matrix) are defined with the right values. Tied to /repo by running every "
                  "small graph of all eight classes plus random histories, comparing vertex sequence, edge multiset, pre/post-increment (edge and vertex iterators), repeated traversals, and begin()/end() taken from two separate edges() ranges of one graph.",
             note=TB + "The cursor abstracts std::list iterators as list positions; pre/post-increment agreement and repeatability are trivial in a pure model and are checked on the implementation only.",
             tech="Coq proof about the iterator cursor model + exhaustive small-graph correspondence", ref="DESIGN.md §6 C08"),
})
CHECKS.update({
 'C07': dict(text="Theorems C07_* (Coq): for each of the six class models and EVERY state (no reachability hypothesis), a mutator receiving a vertex index >= getSize() in any argument "
                  "position, with force on or off, returns Thrown OutOfRange together with exactly the state it was given; resize-to-fewer, unforced setEdgeLabel and getEdgeLabel on a "
                  "missing edge give InvalidArgument with the state unchanged; vertex-taking observers raise OutOfRange. Tied to /repo by histories interleaving valid and rejected calls "
                  "(size, size+1, UINT_MAX; every position; both flag values; out-of-range queries of every observer) under ASan+UBSan, all observers compared after every call. "
                  "C07_path_searches_reject / C07_subgraph_rejects extend this to every path search (source and destination positions) and both subgraph functions. "
                  "C07_codes_after_forced_calls_{directed,undirected}: on EVERY history, forced duplicates and labels forced onto missing edges included, the result code of every call "
                  "is the one determined by the number of vertices and the presence of the pair (CodesSpec oracle, which keeps speaking about the code after forced calls), and "
                  "C07_every_call_returns_*: the repaired models never reach undefined behaviour on any history. The two path-reconstruction entry points are also called directly "
                  "with out-of-range (source, destination), equal or not.",
             note=TB + "Out-of-bounds reads/writes themselves are a runtime notion: the model proves 'Thrown, state unchanged'; a sanitizer abort of the harness is reported as a violation.",
             tech="Coq proof (rejected call = Thrown + identical state, all states) + differential correspondence under ASan/UBSan", ref="DESIGN.md §6 C07"),
 'C16': dict(text="Theorems C16_* (Coq), on the weak invariant kept by forced insertions: addEdge(force=true) adds exactly one copy (list multiplicity and edge count +1, hasEdge true, label "
                  "set), removeEdge deletes all copies and lowers the count by their number, removeDuplicateEdges restores the full C01 invariant with the same connected pairs, one copy "
                  "each, labels untouched. The multiset spec oracle (copies + last label per pair; multigraph/weighted: opinion only once no pair is duplicated) and the Coq model are "
                  "compared with /repo on histories mixing forced/unforced insertions, removeEdge and removeDuplicateEdges for all six classes.",
             note=TB + "Proved for the directed and undirected labelled models and (C16_multigraph_*) for both multigraphs, including 'forced then removeDuplicateEdges == built without force' "
                  "EXACTLY WHEN repeated insertions of a pair agree on the label (closed counterexample otherwise: the forced run keeps the last label, the unforced the first); the weighted classes likewise (C16_weighted_*: forced add, removeEdge = copies x stored weight, dedup restores total = sum of stored weights and == unforced with equal "
                  "totals when all copies carry the same weight - the property's proviso; outside it the total drifts, kept as closed examples). For multigraphs 'the graph built without force' is read as the deduplicated graph (one copy per pair carrying the common multiplicity), as the "
                  "repository's own tests do.",
             tech="Coq lemmas on the weak (duplicate-tolerant) invariant + differential correspondence with a multiset spec oracle", ref="DESIGN.md §6 C16"),
})
CHECKS.update({
 'C06': dict(text="Theorems C06_* (Coq): the model of operator== (size, cached edge number, label map, mutual adjacency inclusion) is defined on any two graphs satisfying the invariant "
                  "and is true exactly when sizes, edge sets and labels agree; for ANY two valid histories the verdict equals 'the two histories denote the same graph' (so insertion "
                  "order and past content cannot matter); reflexive, symmetric and (C06_trans, C06_undirected_trans, C06_multi_weighted_trans) transitive whenever the label type's == is, i.e. an equivalence relation on reachable graphs. C06_undirected_eq / C06_undirected_histories / C06_multigraph_histories / C06_weighted_histories / "
                  "C06_multi_weighted_states: the same for the undirected class, both multigraphs and both weighted graphs (verdict = equality of the spec maps; totals, which operator== "
                  "does not compare, are then equal anyway), and the verdict is literally the executable spec verdict the test's oracle computes. For weighted graphs with arbitrary "
                  "double weights (where the running total depends on the history) pairs of histories of one graph are compared against a Flocq-based model of the stored weights. Tied to /repo by pairs of histories on all eight classes: different constructions of one target, "
                  "one-edge/one-label/size differences, random pairs; ==, != both ways, copies, assignment, independence of copies.",
             note=TB + "All eight classes use the same base-class operator== (graph_eqb in the model). Independence of copies is a property of C++ value semantics: "
                  "identity in the model, checked on the implementation only.",
             tech="Coq proof (operator== model <-> value equality of denoted graphs, all classes) + differential correspondence on history pairs", ref="DESIGN.md §6 C06"),
})
CHECKS.update({
 'C04': dict(text="Theorems C04_directed_multigraph_consistent and C04_undirected_multigraph_consistent (Coq): after any valid history on the DirectedMultigraph resp. UndirectedMultigraph "
                  "model getEdgeMultiplicity equals the spec function (+k, -min(k,cur), :=k, bulk removals zero; unordered pairs for the undirected class), is 0 exactly when hasEdge is "
                  "false, getEdgeNumber = #pairs, getTotalEdgeNumber = sum of multiplicities; C04_*_invariant: total = sum of stored multiplicities in every reachable state; C04_(undirected_)degree / adjacency_matrix / "
                  "all_observers: degrees are row/column sums of multiplicities, the matrix holds the multiplicities (diagonal doubled iff asked), and the whole observation vector equals "
                  "the spec's. Both classes are tied to /repo and to the executable spec oracle by the correspondence check on seeded histories with multiplicity "
                  "arguments around the current value.",
             note=TB + "Multiplicities are unbounded Z in the model (no 2^32 wrap); no 2^32 wrap of counters.",
             tech="Coq refinement proof (directed and undirected multigraph models -> multiplicity-function spec) + differential correspondence for both classes", ref="DESIGN.md §6 C04"),
 'C05': dict(text="Theorems C05_directed_weighted_consistent and C05_undirected_weighted_consistent (Coq): after any valid history on the DirectedWeightedGraph resp. UndirectedWeightedGraph model hasEdge/getEdgeWeight (throwing or not) answer from the spec "
                  "(weight at creation or last setEdgeWeight, addEdge on a present edge is a no-op, missing edge -> invalid_argument or 0), getEdgeNumber = #edges and getTotalWeight = "
                  "sum of present weights, in exact arithmetic. C05_weight_matrix / C05_*_all_observers: the weight matrix and the whole "
                  "observation vector equal the spec's. Floating point ('within accumulated rounding error otherwise'): C05_float_total_error / _closed_form / _undirected_getter_error / "
                  "_total_exact_on_quarters about FloatTotal, an executable Flocq model of the running long double total (binary64 weights, x87 extended accumulator, double subtraction in "
                  "setEdgeWeight): for every history without overflow |total - exact sum of stored weights| <= the accumulated local rounding errors <= ((1+2^-52)^n - 1) * sum|increments|, "
                  "and no rounding at all for quarter-integer weights (the harness's exact stream). PARTIAL: floating-point bulk removals and overflow are outside. Both classes are tied to /repo and the spec oracle by the correspondence "
                  "check with exactly representable weights k/4 (negative, zero, positive).",
             note=TB + "Class models: weights are exact integers in units of 1/4. Float model: tied to /repo by comparing getTotalWeight() BIT FOR BIT after every call on histories with "
                  "arbitrary double weights; assumes long double = x87 extended and double arithmetic in binary64. The C05_float_* theorems depend on the standard library's real-number "
                  "axioms (ClassicalDedekindReals.sig_forall_dec, sig_not_dec, Classical_Prop.classic, FunctionalExtensionality.functional_extensionality_dep); all other theorems on none.",
             tech="Coq refinement proof (weighted models -> weight-function spec, exact arithmetic) + Flocq proof of the rounding-error bound of the running total + differential correspondence (bit-exact for the float total)", ref="DESIGN.md §6 C05"),
})
CHECKS.update({
 'C09': dict(text="Theorems C09_reversed, C09_reversed_twice, C09_edge_list_constructor (Coq, directed labelled model, every label type): getReversedGraph = exactly the flipped edges with "
                  "their labels on every graph satisfying the invariant; reversing twice is == the original; the edge-list constructor yields 1+max-index vertices (0 for an empty list) and "
                  "the graph of adding the edges one at a time (first label wins), for every list. C09_get_directed_graph / C09_undirected_from_directed / C09_undirected_round_trip (undirected "
                  "model, every label type): getDirectedGraph has both orientations of every edge with the edge's label, undirected-from-directed has {i,j} iff either orientation exists "
                  "(label of the orientation with the smaller source), and undirected->directed->undirected is == the original. C09_*_edge_list_constructor: the constructors of the undirected labelled class (first entry naming the unordered pair wins), "
                  "both multigraphs (multiplicity = sum over the entries naming the pair, zero entries count for the size only) and both weighted graphs (first weight wins), for every "
                  "list. PARTIAL only in that copy construction/assignment are identities in a model of immutable values; they and all constructors through four or five standard "
                  "containers are exercised by the correspondence check.",
             note=TB + "Copy construction/assignment independence is a property of C++ value semantics (identity in the model), exercised under C06.",
             tech="Coq proof (fold-of-addEdge lemmas, directed and undirected -> reversal, double reversal, constructor, both conversions, round trip) + differential correspondence for all conversions/constructors", ref="DESIGN.md §6 C09"),
})
CHECKS.update({
 'C10': dict(text="Theorems C10_subgraph_is_induced / C10_subgraph_with_remap and C10_undirected_subgraph_is_induced / C10_undirected_subgraph_with_remap (Coq, directed and undirected model, every label type): for EVERY duplicate-free iteration order of the unordered_set and "
                  "every subset of in-range vertices, getSubgraph has the size of g and exactly the edges with both endpoints in S with their labels; getSubgraphWithRemap has |S| vertices, "
                  "its map is one-to-one from S onto 0..|S|-1 and the result is the image of the induced subgraph; an out-of-range member gives std::out_of_range. "
                  "Tie: all 2^n subsets (n<=4) of graphs built by seeded histories; the harness reports the real iteration order of "
                  "its unordered_set, and the spec side validates the RETURNED map as a bijection before comparing the image.",
             note=TB + "std::unordered_set iteration order enters as a parameter (oracle) read from the implementation run and validated (duplicate-free, same elements).",
             tech="Coq proof (fold-of-addEdge lemma, all enumeration orders) + differential correspondence on all small subsets", ref="DESIGN.md §6 C10"),
})
CHECKS.update({
 'C11': dict(text="Theorems C11_single_predecessor_search / C11_find_geodesics (Coq): for every well-formed adjacency structure and in-range source, the model of findVertexPredecessors "
                  "(statement by statement: distance/parent/visited vectors, FIFO queue) yields hop minima over ALL walks (sentinel iff unreachable) and parents one hop closer along an edge; "
                  "findGeodesics returns [source], [] or a walk with exactly the minimum number of hops. C11_all_predecessors / C11_find_all_geodesics: findAllVertexPredecessors gives the "
                  "same distances and, per vertex, the duplicate-free list of exactly the in-neighbours one hop closer; findAllGeodesics returns exactly the minimum-length walks, none "
                  "twice; C11_(all_)geodesics_from_vertex: the FromVertex variants return, per destination, what the single-destination functions return. Everything is tied to /repo and to a "
                  "brute-force spec (iterated successor sets, all walks of minimal length) by correspondence on every digraph on <=3 vertices, undirected on <=3-4, families with exponentially many shortest paths and random graphs, all "
                  "source/destination pairs.",
             note=TB + "The searches see a graph only through getOutNeighbours, so one model covers directed and undirected graphs; implementation-chosen values (which parent, which shortest "
                  "path) are validated against the relation rather than fixed.",
             tech="Coq proof (layered-queue BFS invariant; simulation of the all-predecessor search; parent-chain and stack-loop enumeration) + exhaustive small-graph correspondence with a brute-force oracle", ref="DESIGN.md §6 C11, App. A"),
 'C12': dict(text="Theorem C12_dijkstra_correct (Coq): for EVERY pop sequence in which each pop is a worklist member of minimum tentative distance and which empties the worklist - zero "
                  "weights and cycles included - distances are the minimum walk weights (none iff unreachable), the source is its own predecessor, unreachable vertices have none, every "
                  "other vertex v has an edge (p,v,w) with dist[v] = dist[p] + w, and at most 1+E pops happen; C12_progress: a legal pop always exists. Floating point: C12_generic_dijkstra (the same search over an abstract distance type with a monotone, inflationary "
                  "extension operator yields minimal path costs - no cancellation law needed) instantiated with binary64 and one rounded addition per relaxation (FloatDj.fdj_run, "
                  "executable): C12_float_distances / _predecessors / _distances_schedule_independent / _rounding_bound (within (1 -+ 2^-53)^(n-1) of the true real minimum) / "
                  "_exact_on_quarters (exact for quarter-integer weights). Tie: the harness records the pop "
                  "sequence of the real search on a counting graph type; the model replays it (rejecting any non-minimal pop) and compares distances exactly; the spec side uses Bellman-Ford "
                  "and validates the returned predecessor vector.",
             note=TB + "std::make_heap/pop_heap are not modelled: any legal choice is admitted. First group of theorems: exact arithmetic (weights k/4). Float group: tied to /repo by comparing "
                  "the distances BIT FOR BIT on graphs with arbitrary non-negative double weights; overflow to infinity and negative weights are outside; the C12_float_* theorems depend "
                  "on the standard library's real-number axioms (ClassicalDedekindReals.sig_forall_dec, sig_not_dec, Classical_Prop.classic, "
                  "FunctionalExtensionality.functional_extensionality_dep), the others on none.",
             tech="Coq proof (label-correcting invariant + greedy lemma, choice-driven; generic over monotone inflationary path costs; Flocq rounding bound) + correspondence replaying the implementation's pop sequence (bit-exact for double weights)", ref="DESIGN.md §6 C12, App. A"),
 'C19': dict(text="Theorems C19_single_predecessor_scans (<= V scans, fuel V suffices), C19_all_predecessors_scans (<= V scans for findAllVertexPredecessors) and C19_dijkstra_scans (<= 1+E "
                  "pops for any legal run) (Coq). Tie: the getOutNeighbours calls of the three searches on a counting graph type are compared with "
                  "the model counters and with V, V+E, V+E+1 on layered/grid families (exponentially many shortest paths), zero-weight cycles and random graphs, plus a change-directed "
                  "hill-climb on scans/bound over (weighted) digraphs evaluated on the implementation. The exponential behaviour "
                  "of the pinned commit is kept as a kernel-checked example (47 scans > V+E = 26 on 4 layers of width 2).",
             note=TB + "Only neighbourhood scans are counted, as the property states; heap maintenance cost is outside it.",
             tech="Coq proof (fuel = bound; simulation for the all-predecessor search; potential argument for Dijkstra) + scan counting on instrumented graph types with a hill-climbing search", ref="DESIGN.md §6 C19"),
})
CHECKS.update({
 'C13': dict(text="Theorems C13_tokeniser_two_tokens / C13_tokeniser_label_text / C13_index_round_trip (Coq): the model of findEdgeFromString (npos arithmetic verbatim) returns the two "
                  "vertex tokens for EVERY line ws* tok ws+ tok ws*, and hands everything after the following whitespace to the label parser; std::stoi(std::to_string(n)) = n for n < 2^31. "
                  "C13_file_round_trip(_undirected): writing any graph with int labels in [0,2^31) (<= 3001 vertices: harness limit of the loader model) and loading the bytes gives, after "
                  "resize, a graph == the original (directed: identical lists). C13_(name_)loader_on_wellformed_files / C13_name_table / C13_name_loader_accepts_exactly: on ANY well-formed file (comments anywhere, any blanks, optional label text) "
                  "both loaders return exactly the graph of the edge lines in order, names are numbered in order of first appearance with names[index x] = x, and the name loader accepts "
                  "exactly the well-formed files. Tie: grammar-generated well-formed "
                  "files (comments, tabs/spaces anywhere, names, int and string labels) against the model and an independent reading of the format; written files byte-for-byte against "
                  "the model writer and reloaded == original.",
             note=TB + "std::getline, std::string::find_first_of/substr, std::stoi and std::to_string are modelled by hand-written byte-list functions (validated by the correspondence).",
             tech="Coq proof (tokeniser on all well-formed lines, decimal round trip, write-then-load round trip) + grammar-based differential correspondence", ref="DESIGN.md §6 C13"),
 'C14': dict(text="Theorems C14_codec / C14_record_layout / C14_load_of_encoded_records (Coq): fixed-width little-endian codec with exact round trip, every record is 4+4+w bytes in that "
                  "layout, a file of n records has n*(8+w) bytes, and loading the encoding of ANY record list (any order) yields the graph of exactly those records. PARTIAL: 'the writer "
                  "emits one record per edge', graph equality after resize and std::runtime_error on unopenable files are checked by correspondence (multiset of records vs model and spec, "
                  "reload == original, all label widths incl. float/double bit patterns).",
             note=TB + "Little-endian host assumed; ifstream::read modelled as take-n-or-fail.",
             tech="Coq proof (codec, layout, decode-encode on record lists, graph-level write-load round trip) + differential correspondence on written and hand-made files", ref="DESIGN.md §6 C14"),
 'C15': dict(text="Theorems C15_truncated_binary (Coq): for every record list, label width and EVERY cut offset, the repaired loader returns exactly the graph of the complete records before "
                  "the cut; C15_text_loaders_total: for EVERY byte string both text loaders end with a graph or a C++ exception (the model never reaches an unchecked index); "
                  "C15_text_loader_invents_nothing / C15_name_loader_invents_nothing: every edge of a returned graph comes from a non-comment line whose first two tokens denote its endpoints. The pinned "
                  "loader's invented edge is kept as a kernel-checked example. Tie: every cut offset of generated binary files and a separate malformed-text stream, under ASan+UBSan and _GLIBCXX_ASSERTIONS; a "
                  "crash, sanitizer report or failed library assertion is reported as a violation with the input as replay.",
             note=TB + "Memory safety itself is a runtime notion: the model proves definedness of its checked accesses; the sanitizer-instrumented correspondence exhibits the rest. "
                  "Vertex indices above 3000 are outside the harness ('small enough to allocate').",
             tech="Coq proof (parser on all prefixes; totality of the text loaders) + exhaustive cut-offset and malformed-input correspondence under sanitizers", ref="DESIGN.md §6 C15"),
})
CHECKS.update({
 'C17': dict(text="PARTIAL. Theorems C17_directed_calls_defined / C17_undirected_calls_defined / C17_constructor_and_iteration / C17_loaders_defined (Coq): from ANY state with size-many "
                  "adjacency lists (every constructor gives one, every call keeps it) NO call of the directed or undirected class model - any arguments, valid or not, any flags - ends in "
                  "the model's undefined-behaviour outcome (unchecked index, dereferenced end(), exhausted loop); begin()..end() traversal, hasEdge and getOutNeighbours are defined; the "
                  "binary and both text loaders are defined on EVERY byte string; the same for every call of both multigraphs and both weighted graphs, every observer of the six classes "
                  "(three enumerating observers need, and every call keeps, the range invariant WF), every path search and Dijkstra with the repaired range checks (out-of-range -> "
                  "std::out_of_range), edge-list constructors, conversions, reversal and subgraphs. The C++ object model (iterator invalidation, lifetimes, uninitialised memory, library preconditions) "
                  "cannot be carried by a Gallina model: it is exhibited by running a sample of all other checks' cases in a build matrix (g++ -O1 ASan+UBSan as base, g++ -O0 with "
                  "_GLIBCXX_DEBUG, g++ -O2 with _GLIBCXX_ASSERTIONS, clang++ -O2 ASan+UBSan; thorough adds clang++ -O0 debug STL, g++ -O3 sanitised, valgrind memcheck): the base run must "
                  "agree with the Coq models, every other configuration must finish every case normally and print the same bytes.",
             note=TB + "Runtime behaviour not covered by proof: everything the sanitizers / checked STL / valgrind instrument, on the generated cases only.",
             tech="Coq proof (no model call reaches the UB outcome; loaders total) + build-matrix differential execution under sanitizers and checked STL", ref="DESIGN.md §6 C17"),
 'C18': dict(text="PARTIAL. Theorems C18_readers_deterministic / C18_shared_graph_unchanged (Coq): in the interleaving semantics of ConcModel - any number of reader threads, any scripts over "
                  "the const entry points (all observers and iteration, ==, copy, reversal/conversions, subgraph extraction, path searches, writers), ANY schedule - the shared graph never "
                  "changes and a thread that has finished holds exactly its single-threaded results. The memory-level claim 'no data race' has no counterpart in a Gallina value: it is "
                  "exhibited by reader threads (2-8, thorough 16) hammering one shared object built from a seeded history, under ThreadSanitizer; thread results are compared with the "
                  "single-threaded ones, and the single-threaded observation with the Coq model and spec, before and after.",
             note=TB + "Runtime behaviour not covered by proof: the C++ memory model; schedules not exercised by the run; interleavings finer than one call.",
             tech="Coq proof (any-schedule determinism of read-only scripts in an interleaving model) + ThreadSanitizer differential run of reader threads", ref="DESIGN.md §6 C18"),
})
NA = {'C20': "about the C++ type checker/linker accepting client programs (template instantiation, overload resolution, ODR): no executable Gallina model has a counterpart, so machine-checked proof cannot apply (DESIGN.md §6 C20)"}
def main():
    props = [json.loads(l)['id'] for l in open(os.path.join(ROOT, 'properties.jsonl'))]
    checks = []
    for pid in props:
        if pid in CHECKS:
            c = CHECKS[pid]
            checks.append({"property_id": pid, "quick_cmd": "./check %s --tier quick" % pid, "thorough_cmd": "./check %s --tier thorough" % pid,
                           "evidence_file": "evidence/%s.json" % pid, "replay_cmd_template": "./check replay {path}", "engine": "coq-correspondence",
                           "level_claimed": {"category": "proof", "text": c['text'], "design_ref": c['ref']}, "level_note": c['note'], "technique": c['tech']})
    na = [{"property_id": p, "reason": NA.get(p, "check still under construction in this framework (model/theorems not yet committed); see DESIGN.md §6")} for p in props if p not in CHECKS]
    m = {"version": 1, "setup_cmd": "./setup.sh",
         "hooks": {"guard": "BASEGRAPH_VERIF", "enable": "no hooks in /repo: the checks compile /verif/harness/*.cpp against /repo/include (public API, derived probe classes, instrumented graph types)",
                   "baseline_off_cmd": "cmake --build /repo/_build && ctest --test-dir /repo/_build -j8 --timeout 900", "source_commits": [], "add_only": True},
         "engines": [{"name": "coq-correspondence", "path": "check", "serves_properties": sorted(CHECKS), "kind_free_text": "Coq 8.16 development (coq/theories) + extracted OCaml model/spec oracle (ocaml/) + C++ harnesses against /repo/include (harness/) + seeded generators (gen/)"}],
         "checks": checks, "not_applicable": na,
         "notes": "Repairs of genuine defects are 'fix:' commits in /repo, listed in known_findings.json (kind=fixed) with their inputs in corpus/."}
    json.dump(m, open(os.path.join(ROOT, 'MANIFEST.json'), 'w'), indent=1)
main()
