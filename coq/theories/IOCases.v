(* Case functions of the file routines for the correspondence driver.  Definitions only. *)
From Coq Require Import List Arith NArith ZArith Lia Bool.
From BG Require Import Base DirectedModel UndirectedModel IOModel PathsCases.
Import ListNotations.
Local Open Scope Z_scope.

(* observation of a loaded graph: size / edge count; every neighbour list in its stored order (length, entries); the label of every list entry *)
Definition zN (n : N) : Z := Z.of_N n.
Definition io_obs {L} (und : bool) (lab : L -> list Z) (ldef : L) (g : @dgraph L) : list (list Z) :=
  [ [Z.of_nat (size g); enum g];
    flat_map (fun l => Z.of_nat (length l) :: map Z.of_nat l) (adj g);
    flat_map (fun il => flat_map (fun j => lab (match lfind (if und then ordered (fst il) j else (fst il, j)) (labels g) with Some l => l | None => ldef end)) (snd il))
             (combine (seq 0 (length (adj g))) (adj g)) ].
Definition io_err {A} (f : A -> list (list Z)) (o : outcome A) : list (list Z) :=
  match o with Val a => f a | Raise e => [[match e with StdOutOfRange => zexn OutOfRange | StoiRange => zexn OutOfRange | StoiInvalid => zexn InvalidArgument | _ => zexn e end]] | Undef _ => [[zub]] end.

(* ---- binary ---- *)
Definition bin_load_case (v : variant) (und : bool) (w : nat) (b : list N) : list (list (list Z)) :=
  [ io_err (io_obs und (fun l => if Nat.eqb w 0 then [] else [zN l]) 0%N) (load_binary v und w b) ].
(* spec: exactly the complete records, added one at a time (forced), on 1 + max index vertices *)
Definition bin_load_spec (v : variant) (und : bool) (w : nat) (b : list N) : list (option (list (list Z))) :=
  let rs := firstn (length b / (8 + w)) (parse_records (S (length b)) w b) in
  [ Some (io_err (io_obs und (fun l => if Nat.eqb w 0 then [] else [zN l]) 0%N) (build_graph v und w rs)) ].
Definition rec_leb (a b : brecord) : bool := let '(s1, d1, _) := a in let '(s2, d2, _) := b in (s1 <? s2)%N || ((s1 =? s2)%N && (d1 <=? d2)%N).
Definition zbytes (b : list N) : list Z := map zN b.
Definition bin_write_case (v : variant) (und : bool) (w : nat) (g : option (@dgraph N)) (n : nat) : list (list (list Z)) :=
  match g with None => [] | Some g =>
    [ io_err (fun rs => [zbytes (enc_records w (sort_by rec_leb rs))]) (records_of v und w g);
      io_err (fun h => [[1]] ++ io_obs und (fun l => if Nat.eqb w 0 then [] else [zN l]) 0%N h)
             (obind (write_binary v und w g) (fun b => load_binary v und w b)) ] end.

(* ---- text ---- *)
Definition zname (b : list N) : list Z := Z.of_nat (length b) :: zbytes b.
Definition text_obs {L} (und : bool) (lab : L -> list Z) (ldef : L) (r : @dgraph L * list (list N)) : list (list Z) :=
  io_obs und lab ldef (fst r) ++ [flat_map zname (snd r)].
Inductive tlabel := TNone | TInt | TStr.
(* the label parsers the harness passes: none -> EdgeLabel(); int -> std::stoi (exceptions propagate); str -> the text itself *)
Definition text_load_case (v : variant) (und strict names : bool) (lk : tlabel) (b : list N) : list (list (list Z)) :=
  match lk with
  | TNone => [ io_err (text_obs und (fun _ : Z => []) 0) ((if names then load_text_names v und false (fun _ => Val 0) else load_text v und strict false (fun _ => Val 0)) b) ]
  | TInt => [ io_err (text_obs und (fun z : Z => [z]) 0) ((if names then load_text_names v und true stoi else load_text v und strict true stoi) b) ]
  | TStr => [ io_err (text_obs und (fun s : list N => zname s) []) ((if names then load_text_names v und true (fun s => Val s) else load_text v und strict true (fun s => Val s)) b) ] end.

(* an independent reading of the documented format, used as the spec for WELL-FORMED files only: a data line is
   ws* token ws+ token (ws+ rest)?, vertex tokens are plain decimal numbers (or arbitrary names), comment lines start with '#' *)
Fixpoint split_ws (b : list N) (cur : list N) : list (list N) :=            (* maximal runs of non-whitespace *)
  match b with [] => (match cur with [] => [] | _ => [rev cur] end)
  | c :: t => if is_ws c then (match cur with [] => split_ws t [] | _ => rev cur :: split_ws t [] end) else split_ws t (c :: cur) end.
Fixpoint drop_token (b : list N) : list N := match b with c :: t => if is_ws c then b else drop_token t | [] => [] end.
Definition rest_after_two (line : list N) : list N := drop_ws (drop_token (drop_ws (drop_token (drop_ws line)))).
Definition all_digits (t : list N) : bool := (match t with [] => false | _ => true end) && forallb is_digit t && Nat.leb (length t) 9.
Definition dec_value (t : list N) : nat := fold_left (fun acc c => (acc * 10 + N.to_nat (c - 48))%nat) t 0%nat.
Record tline := { tl_a : list N; tl_b : list N; tl_rest : list N }.
Definition spec_lines (b : list N) : option (list tline) :=       (* None: some line is not of the documented form *)
  fold_right (fun line acc => match acc with None => None | Some ls =>
      match line with
      | 35%N :: _ => Some ls
      | _ => match split_ws line [] with t1 :: t2 :: _ => Some ({| tl_a := t1; tl_b := t2; tl_rest := rest_after_two line |} :: ls) | _ => None end end end)
    (Some []) (lines_of b []).
Definition spec_graph_of_lines {L} (v : variant) (und hs : bool) (idx : list N -> nat) (lab : list N -> L) (ls : list tline) : outcome (@dgraph L * list (list N)) :=
  fold_left (fun acc l => obind acc (fun hn =>
      let i := idx (tl_a l) in let j := idx (tl_b l) in let big := Nat.max i j in
      let h1 := if Nat.leb (size (fst hn)) big then fst (resize (fst hn) (S big)) else fst hn in
      let names := snd hn ++ repeat [] (S big - length (snd hn)) in
      omap (fun h2 => (h2, set_name j (tl_b l) (set_name i (tl_a l) names)))
           (DirectedModel.lift (if und then u_add_edge hs v h1 i j (lab (tl_rest l)) true else add_edge hs v h1 i j (lab (tl_rest l)) true)))) ls (Val (init 0, [])).
Fixpoint first_index (names : list (list N)) (t : list N) (i : nat) : nat := match names with [] => i | x :: r => if beq t x then i else first_index r t (S i) end.
Definition name_order (ls : list tline) : list (list N) :=
  fold_left (fun acc l => let acc1 := if existsb (beq (tl_a l)) acc then acc else acc ++ [tl_a l] in if existsb (beq (tl_b l)) acc1 then acc1 else acc1 ++ [tl_b l]) ls [].
Definition small_int (t : list N) : bool :=         (* a label text std::stoi reads back exactly: optional '-', then 1-9 digits *)
  match t with 45%N :: r => all_digits r | _ => all_digits t end.
Definition int_value (t : list N) : Z := match t with 45%N :: r => - Z.of_nat (dec_value r) | _ => Z.of_nat (dec_value t) end.
Definition text_load_spec (v : variant) (und names : bool) (lk : tlabel) (b : list N) : list (option (list (list Z))) :=
  match spec_lines b with
  | None => [None]
  | Some ls =>
    let order := name_order ls in
    let idx := if names then (fun t => first_index order t 0) else dec_value in
    let ok_vertices := names || forallb (fun l => all_digits (tl_a l) && all_digits (tl_b l) && Nat.leb (dec_value (tl_a l)) 3000 && Nat.leb (dec_value (tl_b l)) 3000) ls in
    if negb ok_vertices then [None] else
    match lk with
    | TNone => [Some (io_err (text_obs und (fun _ : Z => []) 0) (spec_graph_of_lines v und false idx (fun _ => 0) ls))]
    | TInt => if forallb (fun l => small_int (tl_rest l)) ls
              then [Some (io_err (text_obs und (fun z : Z => [z]) 0) (spec_graph_of_lines v und true idx int_value ls))] else [None]
    | TStr => [Some (io_err (text_obs und (fun s : list N => zname s) []) (spec_graph_of_lines v und true idx (fun s => s) ls))] end end.

(* writers: the text of a graph, and the round trip *)
Definition text_write_case (v : variant) (und : bool) (lk : tlabel) (g : option (@dgraph Z)) : list (list (list Z)) :=
  match g with None => [] | Some g =>
    let hs := match lk with TNone => false | _ => true end in
    let txt := write_text v und 0 hs (fun z : Z => to_string (Z.to_N z)) g in
    [ io_err (fun b => [zbytes b]) txt;
      io_err (fun e => [[zbool e]]) (obind txt (fun b => obind (load_text v und true hs (if hs then stoi else fun _ => Val 0) b) (fun hn =>
          obind (DirectedModel.lift (resize (fst hn) (Nat.max (size (fst hn)) (size g)))) (fun h' => graph_eqb Z.eqb h' g)))) ] end.
