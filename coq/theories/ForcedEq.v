(* C16, last clause: after a history of forced insertions, removeDuplicateEdges gives a graph that is == to the one the same history
   builds without force - exactly when, for every pair, the LAST label given (kept by the forced run) equals the FIRST one (kept by
   the unforced run).  Directed model first, undirected model second. *)
From BG Require Import Base DirectedModel DirectedProofs DirectedIter DirectedUsers DirectedSpec DirectedRefine DirectedObs Equality
  UndirectedModel UndirectedProofs UndirectedIter UndirectedSpec UndirectedRefine Forced UForced.
Local Open Scope Z_scope.
Local Arguments Z.of_nat : simpl never.

Section Hist.
Context {L : Type}.
(* an insertion: the pair and the label *)
Definition ins := (edge * L)%type.
Fixpoint first_lab (e : edge) (ops : list ins) : option L :=
  match ops with [] => None | o :: t => if edge_eqb (fst o) e then Some (snd o) else first_lab e t end.
Fixpoint last_lab (e : edge) (ops : list ins) : option L :=
  match ops with [] => None | o :: t => match last_lab e t with Some l => Some l | None => if edge_eqb (fst o) e then Some (snd o) else None end end.
Definition in_rng (n : nat) (ops : list ins) : Prop := forall o, In o ops -> (fst (fst o) < n)%nat /\ (snd (fst o) < n)%nat.
Lemma in_rng_cons n o t : in_rng n (o :: t) -> ((fst (fst o) < n)%nat /\ (snd (fst o) < n)%nat) /\ in_rng n t.
Proof. intros H. split; [apply H; simpl; auto|intros x Hx; apply H; simpl; auto]. Qed.
Lemma first_lab_some e ops : first_lab e ops <> None <-> exists l, In (e, l) ops.
Proof. induction ops as [|[k v] t IH]; cbn [first_lab fst snd In]; [split; [congruence|intros [l []]]|].
  destruct (edge_eqb_spec k e) as [->|Ne].
  - split; [intros _; exists v; auto|congruence].
  - rewrite IH. split; intros [l H]; exists l; auto. destruct H as [E|H]; auto. congruence. Qed.
Lemma last_lab_some e ops : last_lab e ops <> None <-> exists l, In (e, l) ops.
Proof. induction ops as [|[k v] t IH]; cbn [last_lab fst snd In]; [split; [congruence|intros [l []]]|].
  destruct (last_lab e t) as [l'|].
  - split; [intros _|congruence]. destruct (proj1 IH) as [l H]; [congruence|]. exists l; auto.
  - destruct (edge_eqb_spec k e) as [->|Ne].
    + split; [intros _; exists v; auto|congruence].
    + split; [congruence|]. intros [l [E|H]]; [congruence|]. apply IH. exists l; auto. Qed.
End Hist.

(* ================= directed ================= *)
Section ForcedEqD.
Context {L : Type}.
Variable leqb : L -> L -> bool.
Variable hs : bool.
Notation dgraph := (@dgraph L).
Implicit Types g : dgraph.
Notation ins := (@ins L).
Definition adds (f : bool) (ops : list ins) : list (@dop L) := map (fun o => AddEdge (fst (fst o)) (snd (fst o)) (snd o) f) ops.

(* all insertions forced: every one lands; the label of a pair is the last one given *)
Lemma run_forced ops : forall g, WInv hs g -> in_rng (size g) ops ->
  exists g', run hs repaired g (adds true ops) = (g', Done) /\ WInv hs g' /\ size g' = size g /\
    (forall i j, In j (nb g' i) <-> In j (nb g i) \/ exists l, In ((i, j), l) ops) /\
    (forall e, lfind e (labels g') = match (if hs then last_lab e ops else None) with Some l => Some l | None => lfind e (labels g) end).
Proof.
  induction ops as [|[[s d] l] t IH]; intros g I R; cbn [adds map run].
  - exists g. split; auto. split; auto. split; auto. split; [intros i j; split; auto; intros [H|[l []]]; auto|].
    intros e. cbn [last_lab]. destruct hs; reflexivity.
  - apply in_rng_cons in R as [[Hs Hd] R]. cbn [fst snd] in Hs, Hd |- *. cbn [step].
    destruct (forced_add_spec hs g s d l I Hs Hd) as [g1 [E1 [I1 [S1 [_ [C1 [_ L1]]]]]]]. rewrite E1.
    destruct (IH g1 I1) as [g' [E' [I' [S' [M' L']]]]]; [rewrite S1; exact R|].
    fold (adds true t). rewrite E'. exists g'. split; auto. split; auto. split; [congruence|]. split.
    + intros i j. rewrite M'. rewrite (count_In j (nb g1 i)), C1, (count_In j (nb g i)).
      destruct (Nat.eqb_spec i s) as [->|Ni], (Nat.eqb_spec j d) as [->|Nj]; cbn [andb In]; split.
      * intros _. right. exists l; auto.
      * intros _. left; lia.
      * intros [H|[l' H]]; [left; lia|right; exists l'; auto].
      * intros [H|[l' [H|H]]]; [left; lia|congruence|right; exists l'; auto].
      * intros [H|[l' H]]; [left; lia|right; exists l'; auto].
      * intros [H|[l' [H|H]]]; [left; lia|congruence|right; exists l'; auto].
      * intros [H|[l' H]]; [left; lia|right; exists l'; auto].
      * intros [H|[l' [H|H]]]; [left; lia|congruence|right; exists l'; auto].
    + intros e. rewrite L', L1. cbn [last_lab fst snd]. destruct hs; cbn [andb]; [|reflexivity].
      destruct (last_lab e t); auto. destruct (edge_eqb (s, d) e); reflexivity.
Qed.

(* no insertion forced: a pair is inserted once; its label is the first one given *)
Lemma run_unforced ops : forall g, Inv hs g -> in_rng (size g) ops ->
  exists g', run hs repaired g (adds false ops) = (g', Done) /\ Inv hs g' /\ size g' = size g /\
    (forall i j, In j (nb g' i) <-> In j (nb g i) \/ exists l, In ((i, j), l) ops) /\
    (forall e, lfind e (labels g') = match lfind e (labels g) with Some v => Some v | None => if hs then first_lab e ops else None end).
Proof.
  induction ops as [|[[s d] l] t IH]; intros g I R; cbn [adds map run].
  - exists g. split; auto. split; auto. split; auto. split; [intros i j; split; auto; intros [H|[l []]]; auto|].
    intros e. cbn [first_lab]. destruct (lfind e (labels g)); destruct hs; reflexivity.
  - apply in_rng_cons in R as [[Hs Hd] R]. cbn [fst snd] in Hs, Hd |- *. cbn [step].
    pose proof (add_edge_spec hs g s d l I Hs Hd) as AS. destruct (add_edge hs repaired g s d l false) as [g1 r1].
    destruct AS as [-> [I1 [S1 [M1 L1]]]].
    destruct (IH g1 I1) as [g' [E' [I' [S' [M' L']]]]]; [rewrite S1; exact R|].
    fold (adds false t). rewrite E'. exists g'. split; auto. split; auto. split; [congruence|]. split.
    + intros i j. rewrite M', M1. cbn [In]. split.
      * intros [[H|[-> ->]]|[l' H]]; auto; right; [exists l|exists l']; auto.
      * intros [H|[l' [H|H]]]; auto; [injection H as -> -> ->; auto|right; exists l'; auto].
    + intros e. rewrite L', L1. cbn [first_lab fst snd]. pose proof (i_lab _ _ I) as IL.
      destruct hs; cbn [andb].
      * destruct (edge_eqb_spec (s, d) e) as [<-|Ne]; cbn [andb]; [|reflexivity].
        destruct (mem d (nb g s)) eqn:M; cbn [negb].
        -- apply mem_In, IL in M. destruct (lfind (s, d) (labels g)); [reflexivity|congruence].
        -- destruct (lfind (s, d) (labels g)) eqn:F; [|reflexivity]. exfalso. apply mem_false in M. apply M, IL. congruence.
      * destruct (lfind e (labels g)); reflexivity.
Qed.

(* the side condition: for every pair inserted, the last label given compares equal to the first one (vacuous without a label store) *)
Definition labels_settle (ops : list ins) : Prop :=
  hs = true -> forall e lf lu, last_lab e ops = Some lf -> first_lab e ops = Some lu -> leqb lf lu = true.

Theorem forced_dedup_eqb n (ops : list ins) : in_rng n ops ->
  exists gf gd gu b,
    run hs repaired (init n) (adds true ops) = (gf, Done) /\ remove_duplicates gf = (gd, Done) /\
    run hs repaired (init n) (adds false ops) = (gu, Done) /\
    graph_eqb leqb gd gu = Val b /\ (b = true <-> labels_settle ops).
Proof.
  intros R. assert (I0 : Inv hs (@init L n)) by (destruct (@init_refines L hs n) as [X _ _ _]; exact X).
  assert (NB0 : forall i, nb (@init L n) i = []) by (intros i; unfold nb, init; cbn [adj]; apply nth_repeat).
  destruct (run_forced ops (init n) (Inv_WInv hs _ I0) R) as [gf [Ef [If [Sf [Mf Lf]]]]].
  destruct (remove_duplicates_spec hs gf If) as [gd [Ed [Id [Sd [Ld [_ [Md _]]]]]]].
  destruct (run_unforced ops (init n) I0 R) as [gu [Eu [Iu [Su [Mu Lu]]]]].
  assert (Kf : KeysOK gf). { pose proof (keys_run hs repaired (adds true ops) (init n)) as K. rewrite Ef in K. apply K. constructor. }
  assert (Kd : KeysOK gd) by (unfold KeysOK; rewrite Ld; exact Kf).
  assert (Ku : KeysOK gu). { pose proof (keys_run hs repaired (adds false ops) (init n)) as K. rewrite Eu in K. apply K. constructor. }
  destruct (graph_eqb_spec leqb hs gd gu Id Iu Kd Ku) as [b [EB HB]].
  exists gf, gd, gu, b. split; auto. split; auto. split; auto. split; auto.
  assert (SE : same_edges gd gu). { intros i j. rewrite Md, Mf, Mu. reflexivity. }
  rewrite HB. split.
  - intros [_ [_ LA]] HS e lf lu F1 F2. apply (LA e lf lu).
    + rewrite Ld, Lf, HS, F1. reflexivity.
    + rewrite Lu, HS, F2. reflexivity.
  - intros LS. split; [congruence|]. split; auto. intros e v v' F1 F2. rewrite Ld, Lf in F1. rewrite Lu in F2. cbn [init labels lfind] in F1, F2.
    destruct hs eqn:HS; [|discriminate]. destruct (last_lab e ops) as [lf|] eqn:F; [|discriminate]. injection F1 as <-. apply (LS HS e lf v'); auto.
Qed.

(* sufficient: every repeated insertion of a pair carries a label equal to the one already given / there is no label store *)
Definition same_labels (ops : list ins) : Prop := forall e l1 l2, In (e, l1) ops -> In (e, l2) ops -> leqb l1 l2 = true.
Lemma first_lab_In e (ops : list ins) l : first_lab e ops = Some l -> In (e, l) ops.
Proof. induction ops as [|[k v] t IH]; cbn [first_lab fst snd]; [discriminate|]. destruct (edge_eqb_spec k e) as [->|]; [intros H; injection H as ->; simpl; auto|simpl; auto]. Qed.
Lemma last_lab_In e (ops : list ins) l : last_lab e ops = Some l -> In (e, l) ops.
Proof. induction ops as [|[k v] t IH]; cbn [last_lab fst snd]; [discriminate|]. destruct (last_lab e t); [intros H; right; auto|].
  destruct (edge_eqb_spec k e) as [->|]; [intros H; injection H as ->; simpl; auto|discriminate]. Qed.
Lemma same_labels_settle ops : same_labels ops -> labels_settle ops.
Proof. intros H _ e lf lu F1 F2. apply (H e); [apply last_lab_In|apply first_lab_In]; auto. Qed.

Corollary forced_dedup_equals_unforced n (ops : list ins) : in_rng n ops -> (hs = false \/ same_labels ops) ->
  exists gf gd gu,
    run hs repaired (init n) (adds true ops) = (gf, Done) /\ remove_duplicates gf = (gd, Done) /\
    run hs repaired (init n) (adds false ops) = (gu, Done) /\ graph_eqb leqb gd gu = Val true.
Proof. intros R C. destruct (forced_dedup_eqb n ops R) as [gf [gd [gu [b [A [B [D [E H]]]]]]]]. exists gf, gd, gu. split; auto. split; auto. split; auto.
  rewrite E. f_equal. apply H. destruct C as [C|C]; [intros HS; congruence|apply same_labels_settle; auto]. Qed.
End ForcedEqD.

(* different labels on a repeated pair: the forced run keeps the LAST label, the unforced run the FIRST, and == says no *)
Example forced_dedup_label_counterexample :
  let ops := [((0, 1)%nat, 7); ((0, 1)%nat, 9)] in
  let '(gf, _) := run true repaired (init 2) (adds true ops) in
  let '(gd, _) := remove_duplicates gf in
  let '(gu, _) := run true repaired (init 2) (adds false ops) in
  lfind (0, 1)%nat (labels gd) = Some 9 /\ lfind (0, 1)%nat (labels gu) = Some 7 /\ adj gd = adj gu /\ enum gd = enum gu /\
  graph_eqb Z.eqb gd gu = Val false.
Proof. vm_compute. repeat split; reflexivity. Qed.
Example forced_dedup_same_label_example :
  let ops := [((0, 1)%nat, 7); ((1, 1)%nat, 3); ((0, 1)%nat, 7); ((1, 1)%nat, 3); ((1, 1)%nat, 3)] in
  let '(gf, _) := run true repaired (init 2) (adds true ops) in
  let '(gd, _) := remove_duplicates gf in
  let '(gu, _) := run true repaired (init 2) (adds false ops) in
  enum gf = 5 /\ enum gd = 2 /\ graph_eqb Z.eqb gd gu = Val true.
Proof. vm_compute. repeat split; reflexivity. Qed.

(* ================= undirected ================= *)
(* operator== on two graphs satisfying the UNDIRECTED invariant (the verdict of Equality.graph_eqb_spec, re-proved for InvU:
   the cached edge number counts unordered pairs and the labels are keyed by ordered pairs) *)
Lemma cnt_perm i (l l' : list nat) : NoDup l -> NoDup l' -> (forall x, In x l <-> In x l') -> cnt i l = cnt i l'.
Proof. intros N N' H. unfold cnt. f_equal. apply Permutation_length, NoDup_Permutation; try apply NoDup_filter; auto.
  intros x. rewrite !filter_In, H. tauto. Qed.
Lemma utotal_from_ext : forall (a a' : list (list nat)) k, length a = length a' ->
  (forall i, NoDup (nth i a [])) -> (forall i, NoDup (nth i a' [])) -> (forall i x, In x (nth i a []) <-> In x (nth i a' [])) ->
  utotal_from k a = utotal_from k a'.
Proof. induction a as [|r t IH]; intros [|r' t'] k LEN N N' H; cbn [length utotal_from] in *; try lia.
  rewrite (cnt_perm k r r' (N 0%nat) (N' 0%nat) (H 0%nat)). f_equal. apply IH; [lia|intros i; apply (N (S i))|intros i; apply (N' (S i))|intros i; apply (H (S i))]. Qed.

Section EqU.
Context {L : Type}.
Variable leqb : L -> L -> bool.
Variable hs : bool.
Notation dgraph := (@dgraph L).
Implicit Types g h : dgraph.
Notation InvU := (@InvU L hs).

Lemma eq_rows_val_u g h : InvU g -> InvU h -> size g = size h -> forall vs, (forall i, In i vs -> (i < size g)%nat) ->
  eq_rows g h vs = Val (forallb (rows_agree g h) vs).
Proof.
  intros Ig Ih S. induction vs as [|i t IH]; intros R; cbn [eq_rows forallb]; auto.
  assert (Hi : (i < size g)%nat) by (apply R; simpl; auto).
  assert (Hi' : (i < length (adj g))%nat) by (rewrite (u_len _ _ Ig); auto).
  assert (Hi'' : (i < length (adj h))%nat) by (rewrite (u_len _ _ Ih), <- S; auto).
  rewrite (nth_error_nth' _ [] Hi'), (nth_error_nth' _ [] Hi''). fold (nb g i) (nb h i).
  rewrite (all_edges_in_val h i (nb g i) (u_len _ _ Ih)); [|rewrite <- S; auto|intros j Hj; apply (u_rng _ _ Ig) in Hj; lia]. cbn [obind].
  unfold rows_agree at 1. destruct (forallb (fun j => mem j (nb h i)) (nb g i)); cbn [andb]; auto.
  rewrite (all_edges_in_val g i (nb h i) (u_len _ _ Ig) Hi); [|intros j Hj; apply (u_rng _ _ Ih) in Hj; lia]. cbn [obind].
  destruct (forallb (fun j => mem j (nb g i)) (nb h i)); cbn [andb]; auto. apply IH. intros; apply R; simpl; auto.
Qed.
Lemma rows_agree_all_u g h : InvU g -> InvU h -> size g = size h ->
  (forallb (rows_agree g h) (seq 0 (size g)) = true <-> same_edges g h).
Proof.
  intros Ig Ih S. rewrite forallb_forall. split.
  - intros H i j. destruct (Nat.lt_ge_cases i (size g)) as [Hi|Hi].
    + specialize (H i (proj2 (in_seq _ _ _) (conj (Nat.le_0_l _) Hi))). unfold rows_agree in H. apply andb_prop in H as [A B].
      rewrite forallb_forall in A, B. split; intros X; [apply mem_In, A|apply mem_In, B]; auto.
    + split; intros X; [apply (u_rng _ _ Ig) in X|apply (u_rng _ _ Ih) in X]; lia.
  - intros H i _. unfold rows_agree. apply andb_true_intro; split; apply forallb_forall; intros j Hj; apply mem_In, H; auto.
Qed.
Lemma same_edges_enum_u g h : InvU g -> InvU h -> size g = size h -> same_edges g h -> enum g = enum h.
Proof. intros Ig Ih S E. rewrite (u_enum _ _ Ig), (u_enum _ _ Ih). unfold utotal. apply utotal_from_ext.
  - rewrite (u_len _ _ Ig), (u_len _ _ Ih); auto.
  - intros i; apply (u_nodup _ _ Ig).
  - intros i; apply (u_nodup _ _ Ih).
  - intros i x; apply (E i x). Qed.
Lemma lmap_eqb_iff_u g h : InvU g -> InvU h -> KeysOK g -> KeysOK h -> same_edges g h ->
  (lmap_eqb leqb (labels g) (labels h) = true <-> labels_agree leqb g h).
Proof.
  intros Ig Ih Kg Kh E. unfold lmap_eqb. pose proof (u_lab _ _ Ig) as LG. pose proof (u_lab _ _ Ih) as LH.
  destruct hs.
  - assert (DOM : forall e, lfind e (labels g) <> None <-> lfind e (labels h) <> None).
    { intros [i j]. rewrite LG, LH, (E i j). reflexivity. }
    assert (LEN : length (labels g) = length (labels h)).
    { rewrite <- (map_length fst (labels g)), <- (map_length fst (labels h)). apply Permutation_length, NoDup_Permutation; auto.
      intros e. rewrite <- !lfind_some_in_keys. apply DOM. }
    rewrite LEN, Nat.eqb_refl. cbn [andb]. rewrite forallb_forall. split.
    + intros H e v v' F1 F2. apply (lfind_In_nodup leqb _ _ _ Kg) in F1. specialize (H _ F1). cbn [fst snd] in H. rewrite F2 in H. auto.
    + intros H [e v] Hin. cbn [fst snd]. pose proof (proj2 (lfind_In_nodup leqb _ _ _ Kg) Hin) as F1.
      destruct (lfind e (labels h)) as [v'|] eqn:F2; [apply (H e v v' F1 F2)|]. exfalso. apply (proj1 (DOM e)); congruence.
  - unfold labels_agree. rewrite LG, LH. cbn. split; [intros _ e v v' F; discriminate|auto].
Qed.
Theorem u_graph_eqb_spec g h : InvU g -> InvU h -> KeysOK g -> KeysOK h ->
  exists b, graph_eqb leqb g h = Val b /\ (b = true <-> size g = size h /\ same_edges g h /\ labels_agree leqb g h).
Proof.
  intros Ig Ih Kg Kh. unfold graph_eqb.
  destruct (Nat.eqb_spec (size g) (size h)) as [S|NS]; cbn [andb].
  2:{ exists false; split; auto. split; [discriminate|intros [X _]; congruence]. }
  destruct (forallb (rows_agree g h) (seq 0 (size g))) eqn:RA.
  - pose proof (proj1 (rows_agree_all_u g h Ig Ih S) RA) as E.
    rewrite (same_edges_enum_u g h Ig Ih S E), Z.eqb_refl. cbn [andb].
    destruct (lmap_eqb leqb (labels g) (labels h)) eqn:LE.
    + rewrite (eq_rows_val_u g h Ig Ih S) by (intros i Hi; apply in_seq in Hi; lia). rewrite RA. exists true; split; auto.
      split; auto. intros _. split; auto. split; auto. apply (lmap_eqb_iff_u g h Ig Ih Kg Kh E); auto.
    + exists false; split; auto. split; [discriminate|]. intros [_ [_ LA]]. apply (lmap_eqb_iff_u g h Ig Ih Kg Kh E) in LA. congruence.
  - assert (NE : ~ same_edges g h) by (intros E; apply (rows_agree_all_u g h Ig Ih S) in E; congruence).
    destruct (Z.eqb (enum g) (enum h) && lmap_eqb leqb (labels g) (labels h)).
    + rewrite (eq_rows_val_u g h Ig Ih S) by (intros i Hi; apply in_seq in Hi; lia). rewrite RA. exists false; split; auto.
      split; [discriminate|intros [_ [E _]]; contradiction].
    + exists false; split; auto. split; [discriminate|intros [_ [E _]]; contradiction].
Qed.

(* the label store keeps unique keys under addEdge *)
Lemma keys_u_add_edge V g a b l f : KeysOK g -> KeysOK (fst (u_add_edge hs V g a b l f)).
Proof. unfold KeysOK, u_add_edge, u_push. intros H.
  destruct f; [destruct (v_force_checks V); [destruct (in_range g a && in_range g b)|]|destruct (u_has_edge g a b) as [[|]| |]]; auto;
  destruct (Nat.ltb a (length (adj g)) && Nat.ltb b (length (adj g))); auto; cbn [fst labels]; apply keys_set_label; auto. Qed.
End EqU.

Section ForcedEqU.
Context {L : Type}.
Variable leqb : L -> L -> bool.
Variable hs : bool.
Notation dgraph := (@dgraph L).
Implicit Types g : dgraph.
Notation ins := (@ins L).
Notation InvU := (@InvU L hs).
Notation WInvU := (@WInvU L hs).
Definition uadds (f : bool) (ops : list ins) : list (@uop L) := map (fun o => UAdd (fst (fst o)) (snd (fst o)) (snd o) f) ops.
(* the key an insertion is filed under *)
Definition norm (o : ins) : ins := (ordered (fst (fst o)) (snd (fst o)), snd o).
Definition uin (i j : nat) (ops : list ins) : Prop := exists l, In ((i, j), l) ops \/ In ((j, i), l) ops.
Lemma uin_nil i j : ~ uin i j [].
Proof. intros [l [[]|[]]]. Qed.
Lemma uin_cons i j a b l0 t : uin i j (((a, b), l0) :: t) <-> hit a b i j = true \/ uin i j t.
Proof. unfold uin. rewrite hit_true. cbn [In]. split.
  - intros [l [[H|H]|[H|H]]]; [injection H as -> -> _; auto|right; exists l; auto|injection H as -> -> _; auto|right; exists l; auto].
  - intros [[[-> ->]|[-> ->]]|[l [H|H]]]; [exists l0; auto|exists l0; auto|exists l; auto|exists l; auto]. Qed.
Lemma count_In_step j (X Y : list nat) (c : bool) : count j X = (count j Y + (if c then 1 else 0))%nat -> (In j X <-> In j Y \/ c = true).
Proof. intros H. rewrite !count_In, H. destruct c; split; try lia; intros [A|A]; try lia; discriminate. Qed.
Lemma u_lab_key g a b : InvU g -> hs = true -> (lfind (ordered a b) (labels g) <> None <-> In b (nb g a)).
Proof. intros I HS. pose proof (u_lab _ _ I) as IL. rewrite HS in IL. rewrite (surjective_pairing (ordered a b)), IL, (In_ordered hs g a b I).
  pose proof (ordered_le a b). tauto. Qed.

Lemma urun_forced ops : forall g, WInvU g -> in_rng (size g) ops ->
  exists g', urun hs repaired g (uadds true ops) = (g', Done) /\ WInvU g' /\ size g' = size g /\
    (forall i j, In j (nb g' i) <-> In j (nb g i) \/ uin i j ops) /\
    (forall e, lfind e (labels g') = match (if hs then last_lab e (map norm ops) else None) with Some l => Some l | None => lfind e (labels g) end).
Proof.
  induction ops as [|[[a b] l] t IH]; intros g I R; cbn [uadds map urun].
  - exists g. split; auto. split; auto. split; auto. split; [intros i j; split; auto; intros [H|H]; auto; destruct (uin_nil i j H)|].
    intros e. cbn [last_lab]. destruct hs; reflexivity.
  - apply in_rng_cons in R as [[Ha Hb] R]. cbn [fst snd] in Ha, Hb |- *. cbn [ustep].
    destruct (u_forced_add_spec hs g a b l I Ha Hb) as [g1 [E1 [I1 [S1 [_ [_ [C1 [_ L1]]]]]]]]. rewrite E1.
    destruct (IH g1 I1) as [g' [E' [I' [S' [M' L']]]]]; [rewrite S1; exact R|].
    fold (uadds true t). rewrite E'. exists g'. split; auto. split; auto. split; [congruence|]. split.
    + intros i j. rewrite M', (count_In_step j _ _ _ (C1 i j)), uin_cons. tauto.
    + intros e. rewrite L', L1. cbn [last_lab norm fst snd]. destruct hs; cbn [andb]; [|reflexivity].
      destruct (last_lab e (map norm t)); auto. destruct (edge_eqb (ordered a b) e); reflexivity.
Qed.

Lemma urun_unforced ops : forall g, InvU g -> in_rng (size g) ops ->
  exists g', urun hs repaired g (uadds false ops) = (g', Done) /\ InvU g' /\ size g' = size g /\
    (forall i j, In j (nb g' i) <-> In j (nb g i) \/ uin i j ops) /\
    (forall e, lfind e (labels g') = match lfind e (labels g) with Some v => Some v | None => if hs then first_lab e (map norm ops) else None end).
Proof.
  induction ops as [|[[a b] l] t IH]; intros g I R; cbn [uadds map urun].
  - exists g. split; auto. split; auto. split; auto. split; [intros i j; split; auto; intros [H|H]; auto; destruct (uin_nil i j H)|].
    intros e. cbn [first_lab]. destruct (lfind e (labels g)); destruct hs; reflexivity.
  - apply in_rng_cons in R as [[Ha Hb] R]. cbn [fst snd] in Ha, Hb |- *. cbn [ustep].
    pose proof (u_add_edge_spec hs g a b l I Ha Hb) as AS. destruct (u_add_edge hs repaired g a b l false) as [g1 r1].
    destruct AS as [-> [I1 [S1 [M1 L1]]]].
    destruct (IH g1 I1) as [g' [E' [I' [S' [M' L']]]]]; [rewrite S1; exact R|].
    fold (uadds false t). rewrite E'. exists g'. split; auto. split; auto. split; [congruence|]. split.
    + intros i j. rewrite M', M1, uin_cons, hit_true. tauto.
    + intros e. rewrite L', L1. cbn [first_lab norm fst snd].
      destruct hs eqn:HS; cbn [andb].
      * destruct (edge_eqb_spec (ordered a b) e) as [<-|Ne]; cbn [andb]; [|reflexivity].
        pose proof (u_lab_key g a b) as IL. rewrite HS in IL. specialize (IL I eq_refl).
        destruct (mem b (nb g a)) eqn:M; cbn [negb].
        -- apply mem_In, IL in M. destruct (lfind (ordered a b) (labels g)); [reflexivity|congruence].
        -- destruct (lfind (ordered a b) (labels g)) eqn:F; [|reflexivity]. exfalso. apply mem_false in M. apply M, IL. congruence.
      * destruct (lfind e (labels g)); reflexivity.
Qed.

Lemma keys_urun_adds f ops : forall g, KeysOK g -> KeysOK (fst (urun hs repaired g (uadds f ops))).
Proof. induction ops as [|[[a b] l] t IH]; intros g K; cbn [uadds map urun]; auto. cbn [ustep fst snd].
  pose proof (keys_u_add_edge hs repaired g a b l f K) as K1.
  destruct (u_add_edge hs repaired g a b l f) as [g1 r]. cbn [fst] in K1. destruct r; auto. Qed.

(* the side condition, on the keys the insertions are filed under ({a,b} and {b,a} are the same pair) *)
Definition u_labels_settle (ops : list ins) : Prop := labels_settle leqb hs (map norm ops).

Theorem u_forced_dedup_eqb n (ops : list ins) : in_rng n ops ->
  exists gf gd gu b,
    urun hs repaired (init n) (uadds true ops) = (gf, Done) /\ u_remove_duplicates gf = (gd, Done) /\
    urun hs repaired (init n) (uadds false ops) = (gu, Done) /\
    graph_eqb leqb gd gu = Val b /\ (b = true <-> u_labels_settle ops).
Proof.
  intros R. assert (I0 : InvU (@init L n)) by (destruct (@u_init_refines L hs n) as [X _ _ _]; exact X).
  destruct (urun_forced ops (init n) (InvU_WInvU hs _ I0) R) as [gf [Ef [If [Sf [Mf Lf]]]]].
  destruct (u_remove_duplicates_spec hs gf If) as [gd [Ed [Id [Sd [Ld [_ [Md _]]]]]]].
  destruct (urun_unforced ops (init n) I0 R) as [gu [Eu [Iu [Su [Mu Lu]]]]].
  assert (Kf : KeysOK gf). { pose proof (keys_urun_adds true ops (init n)) as K. rewrite Ef in K. apply K. constructor. }
  assert (Kd : KeysOK gd) by (unfold KeysOK; rewrite Ld; exact Kf).
  assert (Ku : KeysOK gu). { pose proof (keys_urun_adds false ops (init n)) as K. rewrite Eu in K. apply K. constructor. }
  destruct (u_graph_eqb_spec leqb hs gd gu Id Iu Kd Ku) as [b [EB HB]].
  exists gf, gd, gu, b. split; auto. split; auto. split; auto. split; auto.
  assert (SE : same_edges gd gu). { intros i j. rewrite Md, Mf, Mu. reflexivity. }
  rewrite HB. unfold u_labels_settle, labels_settle. split.
  - intros [_ [_ LA]] HS e lf lu F1 F2. apply (LA e lf lu).
    + rewrite Ld, Lf, HS, F1. reflexivity.
    + rewrite Lu, HS, F2. reflexivity.
  - intros LS. split; [congruence|]. split; auto. intros e v v' F1 F2. rewrite Ld, Lf in F1. rewrite Lu in F2. cbn [init labels lfind] in F1, F2.
    destruct hs eqn:HS; [|discriminate]. destruct (last_lab e (map norm ops)) as [lf|] eqn:F; [|discriminate]. injection F1 as <-. apply (LS eq_refl e lf v'); auto.
Qed.

Corollary u_forced_dedup_equals_unforced n (ops : list ins) : in_rng n ops -> (hs = false \/ same_labels leqb (map norm ops)) ->
  exists gf gd gu,
    urun hs repaired (init n) (uadds true ops) = (gf, Done) /\ u_remove_duplicates gf = (gd, Done) /\
    urun hs repaired (init n) (uadds false ops) = (gu, Done) /\ graph_eqb leqb gd gu = Val true.
Proof. intros R C. destruct (u_forced_dedup_eqb n ops R) as [gf [gd [gu [b [A [B [D [E H]]]]]]]]. exists gf, gd, gu. split; auto. split; auto. split; auto.
  rewrite E. f_equal. apply H. destruct C as [C|C]; [intros HS; congruence|apply same_labels_settle; auto]. Qed.
End ForcedEqU.

(* {0,1} inserted as (0,1) with label 7, then as (1,0) with label 9: same unordered pair, different labels *)
Example u_forced_dedup_label_counterexample :
  let ops := [((0, 1)%nat, 7); ((1, 0)%nat, 9)] in
  let '(gf, _) := urun true repaired (init 2) (uadds true ops) in
  let '(gd, _) := u_remove_duplicates gf in
  let '(gu, _) := urun true repaired (init 2) (uadds false ops) in
  enum gf = 2 /\ lfind (0, 1)%nat (labels gd) = Some 9 /\ lfind (0, 1)%nat (labels gu) = Some 7 /\ adj gd = adj gu /\ enum gd = enum gu /\
  graph_eqb Z.eqb gd gu = Val false.
Proof. vm_compute. repeat split; reflexivity. Qed.
Example u_forced_dedup_same_label_example :
  let ops := [((0, 1)%nat, 7); ((1, 1)%nat, 3); ((1, 0)%nat, 7); ((1, 1)%nat, 3); ((1, 1)%nat, 3)] in
  let '(gf, _) := urun true repaired (init 2) (uadds true ops) in
  let '(gd, _) := u_remove_duplicates gf in
  let '(gu, _) := urun true repaired (init 2) (uadds false ops) in
  enum gf = 5 /\ adj gf = [[1; 1]; [0; 1; 0; 1; 1]]%nat /\ enum gd = 2 /\ graph_eqb Z.eqb gd gu = Val true.
Proof. vm_compute. repeat split; reflexivity. Qed.
