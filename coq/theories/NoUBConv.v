(* C17, continued (D): constructors from edge lists, getReversedGraph, getDirectedGraph / the undirected-from-directed constructor,
   the multigraph / weighted edge-list constructors, getSubgraph / getSubgraphWithRemap (repaired revision): never Undef.
   The edge-list constructors are defined on EVERY input list; the others on every LenOK argument (any vertex subset, in range or not);
   what they return (when they return) is again LenOK. *)
From Coq Require Import List Arith ZArith Lia Bool.
From BG Require Import Base DirectedModel DirectedProofs DirectedIter UndirectedModel UndirectedProofs MultiModel WeightedModel ConvModel TopologyModel
  TextProofs NoUB NoUBMore NoUBWF NoUBObs.
Import ListNotations.
Local Open Scope nat_scope.

Section Conv.
Context {L : Type}.
Variable ldef : L.
Variable hs : bool.
Notation dgraph := (@dgraph L).
Implicit Types g h d : dgraph.
Notation GL := (good (@LenOK L)).

Lemma dlift_good (p : dgraph * res) : OK p -> GL (DirectedModel.lift p).
Proof. destruct p as [h [|e|k]]; cbn; intros [A B]; auto. Qed.
Lemma ulift_good (p : dgraph * res) : OK p -> GL (UndirectedModel.lift p).
Proof. destruct p as [h [|e|k]]; cbn; intros [A B]; auto. Qed.
Lemma init_len n : LenOK (@init L n).
Proof. unfold LenOK, init; cbn. apply repeat_length. Qed.
Lemma add_reciprocal_ok g a b l f : LenOK g -> OK (add_reciprocal hs V g a b l f).
Proof. intros H. exact (step_ok hs g (AddReciprocal a b l f) H). Qed.
Lemma grow_good h m : LenOK h -> GL (if Nat.leb (size h) m then DirectedModel.lift (resize h (S m)) else Val h).
Proof. intros H. destruct (Nat.leb (size h) m); [|exact H]. apply dlift_good. exact (step_ok hs h (Resize (S m)) H). Qed.
Lemma ugrow_good h m : LenOK h -> GL (if Nat.leb (size h) m then UndirectedModel.lift (resize h (S m)) else Val h).
Proof. intros H. destruct (Nat.leb (size h) m); [|exact H]. apply ulift_good. exact (step_ok hs h (Resize (S m)) H). Qed.

(* edge-list constructors: any list *)
Theorem of_edge_list_good es : GL (of_edge_list hs V es).
Proof. unfold of_edge_list.
  apply (good_fold (@LenOK L) (fun h (e : nat * nat * L) => let '(i, j, l) := e in
     obind (if Nat.leb (size h) (Nat.max i j) then DirectedModel.lift (resize h (S (Nat.max i j))) else Val h) (fun h1 => DirectedModel.lift (add_edge hs V h1 i j l false)))).
  - intros h [[i j] l] H _. eapply good_obind; [apply grow_good; exact H|]. intros h1 H1. apply dlift_good. apply add_edge_ok; auto.
  - apply init_len. Qed.
Theorem u_of_edge_list_good es : GL (u_of_edge_list hs V es).
Proof. unfold u_of_edge_list.
  apply (good_fold (@LenOK L) (fun h (e : nat * nat * L) => let '(i, j, l) := e in
     obind (if Nat.leb (size h) (Nat.max i j) then UndirectedModel.lift (resize h (S (Nat.max i j))) else Val h) (fun h1 => UndirectedModel.lift (u_add_edge hs V h1 i j l false)))).
  - intros h [[i j] l] H _. eapply good_obind; [apply ugrow_good; exact H|]. intros h1 H1. apply ulift_good. apply u_add_edge_ok; auto.
  - apply init_len. Qed.

(* getReversedGraph *)
Theorem reversed_good g : LenOK g -> GL (reversed ldef hs V g).
Proof. intros H. unfold reversed. rewrite (iterate_flatten g H). cbn [obind].
  apply (good_fold (@LenOK L) (fun h (e : edge) => obind (get_label ldef hs g (fst e) (snd e) true) (fun l => DirectedModel.lift (add_edge hs V h (snd e) (fst e) l false)))).
  - intros h e Hh _. eapply good_obind; [apply safe_good; apply get_label_fine|]. intros l _. apply dlift_good. apply add_edge_ok; auto.
  - apply init_len. Qed.

(* getDirectedGraph *)
Theorem to_directed_good keep g : LenOK g -> GL (to_directed ldef hs V keep g).
Proof. intros H. unfold to_directed. pose proof (u_iterate_fine g H) as F. destruct (u_iterate V g) as [es|e|k]; cbn [obind safe good] in *; auto.
  apply (good_fold (@LenOK L) (fun h (e : edge) => let '(i, j) := e in
      if Nat.ltb i j then
        obind (if keep then u_get_label ldef hs g i j true else Val ldef) (fun l => UndirectedModel.lift (add_reciprocal hs V h i j l true))
      else if Nat.eqb i j then obind (u_get_label ldef hs g i j true) (fun l => UndirectedModel.lift (add_edge hs V h i j l true))
      else Val h)).
  - intros h [i j] Hh _. destruct (Nat.ltb i j).
    + eapply good_obind; [apply safe_good; destruct keep; [apply u_get_label_fine|exact I]|]. intros l _. apply ulift_good. apply add_reciprocal_ok; auto.
    + destruct (Nat.eqb i j); [|exact Hh]. eapply good_obind; [apply safe_good; apply u_get_label_fine|]. intros l _. apply ulift_good. apply add_edge_ok; auto.
  - apply init_len. Qed.

(* LabeledUndirectedGraph(const LabeledDirectedGraph&) *)
Theorem of_directed_good d : LenOK d -> GL (of_directed ldef hs V d).
Proof. intros H. unfold of_directed.
  apply (good_fold (@LenOK L) (fun h i => obind (out_neighbours d i) (fun l =>
     fold_left (fun acc2 j => obind acc2 (fun h2 => obind (get_label ldef hs d i j true) (fun lb => UndirectedModel.lift (u_add_edge hs V h2 i j lb false)))) l (Val h)))).
  - intros h i Hh _. eapply good_obind; [apply safe_good; apply out_neighbours_fine; exact H|]. intros l _.
    apply (good_fold (@LenOK L) (fun h2 j => obind (get_label ldef hs d i j true) (fun lb => UndirectedModel.lift (u_add_edge hs V h2 i j lb false)))); [|exact Hh].
    intros h2 j H2 _. eapply good_obind; [apply safe_good; apply get_label_fine|]. intros lb _. apply ulift_good. apply u_add_edge_ok; auto.
  - apply init_len. Qed.

(* getSubgraph / getSubgraphWithRemap: any vertex list, any relabelling *)
Variable und : bool.
Lemma t_add_good h i j l : LenOK h -> GL (TopologyModel.t_add hs V und h i j l).
Proof. intros H. unfold TopologyModel.t_add. apply ulift_good. destruct und; [apply u_add_edge_ok|apply add_edge_ok]; auto. Qed.
Lemma t_label_fine g i j : safe (t_label ldef hs und g i j).
Proof. unfold t_label. destruct und; [apply u_get_label_fine|apply get_label_fine]. Qed.
Theorem sub_loop_good g so f h0 : LenOK g -> LenOK h0 -> GL (sub_loop ldef hs V und g so f h0).
Proof. intros H H0. unfold sub_loop.
  apply (good_fold (@LenOK L) (fun h i => if in_range g i then
      obind (out_neighbours g i) (fun l =>
        fold_left (fun acc2 j => obind acc2 (fun h2 => if mem j so then obind (t_label ldef hs und g i j) (fun lb => TopologyModel.t_add hs V und h2 (f i) (f j) lb) else Val h2)) l (Val h))
    else Raise OutOfRange)); [|exact H0].
  intros h i Hh _. destruct (in_range g i); [|exact I]. eapply good_obind; [apply safe_good; apply out_neighbours_fine; exact H|]. intros l _.
  apply (good_fold (@LenOK L) (fun h2 j => if mem j so then obind (t_label ldef hs und g i j) (fun lb => TopologyModel.t_add hs V und h2 (f i) (f j) lb) else Val h2)); [|exact Hh].
  intros h2 j H2 _. destruct (mem j so); [|exact H2]. eapply good_obind; [apply safe_good; apply t_label_fine|]. intros lb _. apply t_add_good; auto. Qed.
Theorem subgraph_good g so : LenOK g -> GL (subgraph ldef hs V und g so).
Proof. intros H. unfold subgraph. apply sub_loop_good; auto. apply init_len. Qed.
Theorem subgraph_remap_fine g so : LenOK g -> safe (subgraph_remap ldef hs V und g so).
Proof. intros H. unfold subgraph_remap. apply safe_omap. apply (good_safe (@LenOK L)). apply sub_loop_good; auto. apply init_len. Qed.
End Conv.

(* ---- edge-list constructors of the multigraph and weighted classes: any list, zero / negative multiplicities and weights included ---- *)
Notation GM := (good (fun m : mgraph => LenOK (mg m))).
Lemma mlift_good (p : mgraph * res) : MOK p -> GM (mlift p).
Proof. destruct p as [h [|e|k]]; cbn; intros [A B]; auto. Qed.
Lemma m_of_edge_list_good (add : mgraph -> nat -> nat -> Z -> mgraph * res) es : (forall m i j k, LenOK (mg m) -> MOK (add m i j k)) -> GM (m_of_edge_list add es).
Proof. intros Hadd. unfold m_of_edge_list.
  apply (good_fold (fun m : mgraph => LenOK (mg m)) (fun h (e : nat * nat * Z) => let '(i, j, k) := e in
     obind (if Nat.leb (size (mg h)) (Nat.max i j) then mlift (dm_resize h (S (Nat.max i j))) else Val h) (fun h1 => mlift (add h1 i j k)))).
  - intros h [[i j] k] H _. eapply good_obind with (P := fun m : mgraph => LenOK (mg m)).
    + destruct (Nat.leb (size (mg h)) (Nat.max i j)); [|exact H]. apply mlift_good. apply dm_resize_ok; auto.
    + intros h1 H1. apply mlift_good. apply Hadd; auto.
  - unfold dm_init. cbn [mg mk]. unfold LenOK, init; cbn. reflexivity. Qed.
Theorem dm_of_edge_list_good es : GM (dm_of_edge_list V es).
Proof. unfold dm_of_edge_list. apply m_of_edge_list_good. intros; apply dm_add_multiedge_ok; auto. Qed.
Theorem um_of_edge_list_good es : GM (um_of_edge_list V es).
Proof. unfold um_of_edge_list. apply m_of_edge_list_good. intros; apply um_add_multiedge_ok; auto. Qed.
Theorem dw_of_edge_list_good es : GM (dw_of_edge_list V es).
Proof. unfold dw_of_edge_list. apply m_of_edge_list_good. intros; apply dw_add_edge_ok; auto. Qed.
Theorem uw_of_edge_list_good es : GM (uw_of_edge_list V es).
Proof. unfold uw_of_edge_list. apply m_of_edge_list_good. intros; apply uw_add_edge_ok; auto. Qed.
