(* Monomorphic instances run by the correspondence driver (extracted) and by the in-kernel cross-check (vm_compute):
   labels are integer codes. Definitions only. *)
From BG Require Import Base DirectedModel DirectedSpec UndirectedModel UndirectedSpec MultiModel WeightedModel MultiSpec.
Local Open Scope Z_scope.
(* the alphabet asked about in hasEdge(i,j,l): 0..3 for labelled graphs, the single NoLabel value otherwise *)
Definition alpha (hs : bool) : list Z := if hs then [0; 1; 2; 3] else [0].
Definition d_trace (hs : bool) (v : variant) (n : nat) (ops : list (@dop Z)) : list (list (list Z)) :=
  trace Z.eqb 0 (fun z => z) (alpha hs) hs v (init n) ops.
Definition d_spec_trace (hs : bool) (n : nat) (ops : list (@dop Z)) : list (option (list (list Z))) :=
  spec_trace Z.eqb 0 hs (fun z => z) (alpha hs) (s_init n) ops.
Definition u_trace_z (hs : bool) (v : variant) (n : nat) (ops : list (@uop Z)) : list (list (list Z)) :=
  u_trace Z.eqb 0 (fun z => z) (alpha hs) hs v (init n) ops.
Definition u_spec_trace (hs : bool) (n : nat) (ops : list (@uop Z)) : list (option (list (list Z))) :=
  uspec_trace Z.eqb 0 hs (fun z => z) (alpha hs) (s_init n) ops.
(* multigraphs and weighted graphs; the two repaired behaviours that have no variant flag are passed explicitly *)
Definition dm_trace_z (v : variant) (n : nat) (ops : list mop) := m_trace (dm_step v) (dm_observe v) (dm_init n) ops.
Definition um_trace_z (v : variant) (set0 : bool) (n : nat) (ops : list mop) := m_trace (um_step v set0) (um_observe v) (dm_init n) ops.
Definition dw_trace_z (v : variant) (n : nat) (ops : list wop) := w_trace (dw_step v) (dw_observe v) (dm_init n) ops.
Definition uw_trace_z (v : variant) (canon : bool) (n : nat) (ops : list wop) := w_trace (uw_step v canon) (uw_observe v) (dm_init n) ops.
Definition m_spec_trace (und : bool) (n : nat) (ops : list mop) := mspec_trace und (s_init n) ops.
Definition w_spec_trace (und : bool) (n : nat) (ops : list wop) := wspec_trace und (s_init n) ops.
