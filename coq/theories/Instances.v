(* Monomorphic instances run by the correspondence driver (extracted) and by the in-kernel cross-check (vm_compute):
   labels are integer codes. Definitions only. *)
From BG Require Import Base DirectedModel DirectedSpec.
Local Open Scope Z_scope.
(* the alphabet asked about in hasEdge(i,j,l): 0..3 for labelled graphs, the single NoLabel value otherwise *)
Definition alpha (hs : bool) : list Z := if hs then [0; 1; 2; 3] else [0].
Definition d_trace (hs : bool) (v : variant) (n : nat) (ops : list (@dop Z)) : list (list (list Z)) :=
  trace Z.eqb 0 (fun z => z) (alpha hs) hs v (init n) ops.
Definition d_spec_trace (hs : bool) (n : nat) (ops : list (@dop Z)) : list (option (list (list Z))) :=
  spec_trace Z.eqb 0 hs (fun z => z) (alpha hs) (s_init n) ops.
