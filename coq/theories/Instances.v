(* Monomorphic instances run by the correspondence driver (extracted) and by the in-kernel cross-check (vm_compute):
   labels are integer codes. Definitions only. *)
From BG Require Import Base DirectedModel DirectedSpec UndirectedModel UndirectedSpec MultiModel WeightedModel MultiSpec ForcedSpec ConvModel TopologyModel.
From BG Require Import PathsModel PathsCases IOModel IOCases.
Local Open Scope Z_scope.
(* the alphabet asked about in hasEdge(i,j,l): 0..3 for labelled graphs, the single NoLabel value otherwise *)
Definition alpha (hs : bool) : list Z := if hs then [0; 1; 2; 3] else [0].
(* ---- out-of-range queries (C07): every observer that takes a vertex, asked about v (and about the pair (v,0), (0,v)) ---- *)
Definition zlen {A} (o : outcome (list A)) : Z := zout (fun l => Z.of_nat (length l)) o.
Definition d_query (hs : bool) (g : @dgraph Z) (v : nat) : list Z :=
  [ zout zbool (has_edge g v 0); zout zbool (has_edge g 0 v); zlen (out_neighbours g v); zout zn (out_degree g v); zout zn (in_degree repaired g v);
    zout (fun z => z) (get_label 0 hs g v 0 false); zout (fun z => z) (get_label 0 hs g 0 v true); zout zbool (has_edge_l Z.eqb 0 hs g v 0 0) ].
Definition u_query (hs : bool) (g : @dgraph Z) (v : nat) : list Z :=
  [ zout zbool (u_has_edge g v 0); zout zbool (u_has_edge g 0 v); zlen (out_neighbours g v); zout zn (u_degree g v true); zout zn (u_degree g v false);
    zout (fun z => z) (u_get_label 0 hs g v 0 false); zout (fun z => z) (u_get_label 0 hs g 0 v true); zout zbool (u_has_edge_l Z.eqb 0 hs g v 0 0) ].
Definition dm_query (m : mgraph) (v : nat) : list Z :=
  [ zout zbool (has_edge (mg m) v 0); zout zbool (has_edge (mg m) 0 v); zlen (out_neighbours (mg m) v); zout zid (dm_get_multiplicity m v 0); zout zid (dm_get_multiplicity m 0 v);
    zout zid (dm_out_degree m v); zout zid (dm_in_degree repaired m v) ].
Definition um_query (m : mgraph) (v : nat) : list Z :=
  [ zout zbool (um_has_edge m v 0); zout zbool (um_has_edge m 0 v); zlen (out_neighbours (mg m) v); zout zid (um_get_multiplicity m v 0); zout zid (um_get_multiplicity m 0 v);
    zout zid (um_degree m v true); zout zid (um_degree m v false) ].
Definition dw_query (m : mgraph) (v : nat) : list Z :=
  [ zout zbool (has_edge (mg m) v 0); zout zbool (has_edge (mg m) 0 v); zlen (out_neighbours (mg m) v); zout zid (dw_get_weight m v 0 false); zout zid (dw_get_weight m 0 v true);
    zout zn (out_degree (mg m) v); zout zn (in_degree repaired (mg m) v) ].
Definition uw_query (m : mgraph) (v : nat) : list Z :=
  [ zout zbool (u_has_edge (mg m) v 0); zout zbool (u_has_edge (mg m) 0 v); zlen (out_neighbours (mg m) v); zout zid (uw_get_weight m v 0 false); zout zid (uw_get_weight m 0 v true);
    zout zn (u_degree (mg m) v true); zout zn (u_degree (mg m) v false) ].

Definition d_trace (hs : bool) (v : variant) (n : nat) (ops : list (@dop Z + nat)) : list (list (list Z)) :=
  gtrace (step hs v) (observe Z.eqb 0 (fun z => z) (alpha hs) hs v) (d_query hs) (init n) ops.
Definition d_spec_trace (hs : bool) (n : nat) (ops : list (@dop Z + nat)) : list (option (list (list Z))) :=
  gspec_trace (fun _ => true) rejected_code spec_step (sobserve Z.eqb 0 hs (fun z => z) (alpha hs)) sn 8 (s_init n) ops.
Definition u_trace_z (hs : bool) (v : variant) (n : nat) (ops : list (@uop Z + nat)) : list (list (list Z)) :=
  gtrace (ustep hs v) (u_observe Z.eqb 0 (fun z => z) (alpha hs) hs v) (u_query hs) (init n) ops.
Definition u_spec_trace (hs : bool) (n : nat) (ops : list (@uop Z + nat)) : list (option (list (list Z))) :=
  gspec_trace (fun _ => true) u_rejected_code uspec_step (sobserve_u Z.eqb 0 hs (fun z => z) (alpha hs)) sn 8 (s_init n) ops.
(* multigraphs and weighted graphs; the two repaired behaviours that have no variant flag are passed explicitly *)
Definition dm_trace_z (v : variant) (n : nat) (ops : list (mop + nat)) := gtrace (dm_step v) (dm_observe v) dm_query (dm_init n) ops.
Definition um_trace_z (v : variant) (set0 : bool) (n : nat) (ops : list (mop + nat)) := gtrace (um_step v set0) (um_observe v) um_query (dm_init n) ops.
Definition dw_trace_z (v : variant) (n : nat) (ops : list (wop + nat)) := gtrace (dw_step v) (dw_observe v) dw_query (dm_init n) ops.
Definition uw_trace_z (v : variant) (canon : bool) (n : nat) (ops : list (wop + nat)) := gtrace (uw_step v canon) (uw_observe v) uw_query (dm_init n) ops.
Definition m_spec_trace (und : bool) (n : nat) (ops : list (mop + nat)) := gspec_trace (fun _ => true) m_rejected_code (mspec_step und) (sobserve_m und) sn 7 (s_init n) ops.
Definition w_spec_trace (und : bool) (n : nat) (ops : list (wop + nat)) := gspec_trace (fun _ => true) w_rejected_code (wspec_step und) (sobserve_w und) sn 7 (s_init n) ops.
(* spec oracles that also follow forced insertions (C16) *)
Definition d_fspec_trace (hs : bool) (n : nat) (ops : list (@dop Z + nat)) :=
  gspec_trace (fun _ => true) (frej_d false) (fstep_d false) (fobserve_d Z.eqb 0 hs (fun z => z) (alpha hs) false) sn 8 (s_init n) ops.
Definition u_fspec_trace (hs : bool) (n : nat) (ops : list (@uop Z + nat)) :=
  gspec_trace (fun _ => true) (frej_u true) (fstep_u true) (fobserve_u Z.eqb 0 hs (fun z => z) (alpha hs) true) sn 8 (s_init n) ops.
Definition fs_init (n : nat) : fstate := {| fa := s_init n; fdup := []; ftaint := false |}.
Definition m_fspec_trace (und : bool) (n : nat) (ops : list (mop + nat)) :=
  gspec_trace clean (fun s o => match m_rejected_code (fa s) o with None => Some 0 | x => x end) (fm_step und) (fun s => sobserve_m und (fa s)) (fun s => sn (fa s)) 7 (fs_init n) ops.
Definition w_fspec_trace (und : bool) (n : nat) (ops : list (wop + nat)) :=
  gspec_trace clean (fun s o => match w_rejected_code (fa s) o with None => Some 0 | x => x end) (fw_step und) (fun s => sobserve_w und (fa s)) (fun s => sn (fa s)) 7 (fs_init n) ops.
(* ---- C06 ---- *)
Definition spec_eqb {V : Type} (veq : V -> V -> bool) (a b : @sgraph V) : bool :=
  Nat.eqb (sn a) (sn b) && lmap_sub veq (se a) (se b) && lmap_sub veq (se b) (se a).
Definition opt2 {A B} (f : A -> A -> B) (x y : option A) : option B := match x, y with Some a, Some b => Some (f a b) | _, _ => None end.
Definition veq_of (hs : bool) : Z -> Z -> bool := if hs then Z.eqb else fun _ _ => true.
Definition d_eq_case (hs : bool) (v : variant) (n : nat) (a b : list (@dop Z)) : list Z :=
  eq_vector (graph_eqb Z.eqb) (gfinal (step hs v) (init n) a) (gfinal (step hs v) (init n) b).
Definition d_eq_spec (hs : bool) (n : nat) (a b : list (@dop Z)) : option (list Z) :=
  seq_vector (opt2 (spec_eqb (veq_of hs)) (gsfinal rejected_code spec_step (s_init n) a) (gsfinal rejected_code spec_step (s_init n) b)).
Definition u_eq_case (hs : bool) (v : variant) (n : nat) (a b : list (@uop Z)) : list Z :=
  eq_vector (graph_eqb Z.eqb) (gfinal (ustep hs v) (init n) a) (gfinal (ustep hs v) (init n) b).
Definition u_eq_spec (hs : bool) (n : nat) (a b : list (@uop Z)) : option (list Z) :=
  seq_vector (opt2 (spec_eqb (veq_of hs)) (gsfinal u_rejected_code uspec_step (s_init n) a) (gsfinal u_rejected_code uspec_step (s_init n) b)).
Definition m_eqb (x y : mgraph) := graph_eqb Z.eqb (mg x) (mg y).
Definition dm_eq_case (v : variant) (n : nat) (a b : list mop) := eq_vector m_eqb (gfinal (dm_step v) (dm_init n) a) (gfinal (dm_step v) (dm_init n) b).
Definition um_eq_case (v : variant) (set0 : bool) (n : nat) (a b : list mop) := eq_vector m_eqb (gfinal (um_step v set0) (dm_init n) a) (gfinal (um_step v set0) (dm_init n) b).
Definition dw_eq_case (v : variant) (n : nat) (a b : list wop) := eq_vector m_eqb (gfinal (dw_step v) (dm_init n) a) (gfinal (dw_step v) (dm_init n) b).
Definition uw_eq_case (v : variant) (canon : bool) (n : nat) (a b : list wop) := eq_vector m_eqb (gfinal (uw_step v canon) (dm_init n) a) (gfinal (uw_step v canon) (dm_init n) b).
Definition m_eq_spec (und : bool) (n : nat) (a b : list mop) :=
  seq_vector (opt2 (spec_eqb Z.eqb) (gsfinal m_rejected_code (mspec_step und) (s_init n) a) (gsfinal m_rejected_code (mspec_step und) (s_init n) b)).
Definition w_eq_spec (und : bool) (n : nat) (a b : list wop) :=
  seq_vector (opt2 (spec_eqb Z.eqb) (gsfinal w_rejected_code (wspec_step und) (s_init n) a) (gsfinal w_rejected_code (wspec_step und) (s_init n) b)).
(* ---- C09: conversions of the final graph of a history; constructors from an explicit edge list ---- *)
Definition obs_d (hs : bool) (v : variant) := observe Z.eqb 0 (fun z => z) (alpha hs) hs v.
Definition obs_u (hs : bool) (v : variant) := u_observe Z.eqb 0 (fun z => z) (alpha hs) hs v.
Definition sobs_d (hs : bool) := sobserve Z.eqb 0 hs (fun z => z) (alpha hs).
Definition sobs_u (hs : bool) := sobserve_u Z.eqb 0 hs (fun z => z) (alpha hs).
Definition zflag (o : outcome bool) : list (list Z) := [[zout zbool o]].
Definition d_cv_case (hs : bool) (v : variant) (n : nat) (ops : list (@dop Z)) : list (list (list Z)) :=
  match gfinal (step hs v) (init n) ops with None => [] | Some g =>
    let r := reversed 0 hs v g in
    [ obs_or_err (omap (obs_d hs v) r);
      zflag (obind r (fun h => obind (reversed 0 hs v h) (fun h2 => graph_eqb Z.eqb h2 g)));
      obs_or_err (omap (obs_u hs v) (of_directed 0 hs v g)) ] end.
Definition d_cv_spec (hs : bool) (n : nat) (ops : list (@dop Z)) : list (option (list (list Z))) :=
  match gsfinal rejected_code spec_step (s_init n) ops with None => [None; None; None] | Some a =>
    [ Some (sobs_d hs (s_reverse a)); Some [[1]]; if s_unambiguous (veq_of hs) a then Some (sobs_u hs (s_undirect a)) else None ] end.
Definition u_cv_case (hs : bool) (v : variant) (keep : bool) (n : nat) (ops : list (@uop Z)) : list (list (list Z)) :=
  match gfinal (ustep hs v) (init n) ops with None => [] | Some g =>
    let d := to_directed 0 hs v keep g in
    [ obs_or_err (omap (obs_d hs v) d);
      zflag (obind d (fun h => obind (of_directed 0 hs v h) (fun u => graph_eqb Z.eqb u g))) ] end.
Definition u_cv_spec (hs : bool) (n : nat) (ops : list (@uop Z)) : list (option (list (list Z))) :=
  match gsfinal u_rejected_code uspec_step (s_init n) ops with None => [None; None] | Some a => [ Some (sobs_d hs (s_direct a)); Some [[1]] ] end.
(* constructors *)
Definition d_el_case (hs : bool) (v : variant) (es : list (nat * nat * Z)) := [obs_or_err (omap (obs_d hs v) (of_edge_list hs v es))].
Definition u_el_case (hs : bool) (v : variant) (es : list (nat * nat * Z)) := [obs_or_err (omap (obs_u hs v) (u_of_edge_list hs v es))].
Definition dm_el_case (v : variant) (es : list (nat * nat * Z)) := [obs_or_err (omap (dm_observe v) (dm_of_edge_list v es))].
Definition um_el_case (v : variant) (es : list (nat * nat * Z)) := [obs_or_err (omap (um_observe v) (um_of_edge_list v es))].
Definition dw_el_case (v : variant) (es : list (nat * nat * Z)) := [obs_or_err (omap (dw_observe v) (dw_of_edge_list v es))].
Definition uw_el_case (v : variant) (es : list (nat * nat * Z)) := [obs_or_err (omap (uw_observe v) (uw_of_edge_list v es))].
Definition d_el_spec (hs : bool) (es : list (nat * nat * Z)) := [Some (sobs_d hs (fold_left (fun a e => s_add a (fst (fst e)) (snd (fst e)) (snd e)) es (s_init (el_size es))))].
Definition u_el_spec (hs : bool) (es : list (nat * nat * Z)) :=
  [Some (sobs_u hs (fold_left (fun a e => s_add a (fst (okey (fst (fst e)) (snd (fst e)))) (snd (okey (fst (fst e)) (snd (fst e)))) (snd e)) es (s_init (el_size es))))].
Definition m_el_spec (und : bool) (es : list (nat * nat * Z)) := [Some (sobserve_m und (fold_left (fun a e => ms_add und a (fst (fst e)) (snd (fst e)) (snd e)) es (s_init (el_size es))))].
Definition w_el_spec (und : bool) (es : list (nat * nat * Z)) := [Some (sobserve_w und (fold_left (fun a e => ws_add und a (fst (fst e)) (snd (fst e)) (snd e)) es (s_init (el_size es))))].
(* ---- C10: subgraph extraction on the final graph of a history; [so] = iteration order of the implementation's unordered_set,
   [f] = the map the implementation returned (validated by the spec side) ---- *)
Definition nodup_b (l : list nat) : bool := forallb (fun v => Nat.eqb (count v l) 1) l.
Definition same_set (a b : list nat) : bool := forallb (fun v => mem v b) a && forallb (fun v => mem v a) b.
Definition order_ok (s so : list nat) : bool := nodup_b so && same_set s so.
Definition zmap (f : list (nat * nat)) (so : list nat) : list Z := map (fun v => zn (amap f v)) so.
Definition d_sub_case (hs : bool) (v : variant) (n : nat) (ops : list (@dop Z)) (s so : list nat) : list (list (list Z)) :=
  match gfinal (step hs v) (init n) ops with None => [] | Some g =>
    [ [map zn so]; obs_or_err (omap (obs_d hs v) (subgraph 0 hs v false g so));
      match subgraph_remap 0 hs v false g so with Val (h, f) => obs_d hs v h ++ [zmap f so] | Raise e => [[zexn e]] | Undef _ => [[zub]] end ] end.
Definition u_sub_case (hs : bool) (v : variant) (n : nat) (ops : list (@uop Z)) (s so : list nat) : list (list (list Z)) :=
  match gfinal (ustep hs v) (init n) ops with None => [] | Some g =>
    [ [map zn so]; obs_or_err (omap (obs_u hs v) (subgraph 0 hs v true g so));
      match subgraph_remap 0 hs v true g so with Val (h, f) => obs_u hs v h ++ [zmap f so] | Raise e => [[zexn e]] | Undef _ => [[zub]] end ] end.
Definition sub_spec (und : bool) (hs : bool) (a : option (@sgraph Z)) (s so : list nat) (f : list (nat * nat)) : list (option (list (list Z))) :=
  match a with None => [None; None; None] | Some a =>
    if negb (order_ok s so) then [Some [[-7]]; None; None]
    else if existsb (fun v => negb (Nat.ltb v (sn a))) s then [Some [map zn so]; Some [[zexn OutOfRange]]; Some [[zexn OutOfRange]]]
    else [ Some [map zn so]; Some ((if und then sobs_u hs else sobs_d hs) (s_induced a s));
           if bijection_ok s f then Some ((if und then sobs_u hs else sobs_d hs) (s_image und a s f) ++ [zmap f so]) else Some [[-8]] ] end.
Definition d_sub_spec (hs : bool) (n : nat) (ops : list (@dop Z)) := sub_spec false hs (gsfinal rejected_code spec_step (s_init n) ops).
Definition u_sub_spec (hs : bool) (n : nat) (ops : list (@uop Z)) := sub_spec true hs (gsfinal u_rejected_code uspec_step (s_init n) ops).
(* ---- C11 / C12 / C19: path searches on the final graph of a history ---- *)
Definition d_path_case (v : variant) (once : bool) (n : nat) (ops : list (@dop Z)) (s t : nat) :=
  match gfinal (step false v) (init n) ops with None => [] | Some g => path_case_x (v_force_checks v) once (path_fuel (adj g) s) (adj g) s t end.
Definition u_path_case (v : variant) (once : bool) (n : nat) (ops : list (@uop Z)) (s t : nat) :=
  match gfinal (ustep false v) (init n) ops with None => [] | Some g => path_case_x (v_force_checks v) once (path_fuel (adj g) s) (adj g) s t end.
Definition d_path_spec (v : variant) (n : nat) (ops : list (@dop Z)) (s t : nat) (im : path_impl) :=
  match gfinal (step false v) (init n) ops with None => [] | Some g => path_spec_x (adj g) s t im end.
Definition u_path_spec (v : variant) (n : nat) (ops : list (@uop Z)) (s t : nat) (im : path_impl) :=
  match gfinal (ustep false v) (init n) ops with None => [] | Some g => path_spec_x (adj g) s t im end.
Definition dw_dj_case (v : variant) (n : nat) (ops : list wop) (s : nat) (cs : list nat) :=
  match gfinal (dw_step v) (dm_init n) ops with None => [] | Some m => dj_case (v_force_checks v) (wadj_of (mg m)) s cs end.
Definition uw_dj_case (v : variant) (n : nat) (ops : list wop) (s : nat) (cs : list nat) :=
  match gfinal (uw_step v true) (dm_init n) ops with None => [] | Some m => dj_case (v_force_checks v) (uwadj_of (mg m)) s cs end.
Definition dw_dj_spec (v : variant) (n : nat) (ops : list wop) (s : nat) (ipred : list Z) (cs : list nat) :=
  match gfinal (dw_step v) (dm_init n) ops with None => [] | Some m => dj_spec (wadj_of (mg m)) s ipred cs end.
Definition uw_dj_spec (v : variant) (n : nat) (ops : list wop) (s : nat) (ipred : list Z) (cs : list nat) :=
  match gfinal (uw_step v true) (dm_init n) ops with None => [] | Some m => dj_spec (uwadj_of (mg m)) s ipred cs end.
(* ---- C13 / C14 / C15: file routines ---- *)
Definition dop_n (o : @dop Z) : @dop N :=
  match o with AddEdge s d l f => AddEdge s d (Z.to_N l) f | AddReciprocal a b l f => AddReciprocal a b (Z.to_N l) f | RemoveEdge s d => RemoveEdge s d
  | RemoveSelfLoops => RemoveSelfLoops | RemoveVertex x => RemoveVertex x | ClearEdges => ClearEdges | Resize n => Resize n
  | SetLabel s d l f => SetLabel s d (Z.to_N l) f | RemoveDuplicates => RemoveDuplicates end.
Definition uop_n (o : @uop Z) : @uop N :=
  match o with UAdd a b l f => UAdd a b (Z.to_N l) f | URemove a b => URemove a b | USelfLoops => USelfLoops | URemoveVertex x => URemoveVertex x
  | UClear => UClear | UResize n => UResize n | USetLabel a b l f => USetLabel a b (Z.to_N l) f | URemoveDuplicates => URemoveDuplicates end.
Definition d_binw_case (v : variant) (w n : nat) (ops : list (@dop Z)) :=
  let g := gfinal (step (hs_of w) v) (init n) (map dop_n ops) in
  bin_write_case v false w g n ++ match g with Some g0 => [io_err (fun e => [[zbool e]]) (obind (write_binary v false w g0) (fun b => obind (load_binary v false w b) (fun h =>
      obind (DirectedModel.lift (resize h (Nat.max (size h) (size g0)))) (fun h' => graph_eqb N.eqb h' g0))))] | None => [] end.
Definition u_binw_case (v : variant) (w n : nat) (ops : list (@uop Z)) :=
  let g := gfinal (ustep (hs_of w) v) (init n) (map uop_n ops) in
  bin_write_case v true w g n ++ match g with Some g0 => [io_err (fun e => [[zbool e]]) (obind (write_binary v true w g0) (fun b => obind (load_binary v true w b) (fun h =>
      obind (DirectedModel.lift (resize h (Nat.max (size h) (size g0)))) (fun h' => graph_eqb N.eqb h' g0))))] | None => [] end.
(* spec for the writer: one record per edge of the graph the history denotes, sorted by (source, destination); the reloaded graph equals the original *)
Definition binw_spec (w : nat) (a : option (@sgraph Z)) : list (option (list (list Z))) :=
  match a with None => [None; None; None] | Some a =>
    [ Some [zbytes (enc_records w (sort_by rec_leb (map (fun kv => (N.of_nat (fst (fst kv)), N.of_nat (snd (fst kv)), if Nat.eqb w 0 then 0%N else Z.to_N (snd kv))) (se a))))]; None; Some [[1]] ] end.
Definition d_binw_spec (w n : nat) (ops : list (@dop Z)) := binw_spec w (gsfinal rejected_code spec_step (s_init n) ops).
Definition u_binw_spec (w n : nat) (ops : list (@uop Z)) := binw_spec w (gsfinal u_rejected_code uspec_step (s_init n) ops).
Definition d_txtw_case (v : variant) (lk : tlabel) (n : nat) (ops : list (@dop Z)) :=
  text_write_case v false lk (gfinal (step (match lk with TNone => false | _ => true end) v) (init n) ops).
Definition u_txtw_case (v : variant) (lk : tlabel) (n : nat) (ops : list (@uop Z)) :=
  text_write_case v true lk (gfinal (ustep (match lk with TNone => false | _ => true end) v) (init n) ops).
Definition txtw_spec : list (option (list (list Z))) := [None; Some [[1]]].
