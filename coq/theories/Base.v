(* Base: outcomes, list utilities, association maps.  Stdlib only. *)
From Coq Require Export List Arith ZArith Lia Bool Permutation.
Export ListNotations.

Inductive exn := OutOfRange | InvalidArgument | RuntimeError | StdOutOfRange | StoiInvalid | StoiRange.
Inductive ubkind := IndexOOB | DerefEnd | HeapPrecondition | StaleRead | Fuel.
(* result of a mutator (the state at exit is returned beside it) *)
Inductive res := Done | Thrown (e : exn) | UBk (k : ubkind).
(* result of an observer *)
Inductive outcome (A : Type) := Val (a : A) | Raise (e : exn) | Undef (k : ubkind).
Arguments Val {A} a. Arguments Raise {A} e. Arguments Undef {A} k.

Definition edge := (nat * nat)%type.
Definition edge_eqb (a b : edge) : bool := Nat.eqb (fst a) (fst b) && Nat.eqb (snd a) (snd b).
Lemma edge_eqb_spec a b : reflect (a = b) (edge_eqb a b).
Proof. destruct a as [a1 a2], b as [b1 b2]; unfold edge_eqb; simpl.
  destruct (Nat.eqb_spec a1 b1), (Nat.eqb_spec a2 b2); constructor; congruence. Qed.
Lemma edge_eqb_refl a : edge_eqb a a = true.
Proof. destruct (edge_eqb_spec a a); congruence. Qed.

(* ---- vectors as lists ---- *)
Fixpoint upd {A} (i : nat) (f : A -> A) (l : list A) : list A :=
  match l with [] => [] | x :: t => match i with O => f x :: t | S i' => x :: upd i' f t end end.
Lemma upd_length {A} i f (l : list A) : length (upd i f l) = length l.
Proof. revert i; induction l as [|x t IH]; intros [|i]; simpl; auto. Qed.
Lemma nth_upd_eq {A} i f (l : list A) d : i < length l -> nth i (upd i f l) d = f (nth i l d).
Proof. revert i; induction l as [|x t IH]; intros [|i] H; simpl in *; try lia; auto. apply IH; lia. Qed.
Lemma nth_upd_neq {A} i k f (l : list A) d : k <> i -> nth k (upd i f l) d = nth k l d.
Proof. revert i k; induction l as [|x t IH]; intros [|i] [|k] H; simpl; auto; congruence. Qed.
Lemma nth_upd {A} i k f (l : list A) d : i < length l -> nth k (upd i f l) d = if Nat.eqb k i then f (nth i l d) else nth k l d.
Proof. intros H; destruct (Nat.eqb_spec k i) as [->|Hne]; [apply nth_upd_eq|apply nth_upd_neq]; auto. Qed.
Lemma nth_repeat {A} (a : A) n k : nth k (repeat a n) a = a.
Proof. revert k; induction n; intros [|k]; simpl; auto. Qed.
Lemma nth_app_repeat {A} (l : list A) a n k : nth k (l ++ repeat a n) a = nth k l a.
Proof. destruct (Nat.lt_ge_cases k (length l)); [apply app_nth1; auto|]. rewrite app_nth2, nth_repeat, nth_overflow; auto. Qed.

(* ---- membership / removal on neighbour lists ---- *)
Definition mem (d : nat) (l : list nat) : bool := existsb (Nat.eqb d) l.
Lemma mem_In d l : mem d l = true <-> In d l.
Proof. unfold mem; rewrite existsb_exists; split; [intros [x [H E]]; apply Nat.eqb_eq in E; subst; auto|intros H; exists d; split; auto; apply Nat.eqb_refl]. Qed.
Lemma mem_false d l : mem d l = false <-> ~ In d l.
Proof. rewrite <- mem_In; destruct (mem d l); split; congruence. Qed.
Definition remove_all (d : nat) (l : list nat) : list nat := filter (fun x => negb (Nat.eqb x d)) l.   (* std::list::remove *)
Lemma In_remove_all d x l : In x (remove_all d l) <-> In x l /\ x <> d.
Proof. unfold remove_all; rewrite filter_In. destruct (Nat.eqb_spec x d); simpl; intuition congruence. Qed.
Lemma remove_all_notin d l : ~ In d l -> remove_all d l = l.
Proof. induction l as [|h t IH]; simpl; auto. intros H. destruct (Nat.eqb_spec h d); simpl; [exfalso; apply H; auto|rewrite IH; auto]. Qed.
Lemma remove_all_length_nodup d l : NoDup l -> length l = length (remove_all d l) + (if mem d l then 1 else 0).
Proof. induction 1 as [|h t Hh ND IH]; simpl; auto. destruct (Nat.eqb_spec h d) as [->|Hne]; simpl.
  - rewrite remove_all_notin by auto. rewrite Nat.eqb_refl; simpl; lia.
  - rewrite IH. destruct (Nat.eqb_spec d h); [congruence|simpl]. lia. Qed.
Lemma NoDup_snoc (l : list nat) x : NoDup l -> ~ In x l -> NoDup (l ++ [x]).
Proof. induction l as [|a l IH]; simpl; intros H N; [constructor; auto; constructor|]. inversion H; subst.
  constructor; [rewrite in_app_iff; simpl; intuition|apply IH; intuition]. Qed.
Lemma flat_map_ext_in' {A B} (f g : A -> list B) l : (forall x, In x l -> f x = g x) -> flat_map f l = flat_map g l.
Proof. induction l as [|a l IH]; simpl; auto. intros H. rewrite H, IH; auto. Qed.
Lemma NoDup_app_intro {A} (l1 l2 : list A) : NoDup l1 -> NoDup l2 -> (forall x, In x l1 -> ~ In x l2) -> NoDup (l1 ++ l2).
Proof. induction l1 as [|a l1 IH]; simpl; auto. intros H1 H2 D. inversion H1; subst. constructor.
  - rewrite in_app_iff. intros [?|?]; [contradiction|]. eapply D; eauto.
  - apply IH; auto. Qed.
Lemma NoDup_remove_all d l : NoDup l -> NoDup (remove_all d l).
Proof. apply NoDup_filter. Qed.

(* ---- association maps keyed by edges: first binding wins, erase removes every binding ---- *)
Section LMap.
Context {L : Type}.
Definition lmap := list (edge * L).
Fixpoint lfind (e : edge) (m : lmap) : option L :=
  match m with [] => None | (k, v) :: m' => if edge_eqb k e then Some v else lfind e m' end.
Definition lerase (e : edge) (m : lmap) : lmap := filter (fun kv => negb (edge_eqb (fst kv) e)) m.
Definition lset (e : edge) (l : L) (m : lmap) : lmap := (e, l) :: lerase e m.
Lemma lfind_lerase e k m : lfind k (lerase e m) = if edge_eqb e k then None else lfind k m.
Proof. induction m as [|[k' v] m IH]; simpl; [destruct (edge_eqb e k); auto|].
  destruct (edge_eqb_spec k' e) as [->|Hne]; simpl.
  - destruct (edge_eqb_spec e k); auto.
  - destruct (edge_eqb_spec k' k) as [->|Hne2]; auto. destruct (edge_eqb_spec e k); [congruence|auto]. Qed.
Lemma lfind_lset e l k m : lfind k (lset e l m) = if edge_eqb e k then Some l else lfind k m.
Proof. unfold lset; simpl. destruct (edge_eqb_spec e k); auto. rewrite lfind_lerase. destruct (edge_eqb_spec e k); [congruence|auto]. Qed.
End LMap.

(* ---- outcome plumbing and the integer encoding of observations (what the correspondence check compares) ---- *)
Definition obind {A B} (o : outcome A) (f : A -> outcome B) : outcome B :=
  match o with Val a => f a | Raise e => Raise e | Undef k => Undef k end.
Definition omap {A B} (f : A -> B) (o : outcome A) : outcome B := obind o (fun a => Val (f a)).
Fixpoint omapM {A B} (f : A -> outcome B) (l : list A) : outcome (list B) :=
  match l with [] => Val [] | x :: t => obind (f x) (fun y => obind (omapM f t) (fun ys => Val (y :: ys))) end.
Definition zexn (e : exn) : Z :=
  match e with OutOfRange => -101 | InvalidArgument => -102 | RuntimeError => -103 | StdOutOfRange => -104 | StoiInvalid => -105 | StoiRange => -106 end%Z.
Definition zub : Z := (-199)%Z.
Definition zres (r : res) : Z := match r with Done => 0%Z | Thrown e => zexn e | UBk _ => zub end.
Definition zout {A} (f : A -> Z) (o : outcome A) : Z := match o with Val a => f a | Raise e => zexn e | Undef _ => zub end.
Definition zbool (b : bool) : Z := if b then 1%Z else 0%Z.
(* a vector-valued observer: its n entries, or n copies of the error code *)
Definition zvec {A} (f : A -> Z) (n : nat) (o : outcome (list A)) : list Z :=
  match o with Val l => map f l | Raise e => repeat (zexn e) n | Undef _ => repeat zub n end.
Definition count (x : nat) (l : list nat) : nat := length (filter (Nat.eqb x) l).
Definition pairs (n : nat) : list edge := flat_map (fun i => map (pair i) (seq 0 n)) (seq 0 n).
Lemma nth_map_seq {A} (f : nat -> A) n i d : i < n -> nth i (map f (seq 0 n)) d = f i.
Proof. intros H. rewrite (nth_indep _ d (f 0)) by (rewrite map_length, seq_length; auto). rewrite map_nth, seq_nth by auto. reflexivity. Qed.

(* ---- traces: what the correspondence check compares.  A history is a list of calls (inl) and out-of-range queries (inr v: every
   observer that takes a vertex is asked about v).  After every call: how it ended, then what every observer reports, then the answers
   to the query (empty for a call).  A thrown exception is caught by the caller and the history goes on; undefined behaviour ends it. ---- *)
Fixpoint gtrace {S O : Type} (step : S -> O -> S * res) (obs : S -> list (list Z)) (query : S -> nat -> list Z) (s : S) (ops : list (O + nat))
  : list (list (list Z)) :=
  match ops with
  | [] => []
  | inl o :: t => let '(s1, r) := step s o in ([zres r] :: obs s1 ++ [[]]) :: match r with UBk _ => [] | _ => gtrace step obs query s1 t end
  | inr v :: t => ([0%Z] :: obs s ++ [query s v]) :: gtrace step obs query s t end.
(* the spec side: Some = what must be reported, None = no opinion (forced calls, and everything after them) *)
Fixpoint gspec_trace {A O : Type} (ok : A -> bool) (rej : A -> O -> option Z) (sstep : A -> O -> A) (sobs : A -> list (list Z)) (sz : A -> nat) (qlen : nat)
  (a : A) (ops : list (O + nat)) : list (option (list (list Z))) :=
  let say (b : A) (x : list (list Z)) := if ok b then Some x else None in
  match ops with
  | [] => []
  | inl o :: t =>
    match rej a o with
    | None => map (fun _ => None) ops
    | Some c => if Z.eqb c 0 then let a' := sstep a o in say a' ([0%Z] :: sobs a' ++ [[]]) :: gspec_trace ok rej sstep sobs sz qlen a' t
                else say a ([c] :: sobs a ++ [[]]) :: gspec_trace ok rej sstep sobs sz qlen a t end
  | inr v :: t => (if Nat.ltb v (sz a) then None else say a ([0%Z] :: sobs a ++ [repeat (zexn OutOfRange) qlen])) :: gspec_trace ok rej sstep sobs sz qlen a t end.

(* ---- C06 cases: two histories from the same initial size, then operator== / != both ways, reflexivity, copy, assignment, independence
   (the last four are identities in a model of immutable values; the implementation has to earn them) ---- *)
Fixpoint gfinal {S O : Type} (step : S -> O -> S * res) (s : S) (ops : list O) : option S :=
  match ops with [] => Some s | o :: t => let '(s1, r) := step s o in match r with UBk _ => None | _ => gfinal step s1 t end end.
Definition eq_vector {S : Type} (eqb : S -> S -> outcome bool) (a b : option S) : list Z :=
  match a, b with
  | Some x, Some y => [zout zbool (eqb x y); zout zbool (eqb y x); zout (fun v => zbool (negb v)) (eqb x y); zout (fun v => zbool (negb v)) (eqb y x);
                       zout zbool (eqb x x); zout zbool (eqb y y); 1; 1; 1; 1]%Z
  | _, _ => repeat zub 10 end.
Fixpoint gsfinal {A O : Type} (rej : A -> O -> option Z) (sstep : A -> O -> A) (a : A) (ops : list O) : option A :=
  match ops with [] => Some a | o :: t => match rej a o with None => None | Some c => gsfinal rej sstep (if Z.eqb c 0 then sstep a o else a) t end end.
Definition lmap_sub {V : Type} (veq : V -> V -> bool) (m1 m2 : @lmap V) : bool :=
  forallb (fun kv => match lfind (fst kv) m2 with Some v' => veq (snd kv) v' | None => false end) m1.
Definition seq_vector (b : option bool) : option (list Z) :=
  match b with Some v => Some [zbool v; zbool v; zbool (negb v); zbool (negb v); 1; 1; 1; 1; 1; 1]%Z | None => None end.
