(* FloatTotalProofs — the operations of FloatTotal.v are Flocq's correctly rounded ones; rounding-error bound for the running total;
   exactness for dyadic weights.  Uses Flocq and the Coq Reals (the standard real-number axioms appear in Print Assumptions). *)
From Coq Require Import ZArith List Bool Arith Lia Reals Lra Floats.SpecFloat.
From Flocq Require Import Core BinarySingleNaN Relative Plus_error Operations.
From BG Require Import FloatTotal.
Import ListNotations.
Local Open Scope Z_scope.

(* ================= A. the fast operations are Flocq's ================= *)
Section Equiv.
  Variable prec emax : Z.
  Context (prec_gt_0_ : Prec_gt_0 prec).
  Context (prec_lt_emax_ : Prec_lt_emax prec emax).

  Lemma mkfin_eq : forall s m e b (H : SpecFloat.bounded prec emax m e = b) (H' : SpecFloat.bounded prec emax m e = true),
    mkfin prec emax s m e b H = B754_finite s m e H'.
  Proof.
    intros s m e b H H'. destruct b.
    - cbn [mkfin]. f_equal. apply Eqdep_dec.UIP_dec. exact Bool.bool_dec.
    - exfalso. assert (F : false = true) by (rewrite <- H; exact H'). discriminate F.
  Qed.
  Lemma mkB_B2SF : forall x : binary_float prec emax, mkB prec emax (B2SF x) = x.
  Proof. intros [s|s| |s m e H]; cbn [B2SF mkB]; try reflexivity. apply mkfin_eq. Qed.

  Lemma choice_NE : forall sx m l, choice_mode mode_NE sx m l = round_nearest_even m l.
  Proof.
    intros sx m l. unfold choice_mode, round_nearest_even, Round.cond_incr, Round.round_N.
    destruct l as [|[| |]]; try reflexivity. destruct (Z.even m); reflexivity.
  Qed.
  Lemma bra_eq : forall sx mx ex lx,
    BinarySingleNaN.binary_round_aux prec emax mode_NE sx mx ex lx = SpecFloat.binary_round_aux prec emax sx mx ex lx.
  Proof.
    intros sx mx ex lx. unfold BinarySingleNaN.binary_round_aux, SpecFloat.binary_round_aux.
    destruct (shr_fexp prec emax mx ex lx) as [mrs' e']. rewrite choice_NE.
    destruct (shr_fexp prec emax (round_nearest_even (shr_m mrs') (loc_of_shr_record mrs')) e' loc_Exact) as [mrs'' e''].
    destruct (shr_m mrs''); try reflexivity.
  Qed.
  Lemma br_eq : forall sx mx ex,
    BinarySingleNaN.binary_round prec emax mode_NE sx mx ex = SpecFloat.binary_round prec emax sx mx ex.
  Proof.
    intros sx mx ex. unfold BinarySingleNaN.binary_round, SpecFloat.binary_round, shl_align_fexp.
    destruct (shl_align mx ex (fexp prec emax (Z.pos (digits2_pos mx) + ex))) as [mz ez]. apply bra_eq.
  Qed.
  Lemma B2SF_bn : forall m e sz,
    B2SF (BinarySingleNaN.binary_normalize prec emax prec_gt_0_ prec_lt_emax_ mode_NE m e sz) = SpecFloat.binary_normalize prec emax m e sz.
  Proof.
    intros m e sz. unfold BinarySingleNaN.binary_normalize, SpecFloat.binary_normalize.
    destruct m as [|p|p]; try reflexivity; rewrite B2SF_SF2B; apply br_eq.
  Qed.
  Lemma B2SF_Bplus : forall x y : binary_float prec emax, B2SF (Bplus mode_NE x y) = SFadd prec emax (B2SF x) (B2SF y).
  Proof.
    intros [sx|sx| |sx mx ex Hx] [sy|sy| |sy my ey Hy]; cbn [Bplus SFadd B2SF]; try reflexivity.
    - destruct (Bool.eqb sx sy); reflexivity.
    - destruct (Bool.eqb sx sy); reflexivity.
    - unfold Fplus_naive. apply B2SF_bn.
  Qed.
  Lemma B2SF_Bminus : forall x y : binary_float prec emax, B2SF (Bminus mode_NE x y) = SFsub prec emax (B2SF x) (B2SF y).
  Proof.
    intros [sx|sx| |sx mx ex Hx] [sy|sy| |sy my ey Hy]; cbn [Bminus SFsub B2SF]; try reflexivity.
    - destruct (Bool.eqb sx (negb sy)); reflexivity.
    - destruct (Bool.eqb sx (negb sy)); reflexivity.
    - rewrite B2SF_bn. unfold Fplus_naive. f_equal. destruct sy; cbn [negb SpecFloat.cond_Zopp]; lia.
  Qed.
  Lemma B2SF_Bmult : forall x y : binary_float prec emax, B2SF (Bmult mode_NE x y) = SFmul prec emax (B2SF x) (B2SF y).
  Proof.
    intros [sx|sx| |sx mx ex Hx] [sy|sy| |sy my ey Hy]; cbn [Bmult SFmul B2SF]; try reflexivity.
    rewrite B2SF_SF2B. apply bra_eq.
  Qed.
  Theorem fadd_Bplus : forall x y, fadd prec emax x y = Bplus mode_NE x y.
  Proof. intros x y. unfold fadd. rewrite <- B2SF_Bplus. apply mkB_B2SF. Qed.
  Theorem fsub_Bminus : forall x y, fsub prec emax x y = Bminus mode_NE x y.
  Proof. intros x y. unfold fsub. rewrite <- B2SF_Bminus. apply mkB_B2SF. Qed.
  Theorem fmul_Bmult : forall x y, fmul prec emax x y = Bmult mode_NE x y.
  Proof. intros x y. unfold fmul. rewrite <- B2SF_Bmult. apply mkB_B2SF. Qed.
End Equiv.

(* ================= B. facts about one operation, any format ================= *)
Section Gen.
  Variable prec emax : Z.
  Context (prec_gt_0_ : Prec_gt_0 prec).
  Context (prec_lt_emax_ : Prec_lt_emax prec emax).
  Notation fexp := (SpecFloat.fexp prec emax).
  Notation rnd := (round radix2 fexp ZnearestE).
  Notation bfloat := (binary_float prec emax).

  Lemma mkB_SF2B : forall z (H : valid_binary prec emax z = true), mkB prec emax z = SF2B z H.
  Proof. intros z H. rewrite <- (mkB_B2SF prec emax (SF2B z H)), B2SF_SF2B. reflexivity. Qed.

  Lemma not_finite_overflow : forall (z : bfloat) s, B2SF z = binary_overflow prec emax mode_NE s -> is_finite z = false.
  Proof. intros z s H. rewrite <- is_finite_SF_B2SF, H. reflexivity. Qed.

  Lemma Bplus_fin_inv : forall x y : bfloat, is_finite (Bplus mode_NE x y) = true -> is_finite x = true /\ is_finite y = true.
  Proof.
    intros [sx|sx| |sx mx ex Hx] [sy|sy| |sy my ey Hy]; cbn [Bplus is_finite]; auto; try discriminate.
    destruct (Bool.eqb sx sy); discriminate.
  Qed.
  Lemma Bminus_fin_inv : forall x y : bfloat, is_finite (Bminus mode_NE x y) = true -> is_finite x = true /\ is_finite y = true.
  Proof.
    intros [sx|sx| |sx mx ex Hx] [sy|sy| |sy my ey Hy]; cbn [Bminus is_finite]; auto; try discriminate.
    destruct (Bool.eqb sx (negb sy)); discriminate.
  Qed.
  Lemma Bplus_fin_round : forall x y : bfloat, is_finite (Bplus mode_NE x y) = true ->
    B2R (Bplus mode_NE x y) = rnd (B2R x + B2R y).
  Proof.
    intros x y F. destruct (Bplus_fin_inv x y F) as [Fx Fy].
    generalize (Bplus_correct prec emax prec_gt_0_ prec_lt_emax_ mode_NE x y Fx Fy).
    destruct (Rlt_bool _ _).
    - intros [H _]. exact H.
    - intros [H _]. apply not_finite_overflow in H. rewrite H in F. discriminate F.
  Qed.
  Lemma Bminus_fin_round : forall x y : bfloat, is_finite (Bminus mode_NE x y) = true ->
    B2R (Bminus mode_NE x y) = rnd (B2R x - B2R y).
  Proof.
    intros x y F. destruct (Bminus_fin_inv x y F) as [Fx Fy].
    generalize (Bminus_correct prec emax prec_gt_0_ prec_lt_emax_ mode_NE x y Fx Fy).
    destruct (Rlt_bool _ _).
    - intros [H _]. exact H.
    - intros [H _]. apply not_finite_overflow in H. rewrite H in F. discriminate F.
  Qed.

  (* rounding error of a sum of two numbers of the format: relative, with NO absolute term (sums in the subnormal range are exact) *)
  Lemma plus_err : forall x y : R, generic_format radix2 fexp x -> generic_format radix2 fexp y ->
    (Rabs (rnd (x + y) - (x + y)) <= bpow radix2 (- prec) * Rabs (x + y))%R.
  Proof.
    intros x y Fx Fy.
    destruct (FLT_plus_error_N_ex radix2 (SpecFloat.emin prec emax) prec (fun n => negb (Z.even n)) x y Fx Fy) as [eps [Be He]].
    change (round radix2 (FLT_exp (SpecFloat.emin prec emax) prec) (Znearest (fun n => negb (Z.even n))) (x + y)) with (rnd (x + y)) in He.
    rewrite He.
    replace ((x + y) * (1 + eps) - (x + y))%R with ((x + y) * eps)%R by ring.
    rewrite Rabs_mult, Rmult_comm. apply Rmult_le_compat_r. apply Rabs_pos.
    eapply Rle_trans. exact Be. eapply Rle_trans. apply u_rod1pu_ro_le_u_ro.
    unfold u_ro. replace (- prec + 1)%Z with (1 + - prec)%Z by ring. rewrite bpow_plus. simpl (bpow radix2 1). lra.
  Qed.
  Lemma minus_err : forall x y : R, generic_format radix2 fexp x -> generic_format radix2 fexp y ->
    (Rabs (rnd (x - y) - (x - y)) <= bpow radix2 (- prec) * Rabs (x - y))%R.
  Proof. intros x y Fx Fy. apply (plus_err x (- y)%R Fx). apply generic_format_opp. exact Fy. Qed.

  (* a sum that is a small enough multiple of a power of two is computed exactly *)
  Lemma rnd_exact_F2R : forall (k e : Z), (Z.abs k < 2 ^ prec)%Z -> (SpecFloat.emin prec emax <= e)%Z -> (e + prec <= emax)%Z ->
    rnd (F2R (Float radix2 k e)) = F2R (Float radix2 k e) /\ (Rabs (F2R (Float radix2 k e)) < bpow radix2 emax)%R.
  Proof.
    intros k e Hk He Hm. split.
    - apply round_generic. apply valid_rnd_N.
      apply generic_format_FLT. exists (Float radix2 k e); [reflexivity| |exact He].
      cbn [Fnum]. change (radix2 : Z) with 2%Z. exact Hk.
    - rewrite <- F2R_Zabs. eapply Rlt_le_trans. 2: apply bpow_le; exact Hm.
      rewrite bpow_plus, Rmult_comm. unfold F2R; cbn [Fnum Fexp]. apply Rmult_lt_compat_r. apply bpow_gt_0.
      rewrite <- IZR_Zpower by (unfold Prec_gt_0 in prec_gt_0_; lia). apply IZR_lt. exact Hk.
  Qed.
  Lemma Bplus_exact : forall (x y : bfloat) (k e : Z), is_finite x = true -> is_finite y = true ->
    (B2R x + B2R y)%R = F2R (Float radix2 k e) -> (Z.abs k < 2 ^ prec)%Z -> (SpecFloat.emin prec emax <= e)%Z -> (e + prec <= emax)%Z ->
    B2R (Bplus mode_NE x y) = (B2R x + B2R y)%R /\ is_finite (Bplus mode_NE x y) = true.
  Proof.
    intros x y k e Fx Fy E Hk He Hm. destruct (rnd_exact_F2R k e Hk He Hm) as [R1 R2].
    generalize (Bplus_correct prec emax prec_gt_0_ prec_lt_emax_ mode_NE x y Fx Fy).
    rewrite E. cbn [round_mode]. rewrite R1, (Rlt_bool_true _ _ R2). intros [H1 [H2 _]]. split; assumption.
  Qed.
  Lemma Bminus_exact : forall (x y : bfloat) (k e : Z), is_finite x = true -> is_finite y = true ->
    (B2R x - B2R y)%R = F2R (Float radix2 k e) -> (Z.abs k < 2 ^ prec)%Z -> (SpecFloat.emin prec emax <= e)%Z -> (e + prec <= emax)%Z ->
    B2R (Bminus mode_NE x y) = (B2R x - B2R y)%R /\ is_finite (Bminus mode_NE x y) = true.
  Proof.
    intros x y k e Fx Fy E Hk He Hm. destruct (rnd_exact_F2R k e Hk He Hm) as [R1 R2].
    generalize (Bminus_correct prec emax prec_gt_0_ prec_lt_emax_ mode_NE x y Fx Fy).
    rewrite E. cbn [round_mode]. rewrite R1, (Rlt_bool_true _ _ R2). intros [H1 [H2 _]]. split; assumption.
  Qed.

  (* conversion from another format *)
  Lemma fconv_correct : forall (p' e' : Z) (x : binary_float p' e'), is_finite x = true ->
    if Rlt_bool (Rabs (rnd (B2R x))) (bpow radix2 emax)
    then B2R (fconv prec emax x) = rnd (B2R x) /\ is_finite (fconv prec emax x) = true
    else is_finite (fconv prec emax x) = false.
  Proof.
    intros p' e' [s|s| |s m e H] F; try discriminate F.
    - cbn [fconv B2R]. rewrite round_0 by apply valid_rnd_N. rewrite Rabs_R0, Rlt_bool_true by apply bpow_gt_0. split; reflexivity.
    - cbn [fconv B2R]. rewrite <- br_eq.
      generalize (binary_round_correct prec emax prec_gt_0_ prec_lt_emax_ mode_NE s m e).
      cbv zeta. intros [V C]. rewrite (mkB_SF2B _ V). cbn [round_mode] in C.
      destruct (Rlt_bool _ _).
      + destruct C as [C1 [C2 _]]. rewrite B2R_SF2B, is_finite_SF2B. split; assumption.
      + rewrite is_finite_SF2B, C. reflexivity.
  Qed.
End Gen.

(* ================= C. the two formats ================= *)
#[local] Instance p53 : Prec_gt_0 53 := eq_refl.
#[local] Instance pe53 : Prec_lt_emax 53 1024 := eq_refl.
#[local] Instance p64 : Prec_gt_0 64 := eq_refl.
#[local] Instance pe64 : Prec_lt_emax 64 16384 := eq_refl.
Notation rnd53 := (round radix2 (SpecFloat.fexp 53 1024) ZnearestE).
Notation rnd64 := (round radix2 (SpecFloat.fexp 64 16384) ZnearestE).
Notation fmt53 := (generic_format radix2 (SpecFloat.fexp 53 1024)).
Notation fmt64 := (generic_format radix2 (SpecFloat.fexp 64 16384)).

Theorem eadd_Bplus : forall x y, eadd x y = Bplus mode_NE x y.
Proof. exact (fadd_Bplus 64 16384 p64 pe64). Qed.
Theorem esub_Bminus : forall x y, esub x y = Bminus mode_NE x y.
Proof. exact (fsub_Bminus 64 16384 p64 pe64). Qed.
Theorem dsub_Bminus : forall x y, dsub x y = Bminus mode_NE x y.
Proof. exact (fsub_Bminus 53 1024 p53 pe53). Qed.
Theorem dmul_Bmult : forall x y, dmul x y = Bmult mode_NE x y.
Proof. exact (fmul_Bmult 53 1024 p53 pe53). Qed.

Lemma fmt53_fmt64 : forall x : R, fmt53 x -> fmt64 x.
Proof.
  intros x. apply generic_inclusion_mag. intros _. unfold SpecFloat.fexp, SpecFloat.emin. lia.
Qed.
(* every double is an extended number: the conversion is exact *)
Theorem ext_of_dbl_exact : forall x : dbl, B2R (ext_of_dbl x) = B2R x /\ is_finite (ext_of_dbl x) = is_finite x.
Proof.
  intros x. destruct (is_finite x) eqn:F.
  - generalize (fconv_correct 64 16384 p64 pe64 53 1024 x F).
    assert (G : rnd64 (B2R x) = B2R x).
    { apply round_generic. apply valid_rnd_N. apply fmt53_fmt64. apply generic_format_B2R. }
    rewrite G, Rlt_bool_true. intros H; exact H.
    eapply Rlt_trans. apply abs_B2R_lt_emax. apply bpow_lt. reflexivity.
  - destruct x; try discriminate F; split; reflexivity.
Qed.
Lemma B2R_done : B2R done = 1%R.
Proof.
  change (B2R done) with (F2R (Float radix2 (2 ^ 52) (-52))). unfold F2R; cbn [Fnum Fexp].
  change (IZR (2 ^ 52)) with (IZR (radix_val radix2 ^ 52)).
  rewrite (IZR_Zpower radix2 52) by lia. rewrite <- bpow_plus. reflexivity.
Qed.
(* weight * (double)1 is the weight *)
Lemma dmul_one : forall x : dbl, is_finite x = true -> B2R (dmul x done) = B2R x /\ is_finite (dmul x done) = true.
Proof.
  intros x F. rewrite dmul_Bmult.
  generalize (Bmult_correct 53 1024 p53 pe53 mode_NE x done). rewrite B2R_done, Rmult_1_r. cbn [round_mode].
  rewrite round_generic by (try apply valid_rnd_N; apply generic_format_B2R).
  rewrite Rlt_bool_true by apply abs_B2R_lt_emax.
  intros [H1 [H2 _]]. rewrite H2, F. split; [exact H1|reflexivity].
Qed.
Lemma Bminus_zero_r : forall x : ext, is_finite x = true ->
  B2R (Bminus mode_NE x (B754_zero false)) = B2R x /\ is_finite (Bminus mode_NE x (B754_zero false)) = true.
Proof. intros [s|s| |s m e H] F; try discriminate F; [destruct s|]; split; reflexivity. Qed.

(* ================= D. the rounding-error bound ================= *)
Local Open Scope R_scope.
Definition u64 : R := bpow radix2 (-64).     (* unit roundoff of the extended format *)
Definition u53 : R := bpow radix2 (-53).     (* unit roundoff of binary64 *)
(* the real sum of the weights of the present edges *)
Fixpoint rsum (l : list (nat * nat * dbl)) : R := match l with [] => 0 | (_, w) :: t => B2R w + rsum t end.

(* bound on the rounding error committed by one operation in state st: u64 * |exact result of the extended addition/subtraction|,
   plus u53 * |new - cur| for the double subtraction of setEdgeWeight; operations that do not touch the total commit none *)
Definition flocal (und : bool) (st : fstate) (o : fop) : R :=
  match o with
  | FAdd i j w => match flook (fkey und i j) (fw st) with Some _ => 0 | None => u64 * Rabs (B2R (ftot st) + B2R w) end
  | FSet i j w =>
    match flook (fkey und i j) (fw st) with
    | Some cur => u64 * Rabs (B2R (ftot st) + B2R (dsub w cur)) + u53 * Rabs (B2R w - B2R cur)
    | None => u64 * Rabs (B2R (ftot st) + B2R w)
    end
  | FRemove i j => match flook (fkey und i j) (fw st) with Some cur => u64 * Rabs (B2R (ftot st) - B2R cur) | None => 0 end
  | FClear => 0
  end.
Definition facc (und : bool) (st : fstate) (E : R) (o : fop) : R := match o with FClear => 0 | _ => E + flocal und st o end.
(* accumulated along a history (clearEdges resets the total, hence the error) *)
Fixpoint fbound_from (und : bool) (st : fstate) (E : R) (ops : list fop) : R :=
  match ops with [] => E | o :: t => fbound_from und (fstep und st o) (facc und st E o) t end.
Definition fbound (und : bool) (ops : list fop) : R := fbound_from und finit 0 ops.

Definition allfin (l : list (nat * nat * dbl)) : Prop := Forall (fun e => is_finite (snd e) = true) l.

Lemma rsum_fupd : forall k w l cur, flook k l = Some cur -> rsum (fupd k w l) = rsum l - B2R cur + B2R w.
Proof.
  intros k w l cur. induction l as [|[k' w'] t IH]; cbn [flook fupd]; [discriminate|].
  destruct (keq k k'); intros H.
  - injection H as ->. cbn [rsum]. ring.
  - cbn [rsum]. rewrite (IH H). ring.
Qed.
Lemma rsum_fdel : forall k l cur, flook k l = Some cur -> rsum (fdel k l) = rsum l - B2R cur.
Proof.
  intros k l cur. induction l as [|[k' w'] t IH]; cbn [flook fdel]; [discriminate|].
  destruct (keq k k'); intros H.
  - injection H as ->. cbn [rsum]. ring.
  - cbn [rsum]. rewrite (IH H). ring.
Qed.
Lemma allfin_flook : forall k l cur, allfin l -> flook k l = Some cur -> is_finite cur = true.
Proof.
  intros k l cur A. induction A as [|[k' w'] t Hw A IH]; cbn [flook]; [discriminate|].
  destruct (keq k k'); intros H; [injection H as <-; exact Hw|exact (IH H)].
Qed.
Lemma allfin_fupd : forall k w l, is_finite w = true -> allfin l -> allfin (fupd k w l).
Proof.
  intros k w l Fw A. induction A as [|[k' w'] t Hw A IH]; cbn [fupd]; [constructor|].
  destruct (keq k k'); constructor; assumption.
Qed.
Lemma allfin_fdel : forall k l, allfin l -> allfin (fdel k l).
Proof.
  intros k l A. induction A as [|[k' w'] t Hw A IH]; cbn [fdel]; [constructor|].
  destruct (keq k k'); [assumption|constructor; assumption].
Qed.

(* one extended addition / subtraction of a double, one double subtraction *)
Lemma eadd_err : forall (t : ext) (d : dbl), is_finite (eadd t (ext_of_dbl d)) = true ->
  is_finite d = true /\ Rabs (B2R (eadd t (ext_of_dbl d)) - (B2R t + B2R d)) <= u64 * Rabs (B2R t + B2R d).
Proof.
  intros t d. rewrite eadd_Bplus. intros F. destruct (ext_of_dbl_exact d) as [Ed Fd].
  destruct (Bplus_fin_inv 64 16384 p64 pe64 _ _ F) as [_ F2]. split. rewrite <- Fd; exact F2.
  rewrite (Bplus_fin_round 64 16384 p64 pe64 _ _ F), Ed.
  apply (plus_err 64 16384 p64). apply generic_format_B2R. apply fmt53_fmt64, generic_format_B2R.
Qed.
Lemma esub_err : forall (t : ext) (d : dbl), is_finite (esub t (ext_of_dbl d)) = true ->
  is_finite d = true /\ Rabs (B2R (esub t (ext_of_dbl d)) - (B2R t - B2R d)) <= u64 * Rabs (B2R t - B2R d).
Proof.
  intros t d. rewrite esub_Bminus. intros F. destruct (ext_of_dbl_exact d) as [Ed Fd].
  destruct (Bminus_fin_inv 64 16384 p64 pe64 _ _ F) as [_ F2]. split. rewrite <- Fd; exact F2.
  rewrite (Bminus_fin_round 64 16384 p64 pe64 _ _ F), Ed.
  apply (minus_err 64 16384 p64). apply generic_format_B2R. apply fmt53_fmt64, generic_format_B2R.
Qed.
Lemma dsub_err : forall w c : dbl, is_finite (dsub w c) = true ->
  is_finite w = true /\ is_finite c = true /\ Rabs (B2R (dsub w c) - (B2R w - B2R c)) <= u53 * Rabs (B2R w - B2R c).
Proof.
  intros w c. rewrite dsub_Bminus. intros F. destruct (Bminus_fin_inv 53 1024 p53 pe53 _ _ F) as [F1 F2]. split; [exact F1|split; [exact F2|]].
  rewrite (Bminus_fin_round 53 1024 p53 pe53 _ _ F). apply (minus_err 53 1024 p53); apply generic_format_B2R.
Qed.

Lemma Rabs_tri3 : forall a b c d e : R, Rabs a <= d -> Rabs b <= e -> Rabs (a + b + c) <= Rabs c + (d + e).
Proof. intros a b c d e Ha Hb. eapply Rle_trans. apply Rabs_triang. eapply Rle_trans. apply Rplus_le_compat_r. apply Rabs_triang. lra. Qed.
Lemma Rabs_tri2 : forall a c d : R, Rabs a <= d -> Rabs (a + c) <= Rabs c + d.
Proof. intros a c d Ha. eapply Rle_trans. apply Rabs_triang. lra. Qed.

Lemma fadd_edge_err : forall st k w, flook k (fw st) = None -> allfin (fw st) ->
  is_finite (ftot (fadd_edge st k w)) = true ->
  allfin (fw (fadd_edge st k w)) /\
  Rabs (B2R (ftot (fadd_edge st k w)) - rsum (fw (fadd_edge st k w))) <= Rabs (B2R (ftot st) - rsum (fw st)) + u64 * Rabs (B2R (ftot st) + B2R w).
Proof.
  intros st k w L A. unfold fadd_edge. rewrite L. cbn [ftot fw]. intros F.
  destruct (eadd_err _ _ F) as [Fw Err]. split. constructor; [exact Fw|exact A].
  cbn [rsum].
  replace (B2R (eadd (ftot st) (ext_of_dbl w)) - (B2R w + rsum (fw st)))
    with ((B2R (eadd (ftot st) (ext_of_dbl w)) - (B2R (ftot st) + B2R w)) + (B2R (ftot st) - rsum (fw st))) by ring.
  apply Rabs_tri2. exact Err.
Qed.

Lemma fstep_err : forall und st o, is_finite (ftot st) = true -> allfin (fw st) -> is_finite (ftot (fstep und st o)) = true ->
  allfin (fw (fstep und st o)) /\
  Rabs (B2R (ftot (fstep und st o)) - rsum (fw (fstep und st o))) <= facc und st (Rabs (B2R (ftot st) - rsum (fw st))) o.
Proof.
  intros und st o FT A. destruct o as [i j w|i j w|i j|]; cbn [fstep facc flocal].
  - (* addEdge *)
    destruct (flook (fkey und i j) (fw st)) as [cur|] eqn:L.
    + unfold fadd_edge. rewrite L. intros _. split. exact A. lra.
    + apply fadd_edge_err; assumption.
  - (* setEdgeWeight *)
    destruct (flook (fkey und i j) (fw st)) as [cur|] eqn:L.
    + cbn [ftot fw]. intros F. destruct (eadd_err _ _ F) as [Fd Err]. destruct (dsub_err _ _ Fd) as [Fw [Fc Err2]].
      split. apply allfin_fupd; assumption.
      rewrite (rsum_fupd _ _ _ _ L).
      replace (B2R (eadd (ftot st) (ext_of_dbl (dsub w cur))) - (rsum (fw st) - B2R cur + B2R w))
        with ((B2R (eadd (ftot st) (ext_of_dbl (dsub w cur))) - (B2R (ftot st) + B2R (dsub w cur)))
              + (B2R (dsub w cur) - (B2R w - B2R cur)) + (B2R (ftot st) - rsum (fw st))) by ring.
      apply Rabs_tri3; assumption.
    + apply fadd_edge_err; assumption.
  - (* removeEdge *)
    destruct (flook (fkey und i j) (fw st)) as [cur|] eqn:L.
    + cbn [ftot fw]. intros F. destruct (dmul_one cur (allfin_flook _ _ _ A L)) as [Em Fm].
      destruct (esub_err _ _ F) as [_ Err]. rewrite Em in Err.
      split. apply allfin_fdel; assumption.
      rewrite (rsum_fdel _ _ _ L).
      replace (B2R (esub (ftot st) (ext_of_dbl (dmul cur done))) - (rsum (fw st) - B2R cur))
        with ((B2R (esub (ftot st) (ext_of_dbl (dmul cur done))) - (B2R (ftot st) - B2R cur)) + (B2R (ftot st) - rsum (fw st))) by ring.
      apply Rabs_tri2. exact Err.
    + destruct und.
      * intros _. split. exact A. lra.
      * cbn [ftot fw]. intros _. split. exact A.
        change (ext_of_dbl (dmul dzero dzero)) with (B754_zero false : ext). rewrite esub_Bminus.
        destruct (Bminus_zero_r _ FT) as [E _]. rewrite E. lra.
  - (* clearEdges *)
    cbn [ftot fw rsum]. intros _. split. constructor. cbn [B2R ezero]. rewrite Rminus_0_r, Rabs_R0. lra.
Qed.

Lemma frun_err_from : forall und ops st E, is_finite (ftot st) = true -> allfin (fw st) ->
  Rabs (B2R (ftot st) - rsum (fw st)) <= E ->
  forallb is_finite (ftotals_from und st ops) = true ->
  is_finite (ftot (frun_from und st ops)) = true /\ allfin (fw (frun_from und st ops)) /\
  Rabs (B2R (ftot (frun_from und st ops)) - rsum (fw (frun_from und st ops))) <= fbound_from und st E ops.
Proof.
  intros und ops. induction ops as [|o t IH]; intros st E FT A HE Hok; cbn [frun_from fbound_from].
  - split; [exact FT|split; [exact A|exact HE]].
  - cbn [ftotals_from forallb] in Hok. apply andb_true_iff in Hok. destruct Hok as [F1 F2].
    destruct (fstep_err und st o FT A F1) as [A' Err].
    apply IH; try assumption. eapply Rle_trans. exact Err. unfold facc. destruct o; lra.
Qed.

(* (2) THE ERROR THEOREM: along any history without overflow, the long double total differs from the real sum of the stored weights
   by at most the accumulated local rounding errors *)
Theorem ftotal_error : forall (und : bool) (ops : list fop), fok und ops = true ->
  Rabs (B2R (ftot (frun und ops)) - rsum (fw (frun und ops))) <= fbound und ops.
Proof.
  intros und ops Hok. unfold frun, fbound.
  apply (frun_err_from und ops finit 0); try assumption; try reflexivity. constructor.
  cbn [finit ftot fw rsum B2R ezero]. rewrite Rminus_0_r, Rabs_R0. lra.
Qed.
(* along such a history every stored weight is finite and the total is finite *)
Theorem fok_finite : forall (und : bool) (ops : list fop), fok und ops = true ->
  is_finite (ftot (frun und ops)) = true /\ allfin (fw (frun und ops)).
Proof.
  intros und ops Hok. unfold frun.
  destruct (frun_err_from und ops finit 0) as [H1 [H2 _]]; try assumption; try reflexivity. constructor.
  cbn [finit ftot fw rsum B2R ezero]. rewrite Rminus_0_r, Rabs_R0. lra. split; assumption.
Qed.

(* ---- closed form ---- *)
(* absolute value of the exact change of the real sum caused by one operation *)
Definition finc (und : bool) (st : fstate) (o : fop) : R :=
  match o with
  | FAdd i j w => match flook (fkey und i j) (fw st) with Some _ => 0 | None => Rabs (B2R w) end
  | FSet i j w => match flook (fkey und i j) (fw st) with Some cur => Rabs (B2R w - B2R cur) | None => Rabs (B2R w) end
  | FRemove i j => match flook (fkey und i j) (fw st) with Some cur => Rabs (B2R cur) | None => 0 end
  | FClear => 0
  end.
Fixpoint fabsinc_from (und : bool) (st : fstate) (ops : list fop) : R :=
  match ops with [] => 0 | o :: t => finc und st o + fabsinc_from und (fstep und st o) t end.
Definition fabsinc (und : bool) (ops : list fop) : R := fabsinc_from und finit ops.
Definition gfac : R := (1 + u64) * (1 + u53).

Lemma u64_pos : 0 < u64. Proof. apply bpow_gt_0. Qed.
Lemma u53_pos : 0 < u53. Proof. apply bpow_gt_0. Qed.
Lemma finc_nonneg : forall und st o, 0 <= finc und st o.
Proof. intros und st o. destruct o; cbn [finc]; try destruct (flook _ _); try apply Rabs_pos; lra. Qed.

Lemma arith_step : forall G E S a X Y : R, 1 <= G -> 0 <= S -> 0 <= a -> 0 <= E -> E <= (G - 1) * S ->
  u64 * X + Y <= u64 * (S + E) + (gfac - 1) * a ->
  E + (u64 * X + Y) <= (gfac * G - 1) * (S + a).
Proof.
  intros G E S a X Y HG HS Ha HE HES HXY. assert (U := u64_pos). assert (V := u53_pos). unfold gfac in *.
  assert (P1 : E * (1 + u64) <= (G - 1) * S * (1 + u64)) by (apply Rmult_le_compat_r; lra).
  assert (P2 : 0 <= G * S * (u53 + u64 * u53)) by (apply Rmult_le_pos; [apply Rmult_le_pos; lra|]; nra).
  assert (P3 : 0 <= (G - 1) * a * ((1 + u64) * (1 + u53))) by (apply Rmult_le_pos; [apply Rmult_le_pos; lra|]; nra).
  nra.
Qed.
Lemma arith_noop : forall G E S a : R, 1 <= G -> 0 <= S -> 0 <= a -> 0 <= E -> E <= (G - 1) * S -> E <= (gfac * G - 1) * (S + a).
Proof.
  intros G E S a HG HS Ha HE HES. replace E with (E + (u64 * 0 + 0)) by ring. apply arith_step; try assumption.
  assert (U := u64_pos). assert (V := u53_pos). unfold gfac.
  assert (0 <= u64 * (S + E)) by (apply Rmult_le_pos; lra). assert (0 <= ((1 + u64) * (1 + u53) - 1) * a) by (apply Rmult_le_pos; nra). lra.
Qed.
Lemma Rabs_le_plus : forall t r e : R, Rabs (t - r) <= e -> Rabs t <= Rabs r + e.
Proof. intros t r e H. replace t with ((t - r) + r) at 1 by ring. eapply Rle_trans. apply Rabs_triang. lra. Qed.

Lemma fstep_closed : forall und st o G E S, is_finite (ftot st) = true -> allfin (fw st) -> is_finite (ftot (fstep und st o)) = true ->
  Rabs (B2R (ftot st) - rsum (fw st)) <= E -> Rabs (rsum (fw st)) <= S -> 1 <= G -> 0 <= E -> E <= (G - 1) * S ->
  Rabs (rsum (fw (fstep und st o))) <= S + finc und st o /\
  0 <= facc und st E o /\
  facc und st E o <= (gfac * G - 1) * (S + finc und st o).
Proof.
  intros und st o G E S FT A F' HE HS HG HE0 HES.
  assert (S0 : 0 <= S) by (eapply Rle_trans; [apply Rabs_pos|exact HS]).
  assert (U := u64_pos). assert (V := u53_pos).
  assert (HT : Rabs (B2R (ftot st)) <= S + E) by (eapply Rle_trans; [apply (Rabs_le_plus _ _ _ HE)|lra]).
  assert (g1 : 1 <= gfac) by (unfold gfac; assert (0 <= u64 * u53) by (apply Rmult_le_pos; lra); lra).
  assert (Gg : 1 <= gfac * G) by (replace 1 with (1 * 1) at 1 by ring; apply Rmult_le_compat; lra).
  assert (ADD : forall k w, flook k (fw st) = None -> is_finite (ftot (fadd_edge st k w)) = true ->
     Rabs (rsum (fw (fadd_edge st k w))) <= S + Rabs (B2R w) /\ 0 <= E + u64 * Rabs (B2R (ftot st) + B2R w) /\
     E + u64 * Rabs (B2R (ftot st) + B2R w) <= (gfac * G - 1) * (S + Rabs (B2R w))).
  { intros k w L _. unfold fadd_edge. rewrite L. cbn [fw rsum]. split; [|split].
    - eapply Rle_trans. apply Rabs_triang. lra.
    - assert (0 <= u64 * Rabs (B2R (ftot st) + B2R w)) by (apply Rmult_le_pos; [lra|apply Rabs_pos]). lra.
    - replace (u64 * Rabs (B2R (ftot st) + B2R w)) with (u64 * Rabs (B2R (ftot st) + B2R w) + 0) by ring.
      apply arith_step; try assumption. apply Rabs_pos.
      assert (T3 : Rabs (B2R (ftot st) + B2R w) <= S + E + Rabs (B2R w)) by (eapply Rle_trans; [apply Rabs_triang|lra]).
      assert (P := Rabs_pos (B2R w)). unfold gfac.
      assert (u64 * Rabs (B2R (ftot st) + B2R w) <= u64 * (S + E + Rabs (B2R w))) by (apply Rmult_le_compat_l; lra).
      assert (0 <= (u53 + u64 * u53) * Rabs (B2R w)) by (apply Rmult_le_pos; nra). nra. }
  destruct o as [i j w|i j w|i j|]; cbn [fstep facc flocal finc] in *.
  - destruct (flook (fkey und i j) (fw st)) as [cur|] eqn:L.
    + unfold fadd_edge. rewrite L. rewrite !Rplus_0_r. split; [exact HS|split; [exact HE0|]].
      replace S with (S + 0) at 1 by ring. apply arith_noop; try assumption; lra.
    + apply ADD; assumption.
  - destruct (flook (fkey und i j) (fw st)) as [cur|] eqn:L.
    + cbn [ftot fw] in *. destruct (eadd_err _ _ F') as [Fd _]. destruct (dsub_err _ _ Fd) as [Fw [Fc Err2]].
      set (a := Rabs (B2R w - B2R cur)) in *. assert (Pa := Rabs_pos (B2R w - B2R cur)). fold a in Pa.
      assert (Hd : Rabs (B2R (dsub w cur)) <= (1 + u53) * a).
      { replace (B2R (dsub w cur)) with ((B2R (dsub w cur) - (B2R w - B2R cur)) + (B2R w - B2R cur)) by ring.
        eapply Rle_trans. apply Rabs_triang. fold a. lra. }
      assert (T3 : Rabs (B2R (ftot st) + B2R (dsub w cur)) <= S + E + (1 + u53) * a) by (eapply Rle_trans; [apply Rabs_triang|lra]).
      assert (PX := Rabs_pos (B2R (ftot st) + B2R (dsub w cur))).
      split; [|split].
      * rewrite (rsum_fupd _ _ _ _ L). replace (rsum (fw st) - B2R cur + B2R w) with (rsum (fw st) + (B2R w - B2R cur)) by ring.
        eapply Rle_trans. apply Rabs_triang. fold a. lra.
      * assert (0 <= u64 * Rabs (B2R (ftot st) + B2R (dsub w cur))) by (apply Rmult_le_pos; lra).
        assert (0 <= u53 * a) by (apply Rmult_le_pos; lra). lra.
      * apply arith_step; try assumption.
        assert (u64 * Rabs (B2R (ftot st) + B2R (dsub w cur)) <= u64 * (S + E + (1 + u53) * a)) by (apply Rmult_le_compat_l; lra).
        unfold gfac. nra.
    + apply ADD; assumption.
  - destruct (flook (fkey und i j) (fw st)) as [cur|] eqn:L.
    + cbn [ftot fw] in *. split; [|split].
      * rewrite (rsum_fdel _ _ _ L). unfold Rminus. eapply Rle_trans. apply Rabs_triang. rewrite Rabs_Ropp. lra.
      * assert (0 <= u64 * Rabs (B2R (ftot st) - B2R cur)) by (apply Rmult_le_pos; [lra|apply Rabs_pos]). lra.
      * replace (u64 * Rabs (B2R (ftot st) - B2R cur)) with (u64 * Rabs (B2R (ftot st) - B2R cur) + 0) by ring.
        apply arith_step; try assumption. apply Rabs_pos.
        assert (T3 : Rabs (B2R (ftot st) - B2R cur) <= S + E + Rabs (B2R cur)).
        { unfold Rminus. eapply Rle_trans. apply Rabs_triang. rewrite Rabs_Ropp. lra. }
        assert (P := Rabs_pos (B2R cur)). unfold gfac.
        assert (u64 * Rabs (B2R (ftot st) - B2R cur) <= u64 * (S + E + Rabs (B2R cur))) by (apply Rmult_le_compat_l; lra).
        assert (0 <= (u53 + u64 * u53) * Rabs (B2R cur)) by (apply Rmult_le_pos; nra). nra.
    + rewrite !Rplus_0_r. assert (R' : rsum (fw (if und then st else {| fw := fw st; ftot := esub (ftot st) (ext_of_dbl (dmul dzero dzero)) |})) = rsum (fw st))
        by (destruct und; reflexivity).
      rewrite R'. split; [exact HS|split; [exact HE0|]].
      replace S with (S + 0) at 1 by ring. apply arith_noop; try assumption; lra.
  - cbn [fw rsum]. rewrite Rabs_R0, Rplus_0_r. split; [exact S0|split; [lra|]]. apply Rmult_le_pos; lra.
Qed.

Lemma gfac_ge_1 : 1 <= gfac.
Proof. assert (U := u64_pos). assert (V := u53_pos). unfold gfac. assert (0 <= u64 * u53) by (apply Rmult_le_pos; lra). lra. Qed.
Lemma fabsinc_from_nonneg : forall und ops st, 0 <= fabsinc_from und st ops.
Proof. intros und ops. induction ops as [|o t IH]; intros st; cbn [fabsinc_from]. lra. assert (H := finc_nonneg und st o). specialize (IH (fstep und st o)). lra. Qed.

Lemma fbound_closed_from : forall und ops st E S n, is_finite (ftot st) = true -> allfin (fw st) ->
  forallb is_finite (ftotals_from und st ops) = true ->
  Rabs (B2R (ftot st) - rsum (fw st)) <= E -> Rabs (rsum (fw st)) <= S -> 0 <= E -> E <= (gfac ^ n - 1) * S ->
  fbound_from und st E ops <= (gfac ^ (n + length ops) - 1) * (S + fabsinc_from und st ops).
Proof.
  intros und ops. induction ops as [|o t IH]; intros st E S n FT A Hok HE HS HE0 HES; cbn [fbound_from fabsinc_from length].
  - rewrite Nat.add_0_r, Rplus_0_r. exact HES.
  - cbn [ftotals_from forallb] in Hok. apply andb_true_iff in Hok. destruct Hok as [F1 F2].
    destruct (fstep_err und st o FT A F1) as [A' Err].
    assert (HG : 1 <= gfac ^ n) by (apply pow_R1_Rle, gfac_ge_1).
    destruct (fstep_closed und st o (gfac ^ n) E S FT A F1 HE HS HG HE0 HES) as [HS' [HE0' HES']].
    replace (n + Datatypes.S (length t))%nat with (Datatypes.S n + length t)%nat by lia. rewrite <- Rplus_assoc.
    apply IH; try assumption.
    eapply Rle_trans. exact Err. unfold facc. destruct o; lra.
Qed.

(* classical closed form: n operations, S = sum of the absolute values of the exact increments of the real sum *)
Theorem fbound_closed : forall (und : bool) (ops : list fop), fok und ops = true ->
  fbound und ops <= (((1 + u64) * (1 + u53)) ^ length ops - 1) * fabsinc und ops.
Proof.
  intros und ops Hok. unfold fbound, fabsinc. fold gfac.
  replace (fabsinc_from und finit ops) with (0 + fabsinc_from und finit ops) by ring.
  apply (fbound_closed_from und ops finit 0 0 0%nat); try assumption; try reflexivity; try lra.
  - constructor.
  - cbn [finit ftot fw rsum B2R ezero]. rewrite Rminus_0_r, Rabs_R0. lra.
  - cbn [finit fw rsum]. rewrite Rabs_R0. lra.
Qed.
Lemma gfac_le : gfac <= 1 + bpow radix2 (-52).
Proof.
  unfold gfac, u64, u53. change (-64)%Z with (-11 + -53)%Z. change (-52)%Z with (1 + -53)%Z. rewrite !bpow_plus.
  assert (V := bpow_gt_0 radix2 (-53)).
  assert (V1 : bpow radix2 (-53) <= 1) by (change 1 with (bpow radix2 0); apply bpow_le; lia).
  change (bpow radix2 1) with 2. change (bpow radix2 (-11)) with (/ 2048).
  assert (0 <= bpow radix2 (-53) * bpow radix2 (-53) <= bpow radix2 (-53)) by nra. lra.
Qed.
Theorem ftotal_error_closed : forall (und : bool) (ops : list fop), fok und ops = true ->
  Rabs (B2R (ftot (frun und ops)) - rsum (fw (frun und ops))) <= ((1 + bpow radix2 (-52)) ^ length ops - 1) * fabsinc und ops.
Proof.
  intros und ops Hok. eapply Rle_trans. apply ftotal_error; exact Hok. eapply Rle_trans. apply fbound_closed; exact Hok.
  fold gfac. apply Rmult_le_compat_r. apply fabsinc_from_nonneg.
  apply Rplus_le_compat_r. apply pow_incr. split. assert (H := gfac_ge_1); lra. apply gfac_le.
Qed.

(* ================= E. exactness for dyadic weights ================= *)
(* w = k/4 with |k| < 2^40 *)
Definition q4 (w : dbl) : Prop := is_finite w = true /\ exists k : Z, (Z.abs k < 2 ^ 40)%Z /\ B2R w = IZR k / 4.
Definition fop_q4 (o : fop) : Prop := match o with FAdd _ _ w => q4 w | FSet _ _ w => q4 w | _ => True end.
Definition allq4 (l : list (nat * nat * dbl)) : Prop := Forall (fun e => q4 (snd e)) l.

Lemma F2R_q : forall k : Z, F2R (Float radix2 k (-2)) = IZR k / 4.
Proof. intros k. unfold F2R; cbn [Fnum Fexp]. change (bpow radix2 (-2)) with (/ 4). reflexivity. Qed.
Lemma allq4_allfin : forall l, allq4 l -> allfin l.
Proof. intros l H. induction H as [|e t [F _] _ IH]; constructor; assumption. Qed.
Lemma allq4_rsum : forall l, allq4 l -> exists K : Z, (Z.abs K <= Z.of_nat (length l) * 2 ^ 40)%Z /\ rsum l = IZR K / 4.
Proof.
  intros l H. induction H as [|[k w] t [F [kw [Bk Ek]]] _ [K [BK EK]]].
  - exists 0%Z. split. cbn. lia. cbn [rsum]. lra.
  - exists (kw + K)%Z. split.
    + cbn [length]. rewrite Nat2Z.inj_succ. lia.
    + cbn [rsum snd] in *. rewrite Ek, EK, plus_IZR. lra.
Qed.
Lemma allq4_flook : forall k l cur, allq4 l -> flook k l = Some cur -> q4 cur.
Proof.
  intros k l cur A. induction A as [|[k' w'] t Hw A IH]; cbn [flook]; [discriminate|].
  destruct (keq k k'); intros H; [injection H as <-; exact Hw|exact (IH H)].
Qed.
Lemma allq4_fupd : forall k w l, q4 w -> allq4 l -> allq4 (fupd k w l).
Proof.
  intros k w l Fw A. induction A as [|[k' w'] t Hw A IH]; cbn [fupd]; [constructor|].
  destruct (keq k k'); constructor; assumption.
Qed.
Lemma allq4_fdel : forall k l, allq4 l -> allq4 (fdel k l).
Proof.
  intros k l A. induction A as [|[k' w'] t Hw A IH]; cbn [fdel]; [constructor|].
  destruct (keq k k'); [assumption|constructor; assumption].
Qed.
Lemma length_fupd : forall k w l, length (fupd k w l) = length l.
Proof. intros k w l. induction l as [|[k' w'] t IH]; cbn [fupd]; [reflexivity|]. destruct (keq k k'); cbn [length]; congruence. Qed.
Lemma length_fdel : forall k l, (length (fdel k l) <= length l)%nat.
Proof. intros k l. induction l as [|[k' w'] t IH]; cbn [fdel]; [lia|]. destruct (keq k k'); cbn [length]; lia. Qed.

(* an extended addition whose exact result is the real sum of at most 1024 weights of the form k/4 is exact *)
Lemma eadd_q4 : forall (t : ext) (d : dbl) (l : list (nat * nat * dbl)), is_finite t = true -> is_finite d = true ->
  allq4 l -> (length l <= 1024)%nat -> B2R t + B2R d = rsum l ->
  B2R (eadd t (ext_of_dbl d)) = rsum l /\ is_finite (eadd t (ext_of_dbl d)) = true.
Proof.
  intros t d l Ft Fd Al Ll E. destruct (allq4_rsum l Al) as [K [BK EK]]. destruct (ext_of_dbl_exact d) as [Ed Fd'].
  rewrite eadd_Bplus. rewrite <- E. rewrite <- Ed.
  apply (Bplus_exact 64 16384 p64 pe64 _ _ K (-2)%Z); try assumption.
  - rewrite Fd'; exact Fd.
  - rewrite Ed, E, EK. symmetry; apply F2R_q.
  - assert (Z.of_nat (length l) <= 1024)%Z by lia. change (2 ^ 64)%Z with (2 ^ 24 * 2 ^ 40)%Z. nia.
  - unfold SpecFloat.emin. lia.
  - lia.
Qed.
Lemma esub_q4 : forall (t : ext) (d : dbl) (l : list (nat * nat * dbl)), is_finite t = true -> is_finite d = true ->
  allq4 l -> (length l <= 1024)%nat -> B2R t - B2R d = rsum l ->
  B2R (esub t (ext_of_dbl d)) = rsum l /\ is_finite (esub t (ext_of_dbl d)) = true.
Proof.
  intros t d l Ft Fd Al Ll E. destruct (allq4_rsum l Al) as [K [BK EK]]. destruct (ext_of_dbl_exact d) as [Ed Fd'].
  rewrite esub_Bminus. rewrite <- E. rewrite <- Ed.
  apply (Bminus_exact 64 16384 p64 pe64 _ _ K (-2)%Z); try assumption.
  - rewrite Fd'; exact Fd.
  - rewrite Ed, E, EK. symmetry; apply F2R_q.
  - assert (Z.of_nat (length l) <= 1024)%Z by lia. change (2 ^ 64)%Z with (2 ^ 24 * 2 ^ 40)%Z. nia.
  - unfold SpecFloat.emin. lia.
  - lia.
Qed.
Lemma dsub_q4 : forall w c : dbl, q4 w -> q4 c -> B2R (dsub w c) = B2R w - B2R c /\ is_finite (dsub w c) = true.
Proof.
  intros w c [Fw [kw [Bw Ew]]] [Fc [kc [Bc Ec]]]. rewrite dsub_Bminus.
  apply (Bminus_exact 53 1024 p53 pe53 _ _ (kw - kc) (-2)%Z); try assumption.
  - rewrite Ew, Ec, F2R_q, minus_IZR. lra.
  - change (2 ^ 53)%Z with (2 ^ 13 * 2 ^ 40)%Z. lia.
  - unfold SpecFloat.emin. lia.
  - lia.
Qed.

Lemma fstep_q4 : forall und st o (n : nat), fop_q4 o -> is_finite (ftot st) = true -> allq4 (fw st) -> (length (fw st) <= n)%nat -> (n < 1024)%nat ->
  B2R (ftot st) = rsum (fw st) ->
  is_finite (ftot (fstep und st o)) = true /\ allq4 (fw (fstep und st o)) /\ (length (fw (fstep und st o)) <= Datatypes.S n)%nat /\
  B2R (ftot (fstep und st o)) = rsum (fw (fstep und st o)).
Proof.
  intros und st o n Q FT A Ln Hn E.
  assert (ADD : forall k w, q4 w -> flook k (fw st) = None ->
    is_finite (ftot (fadd_edge st k w)) = true /\ allq4 (fw (fadd_edge st k w)) /\ (length (fw (fadd_edge st k w)) <= Datatypes.S n)%nat /\
    B2R (ftot (fadd_edge st k w)) = rsum (fw (fadd_edge st k w))).
  { intros k w Qw L. unfold fadd_edge. rewrite L. cbn [ftot fw].
    assert (A' : allq4 ((k, w) :: fw st)) by (constructor; assumption).
    destruct (eadd_q4 (ftot st) w ((k, w) :: fw st) FT (proj1 Qw) A') as [E1 F1].
    - cbn [length]. lia.
    - cbn [rsum]. rewrite E. ring.
    - split; [exact F1|split; [exact A'|split; [cbn [length]; lia|exact E1]]]. }
  destruct o as [i j w|i j w|i j|]; cbn [fstep fop_q4] in *.
  - destruct (flook (fkey und i j) (fw st)) as [cur|] eqn:L.
    + unfold fadd_edge. rewrite L. split; [exact FT|split; [exact A|split; [lia|exact E]]].
    + apply ADD; assumption.
  - destruct (flook (fkey und i j) (fw st)) as [cur|] eqn:L.
    + cbn [ftot fw]. assert (Qc := allq4_flook _ _ _ A L). destruct (dsub_q4 w cur Q Qc) as [Ed Fd].
      assert (A' := allq4_fupd (fkey und i j) w (fw st) Q A).
      destruct (eadd_q4 (ftot st) (dsub w cur) (fupd (fkey und i j) w (fw st)) FT Fd A') as [E1 F1].
      * rewrite length_fupd. lia.
      * rewrite (rsum_fupd _ _ _ _ L), Ed, E. ring.
      * split; [exact F1|split; [exact A'|split; [rewrite length_fupd; lia|exact E1]]].
    + apply ADD; assumption.
  - destruct (flook (fkey und i j) (fw st)) as [cur|] eqn:L.
    + cbn [ftot fw]. assert (Qc := allq4_flook _ _ _ A L). destruct (dmul_one cur (proj1 Qc)) as [Em Fm].
      assert (A' := allq4_fdel (fkey und i j) (fw st) A). assert (L' := length_fdel (fkey und i j) (fw st)).
      destruct (esub_q4 (ftot st) (dmul cur done) (fdel (fkey und i j) (fw st)) FT Fm A') as [E1 F1].
      * lia.
      * rewrite (rsum_fdel _ _ _ L), Em, E. ring.
      * split; [exact F1|split; [exact A'|split; [lia|exact E1]]].
    + destruct und.
      * split; [exact FT|split; [exact A|split; [lia|exact E]]].
      * cbn [ftot fw]. change (ext_of_dbl (dmul dzero dzero)) with (B754_zero false : ext). rewrite esub_Bminus.
        destruct (Bminus_zero_r _ FT) as [E1 F1]. split; [exact F1|split; [exact A|split; [lia|rewrite E1; exact E]]].
  - cbn [ftot fw]. split; [reflexivity|split; [constructor|split; [cbn [length]; lia|reflexivity]]].
Qed.

Lemma frun_q4_from : forall und ops st (n : nat), Forall fop_q4 ops -> is_finite (ftot st) = true -> allq4 (fw st) -> (length (fw st) <= n)%nat ->
  (n + length ops <= 1024)%nat -> B2R (ftot st) = rsum (fw st) ->
  forallb is_finite (ftotals_from und st ops) = true /\
  is_finite (ftot (frun_from und st ops)) = true /\ allq4 (fw (frun_from und st ops)) /\ (length (fw (frun_from und st ops)) <= 1024)%nat /\
  B2R (ftot (frun_from und st ops)) = rsum (fw (frun_from und st ops)).
Proof.
  intros und ops. induction ops as [|o t IH]; intros st n Q FT A Ln Hn E; cbn [frun_from ftotals_from forallb length] in *.
  - split; [reflexivity|split; [exact FT|split; [exact A|split; [lia|exact E]]]].
  - inversion Q as [|o' t' Qo Qt]; subst o' t'.
    assert (Hn' : (n < 1024)%nat) by lia.
    destruct (fstep_q4 und st o n Qo FT A Ln Hn' E) as [F' [A' [L' E']]].
    assert (Hn'' : (Datatypes.S n + length t <= 1024)%nat) by lia.
    destruct (IH (fstep und st o) (Datatypes.S n) Qt F' A' L' Hn'' E') as [H1 H2].
    split; [|exact H2]. rewrite F'. exact H1.
Qed.

(* (3) EXACTNESS: weights k/4 with |k| < 2^40 and at most 1024 operations: no overflow and no rounding at all, in the long double total and in
   the double returned by the undirected getter *)
Theorem ftotal_exact_q4 : forall (und : bool) (ops : list fop), Forall fop_q4 ops -> (length ops <= 1024)%nat ->
  fok und ops = true /\
  B2R (ftot (frun und ops)) = rsum (fw (frun und ops)) /\
  B2R (dbl_of_ext (ftot (frun und ops))) = rsum (fw (frun und ops)) /\ is_finite (dbl_of_ext (ftot (frun und ops))) = true.
Proof.
  intros und ops Q Hn. unfold fok, ftotals, frun.
  assert (I1 : is_finite (ftot finit) = true) by reflexivity.
  assert (I2 : allq4 (fw finit)) by constructor.
  assert (I3 : (length (fw finit) <= 0)%nat) by (cbn; lia).
  assert (I4 : (0 + length ops <= 1024)%nat) by lia.
  assert (I5 : B2R (ftot finit) = rsum (fw finit)) by reflexivity.
  destruct (frun_q4_from und ops finit 0 Q I1 I2 I3 I4 I5) as [H1 [H2 [H3 [H4 H5]]]].
  split; [exact H1|split; [exact H5|]].
  destruct (allq4_rsum _ H3) as [K [BK EK]].
  assert (R53 : rnd53 (F2R (Float radix2 K (-2))) = F2R (Float radix2 K (-2)) /\ Rabs (F2R (Float radix2 K (-2))) < bpow radix2 1024).
  { apply (rnd_exact_F2R 53 1024 p53).
    - assert (Z.of_nat (length (fw (frun_from und finit ops))) <= 1024)%Z by lia. change (2 ^ 53)%Z with (2 ^ 13 * 2 ^ 40)%Z. nia.
    - unfold SpecFloat.emin. lia.
    - lia. }
  destruct R53 as [R1 R2].
  generalize (fconv_correct 53 1024 p53 pe53 64 16384 (ftot (frun_from und finit ops)) H2).
  rewrite H5, EK, <- F2R_q, R1, (Rlt_bool_true _ _ R2). intros H; exact H.
Qed.

(* ================= F. the computable (dyadic) versions ================= *)
Lemma F2R_B2F : forall (prec emax : Z) (x : binary_float prec emax), F2R (B2F x) = B2R x.
Proof. intros prec emax [s|s| |s m e H]; cbn [B2F B2R]; try apply F2R_0. reflexivity. Qed.
Lemma F2R_F0 : F2R F0 = 0. Proof. apply F2R_0. Qed.
Lemma F2R_u64F : F2R u64F = u64. Proof. unfold F2R, u64F, u64; cbn [Fnum Fexp]. apply Rmult_1_l. Qed.
Lemma F2R_u53F : F2R u53F = u53. Proof. unfold F2R, u53F, u53; cbn [Fnum Fexp]. apply Rmult_1_l. Qed.
Lemma F2R_rsumF : forall l, F2R (rsumF l) = rsum l.
Proof. induction l as [|[k w] t IH]; cbn [rsumF rsum]. apply F2R_F0. rewrite F2R_plus, F2R_B2F, IH. reflexivity. Qed.
Lemma F2R_flocalF : forall und st o, F2R (flocalF und st o) = flocal und st o.
Proof.
  intros und st o. destruct o as [i j w|i j w|i j|]; cbn [flocalF flocal]; try apply F2R_F0;
  destruct (flook (fkey und i j) (fw st)); try apply F2R_F0;
  rewrite ?F2R_plus, ?F2R_mult, ?F2R_abs, ?F2R_plus, ?F2R_minus, ?F2R_B2F, ?F2R_u64F, ?F2R_u53F; reflexivity.
Qed.
Lemma F2R_fboundF_from : forall und ops st E E', F2R E = E' -> F2R (fboundF_from und st E ops) = fbound_from und st E' ops.
Proof.
  intros und ops. induction ops as [|o t IH]; intros st E E' HE; cbn [fboundF_from fbound_from]. exact HE.
  apply IH. destruct o; cbn [faccF facc]; try apply F2R_F0; rewrite F2R_plus, F2R_flocalF, HE; reflexivity.
Qed.
Theorem F2R_fboundF : forall und ops, F2R (fboundF und ops) = fbound und ops.
Proof. intros und ops. apply F2R_fboundF_from. apply F2R_F0. Qed.
Theorem F2R_ferrF : forall und ops, F2R (ferrF und ops) = Rabs (B2R (ftot (frun und ops)) - rsum (fw (frun und ops))).
Proof. intros und ops. unfold ferrF. cbv zeta. rewrite F2R_abs, F2R_minus, F2R_B2F, F2R_rsumF. reflexivity. Qed.
Lemma Fleb_correct : forall a b : float radix2, Fleb a b = true <-> F2R a <= F2R b.
Proof.
  intros a b. unfold Fleb. generalize (Falign_spec a b). destruct (Falign a b) as [[ma mb] e]. intros [Ha Hb]. rewrite Ha, Hb.
  rewrite Z.leb_le. split. apply F2R_le. apply le_F2R.
Qed.
(* the boolean check computed by the model always succeeds on histories without overflow *)
Theorem fcheck_true : forall und ops, fok und ops = true -> fcheck und ops = true.
Proof. intros und ops Hok. unfold fcheck. apply Fleb_correct. rewrite F2R_ferrF, F2R_fboundF. apply ftotal_error. exact Hok. Qed.

(* ================= G. decoders, printers, getter ================= *)
Lemma strip2_correct : forall m e, let '(m', e') := strip2 m e in
  F2R (Float radix2 (Zpos m') e') = F2R (Float radix2 (Zpos m) e) /\ Z.odd (Zpos m') = true.
Proof.
  induction m as [p IH|p IH|]; intros e; cbn [strip2].
  - split; reflexivity.
  - specialize (IH (e + 1)%Z). destruct (strip2 p (e + 1)) as [m' e']. destruct IH as [H1 H2]. split; [|exact H2].
    rewrite H1. unfold F2R; cbn [Fnum Fexp]. rewrite bpow_plus. change (bpow radix2 1) with 2.
    rewrite (Pos2Z.inj_xO p), mult_IZR. ring.
  - split; reflexivity.
Qed.
(* the printed triple determines the float: sign, odd mantissa (or 0), exponent, value = (-1)^sign * mantissa * 2^exponent *)
Theorem triple_of_finite : forall (prec emax : Z) (x : binary_float prec emax), is_finite x = true ->
  let '(s, m, e) := triple_of x in
  s = (if Bsign x then 1 else 0)%Z /\ (m = 0%Z \/ (0 < m)%Z /\ Z.odd m = true) /\ B2R x = F2R (Float radix2 (SpecFloat.cond_Zopp (Bsign x) m) e).
Proof.
  intros prec emax [s|s| |s m e H] F; try discriminate F; cbn [triple_of Bsign B2R].
  - split; [reflexivity|split; [left; reflexivity|]]. destruct s; cbn [SpecFloat.cond_Zopp]; symmetry; apply F2R_0.
  - generalize (strip2_correct m e). destruct (strip2 m e) as [m' e']. intros [H1 H2].
    split; [reflexivity|split; [right; split; [lia|exact H2]|]].
    destruct s; cbn [SpecFloat.cond_Zopp].
    + change (Z.neg m) with (- Z.pos m)%Z. change (Z.neg m') with (- Z.pos m')%Z. rewrite !F2R_Zopp, H1. reflexivity.
    + symmetry; exact H1.
Qed.
Theorem triple_of_nonfinite : forall (prec emax : Z) (x : binary_float prec emax), is_finite x = false -> triple_of x = (2, 0, 0)%Z.
Proof. intros prec emax [s|s| |s m e H] F; try discriminate F; reflexivity. Qed.
Theorem triple_of_inj : forall (prec emax : Z) (x y : binary_float prec emax), is_finite x = true -> is_finite y = true ->
  triple_of x = triple_of y -> x = y.
Proof.
  intros prec emax x y Fx Fy E. generalize (triple_of_finite prec emax x Fx), (triple_of_finite prec emax y Fy). rewrite E.
  destruct (triple_of y) as [[s m] e]. intros [S1 [_ V1]] [S2 [_ V2]].
  assert (Sg : Bsign x = Bsign y) by (destruct (Bsign x), (Bsign y); congruence).
  apply B2R_Bsign_inj; try assumption. rewrite V1, V2, Sg. reflexivity.
Qed.

From Flocq Require Binary Bits.
(* the bit-pattern decoder is Flocq's reference decoder for binary64 (Bits.b64_of_bits, with its NaN payload forgotten) *)
Theorem dbl_of_bits_flocq : forall b : Z, (0 <= b < 2 ^ 64)%Z -> dbl_of_bits b = Binary.B2BSN 53 1024 (Bits.b64_of_bits b).
Proof.
  intros b Hb. change (2 ^ 64)%Z with 18446744073709551616%Z in Hb.
  rewrite <- (mkB_B2SF 53 1024 (Binary.B2BSN 53 1024 (Bits.b64_of_bits b))).
  rewrite Binary.B2SF_B2BSN. unfold Bits.b64_of_bits, Bits.binary_float_of_bits. rewrite Binary.B2SF_FF2B.
  unfold dbl_of_bits. f_equal. unfold Bits.binary_float_of_bits_aux, Bits.split_bits.
  change (2 ^ 52)%Z with 4503599627370496%Z. change (2 ^ 11)%Z with 2048%Z. change (2048 - 1)%Z with 2047%Z.
  change (emin (52 + 1) (2 ^ (11 - 1))) with (-1074)%Z. change (4503599627370496 * 2048)%Z with 9223372036854775808%Z.
  assert (Sg : Z.odd (b / 9223372036854775808) = (9223372036854775808 <=? b)%Z).
  { destruct (Z.leb_spec 9223372036854775808 b) as [L|L].
    - assert (b / 9223372036854775808 = 1)%Z as -> by (symmetry; apply (Zdiv_unique _ _ _ (b - 9223372036854775808)); lia). reflexivity.
    - rewrite Zdiv_small by lia. reflexivity. }
  rewrite Sg. set (s := (9223372036854775808 <=? b)%Z). set (ex := ((b / 4503599627370496) mod 2048)%Z).
  assert (Hm : (0 <= b mod 4503599627370496 < 4503599627370496)%Z) by (apply Z.mod_pos_bound; lia).
  set (fr := (b mod 4503599627370496)%Z) in *.
  rewrite <- (Zeq_is_eq_bool ex 0) || idtac.
  destruct (Z.eqb_spec ex 0) as [E0|E0].
  - rewrite E0. cbn [Zeq_bool Z.compare]. destruct fr as [|p|p]; try reflexivity. lia.
  - assert (Zeq_bool ex 0 = false) as -> by (apply Zeq_bool_false; exact E0).
    destruct (Z.eqb_spec ex 2047) as [E1|E1].
    + rewrite E1. cbn [Zeq_bool Z.compare Pos.compare Pos.compare_cont]. destruct fr as [|p|p]; reflexivity.
    + assert (Zeq_bool ex 2047 = false) as -> by (apply Zeq_bool_false; exact E1).
      destruct (fr + 4503599627370496)%Z; try reflexivity. cbn [Binary.FF2SF]. f_equal. lia.
Qed.

(* the undirected getter returns the total rounded to binary64 *)
Lemma dbl_of_ext_err : forall t : ext, is_finite t = true -> is_finite (dbl_of_ext t) = true ->
  Rabs (B2R (dbl_of_ext t) - B2R t) <= u53 * Rabs (B2R t) + bpow radix2 (-1075).
Proof.
  intros t Ft F. generalize (fconv_correct 53 1024 p53 pe53 64 16384 t Ft). fold (dbl_of_ext t).
  destruct (Rlt_bool _ _).
  - intros [H _]. rewrite H.
    destruct (error_N_FLT radix2 (-1074) 53 eq_refl (fun n => negb (Z.even n)) (B2R t)) as [eps [eta [He [Ht [_ Hr]]]]].
    change (round radix2 (FLT_exp (-1074) 53) (Znearest (fun n => negb (Z.even n))) (B2R t)) with (rnd53 (B2R t)) in Hr.
    rewrite Hr. replace (B2R t * (1 + eps) + eta - B2R t) with (eps * B2R t + eta) by ring.
    eapply Rle_trans. apply Rabs_triang. apply Rplus_le_compat.
    + rewrite Rabs_mult. apply Rmult_le_compat_r. apply Rabs_pos.
      unfold u53. replace (bpow radix2 (-53)) with (/ 2 * bpow radix2 (-53 + 1)). exact He.
      rewrite bpow_plus. change (bpow radix2 1) with 2. field.
    + replace (bpow radix2 (-1075)) with (/ 2 * bpow radix2 (-1074)). exact Ht.
      change (-1074)%Z with (-1075 + 1)%Z. rewrite bpow_plus. change (bpow radix2 1) with 2. field.
  - intros H. rewrite H in F. discriminate F.
Qed.
Theorem fget_error : forall (und : bool) (ops : list fop), fok und ops = true ->
  is_finite (dbl_of_ext (ftot (frun und ops))) = true ->
  Rabs (B2R (dbl_of_ext (ftot (frun und ops))) - rsum (fw (frun und ops)))
  <= fbound und ops + (u53 * Rabs (B2R (ftot (frun und ops))) + bpow radix2 (-1075)).
Proof.
  intros und ops Hok F. destruct (fok_finite und ops Hok) as [FT _].
  replace (B2R (dbl_of_ext (ftot (frun und ops))) - rsum (fw (frun und ops)))
    with ((B2R (dbl_of_ext (ftot (frun und ops))) - B2R (ftot (frun und ops))) + (B2R (ftot (frun und ops)) - rsum (fw (frun und ops)))) by ring.
  eapply Rle_trans. apply Rabs_triang. rewrite Rplus_comm. apply Rplus_le_compat.
  apply ftotal_error; exact Hok. apply dbl_of_ext_err; assumption.
Qed.

(* k/4 as a double *)
Theorem dbl_of_quarters_correct : forall k : Z, (Z.abs k < 2 ^ 53)%Z ->
  is_finite (dbl_of_quarters k) = true /\ B2R (dbl_of_quarters k) = IZR k / 4.
Proof.
  intros k Hk. unfold dbl_of_quarters. rewrite <- (B2SF_bn 53 1024 p53 pe53), mkB_B2SF.
  generalize (binary_normalize_correct 53 1024 p53 pe53 mode_NE k (-2) false). cbv zeta. cbn [round_mode].
  destruct (rnd_exact_F2R 53 1024 p53 k (-2) Hk) as [R1 R2]. unfold SpecFloat.emin; lia. lia.
  rewrite R1, (Rlt_bool_true _ _ R2), F2R_q. intros [H1 [H2 _]]. split; assumption.
Qed.
Corollary dbl_of_quarters_q4 : forall k : Z, (Z.abs k < 2 ^ 40)%Z -> q4 (dbl_of_quarters k).
Proof.
  intros k Hk. destruct (dbl_of_quarters_correct k) as [F E]. change (2 ^ 53)%Z with (2 ^ 13 * 2 ^ 40)%Z. lia.
  split. exact F. exists k. split; assumption.
Qed.

(* encoder / decoder round trip *)
Lemma bounded53 : forall m e, SpecFloat.bounded 53 1024 m e = true ->
  ((Zpos m < 4503599627370496)%Z /\ e = (-1074)%Z) \/ ((4503599627370496 <= Zpos m < 9007199254740992)%Z /\ (-1074 <= e <= 971)%Z).
Proof.
  intros m e H. unfold SpecFloat.bounded, SpecFloat.canonical_mantissa in H. apply andb_true_iff in H. destruct H as [H1 H2].
  apply Zeq_bool_eq in H1. apply Zle_bool_imp_le in H2. rewrite Digits.Zpos_digits2_pos in H1.
  assert (D := Digits.Zdigits_correct radix2 (Zpos m)). assert (D0 := Digits.Zdigits_gt_0 radix2 (Zpos m)).
  set (d := Digits.Zdigits radix2 (Z.pos m)) in *. rewrite Z.abs_eq in D by lia. change (radix_val radix2) with 2%Z in D.
  unfold SpecFloat.fexp, SpecFloat.emin in H1.
  destruct (Z.eq_dec d 53) as [E53|N53].
  - right. rewrite E53 in D. change (2 ^ (53 - 1))%Z with 4503599627370496%Z in D. change (2 ^ 53)%Z with 9007199254740992%Z in D. lia.
  - left. assert (d <= 52)%Z by lia. split; [|lia].
    eapply Z.lt_le_trans. apply D. change 4503599627370496%Z with (2 ^ 52)%Z. apply Z.pow_le_mono_r; lia.
Qed.
Lemma split_join64 : forall S E F : Z, (0 <= S <= 1)%Z -> (0 <= E < 2048)%Z -> (0 <= F < 4503599627370496)%Z ->
  let b := (S * 9223372036854775808 + E * 4503599627370496 + F)%Z in
  (b / 9223372036854775808 = S /\ (b / 4503599627370496) mod 2048 = E /\ b mod 4503599627370496 = F)%Z.
Proof.
  intros S E F HS HE HF b. unfold b. split; [|split].
  - symmetry. apply (Zdiv_unique _ _ _ (E * 4503599627370496 + F)); lia.
  - assert ((S * 9223372036854775808 + E * 4503599627370496 + F) / 4503599627370496 = S * 2048 + E)%Z as ->
      by (symmetry; apply (Zdiv_unique _ _ _ F); lia).
    symmetry. apply (Zmod_unique _ _ S); lia.
  - symmetry. apply (Zmod_unique _ _ (S * 2048 + E)); lia.
Qed.
Theorem dbl_bits_roundtrip : forall x : dbl, dbl_of_bits (bits_of_dbl x) = x.
Proof.
  intros [s|s| |s m e H]; try (destruct s; reflexivity); try reflexivity.
  assert (HS : (0 <= (if s then 1 else 0) <= 1)%Z /\ Z.odd (if s then 1 else 0) = s) by (destruct s; split; (lia || reflexivity)).
  destruct HS as [HS Ho].
  assert (Sg : (if s then 9223372036854775808 else 0)%Z = ((if s then 1 else 0) * 9223372036854775808)%Z) by (destruct s; reflexivity).
  destruct (bounded53 m e H) as [[Hm He]|[Hm He]]; cbn [bits_of_dbl].
  - assert (Z.pos m <? 4503599627370496 = true)%Z as -> by (apply Z.ltb_lt; exact Hm).
    destruct (split_join64 (if s then 1 else 0) 0 (Zpos m) HS) as [B1 [B2 B3]]; try lia.
    unfold dbl_of_bits. rewrite Sg. replace ((if s then 1 else 0) * 9223372036854775808 + Z.pos m)%Z with ((if s then 1 else 0) * 9223372036854775808 + 0 * 4503599627370496 + Z.pos m)%Z by ring.
    rewrite B1, B2, B3, Ho. cbn [Z.eqb mkB]. subst e. apply mkfin_eq.
  - assert (Z.pos m <? 4503599627370496 = false)%Z as -> by (apply Z.ltb_ge; lia).
    destruct (split_join64 (if s then 1 else 0) (e + 1075) (Zpos m - 4503599627370496) HS) as [B1 [B2 B3]]; try lia.
    unfold dbl_of_bits. rewrite Sg, Z.add_assoc. rewrite B1, B2, B3, Ho.
    assert (e + 1075 =? 0 = false)%Z as -> by (apply Z.eqb_neq; lia).
    assert (e + 1075 =? 2047 = false)%Z as -> by (apply Z.eqb_neq; lia).
    replace (Z.pos m - 4503599627370496 + 4503599627370496)%Z with (Z.pos m) by lia.
    replace (e + 1075 - 1075)%Z with e by lia. cbn [mkB]. apply mkfin_eq.
Qed.

Print Assumptions fadd_Bplus.
Print Assumptions ext_of_dbl_exact.
Print Assumptions ftotal_error.
Print Assumptions fbound_closed.
Print Assumptions ftotal_error_closed.
Print Assumptions ftotal_exact_q4.
Print Assumptions fcheck_true.
Print Assumptions fget_error.
Print Assumptions triple_of_inj.
Print Assumptions dbl_of_bits_flocq.
Print Assumptions dbl_bits_roundtrip.
Print Assumptions dbl_of_quarters_q4.
