(* C11: the two "...FromVertex" path functions.  findGeodesicsFromVertex and findAllGeodesicsFromVertex run the search once and then
   reconstruct the path(s) for every destination; entry j of the result is exactly what findGeodesics / findAllGeodesics return for
   destination j, so the theorems of PathsProofs.v / BfsAllProofs.v carry over entry by entry. *)
From Coq Require Import List Arith Lia Bool.
From BG Require Import Base Bfs PathsModel PathsProofs BfsAllProofs.
Import ListNotations.
Local Open Scope nat_scope.

(* ---------- plumbing ---------- *)
Definition oval {A} (d : A) (o : outcome A) : A := match o with Val a => a | _ => d end.
Lemma omapM_all_val {A B} (f : A -> outcome B) (d : B) (l : list A) :
  (forall x, In x l -> exists y, f x = Val y) -> omapM f l = Val (map (fun x => oval d (f x)) l).
Proof.
  induction l as [|x t IH]; intros H; cbn [omapM map]; [reflexivity|].
  destruct (H x) as [y E]; [left; reflexivity|]. rewrite E. cbn [obind oval]. rewrite IH by (intros z Hz; apply H; right; exact Hz).
  reflexivity.
Qed.
Lemma reached_lt {d : list (option nat)} {t} : t < length d -> reached d t = Val (nth t d None).
Proof. intros H. unfold reached. rewrite (nth_error_nth' _ None H). reflexivity. Qed.

(* ================= findGeodesicsFromVertex ================= *)
Section One.
Variables (g : adjl) (s : nat).
Hypothesis Hwf : Bfs.wf g.
Hypothesis Hs : s < length g.

(* the loop body, for the search result [o] *)
Definition gbody (o : bfs_out) (j : nat) : outcome (list nat) :=
  obind (reached (bo_dist o) j) (fun r => match r with Some k => path_from_preds (S k) (bo_pred o) s j | None => Val [] end).

Lemma gbody_find o j : bfs_single true g s = Val o -> bfs_facts g s o -> j < length g -> gbody o j = find_geodesics true g s j.
Proof.
  intros E F Hj. unfold find_geodesics, checked. cbn [forallb]. rewrite (proj2 (Nat.ltb_lt _ _) Hs), (proj2 (Nat.ltb_lt _ _) Hj). cbn [andb].
  destruct (Nat.eqb_spec s j) as [<-|N].
  - destruct F as [LD [_ [W _]]]. unfold gbody. rewrite reached_lt by lia. cbn [obind].
    pose proof (W s) as Ws. destruct (nth s (bo_dist o) None) as [k|].
    + unfold path_from_preds. rewrite Nat.eqb_refl. reflexivity.
    + exfalso. apply (Ws 0). apply Bfs.w_nil; exact Hs.
  - rewrite E. cbn [obind]. reflexivity.
Qed.

(* findGeodesicsFromVertex(source): one entry per vertex; entry j is what findGeodesics(source, j) returns: [] when j is unreachable,
   [source] for j = source, otherwise a walk along existing edges from source to j whose number of hops is the minimum over all walks
   (= the brute-force hop distance) *)
Theorem geodesics_from_vertex_spec :
  exists ps, geodesics_from_vertex true g s = Val ps /\ length ps = length g /\
    forall j, j < length g ->
      find_geodesics true g s j = Val (nth j ps []) /\
      (j = s -> nth j ps [] = [s]) /\
      ((forall k, ~ Bfs.walk g s j k) /\ hopdist g s j = None /\ nth j ps [] = [] \/
       exists k, Bfs.walk g s j k /\ (forall k', Bfs.walk g s j k' -> k <= k') /\ hopdist g s j = Some k /\
                 length (nth j ps []) = S k /\ hd (S (length g)) (nth j ps []) = s /\ last (nth j ps []) (S (length g)) = j /\
                 is_walk g (nth j ps []) = true).
Proof.
  destruct (bfs_single_spec g s Hwf Hs) as [o [E [_ F]]].
  assert (V : forall j, In j (seq 0 (length g)) -> exists y, gbody o j = Val y).
  { intros j Hj. apply in_seq in Hj. rewrite (gbody_find o j E F) by lia. destruct (find_geodesics_spec g s Hwf Hs j) as [p [Ep _]]; [lia|]. eauto. }
  exists (map (fun j => oval [] (gbody o j)) (seq 0 (length g))). split; [|split].
  - unfold geodesics_from_vertex. rewrite E. cbn [obind]. exact (omapM_all_val (gbody o) [] _ V).
  - rewrite map_length, seq_length. reflexivity.
  - intros j Hj. rewrite (nth_map_seq (fun j => oval [] (gbody o j)) (length g) j []) by exact Hj.
    rewrite (gbody_find o j E F Hj). destruct (find_geodesics_spec g s Hwf Hs j Hj) as [p [Ep C]]. rewrite Ep. cbn [oval].
    split; [reflexivity|]. split.
    + intros ->. revert Ep. unfold find_geodesics, checked. cbn [forallb]. rewrite (proj2 (Nat.ltb_lt _ _) Hs). cbn [andb].
      rewrite Nat.eqb_refl. intros X; injection X as <-. reflexivity.
    + destruct C as [[NW ->]|[k [Wk [Min R]]]].
      * left. split; [exact NW|]. split; [|reflexivity]. symmetry. apply (hopdist_eq g s j None Hwf Hs). exact NW.
      * right. exists k. split; [exact Wk|]. split; [exact Min|]. split; [|exact R].
        symmetry. apply (hopdist_eq g s j (Some k) Hwf Hs). split; assumption.
Qed.
End One.
Print Assumptions geodesics_from_vertex_spec.

(* ================= findAllGeodesicsFromVertex ================= *)
Section All.
Variables (g : adjl) (s : nat).
Hypothesis Hwf : Bfs.wf g.
Hypothesis Hs : s < length g.

Definition abody (fuel : nat) (o : all_out) (j : nat) : outcome (list (list nat)) :=
  obind (reached (ao_dist o) j) (fun r => match r with Some _ => all_paths_from_preds fuel (ao_preds o) s j | None => Val [] end).

Lemma abody_find fuel o j : bfs_all true true fuel g s = Val o -> all_facts g s o -> j < length g ->
  abody fuel o j = find_all_geodesics true true fuel g s j.
Proof.
  intros E F Hj. unfold find_all_geodesics, checked. cbn [forallb]. rewrite (proj2 (Nat.ltb_lt _ _) Hs), (proj2 (Nat.ltb_lt _ _) Hj). cbn [andb].
  destruct (Nat.eqb_spec s j) as [<-|N].
  - pose proof F as [_ [LD _]]. unfold abody. rewrite reached_lt by lia. cbn [obind].
    pose proof (d_s g s o Hs F) as Ds. unfold dd in Ds. rewrite Ds. unfold all_paths_from_preds. rewrite Nat.eqb_refl. reflexivity.
  - rewrite E. cbn [obind]. reflexivity.
Qed.

Lemma shortest_self : shortest_paths g s s = [[s]].
Proof.
  unfold shortest_paths. assert (M : mw g s s 0) by (split; [constructor; exact Hs|intros; lia]).
  rewrite <- (hopdist_eq g s s (Some 0) Hwf Hs M). cbn [walks filter last]. rewrite Nat.eqb_refl. reflexivity.
Qed.

(* findAllGeodesicsFromVertex(source): one entry per vertex; entry j is what findAllGeodesics(source, j) returns: a duplicate-free list
   containing exactly the minimum-length walks from source to j ([] when unreachable, [[source]] for j = source).  Fuel is an artefact of
   the model (the reconstruction loop pops one stack entry per suffix of a shortest path): |V| * (largest number of shortest paths to any
   one destination) units always suffice. *)
Theorem all_geodesics_from_vertex_spec fuel :
  (forall j, j < length g -> length g * length (shortest_paths g s j) <= fuel) ->
  exists pss, all_geodesics_from_vertex true true fuel g s = Val pss /\ length pss = length g /\
    forall j, j < length g ->
      find_all_geodesics true true fuel g s j = Val (nth j pss []) /\
      NoDup (nth j pss []) /\ (forall p, In p (nth j pss []) <-> In p (shortest_paths g s j)).
Proof.
  intros B.
  assert (Lf : length g <= fuel) by (pose proof (B s Hs) as X; rewrite shortest_self in X; cbn [length] in X; lia).
  destruct (bfs_all_spec g s Hwf Hs) as [o [E0 F]]. pose proof (bfs_all_more g s o fuel E0 Lf) as E.
  assert (S : forall j, j < length g -> exists ps, abody fuel o j = Val ps /\ NoDup ps /\ forall p, In p ps <-> In p (shortest_paths g s j)).
  { intros j Hj. rewrite (abody_find fuel o j E F Hj). destruct (find_all_geodesics_spec g s j Hwf Hs Hj) as [ps [Nd [Mem H]]].
    destruct (H fuel Lf) as [_ V]. exists ps. split; [apply V, B; exact Hj|]. split; assumption. }
  exists (map (fun j => oval [] (abody fuel o j)) (seq 0 (length g))). split; [|split].
  - unfold all_geodesics_from_vertex. rewrite E. cbn [obind]. apply (omapM_all_val (abody fuel o) []).
    intros j Hj. apply in_seq in Hj. destruct (S j) as [ps [Ep _]]; [lia|]. eauto.
  - rewrite map_length, seq_length. reflexivity.
  - intros j Hj. rewrite (nth_map_seq (fun j => oval [] (abody fuel o j)) (length g) j []) by exact Hj.
    destruct (S j Hj) as [ps [Ep [Nd Mem]]]. rewrite <- (abody_find fuel o j E F Hj), Ep. cbn [oval]. auto.
Qed.
End All.
Print Assumptions all_geodesics_from_vertex_spec.
