(* C08 — Vertex and edge enumeration visit everything exactly once on every graph shape.  Statements only. *)
From BG Require Import Base DirectedModel DirectedProofs DirectedIter DirectedUsers DirectedObs UndirectedModel UndirectedProofs UndirectedIter.

(* range-for over a graph of n vertices yields 0 .. n-1 in order, for every n from 0 up *)
Theorem C08_vertices : forall n, vertex_range n = seq 0 n.
Proof. exact vertex_range_seq. Qed.
Print Assumptions C08_vertices.

(* edges() of a directed graph: the traversal begin() .. end() (deref, ++, != at every step) is defined on EVERY graph whose adjacency
   vector has getSize() lists - zero vertices, no edges, isolated first/last vertices included - and yields exactly the adjacency lists
   flattened in vertex order. No other hypothesis: this also covers graphs holding forced duplicates. *)
Theorem C08_directed_edges : forall (L : Type) (g : @dgraph L), length (adj g) = size g -> iterate repaired g = Val (flatten g).
Proof. intros L g; apply iterate_flatten. Qed.
Print Assumptions C08_directed_edges.

(* ... hence every edge exactly once on a (duplicate-free) graph *)
Theorem C08_directed_each_once : forall (L : Type) (hs : bool) (g : @dgraph L), Inv hs g ->
  NoDup (flatten g) /\ forall i j, In (i, j) (flatten g) <-> (i < size g /\ In j (nb g i)).
Proof. intros L hs g I; split; [apply (NoDup_flatten hs g I)|intros; apply DirectedUsers.In_flatten]. Qed.
Print Assumptions C08_directed_each_once.

(* edges() of an undirected graph: one orientation (i <= j) per edge, a self-loop once *)
Theorem C08_undirected_edges : forall (L : Type) (hs : bool) (g : @dgraph L), InvU hs g ->
  u_iterate repaired g = Val (filter up (flatten g)).
Proof. intros L hs g; apply u_iterate_flatten. Qed.
Print Assumptions C08_undirected_edges.

(* begin() == end() exactly when there is no edge (the two classes share begin()/end()) *)
Theorem C08_begin_is_end_iff_no_edge : forall (L : Type) (g : @dgraph L), length (adj g) = size g ->
  exists b e, edges_begin repaired g = Val b /\ edges_end repaired g = Val e /\ (cursor_eqb b e = true <-> flatten g = []).
Proof. intros L g; apply begin_is_end_iff_no_edge. Qed.
Print Assumptions C08_begin_is_end_iff_no_edge.

(* consequently the operations defined by enumerating edges are defined on all of these graphs, with the obvious values *)
Theorem C08_users_defined : forall (L : Type) (hs : bool) (g : @dgraph L), Inv hs g ->
  in_degrees repaired g = Val (map (cnt_snd (flatten g)) (seq 0 (size g))) /\
  (forall v, v < size g -> in_degree repaired g v = Val (cnt_snd (flatten g) v)) /\
  adjacency_matrix repaired g = Val (map (fun i => map (fun j => cnt_edge (flatten g) (i, j)) (seq 0 (size g))) (seq 0 (size g))).
Proof. intros L hs g I; split; [apply (in_degrees_val hs g I)|split; [intros v; apply (in_degree_val hs g v I)|apply (adjacency_matrix_val hs g I)]]. Qed.
Print Assumptions C08_users_defined.

(* the pinned commit threw on a zero-vertex graph (kept as a kernel-checked witness of the repaired defect) *)
Example C08_refuted_on_pinned : iterate pinned (@init nat 0) = Raise OutOfRange /\ in_degrees pinned (@init nat 0) = Raise OutOfRange.
Proof. vm_compute. auto. Qed.
(* non-vacuity: a graph with isolated first and last vertices, a loop and a 2-cycle *)
Example C08_example : iterate repaired {| adj := [[]; [1; 2]; [1]; []]; size := 4; enum := 3%Z; labels := @nil (edge * nat) |} = Val [(1, 1); (1, 2); (2, 1)]
  /\ u_iterate repaired {| adj := [[]; [1; 2]; [1]; []]; size := 4; enum := 2%Z; labels := @nil (edge * nat) |} = Val [(1, 1); (1, 2)].
Proof. vm_compute. auto. Qed.
