(* Conversions and constructors that are not already in the class models (C09): edge-list constructors of the multigraph and weighted
   classes, the spec-level images of reversal / conversions, and the case functions run by the correspondence check.  Definitions only. *)
From BG Require Import Base DirectedModel DirectedSpec UndirectedModel UndirectedSpec MultiModel WeightedModel MultiSpec.
Local Open Scope Z_scope.

Section ConvM.
Variable V : variant.
Definition mlift (r : mgraph * res) : outcome mgraph := match r with (m, Done) => Val m | (_, Thrown e) => Raise e | (_, UBk k) => Undef k end.
(* the four constructors share one loop: grow to 1 + max index when needed, then insert *)
Definition m_of_edge_list (add : mgraph -> nat -> nat -> Z -> mgraph * res) (es : list (nat * nat * Z)) : outcome mgraph :=
  fold_left (fun acc e => obind acc (fun h => let '(i, j, k) := e in
     let mx := Nat.max i j in
     obind (if Nat.leb (size (mg h)) mx then mlift (dm_resize h (S mx)) else Val h) (fun h1 => mlift (add h1 i j k)))) es (Val (dm_init 0)).
Definition dm_of_edge_list := m_of_edge_list (fun h i j k => dm_add_multiedge V h i j k false).
Definition um_of_edge_list := m_of_edge_list (fun h i j k => um_add_multiedge V h i j k false).
Definition dw_of_edge_list := m_of_edge_list (fun h i j k => dw_add_edge V h i j k false).
Definition uw_of_edge_list := m_of_edge_list (fun h i j k => uw_add_edge V h i j k false).
End ConvM.

(* ---- spec-level images ---- *)
Section ConvSpec.
Context {L : Type}.
Notation sgraph := (@sgraph L).
Definition s_reverse (a : sgraph) : sgraph := {| sn := sn a; se := map (fun kv => ((snd (fst kv), fst (fst kv)), snd kv)) (se a) |}.
(* undirected from directed: the pairs joined in either direction; when both directions exist the label of the (min -> max) one *)
Definition s_undirect (a : sgraph) : sgraph :=
  {| sn := sn a;
     se := filter (fun kv => Nat.leb (fst (fst kv)) (snd (fst kv))) (se a)
           ++ map (fun kv => ((snd (fst kv), fst (fst kv)), snd kv))
                  (filter (fun kv => negb (Nat.leb (fst (fst kv)) (snd (fst kv))) && negb (smem (snd (fst kv), fst (fst kv)) a)) (se a)) |}.
(* both labels of a reciprocal pair agree (otherwise "labelled as one of them" leaves a choice and the oracle abstains) *)
Definition s_unambiguous (leqb : L -> L -> bool) (a : sgraph) : bool :=
  forallb (fun kv => match lfind (snd (fst kv), fst (fst kv)) (se a) with Some l' => leqb (snd kv) l' | None => true end) (se a).
(* directed from undirected: both orientations of every pair (one for a loop), same label *)
Definition s_direct (a : sgraph) : sgraph :=
  {| sn := sn a; se := flat_map (fun kv => let '(i, j) := fst kv in if Nat.eqb i j then [kv] else [kv; ((j, i), snd kv)]) (se a) |}.
Definition list_max (es : list (nat * nat * L)) : nat := fold_right (fun e acc => Nat.max (Nat.max (fst (fst e)) (snd (fst e))) acc) 0%nat es.
Definition el_size (es : list (nat * nat * L)) : nat := match es with [] => 0%nat | _ => S (list_max es) end.
End ConvSpec.
Definition obs_or_err (o : outcome (list (list Z))) : list (list Z) := match o with Val x => x | Raise e => [[zexn e]] | Undef _ => [[zub]] end.
