(* C16 on the multigraph classes (DirectedMultigraph / UndirectedMultigraph): a forced insertion of multiplicity k adds ONE entry, sets the
   stored multiplicity of the pair to k, raises totalEdgeNumber by k and the distinct-edge count by 1; removeDuplicateEdges removes the
   repeated entries and charges the stored multiplicity once per removed entry.  The graph part of both operations is the labelled
   operation of Forced.v / UForced.v, so everything proved there carries over. *)
From BG Require Import Base DirectedModel DirectedProofs DirectedIter DirectedUsers DirectedSpec DirectedRefine DirectedObs Equality
  UndirectedModel UndirectedProofs MultiModel Totals Forced UForced.
Local Open Scope Z_scope.
Local Arguments Z.of_nat : simpl never.
Local Arguments Z.add : simpl never.
Local Arguments Z.sub : simpl never.
Local Arguments Z.mul : simpl never.

(* what the entries of a row / of all rows weigh: every entry counts its pair's stored multiplicity *)
Definition wrow (lab : @lmap Z) (i : nat) (l : list nat) : Z := fold_right (fun x acc => lget (i, x) lab + acc) 0 l.
Fixpoint wtotal_from (k : nat) (lab : @lmap Z) (rows : list (list nat)) : Z :=
  match rows with [] => 0 | r :: rs => wrow lab k r + wtotal_from (S k) lab rs end.
Definition wtotal lab rows := wtotal_from 0 lab rows.
(* undirected: only the i <= j half is counted, under the ordered key *)
Definition uwrow (lab : @lmap Z) (i : nat) (l : list nat) : Z := fold_right (fun x acc => (if Nat.leb i x then lget (ordered i x) lab else 0) + acc) 0 l.
Fixpoint uwtotal_from (k : nat) (lab : @lmap Z) (rows : list (list nat)) : Z :=
  match rows with [] => 0 | r :: rs => uwrow lab k r + uwtotal_from (S k) lab rs end.
Definition uwtotal lab rows := uwtotal_from 0 lab rows.
Definition dropped (rows : list (list nat)) : Z := fold_right (fun l acc => Z.of_nat (length l) - Z.of_nat (length (dedup [] l)) + acc) 0 rows.

(* a row's weight, pair by pair: multiplicity of the entry times the stored multiplicity *)
Definition fsum (f : nat -> Z) (l : list nat) : Z := fold_right (fun x acc => f x + acc) 0 l.
Lemma fsum_cons f x (t : list nat) : fsum f (x :: t) = f x + fsum f t.
Proof. reflexivity. Qed.
Lemma fsum_ext (g1 g2 : nat -> Z) (l : list nat) : (forall x, In x l -> g1 x = g2 x) -> fsum g1 l = fsum g2 l.
Proof. intros H. induction l as [|x t IH]; auto. rewrite !fsum_cons, H, IH; auto; [intros; apply H|]; simpl; auto. Qed.
Lemma count_cons x y t : count x (y :: t) = ((if Nat.eqb x y then 1 else 0) + count x t)%nat.
Proof. unfold count. cbn [filter]. destruct (Nat.eqb x y); reflexivity. Qed.
Lemma fsum_split f y seen : mem y seen = false -> forall l0 : list nat,
  fsum f (filter (fun x => negb (mem x seen)) l0) = Z.of_nat (count y l0) * f y + fsum f (filter (fun x => negb (mem x (y :: seen))) l0).
Proof. intros M. induction l0 as [|x l0 IH0]; cbn [filter]; [cbn; lia|]. rewrite count_cons.
  change (mem x (y :: seen)) with (Nat.eqb x y || mem x seen).
  destruct (Nat.eqb_spec x y) as [->|Ne].
  - rewrite M. cbn [negb orb]. rewrite fsum_cons, IH0, Nat.eqb_refl. lia.
  - destruct (Nat.eqb_spec y x) as [E|_]; [congruence|]. cbn [orb]. destruct (mem x seen); cbn [negb]; rewrite ?fsum_cons, IH0; lia. Qed.
Lemma fsum_outside f (l : list nat) : forall seen, fsum f (filter (fun x => negb (mem x seen)) l) = fsum (fun x => Z.of_nat (count x l) * f x) (dedup seen l).
Proof.
  induction l as [|y t IH]; intros seen; cbn [filter dedup]; [reflexivity|].
  destruct (mem y seen) eqn:M; cbn [negb].
  - rewrite IH. apply fsum_ext. intros x Hx. apply In_dedup in Hx as [_ Hx]. rewrite count_cons.
    destruct (Nat.eqb_spec x y) as [->|]; [apply mem_In in M; contradiction|reflexivity].
  - rewrite !fsum_cons.
    rewrite (fsum_ext (fun x => Z.of_nat (count x (y :: t)) * f x) (fun x => Z.of_nat (count x t) * f x) (dedup (y :: seen) t)).
    2:{ intros x Hx. apply In_dedup in Hx as [_ Hx]. rewrite count_cons. destruct (Nat.eqb_spec x y) as [->|]; [exfalso; apply Hx; simpl; auto|reflexivity]. }
    rewrite <- IH. rewrite count_cons, Nat.eqb_refl. rewrite (fsum_split f y seen M t). lia.
Qed.
Lemma wrow_fsum lab i l : wrow lab i l = fsum (fun x => lget (i, x) lab) l.
Proof. reflexivity. Qed.
Lemma filter_true {A} (l : list A) : filter (fun _ => true) l = l.
Proof. induction l; simpl; congruence. Qed.
(* the weight of a row = sum over its DISTINCT neighbours of (number of copies) * (stored multiplicity) *)
Lemma wrow_by_pairs lab i l : wrow lab i l = fsum (fun x => Z.of_nat (count x l) * lget (i, x) lab) (dedup [] l).
Proof. rewrite wrow_fsum, <- (fsum_outside (fun x => lget (i, x) lab) l []). cbn [mem existsb negb]. rewrite filter_true. reflexivity. Qed.
Lemma fsum_sub f g l : fsum f l - fsum g l = fsum (fun x => f x - g x) l.
Proof. induction l as [|x t IH]; [reflexivity|]. rewrite !fsum_cons. lia. Qed.
(* what removing the duplicates of one row costs: (copies - 1) * stored multiplicity for every distinct neighbour *)
Lemma wrow_dedup_loss lab i l :
  wrow lab i l - wrow lab i (dedup [] l) = fsum (fun x => (Z.of_nat (count x l) - 1) * lget (i, x) lab) (dedup [] l).
Proof. rewrite (wrow_by_pairs lab i l), (wrow_fsum lab i (dedup [] l)), fsum_sub. apply fsum_ext. intros; lia. Qed.

(* ---- the row passes of removeDuplicateEdges ---- *)
Lemma tup3 {A} (a a' : A) (b b' c c' : Z) : a = a' -> b = b' -> c = c' -> (a, b, c) = (a', b', c').
Proof. intros; subst; reflexivity. Qed.
Lemma dm_dedup_row_spec i lab l : forall seen,
  dm_dedup_row i lab seen l = (dedup seen l, Z.of_nat (length l) - Z.of_nat (length (dedup seen l)), wrow lab i l - wrow lab i (dedup seen l)).
Proof. induction l as [|x t IH]; intros seen; cbn [dm_dedup_row dedup]; [reflexivity|]. destruct (mem x seen).
  - rewrite IH. apply tup3; auto; cbn [length wrow fold_right]; fold (wrow lab i t); lia.
  - rewrite IH. apply tup3; auto; cbn [length wrow fold_right]; fold (wrow lab i t) (wrow lab i (dedup (x :: seen) t)); lia. Qed.
Lemma dm_dedup_rows_spec lab rows : forall k,
  dm_dedup_rows k lab rows = (map (dedup []) rows, dropped rows, wtotal_from k lab rows - wtotal_from k lab (map (dedup []) rows)).
Proof. induction rows as [|r rs IH]; intros k; cbn [dm_dedup_rows map dropped fold_right wtotal_from]; [reflexivity|].
  rewrite dm_dedup_row_spec, IH. fold (dropped rs). apply tup3; auto; lia. Qed.
Lemma um_dedup_row_spec i lab l : forall seen,
  um_dedup_row i lab seen l = (dedup seen l, cnt i l - cnt i (dedup seen l), uwrow lab i l - uwrow lab i (dedup seen l)).
Proof. induction l as [|x t IH]; intros seen; cbn [um_dedup_row dedup]; [reflexivity|]. rewrite cnt_cons. destruct (mem x seen).
  - rewrite IH. cbn [uwrow fold_right]; fold (uwrow lab i t). destruct (Nat.leb i x); apply tup3; auto; lia.
  - rewrite IH, cnt_cons. cbn [uwrow fold_right]; fold (uwrow lab i t) (uwrow lab i (dedup (x :: seen) t)). apply tup3; auto; lia. Qed.
Lemma um_dedup_rows_spec lab rows : forall k,
  um_dedup_rows k lab rows = (map (dedup []) rows, utotal_from k rows - utotal_from k (map (dedup []) rows),
                              uwtotal_from k lab rows - uwtotal_from k lab (map (dedup []) rows)).
Proof. induction rows as [|r rs IH]; intros k; cbn [um_dedup_rows map utotal_from uwtotal_from]; [reflexivity|].
  rewrite um_dedup_row_spec, IH. apply tup3; auto; lia. Qed.

Lemma wtotal_loss lab : forall rows k, wtotal_from k lab rows - wtotal_from k lab (map (dedup []) rows) =
  fold_right Z.add 0 (map (fun i => fsum (fun j => (Z.of_nat (count j (nth (i - k) rows [])) - 1) * lget (i, j) lab) (dedup [] (nth (i - k) rows []))) (seq k (length rows))).
Proof. induction rows as [|r rs IH]; intros k; cbn [wtotal_from map length seq fold_right]; [lia|].
  rewrite Nat.sub_diag. cbn [nth]. rewrite <- (wrow_dedup_loss lab k r).
  specialize (IH (S k)).
  rewrite (map_ext_in _ (fun i => fsum (fun j => (Z.of_nat (count j (nth (i - S k) rs [])) - 1) * lget (i, j) lab) (dedup [] (nth (i - S k) rs []))) (seq (S k) (length rs))).
  - lia.
  - intros i Hi. apply in_seq in Hi. replace (i - k)%nat with (S (i - S k)) by lia. reflexivity. Qed.

Section MForced.
Notation V := repaired.
Notation WInv := (@WInv Z true).
Notation WInvU := (@WInvU Z true).
Implicit Types m : mgraph.

(* ================= DirectedMultigraph ================= *)
Theorem dm_forced_add_spec m s d k : WInv (mg m) -> (s < size (mg m))%nat -> (d < size (mg m))%nat -> k <> 0 ->
  exists m', dm_add_multiedge V m s d k true = (m', Done) /\
    add_edge true V (mg m) s d k true = (mg m', Done) /\                      (* the graph part: a forced labelled insertion *)
    WInv (mg m') /\ size (mg m') = size (mg m) /\
    mtot m' = mtot m + k /\ enum (mg m') = enum (mg m) + 1 /\
    (forall i j, count j (nb (mg m') i) = (count j (nb (mg m) i) + (if Nat.eqb i s && Nat.eqb j d then 1 else 0))%nat) /\
    has_edge (mg m') s d = Val true /\
    (forall e, lget e (labels (mg m')) = if edge_eqb (s, d) e then k else lget e (labels (mg m))).
Proof.
  intros I Hs Hd Hk. unfold dm_add_multiedge. rewrite (in2_true m s d Hs Hd).
  destruct (Z.eqb_spec k 0) as [|_]; [contradiction|].
  rewrite (has_edge_weak true (mg m) s d I Hs Hd). cbn [orb].
  destruct (forced_add_spec true (mg m) s d k I Hs Hd) as [g' [E [I' [S' [N' [C' [H' L']]]]]]]. rewrite E.
  exists (mk g' (mtot m + k)). cbn [mg mk mtot]. repeat (split; auto).
  intros e. unfold lget. rewrite L'. cbn [andb]. destruct (edge_eqb (s, d) e); reflexivity.
Qed.

Theorem dm_remove_duplicates_spec m : WInv (mg m) ->
  exists m', dm_remove_duplicates m = (m', Done) /\
    remove_duplicates (mg m) = (mg m', Done) /\                               (* the graph part: the labelled removeDuplicateEdges *)
    Inv true (mg m') /\ labels (mg m') = labels (mg m) /\
    (forall i, nb (mg m') i = dedup [] (nb (mg m) i)) /\
    enum (mg m') = enum (mg m) - dropped (adj (mg m)) /\
    mtot m' = mtot m - (wtotal (labels (mg m)) (adj (mg m)) - wtotal (labels (mg m)) (adj (mg m'))).
Proof.
  intros I. destruct (remove_duplicates_spec true (mg m) I) as [g' [E [I' [S' [L' [NB' _]]]]]].
  unfold dm_remove_duplicates, dm_ok_rows. unfold remove_duplicates in E. rewrite (w_len _ _ I), Nat.leb_refl in E |- *.
  rewrite dm_dedup_rows_spec. fold (dropped (adj (mg m))) in E. injection E as E. subst g'.
  eexists; split; [reflexivity|]. cbn [mg mk mtot set_adj_lab adj labels enum] in *. unfold set_adj_lab. repeat (split; auto).
  unfold remove_duplicates. rewrite (w_len _ _ I), Nat.leb_refl. reflexivity.
Qed.

(* the loss, pair by pair: (copies - 1) * stored multiplicity for every connected pair *)
Corollary dm_remove_duplicates_loss m : WInv (mg m) ->
  exists m', dm_remove_duplicates m = (m', Done) /\
    mtot m' = mtot m - fold_right Z.add 0 (map (fun i => fsum (fun j => (Z.of_nat (count j (nb (mg m) i)) - 1) * lget (i, j) (labels (mg m))) (dedup [] (nb (mg m) i)))
                                              (seq 0 (size (mg m)))).
Proof.
  intros I. destruct (dm_remove_duplicates_spec m I) as [m' [E [RD [I' [L' [NB' [_ T']]]]]]]. exists m'. split; auto. rewrite T'. f_equal.
  assert (AD : adj (mg m') = map (dedup []) (adj (mg m))).
  { unfold remove_duplicates in RD. rewrite (w_len _ _ I), Nat.leb_refl in RD. injection RD as RD. rewrite <- RD. reflexivity. }
  rewrite AD. unfold wtotal. rewrite wtotal_loss, (w_len _ _ I). f_equal. apply map_ext. intros i. rewrite Nat.sub_0_r. reflexivity.
Qed.

(* ================= UndirectedMultigraph ================= *)
Theorem um_forced_add_spec m a b k : WInvU (mg m) -> (a < size (mg m))%nat -> (b < size (mg m))%nat -> k <> 0 ->
  exists m', um_add_multiedge V m a b k true = (m', Done) /\
    u_add_edge true V (mg m) a b k true = (mg m', Done) /\                    (* the graph part: a forced labelled insertion *)
    WInvU (mg m') /\ size (mg m') = size (mg m) /\
    mtot m' = mtot m + k /\ enum (mg m') = enum (mg m) + 1 /\
    (forall i j, count j (nb (mg m') i) = (count j (nb (mg m) i) + (if hit a b i j then 1 else 0))%nat) /\
    u_has_edge (mg m') a b = Val true /\
    (forall e, lget e (labels (mg m')) = if edge_eqb (ordered a b) e then k else lget e (labels (mg m))).
Proof.
  intros I Ha Hb Hk. unfold um_add_multiedge, um_has_edge. rewrite (in2_true m a b Ha Hb).
  destruct (Z.eqb_spec k 0) as [|_]; [contradiction|].
  rewrite (u_has_edge_weak true (mg m) a b I Ha Hb). cbn [orb].
  destruct (u_forced_add_spec true (mg m) a b k I Ha Hb) as [g' [E [I' [S' [N' [_ [C' [H' L']]]]]]]]. rewrite E.
  exists (mk g' (mtot m + k)). cbn [mg mk mtot]. repeat (split; auto).
  intros e. unfold lget. rewrite L'. cbn [andb]. destruct (edge_eqb (ordered a b) e); reflexivity.
Qed.

Theorem um_remove_duplicates_spec m : WInvU (mg m) ->
  exists m', um_remove_duplicates m = (m', Done) /\
    u_remove_duplicates (mg m) = (mg m', Done) /\                             (* the graph part: the labelled removeDuplicateEdges *)
    InvU true (mg m') /\ labels (mg m') = labels (mg m) /\
    (forall i, nb (mg m') i = dedup [] (nb (mg m) i)) /\
    enum (mg m') = enum (mg m) - (utotal (adj (mg m)) - utotal (adj (mg m'))) /\
    mtot m' = mtot m - (uwtotal (labels (mg m)) (adj (mg m)) - uwtotal (labels (mg m)) (adj (mg m'))).
Proof.
  intros I. destruct (u_remove_duplicates_spec true (mg m) I) as [g' [E [I' [S' [L' [NB' _]]]]]].
  unfold um_remove_duplicates, dm_ok_rows. rewrite (wu_len _ _ I), Nat.leb_refl. rewrite um_dedup_rows_spec.
  assert (G : g' = set_adj_lab (mg m) (map (dedup []) (adj (mg m))) (enum (mg m) - (utotal_from 0 (adj (mg m)) - utotal_from 0 (map (dedup []) (adj (mg m))))) (labels (mg m))).
  { unfold u_remove_duplicates in E. rewrite (wu_len _ _ I), Nat.leb_refl in E.
    destruct (u_dedup_rows_spec (adj (mg m)) 0) as [F SS]. destruct (u_dedup_rows 0 (adj (mg m))) as [rows c]. cbn [fst snd] in F, SS.
    injection E as E. subst g' rows. unfold set_adj_lab. f_equal. lia. }
  eexists; split; [reflexivity|]. cbn [mg mk mtot]. rewrite <- G. split; [exact E|]. split; [exact I'|]. split; [exact L'|]. split; [exact NB'|].
  rewrite G. cbn [set_adj_lab adj enum]. unfold utotal, uwtotal. split; reflexivity.
Qed.
End MForced.

(* non-vacuity: two forced copies of (0,1) with multiplicity 3, one forced copy of the loop; dedup charges 3 once *)
Example dm_forced_example :
  let m0 := dm_init 2 in
  let '(m1, _) := dm_add_multiedge repaired m0 0 1 3 true in
  let '(m2, _) := dm_add_multiedge repaired m1 0 1 3 true in
  let '(m3, _) := dm_add_multiedge repaired m2 1 1 2 true in
  let '(m4, _) := dm_remove_duplicates m3 in
  mtot m3 = 8 /\ enum (mg m3) = 3 /\ adj (mg m3) = [[1; 1]; [1]]%nat /\ mtot m4 = 5 /\ enum (mg m4) = 2 /\ adj (mg m4) = [[1]; [1]]%nat.
Proof. vm_compute. repeat split; reflexivity. Qed.
Example um_forced_example :
  let m0 := dm_init 2 in
  let '(m1, _) := um_add_multiedge repaired m0 0 1 3 true in
  let '(m2, _) := um_add_multiedge repaired m1 1 0 3 true in
  let '(m3, _) := um_add_multiedge repaired m2 1 1 2 true in
  let '(m4, _) := um_remove_duplicates m3 in
  mtot m3 = 8 /\ enum (mg m3) = 3 /\ adj (mg m3) = [[1; 1]; [0; 0; 1]]%nat /\ mtot m4 = 5 /\ enum (mg m4) = 2 /\ adj (mg m4) = [[1]; [0; 1]]%nat.
Proof. vm_compute. repeat split; reflexivity. Qed.
