(* Abstract spec of a labelled undirected simple graph: a set of unordered pairs, kept under the key (min, max), each with its label.
   Definitions only (the refinement proofs are in UndirectedRefine.v). *)
From BG Require Import Base DirectedModel DirectedSpec UndirectedModel.
Local Open Scope Z_scope.

Section USpec.
Context {L : Type}.
Variable leqb : L -> L -> bool.
Variable ldef : L.
Variable has_store : bool.
Variable lcode : L -> Z.
Variable lalpha : list L.
Notation sgraph := (@sgraph L).
Definition okey (i j : nat) : edge := ordered i j.
Definition umem (a : sgraph) (i j : nat) : bool := smem (okey i j) a.
Definition uspec_step (a : sgraph) (o : @uop L) : sgraph :=
  match o with
  | UAdd x y l _ => s_add a (fst (okey x y)) (snd (okey x y)) l
  | URemove x y => s_remove a (fst (okey x y)) (snd (okey x y))
  | USelfLoops => s_loops a | URemoveVertex v => s_rmv a v | UClear => s_clear a | UResize n => s_resize a n
  | USetLabel x y l _ => s_setlabel a (fst (okey x y)) (snd (okey x y)) l
  | URemoveDuplicates => a end.
Definition uvalid_op (a : sgraph) (o : @uop L) : bool :=
  match o with
  | UAdd x y _ f => Nat.ltb x (sn a) && Nat.ltb y (sn a) && negb f
  | URemove x y => Nat.ltb x (sn a) && Nat.ltb y (sn a)
  | USelfLoops | UClear | URemoveDuplicates => true | URemoveVertex v => Nat.ltb v (sn a) | UResize n => Nat.leb (sn a) n
  | USetLabel x y _ f => Nat.ltb x (sn a) && Nat.ltb y (sn a) && negb f && umem a x y end.
Fixpoint uvalid_history (a : sgraph) (ops : list uop) : bool :=
  match ops with [] => true | o :: ops' => uvalid_op a o && uvalid_history (uspec_step a o) ops' end.
Fixpoint uspec_run (a : sgraph) (ops : list uop) : sgraph :=
  match ops with [] => a | o :: ops' => uspec_run (uspec_step a o) ops' end.

(* what every observer must report (layout of UndirectedModel.u_observe) *)
Definition udeg (a : sgraph) (twice : bool) (i : nat) : nat :=
  fold_right (fun j acc => ((if umem a i j then (if Nat.eqb i j && twice then 2 else 1) else 0) + acc)%nat) 0%nat (seq 0 (sn a)).
Definition sobserve_u (a : sgraph) : list (list Z) :=
  let n := sn a in let vs := seq 0 n in
  [ [zn n; zn (length (se a))];
    map (fun e => zbool (umem a (fst e) (snd e))) (pairs n);
    flat_map (fun i => map (fun j => zn (if umem a i j then 1 else 0)) vs) vs;
    flat_map (fun e => if has_store then match lfind (okey (fst e) (snd e)) (se a) with Some l => [lcode l; 1] | None => [lcode ldef; zexn InvalidArgument] end
                       else [lcode ldef; 1]) (pairs n);
    flat_map (fun e => map (fun l => zbool (match lfind (okey (fst e) (snd e)) (se a) with Some l' => leqb (if has_store then l' else ldef) l | None => false end)) lalpha) (pairs n);
    map (fun i => zn (udeg a true i)) vs ++ map (fun i => zn (udeg a false i)) vs ++ map (fun i => zn (udeg a true i)) vs ++ map (fun i => zn (udeg a false i)) vs;
    flat_map (fun tw : bool => map (fun e => zn (if umem a (fst e) (snd e) then (if Nat.eqb (fst e) (snd e) && tw then 2 else 1) else 0)) (pairs n)) [true; false];
    zn (length (se a)) :: map (fun e => zn (if Nat.leb (fst e) (snd e) && smem e a then 1 else 0)) (pairs n);
    map Z.of_nat (seq 0 n) ++ [1; 1; zbool (Nat.eqb (length (se a)) 0)] ].
Definition u_rejected_code (a : sgraph) (o : @uop L) : option Z :=
  let oor := Some (zexn OutOfRange) in let inv := Some (zexn InvalidArgument) in
  let bad (v : nat) := negb (Nat.ltb v (sn a)) in
  match o with
  | UAdd x y _ f => if bad x || bad y then oor else if f then None else Some 0%Z
  | URemove x y => if bad x || bad y then oor else Some 0%Z
  | URemoveVertex v => if bad v then oor else Some 0%Z
  | UResize n => if Nat.ltb n (sn a) then inv else Some 0%Z
  | USetLabel x y _ f => if bad x || bad y then oor else if f then None else if umem a x y then Some 0%Z else inv
  | USelfLoops | UClear | URemoveDuplicates => Some 0%Z end.
Fixpoint uspec_trace (a : sgraph) (ops : list (@uop L)) : list (option (list (list Z))) :=
  match ops with [] => [] | o :: ops' =>
    match u_rejected_code a o with
    | None => map (fun _ => None) ops
    | Some c => if Z.eqb c 0 then let a' := uspec_step a o in Some ([0%Z] :: sobserve_u a') :: uspec_trace a' ops'
                else Some ([c] :: sobserve_u a) :: uspec_trace a ops' end end.
End USpec.
