(* Write-then-load round trips for UNDIRECTED graphs.  The writer emits each edge once (the i <= j half of the adjacency lists, in
   edges() order); the loader's forced addEdge appends j to list i and i to list j.  What comes back, after resizing to the original
   number of vertices: the same size, the same edge counter, the same label of every edge, and for every vertex k the neighbour list
        [ the neighbours smaller than k, in INCREASING order ] ++ [ the neighbours >= k, in their ORIGINAL relative order ]
   - the same set as the original list, not always the same sequence.  operator== says "equal". *)
From Coq Require Import List Arith NArith ZArith Lia Bool.
From BG Require Import Base DirectedModel DirectedProofs DirectedIter DirectedUsers DirectedObs Equality UndirectedModel UndirectedProofs UndirectedIter UndirectedObs
  IOModel IOProofs RoundTrip.
Import ListNotations.
Local Open Scope nat_scope.
Local Arguments Z.of_nat : simpl never.

(* the k-th adjacency list denoted by a sequence of undirected insertions *)
Definition ucontrib (k : nat) (e : edge) : list nat :=
  (if Nat.eqb k (fst e) then [snd e] else []) ++ (if Nat.eqb k (snd e) && negb (Nat.eqb (fst e) (snd e)) then [fst e] else []).
Definition usel (k : nat) (es : list edge) : list nat := flat_map (ucontrib k) es.
Lemma usel_app k a b : usel k (a ++ b) = usel k a ++ usel k b.
Proof. apply flat_map_app. Qed.
(* the edges (i, j), j in l, all with i <= j, seen from vertex k *)
Lemma usel_pairs_eq k (l : list nat) : usel k (map (pair k) l) = l.
Proof. unfold usel. induction l as [|x t IH]; cbn [map flat_map]; auto. unfold ucontrib at 1. cbn [fst snd]. rewrite Nat.eqb_refl.
  destruct (Nat.eqb_spec k x) as [Ek|NE]; cbn [andb negb app]; f_equal; exact IH. Qed.
Lemma usel_pairs_gt k i (l : list nat) : k < i -> (forall x, In x l -> i <= x) -> usel k (map (pair i) l) = [].
Proof. intros H R. unfold usel. induction l as [|x t IH]; cbn [map flat_map]; auto. unfold ucontrib at 1. cbn [fst snd].
  assert (i <= x) by (apply R; left; auto).
  destruct (Nat.eqb_spec k i); [lia|]. destruct (Nat.eqb_spec k x); [lia|]. cbn [andb app]. apply IH. intros; apply R; right; auto. Qed.
Lemma usel_pairs_lt k i (l : list nat) : i < k -> NoDup l -> usel k (map (pair i) l) = if mem k l then [i] else [].
Proof. intros H ND. unfold usel. induction ND as [|x t Hx ND IH]; cbn [map flat_map]; auto. unfold ucontrib at 1. cbn [fst snd].
  destruct (Nat.eqb_spec k i); [lia|]. cbn [app]. unfold mem. cbn [existsb]. fold (mem k t).
  destruct (Nat.eqb_spec k x) as [->|NE]; cbn [andb orb].
  - destruct (Nat.eqb_spec i x); [lia|]. cbn [negb app]. rewrite IH.
    assert (mem x t = false) as -> by (apply mem_false; auto). reflexivity.
  - cbn [app]. exact IH. Qed.
Lemma flat_map_filter_single (p : nat -> bool) l : flat_map (fun i => if p i then [i] else []) l = filter p l.
Proof. induction l as [|x t IH]; cbn [flat_map filter]; auto. destruct (p x); cbn [app]; rewrite IH; reflexivity. Qed.
Lemma filter_flat_map {A B} (p : B -> bool) (f : A -> list B) l : filter p (flat_map f l) = flat_map (fun x => filter p (f x)) l.
Proof. induction l as [|x t IH]; cbn [flat_map]; auto. rewrite filter_app, IH. reflexivity. Qed.
Lemma mem_filter_ge k i l : i <= k -> mem k (filter (fun j => Nat.leb i j) l) = mem k l.
Proof. intros H. induction l as [|x t IH]; cbn [filter]; auto. unfold mem in *. destruct (Nat.leb_spec i x); cbn [existsb]; rewrite IH; auto.
  destruct (Nat.eqb_spec k x); [lia|reflexivity]. Qed.

Lemma filter_idem {A} (p : A -> bool) (l : list A) : filter p (filter p l) = filter p l.
Proof. induction l as [|x t IH]; cbn [filter]; auto. destruct (p x) eqn:E; cbn [filter]; [rewrite E, IH|]; auto. Qed.
Lemma filter_small i (l : list nat) : (forall x, In x l -> x < i) -> filter (fun j => Nat.leb i j) l = [].
Proof. induction l as [|x t IH]; intros R; cbn [filter]; auto. destruct (Nat.leb_spec i x); [assert (x < i) by (apply R; left; auto); lia|].
  apply IH. intros; apply R; right; auto. Qed.

Section URows.
Context {L : Type}.
Notation dgraph := (@dgraph L).
Implicit Types g h : dgraph.
Definition urow g (i : nat) : list edge := map (pair i) (filter (fun j => Nat.leb i j) (nb g i)).
Lemma filter_up_flatten g : filter up (flatten g) = flat_map (urow g) (seq 0 (size g)).
Proof. unfold flatten, rows_from. rewrite filter_flat_map. apply flat_map_ext_in'. intros i _. apply filter_up_row. Qed.
Lemma usel_urows_lt g k : (forall i, NoDup (nb g i)) -> forall l, (forall i, In i l -> i < k) ->
  usel k (flat_map (urow g) l) = filter (fun i => mem k (nb g i)) l.
Proof. intros ND. induction l as [|i t IH]; intros R; cbn [flat_map filter]; auto. rewrite usel_app, IH by (intros; apply R; right; auto).
  assert (Hi : i < k) by (apply R; left; auto). unfold urow at 1. rewrite usel_pairs_lt by (auto; apply NoDup_filter, ND).
  rewrite mem_filter_ge by lia. destruct (mem k (nb g i)); reflexivity. Qed.
Lemma usel_urows_gt g k : forall l, (forall i, In i l -> k < i) -> usel k (flat_map (urow g) l) = [].
Proof. induction l as [|i t IH]; intros R; cbn [flat_map]; auto. rewrite usel_app, IH by (intros; apply R; right; auto).
  unfold urow. rewrite usel_pairs_gt; auto; [apply R; left; auto|]. intros x Hx. apply filter_In in Hx as [_ Hx]. apply Nat.leb_le; auto. Qed.
(* the reloaded list of vertex k *)
Definition reloaded g (k : nat) : list nat := filter (fun i => mem k (nb g i)) (seq 0 k) ++ filter (fun j => Nat.leb k j) (nb g k).
Lemma usel_half g k : (forall i, NoDup (nb g i)) -> k < size g -> usel k (filter up (flatten g)) = reloaded g k.
Proof. intros ND Hk. rewrite filter_up_flatten. replace (size g) with (k + (1 + (size g - S k))) by lia.
  rewrite !seq_app, !flat_map_app, !usel_app. cbn [seq flat_map]. rewrite app_nil_r.
  rewrite usel_urows_lt by (auto; intros i Hi; apply in_seq in Hi; lia).
  rewrite usel_urows_gt by (intros i Hi; apply in_seq in Hi; lia). rewrite app_nil_r. unfold urow. rewrite usel_pairs_eq. reflexivity. Qed.
End URows.

Section UBuild.
Context {L : Type}.
Variable hs : bool.
Notation dgraph := (@dgraph L).
Implicit Types g h : dgraph.
Notation InvU := (InvU hs).

Lemma ordered_up i j : i <= j -> ordered i j = (i, j).
Proof. intros H. unfold ordered. destruct (Nat.ltb_spec i j); auto. f_equal; lia. Qed.
(* addEdge(v1, v2, label, force = true) *)
Lemma u_add_forced_spec h i j l : length (adj h) = size h -> i < size h -> j < size h ->
  exists h3, u_add_edge hs repaired h i j l true = (h3, Done) /\ length (adj h3) = size h3 /\ size h3 = size h /\
    (forall k, nb h3 k = nb h k ++ ucontrib k (i, j)) /\ enum h3 = (enum h + 1)%Z /\ labels h3 = set_label hs (ordered i j) l (labels h).
Proof.
  intros E Hi Hj. unfold u_add_edge. cbn [v_force_checks repaired]. unfold in_range.
  rewrite (proj2 (Nat.ltb_lt _ _) Hi), (proj2 (Nat.ltb_lt _ _) Hj). cbn [andb]. unfold u_push. rewrite E, (proj2 (Nat.ltb_lt _ _) Hi), (proj2 (Nat.ltb_lt _ _) Hj). cbn [andb].
  eexists; split; [reflexivity|]. cbn [adj size enum labels].
  split; [destruct (Nat.eqb i j); rewrite !upd_length; auto|]. split; auto. split; auto.
  intros k. unfold nb, ucontrib; cbn [adj fst snd]. destruct (Nat.eqb_spec i j) as [->|NE].
  - rewrite nth_upd by lia. destruct (Nat.eqb_spec k j) as [->|]; cbn [andb negb app]; [reflexivity|rewrite app_nil_r; reflexivity].
  - rewrite nth_upd2 by lia. destruct (Nat.eqb_spec k j) as [->|NK].
    + destruct (Nat.eqb_spec j i); [congruence|]. cbn [andb negb app]. reflexivity.
    + destruct (Nat.eqb_spec k i) as [->|]; cbn [andb app]; [reflexivity|rewrite app_nil_r; reflexivity].
Qed.

Variable f : edge -> L.
Record UBuilt (es : list edge) h : Prop := {
  ub_len : length (adj h) = size h;
  ub_nb : forall k, nb h k = usel k es;
  ub_enum : enum h = Z.of_nat (length es);
  ub_in : forall e, In e es -> fst e < size h /\ snd e < size h;
  ub_min : forall n, (forall e, In e es -> fst e < n /\ snd e < n) -> size h <= n;
  ub_lab : if hs then forall k, lfind k (labels h) = if existsb (fun e => edge_eqb e k) es then Some (f k) else None else labels h = [];
  ub_keys : KeysOK h }.
Lemma ubuilt_init : UBuilt [] (init 0).
Proof. constructor; cbn; auto; try tauto.
  - intros [|k]; reflexivity.
  - intros; lia.
  - destruct hs; auto.
  - constructor. Qed.
Lemma ubuilt_step es h i j h2 l : UBuilt es h -> Grown h i j h2 -> i <= j -> (hs = true -> l = f (i, j)) ->
  exists h3, u_add_edge hs repaired h2 i j l true = (h3, Done) /\ UBuilt (es ++ [(i, j)]) h3.
Proof.
  intros B [E2 [S2 [N2 [M2 L2]]]] Hij HL.
  destruct (u_add_forced_spec h2 i j l E2) as [h3 [A [E3 [S3 [N3 [M3 L3]]]]]]; [lia|lia|].
  exists h3. split; auto. constructor; auto.
  - intros k. rewrite N3, usel_app, N2, (ub_nb _ _ B). change (usel k [(i, j)]) with (ucontrib k (i, j) ++ []). rewrite app_nil_r. reflexivity.
  - rewrite M3, M2, (ub_enum _ _ B), app_length. cbn [length]. lia.
  - intros e Hin. apply in_app_or in Hin as [Hin|[<-|[]]].
    + apply (ub_in _ _ B) in Hin. lia.
    + cbn [fst snd]. lia.
  - intros n Hn. rewrite S3, S2.
    assert (size h <= n) by (apply (ub_min _ _ B); intros e He; apply Hn, in_or_app; auto).
    destruct (Hn (i, j)) as [X Y]; [apply in_or_app; right; left; reflexivity|]. cbn [fst snd] in X, Y. lia.
  - pose proof (ub_lab _ _ B) as BL. rewrite L3, L2, (ordered_up i j Hij). unfold set_label. destruct hs; auto.
    rewrite (HL eq_refl). intros k. rewrite lfind_lset, existsb_app. cbn [existsb]. rewrite orb_false_r, BL.
    destruct (edge_eqb_spec (i, j) k) as [<-|NE]; [rewrite orb_true_r; reflexivity|rewrite orb_false_r; reflexivity].
  - unfold KeysOK. rewrite L3, L2. apply keys_set_label. apply (ub_keys _ _ B).
Qed.

(* ---- operator== on two graphs with the same edge sets ---- *)
Lemma eq_rows_true g h : length (adj g) = size g -> length (adj h) = size h -> size g = size h ->
  (forall i j, In j (nb g i) -> j < size g) -> (forall i j, In j (nb g i) <-> In j (nb h i)) ->
  forall vs, (forall i, In i vs -> i < size g) -> eq_rows g h vs = Val true.
Proof.
  intros Eg Eh S R SE. induction vs as [|i t IH]; intros RV; cbn [eq_rows]; auto.
  assert (Hi : i < size g) by (apply RV; left; auto).
  assert (Hi' : i < length (adj g)) by lia. assert (Hi'' : i < length (adj h)) by lia.
  rewrite (nth_error_nth' _ [] Hi'), (nth_error_nth' _ [] Hi''). fold (nb g i) (nb h i).
  rewrite (all_edges_in_val h i (nb g i) Eh); [|lia|intros j Hj; apply R in Hj; lia]. cbn [obind].
  assert (forallb (fun j => mem j (nb h i)) (nb g i) = true) as -> by (apply forallb_forall; intros j Hj; apply mem_In, SE; auto).
  rewrite (all_edges_in_val g i (nb h i) Eg Hi); [|intros j Hj; apply SE, R in Hj; lia]. cbn [obind].
  assert (forallb (fun j => mem j (nb g i)) (nb h i) = true) as -> by (apply forallb_forall; intros j Hj; apply mem_In, SE; auto).
  apply IH. intros; apply RV; right; auto.
Qed.
Lemma lmap_eqb_true (leqb : L -> L -> bool) (m1 m2 : @lmap L) : (forall x, leqb x x = true) ->
  NoDup (map fst m1) -> NoDup (map fst m2) -> (forall e, lfind e m1 = lfind e m2) -> lmap_eqb leqb m1 m2 = true.
Proof.
  intros RF K1 K2 LF. unfold lmap_eqb.
  assert (LEN : length m1 = length m2).
  { rewrite <- (map_length fst m1), <- (map_length fst m2). apply Permutation_length, NoDup_Permutation; auto.
    intros e. rewrite <- !lfind_some_in_keys, LF. tauto. }
  rewrite LEN, Nat.eqb_refl. cbn [andb]. apply forallb_forall. intros [e v] Hin. cbn [fst snd].
  apply (lfind_In_nodup leqb _ _ _ K1) in Hin. rewrite <- LF, Hin. apply RF.
Qed.
Lemma utotal_from_half (a b : list (list nat)) : length a = length b ->
  forall k, (forall i, filter (fun j => Nat.leb (k + i) j) (nth i a []) = filter (fun j => Nat.leb (k + i) j) (nth i b [])) -> utotal_from k a = utotal_from k b.
Proof.
  revert b. induction a as [|x t IH]; intros [|y u] E k H; cbn [length] in E; try discriminate; auto.
  cbn [utotal_from]. f_equal.
  - unfold cnt. specialize (H 0). cbn [nth] in H. rewrite Nat.add_0_r in H. rewrite H. reflexivity.
  - apply IH; [lia|]. intros i. specialize (H (S i)). cbn [nth] in H. replace (S k + i) with (k + S i) by lia. exact H.
Qed.

(* ---- after the records of the i <= j half of g: resizing to size g gives g back, up to the order inside the lists ---- *)
Lemma ubuilt_final (leqb : L -> L -> bool) g h : (forall x, leqb x x = true) -> InvU g -> KeysOK g -> UBuilt (filter up (flatten g)) h ->
  (forall e l, lfind e (labels g) = Some l -> f e = l) ->
  size h <= size g /\
  exists h', resize h (size g) = (h', Done) /\ size h' = size g /\ enum h' = enum g /\
    (forall k, k < size g -> nb h' k = reloaded g k) /\ (forall i j, In j (nb h' i) <-> In j (nb g i)) /\
    (forall e, lfind e (labels h') = lfind e (labels g)) /\ KeysOK h' /\ InvU h' /\ graph_eqb leqb h' g = Val true.
Proof.
  intros RF I K B FL.
  assert (INH : forall i j, In (i, j) (filter up (flatten g)) <-> i <= j /\ In j (nb g i)).
  { intros i j. rewrite filter_In, DirectedUsers.In_flatten. unfold up; cbn [fst snd]. rewrite Nat.leb_le.
    split; [tauto|]. intros [A C]; split; auto. split; auto. apply (u_rng _ _ I) in C. tauto. }
  assert (RNG : forall e, In e (filter up (flatten g)) -> fst e < size g /\ snd e < size g).
  { intros [i j] Hin. apply INH in Hin as [_ Hin]. apply (u_rng _ _ I) in Hin. exact Hin. }
  assert (SZ : size h <= size g) by (apply (ub_min _ _ B); exact RNG). split; auto.
  destruct (resize_grow h (size g) (ub_len _ _ B) SZ) as [h' [R [E' [S' [N' [M' L']]]]]].
  exists h'. split; auto. split; auto.
  assert (EN : enum h' = enum g).
  { rewrite M', (ub_enum _ _ B), (u_enum _ _ I). apply length_filter_up_flatten. apply (u_len _ _ I). }
  split; auto.
  assert (NBK : forall k, k < size g -> nb h' k = reloaded g k).
  { intros k Hk. rewrite N', (ub_nb _ _ B). apply usel_half; auto. apply (u_nodup _ _ I). }
  split; auto.
  assert (MEM : forall i j, In j (nb h' i) <-> In j (nb g i)).
  { intros i j. destruct (Nat.lt_ge_cases i (size g)) as [Hi|Hi].
    - rewrite (NBK i Hi). unfold reloaded. rewrite in_app_iff, !filter_In, in_seq, mem_In, Nat.leb_le. split.
      + intros [[_ X]|[X _]]; auto. apply (u_sym _ _ I); auto.
      + intros X. destruct (Nat.lt_ge_cases j i); [left; split; [lia|apply (u_sym _ _ I); auto]|right; auto].
    - unfold nb. rewrite !nth_overflow; [tauto|rewrite (u_len _ _ I); auto|rewrite E'; auto]. }
  split; auto.
  assert (LF : forall e, lfind e (labels h') = lfind e (labels g)).
  { intros e. rewrite L'. pose proof (ub_lab _ _ B) as BL. pose proof (u_lab _ _ I) as IL. destruct hs.
    - rewrite BL. destruct e as [i j]. destruct (lfind (i, j) (labels g)) as [l|] eqn:F.
      + assert (i <= j /\ In j (nb g i)) as Hin by (apply IL; congruence).
        replace (existsb (fun e => edge_eqb e (i, j)) (filter up (flatten g))) with true; [rewrite (FL _ _ F); reflexivity|].
        symmetry. apply existsb_exists. exists (i, j). split; [apply INH; auto|apply edge_eqb_refl].
      + replace (existsb (fun e => edge_eqb e (i, j)) (filter up (flatten g))) with false; auto.
        symmetry. apply not_true_is_false. rewrite existsb_exists. intros [x [Hx Ex]]. destruct (edge_eqb_spec x (i, j)) as [->|]; [|discriminate].
        apply INH in Hx. apply IL in Hx. congruence.
    - rewrite BL, IL. reflexivity. }
  split; auto.
  assert (K' : KeysOK h') by (unfold KeysOK; rewrite L'; apply (ub_keys _ _ B)). split; auto.
  assert (ND' : forall i, NoDup (nb h' i)).
  { intros i. destruct (Nat.lt_ge_cases i (size g)) as [Hi|Hi].
    - rewrite (NBK i Hi). unfold reloaded. apply NoDup_app_intro; [apply NoDup_filter, seq_NoDup|apply NoDup_filter, (u_nodup _ _ I)|].
      intros x H1 H2. apply filter_In in H1 as [H1 _]. apply in_seq in H1. apply filter_In in H2 as [_ H2]. apply Nat.leb_le in H2. lia.
    - unfold nb. rewrite nth_overflow by (rewrite E'; auto). constructor. }
  assert (I' : InvU h').
  { constructor.
    - rewrite E', S'. reflexivity.
    - exact ND'.
    - intros i j. rewrite MEM, S'. apply (u_rng _ _ I).
    - intros i j. rewrite !MEM. apply (u_sym _ _ I).
    - rewrite EN, (u_enum _ _ I). unfold utotal. apply utotal_from_half; [rewrite E', (u_len _ _ I); reflexivity|].
      intros i. cbn [plus]. fold (nb g i) (nb h' i). destruct (Nat.lt_ge_cases i (size g)) as [Hi|Hi].
      + rewrite (NBK i Hi). unfold reloaded. rewrite filter_app.
        rewrite (filter_small i (filter (fun i0 => mem i (nb g i0)) (seq 0 i))) by (intros y Hy; apply filter_In in Hy as [Hy _]; apply in_seq in Hy; lia).
        cbn [app]. symmetry. apply filter_idem.
      + unfold nb. rewrite !nth_overflow; [reflexivity|rewrite E'; auto|rewrite (u_len _ _ I); auto].
    - pose proof (ub_lab _ _ B) as BL. pose proof (u_lab _ _ I) as IL. destruct hs; [|rewrite L'; exact BL].
      intros i j. rewrite LF, MEM. apply IL. }
  split; auto.
  unfold graph_eqb. rewrite S', Nat.eqb_refl, EN, Z.eqb_refl. cbn [andb].
  rewrite (lmap_eqb_true leqb (labels h') (labels g) RF K' K LF).
  apply eq_rows_true.
  - rewrite E', S'. reflexivity.
  - apply (u_len _ _ I).
  - exact S'.
  - intros i j Hin. apply MEM, (u_rng _ _ I) in Hin. lia.
  - exact MEM.
  - intros i Hi. apply in_seq in Hi. lia.
Qed.
End UBuild.

(* =================== the binary format, undirected =================== *)
Section UBinary.
Notation dgraph := (@dgraph N).
Implicit Types g h : dgraph.
Variable w : nat.
Notation hs := (hs_of w).
Notation blab := (blab w).
Notation brec := (brec w).
Definition ubstep (acc : outcome dgraph) (r : brecord) : outcome dgraph :=
  obind acc (fun h => let '(s, d, l) := r in
     let i := N.to_nat s in let j := N.to_nat d in
     obind (if Nat.leb (size h) i then DirectedModel.lift (resize h (S i)) else Val h) (fun h1 =>
     obind (if Nat.leb (size h1) j then DirectedModel.lift (resize h1 (S j)) else Val h1) (fun h2 => b_add repaired true w h2 i j l))).
Lemma ubuild_graph_fold rs : build_graph repaired true w rs = fold_left ubstep rs (Val (init 0)).
Proof. reflexivity. Qed.
Lemma ubuild_records g : forall es es0 h, UBuilt hs (blab g) es0 h -> (forall e, In e es -> fst e <= snd e) ->
  exists h', fold_left ubstep (map (brec g) es) (Val h) = Val h' /\ UBuilt hs (blab g) (es0 ++ es) h'.
Proof.
  induction es as [|[i j] es IH]; intros es0 h B UP; cbn [map fold_left].
  - exists h. rewrite app_nil_r. auto.
  - unfold ubstep at 2, RoundTrip.brec at 2. cbn [obind fst snd]. rewrite !Nat2N.id.
    destruct (grow2_spec h i j (fun h2 => b_add repaired true w h2 i j (blab g (i, j))) (ub_len _ _ _ _ B)) as [h2 [G E]].
    rewrite E. destruct (ubuilt_step hs (blab g) es0 h i j h2 (blab g (i, j)) B G (UP (i, j) (or_introl eq_refl)) (fun _ => eq_refl)) as [h3 [A B3]].
    unfold b_add. rewrite A. cbn [lift]. destruct (IH (es0 ++ [(i, j)]) h3 B3) as [h' [F B']]; [intros; apply UP; right; auto|]. exists h'. split; auto.
    rewrite <- app_assoc in B'. exact B'.
Qed.
Lemma u_records_of_val g : InvU hs g -> records_of repaired true w g = Val (map (brec g) (filter up (flatten g))).
Proof.
  intros I. unfold records_of. rewrite (u_iterate_flatten hs g I). cbn [obind].
  apply omapM_val. intros [i j] Hin. cbn [fst snd]. unfold RoundTrip.brec, RoundTrip.blab. cbn [fst snd].
  destruct (Nat.eqb w 0) eqn:W; [reflexivity|].
  apply filter_In in Hin as [Hin UP]. unfold up in UP; cbn [fst snd] in UP. apply Nat.leb_le in UP.
  apply DirectedUsers.In_flatten in Hin as [_ Hin]. pose proof (u_rng _ _ I _ _ Hin) as [Hi Hj].
  unfold u_get_label. rewrite (ordered_up i j UP). cbn [fst snd].
  unfold get_label, in_range. rewrite (proj2 (Nat.ltb_lt _ _) Hi), (proj2 (Nat.ltb_lt _ _) Hj). cbn [andb].
  pose proof (u_lab _ _ I) as IL. unfold hs_of in IL. rewrite W in IL. cbn [negb] in IL.
  destruct (lfind (i, j) (labels g)) as [l|] eqn:F; [reflexivity|]. exfalso. apply (proj2 (IL i j)); auto.
Qed.
Lemma u_brec_ok g : InvU hs g -> fits w g -> Forall (rec_ok w) (map (brec g) (filter up (flatten g))).
Proof.
  intros I [FS FL]. apply Forall_forall. intros r Hr. apply in_map_iff in Hr as [[i j] [<- Hin]].
  apply filter_In in Hin as [Hin _]. apply DirectedUsers.In_flatten in Hin as [_ Hin]. pose proof (u_rng _ _ I _ _ Hin) as [Hi Hj].
  unfold RoundTrip.brec, rec_ok. cbn [fst snd]. split; [lia|]. split; [lia|]. unfold RoundTrip.blab.
  assert (P : (0 < 256 ^ N.of_nat w)%N) by (apply N.neq_0_lt_0, N.pow_nonzero; discriminate).
  destruct (Nat.eqb w 0); auto. destruct (lfind (i, j) (labels g)) as [l|] eqn:F; auto. apply (FL _ _ F).
Qed.

(* (C), binary *)
Theorem binary_round_trip_undirected g : InvU hs g -> KeysOK g -> fits w g ->
  exists b h h',
    write_binary repaired true w g = Val b /\ b = enc_records w (map (brec g) (filter up (flatten g))) /\
    load_binary repaired true w b = Val h /\ size h <= size g /\
    resize h (size g) = (h', Done) /\
    size h' = size g /\ enum h' = enum g /\
    (forall k, k < size g -> nb h' k = reloaded g k) /\ (forall i j, In j (nb h' i) <-> In j (nb g i)) /\
    (forall e, lfind e (labels h') = lfind e (labels g)) /\ KeysOK h' /\ InvU hs h' /\
    graph_eqb N.eqb h' g = Val true.
Proof.
  intros I K FT.
  destruct (ubuild_records g (filter up (flatten g)) [] (init 0) (ubuilt_init hs (blab g))) as [h [F B]].
  { intros e He. apply filter_In in He as [_ He]. apply Nat.leb_le; exact He. }
  cbn [app] in B.
  assert (FL : forall e l, lfind e (labels g) = Some l -> blab g e = l).
  { intros e l Fe. unfold RoundTrip.blab. rewrite Fe. destruct (Nat.eqb w 0) eqn:W; auto.
    pose proof (u_lab _ _ I) as IL. unfold hs_of in IL. rewrite W in IL. cbn [negb] in IL. rewrite IL in Fe. discriminate. }
  destruct (ubuilt_final hs (blab g) N.eqb g h N.eqb_refl I K B FL) as [SZ [h' [R [A1 [A2 [A3 [A4 [A5 [A6 [A7 A8]]]]]]]]]].
  exists (enc_records w (map (brec g) (filter up (flatten g)))), h, h'.
  split; [unfold write_binary; rewrite (u_records_of_val g I); reflexivity|]. split; auto.
  split; [rewrite load_binary_whole by (apply u_brec_ok; auto); rewrite ubuild_graph_fold; exact F|].
  repeat (split; auto).
Qed.
End UBinary.

(* the order inside a list is NOT preserved in general: vertex 2 had [1; 0], it comes back as [0; 1] *)
Example undirected_order_changes :
  let g : @dgraph N := {| adj := [[2]; [2]; [1; 0]]; size := 3; enum := 2; labels := [] |} in
  omap (fun h => adj h) (obind (write_binary repaired true 0 g) (load_binary repaired true 0)) = Val [[2]; [2]; [0; 1]].
Proof. vm_compute. reflexivity. Qed.
