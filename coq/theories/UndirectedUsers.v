(* Derived observers of the undirected labelled model (getDegree, getDegrees, getAdjacencyMatrix): under the class invariant [InvU] they
   are defined (Val) and equal to the expected counts.  Convention found in the model (and in the C++ code it mirrors): a self-loop {v,v}
   is stored ONCE in the list of v; with [twice = true] it is counted 2 in the degree and written 2 on the diagonal of the adjacency
   matrix, with [twice = false] it counts 1.  The [_gen] lemmas say what is computed on ANY well-shaped state (duplicates included). *)
From BG Require Import Base DirectedModel DirectedProofs DirectedIter DirectedUsers UndirectedModel UndirectedProofs.
Local Open Scope nat_scope.

(* what one entry j in the list of vertex i is worth *)
Definition loopw (i j : nat) (twice : bool) : nat := if Nat.eqb i j && twice then 2 else 1.
(* sum of f over a list of vertices *)
Definition nsum (f : nat -> nat) (l : list nat) : nat := fold_right Nat.add 0 (map f l).

Lemma count_cons j x l : count j (x :: l) = (if Nat.eqb j x then 1 else 0) + count j l.
Proof. unfold count; cbn [filter]. destruct (Nat.eqb j x); reflexivity. Qed.
Lemma count_notin j l : ~ In j l -> count j l = 0.
Proof. induction l as [|x t IH]; intros H; [reflexivity|]. rewrite count_cons, IH by (intros X; apply H; simpl; auto).
  destruct (Nat.eqb_spec j x) as [->|]; [exfalso; apply H; simpl; auto|reflexivity]. Qed.

Lemma nsum_perm f l1 l2 : Permutation l1 l2 -> nsum f l1 = nsum f l2.
Proof. unfold nsum. induction 1; cbn [map fold_right]; auto; lia. Qed.
Lemma nsum_filter f (p : nat -> bool) l : nsum f (filter p l) = nsum (fun x => if p x then f x else 0) l.
Proof. unfold nsum. induction l as [|x t IH]; cbn [filter map fold_right]; auto. destruct (p x); cbn [map fold_right]; rewrite IH; auto. Qed.
Lemma nsum_ext f h l : (forall x, In x l -> f x = h x) -> nsum f l = nsum h l.
Proof. unfold nsum. induction l as [|x t IH]; intros H; cbn [map fold_right]; auto. rewrite (H x) by (simpl; auto). rewrite IH; auto. intros; apply H; simpl; auto. Qed.
(* a duplicate-free list of vertices below n, summed as a subset of 0..n-1 *)
Lemma nsum_nodup_seq f l n : NoDup l -> (forall j, In j l -> j < n) -> nsum f l = nsum (fun j => if mem j l then f j else 0) (seq 0 n).
Proof. intros ND R. rewrite <- nsum_filter. apply nsum_perm, NoDup_Permutation; auto; [apply NoDup_filter, seq_NoDup|].
  intros j. rewrite filter_In, in_seq, mem_In. split; [intros H; split; auto; apply R in H; lia|tauto]. Qed.

(* ---- one row of the adjacency matrix ---- *)
Lemma u_matrix_row_acc i n twice (l : list nat) : forall row, length row = n -> (forall j, In j l -> j < n) ->
  exists row', fold_left (fun acc j => obind acc (fun row => match nth_error row j with None => Undef IndexOOB
      | Some x => Val (upd j (fun _ => (x + (if Nat.eqb i j && twice then 2 else 1))%nat) row) end)) l (Val row) = Val row' /\
    length row' = n /\ forall j, nth j row' 0 = nth j row 0 + count j l * loopw i j twice.
Proof.
  induction l as [|x l IH]; intros row Ln R; cbn [fold_left].
  - exists row; split; [reflexivity|split; [exact Ln|]]. intros j. unfold count; cbn [filter length]. lia.
  - assert (Hx : x < length row) by (rewrite Ln; apply R; simpl; auto).
    cbn [obind]. rewrite (nth_error_nth' row 0 Hx).
    destruct (IH (upd x (fun _ => nth x row 0 + (if Nat.eqb i x && twice then 2 else 1)) row)) as [row' [F [Ln' N]]].
    { rewrite upd_length; auto. } { intros j Hj; apply R; simpl; auto. }
    exists row'; split; [exact F|split; [exact Ln'|]]. intros j. rewrite N, nth_upd by auto. rewrite count_cons. unfold loopw.
    destruct (Nat.eqb_spec j x) as [->|]; lia.
Qed.
(* entry j of the row of vertex i = (number of occurrences of j in the list) * (2 on the diagonal iff twice, else 1) *)
Lemma u_matrix_row_gen i n twice (l : list nat) : (forall j, In j l -> j < n) ->
  u_matrix_row i n twice l = Val (map (fun j => count j l * loopw i j twice) (seq 0 n)).
Proof.
  intros R. unfold u_matrix_row. destruct (u_matrix_row_acc i n twice l (repeat 0 n) (repeat_length 0 n) R) as [row' [F [Ln N]]].
  rewrite F. f_equal. apply (nth_ext _ _ 0 0); [rewrite map_length, seq_length; auto|].
  intros j Hj. rewrite Ln in Hj. rewrite N, nth_repeat, nth_map_seq by auto. reflexivity.
Qed.

Lemma loop_fold_count v (l : list nat) : fold_right (fun x acc => ((if Nat.eqb x v then 2 else 1) + acc)%nat) 0%nat l = length l + count v l.
Proof. induction l as [|x t IH]; [reflexivity|]. cbn [fold_right length]. rewrite IH, count_cons, (Nat.eqb_sym v x). destruct (Nat.eqb x v); lia. Qed.

Section UUsers.
Context {L : Type}.
Variable has_store : bool.
Notation dgraph := (@dgraph L).
Implicit Types g : dgraph.
Notation InvU := (InvU has_store).

(* the value the degree observer must return: neighbours of v, the loop (if any) once more when [twice] *)
Definition udegree g (twice : bool) (v : nat) : nat := length (nb g v) + (if twice && mem v (nb g v) then 1 else 0).
(* the value at (i, j) of the adjacency matrix *)
Definition ucell g (twice : bool) (i j : nat) : nat := if mem j (nb g i) then loopw i j twice else 0.

(* ---- getDegree ---- *)
Lemma u_degree_gen g v twice : length (adj g) = size g -> v < size g ->
  u_degree g v twice = Val (length (nb g v) + (if twice then count v (nb g v) else 0)).
Proof. intros E Hv. unfold u_degree. rewrite (out_nb g v E Hv). destruct twice; [rewrite loop_fold_count|rewrite Nat.add_0_r]; reflexivity. Qed.
Theorem u_degree_val g v twice : InvU g -> v < size g -> u_degree g v twice = Val (udegree g twice v).
Proof. intros I Hv. rewrite (u_degree_gen g v twice (u_len _ _ I) Hv). unfold udegree. rewrite (count_nodup v _ (u_nodup _ _ I v)).
  destruct twice; reflexivity. Qed.
Theorem u_degree_oor g v twice : size g <= v -> u_degree g v twice = Raise OutOfRange.
Proof. intros H. unfold u_degree, out_neighbours, in_range. destruct (Nat.ltb_spec v (size g)); [lia|reflexivity]. Qed.
(* a loop-free vertex: both conventions agree and give the number of neighbours *)
Corollary u_degree_no_loop g v twice : InvU g -> v < size g -> ~ In v (nb g v) -> u_degree g v twice = Val (length (nb g v)).
Proof. intros I Hv N. rewrite (u_degree_val g v twice I Hv). unfold udegree. rewrite (proj2 (mem_false _ _) N), andb_false_r, Nat.add_0_r. reflexivity. Qed.
Corollary u_degree_loop g v : InvU g -> v < size g -> In v (nb g v) ->
  u_degree g v true = Val (S (length (nb g v))) /\ u_degree g v false = Val (length (nb g v)).
Proof. intros I Hv N. rewrite !(u_degree_val g v _ I Hv). unfold udegree. rewrite (proj2 (mem_In _ _) N). cbn [andb]. split; f_equal; lia. Qed.

(* ---- getDegrees ---- *)
Theorem u_degrees_val g twice : InvU g -> u_degrees g twice = Val (map (udegree g twice) (seq 0 (size g))).
Proof. intros I. unfold u_degrees. apply omapM_val. intros i Hi. apply in_seq in Hi. apply u_degree_val; auto; lia. Qed.

(* ---- getAdjacencyMatrix ---- *)
Lemma u_adjacency_matrix_gen g twice : length (adj g) = size g -> (forall i j, In j (nb g i) -> j < size g) ->
  u_adjacency_matrix g twice = Val (map (fun i => map (fun j => count j (nb g i) * loopw i j twice) (seq 0 (size g))) (seq 0 (size g))).
Proof. intros E R. unfold u_adjacency_matrix. apply omapM_val. intros i Hi. apply in_seq in Hi. rewrite (out_nb g i E) by lia. cbn [obind].
  apply u_matrix_row_gen. intros j; apply R. Qed.
Theorem u_adjacency_matrix_val g twice : InvU g ->
  u_adjacency_matrix g twice = Val (map (fun i => map (fun j => ucell g twice i j) (seq 0 (size g))) (seq 0 (size g))).
Proof. intros I. rewrite (u_adjacency_matrix_gen g twice (u_len _ _ I)) by (intros i j H; apply (u_rng _ _ I) in H; tauto).
  f_equal. apply map_ext. intros i. apply map_ext. intros j. unfold ucell. rewrite (count_nodup j _ (u_nodup _ _ I i)).
  destruct (mem j (nb g i)); lia. Qed.
(* entry by entry *)
Corollary u_adjacency_matrix_entry g twice M i j : InvU g -> u_adjacency_matrix g twice = Val M -> i < size g -> j < size g ->
  nth j (nth i M []) 0 = ucell g twice i j.
Proof. intros I E Hi Hj. rewrite (u_adjacency_matrix_val g twice I) in E. injection E as <-.
  rewrite (nth_map_seq (fun i => map (fun j => ucell g twice i j) (seq 0 (size g))) (size g) i [] Hi).
  apply (nth_map_seq (fun j => ucell g twice i j) (size g) j 0 Hj). Qed.
Lemma ucell_sym g twice i j : InvU g -> ucell g twice i j = ucell g twice j i.
Proof. intros I. unfold ucell, loopw. rewrite (Nat.eqb_sym j i).
  assert (mem j (nb g i) = mem i (nb g j)) as ->; [|reflexivity].
  destruct (mem i (nb g j)) eqn:M; [apply mem_In, (u_sym _ _ I), mem_In; auto|].
  apply mem_false. intros X. apply (u_sym _ _ I), mem_In in X. congruence. Qed.
Lemma ucell_oor g twice i j : InvU g -> size g <= i \/ size g <= j -> ucell g twice i j = 0.
Proof. intros I H. unfold ucell. destruct (mem j (nb g i)) eqn:M; auto. apply mem_In, (u_rng _ _ I) in M. lia. Qed.
(* the matrix is symmetric (any indices: outside the matrix both sides are the default 0) *)
Theorem u_adjacency_matrix_symmetric g twice M : InvU g -> u_adjacency_matrix g twice = Val M ->
  forall i j, nth j (nth i M []) 0 = nth i (nth j M []) 0.
Proof.
  intros I E i j. destruct (Nat.lt_ge_cases i (size g)) as [Hi|Hi]; destruct (Nat.lt_ge_cases j (size g)) as [Hj|Hj].
  - rewrite (u_adjacency_matrix_entry g twice M i j I E Hi Hj), (u_adjacency_matrix_entry g twice M j i I E Hj Hi). apply ucell_sym; auto.
  - rewrite (u_adjacency_matrix_val g twice I) in E. injection E as <-.
    rewrite (nth_overflow _ [] (n := j)) by (rewrite map_length, seq_length; auto).
    rewrite (nth_map_seq (fun i => map (fun j => ucell g twice i j) (seq 0 (size g))) (size g) i [] Hi).
    rewrite nth_overflow by (rewrite map_length, seq_length; auto). destruct i; reflexivity.
  - rewrite (u_adjacency_matrix_val g twice I) in E. injection E as <-.
    rewrite (nth_overflow _ [] (n := i)) by (rewrite map_length, seq_length; auto).
    rewrite (nth_map_seq (fun i => map (fun j => ucell g twice i j) (seq 0 (size g))) (size g) j [] Hj).
    rewrite (nth_overflow _ 0 (n := i)) by (rewrite map_length, seq_length; auto). destruct j; reflexivity.
  - rewrite (u_adjacency_matrix_val g twice I) in E. injection E as <-.
    rewrite !(nth_overflow _ []) by (rewrite map_length, seq_length; auto). destruct i, j; reflexivity.
Qed.

(* the degree of v is the sum of row v of the adjacency matrix taken with the same convention *)
Theorem udegree_row_sum g twice v : InvU g -> udegree g twice v = nsum (ucell g twice v) (seq 0 (size g)).
Proof.
  intros I. unfold ucell.
  rewrite <- (nsum_nodup_seq (fun j => loopw v j twice) (nb g v) (size g) (u_nodup _ _ I v)) by (intros j H; apply (u_rng _ _ I) in H; tauto).
  unfold udegree, nsum, loopw. generalize (u_nodup _ _ I v). induction 1 as [|x l Hx ND IH]; cbn [map fold_right length mem existsb]; [rewrite andb_false_r; reflexivity|].
  rewrite <- IH. fold (mem v l). destruct (Nat.eqb_spec v x) as [->|Ne]; cbn [orb andb].
  - rewrite (proj2 (mem_false _ _) Hx). destruct twice; cbn [andb]; lia.
  - destruct twice, (mem v l); cbn [andb]; lia.
Qed.
End UUsers.

(* closed checks of the conventions: graph on 3 vertices with the loop {0,0} and the edge {0,1} *)
Example u_loop_conventions :
  let '(g, _) := urun true repaired (init 3) [UAdd 0 0 5%Z false; UAdd 0 1 6%Z false] in
  u_degree g 0 true = Val 3 /\ u_degree g 0 false = Val 2 /\ u_degree g 1 true = Val 1 /\
  u_degrees g true = Val [3; 1; 0] /\ u_degrees g false = Val [2; 1; 0] /\
  u_adjacency_matrix g true = Val [[2; 1; 0]; [1; 0; 0]; [0; 0; 0]] /\
  u_adjacency_matrix g false = Val [[1; 1; 0]; [1; 0; 0]; [0; 0; 0]].
Proof. vm_compute. repeat split. Qed.

Print Assumptions u_degree_val.
Print Assumptions u_degrees_val.
Print Assumptions u_adjacency_matrix_val.
Print Assumptions u_adjacency_matrix_symmetric.
Print Assumptions udegree_row_sum.
