(* C01 — Directed graph is a faithful set of ordered vertex pairs.  Statements only; proofs live in DirectedObs.v. *)
From BG Require Import Base DirectedModel DirectedProofs DirectedSpec DirectedRefine DirectedObs.
Local Open Scope Z_scope.

(* After ANY valid history (any length, any interleaving of the eight mutators, indices in range, force off, resize not
   shrinking) on a graph of ANY initial size and ANY label type (has_store = false is NoLabel), the model run ends normally
   and every observer reports the pair set the history denotes. *)
Theorem C01_faithful : forall (L : Type) (leqb : L -> L -> bool) (ldef : L) (has_store : bool) (n : nat) (ops : list (@dop L)),
  valid_history (s_init n) ops = true ->
  exists g, run has_store repaired (init n) ops = (g, Done) /\
    let a := spec_run (s_init n) ops in
    size g = sn a /\
    enum g = Z.of_nat (length (se a)) /\
    (forall i j, (i < sn a)%nat -> (j < sn a)%nat -> has_edge g i j = Val (smem (i, j) a)) /\
    (forall i, (i < sn a)%nat -> exists l, out_neighbours g i = Val l /\ NoDup l /\ forall j, In j l <-> smem (i, j) a = true) /\
    (has_store = true -> forall i j thr, (i < sn a)%nat -> (j < sn a)%nat ->
       get_label ldef has_store g i j thr =
       match lfind (i, j) (se a) with Some l => Val l | None => if thr then Raise InvalidArgument else Val ldef end) /\
    (has_store = true -> forall i j l, (i < sn a)%nat -> (j < sn a)%nat ->
       has_edge_l leqb ldef has_store g i j l = Val (match lfind (i, j) (se a) with Some l' => leqb l' l | None => false end)).
Proof. intros; apply C01_C03_directed_faithful; assumption. Qed.
Print Assumptions C01_faithful.

(* ---- ALL observers at once: after any valid history the whole observation vector of the model (size, edge count, hasEdge for every pair, neighbour
   multisets and degrees, both label getters, hasEdge(i,j,l), in/out degree vectors, adjacency matrix, the multiset yielded by edges(), the iteration
   segment) equals the observation vector computed from the pair-set spec - the very vector the spec oracle of the differential test prints ---- *)
From Coq Require Import List Arith ZArith.
From BG Require Import Base DirectedModel DirectedProofs DirectedSpec DirectedRefine DirectedObs UndirectedModel UndirectedProofs UndirectedSpec UndirectedRefine UndirectedObs MultiModel WeightedModel MultiSpec Totals MultiRefine WeightedRefine UTotals UMultiRefine UWeightedRefine Instances UndirectedUsers MultiUsers WeightedUsers ObserveSpec ObserveSpecLabelled.
Import ListNotations.
Local Close Scope Z_scope.
Theorem C01_all_observers :
  forall (L : Type) (leqb : L -> L -> bool) (ldef : L) (lcode : L -> Z) (lalpha : list L) (hs : bool) (n : nat) (ops : list (@dop L)),
        valid_history (s_init n) ops = true ->
        exists g : (@dgraph L),
          run hs repaired (init n) ops = (g, Done) /\ observe leqb ldef lcode lalpha hs repaired g = sobserve leqb ldef hs lcode lalpha (spec_run (s_init n) ops).
Proof. intros L. exact (@ObserveSpecLabelled.observe_history L). Qed.
Print Assumptions C01_all_observers.
