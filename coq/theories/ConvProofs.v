(* C09: getReversedGraph and the edge-list constructor of the directed model, via one lemma about folds of (unforced) addEdge. *)
From BG Require Import Base DirectedModel DirectedProofs DirectedIter DirectedUsers DirectedSpec DirectedRefine DirectedObs Equality.
Local Open Scope Z_scope.
Local Arguments Z.of_nat : simpl never.

Section ConvA.
Context {L : Type}.
Variable has_store : bool.
Notation dgraph := (@dgraph L).
Implicit Types g h : dgraph.
Notation Inv := (Inv has_store).
Notation V := repaired.
Notation ledge := (nat * nat * L)%type.
Definition add_all (es : list ledge) (o : outcome dgraph) : outcome dgraph :=
  fold_left (fun acc e => obind acc (fun h => lift (add_edge has_store V h (fst (fst e)) (snd (fst e)) (snd e) false))) es o.
Fixpoint first_label (i j : nat) (es : list ledge) : option L :=
  match es with [] => None | (a, b, l) :: t => if Nat.eqb a i && Nat.eqb b j then Some l else first_label i j t end.
Lemma first_label_some i j es : (exists l, In (i, j, l) es) <-> first_label i j es <> None.
Proof. induction es as [|[[a b] l] t IH]; cbn [first_label]; [split; [intros [l []]|congruence]|].
  destruct (Nat.eqb_spec a i) as [->|Na]; cbn [andb]; [destruct (Nat.eqb_spec b j) as [->|Nb]|].
  - split; [congruence|]. intros _. exists l; simpl; auto.
  - rewrite <- IH. split; intros [l' H]; exists l'; simpl in *; auto. destruct H as [H|H]; [congruence|auto].
  - rewrite <- IH. split; intros [l' H]; exists l'; simpl in *; auto. destruct H as [H|H]; [congruence|auto].
Qed.

(* a fold of addEdge over labelled edges in range: ends normally, keeps the invariant, adds exactly those pairs,
   an edge that was already there keeps its label, a new one gets the label of its first occurrence *)
Lemma add_all_spec (es : list ledge) : forall h, Inv h -> KeysOK h -> (forall e, In e es -> (fst (fst e) < size h)%nat /\ (snd (fst e) < size h)%nat) ->
  exists h', add_all es (Val h) = Val h' /\ Inv h' /\ KeysOK h' /\ size h' = size h /\
    (forall i j, In j (nb h' i) <-> In j (nb h i) \/ exists l, In (i, j, l) es) /\
    (has_store = true -> forall i j, lfind (i, j) (labels h') = match lfind (i, j) (labels h) with Some v => Some v | None => first_label i j es end).
Proof.
  induction es as [|[[a b] l] t IH]; intros h I K R; cbn [add_all fold_left].
  - exists h. split; [reflexivity|]. split; auto. split; auto. split; auto. split.
    + intros i j. split; [auto|intros [?|[l []]]; auto].
    + intros HS i j. destruct (lfind (i, j) (labels h)); auto.
  - destruct (R (a, b, l) (or_introl eq_refl)) as [Ha Hb]. cbn [fst snd] in *. cbn [obind].
    pose proof (add_edge_spec has_store h a b l I Ha Hb) as AS. pose proof (keys_add_edge has_store V h a b l false K) as KA.
    destruct (add_edge has_store V h a b l false) as [h1 r1]. cbn [fst] in KA. destruct AS as [-> [I1 [S1 [E1 L1]]]]. cbn [lift].
    destruct (IH h1 I1 KA) as [h' [F [I' [K' [S' [E' L']]]]]]. { intros e He. rewrite S1. apply R; simpl; auto. }
    exists h'. fold (add_all t (Val h1)). split; [exact F|]. split; auto. split; auto. split; [congruence|]. split.
    + intros i j. rewrite E', E1. split.
      * intros [[H|[-> ->]]|[l' H]]; auto; right; [exists l|exists l']; simpl; auto.
      * intros [H|[l' [H|H]]]; auto; [injection H as -> -> _; auto|right; exists l'; auto].
    + intros HS i j. rewrite (L' HS), L1, HS. cbn [andb first_label]. unfold edge_eqb; cbn [fst snd].
      pose proof (i_lab _ _ I) as IL. rewrite HS in IL.
      destruct (Nat.eqb_spec a i) as [->|Na]; cbn [andb]; [destruct (Nat.eqb_spec b j) as [->|Nb]; cbn [andb]|]; try reflexivity.
      destruct (mem j (nb h i)) eqn:M; cbn [negb].
      * apply mem_In, IL in M. destruct (lfind (i, j) (labels h)); [reflexivity|congruence].
      * apply mem_false in M. destruct (lfind (i, j) (labels h)) eqn:FF; [exfalso; apply M, IL; congruence|reflexivity].
Qed.

Lemma init_inv n : Inv (@init L n) /\ KeysOK (@init L n).
Proof. pose proof (init_refines (L := L) has_store n) as [I _ _ _]. split; [exact I|unfold KeysOK; cbn; constructor]. Qed.

(* ---- the edge-list constructor: 1 + largest index vertices (none for an empty list), the edges of the list, first label wins ---- *)
Definition ctor_from (es : list ledge) (o : outcome dgraph) : outcome dgraph :=
  fold_left (fun acc e => obind acc (fun h => let '(i, j, l) := e in
     let m := Nat.max i j in
     obind (if Nat.leb (size h) m then lift (resize h (S m)) else Val h) (fun h1 => lift (add_edge has_store V h1 i j l false)))) es o.
Definition lmax (es : list ledge) : nat := fold_right (fun e acc => Nat.max (S (Nat.max (fst (fst e)) (snd (fst e)))) acc) 0%nat es.
Lemma ctor_from_spec (es : list ledge) : forall h, Inv h -> KeysOK h ->
  exists h', ctor_from es (Val h) = Val h' /\ Inv h' /\ KeysOK h' /\ size h' = Nat.max (size h) (lmax es) /\
    (forall i j, In j (nb h' i) <-> In j (nb h i) \/ exists l, In (i, j, l) es) /\
    (has_store = true -> forall i j, lfind (i, j) (labels h') = match lfind (i, j) (labels h) with Some v => Some v | None => first_label i j es end).
Proof.
  induction es as [|[[a b] l] t IH]; intros h I K; cbn [ctor_from fold_left lmax fold_right].
  - exists h. split; [reflexivity|]. split; auto. split; auto. split; [lia|]. split.
    + intros i j. split; [auto|intros [?|[l []]]; auto].
    + intros HS i j. destruct (lfind (i, j) (labels h)); auto.
  - cbn [obind fst snd].
    (* resize when needed *)
    assert (RZ : exists h1, (if Nat.leb (size h) (Nat.max a b) then lift (resize h (S (Nat.max a b))) else Val h) = Val h1 /\ Inv h1 /\ KeysOK h1 /\
                 size h1 = Nat.max (size h) (S (Nat.max a b)) /\ (forall i, nb h1 i = nb h i) /\ labels h1 = labels h).
    { destruct (Nat.leb_spec (size h) (Nat.max a b)) as [Le|Gt].
      - assert (LE : (size h <= S (Nat.max a b))%nat) by lia.
        pose proof (resize_spec has_store h (S (Nat.max a b)) I LE) as RS. destruct (resize h (S (Nat.max a b))) as [h1 r1].
        destruct RS as [-> [I1 [S1 [N1 L1]]]]. exists h1. cbn [lift].
        split; [reflexivity|split; [exact I1|split; [unfold KeysOK; rewrite L1; exact K|split; [lia|split; [exact N1|exact L1]]]]].
      - exists h. split; [reflexivity|split; [exact I|split; [exact K|split; [lia|split; [reflexivity|reflexivity]]]]]. }
    destruct RZ as [h1 [-> [I1 [K1 [S1 [N1 LB1]]]]]]. cbn [obind].
    assert (Ha : (a < size h1)%nat) by lia. assert (Hb : (b < size h1)%nat) by lia.
    pose proof (add_edge_spec has_store h1 a b l I1 Ha Hb) as AS. pose proof (keys_add_edge has_store V h1 a b l false K1) as KA.
    destruct (add_edge has_store V h1 a b l false) as [h2 r2]. cbn [fst] in KA. destruct AS as [-> [I2 [S2 [E2 L2]]]]. cbn [lift].
    destruct (IH h2 I2 KA) as [h' [F [I' [K' [S' [E' L']]]]]].
    exists h'. fold (ctor_from t (Val h2)). split; [exact F|]. split; auto. split; auto. split; [unfold lmax in *; cbn [fold_right fst snd] in *; lia|]. split.
    + intros i j. rewrite E', E2, N1. split.
      * intros [[H|[-> ->]]|[l' H]]; auto; right; [exists l|exists l']; simpl; auto.
      * intros [H|[l' [H|H]]]; auto; [injection H as -> -> _; auto|right; exists l'; auto].
    + intros HS i j. rewrite (L' HS), L2, HS, LB1, N1. cbn [andb first_label]. unfold edge_eqb; cbn [fst snd].
      pose proof (i_lab _ _ I) as IL. rewrite HS in IL.
      destruct (Nat.eqb_spec a i) as [->|Na]; cbn [andb]; [destruct (Nat.eqb_spec b j) as [->|Nb]; cbn [andb]|]; try reflexivity.
      destruct (mem j (nb h i)) eqn:M; cbn [negb].
      * apply mem_In, IL in M. destruct (lfind (i, j) (labels h)); [reflexivity|congruence].
      * apply mem_false in M. destruct (lfind (i, j) (labels h)) eqn:FF; [exfalso; apply M, IL; congruence|reflexivity].
Qed.
Theorem of_edge_list_spec (es : list ledge) :
  exists h, of_edge_list has_store V es = Val h /\ Inv h /\ size h = lmax es /\
    (forall i j, In j (nb h i) <-> exists l, In (i, j, l) es) /\
    (has_store = true -> forall i j, lfind (i, j) (labels h) = first_label i j es).
Proof.
  destruct (init_inv 0) as [I0 K0]. destruct (ctor_from_spec es (init 0) I0 K0) as [h [F [I [K [S [E LB]]]]]].
  exists h. split; [exact F|]. split; auto. split; [cbn [init size] in S; lia|]. split.
  - intros i j. rewrite E. unfold nb, init; cbn [adj]. destruct i; simpl; split; try tauto; intros [[]|H]; auto.
  - intros HS i j. rewrite (LB HS). reflexivity.
Qed.
End ConvA.

Section ConvB.
Context {L : Type}.
Variable leqb : L -> L -> bool.
Variable ldef : L.
Variable has_store : bool.
Notation dgraph := (@dgraph L).
Implicit Types g h : dgraph.
Notation Inv := (Inv has_store).
Notation V := repaired.
Notation ledge := (nat * nat * L)%type.
Notation add_all := (add_all has_store).
(* ---- getReversedGraph ---- *)
Definition rev_edges g (es : list edge) : list ledge := map (fun e => (snd e, fst e, match lfind e (labels g) with Some l => l | None => ldef end)) es.
Lemma reversed_as_add_all g : Inv g -> forall (es : list edge) o, (forall e, In e es -> In (snd e) (nb g (fst e))) ->
  fold_left (fun acc e => obind acc (fun h => obind (get_label ldef has_store g (fst e) (snd e) true) (fun l => lift (add_edge has_store V h (snd e) (fst e) l false)))) es o
  = add_all (rev_edges g es) o.
Proof.
  intros I. induction es as [|[i j] t IH]; intros o R; cbn [fold_left rev_edges map add_all]; auto.
  rewrite IH by (intros; apply R; simpl; auto). fold (rev_edges g t). unfold add_all. f_equal.
  destruct o as [h| |]; cbn [obind]; auto. cbn [fst snd].
  pose proof (R (i, j) (or_introl eq_refl)) as Hin. cbn [fst snd] in Hin. pose proof (i_rng _ _ I _ _ Hin) as [Hi Hj].
  unfold get_label. rewrite (proj2 (in_range_true g i) Hi), (proj2 (in_range_true g j) Hj). cbn [andb].
  pose proof (i_lab _ _ I) as IL. destruct has_store; cbn [obind]; [|rewrite IL; reflexivity].
  destruct (lfind (i, j) (labels g)) eqn:F; [reflexivity|]. exfalso. apply (proj2 (IL i j)) in Hin. congruence.
Qed.
Theorem reversed_spec g : Inv g ->
  exists h, reversed ldef has_store V g = Val h /\ Inv h /\ KeysOK h /\ size h = size g /\
    (forall i j, In i (nb h j) <-> In j (nb g i)) /\
    (has_store = true -> forall i j, lfind (j, i) (labels h) = lfind (i, j) (labels g)).
Proof.
  intros I. unfold reversed. rewrite (iterate_flatten g (i_len _ _ I)). cbn [obind].
  rewrite (reversed_as_add_all g I) by (intros [i j] H; apply DirectedUsers.In_flatten in H; apply H).
  destruct (init_inv (L := L) has_store (size g)) as [I0 K0].
  destruct (add_all_spec has_store (rev_edges g (flatten g)) (init (size g)) I0 K0) as [h [F [I' [K' [S' [E' L']]]]]].
  { intros e He. unfold rev_edges in He. apply in_map_iff in He as [[i j] [<- H]]. cbn [fst snd init size].
    apply DirectedUsers.In_flatten in H as [_ H]. apply (i_rng _ _ I) in H. tauto. }
  exists h. split; [exact F|]. split; auto. split; auto. split; [exact S'|].
  assert (NB0 : forall i, nb (@init L (size g)) i = []) by (intros i; unfold nb, init; cbn [adj]; apply nth_repeat).
  assert (RE : forall i j, (exists l, In (j, i, l) (rev_edges g (flatten g))) <-> In j (nb g i)).
  { intros i j. unfold rev_edges. split.
    - intros [l H]. apply in_map_iff in H as [[a b] [E H]]. cbn [fst snd] in E. injection E as <- <- _. apply DirectedUsers.In_flatten in H. apply H.
    - intros H. eexists. apply in_map_iff. exists (i, j). split; [reflexivity|]. apply DirectedUsers.In_flatten. split; auto. apply (i_rng _ _ I) in H; tauto. }
  split.
  - intros i j. rewrite E', NB0, RE. split; [intros [[]|H]; auto|auto].
  - intros HS i j. rewrite (L' HS). cbn [init labels lfind].
    pose proof (i_lab _ _ I) as IL. rewrite HS in IL.
    (* the first (and only) occurrence of (j, i, _) carries the label of (i, j) *)
    assert (FL : forall es, (forall e, In e es -> lfind e (labels g) <> None) -> first_label j i (rev_edges g es) = if existsb (edge_eqb (i, j)) es then lfind (i, j) (labels g) else None).
    { induction es as [|[a b] t IHt]; intros Hne; cbn [rev_edges map first_label existsb]; auto. cbn [fst snd]. fold (rev_edges g t).
      unfold edge_eqb at 1; cbn [fst snd]. rewrite (Nat.eqb_sym i a), (Nat.eqb_sym j b), andb_comm.
      destruct (Nat.eqb_spec a i) as [->|]; cbn [andb]; [destruct (Nat.eqb_spec b j) as [->|]; cbn [andb orb]|cbn [orb]];
        try (apply IHt; intros; apply Hne; simpl; auto).
      destruct (lfind (i, j) (labels g)) eqn:FF; [reflexivity|]. exfalso. apply (Hne (i, j)); simpl; auto. }
    rewrite FL by (intros [a b] H; apply DirectedUsers.In_flatten in H as [_ H]; apply IL; auto).
    destruct (existsb (edge_eqb (i, j)) (flatten g)) eqn:X; auto.
    destruct (lfind (i, j) (labels g)) eqn:FF; auto. exfalso.
    assert (In j (nb g i)) by (apply IL; congruence). assert (existsb (edge_eqb (i, j)) (flatten g) = true); [|congruence].
    apply existsb_exists. exists (i, j). split; [apply DirectedUsers.In_flatten; split; auto; apply (i_rng _ _ I) in H; tauto|apply edge_eqb_refl].
Qed.

(* reversing twice gives a graph equal (operator==) to the original *)
Theorem reversed_twice g : (forall x, leqb x x = true) -> Inv g -> KeysOK g ->
  exists h h2, reversed ldef has_store V g = Val h /\ reversed ldef has_store V h = Val h2 /\ graph_eqb leqb h2 g = Val true.
Proof.
  intros RF I K. destruct (reversed_spec g I) as [h [E [I1 [K1 [S1 [M1 L1]]]]]]. destruct (reversed_spec h I1) as [h2 [E2 [I2 [K2 [S2 [M2 L2]]]]]].
  exists h, h2. split; auto. split; auto. destruct (graph_eqb_spec leqb has_store h2 g I2 I K2 K) as [b [EB HB]]. rewrite EB. f_equal. apply HB.
  split; [congruence|]. split.
  - intros i j. rewrite M2, M1. tauto.
  - intros e v v' F1 F2. destruct e as [i j]. pose proof (i_lab _ _ I) as IL. destruct has_store eqn:HS.
    + rewrite (L2 eq_refl), (L1 eq_refl) in F1. rewrite F1 in F2. injection F2 as <-. apply RF.
    + rewrite IL in F2. discriminate.
Qed.

End ConvB.
