(* C13 — Text edge lists round-trip and the loader accepts the documented format.  Statements only; proofs in TextProofs.v, RoundTrip.v, URoundTrip.v, TextRoundTrip.v.
   Proved: the tokeniser (any run of spaces/tabs before, between and after the two vertex tokens; the rest of the line goes to the label
   parser), the decimal round trip of vertex indices, and the file-level write-then-load round trip for directed and undirected graphs with
   int labels (the header comment line the writer emits is skipped by the comment rule).
   Hand-written files (TextLoadProofs.v): on ANY well-formed file - comment lines anywhere, any blanks before, between and after the two
   tokens, optional label text - both loaders return exactly the graph of the edge lines in order (forced insertion: a repeated pair appears
   twice, the last label stays); loadTextVertexLabeledEdgeList numbers names in order of first appearance and its table satisfies
   names[index x] = x; and the name loader accepts EXACTLY the well-formed files (a blank or one-token line makes findEdgeFromString throw
   std::out_of_range: the format has no blank lines).  Model limit: at most 3001 vertices (harness limit of the loader model). *)
From Coq Require Import List NArith ZArith.
From BG Require Import Base IOModel TextProofs DirectedModel DirectedProofs UndirectedProofs Equality RoundTrip URoundTrip TextRoundTrip.
Import ListNotations.
Local Open Scope N_scope.

Theorem C13_tokeniser_two_tokens : forall (w0 t1 w1 t2 w2 : bytes), all_ws w0 -> no_ws t1 -> t1 <> [] -> all_ws w1 -> w1 <> [] -> no_ws t2 -> t2 <> [] -> all_ws w2 ->
  find_edge_from_string (w0 ++ t1 ++ w1 ++ t2 ++ w2) = Val (t1, t2, []).
Proof. exact tokeniser_two_tokens. Qed.
Print Assumptions C13_tokeniser_two_tokens.
Theorem C13_tokeniser_label_text : forall (w0 t1 w1 t2 w2 rest : bytes) c3, all_ws w0 -> no_ws t1 -> t1 <> [] -> all_ws w1 -> w1 <> [] -> no_ws t2 -> t2 <> [] ->
  all_ws w2 -> w2 <> [] -> is_ws c3 = false ->
  find_edge_from_string (w0 ++ t1 ++ w1 ++ t2 ++ w2 ++ c3 :: rest) = Val (t1, t2, c3 :: rest).
Proof. exact tokeniser_three_tokens. Qed.
Print Assumptions C13_tokeniser_label_text.
Theorem C13_index_round_trip : forall n, n < 2 ^ 31 -> stoi (to_string n) = Val (Z.of_N n).
Proof. exact stoi_to_string. Qed.
Print Assumptions C13_index_round_trip.

(* file-level round trip (directed, then undirected): writing g (int labels in [0, 2^31), label store a map, at most 3001 vertices - the
   model of the loader refuses larger indices, which is the harness limit, not a limit of the C++ code) and loading the bytes gives, after
   resizing to the original vertex count, a graph == g; directed neighbour lists come back identical, undirected ones as sets (the exact
   order is [reloaded]: smaller neighbours ascending, then the others in their original order) *)
Theorem C13_file_round_trip : forall (g : @DirectedModel.dgraph Z), DirectedProofs.Inv true g -> Equality.KeysOK g -> (DirectedModel.size g <= S 3000)%nat ->
  (forall e l, lfind e (DirectedModel.labels g) = Some l -> (0 <= l < 2 ^ 31)%Z) ->
  exists b h names, write_text DirectedModel.repaired false 0%Z true (fun z => to_string (Z.to_N z)) g = Val b /\
    load_text DirectedModel.repaired false true true stoi b = Val (h, names) /\
    exists h', DirectedModel.lift (DirectedModel.resize h (Nat.max (DirectedModel.size h) (DirectedModel.size g))) = Val h' /\
      DirectedModel.graph_eqb Z.eqb h' g = Val true /\
      DirectedModel.adj h' = DirectedModel.adj g /\ DirectedModel.size h' = DirectedModel.size g /\ DirectedModel.enum h' = DirectedModel.enum g /\
      (forall e, lfind e (DirectedModel.labels h') = lfind e (DirectedModel.labels g)).
Proof. exact TextRoundTrip.C13_file_round_trip_partial. Qed.
Print Assumptions C13_file_round_trip.
Theorem C13_file_round_trip_undirected : forall (g : @DirectedModel.dgraph Z), UndirectedProofs.InvU true g -> Equality.KeysOK g -> (DirectedModel.size g <= S 3000)%nat ->
  (forall e l, lfind e (DirectedModel.labels g) = Some l -> (0 <= l < 2 ^ 31)%Z) ->
  exists b h names, write_text DirectedModel.repaired true 0%Z true (fun z => to_string (Z.to_N z)) g = Val b /\
    load_text DirectedModel.repaired true true true stoi b = Val (h, names) /\
    exists h', DirectedModel.lift (DirectedModel.resize h (Nat.max (DirectedModel.size h) (DirectedModel.size g))) = Val h' /\
      DirectedModel.graph_eqb Z.eqb h' g = Val true /\
      DirectedModel.size h' = DirectedModel.size g /\ DirectedModel.enum h' = DirectedModel.enum g /\
      (forall k, (k < DirectedModel.size g)%nat -> DirectedProofs.nb h' k = URoundTrip.reloaded g k) /\ (forall i j, In j (DirectedProofs.nb h' i) <-> In j (DirectedProofs.nb g i)) /\
      (forall e, lfind e (DirectedModel.labels h') = lfind e (DirectedModel.labels g)).
Proof. exact TextRoundTrip.C13_file_round_trip_undirected. Qed.
Print Assumptions C13_file_round_trip_undirected.

Example C13_example :
  find_edge_from_string [32; 49; 50; 9; 32; 55; 32; 104; 105; 32; 33; 32] = Val ([49; 50], [55], [104; 105; 32; 33; 32]) /\
  omap (fun r => (DirectedModel.adj (fst r), snd r)) (load_text_names DirectedModel.repaired false false (fun _ => Val 0%Z) [98; 32; 97; 10; 35; 120; 10; 97; 32; 99; 10])
    = Val ([[1]; [2]; []]%nat, [[98]; [97]; [99]]).
Proof. vm_compute. auto. Qed.

(* ---- arbitrary well-formed files (item := Comment text | EdgeLine w0 t1 w1 t2 w2 rest; render = one line per item; is_file: last newline
   optional; graph_of und hs n es = n isolated vertices then addEdge(i, j, l, force) for each listed edge in order; first_occ = distinct
   tokens in order of first appearance) ---- *)
From Coq Require Import Arith.
From BG Require Import TopologyModel TextLoadProofs.
Local Close Scope N_scope.
Theorem C13_name_loader_on_wellformed_files :
  forall (L : Type) (V : variant) (und hs : bool) (label_of_text : bytes -> outcome L) (lab : bytes -> L) (its : list item) (b : bytes),
        Forall (item_ok label_of_text lab) its ->
        is_file its b ->
        length (first_occ (tokens its)) <= 3001 ->
        load_text_names V und hs label_of_text b =
        Val (graph_of und hs (length (first_occ (tokens its))) (map (named_edge lab (first_occ (tokens its))) (edge_lines its)), first_occ (tokens its)).
Proof. intros L. exact (@TextLoadProofs.load_text_names_wellformed L). Qed.
Print Assumptions C13_name_loader_on_wellformed_files.
Theorem C13_loader_on_wellformed_files :
  forall (L : Type) (V : variant) (und strict hs : bool) (label_of_text : bytes -> outcome L) (lab : bytes -> L) (its : list item) (b : bytes),
        Forall (num_item_ok label_of_text lab numeral) its ->
        is_file its b ->
        exists names : list bytes,
          load_text V und strict hs label_of_text b =
          Val (graph_of und hs (vcount (map (num_edge lab num) (edge_lines its))) (map (num_edge lab num) (edge_lines its)), names) /\
          length names = vcount (map (num_edge lab num) (edge_lines its)) /\
          (forall k : nat, nth k names [] = last (filter (fun t : bytes => num t =? k) (tokens its)) []).
Proof. intros L. exact (@TextLoadProofs.load_text_wellformed L). Qed.
Print Assumptions C13_loader_on_wellformed_files.
Theorem C13_name_table :
  forall (L : Type) (V : variant) (und hs : bool) (label_of_text : bytes -> outcome L) (b : bytes) (g : (@dgraph L)) (names : list bytes),
        load_text_names V und hs label_of_text b = Val (g, names) ->
        size g = length names /\
        NoDup names /\
        (forall t : bytes,
         In t names ->
         exists line t1 t2 rest : bytes, In line (lines_of b []) /\ is_comment line = false /\ find_edge_from_string line = Val (t1, t2, rest) /\ (t = t1 \/ t = t2)) /\
        (forall (t : bytes) (k : nat), name_index t names 0 = Some k <-> nth_error names k = Some t).
Proof. intros L. exact (@TextLoadProofs.load_text_names_table L). Qed.
Print Assumptions C13_name_table.
Theorem C13_name_loader_accepts_exactly :
  forall (L : Type) (V : variant) (und hs : bool) (label_of_text : bytes -> outcome L) (ldef : L) (b : bytes),
        (exists (g : (@dgraph L)) (names : list bytes), load_text_names V und hs label_of_text b = Val (g, names)) <->
        (exists its : list item, Forall (item_ok label_of_text (lab_of label_of_text ldef)) its /\ is_file its b /\ length (first_occ (tokens its)) <= 3001).
Proof. intros L. exact (@TextLoadProofs.load_text_names_accepts_exactly L). Qed.
Print Assumptions C13_name_loader_accepts_exactly.
