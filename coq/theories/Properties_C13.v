(* C13 — Text edge lists round-trip and the loader accepts the documented format.  Statements only; proofs in TextProofs.v.
   PARTIAL: proved are the tokeniser (any run of spaces/tabs before, between and after the two vertex tokens; the rest of the line goes
   to the label parser) and the decimal round trip of vertex indices. The file-level round trip, the comment rule and the name table are
   tied to the implementation, to the model and to an independent reading of the format by the correspondence check only. *)
From Coq Require Import List NArith ZArith.
From BG Require Import Base IOModel TextProofs.
Import ListNotations.
Local Open Scope N_scope.

Theorem C13_tokeniser_two_tokens : forall (w0 t1 w1 t2 w2 : bytes), all_ws w0 -> no_ws t1 -> t1 <> [] -> all_ws w1 -> w1 <> [] -> no_ws t2 -> t2 <> [] -> all_ws w2 ->
  find_edge_from_string (w0 ++ t1 ++ w1 ++ t2 ++ w2) = Val (t1, t2, []).
Proof. exact tokeniser_two_tokens. Qed.
Print Assumptions C13_tokeniser_two_tokens.
Theorem C13_tokeniser_label_text : forall (w0 t1 w1 t2 w2 rest : bytes) c3, all_ws w0 -> no_ws t1 -> t1 <> [] -> all_ws w1 -> w1 <> [] -> no_ws t2 -> t2 <> [] ->
  all_ws w2 -> w2 <> [] -> is_ws c3 = false ->
  find_edge_from_string (w0 ++ t1 ++ w1 ++ t2 ++ w2 ++ c3 :: rest) = Val (t1, t2, c3 :: rest).
Proof. exact tokeniser_three_tokens. Qed.
Print Assumptions C13_tokeniser_label_text.
Theorem C13_index_round_trip : forall n, n < 2 ^ 31 -> stoi (to_string n) = Val (Z.of_N n).
Proof. exact stoi_to_string. Qed.
Print Assumptions C13_index_round_trip.

Definition C13_file_round_trip_full_statement : Prop := forall (g : @DirectedModel.dgraph Z), DirectedProofs.Inv true g ->
  (forall e l, lfind e (DirectedModel.labels g) = Some l -> (0 <= l < 2 ^ 31)%Z) ->
  exists b h names, write_text DirectedModel.repaired false 0%Z true (fun z => to_string (Z.to_N z)) g = Val b /\
    load_text DirectedModel.repaired false true true stoi b = Val (h, names) /\
    exists h', DirectedModel.lift (DirectedModel.resize h (Nat.max (DirectedModel.size h) (DirectedModel.size g))) = Val h' /\ DirectedModel.graph_eqb Z.eqb h' g = Val true.

Example C13_example :
  find_edge_from_string [32; 49; 50; 9; 32; 55; 32; 104; 105; 32; 33; 32] = Val ([49; 50], [55], [104; 105; 32; 33; 32]) /\
  omap (fun r => (DirectedModel.adj (fst r), snd r)) (load_text_names DirectedModel.repaired false false (fun _ => Val 0%Z) [98; 32; 97; 10; 35; 120; 10; 97; 32; 99; 10])
    = Val ([[1]; [2]; []]%nat, [[98]; [97]; [99]]).
Proof. vm_compute. auto. Qed.
