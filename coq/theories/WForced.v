(* C16 on the weighted classes (DirectedWeightedGraph / UndirectedWeightedGraph).
   What the models (= the C++ statements) compute, from any state reachable with forced insertions (weak invariants WInv / WInvU):
   - addEdge(s,d,w,force=true): one more entry, edge count + 1, the ONE stored weight of the pair becomes w, totalWeight grows by w -
     also when the pair was already present with another weight (the earlier copies are then silently re-valued to w while the total
     keeps what they were charged with: see [dw_forced_add_drift] / [uw_forced_add_drift] and the closed examples at the end);
   - removeEdge(s,d): all copies leave, edge count - copies, totalWeight - copies * stored weight, the weight is forgotten;
   - removeDuplicateEdges: one entry per connected pair, full invariant back, totalWeight - stored weight per removed entry.
   Hence the state invariant "totalWeight = sum over the entries of the stored weight of the entry's pair" (MWInv / UMWInv) is kept by
   forced insertions that repeat the stored weight, by removeEdge, and removeDuplicateEdges turns it into the full TInv / UTInv. *)
From BG Require Import Base DirectedModel DirectedProofs DirectedIter DirectedUsers DirectedSpec DirectedRefine DirectedObs Equality EqualityMore
  UndirectedModel UndirectedProofs UndirectedIter UndirectedSpec UndirectedRefine UndirectedObs MultiModel WeightedModel Totals UTotals MultiRefine
  Forced UForced MForced MForcedInv UMForcedInv.
Local Open Scope Z_scope.
Local Arguments Z.of_nat : simpl never.
Local Arguments Z.add : simpl never.
Local Arguments Z.sub : simpl never.
Local Arguments Z.mul : simpl never.

Section WCore.
Notation V := repaired.
Notation WInv := (@WInv Z true).
Implicit Types g : @dgraph Z.

(* ---- the directed labelled operations and the weight of the entries ---- *)
(* a forced insertion with value k: k for the new copy, and every EARLIER copy of the pair is re-valued from the stored value to k *)
Lemma forced_wtotal_gen g s d k : WInv g -> (s < size g)%nat -> (d < size g)%nat ->
  forall g', add_edge true V g s d k true = (g', Done) ->
  WInv g' /\ wtotal (labels g') (adj g') = wtotal (labels g) (adj g) + k + Z.of_nat (count d (nb g s)) * (k - lget (s, d) (labels g)).
Proof.
  intros I Hs Hd g' E.
  assert (PE : push_edge true g s d k = (g', Done)).
  { unfold add_edge in E. cbn [v_force_checks V] in E. rewrite (proj2 (in_range_true g s) Hs), (proj2 (in_range_true g d) Hd) in E. exact E. }
  destruct (push_edge_weak true g s d k I Hs Hd) as [g2 [E2 [I' [S' [_ [NB LB]]]]]]. rewrite PE in E2. injection E2 as <-.
  split; [exact I'|].
  set (w := lget (s, d) (labels g)). set (c := Z.of_nat (count d (nb g s))).
  assert (LG : forall e, lget e (labels g') = if edge_eqb (s, d) e then k else lget e (labels g)).
  { intros e. unfold lget. rewrite LB. cbn [andb]. destruct (edge_eqb (s, d) e); reflexivity. }
  rewrite (wtotal_nb g _ (w_len _ _ I)), (wtotal_nb g' _ (w_len _ _ I')), S'.
  rewrite (zsum_point (fun i => wrow (labels g) i (nb g i)) (fun i => wrow (labels g') i (nb g' i)) s (k + c * (k - w)) (size g) 0).
  - cbn [Nat.leb andb Nat.add]. rewrite (proj2 (Nat.ltb_lt _ _) Hs). lia.
  - intros i. rewrite NB, !wrow_fsum.
    destruct (Nat.eqb_spec i s) as [->|Ne].
    + rewrite fsum_snoc, LG, edge_eqb_refl.
      rewrite (fsum_remove_all (fun x => lget (s, x) (labels g')) d (nb g s)), (fsum_remove_all (fun x => lget (s, x) (labels g)) d (nb g s)).
      rewrite LG, edge_eqb_refl. fold c w.
      rewrite (fsum_ext (fun x => lget (s, x) (labels g')) (fun x => lget (s, x) (labels g)) (remove_all d (nb g s))); [lia|].
      intros x Hx. apply In_remove_all in Hx as [_ Hx]. rewrite LG. destruct (edge_eqb_spec (s, d) (s, x)) as [E0|_]; [congruence|reflexivity].
    + rewrite Z.add_0_r. apply fsum_ext. intros x _. rewrite LG. destruct (edge_eqb_spec (s, d) (i, x)) as [E0|_]; [congruence|reflexivity].
Qed.
Lemma forced_wtotal g s d k : WInv g -> (s < size g)%nat -> (d < size g)%nat ->
  (In d (nb g s) -> lget (s, d) (labels g) = k) ->
  forall g', add_edge true V g s d k true = (g', Done) ->
  WInv g' /\ wtotal (labels g') (adj g') = wtotal (labels g) (adj g) + k.
Proof.
  intros I Hs Hd SAME g' E. destruct (forced_wtotal_gen g s d k I Hs Hd g' E) as [I' W]. split; [exact I'|]. rewrite W.
  destruct (mem d (nb g s)) eqn:M.
  - apply mem_In in M. rewrite (SAME M). lia.
  - apply mem_false, count_zero in M. rewrite M. lia.
Qed.
(* removeEdge: copies * stored value leave *)
Lemma remove_wtotal g s d : WInv g -> (s < size g)%nat -> (d < size g)%nat ->
  forall g', remove_edge g s d = (g', Done) ->
  WInv g' /\ wtotal (labels g') (adj g') = wtotal (labels g) (adj g) - lget (s, d) (labels g) * Z.of_nat (count d (nb g s)).
Proof.
  intros I Hs Hd g' E.
  destruct (remove_edge_weak true g s d I Hs Hd) as [g2 [E2 [I' [S' [_ [NB [_ LB]]]]]]]. rewrite E in E2. injection E2 as <-.
  split; [exact I'|].
  set (w := lget (s, d) (labels g)). set (c := Z.of_nat (count d (nb g s))).
  assert (LG : forall e, lget e (labels g') = if edge_eqb (s, d) e then 0 else lget e (labels g)).
  { intros e. unfold lget. rewrite LB. destruct (edge_eqb (s, d) e); reflexivity. }
  rewrite (wtotal_nb g _ (w_len _ _ I)), (wtotal_nb g' _ (w_len _ _ I')), S'.
  rewrite (zsum_point (fun i => wrow (labels g) i (nb g i)) (fun i => wrow (labels g') i (nb g' i)) s (- (w * c)) (size g) 0).
  - cbn [Nat.leb andb Nat.add]. rewrite (proj2 (Nat.ltb_lt _ _) Hs). lia.
  - intros i. rewrite NB, !wrow_fsum.
    destruct (Nat.eqb_spec i s) as [->|Ne].
    + rewrite (fsum_remove_all (fun x => lget (s, x) (labels g)) d (nb g s)). fold c w.
      rewrite (fsum_ext (fun x => lget (s, x) (labels g')) (fun x => lget (s, x) (labels g)) (remove_all d (nb g s))); [lia|].
      intros x Hx. apply In_remove_all in Hx as [_ Hx]. rewrite LG. destruct (edge_eqb_spec (s, d) (s, x)) as [E0|_]; [congruence|reflexivity].
    + rewrite Z.add_0_r. apply fsum_ext. intros x _. rewrite LG. destruct (edge_eqb_spec (s, d) (i, x)) as [E0|_]; [congruence|reflexivity].
Qed.
End WCore.

Section WForced.
Notation V := repaired.
Notation WInv := (@WInv Z true).
Notation WInvU := (@WInvU Z true).
Implicit Types m : mgraph.

(* ================= (A) DirectedWeightedGraph ================= *)
(* addEdge(s,d,w,force=true): the graph part is the forced labelled insertion; the stored weight of the pair becomes w (whatever it was);
   totalWeight grows by w (whether or not the pair was present, and whatever weight it had) *)
Theorem dw_forced_add_spec m s d w : WInv (mg m) -> (s < size (mg m))%nat -> (d < size (mg m))%nat ->
  exists m', dw_add_edge V m s d w true = (m', Done) /\
    add_edge true V (mg m) s d w true = (mg m', Done) /\
    WInv (mg m') /\ size (mg m') = size (mg m) /\
    mtot m' = mtot m + w /\ enum (mg m') = enum (mg m) + 1 /\
    (forall i j, count j (nb (mg m') i) = (count j (nb (mg m) i) + (if Nat.eqb i s && Nat.eqb j d then 1 else 0))%nat) /\
    has_edge (mg m') s d = Val true /\
    (forall e, lget e (labels (mg m')) = if edge_eqb (s, d) e then w else lget e (labels (mg m))) /\
    dw_get_weight m' s d true = Val w.
Proof.
  intros I Hs Hd. unfold dw_add_edge.
  destruct (forced_add_spec true (mg m) s d w I Hs Hd) as [g' [E [I' [S' [N' [C' [H' L']]]]]]]. rewrite E.
  destruct (Z.eqb_spec (enum g') (enum (mg m))) as [X|_]; [lia|].
  exists (mk g' (mtot m + w)). cbn [mg mk mtot]. repeat (split; auto).
  - intros e. unfold lget. rewrite L'. cbn [andb]. destruct (edge_eqb (s, d) e); reflexivity.
  - unfold dw_get_weight, get_label. cbn [mg mk]. rewrite <- S' in Hs, Hd.
    rewrite (proj2 (in_range_true g' s) Hs), (proj2 (in_range_true g' d) Hd). cbn [andb]. rewrite L', edge_eqb_refl. reflexivity.
Qed.

(* removeEdge(s,d): the graph part is the labelled removeEdge (all copies leave, the edge count drops by their number);
   totalWeight drops by (number of copies) * (stored weight) *)
Theorem dw_remove_edge_weak m s d : WInv (mg m) -> (s < size (mg m))%nat -> (d < size (mg m))%nat ->
  exists m', dw_remove_edge m s d = (m', Done) /\
    remove_edge (mg m) s d = (mg m', Done) /\
    WInv (mg m') /\ size (mg m') = size (mg m) /\
    enum (mg m') = enum (mg m) - Z.of_nat (count d (nb (mg m) s)) /\
    mtot m' = mtot m - lget (s, d) (labels (mg m)) * Z.of_nat (count d (nb (mg m) s)) /\
    (forall i j, count j (nb (mg m') i) = if Nat.eqb i s && Nat.eqb j d then 0%nat else count j (nb (mg m) i)) /\
    has_edge (mg m') s d = Val false /\
    (forall e, lget e (labels (mg m')) = if edge_eqb (s, d) e then 0 else lget e (labels (mg m))).
Proof.
  intros I Hs Hd.
  destruct (remove_edge_weak true (mg m) s d I Hs Hd) as [g' [E [I' [S' [N' [NB [C' L']]]]]]]. pose proof E as E0.
  pose proof (length_remove_all d (nb (mg m) s)) as LEN.
  unfold dw_remove_edge, dm_remove_all. rewrite (in2_true m s d Hs Hd).
  unfold remove_edge in E. rewrite (proj2 (in_range_true (mg m) s) Hs), (proj2 (in_range_true (mg m) d) Hd) in E. cbn [andb] in E.
  rewrite (w_len _ _ I), (proj2 (Nat.ltb_lt _ _) Hs) in E |- *. injection E as E.
  change (nbl (mg m) s) with (nb (mg m) s).
  set (diff := Z.of_nat (length (nb (mg m) s)) - Z.of_nat (length (remove_all d (nb (mg m) s)))).
  exists (mk g' (mtot m - lget (s, d) (labels (mg m)) * diff)). split; [rewrite <- E; reflexivity|]. cbn [mg mk mtot].
  split; [exact E0|]. split; [exact I'|]. split; [exact S'|]. split; [exact N'|]. split; [|split; [exact C'|split]].
  - f_equal. f_equal. unfold diff. lia.
  - rewrite (has_edge_weak true g' s d I') by (rewrite S'; auto). f_equal. apply mem_false. rewrite NB, Nat.eqb_refl, In_remove_all. tauto.
  - intros e. unfold lget. rewrite L'. destruct (edge_eqb (s, d) e); reflexivity.
Qed.

(* removeDuplicateEdges: the graph part is the labelled removeDuplicateEdges (one entry per connected pair, full invariant);
   totalWeight loses the stored weight once per removed entry *)
Theorem dw_remove_duplicates_spec m : WInv (mg m) ->
  exists m', dw_remove_duplicates m = (m', Done) /\
    remove_duplicates (mg m) = (mg m', Done) /\
    Inv true (mg m') /\ labels (mg m') = labels (mg m) /\
    (forall i, nb (mg m') i = dedup [] (nb (mg m) i)) /\
    enum (mg m') = enum (mg m) - dropped (adj (mg m)) /\
    mtot m' = mtot m - (wtotal (labels (mg m)) (adj (mg m)) - wtotal (labels (mg m)) (adj (mg m'))).
Proof. exact (dm_remove_duplicates_spec m). Qed.
(* the loss, pair by pair: (copies - 1) * stored weight for every connected pair *)
Corollary dw_remove_duplicates_loss m : WInv (mg m) ->
  exists m', dw_remove_duplicates m = (m', Done) /\
    mtot m' = mtot m - fold_right Z.add 0 (map (fun i => fsum (fun j => (Z.of_nat (count j (nb (mg m) i)) - 1) * lget (i, j) (labels (mg m))) (dedup [] (nb (mg m) i)))
                                              (seq 0 (size (mg m)))).
Proof. exact (dm_remove_duplicates_loss m). Qed.

(* ---- the state invariant MWInv (totalWeight = weight of the entries) ---- *)
(* what a forced insertion does to it, exactly: the entries are worth (copies already there) * (w - stored weight) more than the total *)
Theorem dw_forced_add_drift m s d w : MWInv m -> (s < size (mg m))%nat -> (d < size (mg m))%nat ->
  exists m', dw_add_edge V m s d w true = (m', Done) /\ WInv (mg m') /\ KeysOK (mg m') /\ mtot m' = mtot m + w /\
    wtotal (labels (mg m')) (adj (mg m')) = mtot m' + Z.of_nat (count d (nb (mg m) s)) * (w - lget (s, d) (labels (mg m))).
Proof.
  intros [I K T] Hs Hd.
  destruct (dw_forced_add_spec m s d w I Hs Hd) as [m' [E [AE [I' [S' [T' _]]]]]].
  destruct (forced_wtotal_gen (mg m) s d w I Hs Hd (mg m') AE) as [_ W].
  exists m'. split; auto. split; auto. split; [|split; auto].
  - pose proof (keys_add_edge true V (mg m) s d w true K) as KA. rewrite AE in KA. exact KA.
  - rewrite W, T', T. lia.
Qed.
(* so it is kept when the pair is absent or the weight given is the one already stored (w = 0 allowed, unlike the multigraph) *)
Theorem dw_forced_add_keeps m s d w : MWInv m -> (s < size (mg m))%nat -> (d < size (mg m))%nat ->
  (In d (nb (mg m) s) -> lget (s, d) (labels (mg m)) = w) ->
  exists m', dw_add_edge V m s d w true = (m', Done) /\ MWInv m' /\ mtot m' = mtot m + w /\ enum (mg m') = enum (mg m) + 1.
Proof.
  intros MI Hs Hd SAME. pose proof MI as [I K T].
  destruct (dw_forced_add_drift m s d w MI Hs Hd) as [m' [E [I' [K' [T' W]]]]].
  destruct (dw_forced_add_spec m s d w I Hs Hd) as [m2 [E2 [_ [_ [_ [_ [N' _]]]]]]]. rewrite E in E2. injection E2 as <-.
  exists m'. split; auto. split; [|split; auto]. constructor; auto. rewrite W.
  destruct (mem d (nb (mg m) s)) eqn:M.
  - apply mem_In in M. rewrite (SAME M). lia.
  - apply mem_false, count_zero in M. rewrite M. lia.
Qed.
(* removeEdge keeps it *)
Theorem dw_remove_edge_keeps m s d : MWInv m -> (s < size (mg m))%nat -> (d < size (mg m))%nat ->
  exists m', dw_remove_edge m s d = (m', Done) /\ MWInv m' /\
    enum (mg m') = enum (mg m) - Z.of_nat (count d (nb (mg m) s)) /\
    mtot m' = mtot m - lget (s, d) (labels (mg m)) * Z.of_nat (count d (nb (mg m) s)).
Proof.
  intros [I K T] Hs Hd.
  destruct (dw_remove_edge_weak m s d I Hs Hd) as [m' [E [RE [I' [S' [N' [T' _]]]]]]].
  destruct (remove_wtotal (mg m) s d I Hs Hd (mg m') RE) as [_ W].
  exists m'. split; auto. split; [|split; auto]. constructor; auto.
  - pose proof (keys_remove_edge (mg m) s d K) as KR. rewrite RE in KR. exact KR.
  - rewrite W, T', T. reflexivity.
Qed.
(* removeDuplicateEdges restores the full invariant of the weighted class: totalWeight = sum of the stored weights *)
Theorem dw_remove_duplicates_restores m : MWInv m ->
  exists m', dw_remove_duplicates m = (m', Done) /\ TInv m' /\ size (mg m') = size (mg m) /\ labels (mg m') = labels (mg m) /\
    (forall i j, In j (nb (mg m') i) <-> In j (nb (mg m) i)) /\
    mtot m' = msum (labels (mg m)).
Proof. exact (dm_remove_duplicates_restores m). Qed.

(* ================= (B) UndirectedWeightedGraph ================= *)
Theorem uw_forced_add_spec m a b w : WInvU (mg m) -> (a < size (mg m))%nat -> (b < size (mg m))%nat ->
  exists m', uw_add_edge V m a b w true = (m', Done) /\
    u_add_edge true V (mg m) a b w true = (mg m', Done) /\
    WInvU (mg m') /\ size (mg m') = size (mg m) /\
    mtot m' = mtot m + w /\ enum (mg m') = enum (mg m) + 1 /\
    (forall i j, count j (nb (mg m') i) = (count j (nb (mg m) i) + (if hit a b i j then 1 else 0))%nat) /\
    u_has_edge (mg m') a b = Val true /\
    (forall e, lget e (labels (mg m')) = if edge_eqb (ordered a b) e then w else lget e (labels (mg m))) /\
    uw_get_weight m' a b true = Val w.
Proof.
  intros I Ha Hb. unfold uw_add_edge.
  destruct (u_forced_add_spec true (mg m) a b w I Ha Hb) as [g' [E [I' [S' [N' [_ [C' [H' L']]]]]]]]. rewrite E.
  destruct (Z.eqb_spec (enum g') (enum (mg m))) as [X|_]; [lia|].
  exists (mk g' (mtot m + w)). cbn [mg mk mtot]. repeat (split; auto).
  - intros e. unfold lget. rewrite L'. cbn [andb]. destruct (edge_eqb (ordered a b) e); reflexivity.
  - unfold uw_get_weight, u_get_label, get_label. cbn [mg mk]. rewrite <- S' in Ha, Hb.
    assert (R : in_range g' (fst (ordered a b)) && in_range g' (snd (ordered a b)) = true).
    { unfold in_range. destruct (ordered_cases a b) as [[-> _]|[-> _]]; cbn [fst snd];
        rewrite (proj2 (Nat.ltb_lt _ _) Ha), (proj2 (Nat.ltb_lt _ _) Hb); reflexivity. }
    rewrite R, <- surjective_pairing, L', edge_eqb_refl. reflexivity.
Qed.

Theorem uw_remove_edge_weak m a b : WInvU (mg m) -> (a < size (mg m))%nat -> (b < size (mg m))%nat ->
  exists m', uw_remove_edge m a b = (m', Done) /\
    u_remove_edge (mg m) a b = (mg m', Done) /\
    WInvU (mg m') /\ size (mg m') = size (mg m) /\
    enum (mg m') = enum (mg m) - Z.of_nat (count b (nb (mg m) a)) /\
    mtot m' = mtot m - lget (ordered a b) (labels (mg m)) * Z.of_nat (count b (nb (mg m) a)) /\
    (forall i j, count j (nb (mg m') i) = if hit a b i j then 0%nat else count j (nb (mg m) i)) /\
    u_has_edge (mg m') a b = Val false /\
    (forall e, lfind e (labels (mg m')) = if edge_eqb (ordered a b) e then None else lfind e (labels (mg m))).
Proof.
  intros I Ha Hb.
  destruct (u_remove_edge_weak true (mg m) a b I Ha Hb) as [g' [E [I' [S' [N' [NB [C' LB]]]]]]]. pose proof E as E0.
  pose proof (length_remove_all b (nb (mg m) a)) as LEN.
  unfold uw_remove_edge, um_remove_all. rewrite (in2_true m a b Ha Hb).
  unfold u_remove_edge, in_range in E.
  rewrite (proj2 (Nat.ltb_lt _ _) Ha), (proj2 (Nat.ltb_lt _ _) Hb) in E. cbn [andb] in E.
  rewrite (wu_len _ _ I), (proj2 (Nat.ltb_lt _ _) Ha), (proj2 (Nat.ltb_lt _ _) Hb) in E |- *. cbn [andb] in E |- *.
  change (nbl (mg m) a) with (nb (mg m) a). change (nth a (adj (mg m)) []) with (nb (mg m) a) in E.
  set (diff := Z.of_nat (length (nb (mg m) a)) - Z.of_nat (length (remove_all b (nb (mg m) a)))) in *.
  assert (HE : u_has_edge g' a b = Val false).
  { rewrite (u_has_edge_weak true g' a b I') by (rewrite S'; auto). f_equal. apply mem_false. rewrite NB, Nat.eqb_refl, In_remove_all. tauto. }
  destruct (Z.ltb_spec 0 diff) as [POS|ZERO]; injection E as E.
  - exists (mk g' (mtot m - lget (ordered a b) (labels (mg m)) * diff)). split; [rewrite <- E; reflexivity|]. cbn [mg mk mtot].
    split; [exact E0|]. split; [exact I'|]. split; [exact S'|]. split; [exact N'|]. split; [|split; [exact C'|split; [exact HE|exact LB]]].
    f_equal. f_equal. unfold diff. lia.
  - assert (Z0 : count b (nb (mg m) a) = 0%nat) by (unfold diff in ZERO; lia).
    exists (mk g' (mtot m)). split; [rewrite <- E; reflexivity|]. cbn [mg mk mtot].
    split; [exact E0|]. split; [exact I'|]. split; [exact S'|]. split; [exact N'|]. split; [|split; [exact C'|split; [exact HE|exact LB]]].
    rewrite Z0. lia.
Qed.

Theorem uw_remove_duplicates_spec m : WInvU (mg m) ->
  exists m', uw_remove_duplicates m = (m', Done) /\
    u_remove_duplicates (mg m) = (mg m', Done) /\
    InvU true (mg m') /\ labels (mg m') = labels (mg m) /\
    (forall i, nb (mg m') i = dedup [] (nb (mg m) i)) /\
    enum (mg m') = enum (mg m) - (utotal (adj (mg m)) - utotal (adj (mg m'))) /\
    mtot m' = mtot m - (uwtotal (labels (mg m)) (adj (mg m)) - uwtotal (labels (mg m)) (adj (mg m'))).
Proof. exact (um_remove_duplicates_spec m). Qed.

(* ---- the state invariant UMWInv (totalWeight = weight of the i <= j entries under the ordered key) ---- *)
Theorem uw_forced_add_drift m a b w : UMWInv m -> (a < size (mg m))%nat -> (b < size (mg m))%nat ->
  exists m', uw_add_edge V m a b w true = (m', Done) /\ WInvU (mg m') /\ KeysOK (mg m') /\ mtot m' = mtot m + w /\
    uwtotal (labels (mg m')) (adj (mg m')) = mtot m' + Z.of_nat (count b (nb (mg m) a)) * (w - lget (ordered a b) (labels (mg m))).
Proof.
  intros [I K T] Ha Hb.
  destruct (uw_forced_add_spec m a b w I Ha Hb) as [m' [E [AE [I' [S' [T' _]]]]]].
  destruct (u_forced_uwtotal_gen (mg m) a b w I Ha Hb (mg m') AE) as [_ W].
  exists m'. split; auto. split; auto. split; [|split; auto].
  - pose proof (EqualityMore.keys_u_add_edge true V (mg m) a b w true K) as KA. rewrite AE in KA. exact KA.
  - rewrite W, T', T. lia.
Qed.
Theorem uw_forced_add_keeps m a b w : UMWInv m -> (a < size (mg m))%nat -> (b < size (mg m))%nat ->
  (In b (nb (mg m) a) -> lget (ordered a b) (labels (mg m)) = w) ->
  exists m', uw_add_edge V m a b w true = (m', Done) /\ UMWInv m' /\ mtot m' = mtot m + w /\ enum (mg m') = enum (mg m) + 1.
Proof.
  intros MI Ha Hb SAME. pose proof MI as [I K T].
  destruct (uw_forced_add_drift m a b w MI Ha Hb) as [m' [E [I' [K' [T' W]]]]].
  destruct (uw_forced_add_spec m a b w I Ha Hb) as [m2 [E2 [_ [_ [_ [_ [N' _]]]]]]]. rewrite E in E2. injection E2 as <-.
  exists m'. split; auto. split; [|split; auto]. constructor; auto. rewrite W.
  destruct (mem b (nb (mg m) a)) eqn:M.
  - apply mem_In in M. rewrite (SAME M). lia.
  - apply mem_false, count_zero in M. rewrite M. lia.
Qed.
Theorem uw_remove_edge_keeps m a b : UMWInv m -> (a < size (mg m))%nat -> (b < size (mg m))%nat ->
  exists m', uw_remove_edge m a b = (m', Done) /\ UMWInv m' /\
    enum (mg m') = enum (mg m) - Z.of_nat (count b (nb (mg m) a)) /\
    mtot m' = mtot m - lget (ordered a b) (labels (mg m)) * Z.of_nat (count b (nb (mg m) a)).
Proof.
  intros MI Ha Hb. destruct (um_remove_all_keeps m a b MI Ha Hb) as [m' [E [_ [MI' [N' [T' _]]]]]]. exists m'. auto.
Qed.
Theorem uw_remove_duplicates_restores m : UMWInv m ->
  exists m', uw_remove_duplicates m = (m', Done) /\ UTInv m' /\ size (mg m') = size (mg m) /\ labels (mg m') = labels (mg m) /\
    (forall i j, In j (nb (mg m') i) <-> In j (nb (mg m) i)) /\
    mtot m' = msum (labels (mg m)).
Proof. exact (um_remove_duplicates_restores m). Qed.
End WForced.

(* ---------------- closed examples ---------------- *)
(* the property's arithmetic when the copies agree on the weight: two forced copies of (0,1) with weight 3 (in units of 1/4), a loop with 2 *)
Example dw_forced_example :
  let m0 := dm_init 2 in
  let '(m1, _) := dw_add_edge repaired m0 0 1 3 true in
  let '(m2, _) := dw_add_edge repaired m1 0 1 3 true in
  let '(m3, _) := dw_add_edge repaired m2 1 1 2 true in
  let '(m4, _) := dw_remove_duplicates m3 in
  let '(m5, _) := dw_remove_edge m3 0 1 in
  mtot m3 = 8 /\ enum (mg m3) = 3 /\ adj (mg m3) = [[1; 1]; [1]]%nat /\
  mtot m4 = 5 /\ enum (mg m4) = 2 /\ adj (mg m4) = [[1]; [1]]%nat /\ m4 = fst (dw_add_edge repaired (fst (dw_add_edge repaired m0 0 1 3 false)) 1 1 2 false) /\
  mtot m5 = 2 /\ enum (mg m5) = 1 /\ adj (mg m5) = [[]; [1]]%nat.
Proof. vm_compute. repeat split; reflexivity. Qed.
Example uw_forced_example :
  let m0 := dm_init 2 in
  let '(m1, _) := uw_add_edge repaired m0 0 1 3 true in
  let '(m2, _) := uw_add_edge repaired m1 1 0 3 true in
  let '(m3, _) := uw_add_edge repaired m2 1 1 2 true in
  let '(m4, _) := uw_remove_duplicates m3 in
  let '(m5, _) := uw_remove_edge m3 1 0 in
  mtot m3 = 8 /\ enum (mg m3) = 3 /\ adj (mg m3) = [[1; 1]; [0; 0; 1]]%nat /\
  mtot m4 = 5 /\ enum (mg m4) = 2 /\ adj (mg m4) = [[1]; [0; 1]]%nat /\
  mtot m5 = 2 /\ enum (mg m5) = 1 /\ adj (mg m5) = [[]; [1]]%nat.
Proof. vm_compute. repeat split; reflexivity. Qed.

(* DISCREPANCY (forced copies that DISAGREE on the weight).  addEdge(0,1,2,force); addEdge(0,1,5,force): the store has one slot per pair,
   so both copies are now worth 5 while totalWeight is 2 + 5 = 7.
   - removeEdge(0,1) subtracts copies * stored = 2 * 5: an EMPTY graph whose getTotalWeight() is -3;
   - removeDuplicateEdges() subtracts the stored weight once: ONE edge of weight 5 in a graph whose getTotalWeight() is 2, and the state
     differs from the graph built without force (weight 2, total 2) in the weight, so "==" fails as for the labelled classes,
     but here the cached total is also wrong for the weights that remain (TInv is not restored). *)
Example dw_forced_disagreeing_weights :
  let m0 := dm_init 2 in
  let '(m1, _) := dw_add_edge repaired m0 0 1 2 true in
  let '(m2, _) := dw_add_edge repaired m1 0 1 5 true in
  let '(m3, _) := dw_remove_edge m2 0 1 in
  let '(m4, _) := dw_remove_duplicates m2 in
  mtot m2 = 7 /\ dw_get_weight m2 0 1 true = Val 5 /\ wtotal (labels (mg m2)) (adj (mg m2)) = 10 /\
  enum (mg m3) = 0 /\ adj (mg m3) = [[]; []] /\ labels (mg m3) = [] /\ mtot m3 = -3 /\
  enum (mg m4) = 1 /\ adj (mg m4) = [[1]; []]%nat /\ dw_get_weight m4 0 1 true = Val 5 /\ mtot m4 = 2 /\ msum (labels (mg m4)) = 5.
Proof. vm_compute. repeat split; reflexivity. Qed.
Example uw_forced_disagreeing_weights :
  let m0 := dm_init 2 in
  let '(m1, _) := uw_add_edge repaired m0 0 1 2 true in
  let '(m2, _) := uw_add_edge repaired m1 1 0 5 true in
  let '(m3, _) := uw_remove_edge m2 0 1 in
  let '(m4, _) := uw_remove_duplicates m2 in
  mtot m2 = 7 /\ uw_get_weight m2 0 1 true = Val 5 /\ uwtotal (labels (mg m2)) (adj (mg m2)) = 10 /\
  enum (mg m3) = 0 /\ adj (mg m3) = [[]; []] /\ labels (mg m3) = [] /\ mtot m3 = -3 /\
  enum (mg m4) = 1 /\ adj (mg m4) = [[1]; [0]]%nat /\ uw_get_weight m4 1 0 true = Val 5 /\ mtot m4 = 2 /\ msum (labels (mg m4)) = 5.
Proof. vm_compute. repeat split; reflexivity. Qed.
