(* C05 (directed class): the weighted model refines the weight-function spec; totalWeight is the sum of the stored weights. *)
From BG Require Import Base DirectedModel DirectedProofs DirectedIter DirectedUsers DirectedSpec DirectedRefine DirectedObs Equality
  UndirectedModel MultiModel WeightedModel MultiSpec Totals MultiRefine.
Local Open Scope Z_scope.
Local Arguments Z.of_nat : simpl never.

Section DWRefine.
Notation V := repaired.
Notation sgraph := (@sgraph Z).
Implicit Types (m : mgraph) (a : sgraph).
Notation Rf := (@Rf Z true).
Record RfW m a : Prop := { rw_t : TInv m; rw_rf : Rf (mg m) a }.
Definition valid_wop a (o : wop) : bool :=
  let ok i := Nat.ltb i (sn a) in
  match o with
  | WAdd s d _ f => ok s && ok d && negb f | WRemove s d | WSet s d _ => ok s && ok d
  | WRemoveVertex v => ok v | WResize n => Nat.leb (sn a) n | WSelfLoops | WClear | WRemoveDuplicates => true end.
Fixpoint valid_whistory a (ops : list wop) : bool :=
  match ops with [] => true | o :: t => valid_wop a o && valid_whistory (wspec_step false a o) t end.
Fixpoint wspec_run a (ops : list wop) : sgraph := match ops with [] => a | o :: t => wspec_run (wspec_step false a o) t end.
Fixpoint dw_run m (ops : list wop) : mgraph * res :=
  match ops with [] => (m, Done) | o :: t => match dw_step V m o with (m1, Done) => dw_run m1 t | r => r end end.

Lemma w_removal_refines m a m' (oD : @dop Z) : RfW m a -> valid_op a oD = true -> TInv m' -> mg m' = fst (step true V (mg m) oD) -> RfW m' (spec_step a oD).
Proof. intros [TI R] Vd T' PR. pose proof (step_refines true (mg m) a oD R Vd) as SR. destruct (step true V (mg m) oD) as [g' r]. cbn [fst] in PR.
  destruct SR as [_ R']. constructor; auto. rewrite PR; exact R'. Qed.

Lemma w_add_refines m a s d w : RfW m a -> (s < sn a)%nat -> (d < sn a)%nat ->
  exists m', dw_add_edge V m s d w false = (m', Done) /\ RfW m' (ws_add false a s d w).
Proof.
  intros RW Hs Hd. pose proof RW as [TI R]. pose proof TI as [I K T]. pose proof Hs as Hs'. pose proof Hd as Hd'. rewrite <- (r_size _ _ _ R) in Hs, Hd.
  assert (VD : valid_op a (AddEdge s d w false) = true) by (cbn [valid_op]; rewrite (proj2 (Nat.ltb_lt _ _) Hs'), (proj2 (Nat.ltb_lt _ _) Hd'); auto).
  unfold dw_add_edge. destruct (mem d (nb (mg m) s)) eqn:M.
  - assert (E : add_edge true V (mg m) s d w false = (mg m, Done)).
    { unfold add_edge. rewrite (has_edge_val true (mg m) s d I Hs Hd), M. reflexivity. }
    rewrite E, Z.eqb_refl. exists (mk (mg m) (mtot m)). split; auto.
    assert (ME : mk (mg m) (mtot m) = m) by (destruct m; reflexivity). rewrite ME.
    apply (w_removal_refines m a m (AddEdge s d w false) RW VD TI). cbn [step]. rewrite E. reflexivity.
  - apply mem_false in M. destruct (insert_spec m s d w false TI Hs Hd M) as [g' [E [EG [EN T']]]]. rewrite E.
    assert (Z.eqb (enum g') (enum (mg m)) = false) as -> by (apply Z.eqb_neq; lia).
    eexists; split; [reflexivity|]. apply (w_removal_refines m a _ (AddEdge s d w false) RW VD T'). cbn [mg mk step]. exact EG.
Qed.
Lemma w_remove_refines m a s d : RfW m a -> (s < sn a)%nat -> (d < sn a)%nat ->
  exists m', dw_remove_edge m s d = (m', Done) /\ RfW m' (wspec_step false a (WRemove s d)).
Proof.
  intros RW Hs Hd. pose proof RW as [TI R]. pose proof Hs as Hs'. pose proof Hd as Hd'. rewrite <- (r_size _ _ _ R) in Hs, Hd.
  destruct (remove_all_spec m s d TI Hs Hd) as [m1 [E1 [P1 [T1 _]]]]. exists m1; split; auto.
  assert (VD : valid_op a (RemoveEdge s d) = true) by (cbn [valid_op]; rewrite (proj2 (Nat.ltb_lt _ _) Hs'), (proj2 (Nat.ltb_lt _ _) Hd'); auto).
  apply (w_removal_refines m a m1 (RemoveEdge s d) RW VD T1 P1).
Qed.
Lemma w_set_refines m a s d w : RfW m a -> (s < sn a)%nat -> (d < sn a)%nat ->
  exists m', dw_set_weight V m s d w = (m', Done) /\ RfW m' (ws_set false a s d w).
Proof.
  intros RW Hs Hd. pose proof RW as [TI R]. pose proof TI as [I K T]. pose proof Hs as Hs'. pose proof Hd as Hd'. rewrite <- (r_size _ _ _ R) in Hs, Hd.
  unfold dw_set_weight. rewrite (has_edge_val true (mg m) s d I Hs Hd). destruct (mem d (nb (mg m) s)) eqn:M.
  - apply mem_In in M. pose proof (relabel_spec m s d w TI M) as T'. eexists; split; [reflexivity|]. constructor; [exact T'|].
    apply rf_of; cbn [mg mk set_adj_lab size labels]; [exact (set_label_inv true (mg m) s d _ I M)|apply (r_size _ _ _ R)|].
    intros e. unfold ws_set; cbn [with_se se]. rewrite !lfind_lset, (r_lab _ _ _ R eq_refl). reflexivity.
  - pose proof M as Mf. apply mem_false in M. destruct (w_add_refines m a s d w RW Hs' Hd') as [m1 [E1 [T1 R1]]]. exists m1; split; auto.
    constructor; auto. pose proof R1 as [I1 S1 M1 L1].
    apply rf_of; auto; [unfold ws_set; cbn [with_se sn]; rewrite S1; unfold ws_add; destruct (mhas false a s d); reflexivity|].
    intros e. rewrite (L1 eq_refl). unfold ws_add, ws_set.
    assert (mhas false a s d = false) as ->. { destruct (mhas false a s d) eqn:X; auto. exfalso. apply M, (r_mem _ _ _ R); auto. }
    cbn [with_se se]. rewrite lfind_lset. cbn [lfind]. destruct (edge_eqb (key false s d) e); reflexivity.
Qed.

Theorem dw_step_refines m a o : RfW m a -> valid_wop a o = true -> exists m', dw_step V m o = (m', Done) /\ RfW m' (wspec_step false a o).
Proof.
  intros RW Vd. pose proof RW as [TI R]. pose proof TI as [I K T].
  destruct o as [s d w f|s d|s d w| |v| |n|]; cbn [valid_wop dw_step wspec_step] in Vd |- *;
    repeat (match type of Vd with (_ && _ = true) => apply andb_prop in Vd as [Vd ?] end);
    repeat (match goal with H : Nat.ltb _ _ = true |- _ => apply Nat.ltb_lt in H | H : negb ?f = true |- _ => destruct f; [discriminate|clear H] end).
  - apply w_add_refines; auto.
  - apply (w_remove_refines m a s d RW); auto.
  - apply w_set_refines; auto.
  - unfold dw_remove_self_loops, dw_remove_edge.
    destruct (remove_all_loop (fun i => i) (seq 0 (size (mg m))) m TI) as [m' [E' [P' T']]]. { intros i Hi; apply in_seq in Hi; lia. }
    exists m'; split; auto. apply (w_removal_refines m a m' RemoveSelfLoops RW eq_refl T' P').
  - rewrite <- (r_size _ _ _ R) in Vd. unfold dw_remove_vertex. destruct (remove_vertex_spec_t m v TI Vd) as [m' [E' [P' T']]].
    exists m'; split; auto. assert (VD : valid_op a (RemoveVertex v) = true) by (cbn [valid_op]; apply Nat.ltb_lt; rewrite <- (r_size _ _ _ R); auto).
    apply (w_removal_refines m a m' (RemoveVertex v) RW VD T' P').
  - unfold dw_clear. pose proof (clear_edges_spec true (mg m) I) as CS. destruct (clear_edges V (mg m)) as [g1 r1] eqn:CE.
    destruct CS as [-> [I1 [S1 [N1 L1]]]]. eexists; split; [reflexivity|].
    assert (T1 : TInv (mk g1 0)) by (constructor; cbn [mg mk mtot]; [exact I1|unfold KeysOK; rewrite L1; constructor|rewrite L1; reflexivity]).
    apply (w_removal_refines m a _ ClearEdges RW eq_refl T1). cbn [mg mk step]. rewrite CE. reflexivity.
  - apply Nat.leb_le in Vd. pose proof Vd as Vd'. rewrite <- (r_size _ _ _ R) in Vd. destruct (resize_spec_t m n TI Vd) as [m' [E' [P' [T' _]]]]. exists m'; split; auto.
    assert (VD : valid_op a (Resize n) = true) by (cbn [valid_op]; apply Nat.leb_le; auto). apply (w_removal_refines m a m' (Resize n) RW VD T' P').
  - unfold dw_remove_duplicates. rewrite (dedup_noop_t m TI). exists m; auto.
Qed.
Lemma dw_init_refines n : RfW (dm_init n) (s_init n).
Proof. destruct (dm_init_refines n) as [TI R _]. constructor; auto. Qed.
Theorem dw_run_refines ops : forall m a, RfW m a -> valid_whistory a ops = true -> exists m', dw_run m ops = (m', Done) /\ RfW m' (wspec_run a ops).
Proof. induction ops as [|o t IH]; intros m a RW Vd; cbn [dw_run wspec_run valid_whistory] in *; [exists m; auto|].
  apply andb_prop in Vd as [V1 V2]. destruct (dw_step_refines m a o RW V1) as [m1 [E1 R1]]. rewrite E1. apply IH; auto. Qed.

Lemma WKeys_step a o : SKeys a -> SKeys (wspec_step false a o).
Proof.
  unfold SKeys. intros H.
  assert (FIL : forall a p, NoDup (map fst (se a)) -> NoDup (map fst (se (@s_filter Z a p)))).
  { intros b p Hb. unfold s_filter; cbn [se]. induction (se b) as [|[k v] l IH]; simpl; [constructor|]. inversion Hb; subst.
    destruct (p k); simpl; auto. constructor; auto. intros X. apply H2. apply in_map_iff in X as [[k' v'] [E X]]. simpl in E; subst.
    apply filter_In in X as [X _]. apply in_map_iff. exists (k, v'); auto. }
  destruct o as [s d w f|s d|s d w| |v| |n|]; cbn [wspec_step]; auto.
  - unfold ws_add. destruct (mhas false a s d) eqn:M; auto. cbn [with_se se map fst]. constructor; auto.
    rewrite <- lfind_some_in_keys. unfold mhas, smem in M. destruct (lfind (key false s d) (se a)); congruence.
  - cbn [with_se se]. apply NoDup_keys_lerase; auto.
  - unfold ws_set; cbn [with_se se]. apply NoDup_keys_lset; auto.
  - apply FIL; auto.
  - apply FIL; auto.
  - cbn; constructor.
Qed.
Lemma WKeys_run ops : forall a, SKeys a -> SKeys (wspec_run a ops).
Proof. induction ops as [|o t IH]; intros a H; cbn [wspec_run]; auto. apply IH, WKeys_step; auto. Qed.

Theorem C05_directed_consistent (n : nat) (ops : list wop) : valid_whistory (s_init n) ops = true ->
  exists m, dw_run (dm_init n) ops = (m, Done) /\
    let a := wspec_run (s_init n) ops in
    size (mg m) = sn a /\
    (forall i j thr, (i < sn a)%nat -> (j < sn a)%nat ->
       has_edge (mg m) i j = Val (mhas false a i j) /\
       dw_get_weight m i j thr = (if mhas false a i j then Val (mval false a i j) else if thr then Raise InvalidArgument else Val 0)) /\
    enum (mg m) = Z.of_nat (length (se a)) /\
    mtot m = ssum a.
Proof.
  intros Vd. destruct (dw_run_refines ops (dm_init n) (s_init n) (dw_init_refines n) Vd) as [m [E RW]]. exists m; split; auto.
  cbv zeta. set (a := wspec_run (s_init n) ops) in *. pose proof RW as [TI R]. pose proof TI as [I K T].
  assert (SK : SKeys a) by (apply WKeys_run; unfold SKeys; cbn; constructor).
  split; [apply (r_size _ _ _ R)|]. split; [|split].
  - intros i j thr Hi Hj. rewrite <- (r_size _ _ _ R) in Hi, Hj. rewrite (has_edge_val true (mg m) i j I Hi Hj). split.
    + f_equal. unfold mhas, key. destruct (smem (i, j) a) eqn:X; [apply mem_In, (r_mem _ _ _ R); auto|apply mem_false; rewrite (r_mem _ _ _ R); congruence].
    + unfold dw_get_weight, get_label, in_range. rewrite (proj2 (Nat.ltb_lt _ _) Hi), (proj2 (Nat.ltb_lt _ _) Hj). cbn [andb].
      rewrite (r_lab _ _ _ R eq_refl). unfold mhas, mval, lget, smem, key. destruct (lfind (i, j) (se a)); reflexivity.
  - rewrite (i_enum _ _ I), <- (length_flatten true (mg m) I), <- (map_length fst (se a)). f_equal.
    apply Permutation_length, NoDup_Permutation; auto; [apply (NoDup_flatten true (mg m) I)|].
    intros [i j]. rewrite (In_flatten true (mg m) i j I), (r_mem _ _ _ R). unfold smem. rewrite <- lfind_some_in_keys.
    destruct (lfind (i, j) (se a)); split; congruence.
  - rewrite T. apply msum_ext; auto. intros e. apply (r_lab _ _ _ R eq_refl).
Qed.
End DWRefine.
