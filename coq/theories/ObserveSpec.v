(* The observation vectors of the multigraph and weighted models ARE the vectors the spec oracle computes: for a model state m that
   refines a spec state a (whose key list is duplicate-free, as it is after every history),
     dm_observe repaired m = sobserve_m false a      um_observe repaired m = sobserve_m true a
     dw_observe repaired m = sobserve_w false a      uw_observe repaired m = sobserve_w true a.
   So every number the differential test compares is, on the model side, proved equal to the oracle's. *)
From BG Require Import Base DirectedModel DirectedProofs DirectedIter DirectedUsers DirectedSpec DirectedRefine DirectedObs Equality
  UndirectedModel UndirectedProofs UndirectedIter UndirectedSpec UndirectedRefine UndirectedObs
  MultiModel WeightedModel MultiSpec Totals MultiRefine WeightedRefine UTotals UMultiRefine UWeightedRefine
  UndirectedUsers MultiUsers WeightedUsers.
Local Open Scope Z_scope.
Local Arguments Z.of_nat : simpl never.
Local Arguments Z.mul : simpl never.
Local Arguments Z.add : simpl never.

(* ---- list plumbing ---- *)
Lemma In_pairs e n : In e (pairs n) <-> (fst e < n)%nat /\ (snd e < n)%nat.
Proof. unfold pairs. rewrite in_flat_map. split.
  - intros [i [Hi H]]. apply in_map_iff in H as [j [<- Hj]]. apply in_seq in Hi, Hj. cbn [fst snd]. lia.
  - intros [A B]. exists (fst e). split; [apply in_seq; lia|]. apply in_map_iff. exists (snd e). split; [symmetry; apply surjective_pairing|apply in_seq; lia]. Qed.
Lemma concat_rows {A} (f : nat -> nat -> A) n : concat (map (fun i => map (fun j => f i j) (seq 0 n)) (seq 0 n)) = map (fun e => f (fst e) (snd e)) (pairs n).
Proof. unfold pairs. rewrite flat_map_concat_map, concat_map, map_map. f_equal. apply map_ext. intros i. rewrite map_map. reflexivity. Qed.
Lemma flat_rows {A} (f : nat -> nat -> A) n : flat_map (fun i => map (fun j => f i j) (seq 0 n)) (seq 0 n) = map (fun e => f (fst e) (snd e)) (pairs n).
Proof. rewrite flat_map_concat_map. apply concat_rows. Qed.
Lemma map_pairs_ext {A} (F G : nat -> nat -> A) n : (forall i j, (i < n)%nat -> (j < n)%nat -> F i j = G i j) ->
  map (fun e => F (fst e) (snd e)) (pairs n) = map (fun e => G (fst e) (snd e)) (pairs n).
Proof. intros H. apply map_ext_in. intros e He. apply In_pairs in He as [A1 B1]. apply H; auto. Qed.
Lemma flat_map_pairs_ext {A} (F G : nat -> nat -> list A) n : (forall i j, (i < n)%nat -> (j < n)%nat -> F i j = G i j) ->
  flat_map (fun e => F (fst e) (snd e)) (pairs n) = flat_map (fun e => G (fst e) (snd e)) (pairs n).
Proof. intros H. apply flat_map_ext_in'. intros e He. apply In_pairs in He as [A1 B1]. apply H; auto. Qed.
Lemma map_seq_ext {A} (F G : nat -> A) n : (forall i, (i < n)%nat -> F i = G i) -> map F (seq 0 n) = map G (seq 0 n).
Proof. intros H. apply map_ext_in. intros i Hi. apply in_seq in Hi. apply H; lia. Qed.
Lemma map_zid l : map zid l = l. Proof. apply map_id. Qed.
Lemma cons_eq {A} (x y : A) l l' : x = y -> l = l' -> x :: l = y :: l'. Proof. intros -> ->; reflexivity. Qed.
Lemma app_eq {A} (x y l l' : list A) : x = y -> l = l' -> x ++ l = y ++ l'. Proof. intros -> ->; reflexivity. Qed.
Lemma rowsum_zsum (a : @sgraph Z) f : rowsum a f = zsum f (seq 0 (sn a)).
Proof. unfold rowsum. symmetry. apply zsum_fold. Qed.
Lemma zsum_seq_ext (f h : nat -> Z) n : (forall i, (i < n)%nat -> f i = h i) -> zsum f (seq 0 n) = zsum h (seq 0 n).
Proof. intros H. apply zsum_ext. intros i Hi. apply in_seq in Hi. apply H; lia. Qed.
Lemma length_filter_zsum {A} (p : A -> bool) l : Z.of_nat (length (filter p l)) = zsum (fun x => if p x then 1 else 0) l.
Proof. induction l as [|x t IH]; [reflexivity|]. cbn [filter]. rewrite zsum_cons. destruct (p x); cbn [length]; rewrite ?Nat2Z.inj_succ, IH; lia. Qed.
Lemma length_zsum {A} (l : list A) : Z.of_nat (length l) = zsum (fun _ => 1) l.
Proof. induction l as [|x t IH]; [reflexivity|]. cbn [length]. rewrite zsum_cons, Nat2Z.inj_succ, IH. lia. Qed.
Lemma nsum_zsum (f : nat -> nat) l : Z.of_nat (nsum f l) = zsum (fun x => Z.of_nat (f x)) l.
Proof. unfold nsum. induction l as [|x t IH]; [reflexivity|]. cbn [map fold_right]. rewrite zsum_cons, Nat2Z.inj_add, IH. reflexivity. Qed.

(* ---- segments that depend on the graph part only ---- *)
Section Segs.
Context {L : Type}.
Variable hs : bool.
Variable g : @dgraph L.
Notation n := (size g).
Notation vs := (seq 0 (size g)).

(* neighbour multisets *)
Lemma seg_nb (has : nat -> nat -> bool) : length (adj g) = n -> (forall i, NoDup (nb g i)) -> (forall i j, mem j (nb g i) = has i j) ->
  flat_map (fun i => zvec zn n (omap (fun l => map (fun j => count j l) vs) (out_neighbours g i))) vs = flat_map (fun i => map (fun j => b2z (has i j)) vs) vs.
Proof. intros E ND M. apply flat_map_ext_in'. intros i Hi. apply in_seq in Hi. rewrite (out_nb g i E) by lia. cbn [omap obind zvec]. rewrite map_map.
  apply map_ext. intros j. rewrite (count_nodup j _ (ND i)), <- M. destruct (mem j (nb g i)); reflexivity. Qed.

Lemma cnt_edge_flatten_gen i j : (forall i, NoDup (nb g i)) -> (forall i j, In j (nb g i) -> (i < n)%nat) ->
  length (filter (edge_eqb (i, j)) (flatten g)) = if mem j (nb g i) then 1%nat else 0%nat.
Proof. intros ND R. unfold flatten, rows_from, row. rewrite cnt_edge_flat_map by apply seq_NoDup.
  destruct (mem i (seq 0 n)) eqn:M; [apply count_nodup, ND|].
  assert (X : ~ In i (seq 0 n)) by (apply mem_false; exact M). rewrite in_seq in X.
  destruct (mem j (nb g i)) eqn:M2; [|reflexivity]. apply mem_In, R in M2. lia. Qed.

(* edges(): the length and the multiplicity of every pair *)
Lemma seg_edges_d (hase : edge -> bool) k : Inv hs g -> (forall i j, mem j (nb g i) = hase (i, j)) -> enum g = zn k ->
  edge_counts n (iterate repaired g) = zn k :: map (fun e => b2z (true && hase e)) (pairs n).
Proof.
  intros I M EN. rewrite (iterate_flatten g (i_len _ _ I)). cbn [edge_counts]. apply cons_eq.
  - unfold zn. rewrite (length_flatten hs g I), <- (i_enum _ _ I). exact EN.
  - apply map_ext. intros [i j]. cbn [andb]. rewrite <- M. rewrite cnt_edge_flatten_gen; [destruct (mem j (nb g i)); reflexivity|apply (i_nodup _ _ I)|].
    intros i' j' H. apply (i_rng _ _ I i' j' H).
Qed.
Lemma filter_filter_len (e : edge) (p : edge -> bool) (l : list edge) :
  length (filter (edge_eqb e) (filter p l)) = if p e then length (filter (edge_eqb e) l) else 0%nat.
Proof. induction l as [|x t IH]; [destruct (p e); reflexivity|]. cbn [filter]. destruct (edge_eqb_spec e x) as [<-|Ne].
  - destruct (p e) eqn:P; cbn [filter]; [rewrite edge_eqb_refl; cbn [length]; rewrite IH; reflexivity|exact IH].
  - destruct (p x); cbn [filter]; [destruct (edge_eqb_spec e x); [congruence|]|]; exact IH. Qed.
Lemma seg_edges_u (hase : edge -> bool) k : InvU hs g -> (forall i j, (i <= j)%nat -> mem j (nb g i) = hase (i, j)) -> enum g = zn k ->
  edge_counts n (u_iterate repaired g) = zn k :: map (fun e => b2z (Nat.leb (fst e) (snd e) && hase e)) (pairs n).
Proof.
  intros I M EN. rewrite (u_iterate_flatten hs g I). cbn [edge_counts]. apply cons_eq.
  - unfold zn. rewrite (length_filter_up_flatten g (u_len _ _ I)), <- (u_enum _ _ I). exact EN.
  - apply map_ext. intros [i j]. rewrite filter_filter_len. unfold up. cbn [fst snd]. destruct (Nat.leb_spec i j) as [Le|Gt]; cbn [andb]; [|reflexivity].
    rewrite <- (M i j Le). rewrite cnt_edge_flatten_gen; [destruct (mem j (nb g i)); reflexivity|apply (u_nodup _ _ I)|].
    intros i' j' H. apply (u_rng _ _ I i' j' H).
Qed.

(* iteration segment *)
Lemma seg_iter (k : nat) : length (adj g) = n -> (flatten g = [] <-> k = 0%nat) ->
  iter_segment repaired g = map Z.of_nat (seq 0 n) ++ [1; 1; zbool (Nat.eqb k 0)].
Proof.
  intros E H. unfold iter_segment. rewrite vertex_range_seq. destruct (begin_is_end_iff_no_edge g E) as [b [e [-> [-> X]]]].
  apply app_eq; [reflexivity|]. do 2 (apply cons_eq; [reflexivity|]). apply cons_eq; [|reflexivity]. f_equal.
  destruct (Nat.eqb_spec k 0) as [K|K].
  - apply X, H, K.
  - destruct (cursor_eqb b e); [|reflexivity]. exfalso. apply K, H, X. reflexivity.
Qed.
Lemma flatten_nil_d (k : nat) : Inv hs g -> enum g = zn k -> (flatten g = [] <-> k = 0%nat).
Proof. intros I EN. pose proof (length_flatten hs g I) as LF. rewrite <- (i_enum _ _ I), EN in LF. unfold zn in LF. apply Nat2Z.inj in LF. rewrite <- LF.
  split; [intros ->; reflexivity|apply length_zero_iff_nil]. Qed.
Lemma flatten_nil_u (k : nat) : InvU hs g -> enum g = zn k -> (flatten g = [] <-> k = 0%nat).
Proof. intros I EN. pose proof (length_filter_up_flatten g (u_len _ _ I)) as LF. rewrite <- (u_enum _ _ I), EN in LF. unfold zn in LF. apply Nat2Z.inj in LF. rewrite <- LF.
  split; [intros ->; reflexivity|]. intros H. apply length_zero_iff_nil in H.
  destruct (flatten g) as [|[i j] t] eqn:F; [reflexivity|exfalso].
  assert (Hin : In (i, j) (flatten g)) by (rewrite F; simpl; auto). apply DirectedUsers.In_flatten in Hin as [Hi Hj].
  destruct (Nat.le_gt_cases i j) as [Le|Gt].
  - assert (X : In (i, j) (filter up (flatten g))).
    { apply filter_In. split; [apply DirectedUsers.In_flatten; auto|unfold up; cbn [fst snd]; apply Nat.leb_le; exact Le]. }
    rewrite F, H in X. exact X.
  - assert (X : In (j, i) (filter up (flatten g))).
    { apply filter_In. split; [|unfold up; cbn [fst snd]; apply Nat.leb_le; lia].
      apply DirectedUsers.In_flatten. split; [apply (u_rng _ _ I i j Hj)|apply (u_sym _ _ I); exact Hj]. }
    rewrite F, H in X. exact X.
Qed.
End Segs.

(* ---- the directed spec side: cardinal and total ---- *)
Lemma rf_enum (g : @dgraph Z) a : @Rf Z true g a -> SKeys a -> enum g = zn (length (se a)).
Proof. intros R SK. pose proof (r_inv _ _ _ R) as I. unfold zn. rewrite (i_enum _ _ I), <- (length_flatten true g I), <- (map_length fst (se a)). f_equal.
  apply Permutation_length, NoDup_Permutation; auto; [apply (NoDup_flatten true g I)|].
  intros [i j]. rewrite (DirectedObs.In_flatten true g i j I), (r_mem _ _ _ R). unfold smem. rewrite <- lfind_some_in_keys.
  destruct (lfind (i, j) (se a)); split; congruence. Qed.
Lemma rf_total m a : TInv m -> @Rf Z true (mg m) a -> SKeys a -> mtot m = ssum a.
Proof. intros [I K T] R SK. rewrite T. apply msum_ext; auto. intros e. apply (r_lab _ _ _ R eq_refl). Qed.
Lemma rf_mem (g : @dgraph Z) a i j : @Rf Z true g a -> mem j (nb g i) = smem (i, j) a.
Proof. intros R. destruct (smem (i, j) a) eqn:X; [apply mem_In, (r_mem _ _ _ R); auto|apply mem_false; rewrite (r_mem _ _ _ R); congruence]. Qed.
Lemma rfu_mem (g : @dgraph Z) a i j : @RfU Z true g a -> mem j (nb g i) = smem (ordered i j) a.
Proof. intros R. apply (mem_umem true g a i j R). Qed.
Lemma rfu_mem_up (g : @dgraph Z) a i j : @RfU Z true g a -> mem j (nb g i) = (if Nat.leb i j then smem (i, j) a else smem (j, i) a).
Proof. intros R. rewrite (rfu_mem g a i j R). unfold ordered. destruct (Nat.ltb_spec i j) as [Lt|Ge]; destruct (Nat.leb_spec i j) as [Le|Gt]; try reflexivity; try lia.
  assert (i = j) as -> by lia. reflexivity. Qed.

(* ================= DirectedMultigraph ================= *)
Theorem dm_observe_spec m a : RfM m a -> SKeys a -> dm_observe repaired m = sobserve_m false a.
Proof.
  intros [TI R P] SK. pose proof (t_inv _ TI) as I. pose proof (r_size _ _ _ R) as S.
  pose proof (rf_enum (mg m) a R SK) as EN. pose proof (rf_total m a TI R SK) as TOT.
  assert (MV : forall i j, mult m i j = mval false a i j) by (intros i j; apply (rf_lget m a i j R)).
  assert (MH : forall i j, mem j (nb (mg m) i) = mhas false a i j) by (intros i j; apply (rf_mem (mg m) a i j R)).
  unfold dm_observe, sobserve_m. cbv beta iota zeta. rewrite <- S.
  apply cons_eq; [rewrite EN, TOT; reflexivity|].
  apply cons_eq. { apply (map_pairs_ext (fun i j => zout zbool (has_edge (mg m) i j)) (fun i j => zbool (mhas false a i j))).
    intros i j Hi Hj. rewrite (has_edge_val true (mg m) i j I Hi Hj), MH. reflexivity. }
  apply cons_eq. { apply (seg_nb (mg m) (mhas false a) (i_len _ _ I) (i_nodup _ _ I) MH). }
  apply cons_eq. { apply (map_pairs_ext (fun i j => zout zid (dm_get_multiplicity m i j)) (fun i j => mval false a i j)).
    intros i j Hi Hj. rewrite (dm_get_multiplicity_val m i j Hi Hj), MV. reflexivity. }
  assert (OD : forall v, dm_outdeg m v = rowsum a (mval false a v)).
  { intros v. rewrite rowsum_zsum, <- S. unfold dm_outdeg. apply zsum_ext. intros j _. apply MV. }
  assert (ID : forall v, dm_indeg m v = rowsum a (fun i => mval false a i v)).
  { intros v. rewrite rowsum_zsum, <- S. unfold dm_indeg. apply zsum_ext. intros i _. apply MV. }
  apply cons_eq. { rewrite (dm_out_degrees_val m TI), (dm_in_degrees_val m TI). cbn [zvec]. rewrite !map_zid.
    apply app_eq; [apply map_seq_ext; intros i Hi; rewrite (dm_out_degree_val m i TI Hi); apply OD|].
    apply app_eq; [apply map_ext; exact OD|].
    apply app_eq; [apply map_seq_ext; intros i Hi; rewrite (dm_in_degree_val m i TI Hi); apply ID|]. apply map_ext; exact ID. }
  apply cons_eq. { rewrite (dm_adjacency_matrix_val m TI). cbn [zmat]. rewrite (concat_rows (fun i j => mult m i j)).
    apply (map_pairs_ext (fun i j => mult m i j) (fun i j => mval false a i j)). intros i j _ _. apply MV. }
  apply cons_eq. { apply (seg_edges_d true (mg m) (fun e => smem e a) (length (se a)) I MH EN). }
  apply cons_eq; [|reflexivity]. apply (seg_iter (mg m) (length (se a)) (i_len _ _ I)), (flatten_nil_d true (mg m) _ I EN).
Qed.

(* ================= UndirectedMultigraph ================= *)
Lemma rfu_mem_le (g : @dgraph Z) a i j : @RfU Z true g a -> (i <= j)%nat -> mem j (nb g i) = smem (i, j) a.
Proof. intros R Le. rewrite (rfu_mem g a i j R). pose proof (ordered_fst_snd (i, j) Le) as OE. cbn [fst snd] in OE. rewrite OE. reflexivity. Qed.

Theorem um_observe_spec m a : RfUM m a -> SKeys a -> um_observe repaired m = sobserve_m true a.
Proof.
  intros [TI R P] SK. pose proof (ut_inv _ TI) as I. pose proof (ru_size _ _ _ R) as S.
  pose proof (rfu_enum (mg m) a R SK) as EN. pose proof (rfu_total m a TI R SK) as TOT.
  assert (MV : forall i j, umult m i j = mval true a i j) by (intros i j; apply (rfu_lget m a i j R)).
  assert (MH : forall i j, mem j (nb (mg m) i) = mhas true a i j) by (intros i j; apply (rfu_mem (mg m) a i j R)).
  unfold um_observe, sobserve_m. cbv beta iota zeta. rewrite <- S.
  apply cons_eq; [rewrite EN, TOT; reflexivity|].
  apply cons_eq. { apply (map_pairs_ext (fun i j => zout zbool (um_has_edge m i j)) (fun i j => zbool (mhas true a i j))).
    intros i j Hi Hj. unfold um_has_edge. rewrite (u_has_edge_val true (mg m) i j I Hi Hj), MH. reflexivity. }
  apply cons_eq. { apply (seg_nb (mg m) (mhas true a) (u_len _ _ I) (u_nodup _ _ I) MH). }
  apply cons_eq. { apply (map_pairs_ext (fun i j => zout zid (um_get_multiplicity m i j)) (fun i j => mval true a i j)).
    intros i j Hi Hj. rewrite (um_get_multiplicity_val m i j Hi Hj), MV. reflexivity. }
  assert (CE : forall tw i j, umcell m tw i j = if Nat.eqb i j && tw then 2 * mval true a i j else mval true a i j).
  { intros tw i j. unfold umcell. rewrite MV. reflexivity. }
  assert (UD : forall tw v, um_deg m tw v = rowsum a (fun j => if Nat.eqb v j && tw then 2 * mval true a v j else mval true a v j)).
  { intros tw v. rewrite rowsum_zsum, <- S. unfold um_deg. apply zsum_ext. intros j _. apply CE. }
  apply cons_eq. { rewrite !(um_degrees_val m _ TI). cbn [zvec]. rewrite !map_zid.
    apply app_eq; [apply map_seq_ext; intros i Hi; rewrite (um_degree_val m i true TI Hi); apply UD|].
    apply app_eq; [apply map_seq_ext; intros i Hi; rewrite (um_degree_val m i false TI Hi); apply UD|].
    apply app_eq; apply map_ext; apply UD. }
  apply cons_eq. { rewrite !(um_adjacency_matrix_val m _ TI). cbn [zmat].
    rewrite (concat_rows (fun i j => umcell m true i j)), (concat_rows (fun i j => umcell m false i j)).
    apply app_eq.
    - apply (map_pairs_ext (fun i j => umcell m true i j) (fun i j => if Nat.eqb i j && true then 2 * mval true a i j else mval true a i j)). intros i j _ _. apply CE.
    - apply (map_pairs_ext (fun i j => umcell m false i j) (fun i j => if Nat.eqb i j && false then 2 * mval true a i j else mval true a i j)). intros i j _ _. apply CE. }
  apply cons_eq. { apply (seg_edges_u true (mg m) (fun e => smem e a) (length (se a)) I (fun i j => rfu_mem_le (mg m) a i j R) EN). }
  apply cons_eq; [|reflexivity]. apply (seg_iter (mg m) (length (se a)) (u_len _ _ I)), (flatten_nil_u true (mg m) _ I EN).
Qed.

(* ================= DirectedWeightedGraph ================= *)
Theorem dw_observe_spec m a : RfW m a -> SKeys a -> dw_observe repaired m = sobserve_w false a.
Proof.
  intros [TI R] SK. pose proof (t_inv _ TI) as I. pose proof (r_size _ _ _ R) as S.
  pose proof (rf_enum (mg m) a R SK) as EN. pose proof (rf_total m a TI R SK) as TOT.
  assert (MV : forall i j, mult m i j = mval false a i j) by (intros i j; apply (rf_lget m a i j R)).
  assert (MH : forall i j, mem j (nb (mg m) i) = mhas false a i j) by (intros i j; apply (rf_mem (mg m) a i j R)).
  assert (RG : forall i j, In j (nb (mg m) i) -> (j < size (mg m))%nat) by (intros i j H; apply (i_rng _ _ I i j H)).
  unfold dw_observe, sobserve_w. cbv beta iota zeta. rewrite <- S.
  apply cons_eq; [rewrite EN, TOT; reflexivity|].
  apply cons_eq. { apply (map_pairs_ext (fun i j => zout zbool (has_edge (mg m) i j)) (fun i j => zbool (mhas false a i j))).
    intros i j Hi Hj. rewrite (has_edge_val true (mg m) i j I Hi Hj), MH. reflexivity. }
  apply cons_eq. { apply (seg_nb (mg m) (mhas false a) (i_len _ _ I) (i_nodup _ _ I) MH). }
  apply cons_eq. { apply (flat_map_pairs_ext (fun i j => [zout zid (dw_get_weight m i j false); zout (fun _ => 1) (dw_get_weight m i j true)])
                                             (fun i j => if mhas false a i j then [mval false a i j; 1] else [0; zexn InvalidArgument])).
    intros i j Hi Hj. rewrite <- MH. destruct (mem j (nb (mg m) i)) eqn:M.
    - apply mem_In in M. rewrite !(dw_get_weight_present m i j _ TI M), MV. reflexivity.
    - apply mem_false in M. rewrite !(dw_get_weight_absent m i j _ TI Hi Hj M). reflexivity. }
  assert (IDc : forall j, zn (cnt_snd (flatten (mg m)) j) = rowsum a (fun i => b2z (mhas false a i j))).
  { intros j. unfold zn, cnt_snd. rewrite length_filter_zsum, rowsum_zsum, <- S. etransitivity; [exact (zsum_flatten_snd m (fun _ _ => 1) j (i_nodup _ _ I))|].
    apply zsum_ext. intros i _. rewrite MH. destruct (mhas false a i j); reflexivity. }
  assert (ODc : forall i, zn (length (nb (mg m) i)) = rowsum a (fun j => b2z (mhas false a i j))).
  { intros i. unfold zn. rewrite length_zsum, (zsum_nodup_seq (fun _ => 1) (nb (mg m) i) (size (mg m)) (i_nodup _ _ I i) (RG i)), rowsum_zsum, <- S.
    apply zsum_ext. intros j _. rewrite MH. destruct (mhas false a i j); reflexivity. }
  apply cons_eq. { rewrite (dw_in_degrees_val m TI), (dw_out_degrees_val m TI). cbn [zvec]. rewrite !map_map.
    apply app_eq; [apply map_ext; exact IDc|].
    apply app_eq; [apply map_seq_ext; intros i Hi; rewrite (dw_in_degree_val m i TI Hi); apply IDc|].
    apply app_eq; [apply map_ext; exact ODc|].
    apply map_seq_ext. intros i Hi. unfold out_degree. rewrite (out_nb (mg m) i (i_len _ _ I) Hi). apply ODc. }
  apply cons_eq. { rewrite (dw_adjacency_matrix_val m TI). rewrite (concat_rows (fun i j => if mem j (nb (mg m) i) then 1 else 0)%nat), map_map.
    apply (map_pairs_ext (fun i j => zn (if mem j (nb (mg m) i) then 1 else 0)%nat) (fun i j => b2z (mhas false a i j))).
    intros i j _ _. rewrite MH. destruct (mhas false a i j); reflexivity. }
  apply cons_eq. { rewrite (dw_weight_matrix_val m TI). cbn [zmat]. rewrite (concat_rows (fun i j => dw_cell m i j)).
    apply (map_pairs_ext (fun i j => dw_cell m i j) (fun i j => mval false a i j)). intros i j _ _. rewrite (dw_cell_mult m i j TI). apply MV. }
  apply cons_eq. { apply (seg_edges_d true (mg m) (fun e => smem e a) (length (se a)) I MH EN). }
  apply cons_eq; [|reflexivity]. apply (seg_iter (mg m) (length (se a)) (i_len _ _ I)), (flatten_nil_d true (mg m) _ I EN).
Qed.

(* ================= UndirectedWeightedGraph ================= *)
Lemma uw_get_weight_cases m i j thr : UTInv m -> (i < size (mg m))%nat -> (j < size (mg m))%nat ->
  uw_get_weight m i j thr = if mem j (nb (mg m) i) then Val (umult m i j) else if thr then Raise InvalidArgument else Val 0.
Proof.
  intros TI Hi Hj. pose proof (ut_inv _ TI) as I. unfold uw_get_weight, u_get_label, get_label, in_range, umult, lget.
  assert (A : (fst (ordered i j) < size (mg m))%nat /\ (snd (ordered i j) < size (mg m))%nat).
  { destruct (ordered_cases i j) as [[-> _]|[-> _]]; cbn [fst snd]; auto. }
  destruct A as [A B]. rewrite (proj2 (Nat.ltb_lt _ _) A), (proj2 (Nat.ltb_lt _ _) B). cbn [andb]. rewrite <- surjective_pairing.
  pose proof (u_lab_in (mg m) i j I) as LI. destruct (mem j (nb (mg m) i)) eqn:M.
  - apply mem_In, LI in M. destruct (lfind (ordered i j) (labels (mg m))); [reflexivity|congruence].
  - apply mem_false in M. destruct (lfind (ordered i j) (labels (mg m))) eqn:F; [|reflexivity]. exfalso. apply M, LI. congruence.
Qed.

Theorem uw_observe_spec m a : RfUW m a -> SKeys a -> uw_observe repaired m = sobserve_w true a.
Proof.
  intros [TI R] SK. pose proof (ut_inv _ TI) as I. pose proof (ru_size _ _ _ R) as S.
  pose proof (rfu_enum (mg m) a R SK) as EN. pose proof (rfu_total m a TI R SK) as TOT.
  assert (MV : forall i j, umult m i j = mval true a i j) by (intros i j; apply (rfu_lget m a i j R)).
  assert (MH : forall i j, mem j (nb (mg m) i) = mhas true a i j) by (intros i j; apply (rfu_mem (mg m) a i j R)).
  unfold uw_observe, sobserve_w. cbv beta iota zeta. rewrite <- S.
  apply cons_eq; [rewrite EN, TOT; reflexivity|].
  apply cons_eq. { apply (map_pairs_ext (fun i j => zout zbool (u_has_edge (mg m) i j)) (fun i j => zbool (mhas true a i j))).
    intros i j Hi Hj. rewrite (u_has_edge_val true (mg m) i j I Hi Hj), MH. reflexivity. }
  apply cons_eq. { apply (seg_nb (mg m) (mhas true a) (u_len _ _ I) (u_nodup _ _ I) MH). }
  apply cons_eq. { apply (flat_map_pairs_ext (fun i j => [zout zid (uw_get_weight m i j false); zout (fun _ => 1) (uw_get_weight m i j true)])
                                             (fun i j => if mhas true a i j then [mval true a i j; 1] else [0; zexn InvalidArgument])).
    intros i j Hi Hj. rewrite !(uw_get_weight_cases m i j _ TI Hi Hj), <- MH, <- MV. destruct (mem j (nb (mg m) i)); reflexivity. }
  assert (CE : forall tw i j, Z.of_nat (ucell (mg m) tw i j) = if mhas true a i j then (if Nat.eqb i j && tw then 2 else 1) else 0).
  { intros tw i j. unfold ucell, loopw. rewrite MH. destruct (mhas true a i j); [destruct (Nat.eqb i j && tw)|]; reflexivity. }
  assert (UDc : forall tw v, zn (udegree (mg m) tw v) = rowsum a (fun j => if mhas true a v j then (if Nat.eqb v j && tw then 2 else 1) else 0)).
  { intros tw v. unfold zn. rewrite (udegree_row_sum true (mg m) tw v I), nsum_zsum, rowsum_zsum, <- S. apply zsum_ext. intros j _. apply CE. }
  apply cons_eq. { rewrite !(uw_degrees_val m _ TI). cbn [zvec]. rewrite !map_map.
    apply app_eq; [apply map_seq_ext; intros i Hi; rewrite (uw_degree_val m i true TI Hi); apply UDc|].
    apply app_eq; [apply map_seq_ext; intros i Hi; rewrite (uw_degree_val m i false TI Hi); apply UDc|].
    apply app_eq; apply map_ext; apply UDc. }
  apply cons_eq. { cbn [flat_map]. rewrite app_nil_r, !(uw_adjacency_matrix_val m _ TI).
    rewrite (concat_rows (fun i j => ucell (mg m) true i j)), (concat_rows (fun i j => ucell (mg m) false i j)), !map_map.
    apply app_eq.
    - apply (map_pairs_ext (fun i j => zn (ucell (mg m) true i j)) (fun i j => if mhas true a i j then (if Nat.eqb i j && true then 2 else 1) else 0)). intros i j _ _. apply CE.
    - apply (map_pairs_ext (fun i j => zn (ucell (mg m) false i j)) (fun i j => if mhas true a i j then (if Nat.eqb i j && false then 2 else 1) else 0)). intros i j _ _. apply CE. }
  apply cons_eq. { rewrite (uw_weight_matrix_val m TI). cbn [zmat]. rewrite (concat_rows (fun i j => uw_cell m i j)).
    apply (map_pairs_ext (fun i j => uw_cell m i j) (fun i j => mval true a i j)). intros i j _ _. rewrite (uw_cell_umult m i j TI). apply MV. }
  apply cons_eq. { apply (seg_edges_u true (mg m) (fun e => smem e a) (length (se a)) I (fun i j => rfu_mem_le (mg m) a i j R) EN). }
  apply cons_eq; [|reflexivity]. apply (seg_iter (mg m) (length (se a)) (u_len _ _ I)), (flatten_nil_u true (mg m) _ I EN).
Qed.

(* ================= after every valid history ================= *)
Lemma SKeys_init n : SKeys (@s_init Z n). Proof. unfold SKeys; cbn; constructor. Qed.
Theorem dm_observe_history n ops : valid_mhistory (s_init n) ops = true ->
  exists m, dm_run (dm_init n) ops = (m, Done) /\ dm_observe repaired m = sobserve_m false (mspec_run (s_init n) ops).
Proof. intros Vd. destruct (dm_run_refines ops (dm_init n) (s_init n) (dm_init_refines n) Vd) as [m [E RM]]. exists m; split; [exact E|].
  apply dm_observe_spec; [exact RM|apply SKeys_run, SKeys_init]. Qed.
Theorem um_observe_history n ops : um_valid_history (s_init n) ops = true ->
  exists m, um_run (dm_init n) ops = (m, Done) /\ um_observe repaired m = sobserve_m true (umspec_run (s_init n) ops).
Proof. intros Vd. destruct (um_run_refines ops (dm_init n) (s_init n) (um_init_refines n) Vd) as [m [E RM]]. exists m; split; [exact E|].
  apply um_observe_spec; [exact RM|apply SKeys_urun, SKeys_init]. Qed.
Theorem dw_observe_history n ops : valid_whistory (s_init n) ops = true ->
  exists m, dw_run (dm_init n) ops = (m, Done) /\ dw_observe repaired m = sobserve_w false (wspec_run (s_init n) ops).
Proof. intros Vd. destruct (dw_run_refines ops (dm_init n) (s_init n) (dw_init_refines n) Vd) as [m [E RW]]. exists m; split; [exact E|].
  apply dw_observe_spec; [exact RW|apply WKeys_run, SKeys_init]. Qed.
Theorem uw_observe_history n ops : uw_valid_history (s_init n) ops = true ->
  exists m, uw_run (dm_init n) ops = (m, Done) /\ uw_observe repaired m = sobserve_w true (uwspec_run (s_init n) ops).
Proof. intros Vd. destruct (uw_run_refines ops (dm_init n) (s_init n) (uw_init_refines n) Vd) as [m [E RW]]. exists m; split; [exact E|].
  apply uw_observe_spec; [exact RW|apply WKeys_urun, SKeys_init]. Qed.

Print Assumptions dm_observe_history.
Print Assumptions um_observe_history.
Print Assumptions dw_observe_history.
Print Assumptions uw_observe_history.
