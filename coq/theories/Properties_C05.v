(* C05 — Weighted graphs keep per-edge weights and the running total consistent.  Statements only; proofs in Totals.v / WeightedRefine.v.
   In the refinement theorems weights are exact integers (units of 1/4 in the harness): this is the "exactly when representable" clause.
   The floating-point half ("within accumulated rounding error otherwise") is at the end of the file: an executable Flocq model of the running
   long double total (FloatTotal.v) equal bit for bit to what the C++ computes, with its error bound (FloatTotalProofs.v). *)
From BG Require Import Base DirectedModel DirectedProofs DirectedSpec UndirectedModel MultiModel WeightedModel MultiSpec Totals MultiRefine WeightedRefine UTotals UWeightedRefine.
Local Open Scope Z_scope.

(* DirectedWeightedGraph.  After ANY valid history (addEdge, setEdgeWeight on present and absent edges, removeEdge, removeSelfLoops,
   removeVertexFromEdgeList, clearEdges, resize, removeDuplicateEdges; force off; any weights, negative and zero included)
   - hasEdge and getEdgeWeight (throwing and non-throwing) answer from the spec: weight given at creation or by the last setEdgeWeight,
     addEdge on a present edge changes nothing (ws_add), a missing edge gives invalid_argument or 0,
   - getEdgeNumber is the number of edges and getTotalWeight is the sum of the weights of the edges currently present. *)
Theorem C05_directed_weighted_consistent : forall (n : nat) (ops : list wop), valid_whistory (s_init n) ops = true ->
  exists m, dw_run (dm_init n) ops = (m, Done) /\
    let a := wspec_run (s_init n) ops in
    size (mg m) = sn a /\
    (forall i j thr, (i < sn a)%nat -> (j < sn a)%nat ->
       has_edge (mg m) i j = Val (mhas false a i j) /\
       dw_get_weight m i j thr = (if mhas false a i j then Val (mval false a i j) else if thr then Raise InvalidArgument else Val 0)) /\
    enum (mg m) = Z.of_nat (length (se a)) /\
    mtot m = ssum a.
Proof. exact C05_directed_consistent. Qed.
Print Assumptions C05_directed_weighted_consistent.

Theorem C05_spec_semantics : forall (a : @sgraph Z) i j w w',
  (mhas false a i j = true -> ws_add false a i j w = a) /\
  (mhas false a i j = false -> mval false (ws_add false a i j w) i j = w) /\
  mval false (ws_set false a i j w') i j = w' /\ mhas false (ws_set false a i j w') i j = true /\
  mhas false (wspec_step false a (WRemove i j)) i j = false.
Proof.
  intros a i j w w'. unfold ws_add, ws_set, mval, mhas, smem, lget. cbn [wspec_step with_se se]. repeat split.
  - intros ->. reflexivity.
  - intros ->. cbn [with_se se lfind]. rewrite edge_eqb_refl. reflexivity.
  - rewrite lfind_lset, edge_eqb_refl. reflexivity.
  - rewrite lfind_lset, edge_eqb_refl. reflexivity.
  - rewrite lfind_lerase, edge_eqb_refl. reflexivity.
Qed.
Print Assumptions C05_spec_semantics.

(* UndirectedWeightedGraph: the same statement, weights indexed by the unordered pair (fix expressions = model run, validity, spec run) *)
Theorem C05_undirected_weighted_consistent : forall (n : nat) (ops : list wop),
  (fix valid a ops := match ops with [] => true | o :: t => valid_wop a o && valid (wspec_step true a o) t end) (s_init n) ops = true ->
  exists m, (fix run m ops := match ops with [] => (m, Done) | o :: t => match uw_step repaired true m o with (m1, Done) => run m1 t | r => r end end) (dm_init n) ops = (m, Done) /\
    let a := (fix srun a ops := match ops with [] => a | o :: t => srun (wspec_step true a o) t end) (s_init n) ops in
    (forall i j thr, (i < sn a)%nat -> (j < sn a)%nat ->
       u_has_edge (mg m) i j = Val (mhas true a i j) /\
       uw_get_weight m i j thr = (if mhas true a i j then Val (mval true a i j) else if thr then Raise InvalidArgument else Val 0)) /\
    enum (mg m) = Z.of_nat (length (se a)) /\ mtot m = ssum a.
Proof. intros n ops Vd. exact (C05_undirected_run n ops Vd). Qed.
Print Assumptions C05_undirected_weighted_consistent.

(* the pinned commit: setEdgeWeight(2,1,w) on the undirected edge {1,2} left the weight unchanged and added w to the total *)
Example C05_refuted_on_pinned :
  let m := fst (uw_step pinned false (fst (uw_step pinned false (dm_init 3) (WAdd 1 2 5 false))) (WSet 2 1 8)) in
  uw_get_weight m 1 2 true = Val 5 /\ mtot m = 13.
Proof. vm_compute. auto. Qed.
Example C05_valid_history_example :
  valid_whistory (s_init 3) [WAdd 0 1 (-3) false; WSet 0 1 7; WSet 2 2 0; WAdd 0 1 9 false; WRemoveVertex 0; WResize 4; WSet 3 1 2; WSelfLoops; WClear] = true.
Proof. vm_compute. reflexivity. Qed.

(* ---- weight matrix (the stored weight where there is an edge, 0 elsewhere; the loop assigns, so a self-loop weight appears once), and ALL observers
   at once: the whole observation vector equals the one computed from the weight-function spec ---- *)
From Coq Require Import List Arith ZArith.
From BG Require Import Base DirectedModel DirectedProofs DirectedSpec DirectedRefine DirectedObs UndirectedModel UndirectedProofs UndirectedSpec UndirectedRefine UndirectedObs MultiModel WeightedModel MultiSpec Totals MultiRefine WeightedRefine UTotals UMultiRefine UWeightedRefine Instances UndirectedUsers MultiUsers WeightedUsers ObserveSpec ObserveSpecLabelled.
Import ListNotations.
Local Close Scope Z_scope.
Theorem C05_directed_all_observers :
  forall (n : nat) (ops : list wop),
        valid_whistory (s_init n) ops = true ->
        exists m : mgraph, dw_run (dm_init n) ops = (m, Done) /\ dw_observe repaired m = sobserve_w false (wspec_run (s_init n) ops).
Proof. exact ObserveSpec.dw_observe_history. Qed.
Print Assumptions C05_directed_all_observers.
Theorem C05_undirected_all_observers :
  forall (n : nat) (ops : list wop),
        uw_valid_history (s_init n) ops = true ->
        exists m : mgraph, uw_run (dm_init n) ops = (m, Done) /\ uw_observe repaired m = sobserve_w true (uwspec_run (s_init n) ops).
Proof. exact ObserveSpec.uw_observe_history. Qed.
Print Assumptions C05_undirected_all_observers.
Theorem C05_weight_matrix :
  forall m : mgraph,
        TInv m ->
        weight_matrix (size (mg m)) (mg m) (fun i j : nat => dw_get_weight m i j true) =
        Val (map (fun i : nat => map (fun j : nat => dw_cell m i j) (seq 0 (size (mg m)))) (seq 0 (size (mg m)))).
Proof. exact WeightedUsers.dw_weight_matrix_val. Qed.
Print Assumptions C05_weight_matrix.
Theorem C05_undirected_weight_matrix :
  forall m : mgraph,
        UTInv m ->
        weight_matrix (size (mg m)) (mg m) (fun i j : nat => uw_get_weight m i j true) =
        Val (map (fun i : nat => map (fun j : nat => uw_cell m i j) (seq 0 (size (mg m)))) (seq 0 (size (mg m)))).
Proof. exact WeightedUsers.uw_weight_matrix_val. Qed.
Print Assumptions C05_undirected_weight_matrix.

(* ---- the floating-point half.  FloatTotal.fstep mirrors the arithmetic of addEdge / setEdgeWeight / removeEdge / clearEdges statement by statement:
   weights are binary64, the total is an x87 extended value (64-bit significand), `new - cur` is a double subtraction.  fok = no overflow anywhere.
   rsum = exact real sum of the stored weights; fbound = accumulated local rounding errors (2^-64 |exact result| per extended addition, plus
   2^-53 |new - cur| per setEdgeWeight), reset by clearEdges.  The theorems use Flocq and the Coq Reals: their Print Assumptions list the four
   standard-library axioms of the classical real numbers (ClassicalDedekindReals.sig_forall_dec, sig_not_dec, Classical_Prop.classic,
   FunctionalExtensionality.functional_extensionality_dep) - named in the trusted base; none is declared here. ---- *)
From Coq Require Import List Arith Reals.
From Flocq Require Import Core BinarySingleNaN.
From BG Require Import FloatTotal FloatTotalProofs.
Local Close Scope Z_scope.
Theorem C05_float_total_error :
  forall (und : bool) (ops : list fop),
        fok und ops = true ->
        Rdefinitions.Rle (Rbasic_fun.Rabs (Rdefinitions.Rminus (BinarySingleNaN.B2R (ftot (frun und ops))) (rsum (fw (frun und ops))))) (fbound und ops).
Proof. exact FloatTotalProofs.ftotal_error. Qed.
Print Assumptions C05_float_total_error.
Theorem C05_float_total_error_closed_form :
  forall (und : bool) (ops : list fop),
        fok und ops = true ->
        Rdefinitions.Rle (Rbasic_fun.Rabs (Rdefinitions.Rminus (BinarySingleNaN.B2R (ftot (frun und ops))) (rsum (fw (frun und ops)))))
          (Rdefinitions.RbaseSymbolsImpl.Rmult
             (Rdefinitions.Rminus (Rpow_def.pow (Rdefinitions.RbaseSymbolsImpl.Rplus (Rdefinitions.IZR 1) (Raux.bpow Zaux.radix2 (-52))) (length ops))
                (Rdefinitions.IZR 1)) (fabsinc und ops)).
Proof. exact FloatTotalProofs.ftotal_error_closed. Qed.
Print Assumptions C05_float_total_error_closed_form.
Theorem C05_float_undirected_getter_error :
  forall (und : bool) (ops : list fop),
        fok und ops = true ->
        BinarySingleNaN.is_finite (dbl_of_ext (ftot (frun und ops))) = true ->
        Rdefinitions.Rle (Rbasic_fun.Rabs (Rdefinitions.Rminus (BinarySingleNaN.B2R (dbl_of_ext (ftot (frun und ops)))) (rsum (fw (frun und ops)))))
          (Rdefinitions.RbaseSymbolsImpl.Rplus (fbound und ops)
             (Rdefinitions.RbaseSymbolsImpl.Rplus (Rdefinitions.RbaseSymbolsImpl.Rmult u53 (Rbasic_fun.Rabs (BinarySingleNaN.B2R (ftot (frun und ops)))))
                (Raux.bpow Zaux.radix2 (-1075)))).
Proof. exact FloatTotalProofs.fget_error. Qed.
Print Assumptions C05_float_undirected_getter_error.
Theorem C05_float_total_exact_on_quarters :
  forall (und : bool) (ops : list fop),
        Forall fop_q4 ops ->
        length ops <= 1024 ->
        fok und ops = true /\
        BinarySingleNaN.B2R (ftot (frun und ops)) = rsum (fw (frun und ops)) /\
        BinarySingleNaN.B2R (dbl_of_ext (ftot (frun und ops))) = rsum (fw (frun und ops)) /\ BinarySingleNaN.is_finite (dbl_of_ext (ftot (frun und ops))) = true.
Proof. exact FloatTotalProofs.ftotal_exact_q4. Qed.
Print Assumptions C05_float_total_exact_on_quarters.
Theorem C05_float_model_is_IEEE_addition :
  forall (prec emax : Z) (prec_gt_0_ : FLX.Prec_gt_0 prec) (prec_lt_emax_ : BinarySingleNaN.Prec_lt_emax prec emax) (x y : BinarySingleNaN.binary_float prec emax),
        fadd prec emax x y = BinarySingleNaN.Bplus BinarySingleNaN.mode_NE x y.
Proof. exact FloatTotalProofs.fadd_Bplus. Qed.
Print Assumptions C05_float_model_is_IEEE_addition.
