(* Shared core of the UNDIRECTED multigraph and weighted models: a labelled undirected graph (labels = Z, stored once per unordered pair
   under the key [ordered a b]) plus a running total that always equals the sum of the stored labels.  Each mutator is shown to act on
   the graph part exactly like the labelled undirected mutator of UndirectedModel.v. *)
From BG Require Import Base DirectedModel DirectedProofs DirectedSpec Equality UndirectedModel UndirectedProofs UndirectedSpec UndirectedRefine
  MultiModel WeightedModel Totals MultiRefine.
Local Open Scope Z_scope.
Local Arguments Z.of_nat : simpl never.

Lemma upd_upd_same {A} i (f h : A -> A) (l : list A) : upd i f (upd i h l) = upd i (fun x => f (h x)) l.
Proof. revert i; induction l as [|x t IH]; intros [|i]; simpl; auto. f_equal; apply IH. Qed.
Lemma remove_all_idem d (l : list nat) : remove_all d (remove_all d l) = remove_all d l.
Proof. apply remove_all_notin. rewrite In_remove_all. tauto. Qed.
Lemma ordered_refl a : ordered a a = (a, a).
Proof. unfold ordered. rewrite Nat.ltb_irrefl. reflexivity. Qed.
Lemma lfind_none_lget e (m : @lmap Z) : lfind e m = None -> lget e m = 0.
Proof. unfold lget. intros ->. reflexivity. Qed.

Lemma tup4 {A B} (a a' : A) (b b' : B) (c c' d d' : Z) : a = a' -> b = b' -> c = c' -> d = d' -> (a, b, c, d) = (a', b', c', d').
Proof. intros; subst; reflexivity. Qed.

Section UTot.
Notation InvU := (@InvU Z true).
Notation V := repaired.
Implicit Types m : mgraph.
Record UTInv m : Prop := { ut_inv : InvU (mg m); ut_keys : KeysOK (mg m); ut_tot : mtot m = msum (labels (mg m)) }.

Lemma UTInv_tot g t t' : UTInv (mk g t) -> t = t' -> UTInv (mk g t').
Proof. intros H <-; exact H. Qed.

Lemma u_lab_in (g : @dgraph Z) a b : InvU g -> (lfind (ordered a b) (labels g) <> None <-> In b (nb g a)).
Proof. intros I. pose proof (u_lab _ _ I) as IL. cbn in IL. rewrite (surjective_pairing (ordered a b)), IL, (In_ordered true g a b I).
  pose proof (ordered_le a b). tauto. Qed.
Lemma u_lget_absent (g : @dgraph Z) a b : InvU g -> ~ In b (nb g a) -> lget (ordered a b) (labels g) = 0.
Proof. intros I N. apply lfind_none_lget. destruct (lfind (ordered a b) (labels g)) eqn:F; auto. exfalso. apply N, (u_lab_in g a b I). congruence. Qed.
Lemma len2_true (g : @dgraph Z) a b : InvU g -> (a < size g)%nat -> (b < size g)%nat ->
  Nat.ltb a (length (adj g)) && Nat.ltb b (length (adj g)) = true.
Proof. intros I Ha Hb. rewrite (u_len _ _ I), (proj2 (Nat.ltb_lt _ _) Ha), (proj2 (Nat.ltb_lt _ _) Hb). reflexivity. Qed.

(* removeAllEdges (multigraph) = removeEdge (weighted): the graph part is removeEdge of the labelled undirected graph *)
Lemma u_remove_all_spec m a b : UTInv m -> (a < size (mg m))%nat -> (b < size (mg m))%nat ->
  exists m', um_remove_all m a b = (m', Done) /\ mg m' = fst (u_remove_edge (mg m) a b) /\ UTInv m' /\
             mtot m' = mtot m - lget (ordered a b) (labels (mg m)).
Proof.
  intros [I K T] Ha Hb. pose proof (u_remove_edge_spec true (mg m) a b I Ha Hb) as RS.
  unfold um_remove_all. unfold u_remove_edge, in_range in RS |- *.
  rewrite (in2_true m a b Ha Hb).
  rewrite (proj2 (Nat.ltb_lt _ _) Ha), (proj2 (Nat.ltb_lt _ _) Hb) in RS |- *. cbn [andb] in RS |- *. rewrite (len2_true (mg m) a b I Ha Hb) in RS |- *.
  change (nbl (mg m) a) with (nb (mg m) a). change (nth a (adj (mg m)) []) with (nb (mg m) a) in RS |- *.
  pose proof (remove_all_length_nodup b (nb (mg m) a) (u_nodup _ _ I a)) as LEN.
  destruct (mem b (nb (mg m) a)) eqn:M.
  - assert (D : Z.of_nat (length (nb (mg m) a)) - Z.of_nat (length (remove_all b (nb (mg m) a))) = 1) by lia.
    rewrite D in RS |- *. cbn [Z.ltb Z.compare fst] in RS |- *. destruct RS as [_ [I' _]].
    eexists; split; [reflexivity|]. split; [reflexivity|]. split; [|cbn [mtot mk]; lia].
    constructor; cbn [mg mk mtot set_adj_lab labels].
    + exact I'.
    + unfold KeysOK; cbn [labels]. apply NoDup_keys_lerase; exact K.
    + rewrite msum_lerase, T by exact K. lia.
  - assert (D : Z.of_nat (length (nb (mg m) a)) - Z.of_nat (length (remove_all b (nb (mg m) a))) = 0) by lia.
    rewrite D in RS |- *. cbn [Z.ltb Z.compare fst] in RS |- *. destruct RS as [_ [I' _]].
    apply mem_false in M. rewrite (u_lget_absent (mg m) a b I M).
    eexists; split; [reflexivity|]. split; [reflexivity|]. split; [|cbn [mtot mk]; lia].
    constructor; cbn [mg mk mtot set_adj_lab labels]; [exact I'|exact K|exact T].
Qed.

(* the loops of removeAllEdges / removeEdge *)
Lemma u_remove_all_loop vs : forall m, UTInv m -> (forall i, In i vs -> (i < size (mg m))%nat) ->
  exists m', m_for (fun m i => um_remove_all m i i) vs m = (m', Done) /\
             mg m' = fst (for_vertices (fun g i => u_remove_edge g i i) vs (mg m)) /\ UTInv m'.
Proof.
  induction vs as [|v vs IH]; intros m TI R; cbn [m_for for_vertices].
  - exists m; auto.
  - pose proof (R v (or_introl eq_refl)) as Hv. destruct (u_remove_all_spec m v v TI Hv Hv) as [m1 [E1 [P1 [T1 _]]]]. rewrite E1.
    pose proof (u_remove_edge_spec true (mg m) v v (ut_inv _ TI) Hv Hv) as RS.
    destruct (u_remove_edge (mg m) v v) as [g1 r1]. cbn [fst] in P1. destruct RS as [-> [_ [S1 _]]].
    destruct (IH m1 T1) as [m' [E' [P' T']]]. { intros i Hi. rewrite P1, S1. apply R; simpl; auto. }
    exists m'. rewrite E'. rewrite P1 in P'. auto.
Qed.

(* relabel an existing edge / insert an absent one *)
Lemma u_relabel_spec m a b v : UTInv m -> In b (nb (mg m) a) ->
  UTInv (mk (set_adj_lab (mg m) (adj (mg m)) (enum (mg m)) (lset (ordered a b) v (labels (mg m)))) (mtot m + (v - lget (ordered a b) (labels (mg m))))).
Proof. intros [I K T] H. constructor; cbn [mg mk mtot set_adj_lab labels].
  - exact (u_set_label_inv true (mg m) a b v I H).
  - unfold KeysOK; cbn [labels]. apply NoDup_keys_lset; exact K.
  - rewrite msum_lset, T by exact K. lia. Qed.
Lemma u_insert_spec m a b v f : UTInv m -> (a < size (mg m))%nat -> (b < size (mg m))%nat -> ~ In b (nb (mg m) a) ->
  exists g', u_add_edge true V (mg m) a b v f = (g', Done) /\ g' = fst (u_add_edge true V (mg m) a b v false) /\ enum g' = enum (mg m) + 1 /\
             size g' = size (mg m) /\ labels g' = lset (ordered a b) v (labels (mg m)) /\ UTInv (mk g' (mtot m + v)).
Proof.
  intros [I K T] Ha Hb N.
  assert (E : u_add_edge true V (mg m) a b v f = u_add_edge true V (mg m) a b v false).
  { unfold u_add_edge. cbn [v_force_checks V]. rewrite (u_has_edge_val true (mg m) a b I Ha Hb), (proj2 (mem_false _ _) N).
    unfold in_range. rewrite (proj2 (Nat.ltb_lt _ _) Ha), (proj2 (Nat.ltb_lt _ _) Hb). destruct f; reflexivity. }
  pose proof (u_add_edge_spec true (mg m) a b v I Ha Hb) as AS.
  assert (EN : enum (fst (u_add_edge true V (mg m) a b v false)) = enum (mg m) + 1 /\
               labels (fst (u_add_edge true V (mg m) a b v false)) = lset (ordered a b) v (labels (mg m))).
  { unfold u_add_edge. rewrite (u_has_edge_val true (mg m) a b I Ha Hb), (proj2 (mem_false _ _) N). unfold u_push.
    rewrite (len2_true (mg m) a b I Ha Hb). cbn [fst enum labels set_label]. auto. }
  rewrite E. destruct (u_add_edge true V (mg m) a b v false) as [g' r]. cbn [fst] in *. destruct AS as [-> [I' [S' _]]]. destruct EN as [EN LB].
  exists g'; split; auto. split; auto. split; auto. split; auto. split; auto. constructor; cbn [mg mk mtot]; auto.
  - unfold KeysOK. rewrite LB. apply NoDup_keys_lset; exact K.
  - rewrite LB, msum_lset, T, (u_lget_absent _ a b I N) by exact K. lia.
Qed.

(* removeVertexFromEdgeList: the single pass.  Every incident unordered pair is met first from its smaller endpoint (where its stored
   value is subtracted and erased); the second meeting, from the larger endpoint, finds the entry already erased. *)
Lemma keys_fold_lerase (es : list edge) : forall (lab : @lmap Z), NoDup (map fst lab) -> NoDup (map fst (fold_left (fun acc e' => lerase e' acc) es lab)).
Proof. induction es as [|x es IH]; intros lab H; cbn [fold_left]; auto. apply IH, NoDup_keys_lerase; auto. Qed.
Definition uhit (v i j : nat) : bool := Nat.eqb i v || Nat.eqb j v.
Lemma um_rmv_row_spec v i : forall (row : list nat) (lab : @lmap Z) t e, NoDup (map fst lab) ->
  (forall j, In j row -> (j < i)%nat -> uhit v i j = true -> lfind (j, i) lab = None) ->
  um_rmv_row V v i row lab t e =
    (filter (fun j => negb (Nat.eqb i v || Nat.eqb j v)) row,
     fold_left (fun acc e' => lerase e' acc) (map (fun j => ordered i j) (filter (fun j => Nat.eqb i v || Nat.eqb j v) row)) lab,
     t - (msum lab - msum (fold_left (fun acc e' => lerase e' acc) (map (fun j => ordered i j) (filter (fun j => Nat.eqb i v || Nat.eqb j v) row)) lab)),
     e - Z.of_nat (length (filter (fun j => (Nat.eqb i v || Nat.eqb j v) && Nat.leb i j) row))).
Proof.
  induction row as [|j r IH]; intros lab t e K P; cbn [um_rmv_row filter map fold_left length].
  - apply tup4; try reflexivity; lia.
  - destruct (Nat.eqb i v || Nat.eqb j v) eqn:H; cbn [negb andb map fold_left v_rmv_labels V].
    + rewrite IH.
      2:{ apply NoDup_keys_lerase; exact K. }
      2:{ intros j' Hj' Lt Hh. rewrite lfind_lerase. destruct (edge_eqb (ordered i j) (j', i)); auto. apply P; simpl; auto. }
      destruct (Nat.leb i j) eqn:Le; cbn [length].
      * rewrite (msum_lerase (ordered i j) lab K), Nat2Z.inj_succ. apply tup4; try reflexivity; lia.
      * apply Nat.leb_gt in Le. assert (OE : ordered i j = (j, i)).
        { unfold ordered. destruct (Nat.ltb_spec i j); [lia|reflexivity]. }
        rewrite (msum_lerase (ordered i j) lab K). rewrite OE. rewrite (lfind_none_lget (j, i) lab) by (apply P; simpl; auto).
        apply tup4; try reflexivity; lia.
    + rewrite IH by (auto; intros; apply P; simpl; auto). reflexivity.
Qed.
Lemma um_rmv_rows_spec v : forall rows i (lab : @lmap Z) t e, NoDup (map fst lab) ->
  (forall p j, In j (nth p rows []) -> (j < i + p)%nat -> uhit v (i + p) j = true ->
      lfind (j, (i + p)%nat) lab = None \/ ((i <= j)%nat /\ In (i + p)%nat (nth (j - i) rows []))) ->
  let '(rows', c, es) := u_rmv_rows v i rows in
  um_rmv_rows V v i rows lab t e =
    (rows', fold_left (fun acc e' => lerase e' acc) es lab, t - (msum lab - msum (fold_left (fun acc e' => lerase e' acc) es lab)), e - c).
Proof.
  induction rows as [|r rs IH]; intros i lab t e K P; cbn [um_rmv_rows u_rmv_rows].
  - cbn [fold_left]. apply tup4; try reflexivity; lia.
  - unfold u_rmv_row. rewrite (um_rmv_row_spec v i r lab t e K).
    2:{ intros j Hj Lt Hh. destruct (P 0%nat j) as [F|[Le _]]; cbn [nth]; rewrite ?Nat.add_0_r; auto; [|lia]. rewrite Nat.add_0_r in F. exact F. }
    set (es := map (fun j => ordered i j) (filter (fun j => Nat.eqb i v || Nat.eqb j v) r)).
    set (lab1 := fold_left (fun acc e' => lerase e' acc) es lab).
    assert (K1 : NoDup (map fst lab1)) by (apply keys_fold_lerase; exact K).
    specialize (IH (S i) lab1 (t - (msum lab - msum lab1)) (e - Z.of_nat (length (filter (fun j => (Nat.eqb i v || Nat.eqb j v) && Nat.leb i j) r))) K1).
    destruct (u_rmv_rows v (S i) rs) as [[rs' c'] es']. rewrite IH.
    + rewrite fold_left_app. fold lab1. apply tup4; try reflexivity; lia.
    + intros p j Hj Lt Hh. replace (S i + p)%nat with (i + S p)%nat in * by lia.
      destruct (P (S p) j) as [F|[Le Hin]]; auto.
      * left. unfold lab1. rewrite lfind_fold_lerase, F. destruct (existsb _ es); reflexivity.
      * destruct (Nat.eq_dec j i) as [->|Ne].
        -- left. rewrite Nat.sub_diag in Hin. cbn [nth] in Hin. unfold lab1. rewrite lfind_fold_lerase.
           assert (X : existsb (fun e' => edge_eqb e' (i, (i + S p)%nat)) es = true).
           { apply existsb_exists. exists (i, (i + S p)%nat). split; [|apply edge_eqb_refl]. unfold es. apply in_map_iff. exists (i + S p)%nat. split.
             - unfold ordered. destruct (Nat.ltb_spec i (i + S p)); [reflexivity|lia].
             - apply filter_In. split; auto. unfold uhit in Hh. rewrite orb_comm. exact Hh. }
           rewrite X. reflexivity.
        -- right. split; [lia|]. replace (j - i)%nat with (S (j - S i)) in Hin by lia. exact Hin.
Qed.
Lemma u_remove_vertex_spec_t m v : UTInv m -> (v < size (mg m))%nat ->
  exists m', um_remove_vertex V m v = (m', Done) /\ mg m' = fst (u_remove_vertex V (mg m) v) /\ UTInv m'.
Proof.
  intros [I K T] Hv. pose proof (u_remove_vertex_spec true (mg m) v I Hv) as RS.
  unfold um_remove_vertex, dm_ok_rows. unfold u_remove_vertex, in_range in RS |- *.
  rewrite (proj2 (Nat.ltb_lt _ _) Hv), (u_len _ _ I), Nat.leb_refl in RS |- *. cbn [v_rmv_labels V] in RS |- *.
  pose proof (um_rmv_rows_spec v (adj (mg m)) 0 (labels (mg m)) (mtot m) (enum (mg m)) K) as RR.
  destruct (u_rmv_rows v 0 (adj (mg m))) as [[rows c] es]. rewrite RR.
  2:{ intros p j Hj _ _. right. split; [lia|]. rewrite Nat.sub_0_r. cbn [Nat.add]. apply (u_sym _ _ I). exact Hj. }
  destruct RS as [_ [I' _]]. eexists; split; [reflexivity|]. split; [reflexivity|].
  constructor; cbn [mg mk mtot set_adj_lab labels fst].
  - exact I'.
  - unfold KeysOK; cbn [labels]. apply keys_fold_lerase; exact K.
  - rewrite T. lia.
Qed.

(* clearEdges, resize, removeDuplicateEdges *)
Lemma u_clear_spec_t m : UTInv m -> exists m', dm_clear V m = (m', Done) /\ mg m' = fst (clear_edges V (mg m)) /\ UTInv m' /\ mtot m' = 0.
Proof. intros [I K T]. unfold dm_clear, dm_ok_rows. pose proof (u_clear_edges_spec true (mg m) I) as CS. unfold clear_edges in CS |- *.
  rewrite (u_len _ _ I), Nat.leb_refl in CS |- *. cbn [v_clear_labels V] in CS |- *.
  eexists; split; [reflexivity|]. split; [reflexivity|]. split; [|reflexivity].
  destruct CS as [_ [I' _]]. constructor; [exact I'|unfold KeysOK; cbn; constructor|reflexivity]. Qed.
Lemma u_resize_spec_t m n : UTInv m -> (size (mg m) <= n)%nat -> exists m', dm_resize m n = (m', Done) /\ mg m' = fst (resize (mg m) n) /\ UTInv m' /\ mtot m' = mtot m.
Proof. intros [I K T] Hn. unfold dm_resize, with_g. pose proof (u_resize_spec true (mg m) n I Hn) as RS. destruct (resize (mg m) n) as [g' r]. cbn [fst snd].
  destruct RS as [-> [I' [_ [_ LB]]]]. eexists; split; [reflexivity|]. split; [reflexivity|]. split; [|reflexivity].
  constructor; cbn [mg mk mtot]; [exact I'|unfold KeysOK; rewrite LB; exact K|rewrite LB; exact T]. Qed.
Lemma u_dedup_noop_t m : UTInv m -> um_remove_duplicates m = (m, Done).
Proof.
  intros [I K T]. unfold um_remove_duplicates, dm_ok_rows. rewrite (u_len _ _ I), Nat.leb_refl.
  assert (A : forall (a : list (list nat)) k lab, (forall l, In l a -> NoDup l) -> um_dedup_rows k lab a = (a, 0, 0)).
  { assert (R : forall i lab (l : list nat) seen, NoDup l -> (forall x, In x l -> ~ In x seen) -> um_dedup_row i lab seen l = (l, 0, 0)).
    { intros i lab. induction l as [|x t IHl]; intros seen ND D; cbn [um_dedup_row]; auto. inversion ND; subst.
      assert (mem x seen = false) as -> by (apply mem_false, D; simpl; auto). rewrite IHl; auto.
      intros y Hy [<-|Hs]; [contradiction|]. apply (D y); simpl; auto. }
    induction a as [|x t IH]; intros k lab H; cbn [um_dedup_rows]; auto. rewrite R by (auto; apply H; simpl; auto).
    rewrite IH by (intros; apply H; simpl; auto). reflexivity. }
  rewrite A. { rewrite !Z.sub_0_r. destruct m as [[a s e l] t]; reflexivity. }
  intros l Hl. apply In_nth with (d := []) in Hl as [i [_ <-]]. apply (u_nodup _ _ I).
Qed.
End UTot.
