(* The repaired directed model refines the pair-set spec (one step, then every valid history). *)
From BG Require Import Base DirectedModel DirectedProofs DirectedSpec.
Local Open Scope Z_scope.

Section Refine.
Context {L : Type}.
Variable has_store : bool.
Notation dgraph := (@dgraph L).
Notation sgraph := (@sgraph L).
Implicit Types (g : dgraph) (a : sgraph).
Notation Inv := (Inv has_store).
Notation step := (@step L has_store repaired).
Notation run := (@run L has_store repaired).

Record Rf g a : Prop := {
  r_inv : Inv g;
  r_size : size g = sn a;
  r_mem : forall i j, In j (nb g i) <-> smem (i, j) a = true;
  r_lab : has_store = true -> forall e, lfind e (labels g) = lfind e (se a) }.

Lemma smem_add a s d l e : smem e (s_add a s d l) = smem e a || edge_eqb (s, d) e.
Proof. unfold s_add. destruct (smem (s, d) a) eqn:M.
  - destruct (edge_eqb_spec (s, d) e) as [<-|]; [rewrite M; auto|rewrite orb_false_r; auto].
  - unfold smem; simpl. destruct (edge_eqb_spec (s, d) e) as [<-|]; [|rewrite orb_false_r; auto]. rewrite orb_true_r; auto. Qed.
Lemma lfind_add a s d l e : lfind e (se (s_add a s d l)) = if edge_eqb (s, d) e && negb (smem (s, d) a) then Some l else lfind e (se a).
Proof. unfold s_add. destruct (smem (s, d) a) eqn:M; simpl; [rewrite andb_false_r; auto|]. rewrite andb_true_r; auto. Qed.

Lemma add_refines g a s d l : Rf g a -> (s < sn a)%nat -> (d < sn a)%nat ->
  let '(g', r) := add_edge has_store repaired g s d l false in r = Done /\ Rf g' (s_add a s d l).
Proof.
  intros [I S M LB] Hs Hd. rewrite <- S in Hs, Hd.
  pose proof (add_edge_spec has_store g s d l I Hs Hd) as H.
  destruct (add_edge has_store repaired g s d l false) as [g' r]. destruct H as [-> [I' [S' [E' L']]]].
  split; auto. constructor; auto.
  - rewrite S'. unfold s_add; destruct (smem (s, d) a); auto.
  - intros i j. rewrite E', smem_add, M. rewrite orb_true_iff. destruct (edge_eqb_spec (s, d) (i, j)) as [E|NE].
    + injection E as <- <-. tauto.
    + split; [intros [?|[-> ->]]; [auto|congruence]|intros [?|?]; [auto|discriminate]].
  - intros HS e. rewrite L', lfind_add, HS, (LB HS). simpl.
    assert (mem d (nb g s) = smem (s, d) a).
    { destruct (smem (s, d) a) eqn:X; [apply mem_In, M; auto|apply mem_false; rewrite M; congruence]. }
    rewrite H; auto.
Qed.

Theorem step_refines g a o : Rf g a -> valid_op a o = true -> let '(g', r) := step g o in r = Done /\ Rf g' (spec_step a o).
Proof.
  intros R Vd. pose proof R as [I S M LB]. destruct o as [s d l f|x y l f|s d| |v| |n|s d l f|]; simpl in Vd |- *.
  - (* addEdge *) apply andb_prop in Vd as [Vd F]. apply andb_prop in Vd as [Hs Hd]. apply Nat.ltb_lt in Hs, Hd.
    destruct f; [discriminate|]. apply add_refines; auto.
  - (* addReciprocalEdge *) apply andb_prop in Vd as [Vd F]. apply andb_prop in Vd as [Hs Hd]. apply Nat.ltb_lt in Hs, Hd.
    destruct f; [discriminate|]. unfold add_reciprocal.
    pose proof (add_refines g a x y l R Hs Hd) as H1. destruct (add_edge has_store repaired g x y l false) as [g1 r1].
    destruct H1 as [-> R1]. apply add_refines; auto; unfold s_add; destruct (smem (x, y) a); auto.
  - (* removeEdge *) apply andb_prop in Vd as [Hs Hd]. apply Nat.ltb_lt in Hs, Hd. rewrite <- S in Hs, Hd.
    pose proof (remove_edge_spec has_store g s d I Hs Hd) as H. destruct (remove_edge g s d) as [g' r].
    destruct H as [-> [I' [S' [E' L']]]]. split; auto. constructor; auto; [rewrite S'; auto| |].
    + intros i j. rewrite E'. unfold smem, s_remove; cbn [se]. rewrite lfind_lerase. destruct (edge_eqb_spec (s, d) (i, j)) as [E|NE].
      * injection E as <- <-. split; [intros [_ X]; exfalso; apply X; auto|discriminate].
      * rewrite M. unfold smem. split; [tauto|]. intros X; split; auto. intros [-> ->]; congruence.
    + intros HS e. rewrite L'. unfold s_remove; cbn [se]. rewrite lfind_lerase, (LB HS). auto.
  - (* removeSelfLoops *) pose proof (remove_self_loops_spec has_store g I) as H. destruct (remove_self_loops g) as [g' r].
    destruct H as [-> [I' [S' [E' L']]]]. split; auto. constructor; auto; [rewrite S'; auto| |].
    + intros i j. rewrite E'. unfold smem, s_loops. rewrite lfind_s_filter; simpl.
      destruct (Nat.eqb_spec i j) as [->|]; simpl; [split; [tauto|discriminate]|]. rewrite M; unfold smem; tauto.
    + intros HS [i j]. rewrite L'. unfold s_loops. rewrite lfind_s_filter; simpl. rewrite <- (LB HS).
      destruct (Nat.eqb_spec i j) as [->|]; simpl; auto. destruct (Nat.ltb_spec j (size g)); auto.
      destruct (lfind (j, j) (labels g)) eqn:F; auto. exfalso. pose proof (i_lab _ _ I) as IL. rewrite HS in IL.
      assert (In j (nb g j)) by (apply IL; congruence). apply (i_rng _ _ I) in H0. lia.
  - (* removeVertexFromEdgeList *) apply Nat.ltb_lt in Vd. rewrite <- S in Vd.
    pose proof (remove_vertex_spec has_store g v I Vd) as H. destruct (remove_vertex repaired g v) as [g' r].
    destruct H as [-> [I' [S' [E' L']]]]. split; auto. constructor; auto; [rewrite S'; auto| |].
    + intros i j. rewrite E'. unfold smem, s_rmv. rewrite lfind_s_filter; simpl.
      destruct (Nat.eqb_spec i v) as [->|]; simpl; [split; [tauto|discriminate]|].
      destruct (Nat.eqb_spec j v) as [->|]; simpl; [split; [tauto|discriminate]|]. rewrite M; unfold smem; tauto.
    + intros HS [i j]. rewrite (L' HS). unfold s_rmv. rewrite lfind_s_filter; simpl. rewrite <- (LB HS).
      destruct (Nat.eqb i v || Nat.eqb j v); auto.
  - (* clearEdges *) pose proof (clear_edges_spec has_store g I) as H. destruct (clear_edges repaired g) as [g' r].
    destruct H as [-> [I' [S' [E' L']]]]. split; auto. constructor; auto; [rewrite S'; auto| |].
    + intros i j. rewrite E'. unfold smem; simpl. split; [intros []|discriminate].
    + intros _ e. rewrite L'; auto.
  - (* resize *) apply Nat.leb_le in Vd. rewrite <- S in Vd.
    pose proof (resize_spec has_store g n I Vd) as H. destruct (resize g n) as [g' r].
    destruct H as [-> [I' [S' [E' L']]]]. split; auto. constructor; auto.
    + intros i j. rewrite E'. apply M.
    + intros HS e. rewrite L'. apply (LB HS).
  - (* setEdgeLabel *) apply andb_prop in Vd as [Vd P]. apply andb_prop in Vd as [Vd F]. apply andb_prop in Vd as [Hs Hd].
    apply Nat.ltb_lt in Hs, Hd. rewrite <- S in Hs, Hd. destruct f; [discriminate|].
    rewrite (set_label_spec has_store g s d l I Hs Hd).
    assert (In d (nb g s)) by (apply M; auto). rewrite (proj2 (mem_In _ _) H). split; auto.
    unfold s_setlabel; rewrite P. constructor; cbn [size sn].
    + apply set_label_inv; auto.
    + auto.
    + intros i j. unfold nb; cbn [adj]. fold (nb g i). rewrite M. unfold smem; cbn [se]. rewrite lfind_lset.
      destruct (edge_eqb_spec (s, d) (i, j)) as [<-|]; [|reflexivity]. unfold smem in P. split; auto.
    + intros HS e. cbn [labels se]. unfold set_label. rewrite HS, !lfind_lset, (LB HS). auto.
  - (* removeDuplicateEdges *) rewrite (remove_duplicates_noop has_store g I). split; auto.
Qed.

Lemma init_refines n : Rf (init n) (s_init n).
Proof. assert (NB : forall i, nb (@init L n) i = []) by (intros i; unfold nb, init; simpl; apply nth_repeat).
  constructor; simpl; auto.
  - constructor; simpl; auto.
    + apply repeat_length.
    + intros i; rewrite NB; constructor.
    + intros i j; rewrite NB; intros [].
    + rewrite total_repeat_nil; auto.
    + destruct has_store; auto. intros i j; rewrite NB; simpl; split; [congruence|intros []].
  - intros i j; rewrite NB; unfold smem; simpl; split; [intros []|discriminate].
Qed.

Theorem run_refines ops : forall g a, Rf g a -> valid_history a ops = true ->
  let '(g', r) := run g ops in r = Done /\ Rf g' (spec_run a ops).
Proof. induction ops as [|o ops IH]; intros g a R Vd; simpl in *; auto.
  apply andb_prop in Vd as [V1 V2]. pose proof (step_refines g a o R V1) as H.
  destruct (step g o) as [g1 r1]. destruct H as [-> R1]. apply IH; auto. Qed.
End Refine.
