(* C04 / C05 (directed classes): the multigraph and weighted models refine the multiplicity / weight function spec. *)
From BG Require Import Base DirectedModel DirectedProofs DirectedIter DirectedUsers DirectedSpec DirectedRefine DirectedObs Equality
  UndirectedModel MultiModel WeightedModel MultiSpec Totals.
Local Open Scope Z_scope.
Local Arguments Z.of_nat : simpl never.

Lemma TInv_tot g t t' : TInv (mk g t) -> t = t' -> TInv (mk g t').
Proof. intros H <-; exact H. Qed.
Lemma remove_first_nodup d (l : list nat) : NoDup l -> remove_first d l = remove_all d l.
Proof. unfold remove_all. induction 1 as [|x t Hx ND IH]; simpl; auto. destruct (Nat.eqb_spec x d) as [->|Ne]; simpl.
  - symmetry. apply (remove_all_notin d t Hx).
  - f_equal; auto. Qed.
Lemma upd_const {A} i (f : A -> A) (a : list A) d : upd i f a = upd i (fun _ => f (nth i a d)) a.
Proof. revert i; induction a as [|x t IH]; intros [|i]; simpl; auto. f_equal; apply IH. Qed.
Lemma msum_perm (m1 m2 : @lmap Z) : Permutation m1 m2 -> msum m1 = msum m2.
Proof. induction 1; simpl; auto; lia. Qed.
Lemma NoDup_pairs (m : @lmap Z) : NoDup (map fst m) -> NoDup m.
Proof. induction m as [|[k v] m IH]; simpl; intros H; [constructor|]. inversion H; subst. constructor; auto.
  intros X. apply H2. apply in_map_iff. exists (k, v); auto. Qed.
Lemma msum_ext (m1 m2 : @lmap Z) : NoDup (map fst m1) -> NoDup (map fst m2) -> (forall e, lfind e m1 = lfind e m2) -> msum m1 = msum m2.
Proof. intros K1 K2 E. apply msum_perm, NoDup_Permutation; auto using NoDup_pairs.
  intros [e v]. rewrite <- (lfind_In_nodup Z.eqb m1 e v K1), <- (lfind_In_nodup Z.eqb m2 e v K2), E. tauto. Qed.

Section DMRefine.
Notation V := repaired.
Notation sgraph := (@sgraph Z).
Implicit Types (m : mgraph) (a : sgraph).
Notation Rf := (@Rf Z true).

Record RfM m a : Prop := { rm_t : TInv m; rm_rf : Rf (mg m) a; rm_pos : forall e v, lfind e (se a) = Some v -> 0 < v }.

Lemma rf_lget m a i j : Rf (mg m) a -> lget (i, j) (labels (mg m)) = mval false a i j.
Proof. intros R. unfold lget, mval, key. rewrite (r_lab _ _ _ R eq_refl). reflexivity. Qed.
Lemma rf_in m a i j : Rf (mg m) a -> (In j (nb (mg m) i) <-> mhas false a i j = true).
Proof. intros R. apply (r_mem _ _ _ R). Qed.
Lemma rf_of (g : @dgraph Z) a : Inv true g -> size g = sn a -> (forall e, lfind e (labels g) = lfind e (se a)) -> Rf g a.
Proof. intros I S E. constructor; auto. intros i j. pose proof (i_lab _ _ I) as IL. cbn in IL. rewrite <- IL, E. unfold smem.
  destruct (lfind (i, j) (se a)); split; congruence. Qed.

Definition valid_mop a (o : mop) : bool :=
  let ok i := Nat.ltb i (sn a) in
  match o with
  | MAdd s d f | MAddRecip s d f => ok s && ok d && negb f
  | MAddMulti s d k f | MAddRecipMulti s d k f => ok s && ok d && negb f && Z.leb 0 k
  | MRemove s d => ok s && ok d | MRemoveMulti s d k | MSet s d k => ok s && ok d && Z.leb 0 k
  | MRemoveVertex v => ok v | MResize n => Nat.leb (sn a) n | MSelfLoops | MClear | MRemoveDuplicates => true end.
Fixpoint valid_mhistory a (ops : list mop) : bool :=
  match ops with [] => true | o :: t => valid_mop a o && valid_mhistory (mspec_step false a o) t end.
Fixpoint mspec_run a (ops : list mop) : sgraph := match ops with [] => a | o :: t => mspec_run (mspec_step false a o) t end.
Fixpoint dm_run m (ops : list mop) : mgraph * res :=
  match ops with [] => (m, Done) | o :: t => match dm_step V m o with (m1, Done) => dm_run m1 t | r => r end end.

(* addMultiedge (force off) *)
Lemma add_multi_refines m a s d k : RfM m a -> (s < sn a)%nat -> (d < sn a)%nat -> 0 <= k ->
  exists m', dm_add_multiedge V m s d k false = (m', Done) /\ RfM m' (ms_add false a s d k).
Proof.
  intros [TI R P] Hs Hd Hk. pose proof TI as [I K T]. rewrite <- (r_size _ _ _ R) in Hs, Hd.
  unfold dm_add_multiedge, ms_add. rewrite (in2_true m s d Hs Hd). destruct (Z.eqb_spec k 0) as [->|Nk]; [exists m; split; auto; constructor; auto|].
  rewrite (has_edge_val true (mg m) s d I Hs Hd). destruct (mem d (nb (mg m) s)) eqn:M; cbn [orb negb].
  - apply mem_In in M.
    pose proof (relabel_spec m s d (lget (s, d) (labels (mg m)) + k) TI M) as T'. eexists; split; [reflexivity|].
    constructor.
    + eapply TInv_tot; [exact T'|lia].
    + apply rf_of; cbn [mg mk set_adj_lab size labels with_se sn se].
      * exact (set_label_inv true (mg m) s d _ I M).
      * apply (r_size _ _ _ R).
      * intros e. rewrite !lfind_lset, (rf_lget m a s d R), (r_lab _ _ _ R eq_refl). reflexivity.
    + intros e v. cbn [with_se se]. rewrite lfind_lset. unfold key. destruct (edge_eqb (s, d) e); [|apply P].
      intros X; injection X as <-. unfold mval, lget, key. apply (rf_in m a s d R) in M. unfold mhas, smem, key in M.
      destruct (lfind (s, d) (se a)) as [c|] eqn:F; [|discriminate]. pose proof (P _ _ F). lia.
  - apply mem_false in M. destruct (insert_spec m s d k true TI Hs Hd M) as [g' [E [EG [_ T']]]]. rewrite E.
    eexists; split; [reflexivity|]. pose proof (add_edge_spec true (mg m) s d k I Hs Hd) as AS.
    destruct (add_edge true V (mg m) s d k false) as [g2 r2]. cbn [fst] in EG. subst g'. destruct AS as [_ [I' [S' [_ L']]]].
    constructor; [exact T'| |].
    + apply rf_of; cbn [mg mk with_se sn se]; auto; [rewrite S'; apply (r_size _ _ _ R)|].
      intros e. rewrite L'. cbn [andb]. rewrite (proj2 (mem_false _ _) M). cbn [negb]. rewrite andb_true_r, lfind_lset. unfold key.
      destruct (edge_eqb (s, d) e); [|apply (r_lab _ _ _ R eq_refl)]. unfold mval, lget, key.
      assert (lfind (s, d) (se a) = None) as ->; [|f_equal; lia]. destruct (lfind (s, d) (se a)) eqn:F; auto. exfalso. apply M, (r_mem _ _ _ R). unfold smem. rewrite F; auto.
    + intros e v. cbn [with_se se]. rewrite lfind_lset. unfold key. destruct (edge_eqb (s, d) e); [|apply P].
      intros X; injection X as <-. unfold mval, lget, key.
      assert (lfind (s, d) (se a) = None) as ->; [|lia]. destruct (lfind (s, d) (se a)) eqn:F; auto. exfalso. apply M, (r_mem _ _ _ R). unfold smem. rewrite F; auto.
Qed.

(* removal-type calls: the graph part is a labelled-graph step, the spec step is the labelled spec step *)
Lemma removal_refines m a m' (oD : @dop Z) : RfM m a -> valid_op a oD = true -> TInv m' -> mg m' = fst (step true V (mg m) oD) ->
  (forall e v, lfind e (se (spec_step a oD)) = Some v -> lfind e (se a) = Some v) -> RfM m' (spec_step a oD).
Proof.
  intros [TI R P] Vd T' PR SUB. pose proof (step_refines true (mg m) a oD R Vd) as SR. destruct (step true V (mg m) oD) as [g' r]. cbn [fst] in PR.
  destruct SR as [_ R']. constructor; auto; [rewrite PR; exact R'|]. intros e v F. apply (P e v), SUB, F. Qed.
Lemma sub_filter a (p : edge -> bool) e (v : Z) : lfind e (se (s_filter a p)) = Some v -> lfind e (se a) = Some v.
Proof. rewrite lfind_s_filter. destruct (p e); [auto|discriminate]. Qed.
Lemma sub_remove a s d e (v : Z) : lfind e (se (s_remove a s d)) = Some v -> lfind e (se a) = Some v.
Proof. unfold s_remove; cbn [se]. rewrite lfind_lerase. destruct (edge_eqb (s, d) e); [discriminate|auto]. Qed.

Lemma remove_multi_refines m a s d k : RfM m a -> (s < sn a)%nat -> (d < sn a)%nat -> 0 <= k ->
  exists m', dm_remove_multiedge m s d k = (m', Done) /\ RfM m' (ms_remove false a s d k).
Proof.
  intros RM Hs Hd Hk. pose proof RM as [TI R P]. pose proof TI as [I K T]. pose proof Hs as Hs'. pose proof Hd as Hd'. rewrite <- (r_size _ _ _ R) in Hs, Hd.
  unfold dm_remove_multiedge, ms_remove. rewrite (in2_true m s d Hs Hd), (i_len _ _ I), (proj2 (Nat.ltb_lt _ _) Hs).
  change (nbl (mg m) s) with (nb (mg m) s). destruct (mem d (nb (mg m) s)) eqn:M.
  - pose proof M as Min. apply mem_In in Min. rewrite (proj1 (rf_in m a s d R) Min), (rf_lget m a s d R).
    destruct (Z.ltb_spec k (mval false a s d)) as [Lt|Ge].
    + pose proof (relabel_spec m s d (mval false a s d - k) TI Min) as T'. eexists; split; [reflexivity|]. constructor.
      * eapply TInv_tot; [exact T'|rewrite (rf_lget m a s d R); lia].
      * apply rf_of; cbn [mg mk set_adj_lab size labels with_se sn se]; [exact (set_label_inv true (mg m) s d _ I Min)|apply (r_size _ _ _ R)|].
        intros e. rewrite !lfind_lset, (r_lab _ _ _ R eq_refl). reflexivity.
      * intros e v. cbn [with_se se]. rewrite lfind_lset. unfold key. destruct (edge_eqb (s, d) e); [|apply P]. intros X; injection X as <-. lia.
    + (* the last copies go: same state as removeAllEdges *)
      destruct (remove_all_spec m s d TI Hs Hd) as [m1 [E1 [P1 [T1 TT]]]].
      assert (EQ : mk (set_adj_lab (mg m) (upd s (remove_first d) (adj (mg m))) (enum (mg m) - 1) (lerase (s, d) (labels (mg m)))) (mtot m - mval false a s d) = m1).
      { unfold dm_remove_all in E1. rewrite (in2_true m s d Hs Hd), (i_len _ _ I), (proj2 (Nat.ltb_lt _ _) Hs) in E1. injection E1 as <-.
        change (nbl (mg m) s) with (nb (mg m) s). rewrite (remove_all_length_nodup d (nb (mg m) s) (i_nodup _ _ I s)), M.
        f_equal; [|rewrite (rf_lget m a s d R); lia]. unfold set_adj_lab. f_equal; [|lia].
        rewrite (upd_const s (remove_first d) (adj (mg m)) []). fold (nb (mg m) s). rewrite (remove_first_nodup d _ (i_nodup _ _ I s)). reflexivity. }
      rewrite EQ. exists m1; split; auto.
      assert (VD : valid_op a (RemoveEdge s d) = true) by (cbn [valid_op]; rewrite (proj2 (Nat.ltb_lt _ _) Hs'), (proj2 (Nat.ltb_lt _ _) Hd'); auto).
      apply (removal_refines m a m1 (RemoveEdge s d) RM VD T1 P1). intros e v; apply sub_remove.
  - apply mem_false in M. assert (mhas false a s d = false) as ->.
    { destruct (mhas false a s d) eqn:X; auto. exfalso. apply M, (rf_in m a s d R); auto. }
    exists m; auto.
Qed.

Lemma set_multi_refines m a s d k : RfM m a -> (s < sn a)%nat -> (d < sn a)%nat -> 0 <= k ->
  exists m', dm_set_multiplicity V m s d k = (m', Done) /\ RfM m' (ms_set false a s d k).
Proof.
  intros RM Hs Hd Hk. pose proof RM as [TI R P]. pose proof TI as [I K T]. pose proof Hs as Hs'. pose proof Hd as Hd'. rewrite <- (r_size _ _ _ R) in Hs, Hd.
  unfold dm_set_multiplicity, ms_set. rewrite (in2_true m s d Hs Hd). destruct (Z.eqb_spec k 0) as [->|Nk].
  - destruct (remove_all_spec m s d TI Hs Hd) as [m1 [E1 [P1 [T1 _]]]]. exists m1; split; auto.
    assert (VD : valid_op a (RemoveEdge s d) = true) by (cbn [valid_op]; rewrite (proj2 (Nat.ltb_lt _ _) Hs'), (proj2 (Nat.ltb_lt _ _) Hd'); auto).
    apply (removal_refines m a m1 (RemoveEdge s d) RM VD T1 P1). intros e v; apply sub_remove.
  - rewrite (has_edge_val true (mg m) s d I Hs Hd). destruct (mem d (nb (mg m) s)) eqn:M.
    + apply mem_In in M. pose proof (relabel_spec m s d k TI M) as T'. eexists; split; [reflexivity|]. constructor; [exact T'| |].
      * apply rf_of; cbn [mg mk set_adj_lab size labels with_se sn se]; [exact (set_label_inv true (mg m) s d _ I M)|apply (r_size _ _ _ R)|].
        intros e. rewrite !lfind_lset, (r_lab _ _ _ R eq_refl). reflexivity.
      * intros e v. cbn [with_se se]. rewrite lfind_lset. unfold key. destruct (edge_eqb (s, d) e); [|apply P]. intros X; injection X as <-. lia.
    + apply mem_false in M. unfold dm_add_multiedge. rewrite (in2_true m s d Hs Hd), (proj2 (Z.eqb_neq _ _) Nk), (has_edge_val true (mg m) s d I Hs Hd). cbn [orb].
      destruct (insert_spec m s d k true TI Hs Hd M) as [g' [E [EG [_ T']]]]. rewrite E. eexists; split; [reflexivity|].
      pose proof (add_edge_spec true (mg m) s d k I Hs Hd) as AS.
      destruct (add_edge true V (mg m) s d k false) as [g2 r2]. cbn [fst] in EG. subst g'. destruct AS as [_ [I' [S' [_ L']]]].
      constructor; [exact T'| |].
      * apply rf_of; cbn [mg mk with_se sn se]; auto; [rewrite S'; apply (r_size _ _ _ R)|].
        intros e. rewrite L'. cbn [andb]. rewrite (proj2 (mem_false _ _) M). cbn [negb]. rewrite andb_true_r, lfind_lset. unfold key.
        destruct (edge_eqb (s, d) e); [reflexivity|apply (r_lab _ _ _ R eq_refl)].
      * intros e v. cbn [with_se se]. rewrite lfind_lset. unfold key. destruct (edge_eqb (s, d) e); [|apply P]. intros X; injection X as <-. lia.
Qed.

Theorem dm_step_refines m a o : RfM m a -> valid_mop a o = true -> exists m', dm_step V m o = (m', Done) /\ RfM m' (mspec_step false a o).
Proof.
  intros RM Vd. pose proof RM as [TI R P]. pose proof TI as [I K T].
  destruct o as [s d f|s d f|s d k f|s d k f|s d|s d k|s d k| |v| |n|]; cbn [valid_mop dm_step mspec_step] in Vd |- *;
    repeat (match type of Vd with (_ && _ = true) => apply andb_prop in Vd as [Vd ?] end);
    repeat (match goal with H : Nat.ltb _ _ = true |- _ => apply Nat.ltb_lt in H | H : Z.leb _ _ = true |- _ => apply Z.leb_le in H | H : negb ?f = true |- _ => destruct f; [discriminate|clear H] end).
  - unfold dm_add_edge. apply add_multi_refines; auto; lia.
  - unfold dm_add_edge. destruct (add_multi_refines m a s d 1 RM) as [m1 [E1 R1]]; auto; try lia. rewrite E1.
    apply add_multi_refines; auto; try lia; unfold ms_add; cbn [Z.eqb with_se sn]; auto.
  - apply add_multi_refines; auto.
  - unfold dm_add_reciprocal_multiedge. destruct (add_multi_refines m a s d k RM) as [m1 [E1 R1]]; auto. rewrite E1.
    apply add_multi_refines; auto; unfold ms_add; destruct (Z.eqb k 0); cbn [with_se sn]; auto.
  - unfold dm_remove_edge. apply remove_multi_refines; auto; lia.
  - apply remove_multi_refines; auto.
  - apply set_multi_refines; auto.
  - (* removeSelfLoops *) unfold dm_remove_self_loops.
    destruct (remove_all_loop (fun i => i) (seq 0 (size (mg m))) m TI) as [m' [E' [P' T']]]. { intros i Hi; apply in_seq in Hi; lia. }
    exists m'; split; auto. apply (removal_refines m a m' RemoveSelfLoops RM eq_refl T' P'). intros e v; apply sub_filter.
  - (* removeVertexFromEdgeList *) rewrite <- (r_size _ _ _ R) in Vd. destruct (remove_vertex_spec_t m v TI Vd) as [m' [E' [P' T']]].
    exists m'; split; auto. assert (VD : valid_op a (RemoveVertex v) = true) by (cbn; apply Nat.ltb_lt; rewrite <- (r_size _ _ _ R); auto).
    apply (removal_refines m a m' (RemoveVertex v) RM VD T' P'). intros e w; apply sub_filter.
  - (* clearEdges *) destruct (clear_spec_t m TI) as [m' [E' [P' [T' _]]]]. exists m'; split; auto.
    apply (removal_refines m a m' ClearEdges RM eq_refl T' P'). intros e w; cbn; discriminate.
  - (* resize *) apply Nat.leb_le in Vd. pose proof Vd as Vd'. rewrite <- (r_size _ _ _ R) in Vd. destruct (resize_spec_t m n TI Vd) as [m' [E' [P' [T' _]]]]. exists m'; split; auto.
    assert (VD : valid_op a (Resize n) = true) by (cbn; apply Nat.leb_le; auto). apply (removal_refines m a m' (Resize n) RM VD T' P'). intros e w; cbn; auto.
  - (* removeDuplicateEdges *) rewrite (dedup_noop_t m TI). exists m; auto.
Qed.
Lemma dm_init_refines n : RfM (dm_init n) (s_init n).
Proof. constructor; [|apply init_refines|intros e v; cbn; discriminate].
  pose proof (init_refines (L := Z) true n) as [I _ _ _]. constructor; [exact I|unfold KeysOK; cbn; constructor|reflexivity]. Qed.
Theorem dm_run_refines ops : forall m a, RfM m a -> valid_mhistory a ops = true -> exists m', dm_run m ops = (m', Done) /\ RfM m' (mspec_run a ops).
Proof. induction ops as [|o t IH]; intros m a RM Vd; cbn [dm_run mspec_run valid_mhistory] in *; [exists m; auto|].
  apply andb_prop in Vd as [V1 V2]. destruct (dm_step_refines m a o RM V1) as [m1 [E1 R1]]. rewrite E1. apply IH; auto. Qed.

(* ---- what the observers report ---- *)
Lemma spec_keys_ok m a : RfM m a -> exists l, Permutation l (se a) /\ True.
Proof. intros _. exists (se a); auto. Qed.
Definition SKeys a : Prop := NoDup (map fst (se a)).
Lemma SKeys_step a o : SKeys a -> SKeys (mspec_step false a o).
Proof.
  unfold SKeys. intros H.
  assert (ADD : forall a i j k, NoDup (map fst (se a)) -> NoDup (map fst (se (ms_add false a i j k)))).
  { intros b i j k Hb. unfold ms_add. destruct (Z.eqb k 0); auto. cbn [with_se se]. apply NoDup_keys_lset; auto. }
  assert (FIL : forall a p, NoDup (map fst (se a)) -> NoDup (map fst (se (@s_filter Z a p)))).
  { intros b p Hb. unfold s_filter; cbn [se]. induction (se b) as [|[k v] l IH]; simpl; [constructor|]. inversion Hb; subst.
    destruct (p k); simpl; auto. constructor; auto. intros X. apply H2. apply in_map_iff in X as [[k' v'] [E X]]. simpl in E; subst.
    apply filter_In in X as [X _]. apply in_map_iff. exists (k, v'); auto. }
  destruct o as [s d f|s d f|s d k f|s d k f|s d|s d k|s d k| |v| |n|]; cbn [mspec_step]; auto.
  - unfold ms_remove. destruct (mhas false a s d); auto. destruct (Z.ltb 1 (mval false a s d)); cbn [with_se se]; [apply NoDup_keys_lset|apply NoDup_keys_lerase]; auto.
  - unfold ms_remove. destruct (mhas false a s d); auto. destruct (Z.ltb k (mval false a s d)); cbn [with_se se]; [apply NoDup_keys_lset|apply NoDup_keys_lerase]; auto.
  - unfold ms_set. destruct (Z.eqb k 0); cbn [with_se se]; [apply NoDup_keys_lerase|apply NoDup_keys_lset]; auto.
  - apply FIL; auto.
  - apply FIL; auto.
  - cbn; constructor.
Qed.
Lemma SKeys_run ops : forall a, SKeys a -> SKeys (mspec_run a ops).
Proof. induction ops as [|o t IH]; intros a H; cbn [mspec_run]; auto. apply IH, SKeys_step; auto. Qed.

Theorem C04_directed_consistent (n : nat) (ops : list mop) : valid_mhistory (s_init n) ops = true ->
  exists m, dm_run (dm_init n) ops = (m, Done) /\
    let a := mspec_run (s_init n) ops in
    size (mg m) = sn a /\
    (forall i j, (i < sn a)%nat -> (j < sn a)%nat ->
       dm_get_multiplicity m i j = Val (mval false a i j) /\ has_edge (mg m) i j = Val (Z.ltb 0 (mval false a i j)) /\ 0 <= mval false a i j) /\
    enum (mg m) = Z.of_nat (length (se a)) /\
    mtot m = ssum a /\
    (forall e v, lfind e (se a) = Some v -> 0 < v).
Proof.
  intros Vd. destruct (dm_run_refines ops (dm_init n) (s_init n) (dm_init_refines n) Vd) as [m [E RM]]. exists m; split; auto.
  cbv zeta. set (a := mspec_run (s_init n) ops) in *. pose proof RM as [TI R P]. pose proof TI as [I K T].
  assert (SK : SKeys a) by (apply SKeys_run; unfold SKeys; cbn; constructor).
  split; [apply (r_size _ _ _ R)|]. split; [|split; [|split; [|exact P]]].
  - intros i j Hi Hj. pose proof Hi as Hi'. pose proof Hj as Hj'. rewrite <- (r_size _ _ _ R) in Hi, Hj.
    unfold dm_get_multiplicity. rewrite (in2_true m i j Hi Hj), (rf_lget m a i j R), (has_edge_val true (mg m) i j I Hi Hj).
    split; auto. unfold mval, lget, key. destruct (lfind (i, j) (se a)) as [v|] eqn:F.
    + pose proof (P _ _ F). split; [|lia]. f_equal. rewrite (proj2 (Z.ltb_lt _ _)) by lia. apply mem_In, (r_mem _ _ _ R). unfold smem. rewrite F; auto.
    + split; [|lia]. f_equal. cbn. apply mem_false. rewrite (r_mem _ _ _ R). unfold smem. rewrite F. discriminate.
  - rewrite (i_enum _ _ I), <- (length_flatten true (mg m) I), <- (map_length fst (se a)). f_equal.
    apply Permutation_length, NoDup_Permutation; auto; [apply (NoDup_flatten true (mg m) I)|].
    intros [i j]. rewrite (In_flatten true (mg m) i j I), (r_mem _ _ _ R). unfold smem. rewrite <- lfind_some_in_keys.
    destruct (lfind (i, j) (se a)); split; congruence.
  - rewrite T. apply msum_ext; auto. intros e. apply (r_lab _ _ _ R eq_refl).
Qed.
End DMRefine.
