(* C07 — Invalid calls are rejected with the documented exception and change nothing.  Statements only; proofs in Rejects.v.
   Graph classes here; subgraph extraction and the path searches are added by Properties_C07 companions once their models exist. *)
From BG Require Import Base DirectedModel DirectedProofs UndirectedModel UndirectedProofs MultiModel WeightedModel Rejects.

(* Every mutator of every class that receives a vertex index >= getSize() - in any argument position, with force on or off - ends with
   std::out_of_range and returns exactly the state it was given (no hypothesis on the state: it holds in EVERY state, reachable or not). *)
Theorem C07_out_of_range_rejected :
  (forall (L : Type) hs (g : @dgraph L) o, d_oor g o = true -> step hs repaired g o = (g, Thrown OutOfRange)) /\
  (forall (L : Type) hs (g : @dgraph L) o, u_oor g o = true -> ustep hs repaired g o = (g, Thrown OutOfRange)) /\
  (forall m o, m_oor m o = true -> dm_step repaired m o = (m, Thrown OutOfRange)) /\
  (forall m o, m_oor m o = true -> um_step repaired true m o = (m, Thrown OutOfRange)) /\
  (forall m o, w_oor m o = true -> dw_step repaired m o = (m, Thrown OutOfRange)) /\
  (forall m o, w_oor m o = true -> uw_step repaired true m o = (m, Thrown OutOfRange)).
Proof.
  split; [intros; apply d_rejects_out_of_range; assumption|].
  split; [intros; apply u_rejects_out_of_range; assumption|].
  split; [exact dm_rejects_out_of_range|]. split; [exact um_rejects_out_of_range|]. split; [exact dw_rejects_out_of_range|exact uw_rejects_out_of_range].
Qed.
Print Assumptions C07_out_of_range_rejected.

(* resize to fewer vertices, setEdgeLabel (unforced) and getEdgeLabel on a missing edge: std::invalid_argument, state unchanged *)
Theorem C07_invalid_argument_rejected : forall (L : Type) (ldef : L) hs (g : @dgraph L),
  (forall n, n < size g -> step hs repaired g (Resize n) = (g, Thrown InvalidArgument) /\ ustep hs repaired g (UResize n) = (g, Thrown InvalidArgument)) /\
  (forall s d l, Inv hs g -> s < size g -> d < size g -> ~ In d (nb g s) -> step hs repaired g (SetLabel s d l false) = (g, Thrown InvalidArgument)) /\
  (forall s d l, InvU hs g -> s < size g -> d < size g -> ~ In d (nb g s) -> ustep hs repaired g (USetLabel s d l false) = (g, Thrown InvalidArgument)) /\
  (hs = true -> forall s d, Inv hs g -> s < size g -> d < size g -> ~ In d (nb g s) -> get_label ldef hs g s d true = Raise InvalidArgument).
Proof.
  intros L ldef hs g. destruct (d_rejects_invalid_argument ldef hs g) as [A [B C]]. destruct (u_rejects_invalid_argument hs g) as [A' B'].
  split; [intros n H; split; [apply A|apply A']; assumption|]. split; [exact B|]. split; [exact B'|exact C].
Qed.
Print Assumptions C07_invalid_argument_rejected.

(* observers asked about an out-of-range vertex throw std::out_of_range (they return no state, so nothing can change) *)
Theorem C07_observers_reject : forall (L : Type) (ldef : L) hs (g : @dgraph L) s d thr l,
  (bad g s || bad g d = true ->
     has_edge g s d = Raise OutOfRange /\ get_label ldef hs g s d thr = Raise OutOfRange /\ has_edge_l (fun _ _ => true) ldef hs g s d l = Raise OutOfRange) /\
  (bad g s = true -> out_neighbours g s = Raise OutOfRange /\ out_degree g s = Raise OutOfRange /\ in_degree repaired g s = Raise OutOfRange).
Proof. intros. split; [apply d_observers_reject|apply d_observers_reject1]. Qed.
Print Assumptions C07_observers_reject.
Theorem C07_multi_weighted_observers_reject : forall m s d thr, m_bad m s || m_bad m d = true ->
  dm_get_multiplicity m s d = Raise OutOfRange /\ um_get_multiplicity m s d = Raise OutOfRange /\
  dw_get_weight m s d thr = Raise OutOfRange /\ uw_get_weight m s d thr = Raise OutOfRange.
Proof. intros m s d thr H. destruct (m_multiplicity_rejects m s d H), (w_weight_rejects m s d thr H). auto. Qed.
Print Assumptions C07_multi_weighted_observers_reject.

(* the pinned commit indexed adjacencyList[source] unchecked when force = true: the model of that revision is undefined there *)
Example C07_refuted_on_pinned : snd (step false pinned (@init nat 3) (AddEdge 5 0 0 true)) = UBk IndexOOB.
Proof. vm_compute. reflexivity. Qed.
(* non-vacuity *)
Example C07_example : d_oor (@init nat 3) (AddEdge 3 0 0 true) = true /\ m_oor (dm_init 2) (MSet 0 7 1%Z) = true.
Proof. vm_compute. auto. Qed.

(* ---- path searches and subgraph extraction (the graph argument is const: nothing can change) ---- *)
From BG Require Import PathsModel TopologyModel.
Theorem C07_path_searches_reject : forall (g : adjl) (wg : Dj.wadj) (s t : nat) fuel once cs,
  (length g <= s -> bfs_single true g s = Raise OutOfRange /\ bfs_all true once fuel g s = Raise OutOfRange /\
                    geodesics_from_vertex true g s = Raise OutOfRange /\ all_geodesics_from_vertex true once fuel g s = Raise OutOfRange) /\
  (length g <= s \/ length g <= t -> find_geodesics true g s t = Raise OutOfRange /\ find_all_geodesics true once fuel g s t = Raise OutOfRange) /\
  (length wg <= s -> dijkstra true wg s cs = Raise OutOfRange).
Proof.
  intros g wg s t fuel once cs.
  assert (B : forall n v, n <= v -> Nat.ltb v n = false) by (intros; apply Nat.ltb_ge; auto).
  split; [|split].
  - intros H. unfold geodesics_from_vertex, all_geodesics_from_vertex, bfs_single, bfs_all, checked. cbn [forallb]. rewrite (B _ _ H). cbn. auto.
  - intros H. unfold find_geodesics, find_all_geodesics, checked. cbn [forallb]. destruct H as [H|H]; rewrite (B _ _ H); cbn; rewrite ?andb_false_r; auto.
  - intros H. unfold dijkstra, checked. cbn [forallb]. rewrite (B _ _ H). reflexivity.
Qed.
Print Assumptions C07_path_searches_reject.
Theorem C07_subgraph_rejects : forall (L : Type) (ldef : L) hs und (g : @dgraph L) (v : nat), size g <= v ->
  subgraph ldef hs repaired und g [v] = Raise OutOfRange /\ subgraph_remap ldef hs repaired und g [v] = Raise OutOfRange.
Proof. intros L ldef hs und g v H. unfold subgraph, subgraph_remap, sub_loop, in_range. cbn [fold_left obind].
  assert (Nat.ltb v (size g) = false) as -> by (apply Nat.ltb_ge; exact H). auto. Qed.
Print Assumptions C07_subgraph_rejects.
(* the pinned commit indexed the distance vector with an unchecked source *)
Example C07_refuted_on_pinned_paths : bfs_single false [[1]; []] 7 = Undef IndexOOB /\ find_geodesics false [[1]; []] 7 7 = Undef IndexOOB.
Proof. vm_compute. auto. Qed.

(* ---- histories that contain forced calls: whether a call is accepted or rejected, and with which exception, is still determined
   (CodesSpec.v keeps the number of vertices and the presence of every pair through forced duplicates and forced labels); the
   model returns exactly that code at every step, for every history, and never reaches undefined behaviour ---- *)
From BG Require Import Instances CodesSpec CodesProofs.
Theorem C07_codes_after_forced_calls_directed : forall hs n ops, codes_agree (d_trace hs repaired n ops) (d_codes n ops).
Proof. exact CodesProofs.d_codes_sound. Qed.
Print Assumptions C07_codes_after_forced_calls_directed.
Theorem C07_codes_after_forced_calls_undirected : forall hs n ops, codes_agree (u_trace_z hs repaired n ops) (u_codes n ops).
Proof. exact CodesProofs.u_codes_sound. Qed.
Print Assumptions C07_codes_after_forced_calls_undirected.
Theorem C07_every_call_returns_directed : forall hs n ops, length (d_trace hs repaired n ops) = length ops.
Proof. exact CodesProofs.d_trace_full. Qed.
Print Assumptions C07_every_call_returns_directed.
Theorem C07_every_call_returns_undirected : forall hs n ops, length (u_trace_z hs repaired n ops) = length ops.
Proof. exact CodesProofs.u_trace_full. Qed.
Print Assumptions C07_every_call_returns_undirected.
(* non-vacuity: the seeded change C07-4 in one line - a label forced onto a missing pair, then an unforced setEdgeLabel on it must be rejected *)
Example C07_codes_example : u_codes 3 [inl (USetLabel 1 2 3%Z true); inl (USetLabel 1 2 3%Z false)] = [Some [[0%Z]; codes_only]; Some [[zexn InvalidArgument]; codes_only]].
Proof. vm_compute. reflexivity. Qed.

(* the two path-reconstruction entry points called directly (they take vertex indices themselves): out of range in either position,
   equal or not, is rejected before the predecessor table is looked at *)
From BG Require Import PathsCases.
Theorem C07_path_reconstruction_rejects : forall (g : adjl) (s t fuel : nat) once, length g <= s \/ length g <= t ->
  direct_path true g s t = Raise OutOfRange /\ direct_paths true once fuel g s t = Raise OutOfRange.
Proof.
  intros g s t fuel once H.
  assert (B : forall n v, n <= v -> Nat.ltb v n = false) by (intros; apply Nat.ltb_ge; auto).
  unfold direct_path, direct_paths, checked. cbn [forallb]. destruct H as [H|H]; rewrite (B _ _ H); cbn; rewrite ?andb_false_r; auto.
Qed.
Print Assumptions C07_path_reconstruction_rejects.
(* on valid arguments the direct calls return what findGeodesics / findAllGeodesics return whenever the destination is reached *)
Example C07_direct_path_example : direct_path true [[1]; [2]; []] 0 2 = Val [0; 1; 2] /\ direct_path true [[1]; [2]; []] 3 3 = Raise OutOfRange /\ direct_path true [[1]; [2]; []] 2 0 = Raise RuntimeError.
Proof. vm_compute. auto. Qed.
