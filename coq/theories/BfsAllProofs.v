(* C11 / C19: the all-predecessor breadth-first search (repaired variant, [once = true]) simulates the single-predecessor search of Bfs.v
   visit by visit (same queue, same distances, same number of scans); its predecessor lists are duplicate-free and contain exactly the
   in-neighbours one hop closer to the source; the brute-force oracle [hopdist] is the minimum walk length. *)
From Coq Require Import List Arith Lia Bool.
From BG Require Import Base Bfs PathsModel PathsProofs.
Import ListNotations.
Local Open Scope nat_scope.

(* ---------- small list facts ---------- *)
Lemma set_nth_same {A} i (x : A) l d : nth i l d = x -> Bfs.set_nth i x l = l.
Proof. revert i; induction l as [|h t IH]; intros [|i] H; simpl in *; auto; [subst; auto|f_equal; auto]. Qed.
Lemma ast_eta a : {| a_dist := a_dist a; a_preds := a_preds a; a_proc := a_proc a; a_queue := a_queue a |} = a.
Proof. destruct a; reflexivity. Qed.

(* ---------- the three behaviours of one neighbour visit ---------- *)
Lemma avisit_proc u du a v : nth v (a_proc a) true = true -> avisit true u du a v = a.
Proof. unfold avisit; intros ->; reflexivity. Qed.
Lemma avisit_new u du a v : nth v (a_proc a) true = false -> nth v (a_dist a) None = None -> nth v (a_preds a) [] = [] ->
  avisit true u du a v =
  {| a_dist := Bfs.set_nth v (Some (S du)) (a_dist a); a_preds := Bfs.set_nth v [u] (a_preds a); a_proc := a_proc a; a_queue := a_queue a ++ [v] |}.
Proof. unfold avisit; intros -> -> ->. reflexivity. Qed.
Lemma avisit_old u du a v dv : nth v (a_proc a) true = false -> nth v (a_dist a) None = Some dv ->
  avisit true u du a v =
  if Nat.leb (S du) dv && negb (mem u (nth v (a_preds a) []))
  then {| a_dist := Bfs.set_nth v (Some (S du)) (a_dist a); a_preds := Bfs.set_nth v (nth v (a_preds a) [] ++ [u]) (a_preds a); a_proc := a_proc a; a_queue := a_queue a |}
  else a.
Proof. unfold avisit; intros -> ->. cbn [olt_le]. destruct (Nat.leb (S du) dv && negb (mem u (nth v (a_preds a) []))); [reflexivity|apply ast_eta]. Qed.

Section Sim.
Variables (g : adjl) (s : nat).
Hypothesis Hwf : Bfs.wf g.
Notation n := (length g).

Section Visit.
Variables (u du : nat).

(* relation between the two searches while the neighbours of [u] (at distance [du]) are being visited *)
Record K (a : ast) (b : Bfs.bst) : Prop := {
  k_d : a_dist a = Bfs.dist b;
  k_q : a_queue a = Bfs.queue b;
  k_sz : Bfs.sized n b;
  k_lp : length (a_preds a) = n;
  k_dd : forall v, Bfs.getb (Bfs.disc b) v = true <-> Bfs.getd (Bfs.dist b) v <> None;
  k_u : Bfs.getd (Bfs.dist b) u = Some du;
  k_bd : forall v dv, Bfs.getd (Bfs.dist b) v = Some dv -> dv <= S du;
  k_pc : forall v, v < n -> nth v (a_proc a) true = true -> exists dv, Bfs.getd (Bfs.dist b) v = Some dv /\ dv <= du;
  k_qg : forall x dx, In x (Bfs.queue b) -> Bfs.getd (Bfs.dist b) x = Some dx -> du <= dx;
  k_nd : forall v, NoDup (nth v (a_preds a) []);
  k_pr : forall v p, In p (nth v (a_preds a) []) ->
           exists dp, Bfs.getd (Bfs.dist b) p = Some dp /\ Bfs.getd (Bfs.dist b) v = Some (S dp) /\ In v (nth p g []) }.

Definition Mono (a : ast) (b : Bfs.bst) (a' : ast) (b' : Bfs.bst) : Prop :=
  a_proc a' = a_proc a /\
  (forall v p, In p (nth v (a_preds a) []) -> In p (nth v (a_preds a') [])) /\
  (forall v d, Bfs.getd (Bfs.dist b) v = Some d -> Bfs.getd (Bfs.dist b') v = Some d) /\
  (forall x, In x (Bfs.queue b) -> In x (Bfs.queue b')).

Lemma Mono_refl a b : Mono a b a b.
Proof. unfold Mono; auto. Qed.
Lemma Mono_trans a b a1 b1 a2 b2 : Mono a b a1 b1 -> Mono a1 b1 a2 b2 -> Mono a b a2 b2.
Proof. intros [A1 [A2 [A3 A4]]] [B1 [B2 [B3 B4]]]. unfold Mono. split; [congruence|]. split; [auto|]. split; auto. Qed.

Lemma K_undisc_nopreds a b v : K a b -> Bfs.getd (Bfs.dist b) v = None -> nth v (a_preds a) [] = [].
Proof. intros Ka D. destruct (nth v (a_preds a) []) as [|p l] eqn:E; auto.
  destruct (k_pr _ _ Ka v p) as [dp [_ [X _]]]; [rewrite E; simpl; auto|congruence]. Qed.

Lemma visit_K a b e : K a b -> In e (nth u g []) ->
  K (avisit true u du a e) (Bfs.visit1 u du b e) /\ Mono a b (avisit true u du a e) (Bfs.visit1 u du b e) /\
  (Bfs.getd (Bfs.dist (Bfs.visit1 u du b e)) e = Some (S du) -> In u (nth e (a_preds (avisit true u du a e)) [])).
Proof.
  intros Ka He. assert (Hen : e < n) by (eapply Hwf; eauto).
  pose proof (k_sz _ _ Ka) as [Ld [Lb Lp]]. pose proof (k_lp _ _ Ka) as Lps.
  destruct (nth e (a_proc a) true) eqn:P.
  - (* already expanded *)
    rewrite (avisit_proc _ _ _ _ P). destruct (k_pc _ _ Ka e Hen P) as [dv [Dv L]].
    assert (Db : Bfs.getb (Bfs.disc b) e = true) by (apply (k_dd _ _ Ka); congruence).
    unfold Bfs.visit1. rewrite Db. split; [exact Ka|]. split; [apply Mono_refl|]. intros H. rewrite Dv in H. injection H as H. lia.
  - destruct (Bfs.getd (Bfs.dist b) e) as [dv|] eqn:De.
    + (* discovered, still queued *)
      assert (Db : Bfs.getb (Bfs.disc b) e = true) by (apply (k_dd _ _ Ka); congruence).
      assert (Da : nth e (a_dist a) None = Some dv) by (rewrite (k_d _ _ Ka); exact De).
      unfold Bfs.visit1. rewrite Db. rewrite (avisit_old u du a e dv P Da).
      destruct (Nat.leb (S du) dv && negb (mem u (nth e (a_preds a) []))) eqn:C.
      * apply andb_prop in C as [C1 C2]. apply Nat.leb_le in C1. pose proof (k_bd _ _ Ka e dv De) as C3. assert (dv = S du) by lia. subst dv.
        apply negb_true_iff in C2. apply mem_false in C2.
        assert (Ed : Bfs.set_nth e (Some (S du)) (a_dist a) = a_dist a) by (apply (set_nth_same e _ _ None); exact Da).
        split; [|split].
        -- constructor; cbn [a_dist a_preds a_proc a_queue]; try (rewrite Ed); try apply Ka.
           ++ rewrite Bfs.set_nth_length. exact Lps.
           ++ intros v. destruct (Nat.eq_dec e v) as [<-|N].
              ** rewrite Bfs.nth_set_nth_eq by lia. apply NoDup_snoc; [apply (k_nd _ _ Ka)|exact C2].
              ** rewrite Bfs.nth_set_nth_neq by auto. apply (k_nd _ _ Ka).
           ++ intros v p. destruct (Nat.eq_dec e v) as [<-|N].
              ** rewrite Bfs.nth_set_nth_eq by lia. rewrite in_app_iff. intros [Hp|[<-|[]]]; [apply (k_pr _ _ Ka); auto|].
                 exists du. split; [apply (k_u _ _ Ka)|]. split; auto.
              ** rewrite Bfs.nth_set_nth_neq by auto. apply (k_pr _ _ Ka).
        -- unfold Mono; cbn [a_dist a_preds a_proc a_queue]. split; auto. split; auto.
           intros v p. destruct (Nat.eq_dec e v) as [<-|N]; [rewrite Bfs.nth_set_nth_eq by lia; rewrite in_app_iff; auto|rewrite Bfs.nth_set_nth_neq by auto; auto].
        -- intros _. cbn [a_preds]. rewrite Bfs.nth_set_nth_eq by lia. rewrite in_app_iff; simpl; auto.
      * split; [exact Ka|]. split; [apply Mono_refl|]. intros H. rewrite De in H. injection H as ->.
        rewrite Nat.leb_refl in C. cbn [andb] in C. apply negb_false_iff in C. apply mem_In; exact C.
    + (* first discovery *)
      assert (Db : Bfs.getb (Bfs.disc b) e = false).
      { destruct (Bfs.getb (Bfs.disc b) e) eqn:X; auto. apply (k_dd _ _ Ka) in X. congruence. }
      assert (Da : nth e (a_dist a) None = None) by (rewrite (k_d _ _ Ka); exact De).
      pose proof (K_undisc_nopreds a b e Ka De) as Pe.
      unfold Bfs.visit1. rewrite Db. rewrite (avisit_new u du a e P Da Pe).
      assert (Neu : e <> u) by (intros ->; rewrite (k_u _ _ Ka) in De; discriminate).
      assert (GD : forall v, Bfs.getd (Bfs.set_nth e (Some (S du)) (Bfs.dist b)) v = if Nat.eq_dec e v then Some (S du) else Bfs.getd (Bfs.dist b) v).
      { intros v. unfold Bfs.getd. destruct (Nat.eq_dec e v) as [<-|N]; [apply Bfs.nth_set_nth_eq; lia|apply Bfs.nth_set_nth_neq; auto]. }
      split; [|split].
      * constructor; cbn [a_dist a_preds a_proc a_queue Bfs.dist Bfs.pred Bfs.disc Bfs.queue].
        -- rewrite (k_d _ _ Ka); reflexivity.
        -- rewrite (k_q _ _ Ka); reflexivity.
        -- unfold Bfs.sized; cbn [Bfs.dist Bfs.pred Bfs.disc]. rewrite !Bfs.set_nth_length. auto.
        -- rewrite Bfs.set_nth_length. exact Lps.
        -- intros v. rewrite GD. unfold Bfs.getb. destruct (Nat.eq_dec e v) as [<-|N].
           ++ rewrite Bfs.nth_set_nth_eq by lia. split; [discriminate|auto].
           ++ rewrite Bfs.nth_set_nth_neq by auto. apply (k_dd _ _ Ka).
        -- rewrite GD. destruct (Nat.eq_dec e u); [contradiction|apply (k_u _ _ Ka)].
        -- intros v dv. rewrite GD. destruct (Nat.eq_dec e v); [intros H; injection H as <-; lia|apply (k_bd _ _ Ka)].
        -- intros v Hv Pv. rewrite GD. destruct (Nat.eq_dec e v) as [<-|N]; [congruence|apply (k_pc _ _ Ka); auto].
        -- intros x dx Hx. rewrite GD. destruct (Nat.eq_dec e x) as [<-|N]; [intros H; injection H as <-; lia|].
           apply in_app_or in Hx as [Hx|[Hx|[]]]; [apply (k_qg _ _ Ka); auto|contradiction].
        -- intros v. destruct (Nat.eq_dec e v) as [<-|N].
           ++ rewrite Bfs.nth_set_nth_eq by lia. constructor; [simpl; tauto|constructor].
           ++ rewrite Bfs.nth_set_nth_neq by auto. apply (k_nd _ _ Ka).
        -- intros v p. destruct (Nat.eq_dec e v) as [<-|N].
           ++ rewrite Bfs.nth_set_nth_eq by lia. intros [<-|[]]. exists du. rewrite !GD.
              destruct (Nat.eq_dec e u); [contradiction|]. destruct (Nat.eq_dec e e); [|congruence]. split; [apply (k_u _ _ Ka)|auto].
           ++ rewrite Bfs.nth_set_nth_neq by auto. intros Hp. destruct (k_pr _ _ Ka v p Hp) as [dp [A [B C]]].
              exists dp. rewrite !GD. destruct (Nat.eq_dec e p) as [<-|]; [congruence|]. destruct (Nat.eq_dec e v); [contradiction|]. auto.
      * unfold Mono; cbn [a_dist a_preds a_proc a_queue Bfs.dist Bfs.pred Bfs.disc Bfs.queue]. split; auto. split; [|split].
        -- intros v p. destruct (Nat.eq_dec e v) as [<-|N]; [rewrite Pe; intros []|rewrite Bfs.nth_set_nth_neq by auto; auto].
        -- intros v d. rewrite GD. destruct (Nat.eq_dec e v) as [<-|]; [congruence|auto].
        -- intros x Hx; apply in_or_app; auto.
      * intros _. cbn [a_preds]. rewrite Bfs.nth_set_nth_eq by lia. simpl; auto.
Qed.

Lemma fold_K es : forall a b, K a b -> (forall e, In e es -> In e (nth u g [])) ->
  K (fold_left (avisit true u du) es a) (fold_left (Bfs.visit1 u du) es b) /\
  Mono a b (fold_left (avisit true u du) es a) (fold_left (Bfs.visit1 u du) es b) /\
  (forall v, In v es -> Bfs.getd (Bfs.dist (fold_left (Bfs.visit1 u du) es b)) v = Some (S du) ->
             In u (nth v (a_preds (fold_left (avisit true u du) es a)) [])).
Proof.
  induction es as [|e es IH]; intros a b Ka R; cbn [fold_left].
  - split; [exact Ka|]. split; [apply Mono_refl|]. intros v [].
  - destruct (visit_K a b e Ka) as [K1 [M1 F1]]; [apply R; simpl; auto|].
    destruct (IH _ _ K1) as [K2 [M2 F2]]; [intros; apply R; simpl; auto|].
    split; [exact K2|]. split; [eapply Mono_trans; eauto|].
    intros v [<-|Hv] D; [|apply F2; auto].
    destruct M2 as [_ [M2p [M2d _]]]. apply M2p. apply F1.
    destruct (Bfs.getd (Bfs.dist (Bfs.visit1 u du b e)) e) as [d|] eqn:X.
    + rewrite (M2d _ _ X) in D. congruence.
    + (* e is discovered after its own visit *)
      exfalso. assert (Hen : e < n) by (eapply Hwf; apply R; simpl; auto).
      pose proof (k_sz _ _ Ka) as [Ld [Lb Lp]].
      destruct (Bfs.visit1_cases u du b e) as [[Y E]|[Y E]]; rewrite E in X.
      * apply (k_dd _ _ Ka) in Y. congruence.
      * cbn [Bfs.dist] in X. unfold Bfs.getd in X. rewrite Bfs.nth_set_nth_eq in X by lia. discriminate.
Qed.
End Visit.

(* relation between the two searches between scans *)
Record J (a : ast) (b : Bfs.bst) : Prop := {
  j_inv : Bfs.InvB g s b;
  j_d : a_dist a = Bfs.dist b;
  j_q : a_queue a = Bfs.queue b;
  j_lp : length (a_preds a) = n;
  j_pc : forall v, v < n -> nth v (a_proc a) true = true ->
           exists dv, Bfs.getd (Bfs.dist b) v = Some dv /\ forall x dx, In x (Bfs.queue b) -> Bfs.getd (Bfs.dist b) x = Some dx -> dv <= dx;
  j_nd : forall v, NoDup (nth v (a_preds a) []);
  j_pr : forall v p, In p (nth v (a_preds a) []) ->
           exists dp, Bfs.getd (Bfs.dist b) p = Some dp /\ Bfs.getd (Bfs.dist b) v = Some (S dp) /\ In v (nth p g []);
  j_cl : forall p dp v, Bfs.getd (Bfs.dist b) p = Some dp -> ~ In p (Bfs.queue b) -> In v (nth p g []) ->
           Bfs.getd (Bfs.dist b) v = Some (S dp) -> In p (nth v (a_preds a) []) }.

Lemma step_J a b u q : J a b -> Bfs.queue b = u :: q -> J (astep true g u q a) (Bfs.step g u q b).
Proof.
  intros Ja Q. pose proof (j_inv _ _ Ja) as I.
  destruct (Bfs.b_qd _ _ _ I u) as [du Du]; [rewrite Q; left; auto|].
  pose proof (Bfs.step_inv g s Hwf b u q I Q) as I'.
  unfold astep. rewrite (j_d _ _ Ja). change (nth u (Bfs.dist b) None) with (Bfs.getd (Bfs.dist b) u).
  revert I'. unfold Bfs.step. rewrite Du. intros I'.
  set (a0 := {| a_dist := Bfs.dist b; a_preds := a_preds a; a_proc := a_proc a; a_queue := q |}).
  set (b0 := {| Bfs.dist := Bfs.dist b; Bfs.pred := Bfs.pred b; Bfs.disc := Bfs.disc b; Bfs.queue := q |}).
  assert (K0 : K u du a0 b0).
  { constructor; unfold a0, b0; cbn [a_dist a_preds a_proc a_queue Bfs.dist Bfs.pred Bfs.disc Bfs.queue]; auto.
    - apply (Bfs.b_sz _ _ _ I).
    - apply (j_lp _ _ Ja).
    - apply (Bfs.b_dd _ _ _ I).
    - intros v dv Dv. eapply (Bfs.b_bnd _ _ _ I u q Q); eauto.
    - intros v Hv Pv. destruct (j_pc _ _ Ja v Hv Pv) as [dv [Dv L]]. exists dv; split; auto. apply (L u du); auto. rewrite Q; left; auto.
    - intros x dx Hx Dx. pose proof (Bfs.b_srt _ _ _ I) as Sr. rewrite Q in Sr. cbn [Bfs.qs] in Sr. destruct Sr as [Sr _]. eapply Sr; eauto.
    - apply (j_nd _ _ Ja).
    - apply (j_pr _ _ Ja). }
  destruct (fold_K u du (nth u g []) a0 b0 K0) as [K1 [[M1 [M2 [M3 M4]]] F1]]; [auto|].
  set (a1 := fold_left (avisit true u du) (nth u g []) a0) in *.
  set (b1 := fold_left (Bfs.visit1 u du) (nth u g []) b0) in *.
  assert (Sz0 : Bfs.sized n b0) by apply (Bfs.b_sz _ _ _ I).
  assert (R : forall x, In x (nth u g []) -> x < n) by (intros x Hx; eapply Hwf; eauto).
  constructor; cbn [a_dist a_preds a_proc a_queue].
  - exact I'.
  - apply (k_d _ _ _ _ K1).
  - apply (k_q _ _ _ _ K1).
  - apply (k_lp _ _ _ _ K1).
  - intros v Hv Pv. destruct (Nat.eq_dec u v) as [<-|N].
    + exists du. split; [apply M3; exact Du|]. intros x dx Hx Dx. eapply (k_qg _ _ _ _ K1); eauto.
    + rewrite Bfs.nth_set_nth_neq in Pv by auto. destruct (k_pc _ _ _ _ K1 v Hv Pv) as [dv [Dv L]]. exists dv; split; auto.
      intros x dx Hx Dx. pose proof (k_qg _ _ _ _ K1 x dx Hx Dx). lia.
  - apply (k_nd _ _ _ _ K1).
  - apply (k_pr _ _ _ _ K1).
  - intros p dp v Dp Nq Hv Dv. destruct (Nat.eq_dec p u) as [->|N].
    + assert (dp = du) by (pose proof (M3 u du Du); congruence). subst dp. apply F1; auto.
    + destruct (Bfs.getd (Bfs.dist b) p) as [dp'|] eqn:Dp0.
      * assert (dp' = dp) by (pose proof (M3 p dp' Dp0); congruence). subst dp'.
        assert (Nq0 : ~ In p (Bfs.queue b)).
        { rewrite Q. intros [X|X]; [congruence|]. apply Nq. apply M4. exact X. }
        destruct (Bfs.b_cl _ _ _ I p dp Dp0 Nq0 v Hv) as [dv [Dv0 _]].
        assert (dv = S dp) by (pose proof (M3 v dv Dv0); congruence). subst dv.
        apply M2. apply (j_cl _ _ Ja p dp v); auto.
      * exfalso. assert (Db : Bfs.getb (Bfs.disc b0) p = false).
        { destruct (Bfs.getb (Bfs.disc b0) p) eqn:X; auto. apply (Bfs.b_dd _ _ _ I) in X. congruence. }
        destruct (Bfs.fold_new u du n (nth u g []) b0 p Sz0 R Db) as [[_ [X _]]|[_ [_ [_ [_ X]]]]].
        -- fold b1 in X. cbn [Bfs.dist b0] in X. congruence.
        -- apply Nq. exact X.
Qed.

Hypothesis Hs : s < length g.

Lemma init_J : J (ainit n s) (Bfs.init n s).
Proof.
  pose proof (Bfs.init_inv g s Hs) as I.
  assert (D : forall v, Bfs.getd (Bfs.dist (Bfs.init n s)) v = if Nat.eq_dec s v then Some 0 else None).
  { intros v; cbn [Bfs.init Bfs.dist]; unfold Bfs.getd. destruct (Nat.eq_dec s v) as [<-|Hne]; [apply Bfs.nth_set_nth_eq; rewrite repeat_length; auto|rewrite Bfs.nth_set_nth_neq, Bfs.nth_repeat; auto]. }
  assert (P : forall v, nth v (repeat (@nil nat) n) [] = []) by (intros v; apply Bfs.nth_repeat).
  constructor; cbn [ainit a_dist a_preds a_proc a_queue]; auto.
  - apply repeat_length.
  - intros v Hv Pv. destruct (Nat.eq_dec s v) as [<-|N].
    + exists 0. split; [rewrite D; destruct (Nat.eq_dec s s); congruence|]. intros; lia.
    + rewrite Bfs.nth_set_nth_neq in Pv by auto. rewrite (nth_indep _ true false) in Pv by (rewrite repeat_length; auto).
      rewrite Bfs.nth_repeat in Pv. discriminate.
  - intros v. rewrite P. constructor.
  - intros v p. rewrite P. intros [].
  - intros p dp v. rewrite D. destruct (Nat.eq_dec s p) as [<-|]; [|discriminate]. intros _ X. exfalso; apply X. cbn [Bfs.init Bfs.queue]. left; auto.
Qed.

Lemma abfs_sim fuel : forall a b k, J a b ->
  exists a', abfs true fuel g a k = (a', snd (fst (bfs_count fuel g b k)), snd (bfs_count fuel g b k)) /\ J a' (fst (fst (bfs_count fuel g b k))).
Proof.
  induction fuel as [|f IH]; intros a b k Ja; cbn [abfs bfs_count]; rewrite (j_q _ _ Ja).
  - destruct (Bfs.queue b) as [|u q]; cbn [fst snd]; eauto.
  - destruct (Bfs.queue b) as [|u q] eqn:Q; cbn [fst snd]; [eauto|]. apply IH. apply step_J; auto.
Qed.

Definition all_facts (o : all_out) : Prop :=
  ao_scans o <= n /\ length (ao_dist o) = n /\ length (ao_preds o) = n /\
  (forall v, match nth v (ao_dist o) None with
             | Some k => Bfs.walk g s v k /\ (forall k', Bfs.walk g s v k' -> k <= k')
             | None => forall k', ~ Bfs.walk g s v k' end) /\
  (forall v, NoDup (nth v (ao_preds o) [])) /\
  (forall v p, In p (nth v (ao_preds o) []) <->
     exists dp, nth p (ao_dist o) None = Some dp /\ nth v (ao_dist o) None = Some (S dp) /\ In v (nth p g [])).

Theorem bfs_all_spec : exists o, bfs_all true true n g s = Val o /\ all_facts o.
Proof.
  unfold bfs_all, checked. cbn [forallb]. rewrite (proj2 (Nat.ltb_lt _ _) Hs). cbn [andb].
  destruct (abfs_sim n _ _ 0 init_J) as [a' [E Ja]].
  destruct (bfs_count_spec g s Hwf Hs n (Bfs.init n s) 0 (Bfs.init_inv g s Hs)) as [pops [E2 L]]; [rewrite (Bfs.init_potential g s Hs); lia|].
  rewrite E2 in E, Ja. cbn [fst snd] in E, Ja. rewrite E. eexists; split; [reflexivity|].
  rewrite (Bfs.init_potential g s Hs) in L.
  pose proof (Bfs.bfs_single_correct g s Hwf Hs) as [Q [A _]].
  set (b' := Bfs.bfs n g (Bfs.init n s)) in *.
  unfold all_facts; cbn [ao_scans ao_dist ao_preds].
  pose proof (Bfs.b_sz _ _ _ (j_inv _ _ Ja)) as [Ld _].
  split; [lia|]. split; [rewrite (j_d _ _ Ja); exact Ld|]. split; [apply (j_lp _ _ Ja)|].
  split; [rewrite (j_d _ _ Ja); exact A|]. split; [apply (j_nd _ _ Ja)|].
  intros v p. rewrite (j_d _ _ Ja). split; [apply (j_pr _ _ Ja)|].
  intros [dp [Dp [Dv Hin]]]. apply (j_cl _ _ Ja p dp v); auto. rewrite Q. simpl; tauto.
Qed.
End Sim.

Theorem C19_all_predecessors_scans : forall (g : adjl) (s : nat), Bfs.wf g -> s < length g ->
  exists o, bfs_all true true (length g) g s = Val o /\ ao_scans o <= length g.
Proof. intros g s W H. destruct (bfs_all_spec g s W H) as [o [E [B _]]]. exists o; auto. Qed.
Print Assumptions C19_all_predecessors_scans.

(* ---------- the brute-force oracle [hopdist] is the minimum walk length ---------- *)
Definition hfind (v : nat) := fix find (ls : list (list nat)) (k : nat) : option nat :=
  match ls with [] => None | l :: t => if mem v l then Some k else find t (S k) end.
Lemma hopdist_hfind g s v : hopdist g s v = hfind v (layers g (S (length g)) [s]) 0.
Proof. reflexivity. Qed.
Lemma hfind_cons v l t k : hfind v (l :: t) k = if mem v l then Some k else hfind v t (S k).
Proof. reflexivity. Qed.
Lemma hfind_spec v : forall ls k0,
  match hfind v ls k0 with
  | Some k => exists j, k = k0 + j /\ j < length ls /\ In v (nth j ls []) /\ forall i, i < j -> ~ In v (nth i ls [])
  | None => forall j, j < length ls -> ~ In v (nth j ls []) end.
Proof.
  induction ls as [|l t IH]; intros k0.
  - cbn. intros j Hj; lia.
  - rewrite hfind_cons. destruct (mem v l) eqn:M.
    + exists 0. split; [lia|]. split; [cbn; lia|]. split; [apply mem_In; exact M|]. intros i Hi; lia.
    + apply mem_false in M. specialize (IH (S k0)). destruct (hfind v t (S k0)) as [k|].
      * destruct IH as [j [E [Lj [Hin Hmin]]]]. exists (S j). split; [lia|]. split; [cbn [length]; lia|]. split; [exact Hin|].
        intros [|i] Hi; cbn [nth]; [exact M|apply Hmin; lia].
      * intros [|j] Hj; cbn [nth]; [exact M|apply IH; cbn [length] in Hj; lia].
Qed.
Lemma succs_walk g s j0 cur : (forall x, In x cur <-> Bfs.walk g s x j0) -> forall x, In x (succs g cur) <-> Bfs.walk g s x (S j0).
Proof. intros H x. unfold succs. rewrite nodup_In, in_flat_map. split.
  - intros [u [Hu Hx]]. apply Bfs.w_snoc with u; [apply H; auto|auto].
  - intros W. inversion W as [|u' v' k' W' Hin']; subst. exists u'; split; [apply H; auto|auto].
Qed.
Lemma layers_length g m : forall cur, length (layers g m cur) = m.
Proof. induction m as [|m IH]; intros cur; cbn [layers length]; auto. Qed.
Lemma layers_walk g s : forall m cur j0, (forall x, In x cur <-> Bfs.walk g s x j0) ->
  forall j, j < m -> forall x, In x (nth j (layers g m cur) []) <-> Bfs.walk g s x (j0 + j).
Proof.
  induction m as [|m IH]; intros cur j0 H j Hj x; [lia|]. cbn [layers]. destruct j as [|j]; cbn [nth].
  - rewrite Nat.add_0_r. apply H.
  - replace (j0 + S j) with (S j0 + j) by lia. apply IH; [apply succs_walk; exact H|lia].
Qed.
Lemma hopdist_spec g s v : s < length g ->
  match hopdist g s v with
  | Some k => Bfs.walk g s v k /\ (forall k', k' < k -> ~ Bfs.walk g s v k')
  | None => forall k', k' <= length g -> ~ Bfs.walk g s v k' end.
Proof.
  intros Hs. rewrite hopdist_hfind.
  assert (B : forall x, In x [s] <-> Bfs.walk g s x 0).
  { intros x; split; [intros [<-|[]]; constructor; auto|intros W; inversion W; subst; left; auto]. }
  pose proof (hfind_spec v (layers g (S (length g)) [s]) 0) as HS.
  destruct (hfind v (layers g (S (length g)) [s]) 0) as [k|].
  - destruct HS as [j [E [Lj [Hin Hmin]]]]. cbn [plus] in E. subst j. rewrite layers_length in Lj.
    split; [apply (layers_walk g s _ _ 0 B k Lj v); exact Hin|].
    intros k' Hk' W. apply (Hmin k' Hk'). apply (layers_walk g s _ _ 0 B k'); [lia|exact W].
  - intros k' Hk' W. rewrite layers_length in HS. apply (HS k'); [lia|]. apply (layers_walk g s _ _ 0 B k'); [lia|exact W].
Qed.

Definition mw (g : adjl) (s v k : nat) : Prop := Bfs.walk g s v k /\ forall k', Bfs.walk g s v k' -> k <= k'.
Lemma min_walk_list g s : Bfs.wf g -> forall v k, Bfs.walk g s v k -> (forall k', Bfs.walk g s v k' -> k <= k') ->
  exists l, length l = S k /\ NoDup l /\ forall x, In x l -> x < length g /\ exists j, j <= k /\ mw g s x j.
Proof.
  intros W. induction 1 as [Hs|u v k Wu IH Hin]; intros Min.
  - exists [s]. split; auto. split; [constructor; [simpl; tauto|constructor]|]. intros x [<-|[]]. split; auto. exists 0; split; auto. split; [constructor; auto|intros; lia].
  - destruct IH as [l [Ll [Nd Hl]]].
    { intros k' Wk'. pose proof (Min (S k') (Bfs.w_snoc _ _ _ _ _ Wk' Hin)). lia. }
    exists (v :: l). split; [cbn [length]; lia|]. split.
    + constructor; auto. intros Hv. destruct (Hl v Hv) as [_ [j [Lj [Wj _]]]]. specialize (Min j Wj). lia.
    + intros x [<-|Hx].
      * split; [eapply W; eauto|]. exists (S k); split; auto. split; [econstructor; eauto|exact Min].
      * destruct (Hl x Hx) as [A [j [Lj M]]]; split; auto; exists j; split; [lia|auto].
Qed.
Lemma min_walk_short g s v k : Bfs.wf g -> mw g s v k -> k < length g.
Proof.
  intros W [Wk Min]. destruct (min_walk_list g s W v k Wk Min) as [l [Ll [Nd Hl]]].
  assert (I : incl l (seq 0 (length g))) by (intros x Hx; apply in_seq; destruct (Hl x Hx); lia).
  pose proof (NoDup_incl_length Nd I) as L. rewrite seq_length in L. lia.
Qed.
Lemma hopdist_eq g s v (d : option nat) : Bfs.wf g -> s < length g ->
  match d with Some k => mw g s v k | None => forall k', ~ Bfs.walk g s v k' end -> d = hopdist g s v.
Proof.
  intros W Hs Hd. pose proof (hopdist_spec g s v Hs) as HS. destruct d as [k|].
  - pose proof (min_walk_short g s v k W Hd) as Lk. destruct Hd as [Wk Min]. destruct (hopdist g s v) as [k'|].
    + destruct HS as [Wk' Min']. f_equal. specialize (Min k' Wk'). destruct (Nat.eq_dec k k'); auto. exfalso. apply (Min' k); [lia|auto].
    + exfalso. apply (HS k); [lia|auto].
  - destruct (hopdist g s v) as [k'|]; auto. exfalso. apply (Hd k'). apply HS.
Qed.
Lemma hopdist_mw g s v : Bfs.wf g -> s < length g ->
  match hopdist g s v with Some k => mw g s v k | None => forall k', ~ Bfs.walk g s v k' end.
Proof.
  intros W Hs. destruct (bfs_all_spec g s W Hs) as [o [_ [_ [_ [_ [A _]]]]]]. specialize (A v).
  rewrite <- (hopdist_eq g s v (nth v (ao_dist o) None) W Hs); exact A.
Qed.

Theorem C11_all_predecessors : forall (g : adjl) (s : nat), Bfs.wf g -> s < length g ->
  exists o, bfs_all true true (length g) g s = Val o /\
    (forall v, nth v (ao_dist o) None = hopdist g s v) /\
    (forall v, NoDup (nth v (ao_preds o) []) /\ forall p, In p (nth v (ao_preds o) []) <->
       (exists k, hopdist g s p = Some k /\ hopdist g s v = Some (S k) /\ In v (nth p g []))).
Proof.
  intros g s W Hs. destruct (bfs_all_spec g s W Hs) as [o [E [_ [_ [_ [A [Nd Pr]]]]]]]. exists o. split; [exact E|].
  assert (D : forall v, nth v (ao_dist o) None = hopdist g s v) by (intros v; apply hopdist_eq; auto; apply A).
  split; [exact D|]. intros v. split; [apply Nd|]. intros p. rewrite Pr, !D. tauto.
Qed.
Print Assumptions C11_all_predecessors.

(* ================= findAllGeodesics ================= *)
(* more fuel does not change a finished search *)
Lemma abfs_more once g : forall f a k a' p, abfs once f g a k = (a', p, true) -> forall f', f <= f' -> abfs once f' g a k = (a', p, true).
Proof.
  induction f as [|f IH]; intros a k a' p E f' L.
  - cbn [abfs] in E. destruct (a_queue a) as [|u q] eqn:Q; [|discriminate]. destruct f'; cbn [abfs]; rewrite Q; exact E.
  - destruct f' as [|f']; [lia|]. cbn [abfs] in *. destruct (a_queue a) as [|u q]; [exact E|]. apply (IH _ _ _ _ E). lia.
Qed.
Lemma bfs_all_more g s o fuel : bfs_all true true (length g) g s = Val o -> length g <= fuel -> bfs_all true true fuel g s = Val o.
Proof.
  unfold bfs_all, checked. destruct (forallb (fun v => v <? length g) [s]); [|discriminate].
  destruct (abfs true (length g) g (ainit (length g) s) 0) as [[a p] fin] eqn:E. destruct fin; [|discriminate].
  intros V L. rewrite (abfs_more true g _ _ _ _ _ E fuel L). exact V.
Qed.

Lemma NoDup_flat_map {A B} (f : A -> list B) l : NoDup l -> (forall x, In x l -> NoDup (f x)) ->
  (forall x y z, In x l -> In y l -> In z (f x) -> In z (f y) -> x = y) -> NoDup (flat_map f l).
Proof.
  induction 1 as [|a l Ha Nd IH]; intros H1 H2; cbn [flat_map]; [constructor|]. apply NoDup_app_intro.
  - apply H1; left; auto.
  - apply IH; [intros; apply H1; right; auto|]. intros x y z Hx Hy; apply H2; right; auto.
  - intros z Hz Hz'. apply in_flat_map in Hz' as [y [Hy Hzy]]. assert (a = y) by (apply (H2 a y z); simpl; auto). subst. contradiction.
Qed.
Lemma list_sum_cons a l : list_sum (a :: l) = a + list_sum l.
Proof. reflexivity. Qed.
Lemma flat_map_map {A B C} (f : B -> list C) (h : A -> B) l : flat_map f (map h l) = flat_map (fun x => f (h x)) l.
Proof. induction l as [|a l IH]; cbn [map flat_map]; [auto|rewrite IH; auto]. Qed.
Lemma fold_push (lst' : list nat) ps : forall rest : list (nat * list nat),
  fold_left (fun st p => (p, lst') :: st) ps rest = rev (map (fun p => (p, lst')) ps) ++ rest.
Proof. induction ps as [|p ps IH]; intros rest; cbn [fold_left map rev]; auto. rewrite IH, <- app_assoc. reflexivity. Qed.

Section Geo.
Variables (g : adjl) (s t : nat) (o : all_out).
Hypothesis Hwf : Bfs.wf g.
Hypothesis Hs : s < length g.
Hypothesis Ho : all_facts g s o.
Notation n := (length g).
Notation P := (ao_preds o).
Definition dd (v : nat) : option nat := nth v (ao_dist o) None.

Lemma d_spec v : match dd v with Some k => mw g s v k | None => forall k', ~ Bfs.walk g s v k' end.
Proof. destruct Ho as [_ [_ [_ [A _]]]]. exact (A v). Qed.
Lemma d_walk v k : Bfs.walk g s v k -> exists j, dd v = Some j /\ j <= k /\ mw g s v j.
Proof. intros W. pose proof (d_spec v) as A. destruct (dd v) as [j|]; [exists j; split; auto; split; [apply A; auto|auto]|exfalso; eapply A; eauto]. Qed.
Lemma d_s : dd s = Some 0.
Proof. destruct (d_walk s 0 (Bfs.w_nil g s Hs)) as [j [E [L _]]]. rewrite E; f_equal; lia. Qed.
Lemma d_zero v : dd v = Some 0 -> v = s.
Proof. intros E. pose proof (d_spec v) as A. rewrite E in A. destruct A as [W _]. inversion W; auto. Qed.
Lemma d_lt v k : dd v = Some k -> v < n.
Proof. intros E. destruct Ho as [_ [L _]]. destruct (Nat.lt_ge_cases v n); auto. unfold dd in E. rewrite nth_overflow in E by lia. discriminate. Qed.
Lemma pred_iff v p : In p (nth v P []) <-> exists dp, dd p = Some dp /\ dd v = Some (S dp) /\ In v (nth p g []).
Proof. destruct Ho as [_ [_ [_ [_ [_ A]]]]]. exact (A v p). Qed.
Lemma preds_nodup v : NoDup (nth v P []).
Proof. destruct Ho as [_ [_ [_ [_ [A _]]]]]. exact (A v). Qed.
Lemma preds_s : nth s P [] = [].
Proof. destruct (nth s P []) as [|p l] eqn:E; auto. assert (H : In p (nth s P [])) by (rewrite E; left; auto).
  apply pred_iff in H as [dp [_ [X _]]]. rewrite d_s in X. discriminate. Qed.
Lemma pred_exists c k : dd c = Some (S k) -> exists p, In p (nth c P []).
Proof.
  intros E. pose proof (d_spec c) as A. rewrite E in A. destruct A as [W Min]. inversion W as [|u v k' Wu Hin]; subst.
  destruct (d_walk u k Wu) as [j [Ej [L [Wj _]]]]. exists u. apply pred_iff. exists j. split; auto. split; auto.
  pose proof (Min (S j) (Bfs.w_snoc _ _ _ _ _ Wj Hin)). assert (j = k) by lia. subst; auto.
Qed.

(* the shortest paths as chains of recorded predecessors *)
Inductive geo : nat -> list nat -> Prop :=
| geo_s : geo s [s]
| geo_step p c pre : In p (nth c P []) -> geo p pre -> geo c (pre ++ [c]).
Lemma geo_last c pre : geo c pre -> last pre s = c.
Proof. destruct 1; [reflexivity|apply last_last]. Qed.
Lemma geo_s_inv pre : geo s pre -> pre = [s].
Proof. intros G. inversion G as [|p c pre' Hp G']; auto. subst. rewrite preds_s in Hp. destruct Hp. Qed.

(* what one stack entry contributes, and how many pops it costs *)
Fixpoint outd (d c : nat) (lst : list nat) {struct d} : list (list nat) :=
  if Nat.eqb c s then [c :: lst ++ [t]] else
  match d with 0 => [] | S d' => flat_map (fun p => outd d' p (c :: lst)) (rev (nth c P [])) end.
Fixpoint cnt (d c : nat) {struct d} : nat :=
  if Nat.eqb c s then 1 else match d with 0 => 1 | S d' => S (list_sum (map (cnt d') (rev (nth c P [])))) end.
Lemma outd_s d lst : outd d s lst = [s :: lst ++ [t]].
Proof. destruct d; cbn [outd]; rewrite Nat.eqb_refl; reflexivity. Qed.
Lemma cnt_s d : cnt d s = 1.
Proof. destruct d; cbn [cnt]; rewrite Nat.eqb_refl; reflexivity. Qed.
Lemma cnt_pos d c : 1 <= cnt d c.
Proof. destruct d; cbn [cnt]; destruct (Nat.eqb c s); lia. Qed.

Lemma outd_spec : forall d c lst, dd c = Some d -> forall path, In path (outd d c lst) <-> exists pre, path = pre ++ lst ++ [t] /\ geo c pre.
Proof.
  induction d as [|d IH]; intros c lst E path.
  - pose proof (d_zero c E); subst c. rewrite outd_s. split.
    + intros [<-|[]]. exists [s]; split; [reflexivity|constructor].
    + intros [pre [-> G]]. apply geo_s_inv in G; subst; left; reflexivity.
  - cbn [outd]. destruct (Nat.eqb_spec c s) as [->|N]; [rewrite d_s in E; discriminate|].
    rewrite in_flat_map. split.
    + intros [p [Hp Hin]]. apply in_rev in Hp. pose proof (proj1 (pred_iff c p) Hp) as [dp [Dp [Dc _]]]. rewrite E in Dc; injection Dc as <-.
      apply (IH p (c :: lst) Dp) in Hin as [pre [-> G]]. exists (pre ++ [c]). split; [rewrite <- app_assoc; reflexivity|]. econstructor; eauto.
    + intros [pre [-> G]]. inversion G as [|p c' pre' Hp G']; subst; [contradiction N; auto|].
      exists p. split; [apply -> in_rev; auto|]. pose proof (proj1 (pred_iff c p) Hp) as [dp [Dp [Dc _]]]. rewrite E in Dc; injection Dc as <-.
      apply IH; auto. exists pre'; split; auto. rewrite <- app_assoc. reflexivity.
Qed.
Lemma level_nodup k lst ps : NoDup ps -> (forall p, In p ps -> dd p = Some k) -> (forall p, In p ps -> NoDup (outd k p lst)) ->
  NoDup (flat_map (fun p => outd k p lst) ps).
Proof.
  intros Nd D H. apply NoDup_flat_map; auto.
  intros x y z Hx Hy Zx Zy. apply (outd_spec k x lst (D x Hx)) in Zx as [pre1 [E1 G1]]. apply (outd_spec k y lst (D y Hy)) in Zy as [pre2 [E2 G2]].
  rewrite E1 in E2. apply app_inv_tail in E2. subst pre2. rewrite <- (geo_last _ _ G1). apply geo_last; auto.
Qed.
Lemma outd_nodup : forall d c lst, dd c = Some d -> NoDup (outd d c lst).
Proof.
  induction d as [|d IH]; intros c lst E.
  - pose proof (d_zero c E); subst c. rewrite outd_s. constructor; [simpl; tauto|constructor].
  - cbn [outd]. destruct (Nat.eqb_spec c s) as [->|N]; [constructor; [simpl; tauto|constructor]|].
    assert (D : forall p, In p (rev (nth c P [])) -> dd p = Some d).
    { intros p Hp. apply in_rev in Hp. pose proof (proj1 (pred_iff c p) Hp) as [dp [Dp [Dc _]]]. rewrite E in Dc; injection Dc as <-. auto. }
    apply level_nodup; auto. apply NoDup_rev, preds_nodup.
Qed.

(* pops are bounded by (path length) * (number of paths) *)
Lemma level_bound d lst (l : list nat) : (forall p, In p l -> cnt d p <= S d * length (outd d p lst) /\ 1 <= length (outd d p lst)) ->
  list_sum (map (cnt d) l) <= S d * length (flat_map (fun p => outd d p lst) l) /\ (l <> [] -> 1 <= length (flat_map (fun p => outd d p lst) l)).
Proof.
  induction l as [|a l IH]; intros H; cbn [map flat_map]; rewrite ?list_sum_cons; [split; [cbn; lia|congruence]|].
  destruct (H a) as [A1 A2]; [left; auto|]. destruct IH as [B1 _]; [intros; apply H; right; auto|].
  rewrite app_length, Nat.mul_add_distr_l. split; lia.
Qed.
Lemma cnt_bound : forall d c lst, dd c = Some d -> cnt d c <= S d * length (outd d c lst) /\ 1 <= length (outd d c lst).
Proof.
  induction d as [|d IH]; intros c lst E.
  - pose proof (d_zero c E); subst c. rewrite outd_s, cnt_s. cbn; lia.
  - destruct (Nat.eqb_spec c s) as [->|N]; [rewrite outd_s, cnt_s; cbn [length]; lia|].
    cbn [outd cnt]. rewrite (proj2 (Nat.eqb_neq c s) N).
    destruct (level_bound d (c :: lst) (rev (nth c P []))) as [B1 B2].
    { intros p Hp. apply IH. apply in_rev in Hp. pose proof (proj1 (pred_iff c p) Hp) as [dp [Dp [Dc _]]]. rewrite E in Dc; injection Dc as <-. auto. }
    assert (B3 : rev (nth c P []) <> []).
    { destruct (pred_exists c d E) as [p Hp]. intros X. apply in_rev in Hp. rewrite X in Hp. destruct Hp. }
    specialize (B2 B3). rewrite (Nat.mul_succ_l (S d)). split; lia.
Qed.

Definition dof (c : nat) : nat := match dd c with Some k => k | None => 0 end.
Definition sout (cl : nat * list nat) : list (list nat) := outd (dof (fst cl)) (fst cl) (snd cl).
Definition scnt (cl : nat * list nat) : nat := cnt (dof (fst cl)) (fst cl).
Lemma dof_eq c k : dd c = Some k -> dof c = k.
Proof. unfold dof; intros ->; reflexivity. Qed.
Lemma pred_dof c k p : dd c = Some (S k) -> In p (nth c P []) -> dd p = Some k.
Proof. intros E Hp. pose proof (proj1 (pred_iff c p) Hp) as [dp [Dp [Dc _]]]. rewrite E in Dc; injection Dc as <-. auto. Qed.
Lemma sout_step c lst k : dd c = Some (S k) -> c <> s -> flat_map sout (rev (map (fun p => (p, c :: lst)) (nth c P []))) = sout (c, lst).
Proof.
  intros E N. unfold sout at 2. cbn [fst snd]. rewrite (dof_eq c _ E). cbn [outd]. rewrite (proj2 (Nat.eqb_neq c s) N).
  rewrite <- map_rev, flat_map_map. apply flat_map_ext_in'. intros p Hp. apply in_rev in Hp. unfold sout; cbn [fst snd].
  rewrite (dof_eq p k (pred_dof c k p E Hp)). reflexivity.
Qed.
Lemma scnt_step c lst k : dd c = Some (S k) -> c <> s -> S (list_sum (map scnt (rev (map (fun p => (p, c :: lst)) (nth c P []))))) = scnt (c, lst).
Proof.
  intros E N. unfold scnt at 2. cbn [fst snd]. rewrite (dof_eq c _ E). cbn [cnt]. rewrite (proj2 (Nat.eqb_neq c s) N).
  rewrite <- map_rev, map_map. f_equal. f_equal. apply map_ext_in. intros p Hp. apply in_rev in Hp. unfold scnt; cbn [fst snd].
  rewrite (dof_eq p k (pred_dof c k p E Hp)). reflexivity.
Qed.

Lemma stack_loop_spec : forall fuel stack paths, (forall cl, In cl stack -> dd (fst cl) <> None) ->
  stack_loop fuel P s t stack paths =
  if Nat.leb (list_sum (map scnt stack)) fuel then Val (paths ++ flat_map sout stack) else Undef Fuel.
Proof.
  induction fuel as [|f IH]; intros stack paths Hst.
  - destruct stack as [|[c lst] rest]; cbn [stack_loop]; [cbn; rewrite app_nil_r; reflexivity|].
    cbn [map]; rewrite ?list_sum_cons. pose proof (cnt_pos (dof c) c) as X. unfold scnt at 1. cbn [fst].
    destruct (Nat.leb_spec (cnt (dof c) c + list_sum (map scnt rest)) 0); [lia|reflexivity].
  - destruct stack as [|[c lst] rest]; cbn [stack_loop]; [cbn; rewrite app_nil_r; reflexivity|].
    destruct (dd c) as [dc|] eqn:Dc; [|exfalso; apply (Hst (c, lst)); [left; auto|exact Dc]].
    pose proof (d_lt c dc Dc) as Hc. assert (LP : length P = n) by (destruct Ho as [_ [_ [L _]]]; exact L).
    rewrite (nth_error_nth' P []) by lia.
    assert (Hrest : forall cl, In cl rest -> dd (fst cl) <> None) by (intros cl Hcl; apply Hst; right; auto).
    cbn [map flat_map]; rewrite ?list_sum_cons.
    destruct (Nat.eqb_spec c s) as [->|N].
    + rewrite preds_s. cbn [andb negb fold_left]. rewrite (IH rest _ Hrest).
      unfold scnt at 2, sout at 2. cbn [fst snd]. rewrite cnt_s, outd_s. cbn [plus Nat.leb].
      destruct (Nat.leb (list_sum (map scnt rest)) f); [|reflexivity]. rewrite <- app_assoc. reflexivity.
    + destruct dc as [|k]; [apply d_zero in Dc; contradiction|].
      assert (Hne : (match nth c P [] with [] => true | _ :: _ => false end) = false).
      { destruct (pred_exists c k Dc) as [p Hp]. destruct (nth c P []); [destruct Hp|reflexivity]. }
      rewrite Hne. cbn [andb]. rewrite fold_push. rewrite IH.
      * rewrite map_app, list_sum_app, flat_map_app, (sout_step c lst k Dc N), <- (scnt_step c lst k Dc N). cbn [plus Nat.leb].
        rewrite app_assoc. reflexivity.
      * intros cl Hcl. apply in_app_or in Hcl as [Hcl|Hcl]; [|apply Hrest; auto].
        apply in_rev in Hcl. apply in_map_iff in Hcl as [p [<- Hp]]. cbn [fst]. rewrite (pred_dof c k p Dc Hp). discriminate.
Qed.

(* the result and the cost of findMultiplePathsToVertexFromPredecessors for a reachable destination other than the source *)
Definition stack0 : list (nat * list nat) := rev (map (fun p => (p, @nil nat)) (nth t P [])).
Definition result : list (list nat) := flat_map sout stack0.
Definition need : nat := list_sum (map scnt stack0).

Lemma all_paths_spec fuel k : s <> t -> dd t = Some k ->
  all_paths_from_preds fuel P s t = if Nat.leb need fuel then Val result else Undef Fuel.
Proof.
  intros N E. unfold all_paths_from_preds. rewrite (proj2 (Nat.eqb_neq s t) N).
  assert (LP : length P = n) by (destruct Ho as [_ [_ [L _]]]; exact L).
  rewrite (nth_error_nth' P []) by (rewrite LP; eapply d_lt; eauto).
  rewrite fold_push, app_nil_r. fold stack0. rewrite stack_loop_spec; [reflexivity|].
  destruct k as [|k]; [apply d_zero in E; congruence|].
  intros cl Hcl. apply in_rev in Hcl. apply in_map_iff in Hcl as [p [<- Hp]]. cbn [fst]. rewrite (pred_dof t k p E Hp). discriminate.
Qed.
Lemma result_eq k : dd t = Some (S k) -> result = flat_map (fun p => outd k p []) (rev (nth t P [])).
Proof.
  intros E. unfold result, stack0. rewrite <- map_rev, flat_map_map. apply flat_map_ext_in'. intros p Hp. apply in_rev in Hp.
  unfold sout; cbn [fst snd]. rewrite (dof_eq p k (pred_dof t k p E Hp)). reflexivity.
Qed.
Lemma need_eq k : dd t = Some (S k) -> need = list_sum (map (cnt k) (rev (nth t P []))).
Proof.
  intros E. unfold need, stack0. rewrite <- map_rev, map_map. f_equal. apply map_ext_in. intros p Hp. apply in_rev in Hp.
  unfold scnt; cbn [fst]. rewrite (dof_eq p k (pred_dof t k p E Hp)). reflexivity.
Qed.
Lemma result_geo k : s <> t -> dd t = Some (S k) -> forall path, In path result <-> geo t path.
Proof.
  intros N E path. rewrite (result_eq k E), in_flat_map. split.
  - intros [p [Hp Hin]]. apply in_rev in Hp. apply (outd_spec k p [] (pred_dof t k p E Hp)) in Hin as [pre [-> G]]. cbn [app]. econstructor; eauto.
  - intros G. inversion G as [|p c pre Hp G']; subst; [congruence|]. exists p. split; [apply -> in_rev; auto|].
    apply (outd_spec k p [] (pred_dof t k p E Hp)). exists pre. split; auto.
Qed.
Lemma result_nodup k : dd t = Some (S k) -> NoDup result.
Proof.
  intros E. rewrite (result_eq k E).
  assert (D : forall p, In p (rev (nth t P [])) -> dd p = Some k) by (intros p Hp; apply in_rev in Hp; eapply pred_dof; eauto).
  apply level_nodup; auto; [apply NoDup_rev, preds_nodup|]. intros p Hp. apply outd_nodup; auto.
Qed.
Lemma need_bound k : dd t = Some (S k) -> need <= S k * length result.
Proof.
  intros E. rewrite (need_eq k E), (result_eq k E). apply level_bound. intros p Hp. apply in_rev in Hp. apply cnt_bound. eapply pred_dof; eauto.
Qed.

(* predecessor chains are exactly the minimum-length walks of the oracle *)
Lemma in_walks_S k w : In w (walks g (S k) s) <-> exists w' v, In w' (walks g k s) /\ In v (nth (last w' s) g []) /\ w = w' ++ [v].
Proof.
  cbn [walks]. rewrite in_flat_map. split.
  - intros [w' [Hw' Hin]]. apply in_map_iff in Hin as [v [<- Hv]]. eauto.
  - intros [w' [v [A [B ->]]]]. exists w'; split; auto. apply in_map_iff. eauto.
Qed.
Lemma walks_walk : forall k w, In w (walks g k s) -> Bfs.walk g s (last w s) k.
Proof.
  induction k as [|k IH]; intros w H.
  - cbn [walks] in H. destruct H as [<-|[]]. cbn. constructor; auto.
  - apply in_walks_S in H as [w' [v [A [B ->]]]]. rewrite last_last. econstructor; eauto.
Qed.
Lemma geo_walks c pre : geo c pre -> exists k, dd c = Some k /\ In pre (walks g k s).
Proof.
  induction 1 as [|p c pre Hp G IH].
  - exists 0. split; [apply d_s|left; auto].
  - destruct IH as [k [Dp Hin]]. pose proof (proj1 (pred_iff c p) Hp) as [dp [Dp' [Dc Hg]]]. rewrite Dp in Dp'; injection Dp' as <-.
    exists (S k). split; auto. apply in_walks_S. exists pre, c. split; auto. split; auto. rewrite (geo_last _ _ G). auto.
Qed.
Lemma walks_geo : forall k w, In w (walks g k s) -> dd (last w s) = Some k -> geo (last w s) w.
Proof.
  induction k as [|k IH]; intros w H D.
  - cbn [walks] in H. destruct H as [<-|[]]. cbn. constructor.
  - apply in_walks_S in H as [w' [v [A [B ->]]]]. rewrite last_last in *.
    pose proof (walks_walk k w' A) as Wu. destruct (d_walk _ _ Wu) as [j [Ej [L [Wj _]]]].
    pose proof (d_spec v) as Sv. rewrite D in Sv. destruct Sv as [_ Min]. pose proof (Min (S j) (Bfs.w_snoc _ _ _ _ _ Wj B)).
    assert (j = k) by lia. subst j. apply geo_step with (last w' s); [|apply IH; auto].
    apply pred_iff. exists k. auto.
Qed.
Lemma geo_shortest k path : dd t = Some k -> geo t path <-> In path (shortest_paths g s t).
Proof.
  intros E. unfold shortest_paths. rewrite <- (hopdist_eq g s t (dd t) Hwf Hs (d_spec t)), E. rewrite nodup_In, filter_In. split.
  - intros G. destruct (geo_walks _ _ G) as [k' [E' Hin]]. rewrite E in E'; injection E' as <-. split; auto.
    rewrite (geo_last _ _ G). apply Nat.eqb_refl.
  - intros [A B]. apply Nat.eqb_eq in B. rewrite <- B. apply (walks_geo k); [exact A|rewrite B; exact E].
Qed.
End Geo.

(* findAllGeodesics: the paths found are duplicate-free and are exactly the minimum-length walks from source to destination (as vertex
   sequences); with at least |V| units of fuel the model either returns them or runs out of fuel - never an exception or an out-of-range
   access - and |V| * (number of shortest paths) units always suffice. *)
Theorem find_all_geodesics_spec g s t : Bfs.wf g -> s < length g -> t < length g ->
  exists ps, NoDup ps /\ (forall p, In p ps <-> In p (shortest_paths g s t)) /\
    forall fuel, length g <= fuel ->
      (find_all_geodesics true true fuel g s t = Val ps \/ find_all_geodesics true true fuel g s t = Undef Fuel) /\
      (length g * length (shortest_paths g s t) <= fuel -> find_all_geodesics true true fuel g s t = Val ps).
Proof.
  intros W Hs Ht.
  assert (U : forall fuel, find_all_geodesics true true fuel g s t =
     if Nat.eqb s t then Val [[s]] else
     obind (bfs_all true true fuel g s) (fun o => obind (reached (ao_dist o) t) (fun r => match r with Some _ => all_paths_from_preds fuel (ao_preds o) s t | None => Val [] end))).
  { intros fuel. unfold find_all_geodesics, checked. cbn [forallb]. rewrite (proj2 (Nat.ltb_lt _ _) Hs), (proj2 (Nat.ltb_lt _ _) Ht). reflexivity. }
  destruct (Nat.eqb_spec s t) as [<-|N].
  - exists [[s]]. split; [constructor; [simpl; tauto|constructor]|]. split.
    + intros p. unfold shortest_paths.
      assert (M : mw g s s 0) by (split; [constructor; auto|intros; lia]).
      rewrite <- (hopdist_eq g s s (Some 0) W Hs M). rewrite nodup_In, filter_In. cbn [walks In]. split.
      * intros [<-|[]]. split; auto. cbn [last]. apply Nat.eqb_refl.
      * intros [[<-|[]] _]. auto.
    + intros fuel _. rewrite U. auto.
  - destruct (bfs_all_spec g s W Hs) as [o [E F]].
    assert (LD : length (ao_dist o) = length g) by (destruct F as [_ [L _]]; exact L).
    assert (R : reached (ao_dist o) t = Val (dd o t)).
    { unfold reached, dd. rewrite (nth_error_nth' _ None) by lia. reflexivity. }
    assert (U' : forall fuel, length g <= fuel -> find_all_geodesics true true fuel g s t =
       match dd o t with Some _ => all_paths_from_preds fuel (ao_preds o) s t | None => Val [] end).
    { intros fuel L. rewrite U, (bfs_all_more g s o fuel E L). cbn [obind]. rewrite R. reflexivity. }
    pose proof (hopdist_eq g s t (dd o t) W Hs (d_spec g s o F t)) as HD.
    destruct (dd o t) as [k|] eqn:Dt.
    + destruct k as [|k]; [apply (d_zero g s o F) in Dt; congruence|].
      assert (Mem : forall p, In p (result s t o) <-> In p (shortest_paths g s t)).
      { intros p. rewrite (result_geo g s t o Hs F k N Dt). apply (geo_shortest g s t o W Hs F (S k)); exact Dt. }
      pose proof (result_nodup g s t o Hs F k Dt) as Nd.
      exists (result s t o). split; [exact Nd|]. split; [exact Mem|].
      intros fuel L. rewrite (U' fuel L), (all_paths_spec g s t o Hs F fuel (S k) N Dt). split.
      * destruct (Nat.leb (need s t o) fuel); auto.
      * intros B. assert (X : need s t o <= fuel); [|apply Nat.leb_le in X; rewrite X; reflexivity].
        pose proof (need_bound g s t o Hs F k Dt) as B1.
        assert (PL : length (result s t o) = length (shortest_paths g s t)).
        { apply Permutation_length, NoDup_Permutation; auto. unfold shortest_paths. destruct (hopdist g s t); [apply NoDup_nodup|constructor]. }
        pose proof (d_spec g s o F t) as M. rewrite Dt in M. pose proof (min_walk_short g s t (S k) W M) as B2.
        rewrite PL in B1. nia.
    + exists []. split; [constructor|]. split.
      * intros p. unfold shortest_paths. rewrite <- HD. tauto.
      * intros fuel L. rewrite (U' fuel L). auto.
Qed.
Print Assumptions find_all_geodesics_spec.

(* the recorded statement with its fixed fuel allowance holds whenever that allowance covers |V| * (number of shortest paths) ... *)
Theorem C11_all_geodesics_partial : forall (g : adjl) (s t : nat), Bfs.wf g -> s < length g -> t < length g ->
  length g * length (shortest_paths g s t) <= 5000 + length g ->
  exists ps, find_all_geodesics true true (5000 + length g) g s t = Val ps /\ NoDup ps /\ forall p, In p ps <-> In p (shortest_paths g s t).
Proof.
  intros g s t W Hs Ht B. destruct (find_all_geodesics_spec g s t W Hs Ht) as [ps [Nd [Mem H]]].
  destruct (H (5000 + length g)) as [_ V]; [lia|]. exists ps. split; [apply V; exact B|]. split; auto.
Qed.
Print Assumptions C11_all_geodesics_partial.

(* ... and fails otherwise: the model pops one stack entry per suffix of a shortest path, so the fixed allowance runs out on a 26-vertex
   graph with 4^6 = 4096 shortest paths (6 complete layers of width 4 between source 0 and destination 25) *)
Lemma wf_check g : forallb (fun l => forallb (fun v => Nat.ltb v (length g)) l) g = true -> Bfs.wf g.
Proof.
  intros H u v Hin. rewrite forallb_forall in H. destruct (Nat.lt_ge_cases u (length g)) as [L|L].
  - specialize (H (nth u g []) (nth_In _ _ L)). rewrite forallb_forall in H. apply Nat.ltb_lt. apply H; auto.
  - rewrite nth_overflow in Hin by lia. destruct Hin.
Qed.
Definition layered_4x6 : adjl :=
  [[1;2;3;4]; [5;6;7;8]; [5;6;7;8]; [5;6;7;8]; [5;6;7;8]; [9;10;11;12]; [9;10;11;12]; [9;10;11;12]; [9;10;11;12];
   [13;14;15;16]; [13;14;15;16]; [13;14;15;16]; [13;14;15;16]; [17;18;19;20]; [17;18;19;20]; [17;18;19;20]; [17;18;19;20];
   [21;22;23;24]; [21;22;23;24]; [21;22;23;24]; [21;22;23;24]; [25]; [25]; [25]; [25]; []].
Example C11_all_geodesics_fuel_counterexample :
  Bfs.wf layered_4x6 /\ find_all_geodesics true true (5000 + length layered_4x6) layered_4x6 0 25 = Undef Fuel.
Proof. split; [apply wf_check; vm_compute; reflexivity|vm_compute; reflexivity]. Qed.
