(* Extraction of the executable models and spec oracles for the correspondence driver.
   ExtrOcamlBasic only: nat, positive, N, Z stay the extracted inductive types; no Extract Constant of ours. *)
From BG Require Import Base DirectedModel DirectedSpec UndirectedModel UndirectedSpec MultiModel WeightedModel MultiSpec ForcedSpec ConvModel TopologyModel PathsModel PathsCases IOModel IOCases Instances CodesSpec ConcModel ConcCases FloatTotal FloatCases.
From Coq Require Extraction ExtrOcamlBasic.
Extraction Language OCaml.
Extraction "model.ml" pinned repaired d_trace d_spec_trace u_trace_z u_spec_trace dm_trace_z um_trace_z dw_trace_z uw_trace_z m_spec_trace w_spec_trace d_fspec_trace u_fspec_trace m_fspec_trace w_fspec_trace d_cspec_trace u_cspec_trace
  d_eq_case d_eq_spec u_eq_case u_eq_spec dm_eq_case um_eq_case dw_eq_case uw_eq_case m_eq_spec w_eq_spec
  d_cv_case d_cv_spec u_cv_case u_cv_spec d_el_case u_el_case dm_el_case um_el_case dw_el_case uw_el_case d_el_spec u_el_spec m_el_spec w_el_spec
  d_sub_case u_sub_case d_sub_spec u_sub_spec
  d_path_case u_path_case d_path_spec u_path_spec dw_dj_case uw_dj_case dw_dj_spec uw_dj_spec
  bin_load_case bin_load_spec d_binw_case u_binw_case d_binw_spec u_binw_spec text_load_case text_load_spec d_txtw_case u_txtw_case txtw_spec
  d_conc_case u_conc_case d_conc_spec u_conc_spec dm_conc_case um_conc_case dw_conc_case uw_conc_case m_conc_spec w_conc_spec
  f_case f_spec fop_add fop_set djf_case djf_spec feq_case.
