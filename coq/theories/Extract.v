(* Extraction of the executable models and spec oracles for the correspondence driver.
   ExtrOcamlBasic only: nat, positive, N, Z stay the extracted inductive types; no Extract Constant of ours. *)
From BG Require Import Base DirectedModel DirectedSpec Instances.
From Coq Require Extraction ExtrOcamlBasic.
Extraction Language OCaml.
Extraction "model.ml" pinned repaired d_trace d_spec_trace.
