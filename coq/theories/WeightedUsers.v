(* Derived observers of the weighted models (DirectedWeightedGraph / UndirectedWeightedGraph): getWeightMatrix, and the degree /
   adjacency-matrix observers inherited from the labelled classes.  Under [TInv] / [UTInv] the weight matrix is defined and its entry
   (i, j) is the stored weight when the edge is present, 0 otherwise.  (Unlike the multigraph adjacency matrix the loop ASSIGNS the entry,
   so the undirected weight matrix has no "twice" convention: the diagonal holds the weight of the loop, once.) *)
From BG Require Import Base DirectedModel DirectedProofs DirectedIter DirectedUsers Equality UndirectedModel UndirectedProofs UndirectedUsers
  MultiModel WeightedModel Totals UTotals MultiUsers.
Local Open Scope Z_scope.
Local Arguments Z.of_nat : simpl never.

(* row[j] := w j over a neighbour list *)
Lemma w_row_acc n (w : nat -> outcome Z) (wv : nat -> Z) (l : list nat) : (forall j, In j l -> (j < n)%nat /\ w j = Val (wv j)) ->
  forall row, length row = n ->
  exists row', fold_left (fun acc j => obind acc (fun row => obind (w j) (fun k => match nth_error row j with None => Undef IndexOOB
      | Some _ => Val (upd j (fun _ => k) row) end))) l (Val row) = Val row' /\
    length row' = n /\ forall j, nth j row' 0 = if mem j l then wv j else nth j row 0.
Proof.
  induction l as [|x l IH]; intros H row Ln; cbn [fold_left].
  - exists row; split; [reflexivity|split; [exact Ln|]]. intros j. reflexivity.
  - destruct (H x (or_introl eq_refl)) as [Hx Hw]. cbn [obind]. rewrite Hw. cbn [obind].
    assert (Hx' : (x < length row)%nat) by (rewrite Ln; exact Hx). rewrite (nth_error_nth' row 0 Hx').
    destruct (IH (fun j Hj => H j (or_intror Hj)) (upd x (fun _ => wv x) row)) as [row' [F [Ln' N]]]; [rewrite upd_length; exact Ln|].
    exists row'; split; [exact F|split; [exact Ln'|]]. intros j. rewrite N, nth_upd by exact Hx'. cbn [mem existsb]. fold (mem j l).
    destruct (Nat.eqb_spec j x) as [->|]; cbn [orb]; [destruct (mem x l); reflexivity|reflexivity].
Qed.
(* the whole matrix, for any way [w] of reading a weight that succeeds on the listed neighbours *)
Lemma weight_matrix_gen n (g : @dgraph Z) (w : nat -> nat -> outcome Z) (wv : nat -> nat -> Z) : length (adj g) = size g -> n = size g ->
  (forall i j, In j (nb g i) -> (j < n)%nat /\ w i j = Val (wv i j)) ->
  weight_matrix n g w = Val (map (fun i => map (fun j => if mem j (nb g i) then wv i j else 0) (seq 0 n)) (seq 0 n)).
Proof.
  intros E -> H. unfold weight_matrix. apply omapM_val. intros i Hi. apply in_seq in Hi. rewrite (out_nb g i E) by lia. cbn [obind].
  destruct (w_row_acc (size g) (w i) (wv i) (nb g i) (H i) (repeat 0 (size g)) (repeat_length 0 (size g))) as [row' [F [Ln N]]]. rewrite F. f_equal.
  apply (nth_ext _ _ 0 0); [rewrite map_length, seq_length; exact Ln|]. intros j Hj. rewrite Ln in Hj. rewrite N, nth_repeat, nth_map_seq by exact Hj. reflexivity.
Qed.

(* ================= DirectedWeightedGraph ================= *)
Section DWUsers.
Notation V := repaired.
Implicit Types m : mgraph.
(* the stored weight of (i, j) is [mult m i j] (MultiUsers): the label of the pair, 0 when there is none *)
Lemma dw_get_weight_present m i j thr : TInv m -> In j (nb (mg m) i) -> dw_get_weight m i j thr = Val (mult m i j).
Proof. intros TI H. pose proof (t_inv _ TI) as I. destruct (i_rng _ _ I i j H) as [Hi Hj]. unfold dw_get_weight, get_label, in_range, mult, lget.
  rewrite (proj2 (Nat.ltb_lt _ _) Hi), (proj2 (Nat.ltb_lt _ _) Hj). cbn [andb]. pose proof (i_lab _ _ I) as IL. cbn in IL. apply IL in H.
  destruct (lfind (i, j) (labels (mg m))); [reflexivity|congruence]. Qed.
Lemma dw_get_weight_absent m i j thr : TInv m -> (i < size (mg m))%nat -> (j < size (mg m))%nat -> ~ In j (nb (mg m) i) ->
  dw_get_weight m i j thr = if thr then Raise InvalidArgument else Val 0.
Proof. intros TI Hi Hj N. pose proof (t_inv _ TI) as I. unfold dw_get_weight, get_label, in_range.
  rewrite (proj2 (Nat.ltb_lt _ _) Hi), (proj2 (Nat.ltb_lt _ _) Hj). cbn [andb]. pose proof (i_lab _ _ I) as IL. cbn in IL.
  destruct (lfind (i, j) (labels (mg m))) eqn:F; [|reflexivity]. exfalso. apply N, IL. congruence. Qed.

Definition dw_cell m (i j : nat) : Z := if mem j (nb (mg m) i) then mult m i j else 0.       (* weight if the edge is present, else 0 *)
Theorem dw_weight_matrix_val m : TInv m ->
  weight_matrix (size (mg m)) (mg m) (fun i j => dw_get_weight m i j true) = Val (map (fun i => map (fun j => dw_cell m i j) (seq 0 (size (mg m)))) (seq 0 (size (mg m)))).
Proof. intros TI. pose proof (t_inv _ TI) as I. apply (weight_matrix_gen _ (mg m) _ (mult m) (i_len _ _ I) eq_refl).
  intros i j H. split; [apply (i_rng _ _ I i j H)|apply dw_get_weight_present; auto]. Qed.
Lemma dw_cell_mult m i j : TInv m -> dw_cell m i j = mult m i j.
Proof. intros TI. unfold dw_cell. destruct (mem j (nb (mg m) i)) eqn:M; [reflexivity|]. symmetry. apply mult_absent; auto. apply mem_false; exact M. Qed.
Corollary dw_weight_matrix_entry m M i j : TInv m -> weight_matrix (size (mg m)) (mg m) (fun i j => dw_get_weight m i j true) = Val M ->
  (i < size (mg m))%nat -> (j < size (mg m))%nat -> nth j (nth i M []) 0 = if mem j (nb (mg m) i) then mult m i j else 0.
Proof. intros TI E Hi Hj. rewrite (dw_weight_matrix_val m TI) in E. injection E as <-.
  rewrite (nth_map_seq (fun i => map (fun j => dw_cell m i j) (seq 0 (size (mg m)))) (size (mg m)) i [] Hi).
  apply (nth_map_seq (fun j => dw_cell m i j) (size (mg m)) j 0 Hj). Qed.

(* the inherited observers are those of the labelled directed class on the graph part (DirectedUsers) *)
Corollary dw_in_degrees_val m : TInv m -> in_degrees V (mg m) = Val (map (cnt_snd (flatten (mg m))) (seq 0 (size (mg m)))).
Proof. intros TI. apply (in_degrees_val true), (t_inv _ TI). Qed.
Corollary dw_in_degree_val m v : TInv m -> (v < size (mg m))%nat -> in_degree V (mg m) v = Val (cnt_snd (flatten (mg m)) v).
Proof. intros TI. apply (in_degree_val true), (t_inv _ TI). Qed.
Corollary dw_out_degrees_val m : TInv m -> out_degrees (mg m) = Val (map (fun i => length (nb (mg m) i)) (seq 0 (size (mg m)))).
Proof. intros TI. apply (out_degrees_val true), (t_inv _ TI). Qed.
Corollary dw_adjacency_matrix_val m : TInv m ->
  adjacency_matrix V (mg m) = Val (map (fun i => map (fun j => if mem j (nb (mg m) i) then 1 else 0)%nat (seq 0 (size (mg m)))) (seq 0 (size (mg m)))).
Proof. intros TI. rewrite (adjacency_matrix_val true (mg m) (t_inv _ TI)). f_equal. apply map_ext. intros i. apply map_ext. intros j.
  apply (cnt_edge_flatten true), (t_inv _ TI). Qed.
End DWUsers.

(* ================= UndirectedWeightedGraph ================= *)
Section UWUsers.
Notation V := repaired.
Implicit Types m : mgraph.
(* the stored weight of {i, j} is [umult m i j] (MultiUsers): the label under the key (min, max), 0 when there is none *)
Lemma uw_get_weight_present m i j : UTInv m -> In j (nb (mg m) i) -> uw_get_weight m i j true = Val (umult m i j).
Proof. intros TI H. apply u_get_label_edge; auto. Qed.

Definition uw_cell m (i j : nat) : Z := if mem j (nb (mg m) i) then umult m i j else 0.
Theorem uw_weight_matrix_val m : UTInv m ->
  weight_matrix (size (mg m)) (mg m) (fun i j => uw_get_weight m i j true) = Val (map (fun i => map (fun j => uw_cell m i j) (seq 0 (size (mg m)))) (seq 0 (size (mg m)))).
Proof. intros TI. pose proof (ut_inv _ TI) as I. apply (weight_matrix_gen _ (mg m) _ (umult m) (u_len _ _ I) eq_refl).
  intros i j H. split; [apply (u_rng _ _ I i j H)|apply uw_get_weight_present; auto]. Qed.
Lemma uw_cell_umult m i j : UTInv m -> uw_cell m i j = umult m i j.
Proof. intros TI. unfold uw_cell. destruct (mem j (nb (mg m) i)) eqn:M; [reflexivity|]. symmetry. apply umult_absent; auto. apply mem_false; exact M. Qed.
Lemma uw_cell_sym m i j : UTInv m -> uw_cell m i j = uw_cell m j i.
Proof. intros TI. rewrite !uw_cell_umult by exact TI. apply umult_sym. Qed.
Corollary uw_weight_matrix_entry m M i j : UTInv m -> weight_matrix (size (mg m)) (mg m) (fun i j => uw_get_weight m i j true) = Val M ->
  (i < size (mg m))%nat -> (j < size (mg m))%nat -> nth j (nth i M []) 0 = if mem j (nb (mg m) i) then umult m i j else 0.
Proof. intros TI E Hi Hj. rewrite (uw_weight_matrix_val m TI) in E. injection E as <-.
  rewrite (nth_map_seq (fun i => map (fun j => uw_cell m i j) (seq 0 (size (mg m)))) (size (mg m)) i [] Hi).
  apply (nth_map_seq (fun j => uw_cell m i j) (size (mg m)) j 0 Hj). Qed.
Corollary uw_weight_matrix_symmetric m M i j : UTInv m -> weight_matrix (size (mg m)) (mg m) (fun i j => uw_get_weight m i j true) = Val M ->
  (i < size (mg m))%nat -> (j < size (mg m))%nat -> nth j (nth i M []) 0 = nth i (nth j M []) 0.
Proof. intros TI E Hi Hj. rewrite (uw_weight_matrix_entry m M i j TI E Hi Hj), (uw_weight_matrix_entry m M j i TI E Hj Hi). apply (uw_cell_sym m i j TI). Qed.

(* the inherited observers are those of the labelled undirected class on the graph part (UndirectedUsers) *)
Corollary uw_degree_val m v twice : UTInv m -> (v < size (mg m))%nat -> u_degree (mg m) v twice = Val (udegree (mg m) twice v).
Proof. intros TI. apply (u_degree_val true), (ut_inv _ TI). Qed.
Corollary uw_degrees_val m twice : UTInv m -> u_degrees (mg m) twice = Val (map (udegree (mg m) twice) (seq 0 (size (mg m)))).
Proof. intros TI. apply (u_degrees_val true), (ut_inv _ TI). Qed.
Corollary uw_adjacency_matrix_val m twice : UTInv m ->
  u_adjacency_matrix (mg m) twice = Val (map (fun i => map (fun j => ucell (mg m) twice i j) (seq 0 (size (mg m)))) (seq 0 (size (mg m)))).
Proof. intros TI. apply (u_adjacency_matrix_val true), (ut_inv _ TI). Qed.
End UWUsers.

(* closed checks.  Weights in units of 1/4 as in the harness.  Directed: 0->1 weight 6, 1->1 weight -2.  Undirected: {0,0} weight 5, {1,0} weight 7. *)
Example dw_matrix_example :
  let m := fst (dw_step repaired (fst (dw_step repaired (dm_init 3) (WAdd 0 1 6 false))) (WAdd 1 1 (-2) false)) in
  weight_matrix 3 (mg m) (fun i j => dw_get_weight m i j true) = Val [[0; 6; 0]; [0; -2; 0]; [0; 0; 0]].
Proof. vm_compute. reflexivity. Qed.
Example uw_matrix_example :
  let m := fst (uw_step repaired true (fst (uw_step repaired true (dm_init 3) (WAdd 0 0 5 false))) (WAdd 1 0 7 false)) in
  weight_matrix 3 (mg m) (fun i j => uw_get_weight m i j true) = Val [[5; 7; 0]; [7; 0; 0]; [0; 0; 0]] /\
  u_adjacency_matrix (mg m) true = Val [[2; 1; 0]; [1; 0; 0]; [0; 0; 0]]%nat.
Proof. vm_compute. split; reflexivity. Qed.

Print Assumptions dw_weight_matrix_val.
Print Assumptions uw_weight_matrix_val.
Print Assumptions uw_weight_matrix_symmetric.
