(* FloatTotal — executable floating-point model of the running total kept by DirectedWeightedGraph / UndirectedWeightedGraph.

   C++:  long double totalWeight (x87 extended: 64-bit significand, emax 16384, round to nearest even); edge weights are double (binary64).
     addEdge(s,d,w) on an absent edge      totalWeight += w                         (w converted exactly, ONE extended addition)
     addEdge on a present edge (force off) nothing
     setEdgeWeight on a present edge       totalWeight += newWeight - currentWeight (DOUBLE subtraction, converted exactly, one extended addition)
     setEdgeWeight on an absent edge       = addEdge
     removeEdge on a present edge          totalWeight -= weight * 1                (double product by (double)1 - exact -, one extended subtraction)
     removeEdge on an absent edge          directed: totalWeight -= 0.0 * 0  (x - (+0) = x for every x);  undirected: not touched
     clearEdges                            totalWeight = 0
     getTotalWeight                        directed: returns long double;  undirected: returns EdgeWeight = double, i.e. ROUNDS the total to binary64

   Floats are Flocq's [binary_float] (BinarySingleNaN).  Flocq's own [Bplus]/[Bminus]/[Bmult] carry opaque proof terms which [vm_compute]
   drags along (about 2.7 ms per extended addition, growing with emax); the operations used here recompute the validity bit instead
   ([mkB]) and run the proof-free [SpecFloat] algorithms on the underlying triples: 5000 additions take 0.2 s.  FloatTotalProofs.v proves
   [fadd = Bplus mode_NE], [fsub = Bminus mode_NE], [fmul = Bmult mode_NE] and that the conversions are the exact / correctly rounded ones. *)
From Coq Require Import ZArith List Bool Arith Floats.SpecFloat.
From Flocq Require Import Core BinarySingleNaN Operations.
Import ListNotations.
Local Open Scope Z_scope.

Section Fast.
  Variable prec emax : Z.
  (* a float from a triple: the validity bit is recomputed, so no proof has to be supplied (invalid triples - never produced below - give NaN) *)
  Definition mkfin (s : bool) (m : positive) (e : Z) (b : bool) : SpecFloat.bounded prec emax m e = b -> binary_float prec emax :=
    match b as b' return SpecFloat.bounded prec emax m e = b' -> binary_float prec emax with
    | true => fun H => B754_finite s m e H
    | false => fun _ => B754_nan
    end.
  Definition mkB (x : spec_float) : binary_float prec emax :=
    match x with
    | S754_zero s => B754_zero s
    | S754_infinity s => B754_infinity s
    | S754_nan => B754_nan
    | S754_finite s m e => mkfin s m e (SpecFloat.bounded prec emax m e) eq_refl
    end.
  Definition fadd (x y : binary_float prec emax) : binary_float prec emax := mkB (SFadd prec emax (B2SF x) (B2SF y)).
  Definition fsub (x y : binary_float prec emax) : binary_float prec emax := mkB (SFsub prec emax (B2SF x) (B2SF y)).
  Definition fmul (x y : binary_float prec emax) : binary_float prec emax := mkB (SFmul prec emax (B2SF x) (B2SF y)).
  (* rounding (to nearest even) of any float of another format into this one *)
  Definition fconv {prec' emax' : Z} (x : binary_float prec' emax') : binary_float prec emax :=
    match x with
    | B754_zero s => B754_zero s
    | B754_infinity s => B754_infinity s
    | B754_nan => B754_nan
    | B754_finite s m e _ => mkB (SpecFloat.binary_round prec emax s m e)
    end.
End Fast.

Definition dbl := binary_float 53 1024.
Definition ext := binary_float 64 16384.
Definition dsub : dbl -> dbl -> dbl := fsub 53 1024.
Definition dmul : dbl -> dbl -> dbl := fmul 53 1024.
Definition eadd : ext -> ext -> ext := fadd 64 16384.
Definition esub : ext -> ext -> ext := fsub 64 16384.
Definition ext_of_dbl (x : dbl) : ext := fconv 64 16384 x.      (* exact: every double is an extended number *)
Definition dbl_of_ext (x : ext) : dbl := fconv 53 1024 x.       (* rounds; the undirected getter does this *)
Definition dzero : dbl := B754_zero false.
Definition ezero : ext := B754_zero false.
Definition done : dbl := mkB 53 1024 (S754_finite false 4503599627370496 (-52)).   (* 1.0 = (double)(size_t)1 *)

(* IEEE binary64 bit pattern (as an unsigned 64-bit integer) -> double *)
Definition dbl_of_bits (b : Z) : dbl :=
  let s := Z.odd (b / 9223372036854775808) in
  let ex := (b / 4503599627370496) mod 2048 in
  let fr := b mod 4503599627370496 in
  mkB 53 1024
    (if ex =? 0 then match fr with Zpos p => S754_finite s p (-1074) | _ => S754_zero s end
     else if ex =? 2047 then (if fr =? 0 then S754_infinity s else S754_nan)
     else match fr + 4503599627370496 with Zpos p => S754_finite s p (ex - 1075) | _ => S754_nan end).
(* and back (NaN gives the default quiet NaN) *)
Definition bits_of_dbl (x : dbl) : Z :=
  match x with
  | B754_zero s => if s then 9223372036854775808 else 0
  | B754_infinity s => (if s then 9223372036854775808 else 0) + 2047 * 4503599627370496
  | B754_nan => 2047 * 4503599627370496 + 2251799813685248
  | B754_finite s m e _ =>
    (if s then 9223372036854775808 else 0) +
    (if Zpos m <? 4503599627370496 then Zpos m else (e + 1075) * 4503599627370496 + (Zpos m - 4503599627370496))
  end.
(* k/4 as a double (the differential harness passes weights in units of 1/4) *)
Definition dbl_of_quarters (k : Z) : dbl := mkB 53 1024 (SpecFloat.binary_normalize 53 1024 k (-2) false).

(* canonical printable form of a float: (sign 0/1, odd mantissa, exponent) with value = (-1)^sign * mantissa * 2^exponent;
   zeros are (sign,0,0); infinities and NaN are (2,0,0) *)
Fixpoint strip2 (m : positive) (e : Z) : positive * Z := match m with xO p => strip2 p (e + 1) | _ => (m, e) end.
Definition triple_of {prec emax : Z} (x : binary_float prec emax) : Z * Z * Z :=
  match x with
  | B754_zero s => (if s then 1 else 0, 0, 0)
  | B754_finite s m e _ => let (m', e') := strip2 m e in (if s then 1 else 0, Zpos m', e')
  | _ => (2, 0, 0)
  end.
Definition ext_triple (x : ext) : Z * Z * Z := triple_of x.
Definition dbl_triple (x : dbl) : Z * Z * Z := triple_of x.

(* ---- state, operations ---- *)
Record fstate := { fw : list (nat * nat * dbl); ftot : ext }.
Inductive fop := FAdd (i j : nat) (w : dbl) | FSet (i j : nat) (w : dbl) | FRemove (i j : nat) | FClear.
Definition finit : fstate := {| fw := []; ftot := ezero |}.
Definition fkey (und : bool) (i j : nat) : nat * nat := if und then (Nat.min i j, Nat.max i j) else (i, j).
Definition keq (a b : nat * nat) : bool := Nat.eqb (fst a) (fst b) && Nat.eqb (snd a) (snd b).
Fixpoint flook (k : nat * nat) (l : list (nat * nat * dbl)) : option dbl :=
  match l with [] => None | (k', w) :: t => if keq k k' then Some w else flook k t end.
Fixpoint fupd (k : nat * nat) (w : dbl) (l : list (nat * nat * dbl)) : list (nat * nat * dbl) :=
  match l with [] => [] | (k', w') :: t => if keq k k' then (k', w) :: t else (k', w') :: fupd k w t end.
Fixpoint fdel (k : nat * nat) (l : list (nat * nat * dbl)) : list (nat * nat * dbl) :=
  match l with [] => [] | (k', w') :: t => if keq k k' then t else (k', w') :: fdel k t end.

Definition fadd_edge (st : fstate) (k : nat * nat) (w : dbl) : fstate :=
  match flook k (fw st) with
  | Some _ => st
  | None => {| fw := (k, w) :: fw st; ftot := eadd (ftot st) (ext_of_dbl w) |}
  end.
Definition fstep (und : bool) (st : fstate) (o : fop) : fstate :=
  match o with
  | FAdd i j w => fadd_edge st (fkey und i j) w
  | FSet i j w =>
    let k := fkey und i j in
    match flook k (fw st) with
    | Some cur => {| fw := fupd k w (fw st); ftot := eadd (ftot st) (ext_of_dbl (dsub w cur)) |}
    | None => fadd_edge st k w
    end
  | FRemove i j =>
    let k := fkey und i j in
    match flook k (fw st) with
    | Some cur => {| fw := fdel k (fw st); ftot := esub (ftot st) (ext_of_dbl (dmul cur done)) |}
    | None => if und then st else {| fw := fw st; ftot := esub (ftot st) (ext_of_dbl (dmul dzero dzero)) |}
    end
  | FClear => {| fw := []; ftot := ezero |}
  end.
Fixpoint frun_from (und : bool) (st : fstate) (ops : list fop) : fstate :=
  match ops with [] => st | o :: t => frun_from und (fstep und st o) t end.
Definition frun (und : bool) (ops : list fop) : fstate := frun_from und finit ops.
(* the internal totals after every operation *)
Fixpoint ftotals_from (und : bool) (st : fstate) (ops : list fop) : list ext :=
  match ops with [] => [] | o :: t => let st' := fstep und st o in ftot st' :: ftotals_from und st' t end.
Definition ftotals (und : bool) (ops : list fop) : list ext := ftotals_from und finit ops.
Definition ftrace (und : bool) (ops : list fop) : list (Z * Z * Z) := map ext_triple (ftotals und ops).
(* what getTotalWeight() returns: the long double itself (directed), the total rounded to double (undirected) *)
Definition fobs (und : bool) (t : ext) : Z * Z * Z := if und then dbl_triple (dbl_of_ext t) else ext_triple t.
Definition fobs_trace (und : bool) (ops : list fop) : list (Z * Z * Z) := map (fobs und) (ftotals und ops).
(* no overflow / no NaN anywhere: every intermediate total is finite (this forces every weight that entered the total to be finite) *)
Definition fok (und : bool) (ops : list fop) : bool := forallb is_finite (ftotals und ops).

(* ---- computable exact quantities (dyadic numbers mantissa * 2^exponent, Flocq's [float radix2] with its exact operations):
   the exact real sum of the stored weights, the exact error of the total, and the accumulated rounding-error bound of FloatTotalProofs.v ---- *)
Definition B2F {prec emax : Z} (x : binary_float prec emax) : float radix2 :=
  match x with B754_finite s m e _ => Float radix2 (SpecFloat.cond_Zopp s (Zpos m)) e | _ => Float radix2 0 0 end.
Definition F0 : float radix2 := Float radix2 0 0.
Definition u64F : float radix2 := Float radix2 1 (-64).
Definition u53F : float radix2 := Float radix2 1 (-53).
Fixpoint rsumF (l : list (nat * nat * dbl)) : float radix2 := match l with [] => F0 | (_, w) :: t => Fplus (B2F w) (rsumF t) end.
Definition flocalF (und : bool) (st : fstate) (o : fop) : float radix2 :=
  match o with
  | FAdd i j w => match flook (fkey und i j) (fw st) with Some _ => F0 | None => Fmult u64F (Fabs (Fplus (B2F (ftot st)) (B2F w))) end
  | FSet i j w =>
    match flook (fkey und i j) (fw st) with
    | Some cur => Fplus (Fmult u64F (Fabs (Fplus (B2F (ftot st)) (B2F (dsub w cur))))) (Fmult u53F (Fabs (Fminus (B2F w) (B2F cur))))
    | None => Fmult u64F (Fabs (Fplus (B2F (ftot st)) (B2F w)))
    end
  | FRemove i j => match flook (fkey und i j) (fw st) with Some cur => Fmult u64F (Fabs (Fminus (B2F (ftot st)) (B2F cur))) | None => F0 end
  | FClear => F0
  end.
Definition faccF (und : bool) (st : fstate) (E : float radix2) (o : fop) : float radix2 :=
  match o with FClear => F0 | _ => Fplus E (flocalF und st o) end.
Fixpoint fboundF_from (und : bool) (st : fstate) (E : float radix2) (ops : list fop) : float radix2 :=
  match ops with [] => E | o :: t => fboundF_from und (fstep und st o) (faccF und st E o) t end.
Definition fboundF (und : bool) (ops : list fop) : float radix2 := fboundF_from und finit F0 ops.
Definition ferrF (und : bool) (ops : list fop) : float radix2 :=
  let st := frun und ops in Fabs (Fminus (B2F (ftot st)) (rsumF (fw st))).
Definition Fleb (a b : float radix2) : bool := let '(ma, mb, _) := Falign a b in Z.leb ma mb.
(* the statement of the error theorem as a boolean: |total - exact sum| <= bound *)
Definition fcheck (und : bool) (ops : list fop) : bool := Fleb (ferrF und ops) (fboundF und ops).
Definition fpair (f : float radix2) : Z * Z := (Fnum f, Fexp f).

(* ---- closed examples: 0.1, 0.2, 0.3 ---- *)
Definition d01 : dbl := dbl_of_bits 0x3FB999999999999A.
Definition d02 : dbl := dbl_of_bits 0x3FC999999999999A.
Definition d03 : dbl := dbl_of_bits 0x3FD3333333333333.
Definition ex_ops : list fop :=
  [FAdd 0 1 d01; FAdd 1 2 d02; FAdd 2 0 d03; FSet 0 1 d03; FRemove 1 2; FAdd 1 0 d02; FSet 2 0 d01; FRemove 0 1; FRemove 2 0; FRemove 1 0; FRemove 1 0;
   FAdd 3 4 d01; FAdd 4 3 d02; FClear; FAdd 0 0 d03].
Definition d1e16 : dbl := dbl_of_bits 0x4341C37937E08000.
(* a history in which the extended additions do round (1e16 + 0.1 needs more than 64 bits) *)
Definition ex_ops2 : list fop :=
  [FAdd 0 1 d1e16; FAdd 1 2 d01; FAdd 2 3 d02; FSet 1 2 d03; FRemove 0 1; FAdd 3 0 d03; FRemove 2 3; FSet 3 0 d01; FRemove 1 2; FRemove 3 0].
(* 400 additions (all ordered pairs of 20 vertices; the undirected class keeps 210 of them) *)
Definition ex_ops3 : list fop :=
  flat_map (fun i => map (fun j => FAdd i j (if Nat.even (i + j) then d01 else d03)) (seq 0 20)) (seq 0 20).

(* The values below were also produced by the C++ classes themselves (harness/impl_float.cpp on x86-64, g++): identical, bit for bit. *)
Example ex_weights : (dbl_triple d01, dbl_triple d02, dbl_triple d03, dbl_triple d1e16)
  = ((0, 3602879701896397, -55), (0, 3602879701896397, -54), (0, 5404319552844595, -54), (0, 152587890625, 16)).
Proof. vm_compute. reflexivity. Qed.
(* DirectedWeightedGraph(5): the long double total after every call (no rounding happens here: sums of fewer than about 2000 weights of
   magnitude 0.1 .. 0.3 fit in 64 bits, and the double difference 0.3 - 0.1 of call 4 happens to be exact) *)
Example ex_trace_directed : ftrace false ex_ops =
  [(0, 3602879701896397, -55); (0, 10808639105689191, -55); (0, 21617278211378381, -55); (0, 14411518807585587, -54);
   (0, 5404319552844595, -53); (0, 14411518807585587, -54); (0, 21617278211378381, -55); (0, 10808639105689191, -55);
   (0, 3602879701896397, -54); (0, 0, 0); (0, 0, 0); (0, 3602879701896397, -55); (0, 10808639105689191, -55); (0, 0, 0);
   (0, 5404319552844595, -54)].
Proof. vm_compute. reflexivity. Qed.
(* UndirectedWeightedGraph(5): internal long double total, and what getTotalWeight() returns (the total rounded to double) *)
Example ex_trace_undirected : ftrace true ex_ops =
  [(0, 3602879701896397, -55); (0, 10808639105689191, -55); (0, 21617278211378381, -55); (0, 14411518807585587, -54);
   (0, 5404319552844595, -53); (0, 5404319552844595, -53); (0, 14411518807585587, -55); (0, 3602879701896397, -55);
   (0, 0, 0); (0, 0, 0); (0, 0, 0); (0, 3602879701896397, -55); (0, 3602879701896397, -55); (0, 0, 0); (0, 5404319552844595, -54)].
Proof. vm_compute. reflexivity. Qed.
Example ex_getter_undirected : fobs_trace true ex_ops =
  [(0, 3602879701896397, -55); (0, 1351079888211149, -52); (0, 5404319552844595, -53); (0, 3602879701896397, -52);
   (0, 5404319552844595, -53); (0, 5404319552844595, -53); (0, 3602879701896397, -53); (0, 3602879701896397, -55);
   (0, 0, 0); (0, 0, 0); (0, 0, 0); (0, 3602879701896397, -55); (0, 3602879701896397, -55); (0, 0, 0); (0, 5404319552844595, -54)].
Proof. vm_compute. reflexivity. Qed.
(* 1e16 + 0.1 + 0.2, then 0.1 -> 0.3: the extended additions round (after call 3 the total is 1e16 + 307/1024 for a real sum of 1e16 + 0.3000000000000000166) *)
Example ex2_trace_directed : ftrace false ex_ops2 =
  [(0, 152587890625, 16); (0, 5120000000000000051, -9); (0, 10240000000000000307, -10); (0, 20000000000000001, -1); (0, 1, -1);
   (0, 14411518807585587, -54); (0, 5404319552844595, -53); (0, 14411518807585587, -55); (0, 3602879701896397, -55); (0, 0, 0)].
Proof. vm_compute. reflexivity. Qed.
Example ex2_getter_undirected : fobs_trace true ex_ops2 =
  [(0, 152587890625, 16); (0, 152587890625, 16); (0, 152587890625, 16); (0, 152587890625, 16); (0, 1, -1);
   (0, 3602879701896397, -52); (0, 5404319552844595, -53); (0, 3602879701896397, -53); (0, 3602879701896397, -55); (0, 0, 0)].
Proof. vm_compute. reflexivity. Qed.
Example ex3_totals : (ext_triple (ftot (frun false ex_ops3)), ext_triple (ftot (frun true ex_ops3)), fobs true (ftot (frun true ex_ops3)))
  = ((0, 360287970189639675, -52), (0, 738590338888761335, -54), (0, 41, 0)).
Proof. vm_compute. reflexivity. Qed.
(* setEdgeWeight with a rounding DOUBLE subtraction: 0.3 -> 1e16 adds rnd53(1e16 - 0.3) = 1e16; undirected call 4 sets {0,1} back to 0.2 *)
Definition ex_ops4 : list fop := [FAdd 0 1 d03; FSet 0 1 d1e16; FAdd 1 2 d01; FSet 1 0 d02; FRemove 1 2; FRemove 1 0].
Example ex4_trace_directed : ftrace false ex_ops4 =
  [(0, 5404319552844595, -54); (0, 10240000000000000307, -10); (0, 10240000000000000409, -10); (0, 5120000000000000307, -9);
   (0, 20000000000000001, -1); (0, 10240000000000000307, -10)].
Proof. vm_compute. reflexivity. Qed.
Example ex4_getter_undirected : fobs_trace true ex_ops4 =
  [(0, 5404319552844595, -54); (0, 152587890625, 16); (0, 152587890625, 16); (0, 409, -10); (0, 2696882120608973, -53); (0, 3581769078643097, -55)].
Proof. vm_compute. reflexivity. Qed.
(* no overflow anywhere *)
Example ex_ok : map (fun ops => (fok false ops, fok true ops)) [ex_ops; ex_ops2; ex_ops3; ex_ops4] = [(true, true); (true, true); (true, true); (true, true)].
Proof. vm_compute. reflexivity. Qed.
(* the error theorem, evaluated: |total - real sum| <= accumulated bound (FloatTotalProofs.fcheck_true proves this for every history with fok) *)
Example ex_check : map (fun ops => (fcheck false ops, fcheck true ops)) [ex_ops; firstn 3 ex_ops2; ex_ops2; ex_ops3; firstn 4 ex_ops4; ex_ops4]
  = [(true, true); (true, true); (true, true); (true, true); (true, true); (true, true)].
Proof. vm_compute. reflexivity. Qed.
(* exact error and bound as (mantissa, exponent): after 3 calls of ex_ops2, after the 400 additions, after 4 calls of ex_ops4 (undirected) *)
Eval vm_compute in (fpair (ferrF false (firstn 3 ex_ops2)), fpair (fboundF false (firstn 3 ex_ops2))).
Time Eval vm_compute in (fpair (ferrF false ex_ops3), fpair (fboundF false ex_ops3)).
Eval vm_compute in (fpair (ferrF true (firstn 4 ex_ops4)), fpair (fboundF true (firstn 4 ex_ops4))).
Eval vm_compute in ftrace false ex_ops.
Eval vm_compute in ftrace false ex_ops2.
