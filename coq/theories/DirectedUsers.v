(* Observers defined by enumerating edges (getInDegrees, getInDegree, getAdjacencyMatrix, getOutDegrees): defined on every graph that
   satisfies the invariant, size 0 included, and equal to the obvious counts over the adjacency lists. *)
From BG Require Import Base DirectedModel DirectedProofs DirectedIter.
Local Open Scope nat_scope.

Lemma bump_spec : forall (d : list nat) v, v < length d -> bump v d = Some (upd v S d).
Proof. induction d as [|x t IH]; intros [|v] H; simpl in *; try lia; auto. rewrite IH by lia. reflexivity. Qed.
Lemma bump_none : forall (d : list nat) v, length d <= v -> bump v d = None.
Proof. induction d as [|x t IH]; intros [|v] H; simpl in *; try lia; auto. rewrite IH by lia. reflexivity. Qed.

Definition cnt_snd (es : list edge) (j : nat) : nat := length (filter (fun e => Nat.eqb (snd e) j) es).
Definition cnt_edge (es : list edge) (e : edge) : nat := length (filter (edge_eqb e) es).

Lemma in_degrees_of_acc (es : list edge) : forall (d : list nat), (forall e, In e es -> snd e < length d) ->
  exists d', fold_left (fun acc e => obind acc (fun d => match bump (snd e) d with Some d' => Val d' | None => Undef IndexOOB end)) es (Val d) = Val d' /\
             length d' = length d /\ forall j, nth j d' 0 = nth j d 0 + cnt_snd es j.
Proof.
  induction es as [|e es IH]; intros d H; cbn [fold_left].
  - exists d; repeat split; auto.
  - cbn [obind]. rewrite bump_spec by (apply H; simpl; auto).
    destruct (IH (upd (snd e) S d)) as [d' [F [Ln N]]].
    { intros e' He'. rewrite upd_length. apply H; simpl; auto. }
    exists d'; split; auto. split; [rewrite Ln, upd_length; auto|].
    intros j. rewrite N. unfold cnt_snd; cbn [filter]. rewrite nth_upd by (apply H; simpl; auto).
    rewrite (Nat.eqb_sym j (snd e)). destruct (Nat.eqb_spec (snd e) j) as [<-|]; cbn [length]; lia.
Qed.
Lemma in_degrees_of_val n (es : list edge) : (forall e, In e es -> snd e < n) ->
  in_degrees_of n es = Val (map (cnt_snd es) (seq 0 n)).
Proof.
  intros H. unfold in_degrees_of. destruct (in_degrees_of_acc es (repeat 0 n)) as [d' [F [Ln N]]].
  { intros e He; rewrite repeat_length; auto. }
  rewrite F. f_equal. rewrite repeat_length in Ln. apply (nth_ext _ _ 0 0); [rewrite map_length, seq_length; auto|].
  intros j Hj. rewrite Ln in Hj. rewrite N, nth_repeat, nth_map_seq by auto. reflexivity.
Qed.

(* matrix rows *)
Lemma bump2_spec (m : list (list nat)) i j : i < length m -> j < length (nth i m []) ->
  bump2 i j m = Some (upd i (upd j S) m).
Proof. intros Hi Hj. unfold bump2. rewrite (nth_error_nth' m [] Hi), bump_spec by auto.
  f_equal. clear Hj. revert i Hi. induction m as [|x t IH]; intros [|i] Hi; simpl in *; try lia; auto. f_equal. apply IH; lia. Qed.
Definition mat_ok (n : nat) (m : list (list nat)) : Prop := length m = n /\ forall i, i < n -> length (nth i m []) = n.
Lemma matrix_of_acc n (es : list edge) : forall m, mat_ok n m -> (forall e, In e es -> fst e < n /\ snd e < n) ->
  exists m', fold_left (fun acc e => obind acc (fun m => match bump2 (fst e) (snd e) m with Some m' => Val m' | None => Undef IndexOOB end)) es (Val m) = Val m' /\
             mat_ok n m' /\ forall i j, nth j (nth i m' []) 0 = nth j (nth i m []) 0 + cnt_edge es (i, j).
Proof.
  induction es as [|e es IH]; intros m [L1 L2] H; cbn [fold_left].
  - exists m; repeat split; auto; try (intros; unfold cnt_edge; simpl; lia).
  - cbn [obind]. destruct (H e (or_introl eq_refl)) as [H1 H2].
    rewrite bump2_spec by (rewrite ?L1, ?L2; auto).
    destruct (IH (upd (fst e) (upd (snd e) S) m)) as [m' [F [OK N]]].
    { split; [rewrite upd_length; auto|]. intros i Hi. rewrite nth_upd by lia. destruct (Nat.eqb i (fst e)); [rewrite upd_length|]; auto. }
    { intros e' He'; apply H; simpl; auto. }
    exists m'; split; auto. split; auto. intros i j. rewrite N. unfold cnt_edge; cbn [filter]. rewrite nth_upd by lia.
    destruct e as [a b]; cbn [fst snd] in *. unfold edge_eqb at 2; cbn [fst snd].
    destruct (Nat.eqb_spec i a) as [->|Ni]; cbn [andb].
    + rewrite nth_upd by (rewrite L2; auto). destruct (Nat.eqb_spec j b) as [->|]; cbn [length]; lia.
    + lia.
Qed.
Lemma matrix_of_val n (es : list edge) : (forall e, In e es -> fst e < n /\ snd e < n) ->
  matrix_of n es = Val (map (fun i => map (fun j => cnt_edge es (i, j)) (seq 0 n)) (seq 0 n)).
Proof.
  intros H. unfold matrix_of. destruct (matrix_of_acc n es (repeat (repeat 0 n) n)) as [m' [F [[L1 L2] N]]]; auto.
  { split; [apply repeat_length|]. intros i Hi. rewrite (nth_indep _ [] (repeat 0 n)) by (rewrite repeat_length; auto). rewrite nth_repeat. apply repeat_length. }
  rewrite F. f_equal. apply (nth_ext _ _ [] []); [rewrite map_length, seq_length; auto|].
  intros i Hi. rewrite L1 in Hi. rewrite nth_map_seq by auto.
  apply (nth_ext _ _ 0 0); [rewrite map_length, seq_length; auto|].
  intros j Hj. rewrite L2 in Hj by auto. rewrite N, nth_map_seq by auto.
  rewrite (nth_indep (repeat _ _) [] (repeat 0 n)) by (rewrite repeat_length; auto). rewrite !nth_repeat. reflexivity.
Qed.

Section Users.
Context {L : Type}.
Variable has_store : bool.
Notation dgraph := (@dgraph L).
Implicit Types g : dgraph.
Notation V := repaired.

Lemma In_flatten g i j : In (i, j) (flatten g) <-> i < size g /\ In j (nb g i).
Proof. unfold flatten, rows_from. rewrite in_flat_map. split.
  - intros [x [Hx H]]. apply in_map_iff in H as [y [E H]]. injection E as -> ->. apply in_seq in Hx. split; [lia|auto].
  - intros [Hi H]. exists i; split; [apply in_seq; lia|apply in_map; auto]. Qed.

Theorem in_degrees_val g : Inv has_store g -> in_degrees V g = Val (map (cnt_snd (flatten g)) (seq 0 (size g))).
Proof. intros I. unfold in_degrees. rewrite (iterate_flatten g (i_len _ _ I)). cbn [obind]. apply in_degrees_of_val.
  intros [i j] H. apply In_flatten in H as [_ H]. apply (i_rng _ _ I) in H. cbn; lia. Qed.
Theorem in_degree_val g v : Inv has_store g -> v < size g -> in_degree V g v = Val (cnt_snd (flatten g) v).
Proof. intros I Hv. unfold in_degree. rewrite (proj2 (in_range_true g v) Hv), (iterate_flatten g (i_len _ _ I)). reflexivity. Qed.
Theorem adjacency_matrix_val g : Inv has_store g ->
  adjacency_matrix V g = Val (map (fun i => map (fun j => cnt_edge (flatten g) (i, j)) (seq 0 (size g))) (seq 0 (size g))).
Proof. intros I. unfold adjacency_matrix. rewrite (iterate_flatten g (i_len _ _ I)). cbn [obind]. apply matrix_of_val.
  intros [i j] H. apply In_flatten in H as [_ H]. apply (i_rng _ _ I) in H. cbn; lia. Qed.
Lemma omapM_val {A B} (f : A -> outcome B) (h : A -> B) (l : list A) : (forall x, In x l -> f x = Val (h x)) -> omapM f l = Val (map h l).
Proof. induction l as [|x t IH]; intros H; cbn [omapM map]; auto. rewrite H by (simpl; auto). cbn [obind]. rewrite IH by (intros; apply H; simpl; auto). reflexivity. Qed.
Theorem out_degrees_val g : Inv has_store g -> out_degrees g = Val (map (fun i => length (nb g i)) (seq 0 (size g))).
Proof. intros I. unfold out_degrees. apply omapM_val. intros i Hi. apply in_seq in Hi. unfold out_degree.
  rewrite (out_nb g i (i_len _ _ I)) by lia. reflexivity. Qed.

(* counting lemmas that connect the enumeration with membership (each edge exactly once) *)
Lemma cnt_edge_flat_map (f : nat -> list nat) (vs : list nat) i j : NoDup vs ->
  length (filter (edge_eqb (i, j)) (flat_map (fun k => map (pair k) (f k)) vs)) = if mem i vs then count j (f i) else 0.
Proof.
  induction 1 as [|x vs Hx ND IH]; cbn [flat_map mem existsb]; auto.
  rewrite filter_app, app_length.
  assert (R : length (filter (edge_eqb (i, j)) (map (pair x) (f x))) = if Nat.eqb i x then count j (f x) else 0).
  { unfold count. induction (f x) as [|y t IHt]; cbn [map filter]; [destruct (Nat.eqb i x); auto|].
    unfold edge_eqb at 1; cbn [fst snd]. destruct (Nat.eqb_spec i x) as [->|]; cbn [andb]; [|auto].
    destruct (Nat.eqb j y); cbn [length]; rewrite IHt; auto. }
  etransitivity; [apply f_equal2; [exact R|exact IH]|]. fold (mem i vs). destruct (Nat.eqb_spec i x) as [->|N]; cbn [orb].
  - assert (mem x vs = false) as -> by (apply mem_false; auto). lia.
  - reflexivity.
Qed.
Lemma count_nodup j l : NoDup l -> count j l = if mem j l then 1 else 0.
Proof. unfold count. induction 1 as [|x l Hx ND IH]; cbn [filter mem existsb]; auto.
  destruct (Nat.eqb_spec j x) as [->|]; cbn [orb length].
  - rewrite IH. assert (mem x l = false) as -> by (apply mem_false; auto). reflexivity.
  - apply IH. Qed.
Theorem cnt_edge_flatten g i j : Inv has_store g -> cnt_edge (flatten g) (i, j) = if mem j (nb g i) then 1 else 0.
Proof. intros I. unfold cnt_edge, flatten, rows_from, row. rewrite cnt_edge_flat_map by apply seq_NoDup.
  destruct (mem i (seq 0 (size g))) eqn:M.
  - apply count_nodup, (i_nodup _ _ I).
  - assert (~ In i (seq 0 (size g))) by (apply mem_false; auto). rewrite in_seq in H.
    destruct (mem j (nb g i)) eqn:M2; auto. apply mem_In, (i_rng _ _ I) in M2. lia. Qed.
End Users.
