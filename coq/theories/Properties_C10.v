(* C10 — Subgraph extraction returns exactly the induced subgraph.  Statements only; proofs in TopologyProofs.v.
   Proved for directed graphs (TopologyProofs.v) and for undirected graphs (UFoldProofs.v, UTopologyProofs.v): every label type, every
   duplicate-free iteration order of the unordered_set, every subset incl. empty and full. *)
From BG Require Import Base DirectedModel DirectedProofs UndirectedModel UndirectedProofs Equality TopologyModel TopologyProofs UFoldProofs UTopologyProofs.

(* getSubgraph(g, S): as many vertices as g, exactly the edges of g with both endpoints in S, with their labels *)
Theorem C10_subgraph_is_induced : forall (L : Type) (ldef : L) hs (g : @dgraph L) (so : list nat),
  Inv hs g -> NoDup so -> (forall i, In i so -> i < size g) ->
  exists h, subgraph ldef hs repaired false g so = Val h /\ Inv hs h /\ size h = size g /\
    (forall i j, In j (nb h i) <-> In i so /\ In j so /\ In j (nb g i)) /\
    (hs = true -> forall i j, In i so -> In j so -> lfind (i, j) (labels h) = if mem j (nb g i) then lfind (i, j) (labels g) else None).
Proof. intros L ldef hs g so I ND R; apply (subgraph_spec ldef hs g so I ND R). Qed.
Print Assumptions C10_subgraph_is_induced.

(* getSubgraphWithRemap(g, S): |S| vertices; the returned map sends S one-to-one ONTO 0..|S|-1, and under it the result has exactly the
   edges and labels of the induced subgraph *)
Theorem C10_subgraph_with_remap : forall (L : Type) (ldef : L) hs (g : @dgraph L) (so : list nat),
  Inv hs g -> NoDup so -> (forall i, In i so -> i < size g) ->
  exists h fm, subgraph_remap ldef hs repaired false g so = Val (h, fm) /\ Inv hs h /\ size h = length so /\
    fm = map (fun v => (v, index_of v so)) so /\
    (forall v, In v so -> index_of v so < length so) /\
    (forall x y, In x so -> In y so -> index_of x so = index_of y so -> x = y) /\
    (forall k, k < length so -> exists v, In v so /\ index_of v so = k) /\
    (forall i j, In i so -> In j so -> (In (index_of j so) (nb h (index_of i so)) <-> In j (nb g i))) /\
    (hs = true -> forall i j, In i so -> In j so -> lfind (index_of i so, index_of j so) (labels h) = if mem j (nb g i) then lfind (i, j) (labels g) else None).
Proof. intros L ldef hs g so I ND R; apply (subgraph_remap_spec ldef hs g so I ND R). Qed.
Print Assumptions C10_subgraph_with_remap.

(* C07 companion: a subset containing a vertex >= getSize() makes both functions throw std::out_of_range (the input graph is const) *)
Theorem C10_out_of_range_subset : forall (L : Type) (ldef : L) hs und (g : @dgraph L) (v : nat), size g <= v ->
  subgraph ldef hs repaired und g [v] = Raise OutOfRange /\ subgraph_remap ldef hs repaired und g [v] = Raise OutOfRange.
Proof. intros L ldef hs und g v H. unfold subgraph, subgraph_remap, sub_loop, in_range. cbn [fold_left obind].
  assert (Nat.ltb v (size g) = false) as -> by (apply Nat.ltb_ge; exact H). auto. Qed.
Print Assumptions C10_out_of_range_subset.

Example C10_example :
  let g := fst (run true repaired (init 4) [AddEdge 0 1 7%Z false; AddEdge 1 3 5%Z false; AddEdge 3 3 2%Z false; AddEdge 3 0 9%Z false]) in
  omap (fun h => (adj h, labels h)) (subgraph 0%Z true repaired false g [3; 1]) = Val ([[]; [3]; []; [3]], [((1, 3), 5%Z); ((3, 3), 2%Z)]) /\
  omap (fun r => (adj (fst r), snd r)) (subgraph_remap 0%Z true repaired false g [3; 1]) = Val ([[0]; [0]], [(3, 0); (1, 1)]).
Proof. vm_compute. auto. Qed.

(* ---- the undirected instantiation (the loop meets every edge from both endpoints; the second, unforced insertion is ignored) ---- *)
Theorem C10_undirected_subgraph_is_induced : forall (L : Type) (ldef : L) hs (g : @dgraph L) (so : list nat),
  InvU hs g -> NoDup so -> (forall i, In i so -> i < size g) ->
  exists h, subgraph ldef hs repaired true g so = Val h /\ InvU hs h /\ KeysOK h /\ size h = size g /\
    (forall i j, In j (nb h i) <-> In i so /\ In j so /\ In j (nb g i)) /\
    (hs = true -> forall i j, In i so -> In j so -> lfind (ordered i j) (labels h) = if mem j (nb g i) then lfind (ordered i j) (labels g) else None) /\
    (forall i j, In j (nb h i) -> u_get_label ldef hs h i j true = u_get_label ldef hs g i j true).
Proof. intros L ldef hs g so. exact (subgraph_undirected_induced ldef hs g so). Qed.
Print Assumptions C10_undirected_subgraph_is_induced.
Theorem C10_undirected_subgraph_with_remap : forall (L : Type) (ldef : L) hs (g : @dgraph L) (so : list nat),
  InvU hs g -> NoDup so -> (forall i, In i so -> i < size g) ->
  exists h fm, subgraph_remap ldef hs repaired true g so = Val (h, fm) /\ InvU hs h /\ KeysOK h /\ size h = length so /\
    fm = map (fun v => (v, index_of v so)) so /\
    (forall v, In v so -> index_of v so < length so) /\
    (forall x y, In x so -> In y so -> index_of x so = index_of y so -> x = y) /\
    (forall k, k < length so -> exists v, In v so /\ index_of v so = k) /\
    (forall a b, In b (nb h a) <-> exists i j, a = index_of i so /\ b = index_of j so /\ In i so /\ In j so /\ In j (nb g i)) /\
    (forall i j, In i so -> In j so -> (In (index_of j so) (nb h (index_of i so)) <-> In j (nb g i))) /\
    (hs = true -> forall i j, In i so -> In j so ->
       lfind (ordered (index_of i so) (index_of j so)) (labels h) = if mem j (nb g i) then lfind (ordered i j) (labels g) else None) /\
    (forall i j, In i so -> In j so -> In j (nb g i) ->
       u_get_label ldef hs h (index_of i so) (index_of j so) true = u_get_label ldef hs g i j true).
Proof. intros L ldef hs g so. exact (subgraph_remap_undirected ldef hs g so). Qed.
Print Assumptions C10_undirected_subgraph_with_remap.
