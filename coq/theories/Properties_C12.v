(* C12 — Dijkstra returns true minimum weighted distances and a consistent tree.  Statements only; proofs in Dj.v / DjPred.v / PathsProofs.v.
   The model is choice-driven: it accepts ANY pop sequence in which every popped vertex is a member of the worklist of minimum tentative
   distance, so nothing is assumed about the layout or tie-breaking of std::make_heap / std::pop_heap.  Weights are exact (N); rounding
   ("within rounding error otherwise") is not modelled. *)
From Coq Require Import List Arith NArith Lia.
From BG Require Import Base Dj DjPred PathsModel PathsProofs.
Import ListNotations.

Theorem C12_dijkstra_correct : forall (g : Dj.wadj) (s : nat) (cs : list nat) (o : dj_out), Dj.wf g -> s < length g ->
  dijkstra true g s cs = Val o -> do_legal o = true -> do_done o = true ->
  (forall v, match nth v (do_dist o) None with
             | Some d => Dj.walk g s v d /\ (forall d', Dj.walk g s v d' -> (d <= d')%N)
             | None => forall d', ~ Dj.walk g s v d' end) /\
  nth s (do_pred o) None = Some s /\
  (forall v, nth v (do_dist o) None = None -> nth v (do_pred o) None = None) /\
  (forall v d, v <> s -> nth v (do_dist o) None = Some d ->
     exists p dp w, nth v (do_pred o) None = Some p /\ nth p (do_dist o) None = Some dp /\ In (v, w) (nth p g []) /\ d = (dp + w)%N) /\
  do_pops o <= 1 + Dj.edges_total g /\ do_pops o = length cs.
Proof. intros g s cs o W H E L D. exact (dijkstra_spec g s W H cs o E L D). Qed.
Print Assumptions C12_dijkstra_correct.

(* termination, zero weights and cycles included: a legal pop exists whenever the worklist is non-empty, and every legal run has at most
   1 + E pops (C12_dijkstra_correct), so every maximal legal run is finite and ends with an empty worklist *)
Theorem C12_progress : forall (st : Dj.dj), Dj.work st <> [] -> exists c, Dj.legal st c = true.
Proof. intros st H. exact (dijkstra_progress [[]] 0 (Nat.lt_0_succ 0) st H). Qed.
Print Assumptions C12_progress.

(* the pinned commit popped without the comparator: on this graph it pops vertex 2 (tentative distance 3) while vertex 1 (distance 1) waits *)
Example C12_refuted_on_pinned :
  let g : Dj.wadj := [[(2, 3%N); (1, 1%N)]; [(2, 1%N)]; []] in
  match Dj.step g (Dj.init 3 0) 0 with Some st => Dj.legal st 2 = false /\ Dj.legal st 1 = true | None => False end.
Proof. vm_compute. auto. Qed.
Example C12_example :
  let g : Dj.wadj := [[(2, 3%N); (1, 1%N)]; [(2, 1%N); (0, 0%N)]; []] in
  omap (fun o => (do_dist o, do_pred o, do_legal o && do_done o)) (dijkstra true g 0 [0; 1; 2; 2]) = Val ([Some 0%N; Some 1%N; Some 2%N], [Some 0; Some 0; Some 1], true).
Proof. vm_compute. reflexivity. Qed.
