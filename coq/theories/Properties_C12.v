(* C12 — Dijkstra returns true minimum weighted distances and a consistent tree.  Statements only; proofs in Dj.v / DjPred.v / PathsProofs.v.
   The model is choice-driven: it accepts ANY pop sequence in which every popped vertex is a member of the worklist of minimum tentative
   distance, so nothing is assumed about the layout or tie-breaking of std::make_heap / std::pop_heap.  In the first group of theorems
   weights are exact (N); the floating-point half ("within rounding error otherwise") is at the end of the file. *)
From Coq Require Import List Arith NArith Lia.
From BG Require Import Base Dj DjPred PathsModel PathsProofs.
Import ListNotations.

Theorem C12_dijkstra_correct : forall (g : Dj.wadj) (s : nat) (cs : list nat) (o : dj_out), Dj.wf g -> s < length g ->
  dijkstra true g s cs = Val o -> do_legal o = true -> do_done o = true ->
  (forall v, match nth v (do_dist o) None with
             | Some d => Dj.walk g s v d /\ (forall d', Dj.walk g s v d' -> (d <= d')%N)
             | None => forall d', ~ Dj.walk g s v d' end) /\
  nth s (do_pred o) None = Some s /\
  (forall v, nth v (do_dist o) None = None -> nth v (do_pred o) None = None) /\
  (forall v d, v <> s -> nth v (do_dist o) None = Some d ->
     exists p dp w, nth v (do_pred o) None = Some p /\ nth p (do_dist o) None = Some dp /\ In (v, w) (nth p g []) /\ d = (dp + w)%N) /\
  do_pops o <= 1 + Dj.edges_total g /\ do_pops o = length cs.
Proof. intros g s cs o W H E L D. exact (dijkstra_spec g s W H cs o E L D). Qed.
Print Assumptions C12_dijkstra_correct.

(* termination, zero weights and cycles included: a legal pop exists whenever the worklist is non-empty, and every legal run has at most
   1 + E pops (C12_dijkstra_correct), so every maximal legal run is finite and ends with an empty worklist *)
Theorem C12_progress : forall (st : Dj.dj), Dj.work st <> [] -> exists c, Dj.legal st c = true.
Proof. intros st H. exact (dijkstra_progress [[]] 0 (Nat.lt_0_succ 0) st H). Qed.
Print Assumptions C12_progress.

(* the pinned commit popped without the comparator: on this graph it pops vertex 2 (tentative distance 3) while vertex 1 (distance 1) waits *)
Example C12_refuted_on_pinned :
  let g : Dj.wadj := [[(2, 3%N); (1, 1%N)]; [(2, 1%N)]; []] in
  match Dj.step g (Dj.init 3 0) 0 with Some st => Dj.legal st 2 = false /\ Dj.legal st 1 = true | None => False end.
Proof. vm_compute. auto. Qed.
Example C12_example :
  let g : Dj.wadj := [[(2, 3%N); (1, 1%N)]; [(2, 1%N); (0, 0%N)]; []] in
  omap (fun o => (do_dist o, do_pred o, do_legal o && do_done o)) (dijkstra true g 0 [0; 1; 2; 2]) = Val ([Some 0%N; Some 1%N; Some 2%N], [Some 0; Some 0; Some 1], true).
Proof. vm_compute. reflexivity. Qed.

(* ---- the floating-point half ("within rounding error otherwise").  FloatDj.v: the same choice-driven search over an ABSTRACT distance type
   with a monotone, inflationary extension operator (C12_generic_dijkstra: minimal path costs for every accepted run - no cancellation law
   needed), instantiated with binary64 and ONE rounded addition per relaxation, as the C++ computes.  fdj_run is executable and is compared
   bit for bit with findGeodesicsDijkstra on graphs with arbitrary non-negative double weights.  The float distances do not depend on the
   order of legal pops, obey the predecessor equation with the rounded addition, lie within (1 -+ 2^-53)^(n-1) of the true real minimum, and
   ARE the true minimum when all weights are quarter-integers.  These theorems use Flocq and the Coq Reals (standard-library axioms of the
   classical reals, listed by Print Assumptions and in the trusted base). ---- *)
From Coq Require Import List Arith Reals.
From Flocq Require Import Core BinarySingleNaN.
From BG Require Import FloatTotal FloatTotalProofs FloatDj FloatDjProofs.
Theorem C12_generic_dijkstra :
  forall (D W : Type) (leb : D -> D -> bool) (zero : D) (ext : D -> W -> D) (okD : D -> Prop) (okW : W -> Prop),
        okD zero ->
        (forall (a : D) (w : W), okD a -> okW w -> okD (ext a w)) ->
        (forall a b : D, okD a -> okD b -> leb a b = true \/ leb b a = true) ->
        (forall a b c : D, leb a b = true -> leb b c = true -> leb a c = true) ->
        (forall (a b : D) (w : W), okD a -> okD b -> okW w -> leb a b = true -> leb (ext a w) (ext b w) = true) ->
        (forall (a : D) (w : W), okD a -> okW w -> leb a (ext a w) = true) ->
        forall (g : gadj W) (s : nat),
        gwf g ->
        gwok W okW g ->
        s < length g ->
        forall (cs : list nat) (st : gdj D),
        grun D W leb ext g (ginit D zero (length g) s) cs = Some st ->
        gwork st = [] ->
        forall v : nat,
        match ggetd (gdist st) v with
        | Some d => (exists p : gpath W, gwalk g s p v /\ gcost D W zero ext p = d) /\ (forall p : gpath W, gwalk g s p v -> leb d (gcost D W zero ext p) = true)
        | None => forall p : gpath W, ~ gwalk g s p v
        end.
Proof. exact FloatDjProofs.gdj_distances. Qed.
Print Assumptions C12_generic_dijkstra.
Theorem C12_float_distances :
  forall (g : fadj) (s : nat) (cs : list nat) (ds : list (option dbl)) (ps : list (option nat)),
        fdj_run g s cs = Some (ds, ps) ->
        length ds = length g /\
        (forall v : nat,
         match nth v ds None with
         | Some d =>
             BinarySingleNaN.is_finite d = true /\
             okd d = true /\ (exists p : gpath dbl, gwalk g s p v /\ fcost p = d) /\ (forall p : gpath dbl, gwalk g s p v -> dleb d (fcost p) = true)
         | None => forall p : gpath dbl, ~ gwalk g s p v
         end).
Proof. exact FloatDjProofs.fdj_distances. Qed.
Print Assumptions C12_float_distances.
Theorem C12_float_predecessors :
  forall (g : fadj) (s : nat) (cs : list nat) (ds : list (option dbl)) (ps : list (option nat)),
        fdj_run g s cs = Some (ds, ps) ->
        length ps = length g /\
        nth s ds None = Some dzero /\
        nth s ps None = Some s /\
        (forall v : nat, nth v ds None = None -> nth v ps None = None) /\
        (forall (v : nat) (d : dbl),
         v <> s -> nth v ds None = Some d -> exists (p : nat) (dp w : dbl), nth v ps None = Some p /\ nth p ds None = Some dp /\ In (v, w) (nth p g []) /\ d = dadd dp w).
Proof. exact FloatDjProofs.fdj_predecessors. Qed.
Print Assumptions C12_float_predecessors.
Theorem C12_float_distances_schedule_independent :
  forall (g : fadj) (s : nat) (cs1 cs2 : list nat) (ds1 : list (option dbl)) (ps1 : list (option nat)) (ds2 : list (option dbl)) (ps2 : list (option nat)),
        fdj_run g s cs1 = Some (ds1, ps1) -> fdj_run g s cs2 = Some (ds2, ps2) -> ds1 = ds2.
Proof. exact FloatDjProofs.fdj_distances_unique. Qed.
Print Assumptions C12_float_distances_schedule_independent.
Theorem C12_float_rounding_bound :
  forall (g : fadj) (s : nat) (cs : list nat) (ds : list (option dbl)) (ps : list (option nat)),
        fdj_run g s cs = Some (ds, ps) ->
        forall (v : nat) (d : dbl),
        nth v ds None = Some d ->
        exists t : Rdefinitions.RbaseSymbolsImpl.R,
          true_dist g s v t /\
          Rdefinitions.Rle (Rdefinitions.RbaseSymbolsImpl.Rmult t (Rpow_def.pow (Rdefinitions.Rminus (Rdefinitions.IZR 1) FloatTotalProofs.u53) (length g - 1)))
            (BinarySingleNaN.B2R d) /\
          Rdefinitions.Rle (BinarySingleNaN.B2R d)
            (Rdefinitions.RbaseSymbolsImpl.Rmult t (Rpow_def.pow (Rdefinitions.RbaseSymbolsImpl.Rplus (Rdefinitions.IZR 1) FloatTotalProofs.u53) (length g - 1))).
Proof. exact FloatDjProofs.fdj_rounding_bound. Qed.
Print Assumptions C12_float_rounding_bound.
Theorem C12_float_exact_on_quarters :
  forall (g : fadj) (s : nat) (cs : list nat) (ds : list (option dbl)) (ps : list (option nat)),
        fdj_run g s cs = Some (ds, ps) -> gquarters g -> length g <= 1024 -> forall (v : nat) (d : dbl), nth v ds None = Some d -> true_dist g s v (BinarySingleNaN.B2R d).
Proof. exact FloatDjProofs.fdj_exact. Qed.
Print Assumptions C12_float_exact_on_quarters.
