(* The repaired undirected model refines the unordered-pair spec: one step, every valid history, and what the observers report (C02, C03). *)
From BG Require Import Base DirectedModel DirectedProofs DirectedIter DirectedSpec UndirectedModel UndirectedProofs UndirectedIter UndirectedSpec.
Local Open Scope Z_scope.
Local Arguments Z.of_nat : simpl never.

Lemma ordered_eq_iff a b i j : ordered a b = ordered i j <-> (i = a /\ j = b) \/ (i = b /\ j = a).
Proof. unfold ordered. destruct (Nat.ltb_spec a b), (Nat.ltb_spec i j); split; intros HH; try (injection HH as -> ->); try lia; auto;
  destruct HH as [[-> ->]|[-> ->]]; try lia; try reflexivity; f_equal; lia. Qed.
Lemma ordered_fst_snd e : (fst e <= snd e)%nat -> ordered (fst e) (snd e) = e.
Proof. destruct e as [i j]; simpl. intros H. unfold ordered. destruct (Nat.ltb_spec i j); auto. f_equal; lia. Qed.
Lemma ordered_idem a b : ordered (fst (ordered a b)) (snd (ordered a b)) = ordered a b.
Proof. apply ordered_fst_snd, ordered_le. Qed.

Section URefine.
Context {L : Type}.
Variable has_store : bool.
Notation dgraph := (@dgraph L).
Notation sgraph := (@sgraph L).
Implicit Types (g : dgraph) (a : sgraph).
Notation InvU := (InvU has_store).
Notation ustep := (@ustep L has_store repaired).
Notation urun := (@urun L has_store repaired).

Record RfU g a : Prop := {
  ru_inv : InvU g;
  ru_size : size g = sn a;
  ru_mem : forall i j, In j (nb g i) <-> umem a i j = true;
  ru_lab : has_store = true -> forall e, lfind e (labels g) = lfind e (se a) }.

Lemma umem_sym a i j : umem a i j = umem a j i.
Proof. unfold umem, okey. rewrite (ordered_sym i j). reflexivity. Qed.
Lemma smem_add' a s d (l : L) e : smem e (s_add a s d l) = smem e a || edge_eqb (s, d) e.
Proof. unfold s_add. destruct (smem (s, d) a) eqn:M.
  - destruct (edge_eqb_spec (s, d) e) as [<-|]; [rewrite M; auto|rewrite orb_false_r; auto].
  - unfold smem; simpl. destruct (edge_eqb_spec (s, d) e) as [<-|]; [|rewrite orb_false_r; auto]. rewrite orb_true_r; auto. Qed.
Lemma sn_add a s d (l : L) : sn (s_add a s d l) = sn a.
Proof. unfold s_add; destruct (smem (s, d) a); auto. Qed.
Lemma mem_umem g a i j : RfU g a -> mem j (nb g i) = umem a i j.
Proof. intros R. destruct (umem a i j) eqn:X; [apply mem_In, (ru_mem _ _ R); auto|apply mem_false; rewrite (ru_mem _ _ R); congruence]. Qed.

Theorem ustep_refines g a o : RfU g a -> uvalid_op a o = true -> let '(g', r) := ustep g o in r = Done /\ RfU g' (uspec_step a o).
Proof.
  intros R Vd. pose proof R as [I S M LB]. destruct o as [x y l f|x y| |v| |n|x y l f|]; cbn [uvalid_op uspec_step UndirectedModel.ustep] in Vd |- *.
  - (* addEdge *) apply andb_prop in Vd as [Vd F]. apply andb_prop in Vd as [Hx Hy]. apply Nat.ltb_lt in Hx, Hy. rewrite <- S in Hx, Hy.
    destruct f; [discriminate|].
    pose proof (u_add_edge_spec has_store g x y l I Hx Hy) as H. destruct (u_add_edge has_store repaired g x y l false) as [g' r].
    destruct H as [-> [I' [S' [E' L']]]]. split; auto. constructor; auto.
    + rewrite S', sn_add; auto.
    + intros i j. rewrite E', M. unfold umem, okey. rewrite smem_add', orb_true_iff.
      rewrite <- surjective_pairing. destruct (edge_eqb_spec (ordered x y) (ordered i j)) as [E|NE].
      * apply ordered_eq_iff in E. tauto.
      * split; [intros [?|H]; [auto|exfalso; apply NE, ordered_eq_iff; auto]|intros [?|?]; [auto|discriminate]].
    + intros HS e. rewrite L', HS. cbn [andb].
      unfold s_add. rewrite <- !surjective_pairing. fold (okey x y). fold (umem a x y). rewrite (mem_umem g a x y R).
      destruct (umem a x y) eqn:U; cbn [negb].
      * rewrite andb_false_r. apply (LB HS).
      * rewrite andb_true_r. cbn [se lfind]. rewrite (LB HS). reflexivity.
  - (* removeEdge *) apply andb_prop in Vd as [Hx Hy]. apply Nat.ltb_lt in Hx, Hy. rewrite <- S in Hx, Hy.
    pose proof (u_remove_edge_spec has_store g x y I Hx Hy) as H. destruct (u_remove_edge g x y) as [g' r].
    destruct H as [-> [I' [S' [E' L']]]]. split; auto. constructor; auto; [rewrite S'; auto| |].
    + intros i j. rewrite E', M. unfold umem, okey, smem, s_remove; cbn [se]. rewrite <- surjective_pairing, lfind_lerase.
      destruct (edge_eqb_spec (ordered x y) (ordered i j)) as [E|NE].
      * apply ordered_eq_iff in E. split; [intros [_ [A B]]; tauto|discriminate].
      * split; [tauto|]. intros X; split; auto. split; intros [-> ->]; apply NE; [auto|apply ordered_sym].
    + intros HS e. rewrite L'. unfold s_remove; cbn [se]. rewrite <- surjective_pairing, lfind_lerase, (LB HS). auto.
  - (* removeSelfLoops *) pose proof (u_remove_self_loops_spec has_store g I) as H. destruct (u_remove_self_loops g) as [g' r].
    destruct H as [-> [I' [S' [E' L']]]]. split; auto. constructor; auto; [rewrite S'; auto| |].
    + intros i j. rewrite E', M. unfold umem, okey, smem, s_loops. rewrite lfind_s_filter. cbn [fst snd].
      destruct (ordered_cases i j) as [[-> Lt]|[-> Ge]]; cbn [fst snd].
      * destruct (Nat.eqb_spec i j); [lia|]. cbn [negb]. tauto.
      * destruct (Nat.eqb_spec j i) as [->|]; cbn [negb]; [split; [intros [_ X]; congruence|discriminate]|]. split; [tauto|]. intros X; split; auto.
    + intros HS [i j]. rewrite (L' HS). unfold s_loops. rewrite lfind_s_filter; cbn [fst snd]. rewrite <- (LB HS). destruct (Nat.eqb i j); auto.
  - (* removeVertexFromEdgeList *) apply Nat.ltb_lt in Vd. rewrite <- S in Vd.
    pose proof (u_remove_vertex_spec has_store g v I Vd) as H. destruct (u_remove_vertex repaired g v) as [g' r].
    destruct H as [-> [I' [S' [E' L']]]]. split; auto. constructor; auto; [rewrite S'; auto| |].
    + intros i j. rewrite E', M. unfold umem, okey, smem, s_rmv. rewrite lfind_s_filter.
      destruct (ordered_cases i j) as [[-> _]|[-> _]]; cbn [fst snd].
      * destruct (Nat.eqb_spec i v), (Nat.eqb_spec j v); cbn [orb negb]; split; try tauto; try discriminate; intros [? [? ?]]; congruence.
      * destruct (Nat.eqb_spec i v), (Nat.eqb_spec j v); cbn [orb negb]; split; try tauto; try discriminate; intros [? [? ?]]; congruence.
    + intros HS [i j]. rewrite (L' HS). unfold s_rmv. rewrite lfind_s_filter; cbn [fst snd]. rewrite <- (LB HS). destruct (Nat.eqb i v || Nat.eqb j v); auto.
  - (* clearEdges *) pose proof (u_clear_edges_spec has_store g I) as H. destruct (clear_edges repaired g) as [g' r].
    destruct H as [-> [I' [S' [E' L']]]]. split; auto. constructor; auto; [rewrite S'; auto| |].
    + intros i j. rewrite E'. unfold umem, smem; simpl. split; [intros []|discriminate].
    + intros _ e. rewrite L'; auto.
  - (* resize *) apply Nat.leb_le in Vd. rewrite <- S in Vd.
    pose proof (u_resize_spec has_store g n I Vd) as H. destruct (resize g n) as [g' r].
    destruct H as [-> [I' [S' [E' L']]]]. split; auto. constructor; auto.
    + intros i j. rewrite E'. apply M.
    + intros HS e. rewrite L'. apply (LB HS).
  - (* setEdgeLabel *) apply andb_prop in Vd as [Vd P]. apply andb_prop in Vd as [Vd F]. apply andb_prop in Vd as [Hx Hy].
    apply Nat.ltb_lt in Hx, Hy. rewrite <- S in Hx, Hy. destruct f; [discriminate|].
    rewrite (u_set_label_spec has_store g x y l I Hx Hy), (mem_umem g a x y R), P. split; auto.
    unfold s_setlabel. rewrite <- !surjective_pairing. fold (okey x y). unfold umem in P. rewrite P. constructor; cbn [size sn].
    + apply u_set_label_inv; auto. apply M; auto.
    + auto.
    + intros i j. unfold nb; cbn [adj]. fold (nb g i). rewrite M. unfold umem, smem; cbn [se]. rewrite lfind_lset.
      destruct (edge_eqb_spec (okey x y) (okey i j)) as [<-|]; [|reflexivity]. unfold smem in P. split; auto.
    + intros HS e. cbn [labels se]. unfold set_label. rewrite HS, !lfind_lset, (LB HS). auto.
  - (* removeDuplicateEdges *) rewrite (u_remove_duplicates_noop has_store g I). split; auto.
Qed.

Lemma u_init_refines n : RfU (init n) (s_init n).
Proof. assert (NB : forall i, nb (@init L n) i = []) by (intros i; unfold nb, init; simpl; apply nth_repeat).
  constructor; simpl; auto.
  - constructor; simpl; auto.
    + apply repeat_length.
    + intros i; rewrite NB; constructor.
    + intros i j; rewrite NB; intros [].
    + intros i j; rewrite NB; intros [].
    + unfold utotal. rewrite utotal_from_repeat_nil; auto.
    + destruct has_store; auto. intros i j; rewrite NB; simpl; split; [congruence|intros [_ []]].
  - intros i j; rewrite NB; unfold umem, smem; simpl; split; [intros []|discriminate].
Qed.
Theorem urun_refines ops : forall g a, RfU g a -> uvalid_history a ops = true ->
  let '(g', r) := urun g ops in r = Done /\ RfU g' (uspec_run a ops).
Proof. induction ops as [|o ops IH]; intros g a R Vd; simpl in *; auto.
  apply andb_prop in Vd as [V1 V2]. pose proof (ustep_refines g a o R V1) as H.
  destruct (UndirectedModel.ustep has_store repaired g o) as [g1 r1]. destruct H as [-> R1]. apply IH; auto. Qed.
End URefine.
