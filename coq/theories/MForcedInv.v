(* C16, DirectedMultigraph: the invariant kept by forced insertions whose copies all carry the same multiplicity
   ("totalEdgeNumber = sum over ENTRIES of the stored multiplicity of the entry's pair"), and the fact that removeDuplicateEdges
   turns it back into the full multigraph invariant TInv of Totals.v (totalEdgeNumber = sum of the stored multiplicities). *)
From BG Require Import Base DirectedModel DirectedProofs DirectedIter DirectedUsers DirectedSpec DirectedRefine DirectedObs Equality
  UndirectedModel UndirectedProofs MultiModel Totals MultiRefine Forced UForced MForced.
Local Open Scope Z_scope.
Local Arguments Z.of_nat : simpl never.
Local Arguments Z.add : simpl never.
Local Arguments Z.sub : simpl never.
Local Arguments Z.mul : simpl never.

Definition zsum (l : list Z) : Z := fold_right Z.add 0 l.
Lemma zsum_cons x l : zsum (x :: l) = x + zsum l. Proof. reflexivity. Qed.
Lemma zsum_app a b : zsum (a ++ b) = zsum a + zsum b.
Proof. induction a as [|x t IH]; cbn [app]; [cbn; lia|]. rewrite !zsum_cons, IH. lia. Qed.
Lemma wtotal_seq lab : forall rows k,
  wtotal_from k lab rows = zsum (map (fun i => wrow lab i (nth (i - k) rows [])) (seq k (length rows))).
Proof. induction rows as [|r rs IH]; intros k; cbn [wtotal_from length seq map]; [reflexivity|]. rewrite zsum_cons, Nat.sub_diag. cbn [nth].
  rewrite (IH (S k)). f_equal. f_equal. apply map_ext_in. intros i Hi. apply in_seq in Hi. replace (i - k)%nat with (S (i - S k)) by lia. reflexivity. Qed.
Lemma wtotal_nb (g : @dgraph Z) lab : length (adj g) = size g -> wtotal lab (adj g) = zsum (map (fun i => wrow lab i (nb g i)) (seq 0 (size g))).
Proof. intros E. unfold wtotal. rewrite wtotal_seq, E. f_equal. apply map_ext. intros i. rewrite Nat.sub_0_r. reflexivity. Qed.
Lemma zsum_point (f f' : nat -> Z) s k : forall n b, (forall i, f' i = f i + (if Nat.eqb i s then k else 0)) ->
  zsum (map f' (seq b n)) = zsum (map f (seq b n)) + (if Nat.leb b s && Nat.ltb s (b + n) then k else 0).
Proof. induction n as [|n IH]; intros b H; cbn [seq map].
  - rewrite Nat.add_0_r. unfold zsum; cbn [fold_right]. destruct (Nat.leb_spec b s), (Nat.ltb_spec s b); cbn [andb]; lia.
  - rewrite !zsum_cons, (IH (S b) H), (H b).
    destruct (Nat.eqb_spec b s) as [Ebs|Ne], (Nat.leb_spec b s), (Nat.leb_spec (S b) s), (Nat.ltb_spec s (b + S n)), (Nat.ltb_spec s (S b + n)); cbn [andb]; lia. Qed.
Lemma wrow_ext lab lab' i l : (forall x, In x l -> lget (i, x) lab' = lget (i, x) lab) -> wrow lab' i l = wrow lab i l.
Proof. intros H. rewrite !wrow_fsum. apply fsum_ext. exact H. Qed.
Lemma wrow_snoc lab i l x : wrow lab i (l ++ [x]) = wrow lab i l + lget (i, x) lab.
Proof. unfold wrow. induction l as [|y t IH]; cbn [app fold_right]; [lia|]. rewrite IH. lia. Qed.

(* sum of the stored multiplicities = weight of the entries, when every pair has exactly one entry *)
Definition esum (h : edge -> Z) (es : list edge) : Z := fold_right (fun e acc => h e + acc) 0 es.
Lemma esum_app h a b : esum h (a ++ b) = esum h a + esum h b.
Proof. unfold esum. induction a as [|x t IH]; cbn [app fold_right]; [lia|]. rewrite IH. lia. Qed.
Lemma esum_flat_map h (r : nat -> list edge) is : esum h (flat_map r is) = zsum (map (fun i => esum h (r i)) is).
Proof. induction is as [|i t IH]; cbn [flat_map map]; [reflexivity|]. rewrite esum_app, zsum_cons, IH. reflexivity. Qed.
Lemma esum_row lab i l : esum (fun e => lget e lab) (map (pair i) l) = wrow lab i l.
Proof. unfold esum, wrow. induction l as [|x t IH]; cbn [map fold_right]; [reflexivity|]. rewrite IH. reflexivity. Qed.
Lemma msum_graph (h : edge -> Z) es : msum (map (fun e => (e, h e)) es) = esum h es.
Proof. unfold msum, esum. induction es as [|x t IH]; cbn [map fold_right snd]; [reflexivity|]. rewrite IH. reflexivity. Qed.
Lemma lfind_graph_in (h : edge -> Z) es e : In e es -> lfind e (map (fun e => (e, h e)) es) = Some (h e).
Proof. induction es as [|x t IH]; cbn [map lfind In]; [tauto|]. destruct (edge_eqb_spec x e) as [->|Ne]; [reflexivity|]. intros [E|H]; [congruence|auto]. Qed.
Lemma lfind_graph_out (h : edge -> Z) es e : ~ In e es -> lfind e (map (fun e => (e, h e)) es) = None.
Proof. induction es as [|x t IH]; cbn [map lfind In]; [reflexivity|]. destruct (edge_eqb_spec x e) as [->|Ne]; [tauto|]. intros H. apply IH. tauto. Qed.

Lemma msum_wtotal (g : @dgraph Z) : Inv true g -> KeysOK g -> msum (labels g) = wtotal (labels g) (adj g).
Proof.
  intros I K. set (lab := labels g). set (m2 := map (fun e => (e, lget e lab)) (flatten g)).
  assert (K2 : NoDup (map fst m2)).
  { unfold m2. rewrite map_map. cbn [fst]. rewrite map_id. apply (NoDup_flatten true g I). }
  rewrite (msum_ext lab m2 K K2).
  - unfold m2. rewrite msum_graph. unfold flatten, rows_from. rewrite esum_flat_map. rewrite (wtotal_nb g lab (i_len _ _ I)).
    f_equal. apply map_ext. intros i. unfold row. apply esum_row.
  - intros [i j]. pose proof (i_lab _ _ I) as IL. cbn in IL. unfold m2. destruct (lfind (i, j) lab) as [v|] eqn:F.
    + assert (H : In j (nb g i)) by (apply IL; fold lab; congruence).
      rewrite lfind_graph_in; [unfold lget; rewrite F; reflexivity|]. apply DirectedUsers.In_flatten. split; auto. apply (i_rng _ _ I) in H. tauto.
    + rewrite lfind_graph_out; auto. intros H. apply DirectedUsers.In_flatten in H as [_ H]. apply IL in H. fold lab in H. congruence.
Qed.

Section MWeak.
Notation V := repaired.
Notation WInv := (@WInv Z true).
Notation Inv := (@Inv Z true).
Implicit Types m : mgraph.

(* the state invariant of the multigraph under forced insertions that repeat the stored multiplicity *)
Record MWInv m : Prop := { mw_inv : WInv (mg m); mw_keys : KeysOK (mg m); mw_tot : mtot m = wtotal (labels (mg m)) (adj (mg m)) }.

Theorem TInv_MWInv m : TInv m -> MWInv m.
Proof. intros [I K T]. constructor; [apply Inv_WInv; exact I|exact K|]. rewrite T. apply msum_wtotal; auto. Qed.
Theorem MWInv_TInv m : MWInv m -> (forall i, NoDup (nb (mg m) i)) -> TInv m.
Proof. intros [I K T] ND. pose proof (WInv_Inv true (mg m) I ND) as I'. constructor; auto. rewrite T. symmetry. apply msum_wtotal; auto. Qed.

(* a forced insertion that repeats the multiplicity already stored for the pair (or inserts an absent pair) keeps it *)
Theorem dm_forced_add_keeps m s d k : MWInv m -> (s < size (mg m))%nat -> (d < size (mg m))%nat -> k <> 0 ->
  (In d (nb (mg m) s) -> lget (s, d) (labels (mg m)) = k) ->
  exists m', dm_add_multiedge V m s d k true = (m', Done) /\ MWInv m' /\ mtot m' = mtot m + k /\ enum (mg m') = enum (mg m) + 1.
Proof.
  intros [I K T] Hs Hd Hk SAME.
  destruct (dm_forced_add_spec m s d k I Hs Hd Hk) as [m' [E [AE [I' [S' [T' [N' _]]]]]]].
  exists m'. split; auto. split; [|split; auto].
  assert (PE : push_edge true (mg m) s d k = (mg m', Done)).
  { unfold add_edge in AE. cbn [v_force_checks V] in AE. rewrite (proj2 (in_range_true (mg m) s) Hs), (proj2 (in_range_true (mg m) d) Hd) in AE. exact AE. }
  destruct (push_edge_weak true (mg m) s d k I Hs Hd) as [g' [E' [_ [_ [_ [NB LB]]]]]]. rewrite PE in E'. injection E' as <-.
  constructor; auto.
  - pose proof (keys_add_edge true V (mg m) s d k true K) as KA. rewrite AE in KA. exact KA.
  - rewrite T', T, (wtotal_nb (mg m) _ (w_len _ _ I)), (wtotal_nb (mg m') _ (w_len _ _ I')), S'.
    rewrite (zsum_point (fun i => wrow (labels (mg m)) i (nb (mg m) i)) (fun i => wrow (labels (mg m')) i (nb (mg m') i)) s k (size (mg m)) 0).
    + cbn [Nat.leb andb Nat.add]. rewrite (proj2 (Nat.ltb_lt _ _) Hs). reflexivity.
    + intros i. rewrite NB.
      assert (LG : forall e, lget e (labels (mg m')) = if edge_eqb (s, d) e then k else lget e (labels (mg m))).
      { intros e. unfold lget. rewrite LB. cbn [andb]. destruct (edge_eqb (s, d) e); reflexivity. }
      destruct (Nat.eqb_spec i s) as [->|Ne].
      * rewrite wrow_snoc, LG, edge_eqb_refl. f_equal. apply wrow_ext. intros x Hx. rewrite LG.
        destruct (edge_eqb_spec (s, d) (s, x)) as [E0|_]; [|reflexivity]. injection E0 as <-. symmetry. apply SAME. exact Hx.
      * rewrite Z.add_0_r. apply wrow_ext. intros x _. rewrite LG. destruct (edge_eqb_spec (s, d) (i, x)) as [E0|_]; [congruence|reflexivity].
Qed.

(* removeDuplicateEdges then restores the full multigraph invariant: one entry per pair, totalEdgeNumber = sum of the stored multiplicities *)
Theorem dm_remove_duplicates_restores m : MWInv m ->
  exists m', dm_remove_duplicates m = (m', Done) /\ TInv m' /\ size (mg m') = size (mg m) /\ labels (mg m') = labels (mg m) /\
    (forall i j, In j (nb (mg m') i) <-> In j (nb (mg m) i)) /\
    mtot m' = msum (labels (mg m)).
Proof.
  intros [I K T]. destruct (dm_remove_duplicates_spec m I) as [m' [E [RD [I' [L' [NB' [_ T']]]]]]].
  destruct (remove_duplicates_spec true (mg m) I) as [g' [E' [_ [S' [_ [_ [M' _]]]]]]]. rewrite RD in E'. injection E' as <-.
  assert (K' : KeysOK (mg m')) by (unfold KeysOK; rewrite L'; exact K).
  assert (TT : mtot m' = msum (labels (mg m'))).
  { rewrite T', T, (msum_wtotal (mg m') I' K'), L'. lia. }
  exists m'. split; auto. split; [constructor; auto|]. split; auto. split; auto. split; auto. rewrite TT, L'. reflexivity.
Qed.
End MWeak.
