From Coq Require Import List Arith NArith Lia Bool.
Import ListNotations.
Local Open Scope N_scope.

(* ---------- model ---------- *)
Definition wadj := list (list (nat * N)).
Definition dopt := option N.
Definition getd (d : list dopt) (v : nat) : dopt := nth v d None.
Definition dlt (a : N) (b : dopt) := match b with None => true | Some b => N.ltb a b end.
Definition dle (a b : dopt) := match a, b with _, None => true | None, Some _ => false | Some a, Some b => N.leb a b end.

Record dj := { dist : list dopt; pred : list (option nat); work : list nat }.

Fixpoint set_nth {A} (i:nat) (x:A) (l:list A) := match l, i with [], _ => [] | _::t, O => x::t | h::t, S i => h :: set_nth i x t end.
Fixpoint remove_one (v:nat) (l:list nat) := match l with [] => [] | h::t => if Nat.eqb h v then t else h :: remove_one v t end.

Definition relax1 (u:nat) (du:N) (st:dj) (e:nat*N) : dj :=
  if dlt (du + snd e) (getd (dist st) (fst e))
  then {| dist := set_nth (fst e) (Some (du + snd e)) (dist st); pred := set_nth (fst e) (Some u) (pred st); work := work st ++ [fst e] |}
  else st.

Definition legal (st:dj) (c:nat) : bool :=
  existsb (Nat.eqb c) (work st) && forallb (fun x => dle (getd (dist st) c) (getd (dist st) x)) (work st).

Definition step (g:wadj) (st:dj) (c:nat) : option dj :=
  if legal st c then
    match getd (dist st) c with
    | Some du => Some (fold_left (relax1 c du) (nth c g []) {| dist := dist st; pred := pred st; work := remove_one c (work st) |})
    | None => None end
  else None.

Fixpoint run (g:wadj) (st:dj) (cs:list nat) : option dj :=
  match cs with [] => Some st | c::cs => match step g st c with Some st' => run g st' cs | None => None end end.

Definition init (n s:nat) : dj := {| dist := set_nth s (Some 0) (repeat None n); pred := set_nth s (Some s) (repeat None n); work := [s] |}.

(* ---------- spec ---------- *)
Inductive walk (g:wadj) (s:nat) : nat -> N -> Prop :=
| w_nil : (s < length g)%nat -> walk g s s 0
| w_snoc u v d w : walk g s u d -> In (v,w) (nth u g []) -> walk g s v (d+w).
Definition wf (g:wadj) := forall u v w, In (v,w) (nth u g []) -> (v < length g)%nat.

(* ---------- list lemmas ---------- *)
Lemma set_nth_length {A} i (x:A) l : length (set_nth i x l) = length l.
Proof. revert i; induction l as [|h t IH]; intros [|i]; simpl; auto. Qed.
Lemma nth_set_nth_eq {A} i (x:A) l d : (i < length l)%nat -> nth i (set_nth i x l) d = x.
Proof. revert i; induction l as [|h t IH]; intros [|i] H; simpl in *; try lia; auto. apply IH; lia. Qed.
Lemma nth_set_nth_neq {A} i j (x:A) l d : i <> j -> nth j (set_nth i x l) d = nth j l d.
Proof. revert i j; induction l as [|h t IH]; intros [|i] [|j] H; simpl; auto; try congruence. Qed.
Lemma nth_repeat_None n v : nth v (repeat (@None N) n) None = None.
Proof. revert v; induction n; intros [|v]; simpl; auto. Qed.
Lemma In_remove_one_neq c x l : x <> c -> (In x (remove_one c l) <-> In x l).
Proof. intros H; induction l as [|h t IH]; simpl; [tauto|]. destruct (Nat.eqb_spec h c); subst; simpl; intuition congruence. Qed.
Lemma In_remove_one_sub c x l : In x (remove_one c l) -> In x l.
Proof. induction l as [|h t IH]; simpl; auto. destruct (Nat.eqb_spec h c); simpl; intuition. Qed.
Lemma remove_one_length c l : In c l -> S (length (remove_one c l)) = length l.
Proof. induction l as [|h t IH]; simpl; [tauto|]. destruct (Nat.eqb_spec h c); simpl; auto. intros [?|?]; [congruence|]. rewrite IH; auto. Qed.

Lemma dlt_false a b : dlt a b = false -> exists b', b = Some b' /\ b' <= a.
Proof. destruct b; simpl; [|discriminate]. intros H; apply N.ltb_ge in H; eauto. Qed.
Lemma dlt_true a b : dlt a b = true -> forall b', b = Some b' -> a < b'.
Proof. intros H b' ->; simpl in H; apply N.ltb_lt; auto. Qed.

(* ---------- the relax loop ---------- *)
Section Fold.
Variables (c : nat) (du : N).
Notation F := (fold_left (relax1 c du)).

Lemma dopt_eq_dec (a b : dopt) : {a = b} + {a <> b}.
Proof. decide equality; apply N.eq_dec. Qed.

Lemma relax1_cases st e :
  (relax1 c du st e = st /\ exists d0, getd (dist st) (fst e) = Some d0 /\ d0 <= du + snd e) \/
  (relax1 c du st e = {| dist := set_nth (fst e) (Some (du + snd e)) (dist st); pred := set_nth (fst e) (Some c) (pred st); work := work st ++ [fst e] |}
   /\ forall d0, getd (dist st) (fst e) = Some d0 -> du + snd e < d0).
Proof.
  unfold relax1; destruct (dlt (du + snd e) (getd (dist st) (fst e))) eqn:E.
  - right; split; auto; apply dlt_true; auto.
  - left; split; auto; apply dlt_false; auto.
Qed.

Lemma fold_len es : forall st, length (dist (F es st)) = length (dist st).
Proof. induction es as [|e es IH]; intros st; simpl; auto. rewrite IH.
  destruct (relax1_cases st e) as [[-> _]|[-> _]]; simpl; auto using set_nth_length. Qed.

Lemma fold_work_mono es : forall st x, In x (work st) -> In x (work (F es st)).
Proof. induction es as [|e es IH]; intros st x H; simpl; auto. apply IH.
  destruct (relax1_cases st e) as [[-> _]|[-> _]]; simpl; auto using in_or_app. Qed.

Lemma fold_work_len es : forall st, (length (work (F es st)) <= length (work st) + length es)%nat.
Proof. induction es as [|e es IH]; intros st; simpl; [lia|]. specialize (IH (relax1 c du st e)).
  destruct (relax1_cases st e) as [[E _]|[E _]]; rewrite E in *; simpl in *; [lia|]. rewrite app_length in IH; simpl in IH; lia. Qed.

Lemma fold_mono es : forall st v d0, getd (dist st) v = Some d0 -> exists d1, getd (dist (F es st)) v = Some d1 /\ d1 <= d0.
Proof. induction es as [|[y w] es IH]; intros st v d0 H; simpl; [exists d0; split; auto; lia|].
  destruct (relax1_cases st (y,w)) as [[E _]|[E Hlt]]; rewrite E; [apply IH; auto|]. simpl in *.
  destruct (Nat.eq_dec y v) as [Hv|Hne].
  - subst y. destruct (le_lt_dec (length (dist st)) v) as [Hl|Hl].
    + unfold getd in H; rewrite nth_overflow in H by lia; discriminate.
    + destruct (IH {| dist := set_nth v (Some (du + w)) (dist st); pred := set_nth v (Some c) (pred st); work := work st ++ [v] |} v (du + w)) as [d1 [H1 H2]].
      { simpl; unfold getd; apply nth_set_nth_eq; auto. }
      exists d1; split; auto. specialize (Hlt _ H); lia.
  - apply IH; simpl; unfold getd in *; rewrite nth_set_nth_neq; auto.
Qed.

Lemma fold_changed es : forall st v, getd (dist (F es st)) v <> getd (dist st) v ->
  In v (work (F es st)) /\ exists w, In (v,w) es /\ getd (dist (F es st)) v = Some (du + w).
Proof. induction es as [|[y w0] es IH]; intros st v H; simpl in *; [congruence|].
  destruct (dopt_eq_dec (getd (dist (F es (relax1 c du st (y,w0)))) v) (getd (dist (relax1 c du st (y,w0))) v)) as [Heq|Hne].
  - rewrite Heq in H. destruct (relax1_cases st (y,w0)) as [[E _]|[E _]]; rewrite E in *; [congruence|]. simpl in *.
    destruct (Nat.eq_dec y v) as [Hv|Hv]; [|unfold getd in H; rewrite nth_set_nth_neq in H; congruence].
    subst y. split; [apply fold_work_mono; simpl; apply in_or_app; right; simpl; auto|].
    exists w0; split; [left; auto|]. rewrite Heq.
    destruct (le_lt_dec (length (dist st)) v) as [Hl|Hl].
    + exfalso; apply H; unfold getd; rewrite !nth_overflow; auto; rewrite ?set_nth_length; lia.
    + unfold getd; apply nth_set_nth_eq; auto.
  - destruct (IH _ _ Hne) as [Hw [w [Hin Hv]]]; split; auto; exists w; split; auto.
Qed.

Lemma fold_relaxed es : forall st y w, In (y,w) es -> (y < length (dist st))%nat ->
  exists dy, getd (dist (F es st)) y = Some dy /\ dy <= du + w.
Proof. induction es as [|e es IH]; intros st y w Hin Hy; simpl in *; [tauto|]. destruct Hin as [->|Hin].
  - simpl in *. destruct (relax1_cases st (y,w)) as [[E [d0 [H0 Hle]]]|[E _]]; rewrite E; simpl in *.
    + destruct (fold_mono es st y d0 H0) as [d1 [H1 H2]]; exists d1; split; auto; lia.
    + destruct (fold_mono es {| dist := set_nth y (Some (du + w)) (dist st); pred := set_nth y (Some c) (pred st); work := work st ++ [y] |} y (du + w)) as [d1 [H1 H2]].
      { simpl; unfold getd; apply nth_set_nth_eq; auto. } exists d1; split; auto.
  - apply IH; auto. destruct (relax1_cases st e) as [[E _]|[E _]]; rewrite E; simpl; rewrite ?set_nth_length; auto.
Qed.

Lemma fold_noop es : forall st, (forall y w, In (y,w) es -> exists dy, getd (dist st) y = Some dy /\ dy <= du + w) -> F es st = st.
Proof. induction es as [|e es IH]; intros st H; simpl; auto.
  assert (E : relax1 c du st e = st).
  { unfold relax1. destruct (H (fst e) (snd e)) as [dy [Hy Hle]]; [left; destruct e; auto|]. rewrite Hy; simpl.
    destruct (N.ltb_spec (du + snd e) dy); auto; lia. }
  rewrite E; apply IH; intros; apply H; right; auto.
Qed.
Lemma fold_work_finite es : forall st x, (forall y w, In (y,w) es -> (y < length (dist st))%nat) ->
  In x (work (F es st)) -> In x (work st) \/ getd (dist (F es st)) x <> None.
Proof. induction es as [|[y w] es IH]; intros st x Hr H; simpl in *; auto.
  destruct (relax1_cases st (y,w)) as [[E _]|[E _]]; rewrite E in *.
  - apply IH; auto; intros; eapply Hr; eauto.
  - simpl in *. set (st1 := {| dist := set_nth y (Some (du + w)) (dist st); pred := set_nth y (Some c) (pred st); work := work st ++ [y] |}) in *.
    destruct (IH st1 x) as [Hw|Hf]; auto.
    + simpl; intros; rewrite set_nth_length; eapply Hr; eauto.
    + simpl in Hw. apply in_app_or in Hw as [Hw|[<-|[]]]; auto. right.
      destruct (fold_mono es st1 y (du + w)) as [d1 [H1 _]].
      { simpl; unfold getd; apply nth_set_nth_eq; eapply Hr; eauto. } fold st1; congruence.
Qed.
End Fold.

(* ---------- invariants: partial correctness ---------- *)
Section Inv.
Variables (g : wadj) (s : nat).
Hypothesis Hwf : wf g.
Let n := length g.

Record Inv (st : dj) : Prop := {
  i_len : length (dist st) = n;
  i_src : getd (dist st) s = Some 0;
  i_walk : forall v d, getd (dist st) v = Some d -> walk g s v d;
  i_closed : forall u du, getd (dist st) u = Some du -> ~ In u (work st) ->
             forall y w, In (y,w) (nth u g []) -> exists dy, getd (dist st) y = Some dy /\ dy <= du + w;
  i_work : forall u, In u (work st) -> getd (dist st) u <> None }.

Lemma legal_in st c : legal st c = true -> In c (work st).
Proof. unfold legal; intros H; apply andb_prop in H as [H _]. apply existsb_exists in H as [x [Hx E]]. apply Nat.eqb_eq in E; subst; auto. Qed.
Lemma legal_min st c : legal st c = true -> forall x, In x (work st) -> dle (getd (dist st) c) (getd (dist st) x) = true.
Proof. unfold legal; intros H x Hx; apply andb_prop in H as [_ H]. rewrite forallb_forall in H; auto. Qed.

Lemma step_inv st c st' : Inv st -> step g st c = Some st' -> Inv st'.
Proof.
  intros I H; unfold step in H. destruct (legal st c) eqn:L; [|discriminate].
  destruct (getd (dist st) c) as [du|] eqn:Dc; [|discriminate]. injection H as <-.
  set (st0 := {| dist := dist st; pred := pred st; work := remove_one c (work st) |}).
  assert (Hcw : walk g s c du) by (apply (i_walk _ I); auto).
  constructor.
  - rewrite fold_len; simpl; apply (i_len _ I).
  - destruct (fold_mono c du (nth c g []) st0 s 0) as [d1 [H1 H2]]; [apply (i_src _ I)|]. rewrite H1; f_equal; lia.
  - intros v d Hv.
    destruct (dopt_eq_dec (getd (dist (fold_left (relax1 c du) (nth c g []) st0)) v) (getd (dist st0) v)) as [E|E].
    + apply (i_walk _ I); simpl in E; congruence.
    + destruct (fold_changed c du _ _ _ E) as [_ [w [Hin Hd]]]. rewrite Hd in Hv; injection Hv as <-. econstructor; eauto.
  - intros u du' Hu Hnw y w Hin.
    assert (Hy : (y < length (dist st0))%nat) by (simpl; rewrite (i_len _ I); eapply Hwf; eauto).
    destruct (dopt_eq_dec (getd (dist (fold_left (relax1 c du) (nth c g []) st0)) u) (getd (dist st0) u)) as [E|E].
    2:{ destruct (fold_changed c du _ _ _ E) as [Hw _]; contradiction. }
    simpl in E. rewrite E in Hu.
    destruct (Nat.eq_dec u c) as [->|Huc].
    + rewrite Dc in Hu; injection Hu as <-. apply fold_relaxed; auto.
    + assert (Hnw0 : ~ In u (work st)).
      { intros Hw; apply Hnw, fold_work_mono; simpl; apply In_remove_one_neq; auto. }
      destruct (i_closed _ I u du' Hu Hnw0 y w Hin) as [dy [Hdy Hle]].
      destruct (fold_mono c du (nth c g []) st0 y dy Hdy) as [d1 [H1 H2]]. exists d1; split; auto; lia.
  - intros u Hu Hn.
    destruct (fold_work_finite c du (nth c g []) st0 u) as [Hw|Hf]; auto.
    + simpl; intros y w Hin; rewrite (i_len _ I); eapply Hwf; eauto.
    + simpl in Hw. apply In_remove_one_sub in Hw.
      destruct (getd (dist st) u) as [d0|] eqn:Du; [|eapply (i_work _ I); eauto].
      destruct (fold_mono c du (nth c g []) st0 u d0 Du) as [d1 [H1 _]]; congruence.
Qed.
End Inv.

Section Correct.
Variables (g : wadj) (s : nat).
Hypothesis Hwf : wf g.
Hypothesis Hs : (s < length g)%nat.

Lemma init_inv : Inv g s (init (length g) s).
Proof.
  assert (Hl : (s < length (repeat (@None N) (length g)))%nat) by (rewrite repeat_length; auto).
  constructor; simpl.
  - rewrite set_nth_length, repeat_length; auto.
  - unfold getd; apply nth_set_nth_eq; auto.
  - intros v d H. destruct (Nat.eq_dec s v) as [<-|Hne].
    + unfold getd in H; rewrite nth_set_nth_eq in H by auto. injection H as <-. constructor; auto.
    + unfold getd in H; rewrite nth_set_nth_neq, nth_repeat_None in H by auto; discriminate.
  - intros u du H Hn. destruct (Nat.eq_dec s u) as [<-|Hne]; [exfalso; apply Hn; simpl; auto|].
    unfold getd in H; rewrite nth_set_nth_neq, nth_repeat_None in H by auto; discriminate.
  - intros u [<-|[]]. unfold getd; rewrite nth_set_nth_eq by auto; discriminate.
Qed.

Lemma run_inv cs : forall st st', Inv g s st -> run g st cs = Some st' -> Inv g s st'.
Proof. induction cs as [|c cs IH]; simpl; intros st st' I H; [injection H as <-; auto|].
  destruct (step g st c) as [st1|] eqn:E; [|discriminate]. apply (IH st1); auto. apply (step_inv g s Hwf st c st1); auto. Qed.

(* at an empty worklist every tentative distance is a lower bound of every walk *)
Lemma closed_lower st : Inv g s st -> work st = [] -> forall v d', walk g s v d' -> exists d, getd (dist st) v = Some d /\ d <= d'.
Proof. intros I Hw v d' W; induction W as [|u v d w W IH Hin].
  - exists 0; split; [apply (i_src _ _ _ I)|lia].
  - destruct IH as [du [Hu Hle]].
    destruct (i_closed _ _ _ I u du Hu) with (y:=v) (w:=w) as [dy [Hy Hl]]; auto; [rewrite Hw; simpl; tauto|].
    exists dy; split; auto; lia.
Qed.

Theorem dijkstra_distances cs st : run g (init (length g) s) cs = Some st -> work st = [] ->
  forall v, match getd (dist st) v with
            | Some d => walk g s v d /\ forall d', walk g s v d' -> d <= d'
            | None => forall d', ~ walk g s v d' end.
Proof. intros R Hw v. pose proof (run_inv _ _ _ init_inv R) as I.
  destruct (getd (dist st) v) as [d|] eqn:E.
  - split; [apply (i_walk _ _ _ I); auto|]. intros d' W. destruct (closed_lower _ I Hw _ _ W) as [d0 [H0 Hle]]. congruence.
  - intros d' W. destruct (closed_lower _ I Hw _ _ W) as [d0 [H0 _]]. congruence.
Qed.
End Correct.
Print Assumptions dijkstra_distances.

(* ---------- greedy lemma and the pop bound ---------- *)
Section Bound.
Variables (g : wadj) (s : nat).
Hypothesis Hwf : wf g.
Hypothesis Hs : (s < length g)%nat.
Local Open Scope nat_scope.

Lemma dle_true a b da db : dle a b = true -> a = Some da -> b = Some db -> (da <= db)%N.
Proof. intros H -> ->; simpl in H; apply N.leb_le; auto. Qed.

Lemma frontier st : Inv g s st -> forall v d', walk g s v d' ->
  (exists dv, getd (dist st) v = Some dv /\ (dv <= d')%N) \/ (exists x dx, In x (work st) /\ getd (dist st) x = Some dx /\ (dx <= d')%N).
Proof. intros I v d' W; induction W as [|u v d w W IH Hin].
  - left; exists 0%N; split; [apply (i_src _ _ _ I)|lia].
  - destruct IH as [[du [Hu Hle]]|[x [dx [Hx [Hdx Hle]]]]].
    + destruct (in_dec Nat.eq_dec u (work st)) as [Hw|Hw].
      * right; exists u, du; repeat split; auto; lia.
      * destruct (i_closed _ _ _ I u du Hu Hw v w Hin) as [dy [Hy Hl]]. left; exists dy; split; auto; lia.
    + right; exists x, dx; repeat split; auto; lia.
Qed.

Lemma greedy st c dc : Inv g s st -> legal st c = true -> getd (dist st) c = Some dc ->
  forall d', walk g s c d' -> (dc <= d')%N.
Proof. intros I L Dc d' W. destruct (frontier st I c d' W) as [[dv [Hv Hle]]|[x [dx [Hx [Hdx Hle]]]]].
  - congruence.
  - pose proof (legal_min _ _ L x Hx) as M. pose proof (dle_true _ _ _ _ M Dc Hdx). lia.
Qed.

Record InvH (st : dj) (hist : list nat) : Prop := {
  h_inv : Inv g s st;
  h_final : forall u, In u hist -> exists du, getd (dist st) u = Some du /\ forall d', walk g s u d' -> (du <= d')%N;
  h_relaxed : forall u du, In u hist -> getd (dist st) u = Some du -> forall y w, In (y,w) (nth u g []) ->
              exists dy, getd (dist st) y = Some dy /\ (dy <= du + w)%N }.

Definition sumf (f : nat -> nat) (l : list nat) := fold_right (fun u a => f u + a) 0 l.
Lemma sumf_ext f f' l : (forall u, In u l -> f u = f' u) -> sumf f l = sumf f' l.
Proof. induction l as [|h t IH]; simpl; intros H; [reflexivity|]. rewrite H, IH; auto. Qed.
Lemma sumf_split f f' c k l : NoDup l -> In c l -> (forall u, In u l -> u <> c -> f' u = f u) -> f' c + k = f c -> sumf f' l + k = sumf f l.
Proof. induction l as [|h t IH]; simpl; [tauto|]. intros ND [->|Hin] Hext Hc; inversion ND; subst.
  - rewrite (sumf_ext f' f t); [lia|]. intros u Hu; apply Hext; auto. intros ->; contradiction.
  - rewrite <- (IH H2 Hin); auto. rewrite (Hext h); auto; [lia|]. intros ->; contradiction.
Qed.

Definition outdeg u := length (nth u g []).
Definition unpopped (hist : list nat) := sumf (fun u => if in_dec Nat.eq_dec u hist then 0 else outdeg u) (seq 0 (length g)).
Definition potential (st : dj) (hist : list nat) := length (work st) + unpopped hist.

Lemma unpopped_old c hist : In c hist -> unpopped (c :: hist) = unpopped hist.
Proof. intros H; apply sumf_ext; intros u _.
  destruct (in_dec Nat.eq_dec u (c :: hist)) as [[->|?]|N1]; destruct (in_dec Nat.eq_dec u hist) as [?|N2]; auto; try contradiction.
  exfalso; apply N1; right; auto. Qed.
Lemma unpopped_new c hist : ~ In c hist -> c < length g -> unpopped (c :: hist) + outdeg c = unpopped hist.
Proof. intros H Hc; apply (sumf_split _ _ c); [apply seq_NoDup|apply in_seq; lia| |].
  - intros u _ Hne. destruct (in_dec Nat.eq_dec u (c :: hist)) as [[->|?]|N1]; destruct (in_dec Nat.eq_dec u hist) as [?|N2]; auto; try contradiction; try congruence.
    exfalso; apply N1; right; auto.
  - destruct (in_dec Nat.eq_dec c (c :: hist)) as [?|N1]; [|exfalso; apply N1; left; auto].
    destruct (in_dec Nat.eq_dec c hist); [contradiction|auto].
Qed.

Lemma step_invH st hist c st' : InvH st hist -> step g st c = Some st' -> InvH st' (c :: hist) /\ potential st' (c :: hist) + 1 <= potential st hist.
Proof.
  intros [I Hf Hr] H. pose proof (step_inv g s Hwf st c st' I H) as I'.
  unfold step in H. destruct (legal st c) eqn:L; [|discriminate].
  destruct (getd (dist st) c) as [dc|] eqn:Dc; [|discriminate]. injection H as <-.
  set (st0 := {| dist := dist st; pred := pred st; work := remove_one c (work st) |}) in *.
  set (st' := fold_left (relax1 c dc) (nth c g []) st0) in *.
  pose proof (legal_in _ _ L) as Hcw.
  assert (Hcn : c < length g).
  { destruct (le_lt_dec (length g) c); auto. unfold getd in Dc; rewrite nth_overflow in Dc; [discriminate|]. rewrite (i_len _ _ _ I); auto. }
  (* finality of every vertex of c :: hist, in the OLD state *)
  assert (Hfin : forall u, In u (c :: hist) -> exists du, getd (dist st) u = Some du /\ forall d', walk g s u d' -> (du <= d')%N).
  { intros u [<-|Hu]; auto. exists dc; split; auto. apply (greedy st c dc); auto. }
  (* their distances are unchanged by the step *)
  assert (Hsame : forall u du, In u (c :: hist) -> getd (dist st) u = Some du -> getd (dist st') u = Some du).
  { intros u du Hu Du. destruct (fold_mono c dc (nth c g []) st0 u du Du) as [d1 [H1 H2]].
    destruct (Hfin u Hu) as [du' [Du' Hmin]]. assert (du' = du) by congruence; subst du'.
    pose proof (Hmin d1 (i_walk _ _ _ I' u d1 H1)). unfold st'; rewrite H1; f_equal; lia. }
  split; [constructor; auto|].
  - intros u Hu. destruct (Hfin u Hu) as [du [Du Hmin]]. exists du; split; auto.
  - intros u du Hu Du y w Hin.
    destruct (Hfin u Hu) as [du0 [Du0 _]]. pose proof (Hsame u du0 Hu Du0) as E. assert (du0 = du) by congruence; subst du0.
    destruct Hu as [<-|Hu].
    + assert (dc = du) by congruence; subst du. apply fold_relaxed; auto. simpl; rewrite (i_len _ _ _ I); eapply Hwf; eauto.
    + destruct (Hr u du Hu Du0 y w Hin) as [dy [Hy Hle]].
      destruct (fold_mono c dc (nth c g []) st0 y dy Hy) as [d1 [H1 H2]]. exists d1; split; auto; lia.
  - unfold potential. pose proof (remove_one_length c (work st) Hcw) as Hlen.
    destruct (in_dec Nat.eq_dec c hist) as [Hc|Hc].
    + (* re-popped: nothing relaxes *)
      assert (E : st' = st0).
      { apply fold_noop. intros y w Hin. apply (Hr c dc Hc Dc y w Hin). }
      rewrite E, unpopped_old by auto. simpl. lia.
    + pose proof (fold_work_len c dc (nth c g []) st0) as Hk. fold st' in Hk. simpl in Hk.
      pose proof (unpopped_new c hist Hc Hcn). unfold outdeg in *. lia.
Qed.

Lemma run_bound cs : forall st hist st', InvH st hist -> run g st cs = Some st' ->
  length cs + potential st' (rev cs ++ hist) <= potential st hist.
Proof. induction cs as [|c cs IH]; simpl; intros st hist st' I H; [injection H as <-; lia|].
  destruct (step g st c) as [st1|] eqn:E; [|discriminate].
  destruct (step_invH _ _ _ _ I E) as [I1 P1]. specialize (IH _ _ _ I1 H). rewrite <- app_assoc; simpl. lia.
Qed.

Definition edges_total := sumf outdeg (seq 0 (length g)).

Theorem dijkstra_pop_bound cs st : run g (init (length g) s) cs = Some st -> length cs <= 1 + edges_total.
Proof. intros R.
  assert (I0 : InvH (init (length g) s) []).
  { constructor; [apply init_inv; auto| intros u []| intros u du []]. }
  pose proof (run_bound cs _ _ _ I0 R) as B. unfold potential in B at 2. simpl in B.
  assert (unpopped [] = edges_total) by (apply sumf_ext; intros; destruct (in_dec Nat.eq_dec u []); [contradiction|auto]).
  lia.
Qed.
End Bound.
Print Assumptions dijkstra_pop_bound.
