(* Executable models of DirectedWeightedGraph / UndirectedWeightedGraph: the labelled model with label = weight plus the running
   totalWeight.  Weights are exact dyadic rationals represented by integers (units of 1/4 in the harness); floating-point rounding is not
   modelled (DESIGN.md §10).  Definitions only. *)
From BG Require Import Base DirectedModel UndirectedModel MultiModel.
Local Open Scope Z_scope.

Section Weighted.
Variable V : variant.
Notation wgraph := mgraph.        (* mg = labelled graph with weights, mtot = totalWeight *)

(* ================= DirectedWeightedGraph ================= *)
Definition dw_add_edge (m : wgraph) (s d : nat) (w : Z) (force : bool) : wgraph * res :=
  let '(g1, r) := add_edge true V (mg m) s d w force in
  match r with
  | Done => (mk g1 (if Z.eqb (enum g1) (enum (mg m)) then mtot m else mtot m + w), Done)     (* total grows exactly when the edge was inserted *)
  | _ => (mk g1 (mtot m), r) end.
Definition dw_remove_edge (m : wgraph) (s d : nat) : wgraph * res := dm_remove_all m s d.        (* same code as the multigraph's removeAllEdges *)
Definition dw_get_weight (m : wgraph) (s d : nat) (thr : bool) : outcome Z := get_label 0 true (mg m) s d thr.
Definition dw_set_weight (m : wgraph) (s d : nat) (w : Z) : wgraph * res :=
  match has_edge (mg m) s d with
  | Val true => let g := mg m in let cur := lget (s, d) (labels g) in
                (mk (set_adj_lab g (adj g) (enum g) (lset (s, d) w (labels g))) (mtot m + (w - cur)), Done)
  | Val false => dw_add_edge m s d w false
  | Raise e => (m, Thrown e) | Undef u => (m, UBk u) end.
Definition dw_remove_self_loops (m : wgraph) := m_for (fun m i => dw_remove_edge m i i) (seq 0 (size (mg m))) m.
Definition dw_remove_vertex (m : wgraph) (v : nat) : wgraph * res := dm_remove_vertex V m v.       (* same statements, totalWeight for totalEdgeNumber *)
Definition dw_clear (m : wgraph) : wgraph * res :=
  let '(g1, r) := clear_edges V (mg m) in match r with Done => (mk g1 0, Done) | _ => (mk g1 (mtot m), r) end.
Definition dw_remove_duplicates (m : wgraph) : wgraph * res := dm_remove_duplicates m.
Definition weight_matrix (n : nat) (g : @dgraph Z) (w : nat -> nat -> outcome Z) : outcome (list (list Z)) :=
  omapM (fun i => obind (out_neighbours g i) (fun l =>
     fold_left (fun acc j => obind acc (fun row => obind (w i j) (fun k => match nth_error row j with None => Undef IndexOOB | Some _ => Val (upd j (fun _ => k) row) end)))
               l (Val (repeat 0 n)))) (seq 0 n).
(* segments: 0 size/edge count/total weight, 1 hasEdge, 2 neighbour multisets, 3 weights (non-throwing value, throwing outcome),
   4 degrees, 5 adjacency matrix, 6 weight matrix, 7 edges() *)
Definition dw_observe (m : wgraph) : list (list Z) :=
  let g := mg m in let n := size g in let vs := seq 0 n in
  [ [zn n; enum g; mtot m];
    map (fun e => zout zbool (has_edge g (fst e) (snd e))) (pairs n);
    flat_map (fun i => zvec zn n (omap (fun l => map (fun j => count j l) vs) (out_neighbours g i))) vs;
    flat_map (fun e => [zout zid (dw_get_weight m (fst e) (snd e) false); zout (fun _ => 1) (dw_get_weight m (fst e) (snd e) true)]) (pairs n);
    zvec zn n (in_degrees V g) ++ map (fun i => zout zn (in_degree V g i)) vs ++ zvec zn n (out_degrees g) ++ map (fun i => zout zn (out_degree g i)) vs;
    match adjacency_matrix V g with Val mm => map zn (concat mm) | Raise e => repeat (zexn e) (n * n) | Undef _ => repeat zub (n * n) end;
    zmat n (weight_matrix n g (fun i j => dw_get_weight m i j true));
    edge_counts n (iterate V g);
    iter_segment V g ].
Inductive wop :=
| WAdd (s d : nat) (w : Z) (force : bool) | WRemove (s d : nat) | WSet (s d : nat) (w : Z)
| WSelfLoops | WRemoveVertex (v : nat) | WClear | WResize (n : nat) | WRemoveDuplicates.
Definition dw_step (m : wgraph) (o : wop) : wgraph * res :=
  match o with
  | WAdd s d w f => dw_add_edge m s d w f | WRemove s d => dw_remove_edge m s d | WSet s d w => dw_set_weight m s d w
  | WSelfLoops => dw_remove_self_loops m | WRemoveVertex v => dw_remove_vertex m v | WClear => dw_clear m | WResize n => dm_resize m n
  | WRemoveDuplicates => dw_remove_duplicates m end.

(* ================= UndirectedWeightedGraph ================= *)
Definition uw_add_edge (m : wgraph) (a b : nat) (w : Z) (force : bool) : wgraph * res :=
  let '(g1, r) := u_add_edge true V (mg m) a b w force in
  match r with
  | Done => (mk g1 (if Z.eqb (enum g1) (enum (mg m)) then mtot m else mtot m + w), Done)
  | _ => (mk g1 (mtot m), r) end.
Definition uw_remove_edge (m : wgraph) (a b : nat) : wgraph * res := um_remove_all m a b.
Definition uw_get_weight (m : wgraph) (a b : nat) (thr : bool) : outcome Z := u_get_label 0 true (mg m) a b thr.
Variable uw_canonical_key : bool.       (* repaired: setEdgeWeight indexes the store with orderedEdge; pinned: with {vertex1, vertex2} as given *)
Definition uw_set_weight (m : wgraph) (a b : nat) (w : Z) : wgraph * res :=
  match u_has_edge (mg m) a b with
  | Val true => let g := mg m in let e := if uw_canonical_key then ordered a b else (a, b) in let cur := lget e (labels g) in
                (mk (set_adj_lab g (adj g) (enum g) (lset e w (labels g))) (mtot m + (w - cur)), Done)
  | Val false => uw_add_edge m a b w false
  | Raise e => (m, Thrown e) | Undef u => (m, UBk u) end.
Definition uw_remove_self_loops (m : wgraph) := m_for (fun m i => uw_remove_edge m i i) (seq 0 (size (mg m))) m.
Definition uw_remove_vertex (m : wgraph) (v : nat) : wgraph * res := um_remove_vertex V m v.
Definition uw_remove_duplicates (m : wgraph) : wgraph * res := um_remove_duplicates m.
(* segments: 0 size/edge count/total weight, 1 hasEdge, 2 neighbour multisets, 3 weights, 4 degrees (both conventions), 5 adjacency matrices, 6 weight matrix, 7 edges() *)
Definition uw_observe (m : wgraph) : list (list Z) :=
  let g := mg m in let n := size g in let vs := seq 0 n in
  [ [zn n; enum g; mtot m];
    map (fun e => zout zbool (u_has_edge g (fst e) (snd e))) (pairs n);
    flat_map (fun i => zvec zn n (omap (fun l => map (fun j => count j l) vs) (out_neighbours g i))) vs;
    flat_map (fun e => [zout zid (uw_get_weight m (fst e) (snd e) false); zout (fun _ => 1) (uw_get_weight m (fst e) (snd e) true)]) (pairs n);
    map (fun i => zout zn (u_degree g i true)) vs ++ map (fun i => zout zn (u_degree g i false)) vs ++ zvec zn n (u_degrees g true) ++ zvec zn n (u_degrees g false);
    flat_map (fun tw => match u_adjacency_matrix g tw with Val mm => map zn (concat mm) | Raise e => repeat (zexn e) (n * n) | Undef _ => repeat zub (n * n) end) [true; false];
    zmat n (weight_matrix n g (fun i j => uw_get_weight m i j true));
    edge_counts n (u_iterate V g);
    iter_segment V g ].
Definition uw_step (m : wgraph) (o : wop) : wgraph * res :=
  match o with
  | WAdd a b w f => uw_add_edge m a b w f | WRemove a b => uw_remove_edge m a b | WSet a b w => uw_set_weight m a b w
  | WSelfLoops => uw_remove_self_loops m | WRemoveVertex v => uw_remove_vertex m v | WClear => dw_clear m | WResize n => dm_resize m n
  | WRemoveDuplicates => uw_remove_duplicates m end.
Fixpoint w_trace (step : wgraph -> wop -> wgraph * res) (obs : wgraph -> list (list Z)) (m : wgraph) (ops : list wop) : list (list (list Z)) :=
  match ops with [] => [] | o :: ops' =>
    let '(m1, r) := step m o in ([zres r] :: obs m1) :: match r with UBk _ => [] | _ => w_trace step obs m1 ops' end end.
End Weighted.
