(* C07 for the six graph classes: a call that receives a vertex index >= getSize() ends with std::out_of_range, an invalid request with
   std::invalid_argument, and the state returned is the state given - syntactically the same value, so every observer is unchanged. *)
From BG Require Import Base DirectedModel DirectedProofs UndirectedModel UndirectedProofs MultiModel WeightedModel.
Local Open Scope Z_scope.

Section Rej.
Context {L : Type}.
Variable ldef : L.
Variable has_store : bool.
Notation dgraph := (@dgraph L).
Implicit Types g : dgraph.
Definition bad g (v : nat) : bool := negb (Nat.ltb v (size g)).
Lemma in2_false g s d : bad g s || bad g d = true -> in_range g s && in_range g d = false.
Proof. unfold bad, in_range. destruct (Nat.ltb s (size g)), (Nat.ltb d (size g)); simpl; congruence. Qed.
Lemma has_edge_bad g s d : bad g s || bad g d = true -> has_edge g s d = Raise OutOfRange.
Proof. intros H. unfold has_edge. rewrite (in2_false g s d H). reflexivity. Qed.

(* ---- LabeledDirectedGraph ---- *)
Definition d_oor g (o : @dop L) : bool :=
  match o with
  | AddEdge s d _ _ | AddReciprocal s d _ _ | RemoveEdge s d | SetLabel s d _ _ => bad g s || bad g d
  | RemoveVertex v => bad g v
  | _ => false end.
Theorem d_rejects_out_of_range g o : d_oor g o = true -> step has_store repaired g o = (g, Thrown OutOfRange).
Proof.
  destruct o as [s d l f|s d l f|s d| |v| |n|s d l f|]; cbn [d_oor step]; intros H; try discriminate.
  - unfold add_edge. cbn [v_force_checks repaired]. rewrite (in2_false g s d H), (has_edge_bad g s d H). destruct f; reflexivity.
  - unfold add_reciprocal, add_edge. cbn [v_force_checks repaired]. rewrite (in2_false g s d H), (has_edge_bad g s d H). destruct f; reflexivity.
  - unfold remove_edge. rewrite (in2_false g s d H). reflexivity.
  - unfold remove_vertex, in_range. unfold bad in H. destruct (Nat.ltb v (size g)); [discriminate|reflexivity].
  - unfold set_edge_label. rewrite (in2_false g s d H). reflexivity.
Qed.
Theorem d_rejects_invalid_argument g :
  (forall n, (n < size g)%nat -> step has_store repaired g (Resize n) = (g, Thrown InvalidArgument)) /\
  (forall s d l, Inv has_store g -> (s < size g)%nat -> (d < size g)%nat -> ~ In d (nb g s) ->
     step has_store repaired g (SetLabel s d l false) = (g, Thrown InvalidArgument)) /\
  (has_store = true -> forall s d, Inv has_store g -> (s < size g)%nat -> (d < size g)%nat -> ~ In d (nb g s) ->
     get_label ldef has_store g s d true = Raise InvalidArgument).
Proof.
  split; [|split].
  - intros n H. cbn [step]. apply resize_shrink; auto.
  - intros s d l I Hs Hd N. cbn [step]. rewrite (set_label_spec has_store g s d l I Hs Hd).
    rewrite (proj2 (mem_false d (nb g s)) N). reflexivity.
  - intros HS s d I Hs Hd N. unfold get_label. rewrite (proj2 (in_range_true g s) Hs), (proj2 (in_range_true g d) Hd), HS. cbn [andb].
    pose proof (i_lab _ _ I) as IL. rewrite HS in IL. destruct (lfind (s, d) (labels g)) eqn:F; auto.
    exfalso. apply N, IL. congruence.
Qed.
Theorem d_observers_reject g s d thr l : bad g s || bad g d = true ->
  has_edge g s d = Raise OutOfRange /\ get_label ldef has_store g s d thr = Raise OutOfRange /\
  has_edge_l (fun _ _ => true) ldef has_store g s d l = Raise OutOfRange.
Proof. intros H. unfold has_edge_l, get_label. rewrite (has_edge_bad g s d H), (in2_false g s d H). auto. Qed.
Theorem d_observers_reject1 g v : bad g v = true ->
  out_neighbours g v = Raise OutOfRange /\ out_degree g v = Raise OutOfRange /\ in_degree repaired g v = Raise OutOfRange.
Proof. unfold bad, out_degree, out_neighbours, in_degree, in_range. destruct (Nat.ltb v (size g)); [discriminate|auto]. Qed.

(* ---- LabeledUndirectedGraph ---- *)
Definition u_oor g (o : @uop L) : bool :=
  match o with
  | UAdd s d _ _ | URemove s d | USetLabel s d _ _ => bad g s || bad g d
  | URemoveVertex v => bad g v
  | _ => false end.
Lemma ordered_bad g a b : bad g a || bad g b = true -> bad g (fst (ordered a b)) || bad g (snd (ordered a b)) = true.
Proof. intros H. destruct (ordered_cases a b) as [[-> _]|[-> _]]; simpl; auto. rewrite orb_comm; auto. Qed.
Theorem u_rejects_out_of_range g o : u_oor g o = true -> ustep has_store repaired g o = (g, Thrown OutOfRange).
Proof.
  destruct o as [s d l f|s d| |v| |n|s d l f|]; cbn [u_oor ustep]; intros H; try discriminate.
  - unfold u_add_edge, u_has_edge. cbn [v_force_checks repaired]. rewrite (in2_false g s d H), (has_edge_bad g _ _ (ordered_bad g s d H)). destruct f; reflexivity.
  - unfold u_remove_edge. rewrite (in2_false g s d H). reflexivity.
  - unfold u_remove_vertex, in_range. unfold bad in H. destruct (Nat.ltb v (size g)); [discriminate|reflexivity].
  - unfold u_set_edge_label, set_edge_label. rewrite (in2_false g _ _ (ordered_bad g s d H)). reflexivity.
Qed.
Theorem u_rejects_invalid_argument g :
  (forall n, (n < size g)%nat -> ustep has_store repaired g (UResize n) = (g, Thrown InvalidArgument)) /\
  (forall s d l, InvU has_store g -> (s < size g)%nat -> (d < size g)%nat -> ~ In d (nb g s) ->
     ustep has_store repaired g (USetLabel s d l false) = (g, Thrown InvalidArgument)).
Proof.
  split.
  - intros n H. cbn [ustep]. apply resize_shrink; auto.
  - intros s d l I Hs Hd N. cbn [ustep]. rewrite (u_set_label_spec has_store g s d l I Hs Hd).
    rewrite (proj2 (mem_false d (nb g s)) N). reflexivity.
Qed.
End Rej.

(* ---- multigraphs and weighted graphs (labels are Z) ---- *)
Definition m_bad (m : mgraph) (v : nat) : bool := negb (Nat.ltb v (size (mg m))).
Definition m_oor (m : mgraph) (o : mop) : bool :=
  match o with
  | MAdd s d _ | MAddRecip s d _ | MAddMulti s d _ _ | MAddRecipMulti s d _ _ | MRemove s d | MRemoveMulti s d _ | MSet s d _ => m_bad m s || m_bad m d
  | MRemoveVertex v => m_bad m v
  | _ => false end.
Lemma dm_in2_false m s d : m_bad m s || m_bad m d = true -> dm_in2 m s d = false.
Proof. unfold m_bad, dm_in2, in_range. destruct (Nat.ltb s (size (mg m))), (Nat.ltb d (size (mg m))); simpl; congruence. Qed.
Theorem dm_rejects_out_of_range m o : m_oor m o = true -> dm_step repaired m o = (m, Thrown OutOfRange).
Proof.
  destruct o as [s d f|s d f|s d k f|s d k f|s d|s d k|s d k| |v| |n|]; cbn [m_oor dm_step]; intros H; try discriminate;
    unfold dm_add_edge, dm_add_reciprocal_multiedge, dm_remove_edge, dm_add_multiedge, dm_remove_multiedge, dm_set_multiplicity;
    rewrite ?(dm_in2_false m s d H); try reflexivity.
  unfold dm_remove_vertex, in_range. unfold m_bad in H. destruct (Nat.ltb v (size (mg m))); [discriminate|reflexivity].
Qed.
Theorem um_rejects_out_of_range m o : m_oor m o = true -> um_step repaired true m o = (m, Thrown OutOfRange).
Proof.
  destruct o as [s d f|s d f|s d k f|s d k f|s d|s d k|s d k| |v| |n|]; cbn [m_oor um_step]; intros H; try discriminate;
    unfold um_add_multiedge, um_remove_multiedge, um_set_multiplicity;
    rewrite ?(dm_in2_false m s d H); try reflexivity.
  unfold um_remove_vertex, in_range. unfold m_bad in H. destruct (Nat.ltb v (size (mg m))); [discriminate|reflexivity].
Qed.
Theorem m_rejects_shrink m n : (n < size (mg m))%nat -> dm_step repaired m (MResize n) = (m, Thrown InvalidArgument) /\ um_step repaired true m (MResize n) = (m, Thrown InvalidArgument).
Proof. intros H. cbn [dm_step um_step]. unfold dm_resize, with_g. rewrite (resize_shrink (mg m) n H). cbn [fst snd]. destruct m; auto. Qed.
Theorem m_multiplicity_rejects m s d : m_bad m s || m_bad m d = true -> dm_get_multiplicity m s d = Raise OutOfRange /\ um_get_multiplicity m s d = Raise OutOfRange.
Proof. intros H. unfold dm_get_multiplicity, um_get_multiplicity. rewrite (dm_in2_false m s d H). auto. Qed.

Definition w_oor (m : mgraph) (o : wop) : bool :=
  match o with
  | WAdd s d _ _ | WRemove s d | WSet s d _ => m_bad m s || m_bad m d
  | WRemoveVertex v => m_bad m v
  | _ => false end.
Lemma m_has_edge_bad (m : mgraph) s d : m_bad m s || m_bad m d = true -> has_edge (mg m) s d = Raise OutOfRange.
Proof. intros H. unfold has_edge. pose proof (dm_in2_false m s d H) as E. unfold dm_in2 in E. rewrite E. reflexivity. Qed.
Lemma m_ordered_bad m a b : m_bad m a || m_bad m b = true -> m_bad m (fst (ordered a b)) || m_bad m (snd (ordered a b)) = true.
Proof. intros H. destruct (ordered_cases a b) as [[-> _]|[-> _]]; simpl; auto. rewrite orb_comm; auto. Qed.
Theorem dw_rejects_out_of_range m o : w_oor m o = true -> dw_step repaired m o = (m, Thrown OutOfRange).
Proof.
  destruct o as [s d w f|s d|s d w| |v| |n|]; cbn [w_oor dw_step]; intros H; try discriminate.
  - unfold dw_add_edge, add_edge. cbn [v_force_checks repaired]. pose proof (dm_in2_false m s d H) as E. unfold dm_in2 in E.
    rewrite E, (m_has_edge_bad m s d H). destruct f; destruct m; reflexivity.
  - unfold dw_remove_edge, dm_remove_all. rewrite (dm_in2_false m s d H). reflexivity.
  - unfold dw_set_weight. rewrite (m_has_edge_bad m s d H). reflexivity.
  - unfold dw_remove_vertex, dm_remove_vertex, in_range. unfold m_bad in H. destruct (Nat.ltb v (size (mg m))); [discriminate|reflexivity].
Qed.
Theorem uw_rejects_out_of_range m o : w_oor m o = true -> uw_step repaired true m o = (m, Thrown OutOfRange).
Proof.
  destruct o as [s d w f|s d|s d w| |v| |n|]; cbn [w_oor uw_step]; intros H; try discriminate.
  - unfold uw_add_edge, u_add_edge, u_has_edge. cbn [v_force_checks repaired]. pose proof (dm_in2_false m s d H) as E. unfold dm_in2 in E.
    rewrite E, (m_has_edge_bad m _ _ (m_ordered_bad m s d H)). destruct f; destruct m; reflexivity.
  - unfold uw_remove_edge, um_remove_all. rewrite (dm_in2_false m s d H). reflexivity.
  - unfold uw_set_weight, u_has_edge. rewrite (m_has_edge_bad m _ _ (m_ordered_bad m s d H)). reflexivity.
  - unfold uw_remove_vertex, um_remove_vertex, in_range. unfold m_bad in H. destruct (Nat.ltb v (size (mg m))); [discriminate|reflexivity].
Qed.
Theorem w_weight_rejects m s d thr : m_bad m s || m_bad m d = true -> dw_get_weight m s d thr = Raise OutOfRange /\ uw_get_weight m s d thr = Raise OutOfRange.
Proof. intros H. unfold dw_get_weight, uw_get_weight, u_get_label, get_label.
  pose proof (dm_in2_false m s d H) as E. pose proof (dm_in2_false m _ _ (m_ordered_bad m s d H)) as E2. unfold dm_in2 in E, E2. rewrite E, E2. auto. Qed.
