(* C07 after forced calls: the result-code-only oracle of CodesSpec is sound for the repaired models, for ALL histories (forced duplicate
   insertions and labels forced onto missing edges included), all sizes, both label-store settings.  Whenever the oracle names a result
   code for a call, the model's trace line for that call starts with exactly that code.
   The invariant relating a model state g to the abstract multiset state a is membership only:
     length (adj g) = size g,  size g = sn a,  every stored entry of a has a positive number of copies,
     j is in the list of i  <->  the key of (i, j) is bound in a          (for ALL i, j, not only those in range). *)
From Coq Require Import List Arith ZArith Lia Bool.
From BG Require Import Base DirectedModel DirectedProofs UndirectedModel UndirectedProofs DirectedSpec UndirectedSpec ForcedSpec Instances CodesSpec
  UndirectedRefine Rejects Forced UForced.
Import ListNotations.

Definition codes_agree (ms : list (list (list Z))) (ss : list (option (list (list Z)))) : Prop :=
  forall k m c rest, nth_error ms k = Some m -> nth_error ss k = Some (Some ([c] :: rest)) -> hd [] m = [c].

(* ---- the generic argument: a relation kept by every call on which the oracle speaks ---- *)
Lemma nth_error_map_none {A B} (l : list A) k (x : B) : nth_error (map (fun _ => @None B) l) k = Some (Some x) -> False.
Proof. revert k; induction l as [|h t IH]; intros [|k]; cbn; try discriminate. apply IH. Qed.

Section Gen.
Context {S A O : Type}.
Variable stp : S -> O -> S * res.
Variable obs : S -> list (list Z).
Variable query : S -> nat -> list Z.
Variable rej : A -> O -> option Z.
Variable sstep : A -> O -> A.
Variable R : S -> A -> Prop.
Hypothesis step_sound : forall s a o c, R s a -> rej a o = Some c ->
  zres (snd (stp s o)) = c /\ R (fst (stp s o)) (if Z.eqb c 0 then sstep a o else a).
Lemma codes_gen : forall ops s a, R s a -> codes_agree (gtrace stp obs query s ops) (gspec_codes rej sstep a ops).
Proof.
  induction ops as [|[o|v] t IH]; intros s a HR k m c rest Hm Hs.
  - destruct k; discriminate.
  - cbn [gtrace gspec_codes] in Hm, Hs. destruct (rej a o) as [c0|] eqn:RJ.
    + destruct (step_sound s a o c0 HR RJ) as [ZR HR']. destruct (stp s o) as [s1 r]. cbn [fst snd] in ZR, HR'.
      destruct k as [|k]; cbn [nth_error] in Hm, Hs.
      * injection Hm as <-. injection Hs as <- _. cbn [hd]. rewrite ZR. reflexivity.
      * destruct r as [|e|u]; [eapply IH; eauto|eapply IH; eauto|destruct k; discriminate].
    + exfalso. eapply nth_error_map_none; eauto.
  - cbn [gtrace gspec_codes] in Hm, Hs. destruct k as [|k]; cbn [nth_error] in Hm, Hs; [discriminate|]. eapply IH; eauto.
Qed.
(* when the oracle names a code other than the undefined-behaviour marker for every call, the trace never stops early *)
Hypothesis rej_total : forall a o, exists c, rej a o = Some c /\ c <> zub.
Lemma trace_full : forall ops s a, R s a -> length (gtrace stp obs query s ops) = length ops.
Proof.
  induction ops as [|[o|v] t IH]; intros s a HR; cbn [gtrace length]; auto.
  - destruct (rej_total a o) as [c [RJ NU]]. destruct (step_sound s a o c HR RJ) as [ZR HR']. destruct (stp s o) as [s1 r]. cbn [fst snd] in ZR, HR'.
    cbn [length]. f_equal. destruct r as [|e|u]; [eapply IH; eauto|eapply IH; eauto|]. exfalso. apply NU. rewrite <- ZR. reflexivity.
  - f_equal. eapply IH; eauto.
Qed.
End Gen.

(* ---- the abstract side: which keys are bound after each operation; stored counts stay positive ---- *)
Section Abs.
Context {L : Type}.
Notation fgraph := (@sgraph (@fentry L)).
Implicit Types a : fgraph.
Definition Pos a : Prop := forall k e, lfind k (se a) = Some e -> 0 < fcount e.
Definition dom a (k : edge) : Prop := lfind k (se a) <> None.

Lemma fcnt_pos und a i j : Pos a -> (Nat.ltb 0 (fcnt und a i j) = true <-> dom a (fkey und i j)).
Proof. intros P. unfold fcnt, dom. destruct (lfind (fkey und i j) (se a)) as [e|] eqn:F.
  - split; [congruence|]. intros _. apply Nat.ltb_lt. eapply P; eauto.
  - split; [discriminate|congruence]. Qed.

Lemma f_add_sn und a i j (l : L) f : sn (f_add und a i j l f) = sn a.
Proof. unfold f_add. destruct (lfind (fkey und i j) (se a)); [destruct f|]; reflexivity. Qed.
Lemma f_add_dom und a i j (l : L) f k : dom (f_add und a i j l f) k <-> dom a k \/ k = fkey und i j.
Proof. unfold dom, f_add. destruct (lfind (fkey und i j) (se a)) as [e|] eqn:F.
  - destruct f; cbn [fwith se].
    + rewrite lfind_lset. destruct (edge_eqb_spec (fkey und i j) k) as [<-|Ne].
      * split; [auto|intros _; discriminate].
      * split; [auto|]. intros [H|H]; [auto|congruence].
    + split; [auto|]. intros [H|H]; [auto|congruence].
  - cbn [fwith se lfind]. destruct (edge_eqb_spec (fkey und i j) k) as [<-|Ne].
    + split; [auto|intros _; discriminate].
    + split; [auto|]. intros [H|H]; [auto|congruence]. Qed.
Lemma f_add_pos und a i j (l : L) f : Pos a -> Pos (f_add und a i j l f).
Proof. intros P k e. unfold f_add. destruct (lfind (fkey und i j) (se a)) as [e0|] eqn:F; [destruct f|]; cbn [fwith se]; try apply P.
  - rewrite lfind_lset. destruct (edge_eqb (fkey und i j) k); [intros H; injection H as <-; cbn; lia|apply P].
  - cbn [lfind]. destruct (edge_eqb (fkey und i j) k); [intros H; injection H as <-; cbn; lia|apply P]. Qed.

Lemma f_setlabel_sn und a i j (l : L) : sn (f_setlabel und a i j l) = sn a.
Proof. unfold f_setlabel. destruct (lfind (fkey und i j) (se a)); reflexivity. Qed.
Lemma f_setlabel_dom und a i j (l : L) k : dom (f_setlabel und a i j l) k <-> dom a k.
Proof. unfold dom, f_setlabel. destruct (lfind (fkey und i j) (se a)) as [e|] eqn:F; [|tauto]. cbn [fwith se].
  rewrite lfind_lset. destruct (edge_eqb_spec (fkey und i j) k) as [<-|Ne]; [|tauto]. split; intros _; congruence. Qed.
Lemma f_setlabel_pos und a i j (l : L) : Pos a -> Pos (f_setlabel und a i j l).
Proof. intros P k e. unfold f_setlabel. destruct (lfind (fkey und i j) (se a)) as [e0|] eqn:F; [|apply P]. cbn [fwith se].
  rewrite lfind_lset. destruct (edge_eqb (fkey und i j) k); [|apply P]. intros H; injection H as <-; cbn. eapply P; eauto. Qed.

Lemma lfind_map_val (h : @fentry L -> @fentry L) (m : @lmap (@fentry L)) k :
  lfind k (map (fun kv => (fst kv, h (snd kv))) m) = option_map h (lfind k m).
Proof. induction m as [|[k' v] m IH]; cbn [map lfind fst snd option_map]; auto. destruct (edge_eqb k' k); auto. Qed.
Lemma f_dedup_dom a k : dom (f_dedup a) k <-> dom a k.
Proof. unfold dom, f_dedup. cbn [fwith se]. rewrite (lfind_map_val (fun x => {| fcount := 1; flab := flab x |})). destruct (lfind k (se a)); cbn; split; congruence. Qed.
Lemma f_dedup_pos a : Pos (f_dedup a).
Proof. intros k e. unfold f_dedup. cbn [fwith se]. rewrite (lfind_map_val (fun x => {| fcount := 1; flab := flab x |})). destruct (lfind k (se a)); cbn; [|discriminate].
  intros H; injection H as <-; cbn; lia. Qed.

Lemma s_remove_dom a x y k : dom (s_remove a x y) k <-> dom a k /\ k <> (x, y).
Proof. unfold dom, s_remove. cbn [se]. rewrite lfind_lerase. destruct (edge_eqb_spec (x, y) k) as [<-|Ne].
  - split; [congruence|tauto].
  - split; [intros H; split; auto; congruence|tauto]. Qed.
Lemma s_remove_pos a x y : Pos a -> Pos (s_remove a x y).
Proof. intros P k e. unfold s_remove. cbn [se]. rewrite lfind_lerase. destruct (edge_eqb (x, y) k); [discriminate|apply P]. Qed.
Lemma s_filter_dom a p k : dom (s_filter a p) k <-> dom a k /\ p k = true.
Proof. unfold dom. rewrite lfind_s_filter. destruct (p k); split; try tauto; try congruence. intros [_ H]; discriminate. Qed.
Lemma s_filter_pos a p : Pos a -> Pos (s_filter a p).
Proof. intros P k e. rewrite lfind_s_filter. destruct (p k); [apply P|discriminate]. Qed.
End Abs.

(* ---- the concrete side: every call under the length invariant alone (forced labels break the label clause of WInv, so the
   lemmas of Forced.v / UForced.v that assume WInv / WInvU are not available for arbitrary histories) ---- *)
Section Conc.
Context {L : Type}.
Variable hs : bool.
Notation dgraph := (@dgraph L).
Notation fgraph := (@sgraph (@fentry L)).
Implicit Types g : dgraph.
Implicit Types a : fgraph.
Definition Len g : Prop := length (adj g) = size g.
Definition Rel (und : bool) g a : Prop := Len g /\ size g = sn a /\ Pos a /\ forall i j, In j (nb g i) <-> dom a (fkey und i j).

Lemma nb_oob g i j : Len g -> In j (nb g i) -> i < size g.
Proof. intros H X. destruct (Nat.lt_ge_cases i (size g)) as [Hi|Hi]; auto. unfold nb in X. rewrite nth_overflow in X by (rewrite H; auto). destruct X. Qed.
Lemma fbad2 a g s d : size g = sn a -> fbad a s || fbad a d = false -> s < size g /\ d < size g.
Proof. intros HS B. apply orb_false_elim in B as [B1 B2]. unfold fbad in B1, B2. rewrite HS. apply negb_false_iff in B1, B2. apply Nat.ltb_lt in B1, B2. auto. Qed.
Lemma fbad1 a g v : size g = sn a -> fbad a v = false -> v < size g.
Proof. intros HS B. unfold fbad in B. rewrite HS. apply negb_false_iff in B. apply Nat.ltb_lt in B. auto. Qed.
Lemma Rel_same und g a : Rel und g a -> Rel und (fst (g, Thrown OutOfRange)) a.
Proof. auto. Qed.

Lemma has_edge_len g s d : Len g -> s < size g -> d < size g -> has_edge g s d = Val (mem d (nb g s)).
Proof. intros H Hs Hd. unfold has_edge. rewrite (proj2 (in_range_true g s) Hs), (proj2 (in_range_true g d) Hd). cbn [andb].
  rewrite H, (proj2 (Nat.ltb_lt _ _) Hs). reflexivity. Qed.
Lemma push_len g s d l : Len g -> s < size g ->
  exists g', push_edge hs g s d l = (g', Done) /\ Len g' /\ size g' = size g /\ (forall i, nb g' i = if Nat.eqb i s then nb g s ++ [d] else nb g i).
Proof. intros H Hs. unfold push_edge. rewrite H, (proj2 (Nat.ltb_lt _ _) Hs). eexists; split; [reflexivity|]. split; [|split; [reflexivity|]].
  - unfold Len; cbn [adj size]. rewrite upd_length; exact H.
  - intros i. unfold nb; cbn [adj]. rewrite nth_upd by (rewrite H; auto). reflexivity. Qed.
Lemma add_edge_len g s d l f : Len g -> s < size g -> d < size g ->
  exists g', add_edge hs repaired g s d l f = (g', Done) /\ Len g' /\ size g' = size g /\ (forall i j, In j (nb g' i) <-> In j (nb g i) \/ (i = s /\ j = d)).
Proof.
  intros H Hs Hd.
  assert (P : exists g', push_edge hs g s d l = (g', Done) /\ Len g' /\ size g' = size g /\ (forall i j, In j (nb g' i) <-> In j (nb g i) \/ (i = s /\ j = d))).
  { destruct (push_len g s d l H Hs) as [g' [E [HL [S' NB]]]]. exists g'. split; auto. split; auto. split; auto.
    intros i j. rewrite NB. destruct (Nat.eqb_spec i s) as [->|Ne]; [|split; [auto|intros [X|[X _]]; [auto|contradiction]]].
    rewrite in_app_iff. cbn [In]. split; [intros [X|[<-|[]]]; auto|intros [X|[_ ->]]; auto]. }
  unfold add_edge. destruct f.
  - cbn [v_force_checks repaired]. rewrite (proj2 (in_range_true g s) Hs), (proj2 (in_range_true g d) Hd). cbn [andb]. exact P.
  - rewrite (has_edge_len g s d H Hs Hd). destruct (mem d (nb g s)) eqn:M; [|exact P].
    exists g. split; auto. split; auto. split; auto. intros i j. split; auto. intros [X|[-> ->]]; auto. apply mem_In; auto.
Qed.
Lemma remove_edge_len g s d : Len g -> s < size g -> d < size g ->
  exists g', remove_edge g s d = (g', Done) /\ Len g' /\ size g' = size g /\ (forall i j, In j (nb g' i) <-> In j (nb g i) /\ ~ (i = s /\ j = d)).
Proof.
  intros H Hs Hd. unfold remove_edge. rewrite (proj2 (in_range_true g s) Hs), (proj2 (in_range_true g d) Hd). cbn [andb].
  rewrite H, (proj2 (Nat.ltb_lt _ _) Hs). eexists; split; [reflexivity|]. split; [|split; [reflexivity|]].
  - unfold Len; cbn [adj size]. rewrite upd_length; exact H.
  - intros i j. unfold nb; cbn [adj]. rewrite nth_upd by (rewrite H; auto). destruct (Nat.eqb_spec i s) as [->|Ne].
    + rewrite In_remove_all. split; [intros [X Y]; split; auto; intros [_ Z]; auto|intros [X Y]; split; auto].
    + split; [intros X; split; auto; intros [Z _]; auto|tauto].
Qed.
Lemma remove_loop_len (tgt : nat -> nat) vs : forall g, Len g -> (forall i, In i vs -> i < size g /\ tgt i < size g) ->
  exists g', for_vertices (fun g i => remove_edge g i (tgt i)) vs g = (g', Done) /\ Len g' /\ size g' = size g /\
    (forall i j, In j (nb g' i) <-> In j (nb g i) /\ ~ (In i vs /\ j = tgt i)).
Proof.
  induction vs as [|v t IH]; intros g H R; cbn [for_vertices].
  - exists g. split; auto. split; auto. split; auto. intros i j. cbn [In]. tauto.
  - destruct (R v (or_introl eq_refl)) as [Hv Ht]. destruct (remove_edge_len g v (tgt v) H Hv Ht) as [g1 [E1 [H1 [S1 M1]]]]. rewrite E1.
    destruct (IH g1 H1) as [g' [E' [H' [S' M']]]]; [intros i Hi; rewrite S1; apply R; right; auto|].
    exists g'. split; auto. split; auto. split; [congruence|]. intros i j. rewrite M', M1. cbn [In]. split.
    + intros [[A B] C]. split; auto. intros [[->|D] ->]; [apply B; auto|apply C; auto].
    + intros [A B]. split; [split; auto; intros [-> ->]; apply B; auto|intros [D ->]; apply B; auto].
Qed.

(* calls whose effect on the lists is the same in both classes *)
Lemma clear_sound und g a : Rel und g a -> zres (snd (clear_edges repaired g)) = 0%Z /\ Rel und (fst (clear_edges repaired g)) (s_clear a).
Proof. intros [HL [HS [HP HM]]]. unfold clear_edges. rewrite HL, Nat.leb_refl. split; [reflexivity|]. cbn [fst].
  split; [unfold Len; cbn [adj size]; rewrite map_length; exact HL|]. split; [exact HS|]. split; [intros k e; cbn; discriminate|].
  intros i j. unfold nb; cbn [adj]. rewrite nth_map_nil. unfold dom; cbn. tauto. Qed.
Lemma resize_sound und g a n c : Rel und g a -> (if Nat.ltb n (sn a) then Some (zexn InvalidArgument) else Some 0%Z) = Some c ->
  zres (snd (resize g n)) = c /\ Rel und (fst (resize g n)) (if Z.eqb c 0 then s_resize a n else a).
Proof. intros HR HC. pose proof HR as [HL [HS [HP HM]]]. destruct (Nat.ltb_spec n (sn a)) as [Hn|Hn]; injection HC as <-.
  - rewrite resize_shrink by (rewrite HS; auto). split; [reflexivity|exact HR].
  - unfold resize. rewrite HS, (proj2 (Nat.ltb_ge _ _) Hn). split; [reflexivity|]. cbn [fst Z.eqb].
    assert (F : firstn n (adj g) = adj g) by (apply firstn_all2; rewrite HL, HS; auto).
    split; [unfold Len; cbn [adj size]; rewrite F, app_length, repeat_length, HL, HS; lia|]. split; [reflexivity|]. split; [exact HP|].
    intros i j. unfold nb; cbn [adj]. rewrite F, nth_app_repeat. apply HM. Qed.
Lemma set_label_sound und g a s d x y (l : L) (f : bool) c : Rel und g a -> s < size g -> d < size g -> fkey und s d = fkey und x y ->
  match (if f then @None Z else if Nat.ltb 0 (fcnt und a x y) then Some 0%Z else Some (zexn InvalidArgument)) with None => Some 0%Z | z => z end = Some c ->
  zres (snd (set_edge_label hs g s d l f)) = c /\ Rel und (fst (set_edge_label hs g s d l f)) (if Z.eqb c 0 then f_setlabel und a x y l else a).
Proof.
  intros HR Hs Hd K HC. pose proof HR as [HL [HS [HP HM]]]. unfold set_edge_label.
  rewrite (proj2 (in_range_true g s) Hs), (proj2 (in_range_true g d) Hd). cbn [andb].
  assert (RS : forall lb, Rel und {| adj := adj g; size := size g; enum := enum g; labels := lb |} (f_setlabel und a x y l)).
  { intros lb. split; [exact HL|]. split; [rewrite f_setlabel_sn; exact HS|]. split; [apply f_setlabel_pos; auto|].
    intros i j. rewrite f_setlabel_dom. apply HM. }
  destruct f.
  - injection HC as <-. split; [reflexivity|]. cbn [fst Z.eqb]. apply RS.
  - rewrite (has_edge_len g s d HL Hs Hd). pose proof (fcnt_pos und a x y HP) as FP. rewrite <- K, <- HM, <- mem_In in FP.
    destruct (Nat.ltb 0 (fcnt und a x y)); injection HC as <-.
    + rewrite (proj1 FP eq_refl). split; [reflexivity|]. cbn [fst Z.eqb]. apply RS.
    + destruct (mem d (nb g s)); [specialize (proj2 FP eq_refl); discriminate|]. split; [reflexivity|exact HR].
Qed.
Lemma dedup_rel und g a en lb : Rel und g a -> Rel und {| adj := map (dedup []) (adj g); size := size g; enum := en; labels := lb |} (f_dedup a).
Proof. intros [HL [HS [HP HM]]]. split; [unfold Len; cbn [adj size]; rewrite map_length; exact HL|]. split; [exact HS|]. split; [apply f_dedup_pos|].
  intros i j. unfold nb; cbn [adj]. rewrite f_dedup_dom, <- HM.
  change (nth i (map (dedup []) (adj g)) []) with (nth i (map (dedup []) (adj g)) (dedup [] [])). rewrite map_nth. rewrite In_dedup. cbn [In]. unfold nb. tauto. Qed.

Lemma rel_add_d g g' a s d (l : L) f : Rel false g a -> Len g' -> size g' = size g ->
  (forall i j, In j (nb g' i) <-> In j (nb g i) \/ (i = s /\ j = d)) -> Rel false g' (f_add false a s d l f).
Proof. intros [HL [HS [HP HM]]] HL' S' M'. split; auto. split; [rewrite S', f_add_sn; exact HS|]. split; [apply f_add_pos; auto|].
  intros i j. rewrite M', f_add_dom, HM. cbn [fkey]. split; intros [X|X]; auto; right; [destruct X; subst; reflexivity|injection X as -> ->; auto]. Qed.

Theorem d_step_sound g a o c : Rel false g a -> accept_forced (frej_d false) a o = Some c ->
  zres (snd (step hs repaired g o)) = c /\ Rel false (fst (step hs repaired g o)) (if Z.eqb c 0 then fstep_d false a o else a).
Proof.
  intros HR HC. pose proof HR as [HL [HS [HP HM]]]. unfold accept_forced in HC.
  destruct o as [s d l f|x y l f|s d| |v| |n|s d l f|]; cbn [frej_d] in HC.
  - (* addEdge *)
    destruct (fbad a s || fbad a d) eqn:B; injection HC as <-.
    + rewrite d_rejects_out_of_range by (cbn [d_oor]; unfold bad; rewrite HS; exact B). split; [reflexivity|exact HR].
    + destruct (fbad2 a g s d HS B) as [Hs Hd]. cbn [step]. destruct (add_edge_len g s d l f HL Hs Hd) as [g' [E [HL' [S' M']]]]. rewrite E.
      split; [reflexivity|]. cbn [fst Z.eqb fstep_d]. eapply rel_add_d; eauto.
  - (* addReciprocalEdge *)
    destruct (fbad a x || fbad a y) eqn:B; injection HC as <-.
    + rewrite d_rejects_out_of_range by (cbn [d_oor]; unfold bad; rewrite HS; exact B). split; [reflexivity|exact HR].
    + destruct (fbad2 a g x y HS B) as [Hx Hy]. cbn [step]. unfold add_reciprocal.
      destruct (add_edge_len g x y l f HL Hx Hy) as [g1 [E1 [HL1 [S1 M1]]]]. rewrite E1.
      assert (R1 : Rel false g1 (f_add false a x y l f)) by (eapply rel_add_d; eauto).
      destruct (add_edge_len g1 y x l f HL1) as [g2 [E2 [HL2 [S2 M2]]]]; [rewrite S1; auto|rewrite S1; auto|]. rewrite E2.
      split; [reflexivity|]. cbn [fst Z.eqb fstep_d]. eapply rel_add_d; eauto.
  - (* removeEdge *)
    destruct (fbad a s || fbad a d) eqn:B; injection HC as <-.
    + rewrite d_rejects_out_of_range by (cbn [d_oor]; unfold bad; rewrite HS; exact B). split; [reflexivity|exact HR].
    + destruct (fbad2 a g s d HS B) as [Hs Hd]. cbn [step]. destruct (remove_edge_len g s d HL Hs Hd) as [g' [E [HL' [S' M']]]]. rewrite E.
      split; [reflexivity|]. cbn [fst Z.eqb fstep_d fkey snd]. split; auto. split; [rewrite S'; exact HS|]. split; [apply s_remove_pos; auto|].
      intros i j. rewrite M', s_remove_dom, HM. cbn [fkey]. split; intros [X Y]; split; auto.
      * intros Z; injection Z as -> ->; auto.
      * intros [-> ->]; auto.
  - (* removeSelfLoops *)
    injection HC as <-. cbn [step]. unfold remove_self_loops.
    destruct (remove_loop_len (fun i => i) (seq 0 (size g)) g HL) as [g' [E [HL' [S' M']]]]; [intros i Hi; apply in_seq in Hi; lia|].
    cbn beta in E. rewrite E. split; [reflexivity|]. cbn [fst Z.eqb fstep_d]. split; auto. split; [rewrite S'; exact HS|]. split; [apply s_filter_pos; auto|].
    intros i j. unfold s_loops. rewrite M', s_filter_dom, <- HM. cbn [fst snd fkey]. rewrite negb_true_iff, Nat.eqb_neq. split.
    + intros [X Y]. split; auto. intros ->. apply Y. split; auto. apply in_seq. pose proof (nb_oob g j j HL X). lia.
    + intros [X Y]. split; auto. intros [_ ->]; auto.
  - (* removeVertexFromEdgeList *)
    destruct (fbad a v) eqn:B; injection HC as <-.
    + rewrite d_rejects_out_of_range by (cbn [d_oor]; unfold bad; rewrite HS; exact B). split; [reflexivity|exact HR].
    + pose proof (fbad1 a g v HS B) as Hv. cbn [step]. unfold remove_vertex. rewrite (proj2 (in_range_true g v) Hv), HL, (proj2 (Nat.ltb_lt _ _) Hv).
      match goal with |- context [for_vertices _ _ ?G] => set (g1 := G) end.
      assert (HL1 : Len g1) by (unfold Len, g1; cbn [adj size]; rewrite upd_length; exact HL).
      assert (NB1 : forall i, nb g1 i = if Nat.eqb i v then [] else nb g i).
      { intros i. unfold nb, g1; cbn [adj]. rewrite nth_upd by (rewrite HL; auto). reflexivity. }
      destruct (remove_loop_len (fun _ => v) (seq 0 (size g)) g1 HL1) as [g' [E [HL' [S' M']]]]; [intros i Hi; apply in_seq in Hi; cbn [g1 size]; lia|].
      cbn beta in E. rewrite E. split; [reflexivity|]. cbn [fst Z.eqb fstep_d]. split; auto. split; [rewrite S'; exact HS|]. split; [apply s_filter_pos; auto|].
      intros i j. unfold s_rmv. rewrite M', s_filter_dom, <- HM, NB1. cbn [fst snd fkey]. rewrite negb_true_iff, orb_false_iff, !Nat.eqb_neq.
      destruct (Nat.eqb_spec i v) as [->|Ne]; [cbn [In]; tauto|]. split.
      * intros [X Y]. split; auto. split; auto. intros ->. apply Y. split; auto. apply in_seq. pose proof (nb_oob g i v HL X). lia.
      * intros [X [_ Y]]. split; auto. intros [_ Z]; auto.
  - (* clearEdges *)
    injection HC as <-. cbn [step Z.eqb fstep_d]. apply clear_sound; auto.
  - (* resize *)
    cbn [step fstep_d]. apply resize_sound; auto. destruct (Nat.ltb n (sn a)); exact HC.
  - (* setEdgeLabel *)
    destruct (fbad a s || fbad a d) eqn:B; [injection HC as <-|].
    + rewrite d_rejects_out_of_range by (cbn [d_oor]; unfold bad; rewrite HS; exact B). split; [reflexivity|exact HR].
    + destruct (fbad2 a g s d HS B) as [Hs Hd]. cbn [step fstep_d]. apply set_label_sound; auto.
  - (* removeDuplicateEdges *)
    injection HC as <-. cbn [step]. unfold remove_duplicates. rewrite HL, Nat.leb_refl. split; [reflexivity|]. cbn [fst Z.eqb fstep_d].
    apply dedup_rel; auto.
Qed.
(* ---- the undirected class: the key of (i, j) is ordered i j, so the relation makes the lists symmetric ---- *)
Lemma rel_sym g a i j : Rel true g a -> In j (nb g i) -> In i (nb g j).
Proof. intros [_ [_ [_ HM]]] X. apply HM. apply HM in X. cbn [fkey] in *. rewrite ordered_sym. exact X. Qed.
Lemma mem_sym g a x y : Rel true g a -> mem x (nb g y) = mem y (nb g x).
Proof. intros HR. destruct (mem y (nb g x)) eqn:M.
  - apply mem_In. apply (rel_sym g a x y HR). apply mem_In; exact M.
  - apply mem_false. intros X. apply (rel_sym g a y x HR) in X. apply mem_In in X. congruence. Qed.
Lemma ordered_rng (n x y : nat) : x < n -> y < n -> fst (ordered x y) < n /\ snd (ordered x y) < n.
Proof. intros Hx Hy. destruct (ordered_cases x y) as [[-> _]|[-> _]]; cbn [fst snd]; auto. Qed.
Lemma u_has_edge_len g a x y : Rel true g a -> x < size g -> y < size g -> u_has_edge g x y = Val (mem y (nb g x)).
Proof. intros HR Hx Hy. pose proof HR as [HL _]. unfold u_has_edge.
  destruct (ordered_cases x y) as [[-> _]|[-> _]]; cbn [fst snd]; rewrite has_edge_len by auto; [reflexivity|]. f_equal. apply (mem_sym g a); auto. Qed.

Lemma u_push_len g x y l : Len g -> x < size g -> y < size g ->
  exists g', u_push hs g x y l = (g', Done) /\ Len g' /\ size g' = size g /\
    (forall i j, In j (nb g' i) <-> In j (nb g i) \/ (i = x /\ j = y) \/ (i = y /\ j = x)).
Proof.
  intros H Hx Hy. unfold u_push. rewrite H, (proj2 (Nat.ltb_lt _ _) Hx), (proj2 (Nat.ltb_lt _ _) Hy). cbn [andb].
  eexists; split; [reflexivity|]. split; [|split; [reflexivity|]].
  - unfold Len; cbn [adj size]. destruct (Nat.eqb x y); rewrite !upd_length; exact H.
  - intros i j. unfold nb; cbn [adj]. destruct (Nat.eqb_spec x y) as [->|Ne].
    + rewrite nth_upd by (rewrite H; auto). destruct (Nat.eqb_spec i y) as [->|Ni].
      * rewrite in_app_iff. cbn [In]. split; [intros [X|[<-|[]]]; auto|intros [X|[[_ ->]|[_ ->]]]; auto].
      * split; auto. intros [X|[[X _]|[X _]]]; auto; contradiction.
    + rewrite nth_upd2 by (rewrite H; auto). destruct (Nat.eqb_spec i y) as [->|Ni].
      * destruct (Nat.eqb_spec y x) as [E|_]; [congruence|]. rewrite in_app_iff; cbn [In].
        split; [intros [X|[<-|[]]]; auto|intros [X|[[E _]|[_ ->]]]; auto; congruence].
      * destruct (Nat.eqb_spec i x) as [->|Nx].
        -- rewrite in_app_iff; cbn [In]. split; [intros [X|[<-|[]]]; auto|intros [X|[[_ ->]|[E _]]]; auto; congruence].
        -- split; auto. intros [X|[[E _]|[E _]]]; auto; congruence.
Qed.
Lemma u_add_edge_len g a x y l f : Rel true g a -> x < size g -> y < size g ->
  exists g', u_add_edge hs repaired g x y l f = (g', Done) /\ Len g' /\ size g' = size g /\
    (forall i j, In j (nb g' i) <-> In j (nb g i) \/ (i = x /\ j = y) \/ (i = y /\ j = x)).
Proof.
  intros HR Hx Hy. pose proof HR as [HL _]. unfold u_add_edge. destruct f.
  - cbn [v_force_checks repaired]. rewrite (proj2 (in_range_true g x) Hx), (proj2 (in_range_true g y) Hy). cbn [andb]. apply u_push_len; auto.
  - rewrite (u_has_edge_len g a x y HR Hx Hy). destruct (mem y (nb g x)) eqn:M; [|apply u_push_len; auto].
    exists g. split; auto. split; auto. split; auto. intros i j. split; auto. intros [X|[[-> ->]|[-> ->]]]; auto; [apply mem_In; auto|].
    apply (rel_sym g a x y HR). apply mem_In; auto.
Qed.
Lemma u_remove_edge_len g x y : Len g -> x < size g -> y < size g -> (In x (nb g y) -> In y (nb g x)) ->
  exists g', u_remove_edge g x y = (g', Done) /\ Len g' /\ size g' = size g /\
    (forall i j, In j (nb g' i) <-> In j (nb g i) /\ ~ ((i = x /\ j = y) \/ (i = y /\ j = x))).
Proof.
  intros H Hx Hy SY. unfold u_remove_edge. rewrite (proj2 (in_range_true g x) Hx), (proj2 (in_range_true g y) Hy). cbn [andb].
  rewrite H, (proj2 (Nat.ltb_lt _ _) Hx), (proj2 (Nat.ltb_lt _ _) Hy). cbn [andb]. cbv zeta.
  match goal with |- context [Z.ltb 0 ?d] => destruct (Z.ltb_spec 0 d) as [D|D] end.
  - eexists; split; [reflexivity|]. split; [|split; [reflexivity|]].
    + unfold Len; cbn [adj size]. rewrite !upd_length; exact H.
    + intros i j. unfold nb; cbn [adj]. rewrite nth_upd2 by (rewrite H; auto). cbn beta. destruct (Nat.eqb_spec i y) as [->|Ni].
      * rewrite In_remove_all. destruct (Nat.eqb_spec y x) as [->|Nyx].
        -- rewrite In_remove_all. split; [intros [[X Y] Z]; split; auto; intros [[_ E]|[_ E]]; auto|intros [X Y]; split; [split|]; auto; intros ->; apply Y; auto].
        -- split; [intros [X Y]; split; auto; intros [[E _]|[_ E]]; [congruence|auto]|intros [X Y]; split; auto; intros ->; apply Y; auto].
      * destruct (Nat.eqb_spec i x) as [->|Nx].
        -- rewrite In_remove_all. split; [intros [X Y]; split; auto; intros [[_ E]|[E _]]; [auto|congruence]|intros [X Y]; split; auto; intros ->; apply Y; auto].
        -- split; [intros X; split; auto; intros [[E _]|[E _]]; congruence|tauto].
  - assert (NI : ~ In y (nb g x)).
    { apply count_zero. pose proof (length_remove_all y (nth x (adj g) [])) as LR. unfold nb. lia. }
    eexists; split; [reflexivity|]. split; [|split; [reflexivity|]].
    + unfold Len; cbn [adj size]. rewrite !upd_length; exact H.
    + intros i j. unfold nb; cbn [adj]. rewrite nth_upd by (rewrite H; auto). destruct (Nat.eqb_spec i x) as [->|Nx].
      * rewrite In_remove_all. split; [intros [X Y]; split; auto; intros [[_ E]|[E1 E2]]; [auto|apply Y; congruence]|intros [X Y]; split; auto; intros ->; apply Y; auto].
      * split; [intros X; split; auto; intros [[E _]|[-> ->]]; [congruence|apply NI, SY; exact X]|tauto].
Qed.
Lemma u_remove_loop_len vs : forall g, Len g -> (forall i, In i vs -> i < size g) ->
  exists g', for_vertices (fun g i => u_remove_edge g i i) vs g = (g', Done) /\ Len g' /\ size g' = size g /\
    (forall i j, In j (nb g' i) <-> In j (nb g i) /\ ~ (In i vs /\ j = i)).
Proof.
  induction vs as [|v t IH]; intros g H R; cbn [for_vertices].
  - exists g. split; auto. split; auto. split; auto. intros i j. cbn [In]. tauto.
  - pose proof (R v (or_introl eq_refl)) as Hv. destruct (u_remove_edge_len g v v H Hv Hv (fun X => X)) as [g1 [E1 [H1 [S1 M1]]]]. rewrite E1.
    destruct (IH g1 H1) as [g' [E' [H' [S' M']]]]; [intros i Hi; rewrite S1; apply R; right; auto|].
    exists g'. split; auto. split; auto. split; [congruence|]. intros i j. rewrite M', M1. cbn [In]. split.
    + intros [[A B] C]. split; auto. intros [[->|D] ->]; [apply B; auto|apply C; auto].
    + intros [A B]. split; [split; auto; intros [[-> ->]|[-> ->]]; apply B; auto|intros [D ->]; apply B; auto].
Qed.

Lemma rel_add_u g g' a x y (l : L) f : Rel true g a -> Len g' -> size g' = size g ->
  (forall i j, In j (nb g' i) <-> In j (nb g i) \/ (i = x /\ j = y) \/ (i = y /\ j = x)) -> Rel true g' (f_add true a x y l f).
Proof. intros [HL [HS [HP HM]]] HL' S' M'. split; auto. split; [rewrite S', f_add_sn; exact HS|]. split; [apply f_add_pos; auto|].
  intros i j. rewrite M', f_add_dom, HM. cbn [fkey]. split; intros [X|X]; auto; right.
  - destruct X as [[-> ->]|[-> ->]]; [reflexivity|apply ordered_sym].
  - apply ordered_eq_iff in X. destruct X as [[-> ->]|[-> ->]]; auto. Qed.

Theorem u_step_sound g a o c : Rel true g a -> accept_forced (frej_u true) a o = Some c ->
  zres (snd (ustep hs repaired g o)) = c /\ Rel true (fst (ustep hs repaired g o)) (if Z.eqb c 0 then fstep_u true a o else a).
Proof.
  intros HR HC. pose proof HR as [HL [HS [HP HM]]]. unfold accept_forced in HC.
  destruct o as [x y l f|x y| |v| |n|x y l f|]; cbn [frej_u] in HC.
  - (* addEdge *)
    destruct (fbad a x || fbad a y) eqn:B; injection HC as <-.
    + rewrite u_rejects_out_of_range by (cbn [u_oor]; unfold bad; rewrite HS; exact B). split; [reflexivity|exact HR].
    + destruct (fbad2 a g x y HS B) as [Hx Hy]. cbn [ustep]. destruct (u_add_edge_len g a x y l f HR Hx Hy) as [g' [E [HL' [S' M']]]]. rewrite E.
      split; [reflexivity|]. cbn [fst Z.eqb fstep_u]. eapply rel_add_u; eauto.
  - (* removeEdge *)
    destruct (fbad a x || fbad a y) eqn:B; injection HC as <-.
    + rewrite u_rejects_out_of_range by (cbn [u_oor]; unfold bad; rewrite HS; exact B). split; [reflexivity|exact HR].
    + destruct (fbad2 a g x y HS B) as [Hx Hy]. cbn [ustep].
      destruct (u_remove_edge_len g x y HL Hx Hy (rel_sym g a y x HR)) as [g' [E [HL' [S' M']]]]. rewrite E.
      split; [reflexivity|]. cbn [fst Z.eqb fstep_u fkey].
      split; auto. split; [rewrite S'; exact HS|]. split; [apply s_remove_pos; auto|].
      intros i j. rewrite M', s_remove_dom, HM, <- surjective_pairing. cbn [fkey]. split; intros [X Y]; split; auto.
      * intros Z. apply Y. apply ordered_eq_iff in Z. destruct Z as [[-> ->]|[-> ->]]; auto.
      * intros Z. apply Y. destruct Z as [[-> ->]|[-> ->]]; [reflexivity|apply ordered_sym].
  - (* removeSelfLoops *)
    injection HC as <-. cbn [ustep]. unfold u_remove_self_loops.
    destruct (u_remove_loop_len (seq 0 (size g)) g HL) as [g' [E [HL' [S' M']]]]; [intros i Hi; apply in_seq in Hi; lia|].
    rewrite E. split; [reflexivity|]. cbn [fst Z.eqb fstep_u]. split; auto. split; [rewrite S'; exact HS|]. split; [apply s_filter_pos; auto|].
    intros i j. unfold s_loops. rewrite M', s_filter_dom, <- HM. rewrite negb_true_iff, Nat.eqb_neq. cbn [fkey]. split.
    + intros [X Y]. split; auto. intros E2. apply Y. assert (j = i) by (destruct (ordered_cases i j) as [[E3 ?]|[E3 ?]]; rewrite E3 in E2; cbn [fst snd] in E2; lia).
      subst j. split; auto. apply in_seq. pose proof (nb_oob g i i HL X). lia.
    + intros [X Y]. split; auto. intros [_ ->]. apply Y. destruct (ordered_cases i i) as [[E3 ?]|[E3 ?]]; rewrite E3; reflexivity.
  - (* removeVertexFromEdgeList *)
    destruct (fbad a v) eqn:B; injection HC as <-.
    + rewrite u_rejects_out_of_range by (cbn [u_oor]; unfold bad; rewrite HS; exact B). split; [reflexivity|exact HR].
    + pose proof (fbad1 a g v HS B) as Hv. cbn [ustep]. unfold u_remove_vertex. rewrite (proj2 (in_range_true g v) Hv), HL, Nat.leb_refl.
      pose proof (u_rmv_rows_spec v (adj g) 0) as RS. destruct (u_rmv_rows v 0 (adj g)) as [[rows c0] es]. destruct RS as [LEN [NTH _]].
      split; [reflexivity|]. cbn [fst Z.eqb fstep_u]. split; [unfold Len; cbn [adj size]; rewrite LEN; exact HL|]. split; [exact HS|]. split; [apply s_filter_pos; auto|].
      intros i j. unfold nb at 1; cbn [adj]. rewrite NTH, filter_In. cbn [Nat.add]. fold (nb g i). unfold s_rmv. rewrite s_filter_dom, <- HM. cbn [fkey].
      destruct (ordered_cases i j) as [[E3 _]|[E3 _]]; rewrite E3; cbn [fst snd]; [tauto|]. rewrite (orb_comm (Nat.eqb j v)). tauto.
  - (* clearEdges *)
    injection HC as <-. cbn [ustep Z.eqb fstep_u]. apply clear_sound; auto.
  - (* resize *)
    cbn [ustep fstep_u]. apply resize_sound; auto. destruct (Nat.ltb n (sn a)); exact HC.
  - (* setEdgeLabel *)
    destruct (fbad a x || fbad a y) eqn:B; [injection HC as <-|].
    + rewrite u_rejects_out_of_range by (cbn [u_oor]; unfold bad; rewrite HS; exact B). split; [reflexivity|exact HR].
    + destruct (fbad2 a g x y HS B) as [Hx Hy]. destruct (ordered_rng (size g) x y Hx Hy) as [H1 H2]. cbn [ustep fstep_u]. unfold u_set_edge_label. cbv zeta.
      apply set_label_sound; auto. cbn [fkey]. apply ordered_idem.
  - (* removeDuplicateEdges *)
    injection HC as <-. cbn [ustep]. unfold u_remove_duplicates. rewrite HL, Nat.leb_refl.
    destruct (u_dedup_rows_spec (adj g) 0) as [F _]. destruct (u_dedup_rows 0 (adj g)) as [rows c0]. cbn [fst] in F. subst rows.
    split; [reflexivity|]. cbn [fst Z.eqb fstep_u]. apply dedup_rel; auto.
Qed.
End Conc.

Lemma init_rel {L : Type} und n : Rel und (@init L n) (s_init n).
Proof. split; [unfold Len, init; cbn [adj size]; apply repeat_length|]. split; [reflexivity|]. split; [intros k e; cbn; discriminate|].
  intros i j. unfold nb, init; cbn [adj]. rewrite nth_repeat. unfold dom; cbn. tauto. Qed.

Theorem d_codes_sound : forall hs n ops, codes_agree (d_trace hs repaired n ops) (d_codes n ops).
Proof. intros hs n ops. unfold d_trace, d_codes. apply (codes_gen _ _ _ _ _ (Rel false)); [|apply init_rel].
  intros s a o c HR HC. apply d_step_sound; auto. Qed.

Theorem u_codes_sound : forall hs n ops, codes_agree (u_trace_z hs repaired n ops) (u_codes n ops).
Proof. intros hs n ops. unfold u_trace_z, u_codes. apply (codes_gen _ _ _ _ _ (Rel true)); [|apply init_rel].
  intros s a o c HR HC. apply u_step_sound; auto. Qed.

(* the oracle speaks about every call and never names the undefined-behaviour marker: the repaired models never stop early *)
Lemma d_accept_total {L : Type} (a : @sgraph (@fentry L)) o : exists c, accept_forced (frej_d false) a o = Some c /\ c <> zub.
Proof. unfold accept_forced. destruct o as [s d l f|x y l f|s d| |v| |n|s d l f|]; cbn [frej_d];
  repeat match goal with |- context [if ?b then _ else _] => destruct b end; eexists; (split; [reflexivity|discriminate]). Qed.
Lemma u_accept_total {L : Type} (a : @sgraph (@fentry L)) o : exists c, accept_forced (frej_u true) a o = Some c /\ c <> zub.
Proof. unfold accept_forced. destruct o as [x y l f|x y| |v| |n|x y l f|]; cbn [frej_u];
  repeat match goal with |- context [if ?b then _ else _] => destruct b end; eexists; (split; [reflexivity|discriminate]). Qed.
Theorem d_trace_full : forall hs n ops, length (d_trace hs repaired n ops) = length ops.
Proof. intros hs n ops. unfold d_trace. apply (trace_full _ _ _ (accept_forced (frej_d false)) (fstep_d false) (Rel false)) with (a := s_init n); [| |apply init_rel].
  - intros s a o c HR HC. apply d_step_sound; auto.
  - intros a o. apply d_accept_total. Qed.
Theorem u_trace_full : forall hs n ops, length (u_trace_z hs repaired n ops) = length ops.
Proof. intros hs n ops. unfold u_trace_z. apply (trace_full _ _ _ (accept_forced (frej_u true)) (fstep_u true) (Rel true)) with (a := s_init n); [| |apply init_rel].
  - intros s a o c HR HC. apply u_step_sound; auto.
  - intros a o. apply u_accept_total. Qed.

Print Assumptions d_codes_sound.
Print Assumptions u_codes_sound.
Print Assumptions d_trace_full.
Print Assumptions u_trace_full.
