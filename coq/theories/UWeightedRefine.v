(* C05 (undirected class): the UndirectedWeightedGraph model refines the weight-function spec keyed by unordered pairs;
   totalWeight is the sum of the stored weights (any sign, zero included). *)
From BG Require Import Base DirectedModel DirectedProofs DirectedIter DirectedUsers DirectedSpec DirectedRefine DirectedObs Equality
  UndirectedModel UndirectedProofs UndirectedIter UndirectedSpec UndirectedRefine UndirectedObs
  MultiModel WeightedModel MultiSpec Totals MultiRefine WeightedRefine UTotals UMultiRefine.
Local Open Scope Z_scope.
Local Arguments Z.of_nat : simpl never.

Section UWRefine.
Notation V := repaired.
Notation sgraph := (@sgraph Z).
Implicit Types (m : mgraph) (a : sgraph).
Notation RfU := (@RfU Z true).
Notation InvU := (@InvU Z true).

Record RfUW m a : Prop := { ruw_t : UTInv m; ruw_rf : RfU (mg m) a }.

Fixpoint uw_valid_history a (ops : list wop) : bool :=
  match ops with [] => true | o :: t => valid_wop a o && uw_valid_history (wspec_step true a o) t end.
Fixpoint uwspec_run a (ops : list wop) : sgraph := match ops with [] => a | o :: t => uwspec_run (wspec_step true a o) t end.
Fixpoint uw_run m (ops : list wop) : mgraph * res :=
  match ops with [] => (m, Done) | o :: t => match uw_step V true m o with (m1, Done) => uw_run m1 t | r => r end end.

Lemma uw_removal_refines m a m' (oU : @uop Z) : RfUW m a -> uvalid_op a oU = true -> UTInv m' -> mg m' = fst (ustep true V (mg m) oU) -> RfUW m' (uspec_step a oU).
Proof. intros [TI R] Vd T' PR. pose proof (ustep_refines true (mg m) a oU R Vd) as SR. destruct (ustep true V (mg m) oU) as [g' r]. cbn [fst] in PR.
  destruct SR as [_ R']. constructor; auto. rewrite PR; exact R'. Qed.

(* inserting an absent edge; [a'] is any spec state that binds the key to w in front of / in place of nothing *)
Lemma uw_insert_refines m a a' s d w : RfUW m a -> (s < size (mg m))%nat -> (d < size (mg m))%nat -> ~ In d (nb (mg m) s) ->
  sn a' = sn a -> (forall e, lfind e (se a') = if edge_eqb (ordered s d) e then Some w else lfind e (se a)) ->
  exists m', uw_add_edge V m s d w false = (m', Done) /\ RfUW m' a'.
Proof.
  intros [TI R] Hs Hd M SN LF. destruct (u_insert_spec m s d w false TI Hs Hd M) as [g' [E [_ [EN [S' [LB T']]]]]].
  unfold uw_add_edge. rewrite E. assert (Z.eqb (enum g') (enum (mg m)) = false) as -> by (apply Z.eqb_neq; lia).
  eexists; split; [reflexivity|]. constructor; [exact T'|].
  apply rfu_of; cbn [mg mk]; [exact (ut_inv _ T')|rewrite S', SN; apply (ru_size _ _ _ R)|].
  intros e. rewrite LB, LF, lfind_lset, (ru_lab _ _ _ R eq_refl). reflexivity.
Qed.

Lemma uw_add_refines m a s d w : RfUW m a -> (s < sn a)%nat -> (d < sn a)%nat ->
  exists m', uw_add_edge V m s d w false = (m', Done) /\ RfUW m' (ws_add true a s d w).
Proof.
  intros RW Hs Hd. pose proof RW as [TI R]. pose proof TI as [I K T]. rewrite <- (ru_size _ _ _ R) in Hs, Hd.
  unfold ws_add. destruct (mem d (nb (mg m) s)) eqn:M.
  - assert (E : u_add_edge true V (mg m) s d w false = (mg m, Done)).
    { unfold u_add_edge. rewrite (u_has_edge_val true (mg m) s d I Hs Hd), M. reflexivity. }
    unfold uw_add_edge. rewrite E, Z.eqb_refl. exists (mk (mg m) (mtot m)). split; auto.
    assert (ME : mk (mg m) (mtot m) = m) by (destruct m; reflexivity). rewrite ME.
    apply mem_In in M. rewrite (proj1 (rfu_in m a s d R) M). exact RW.
  - apply mem_false in M. assert (mhas true a s d = false) as ->.
    { destruct (mhas true a s d) eqn:X; auto. exfalso. apply M, (rfu_in m a s d R); auto. }
    apply (uw_insert_refines m a _ s d w RW Hs Hd M); [reflexivity|]. intros e. cbn [with_se se lfind]. unfold key. reflexivity.
Qed.
Lemma uw_remove_refines m a s d : RfUW m a -> (s < sn a)%nat -> (d < sn a)%nat ->
  exists m', uw_remove_edge m s d = (m', Done) /\ RfUW m' (wspec_step true a (WRemove s d)).
Proof.
  intros RW Hs Hd. pose proof RW as [TI R]. pose proof Hs as Hs'. pose proof Hd as Hd'. rewrite <- (ru_size _ _ _ R) in Hs, Hd.
  unfold uw_remove_edge. destruct (u_remove_all_spec m s d TI Hs Hd) as [m1 [E1 [P1 [T1 _]]]]. exists m1; split; auto.
  cbn [wspec_step]. unfold key. rewrite erase_is_uremove.
  apply (uw_removal_refines m a m1 (URemove s d) RW (uvalid_remove a s d Hs' Hd') T1 P1).
Qed.
Lemma uw_set_refines m a s d w : RfUW m a -> (s < sn a)%nat -> (d < sn a)%nat ->
  exists m', uw_set_weight V true m s d w = (m', Done) /\ RfUW m' (ws_set true a s d w).
Proof.
  intros RW Hs Hd. pose proof RW as [TI R]. pose proof TI as [I K T]. rewrite <- (ru_size _ _ _ R) in Hs, Hd.
  unfold uw_set_weight, ws_set. rewrite (u_has_edge_val true (mg m) s d I Hs Hd). destruct (mem d (nb (mg m) s)) eqn:M.
  - apply mem_In in M. pose proof (u_relabel_spec m s d w TI M) as T'. eexists; split; [reflexivity|]. constructor; [exact T'|].
    apply rfu_of; cbn [mg mk set_adj_lab size labels with_se sn se]; [exact (u_set_label_inv true (mg m) s d _ I M)|apply (ru_size _ _ _ R)|].
    intros e. unfold key. rewrite !lfind_lset, (ru_lab _ _ _ R eq_refl). reflexivity.
  - apply mem_false in M. apply (uw_insert_refines m a _ s d w RW Hs Hd M); [reflexivity|]. intros e. cbn [with_se se]. unfold key. apply lfind_lset.
Qed.

Theorem uw_step_refines m a o : RfUW m a -> valid_wop a o = true -> exists m', uw_step V true m o = (m', Done) /\ RfUW m' (wspec_step true a o).
Proof.
  intros RW Vd. pose proof RW as [TI R]. pose proof TI as [I K T].
  destruct o as [s d w f|s d|s d w| |v| |n|]; cbn [valid_wop uw_step wspec_step] in Vd |- *;
    repeat (match type of Vd with (_ && _ = true) => apply andb_prop in Vd as [Vd ?] end);
    repeat (match goal with H : Nat.ltb _ _ = true |- _ => apply Nat.ltb_lt in H | H : negb ?f = true |- _ => destruct f; [discriminate|clear H] end).
  - apply uw_add_refines; auto.
  - apply (uw_remove_refines m a s d RW); auto.
  - apply uw_set_refines; auto.
  - unfold uw_remove_self_loops, uw_remove_edge.
    destruct (u_remove_all_loop (seq 0 (size (mg m))) m TI) as [m' [E' [P' T']]]. { intros i Hi; apply in_seq in Hi; lia. }
    exists m'; split; auto. apply (uw_removal_refines m a m' USelfLoops RW eq_refl T' P').
  - rewrite <- (ru_size _ _ _ R) in Vd. unfold uw_remove_vertex. destruct (u_remove_vertex_spec_t m v TI Vd) as [m' [E' [P' T']]].
    exists m'; split; auto. assert (VD : uvalid_op a (@URemoveVertex Z v) = true) by (cbn [uvalid_op]; apply Nat.ltb_lt; rewrite <- (ru_size _ _ _ R); auto).
    apply (uw_removal_refines m a m' (URemoveVertex v) RW VD T' P').
  - unfold dw_clear. pose proof (u_clear_edges_spec true (mg m) I) as CS. destruct (clear_edges V (mg m)) as [g1 r1] eqn:CE.
    destruct CS as [-> [I1 [S1 [N1 L1]]]]. eexists; split; [reflexivity|].
    assert (T1 : UTInv (mk g1 0)) by (constructor; cbn [mg mk mtot]; [exact I1|unfold KeysOK; rewrite L1; constructor|rewrite L1; reflexivity]).
    apply (uw_removal_refines m a _ UClear RW eq_refl T1). cbn [mg mk ustep]. rewrite CE. reflexivity.
  - apply Nat.leb_le in Vd. pose proof Vd as Vd'. rewrite <- (ru_size _ _ _ R) in Vd. destruct (u_resize_spec_t m n TI Vd) as [m' [E' [P' [T' _]]]]. exists m'; split; auto.
    assert (VD : uvalid_op a (@UResize Z n) = true) by (cbn [uvalid_op]; apply Nat.leb_le; auto). apply (uw_removal_refines m a m' (UResize n) RW VD T' P').
  - unfold uw_remove_duplicates. rewrite (u_dedup_noop_t m TI). exists m; auto.
Qed.
Lemma uw_init_refines n : RfUW (dm_init n) (s_init n).
Proof. destruct (um_init_refines n) as [TI R _]. constructor; auto. Qed.
Theorem uw_run_refines ops : forall m a, RfUW m a -> uw_valid_history a ops = true -> exists m', uw_run m ops = (m', Done) /\ RfUW m' (uwspec_run a ops).
Proof. induction ops as [|o t IH]; intros m a RW Vd; cbn [uw_run uwspec_run uw_valid_history] in *; [exists m; auto|].
  apply andb_prop in Vd as [V1 V2]. destruct (uw_step_refines m a o RW V1) as [m1 [E1 R1]]. rewrite E1. apply IH; auto. Qed.

Lemma WKeys_ustep a o : SKeys a -> SKeys (wspec_step true a o).
Proof.
  unfold SKeys. intros H.
  assert (FIL : forall a p, NoDup (map fst (se a)) -> NoDup (map fst (se (@s_filter Z a p)))).
  { intros b p Hb. unfold s_filter; cbn [se]. induction (se b) as [|[k v] l IH]; simpl; [constructor|]. inversion Hb; subst.
    destruct (p k); simpl; auto. constructor; auto. intros X. apply H2. apply in_map_iff in X as [[k' v'] [E X]]. simpl in E; subst.
    apply filter_In in X as [X _]. apply in_map_iff. exists (k, v'); auto. }
  destruct o as [s d w f|s d|s d w| |v| |n|]; cbn [wspec_step]; auto.
  - unfold ws_add. destruct (mhas true a s d) eqn:M; auto. cbn [with_se se map fst]. constructor; auto.
    rewrite <- lfind_some_in_keys. unfold mhas, smem in M. destruct (lfind (key true s d) (se a)); congruence.
  - cbn [with_se se]. apply NoDup_keys_lerase; auto.
  - unfold ws_set; cbn [with_se se]. apply NoDup_keys_lset; auto.
  - apply FIL; auto.
  - apply FIL; auto.
  - cbn; constructor.
Qed.
Lemma WKeys_urun ops : forall a, SKeys a -> SKeys (uwspec_run a ops).
Proof. induction ops as [|o t IH]; intros a H; cbn [uwspec_run]; auto. apply IH, WKeys_ustep; auto. Qed.

Theorem C05_undirected_run (n : nat) (ops : list wop) : uw_valid_history (s_init n) ops = true ->
  exists m, uw_run (dm_init n) ops = (m, Done) /\
    let a := uwspec_run (s_init n) ops in
    (forall i j thr, (i < sn a)%nat -> (j < sn a)%nat ->
       u_has_edge (mg m) i j = Val (mhas true a i j) /\
       uw_get_weight m i j thr = (if mhas true a i j then Val (mval true a i j) else if thr then Raise InvalidArgument else Val 0)) /\
    enum (mg m) = Z.of_nat (length (se a)) /\ mtot m = ssum a.
Proof.
  intros Vd. destruct (uw_run_refines ops (dm_init n) (s_init n) (uw_init_refines n) Vd) as [m [E RW]]. exists m; split; auto.
  cbv zeta. set (a := uwspec_run (s_init n) ops) in *. pose proof RW as [TI R]. pose proof TI as [I K T].
  assert (SK : SKeys a) by (apply WKeys_urun; unfold SKeys; cbn; constructor).
  split; [|split; [apply rfu_enum; auto|apply rfu_total; auto]].
  intros i j thr Hi Hj. rewrite <- (ru_size _ _ _ R) in Hi, Hj. rewrite (u_has_edge_val true (mg m) i j I Hi Hj). split.
  - f_equal. apply (mem_umem true (mg m) a i j R).
  - unfold uw_get_weight, u_get_label, get_label. destruct (okey_range i j (size (mg m)) Hi Hj) as [A B]. unfold okey in A, B.
    rewrite (proj2 (in_range_true (mg m) _) A), (proj2 (in_range_true (mg m) _) B). cbn [andb].
    rewrite <- surjective_pairing, (ru_lab _ _ _ R eq_refl). unfold mhas, mval, lget, smem, key. destruct (lfind (ordered i j) (se a)); reflexivity.
Qed.
End UWRefine.


Theorem C05_undirected_invariant : forall (n : nat) (ops : list wop), uw_valid_history (s_init n) ops = true ->
  exists m, uw_run (dm_init n) ops = (m, Done) /\ UTInv m.
Proof. intros n ops Vd. destruct (uw_run_refines ops (dm_init n) (s_init n) (uw_init_refines n) Vd) as [m [E [T _]]]. exists m; auto. Qed.
Print Assumptions C05_undirected_invariant.
