(* FloatDj — (1) the choice-driven Dijkstra model of Dj.v over an ABSTRACT distance type, (2) its executable binary64 instance.

   C++ (include/BaseGraph/algorithms/paths.hpp, findGeodesicsDijkstra):
       distances[*] = +infinity; distances[source] = 0; predecessors[source] = source; worklist = {source}
       pop a worklist vertex of minimum tentative distance;  for each out-edge (vertex, neighbour, weight):
           newPathLength = distances[vertex] + weight            (ONE rounded binary64 addition)
           if (newPathLength < distances[neighbour]) { distances[neighbour] = newPathLength; predecessors[neighbour] = vertex; push neighbour }

   Generic part: distances live in a type D with a boolean comparison [leb], a least cost [zero] and an extension operator [ext : D -> W -> D];
   [None] plays the role of +infinity ("not reached").  The laws (total preorder, ext monotone and inflationary) are only needed by the proofs
   (FloatDjProofs.v); the definitions below are plain executable functions.

   Float part: D = W = [dbl] (FloatTotal.v), leb = Flocq's [Bleb] (IEEE <=), ext = [dadd] = the proof-free rounded addition [fadd 53 1024]
   (equal to [Bplus mode_NE], FloatTotalProofs.fadd_Bplus).  [fdj_run] additionally rejects a run in which a weight is not a finite
   non-negative double, an edge leaves the vertex range, or a tentative distance overflows to +infinity. *)
From Coq Require Import ZArith List Bool Arith Floats.SpecFloat.
From Flocq Require Import Core BinarySingleNaN.
From BG Require Import Dj FloatTotal.
Import ListNotations.

(* ================= 1. generic model ================= *)
Section GDj.
  Variables D W : Type.
  Variable leb : D -> D -> bool.
  Variable zero : D.
  Variable ext : D -> W -> D.

  Definition gltb (x y : D) : bool := negb (leb y x).
  Definition gadj := list (list (nat * W)).
  Definition ggetd (d : list (option D)) (v : nat) : option D := nth v d None.
  Definition ggetp (p : list (option nat)) (v : nat) : option nat := nth v p None.
  (* a < b and a <= b when [None] is +infinity *)
  Definition gdlt (a : D) (b : option D) : bool := match b with None => true | Some b => gltb a b end.
  Definition gdle (a b : option D) : bool :=
    match a, b with _, None => true | None, Some _ => false | Some a, Some b => leb a b end.

  Record gdj := { gdist : list (option D); gpred : list (option nat); gwork : list nat }.

  Definition grelax1 (u : nat) (du : D) (st : gdj) (e : nat * W) : gdj :=
    if gdlt (ext du (snd e)) (ggetd (gdist st) (fst e))
    then {| gdist := set_nth (fst e) (Some (ext du (snd e))) (gdist st);
            gpred := set_nth (fst e) (Some u) (gpred st);
            gwork := gwork st ++ [fst e] |}
    else st.

  (* c is a worklist member of minimum tentative distance *)
  Definition glegal (st : gdj) (c : nat) : bool :=
    existsb (Nat.eqb c) (gwork st) && forallb (fun x => gdle (ggetd (gdist st) c) (ggetd (gdist st) x)) (gwork st).

  Definition gstep (g : gadj) (st : gdj) (c : nat) : option gdj :=
    if glegal st c then
      match ggetd (gdist st) c with
      | Some du => Some (fold_left (grelax1 c du) (nth c g [])
                                   {| gdist := gdist st; gpred := gpred st; gwork := remove_one c (gwork st) |})
      | None => None
      end
    else None.

  Fixpoint grun (g : gadj) (st : gdj) (cs : list nat) : option gdj :=
    match cs with
    | [] => Some st
    | c :: cs => match gstep g st c with Some st' => grun g st' cs | None => None end
    end.

  Definition ginit (n s : nat) : gdj :=
    {| gdist := set_nth s (Some zero) (repeat None n); gpred := set_nth s (Some s) (repeat None n); gwork := [s] |}.

  (* ---- specification: walks as edge lists, cost = left-to-right fold of ext from zero ---- *)
  Definition gpath := list (nat * W).
  Definition gcost (p : gpath) : D := fold_left (fun d e => ext d (snd e)) p zero.
  (* [gwalk g s p v]: p is the list of (head, weight) of the successive edges of a walk from s to v in g *)
  Inductive gwalk (g : gadj) (s : nat) : gpath -> nat -> Prop :=
  | gw_nil : s < length g -> gwalk g s [] s
  | gw_snoc p u v w : gwalk g s p u -> In (v, w) (nth u g []) -> gwalk g s (p ++ [(v, w)]) v.
  Definition gwf (g : gadj) : Prop := forall u v w, In (v, w) (nth u g []) -> v < length g.

  (* ---- a deterministic scheduler (first worklist member of minimum distance), for drivers without an instrumented pop sequence ---- *)
  Fixpoint gpick (d : list (option D)) (best : nat) (l : list nat) : nat :=
    match l with
    | [] => best
    | x :: t => gpick d (if gdle (ggetd d best) (ggetd d x) then best else x) t
    end.
  Fixpoint gauto (g : gadj) (st : gdj) (fuel : nat) : list nat :=
    match fuel with
    | O => []
    | S f => match gwork st with
             | [] => []
             | x :: t => let c := gpick (gdist st) x t in
                         match gstep g st c with Some st' => c :: gauto g st' f | None => [] end
             end
    end.
End GDj.

Arguments gdist {D}. Arguments gpred {D}. Arguments gwork {D}.
Arguments ggetd {D}. Arguments gwalk {W}. Arguments gwf {W}.

(* ================= 2. the binary64 instance ================= *)
Definition dadd : dbl -> dbl -> dbl := fadd 53 1024.
Definition dleb : dbl -> dbl -> bool := Bleb.
Definition fadj := list (list (nat * dbl)).
Definition fdj_state := gdj dbl.

(* admissible distances: +0, positive finite doubles, +infinity (never NaN, never negative, never -0) *)
Definition okd (x : dbl) : bool :=
  match x with B754_nan => false | B754_zero s => negb s | B754_infinity s => negb s | B754_finite s _ _ _ => negb s end.
(* admissible weights: finite and >= 0 (-0 allowed) *)
Definition okw (w : dbl) : bool :=
  match w with B754_zero _ => true | B754_finite s _ _ _ => negb s | _ => false end.

Definition fdj_wf (g : fadj) (s : nat) : bool :=
  (s <? length g) && forallb (forallb (fun e : nat * dbl => (fst e <? length g) && okw (snd e))) g.
Definition dfin (o : option dbl) : bool := match o with Some d => is_finite d | None => true end.
Definition fdj_finite (st : fdj_state) : bool := forallb dfin (gdist st).

Definition fdj_step (g : fadj) (st : fdj_state) (c : nat) : option fdj_state :=
  match gstep dbl dbl dleb dadd g st c with
  | Some st' => if fdj_finite st' then Some st' else None
  | None => None
  end.
Fixpoint fdj_run_chk (g : fadj) (st : fdj_state) (cs : list nat) : option fdj_state :=
  match cs with
  | [] => Some st
  | c :: cs => match fdj_step g st c with Some st' => fdj_run_chk g st' cs | None => None end
  end.
Definition fdj_init (n s : nat) : fdj_state := ginit dbl dzero n s.

(* graph, source, pop sequence  ->  (distances, predecessors) of the COMPLETED run; None when the run is not accepted:
   malformed input, illegal pop, overflow, or worklist not empty at the end *)
Definition fdj_run (g : fadj) (s : nat) (cs : list nat) : option (list (option dbl) * list (option nat)) :=
  if fdj_wf g s then
    match fdj_run_chk g (fdj_init (length g) s) cs with
    | Some st => match gwork st with [] => Some (gdist st, gpred st) | _ :: _ => None end
    | None => None
    end
  else None.

(* what the C++ returns, bit for bit: distances as IEEE bit patterns (unreached = +infinity = 0x7FF0000000000000),
   predecessors as integers (none = -1, the C++ has BASEGRAPH_VERTEX_MAX there) *)
Definition inf_bits : Z := 9218868437227405312%Z.
Definition dist_bits (o : option dbl) : Z := match o with Some d => bits_of_dbl d | None => inf_bits end.
Definition pred_code (o : option nat) : Z := match o with Some p => Z.of_nat p | None => (-1)%Z end.
Definition fdj_trace (g : fadj) (s : nat) (cs : list nat) : option (list Z * list Z) :=
  match fdj_run g s cs with
  | Some (ds, ps) => Some (map dist_bits ds, map pred_code ps)
  | None => None
  end.
(* the distances after every pop (for step-by-step comparison) *)
Fixpoint fdj_trace_steps (g : fadj) (st : fdj_state) (cs : list nat) : list (list Z) :=
  match cs with
  | [] => []
  | c :: cs => match fdj_step g st c with
               | Some st' => map dist_bits (gdist st') :: fdj_trace_steps g st' cs
               | None => []
               end
  end.
(* self-scheduled run: pops chosen by [gauto]; any fuel > 1 + number of edges completes the run (FloatDjProofs.fdj_pops_accepted), and the
   distances do not depend on the scheduling (FloatDjProofs.fdj_distances_unique) *)
Definition fdj_pops (g : fadj) (s : nat) (fuel : nat) : list nat := gauto dbl dbl dleb dadd g (fdj_init (length g) s) fuel.
Definition fdj_auto (g : fadj) (s : nat) (fuel : nat) : option (list Z * list Z) := fdj_trace g s (fdj_pops g s fuel).

(* ---- closed examples ---- *)
(* 0 -0.1-> 1 -0.2-> 2,  0 -0.3-> 2,  2 -0.1-> 3, 1 -1e16-> 3, 4 isolated.
   0.1 + 0.2 = 0.30000000000000004 (rounded up) > 0.3, so vertex 2 keeps the direct edge; (0.3 + 0.1) rounds to 0.4;
   vertex 3 is pushed twice (first with 0.1 + 1e16), hence popped twice *)
Definition fex_g : fadj := [[(1, d01); (2, d03)]; [(2, d02); (3, d1e16)]; [(3, d01)]; []; []].
Example fex_run : fdj_trace fex_g 0 [0; 1; 2; 3; 3] =
  Some ([0; 4591870180066957722; 4599075939470750515; 4600877379321698714; 9218868437227405312]%Z, [0; 0; 0; 2; -1]%Z).
Proof. vm_compute. reflexivity. Qed.
Example fex_auto : fdj_pops fex_g 0 10 = [0; 1; 2; 3; 3] /\ fdj_auto fex_g 0 10 = fdj_trace fex_g 0 [0; 1; 2; 3; 3].
Proof. vm_compute. split; reflexivity. Qed.
(* popping 2 (distance 0.3) before 1 (distance 0.1) is not a legal heap pop *)
Example fex_illegal : fdj_trace fex_g 0 [0; 2] = None.
Proof. vm_compute. reflexivity. Qed.
(* an incomplete run is not a result *)
Example fex_incomplete : fdj_trace fex_g 0 [0; 1; 2; 3] = None.
Proof. vm_compute. reflexivity. Qed.
(* negative weight rejected *)
Example fex_neg : fdj_trace [[(1, dbl_of_bits 0xBFB999999999999A)]; []] 0 [0; 1] = None.
Proof. vm_compute. reflexivity. Qed.
(* the order of summation matters: along 0 -> 1 -> 2 -> 3 with weights 1e16, 1, 1 the float distance of 3 is 1e16 (both additions round down),
   the exact distance is 1e16 + 2 *)
Definition fex_g2 : fadj := [[(1, d1e16)]; [(2, done)]; [(3, done)]; []].
Example fex_run2 : fdj_trace fex_g2 0 [0; 1; 2; 3] =
  Some ([0; 4846369599423283200; 4846369599423283200; 4846369599423283200]%Z, [0; 0; 1; 2]%Z).
Proof. vm_compute. reflexivity. Qed.

(* The values below were produced by the C++ itself (g++ -O1, x86-64): BaseGraph::algorithms::findGeodesicsDijkstra on a DirectedWeightedGraph(7)
   with source 3; the pop sequence is the sequence of getOutNeighbours calls; weights include 5e-324 (bits 1), 1e-300, 0 and decimal fractions.
   Distances and predecessors agree bit for bit; so do the distances of the self-scheduled run. *)
Notation Bd := dbl_of_bits (only parsing).
Definition fex_cpp : fadj :=
  [[(5, Bd 4632684051690002842)]; [(6, Bd 1); (3, Bd 0); (1, Bd 4604480259023595110)]; [(1, Bd 1); (0, Bd 4633134411652739892)];
   [(1, Bd 4620017677738023322); (4, Bd 4612811918334230528); (2, Bd 4618216237887075124); (3, Bd 4635090662740878951)];
   [(3, Bd 4683220299150161609); (0, Bd 4633880320341023130); (1, Bd 4633359591634108416); (6, Bd 4591870180066957722)];
   [(3, Bd 118622047889322841); (2, Bd 4623564262444577588); (1, Bd 118622047889322841); (5, Bd 4635639538945464730); (6, Bd 0)];
   [(2, Bd 4596373779694328218); (5, Bd 4599676419421066581)]].
Example fex_cpp_run : fdj_trace fex_cpp 3 [3; 4; 6; 2; 2; 1; 1; 5; 0; 0] =
  Some ([4633528476620134810; 4613487458278336103; 4613487458278336103; 0; 4612811918334230528; 4613787698253494136; 4613037098315599053]%Z,
        [2; 2; 6; 3; 3; 6; 4]%Z).
Proof. vm_compute. reflexivity. Qed.
Example fex_cpp_auto : option_map fst (fdj_auto fex_cpp 3 26) = option_map fst (fdj_trace fex_cpp 3 [3; 4; 6; 2; 2; 1; 1; 5; 0; 0]).
Proof. vm_compute. reflexivity. Qed.
