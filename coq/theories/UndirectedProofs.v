(* Invariant (with symmetry) and characterisation lemmas for the repaired undirected model, force off. *)
From BG Require Import Base DirectedModel DirectedProofs UndirectedModel.
Local Open Scope Z_scope.
Local Arguments Z.of_nat : simpl never.
Local Arguments Z.add : simpl never.
Local Arguments Z.sub : simpl never.

Definition cnt (i : nat) (l : list nat) : Z := Z.of_nat (length (filter (fun j => Nat.leb i j) l)).
Fixpoint utotal_from (k : nat) (a : list (list nat)) : Z := match a with [] => 0 | l :: t => cnt k l + utotal_from (S k) t end.
Definition utotal a := utotal_from 0 a.
Lemma utotal_upd i f : forall a k, (i < length a)%nat ->
  utotal_from k (upd i f a) = utotal_from k a - cnt (k + i) (nth i a []) + cnt (k + i) (f (nth i a [])).
Proof. induction i as [|i IH]; intros [|x t] k H; simpl in *; try lia.
  - rewrite Nat.add_0_r. lia.
  - rewrite IH by lia. replace (S k + i)%nat with (k + S i)%nat by lia. lia. Qed.
Lemma cnt_snoc i l x : cnt i (l ++ [x]) = cnt i l + (if Nat.leb i x then 1 else 0).
Proof. unfold cnt. rewrite filter_app, app_length; simpl. destruct (Nat.leb i x); simpl; lia. Qed.
Lemma cnt_nil i : cnt i [] = 0. Proof. reflexivity. Qed.
Lemma utotal_from_app a b k : utotal_from k (a ++ b) = utotal_from k a + utotal_from (k + length a) b.
Proof. revert k; induction a as [|x t IH]; intros k; simpl; [rewrite Nat.add_0_r; lia|]. rewrite IH. replace (S k + length t)%nat with (k + S (length t))%nat by lia. lia. Qed.
Lemma utotal_from_repeat_nil n k : utotal_from k (repeat [] n) = 0.
Proof. revert k; induction n; intros k; simpl; auto. rewrite IHn. reflexivity. Qed.
Lemma utotal_from_map_nil (a : list (list nat)) k : utotal_from k (map (fun _ => []) a) = 0.
Proof. revert k; induction a; intros k; simpl; auto. rewrite IHa. reflexivity. Qed.
Lemma cnt_remove_all_nodup i d l : NoDup l -> cnt i l = cnt i (remove_all d l) + (if mem d l && Nat.leb i d then 1 else 0).
Proof. unfold cnt. induction 1 as [|h t Hh ND IH]; simpl; auto.
  destruct (Nat.eqb_spec h d) as [->|Hne]; simpl.
  - rewrite Nat.eqb_refl; simpl. rewrite remove_all_notin by auto. destruct (Nat.leb i d); simpl; lia.
  - destruct (Nat.eqb_spec d h); [congruence|]. simpl. destruct (Nat.leb i h); simpl; lia. Qed.

Section UProofs.
Context {L : Type}.
Variable has_store : bool.
Notation dgraph := (@dgraph L).
Implicit Types g : dgraph.

Record InvU g : Prop := {
  u_len : length (adj g) = size g;
  u_nodup : forall i, NoDup (nb g i);
  u_rng : forall i j, In j (nb g i) -> (i < size g)%nat /\ (j < size g)%nat;
  u_sym : forall i j, In j (nb g i) -> In i (nb g j);
  u_enum : enum g = utotal (adj g);
  u_lab : if has_store then forall i j, lfind (i, j) (labels g) <> None <-> (i <= j)%nat /\ In j (nb g i) else labels g = [] }.

Lemma ordered_cases a b : (ordered a b = (a, b) /\ (a < b)%nat) \/ (ordered a b = (b, a) /\ (b <= a)%nat).
Proof. unfold ordered. destruct (Nat.ltb_spec a b); auto. Qed.
Lemma ordered_le a b : (fst (ordered a b) <= snd (ordered a b))%nat.
Proof. destruct (ordered_cases a b) as [[-> ?]|[-> ?]]; simpl; lia. Qed.
Lemma ordered_sym a b : ordered a b = ordered b a.
Proof. unfold ordered. destruct (Nat.ltb_spec a b), (Nat.ltb_spec b a); auto; try lia. f_equal; lia. Qed.

Lemma u_has_edge_val g a b : InvU g -> (a < size g)%nat -> (b < size g)%nat -> u_has_edge g a b = Val (mem b (nb g a)).
Proof. intros I Ha Hb. unfold u_has_edge, has_edge, in_range.
  destruct (ordered_cases a b) as [[-> H]|[-> H]]; simpl.
  - rewrite (proj2 (Nat.ltb_lt _ _) Ha), (proj2 (Nat.ltb_lt _ _) Hb), (u_len _ I), (proj2 (Nat.ltb_lt _ _) Ha); reflexivity.
  - rewrite (proj2 (Nat.ltb_lt _ _) Ha), (proj2 (Nat.ltb_lt _ _) Hb), (u_len _ I), (proj2 (Nat.ltb_lt _ _) Hb); simpl. f_equal.
    fold (nb g b). destruct (mem b (nb g a)) eqn:M.
    + apply mem_In. apply (u_sym _ I). apply mem_In; auto.
    + apply mem_false. intros X. apply (u_sym _ I) in X. apply mem_In in X. congruence.
Qed.

Lemma nth_upd2 (adj0 : list (list nat)) a b f h i : (a < length adj0)%nat -> (b < length adj0)%nat ->
  nth i (upd b f (upd a h adj0)) [] =
  if Nat.eqb i b then f (if Nat.eqb b a then h (nth a adj0 []) else nth b adj0 []) else if Nat.eqb i a then h (nth a adj0 []) else nth i adj0 [].
Proof. intros Ha Hb. rewrite nth_upd by (rewrite upd_length; auto). destruct (Nat.eqb_spec i b) as [->|]; rewrite nth_upd by auto; reflexivity. Qed.

(* ---------- addEdge ---------- *)
Lemma u_add_edge_spec g a b l : InvU g -> (a < size g)%nat -> (b < size g)%nat ->
  let '(g', r) := u_add_edge has_store repaired g a b l false in
  r = Done /\ InvU g' /\ size g' = size g /\
  (forall i j, In j (nb g' i) <-> In j (nb g i) \/ (i = a /\ j = b) \/ (i = b /\ j = a)) /\
  (forall e, lfind e (labels g') = if has_store && edge_eqb (ordered a b) e && negb (mem b (nb g a)) then Some l else lfind e (labels g)).
Proof.
  intros I Ha Hb. unfold u_add_edge. rewrite u_has_edge_val by auto. destruct (mem b (nb g a)) eqn:M.
  - split; auto. split; auto. split; auto. split.
    + intros i j; split; auto. intros [H|[[-> ->]|[-> ->]]]; auto; [apply mem_In; auto|apply (u_sym _ I), mem_In; auto].
    + intros e; rewrite andb_false_r; auto.
  - unfold u_push. rewrite (u_len _ I), (proj2 (Nat.ltb_lt _ _) Ha), (proj2 (Nat.ltb_lt _ _) Hb); simpl.
    assert (Ha' : (a < length (adj g))%nat) by (rewrite (u_len _ I); auto).
    assert (Hb' : (b < length (adj g))%nat) by (rewrite (u_len _ I); auto).
    apply mem_false in M.
    assert (M' : ~ In a (nb g b)) by (intros X; apply M, (u_sym _ I); auto).
    set (adj' := upd b (fun x => x ++ [a]) (if Nat.eqb a b then adj g else upd a (fun x => x ++ [b]) (adj g))).
    assert (NB : forall i, nth i adj' [] = if Nat.eqb i b then nb g b ++ [a] else if Nat.eqb i a then nb g a ++ [b] else nb g i).
    { intros i. unfold adj'. destruct (Nat.eqb_spec a b) as [->|Hab].
      - rewrite nth_upd by auto. destruct (Nat.eqb_spec i b); reflexivity.
      - rewrite nth_upd2 by auto. destruct (Nat.eqb_spec b a); [congruence|]. reflexivity. }
    assert (MEM : forall i j, In j (nth i adj' []) <-> In j (nb g i) \/ (i = a /\ j = b) \/ (i = b /\ j = a)).
    { intros i j. rewrite NB. destruct (Nat.eqb_spec i b) as [->|Hib]; [|destruct (Nat.eqb_spec i a) as [->|Hia]].
      - rewrite in_app_iff; simpl. split; [intros [?|[<-|[]]]; auto|intros [?|[[-> ->]|[_ ->]]]; auto].
      - rewrite in_app_iff; simpl. split; [intros [?|[<-|[]]]; auto|intros [?|[[_ ->]|[-> _]]]; auto; congruence].
      - split; auto. intros [?|[[-> _]|[-> _]]]; auto; congruence. }
    split; auto. split; [|split; auto; split; [intros i j; unfold nb; cbn [adj]; apply MEM|]].
    + constructor; cbn [adj size enum labels].
      * unfold adj'. rewrite upd_length. destruct (Nat.eqb a b); rewrite ?upd_length; apply (u_len _ I).
      * intros i; unfold nb; cbn [adj]. rewrite NB. destruct (Nat.eqb i b); [|destruct (Nat.eqb i a)]; try apply NoDup_snoc; auto; apply (u_nodup _ I).
      * intros i j; unfold nb; cbn [adj]. rewrite MEM. intros [H|[[-> ->]|[-> ->]]]; auto. apply (u_rng _ I) in H; auto.
      * intros i j; unfold nb; cbn [adj]. rewrite !MEM. intros [H|[[-> ->]|[-> ->]]]; auto. left; apply (u_sym _ I); auto.
      * rewrite (u_enum _ I). unfold utotal, adj'. destruct (Nat.eqb_spec a b) as [->|Hab].
        -- rewrite utotal_upd by auto. simpl. rewrite cnt_snoc, Nat.leb_refl. lia.
        -- rewrite utotal_upd by (rewrite upd_length; auto). rewrite nth_upd_neq by auto. rewrite utotal_upd by auto. simpl.
           rewrite !cnt_snoc. destruct (Nat.leb_spec a b), (Nat.leb_spec b a); lia.
      * pose proof (u_lab _ I) as IL. unfold set_label. destruct has_store; auto.
        intros i j; unfold nb; cbn [adj]. rewrite lfind_lset, MEM.
        destruct (edge_eqb_spec (ordered a b) (i, j)) as [E|NE].
        -- split; [intros _|discriminate]. destruct (ordered_cases a b) as [[E' H]|[E' H]]; rewrite E' in E; injection E as <- <-; split; auto; lia.
        -- rewrite IL. split; [intros [? ?]; auto|]. intros [Hle [H|[[-> ->]|[-> ->]]]]; auto; exfalso; apply NE.
           ++ unfold ordered. destruct (Nat.ltb_spec a b); auto. f_equal; lia.
           ++ unfold ordered. destruct (Nat.ltb_spec a b); auto. lia.
    + intros e; cbn [labels]. unfold set_label. destruct has_store; cbn [andb negb]; auto. rewrite lfind_lset, andb_true_r. reflexivity.
Qed.
(* ---------- removeEdge ---------- *)
Lemma In_ordered g a b : InvU g -> (In (snd (ordered a b)) (nb g (fst (ordered a b))) <-> In b (nb g a)).
Proof. intros I. destruct (ordered_cases a b) as [[-> _]|[-> _]]; simpl; [tauto|]. split; apply (u_sym _ I). Qed.

Lemma u_remove_edge_spec g a b : InvU g -> (a < size g)%nat -> (b < size g)%nat ->
  let '(g', r) := u_remove_edge g a b in
  r = Done /\ InvU g' /\ size g' = size g /\
  (forall i j, In j (nb g' i) <-> In j (nb g i) /\ ~ (i = a /\ j = b) /\ ~ (i = b /\ j = a)) /\
  (forall e, lfind e (labels g') = if edge_eqb (ordered a b) e then None else lfind e (labels g)).
Proof.
  intros I Ha Hb. unfold u_remove_edge, in_range.
  rewrite (proj2 (Nat.ltb_lt _ _) Ha), (proj2 (Nat.ltb_lt _ _) Hb), (u_len _ I), (proj2 (Nat.ltb_lt _ _) Ha), (proj2 (Nat.ltb_lt _ _) Hb); simpl.
  assert (Ha' : (a < length (adj g))%nat) by (rewrite (u_len _ I); auto).
  assert (Hb' : (b < length (adj g))%nat) by (rewrite (u_len _ I); auto).
  fold (nb g a).
  pose proof (remove_all_length_nodup b (nb g a) (u_nodup _ I a)) as LEN.
  pose proof (u_lab _ I) as IL.
  destruct (mem b (nb g a)) eqn:M.
  - (* present *)
    assert (D : Z.of_nat (length (nb g a)) - Z.of_nat (length (remove_all b (nb g a))) = 1) by lia. rewrite D. simpl.
    apply mem_In in M. assert (M' : In a (nb g b)) by (apply (u_sym _ I); auto).
    set (adj' := upd b (fun x => remove_all a x) (upd a (fun _ => remove_all b (nb g a)) (adj g))).
    assert (NB : forall i, nth i adj' [] = if Nat.eqb i b then remove_all a (if Nat.eqb b a then remove_all b (nb g a) else nb g b)
                                           else if Nat.eqb i a then remove_all b (nb g a) else nb g i).
    { intros i. unfold adj'. rewrite nth_upd2 by auto. reflexivity. }
    assert (MEM : forall i j, In j (nth i adj' []) <-> In j (nb g i) /\ ~ (i = a /\ j = b) /\ ~ (i = b /\ j = a)).
    { intros i j. rewrite NB. destruct (Nat.eqb_spec i b) as [->|Hib]; [destruct (Nat.eqb_spec b a) as [->|Hba]|destruct (Nat.eqb_spec i a) as [->|Hia]].
      - rewrite !In_remove_all. split; [intros [[? ?] ?]; repeat split; auto; intros [_ ->]; congruence|intros [? [X _]]; repeat split; auto; intros ->; apply X; auto].
      - rewrite In_remove_all. split; [intros [? ?]; repeat split; auto; [intros [-> _]; congruence|intros [_ ->]; congruence]|intros [? [_ X]]; split; auto; intros ->; apply X; auto].
      - rewrite In_remove_all. split; [intros [? ?]; repeat split; auto; [intros [_ ->]; congruence|intros [-> _]; congruence]|intros [? [X _]]; split; auto; intros ->; apply X; auto].
      - split; [intros ?; repeat split; auto; intros [-> _]; congruence|tauto]. }
    split; auto. split; [|split; auto; split; [intros i j; unfold nb; cbn [adj]; apply MEM|intros e; cbn [labels]; apply lfind_lerase]].
    constructor; cbn [adj size enum labels].
    + unfold adj'. rewrite !upd_length. apply (u_len _ I).
    + intros i; unfold nb; cbn [adj]. rewrite NB.
      destruct (Nat.eqb i b); [destruct (Nat.eqb b a)|destruct (Nat.eqb i a)]; repeat apply NoDup_remove_all; apply (u_nodup _ I).
    + intros i j; unfold nb; cbn [adj]. rewrite MEM. intros [H _]. apply (u_rng _ I) in H; auto.
    + intros i j; unfold nb; cbn [adj]. rewrite !MEM. intros [H [X Y]]. split; [apply (u_sym _ I); auto|]. split; intros [-> ->]; [apply Y|apply X]; auto.
    + rewrite (u_enum _ I). unfold utotal, adj'.
      rewrite utotal_upd by (rewrite upd_length; auto). rewrite utotal_upd by auto. simpl.
      destruct (Nat.eq_dec b a) as [->|Hba].
      * rewrite nth_upd_eq by auto. fold (nb g a).
        rewrite (remove_all_notin a (remove_all a (nb g a))) by (rewrite In_remove_all; tauto).
        rewrite (cnt_remove_all_nodup a a (nb g a)) by apply (u_nodup _ I). rewrite (proj2 (mem_In _ _) M), Nat.leb_refl. simpl. lia.
      * rewrite nth_upd_neq by auto. fold (nb g a) (nb g b).
        rewrite (cnt_remove_all_nodup a b (nb g a)) by apply (u_nodup _ I).
        rewrite (cnt_remove_all_nodup b a (nb g b)) by apply (u_nodup _ I).
        rewrite (proj2 (mem_In _ _) M), (proj2 (mem_In _ _) M'). simpl.
        destruct (Nat.leb_spec a b), (Nat.leb_spec b a); lia.
    + destruct has_store; [|rewrite IL; reflexivity].
      intros i j; unfold nb; cbn [adj]. rewrite lfind_lerase, MEM.
      destruct (edge_eqb_spec (ordered a b) (i, j)) as [E|NE].
      * split; [congruence|]. intros [_ [_ [X Y]]]. exfalso.
        destruct (ordered_cases a b) as [[E' _]|[E' _]]; rewrite E' in E; injection E as <- <-; [apply X|apply Y]; auto.
      * rewrite IL. split; [intros [Hle H]; repeat split; auto; intros [-> ->]; apply NE|tauto].
        -- unfold ordered. destruct (Nat.ltb_spec a b); auto. f_equal; lia.
        -- unfold ordered. destruct (Nat.ltb_spec a b); auto. lia.
  - (* absent: the lists are rewritten to themselves *)
    assert (D : Z.of_nat (length (nb g a)) - Z.of_nat (length (remove_all b (nb g a))) = 0) by lia. rewrite D. simpl.
    apply mem_false in M. rewrite (remove_all_notin b (nb g a)) by auto.
    assert (NB : forall i, nth i (upd a (fun _ => nb g a) (adj g)) [] = nb g i).
    { intros i. rewrite nth_upd by auto. destruct (Nat.eqb_spec i a) as [->|]; reflexivity. }
    assert (M' : ~ In a (nb g b)) by (intros X; apply M, (u_sym _ I); auto).
    split; auto. split; [|split; auto; split].
    + constructor; cbn [adj size enum labels].
      * rewrite upd_length; apply (u_len _ I).
      * intros i; unfold nb; cbn [adj]; rewrite NB; apply (u_nodup _ I).
      * intros i j; unfold nb; cbn [adj]; rewrite NB; apply (u_rng _ I).
      * intros i j; unfold nb; cbn [adj]; rewrite !NB; apply (u_sym _ I).
      * rewrite (u_enum _ I). unfold utotal. rewrite utotal_upd by auto. fold (nb g a). lia.
      * destruct has_store; auto. intros i j; unfold nb; cbn [adj]; rewrite NB; apply IL.
    + intros i j; unfold nb; cbn [adj]; rewrite NB. split; [|tauto]. intros H; repeat split; auto; intros [-> ->]; auto.
    + intros e; cbn [labels]. destruct (edge_eqb_spec (ordered a b) e) as [<-|]; auto.
      destruct has_store; [|rewrite IL; reflexivity].
      destruct (lfind (ordered a b) (labels g)) eqn:F; auto. exfalso.
      assert (X : lfind (fst (ordered a b), snd (ordered a b)) (labels g) <> None) by (rewrite <- surjective_pairing; congruence).
      apply IL in X as [_ X]. apply (In_ordered g a b I) in X. auto.
Qed.
(* ---------- removeVertexFromEdgeList (single pass over all rows) ---------- *)
Lemma filter_split_len {A} (p q : A -> bool) (l : list A) :
  length (filter q l) = (length (filter q (filter (fun x => negb (p x)) l)) + length (filter (fun x => p x && q x) l))%nat.
Proof. induction l as [|h t IH]; simpl; auto. destruct (p h) eqn:P, (q h) eqn:Q; simpl; rewrite ?Q; simpl; lia. Qed.

Lemma u_rmv_rows_spec v : forall rows i,
  let '(rows', c, es) := u_rmv_rows v i rows in
  length rows' = length rows /\
  (forall k, nth k rows' [] = filter (fun j => negb (Nat.eqb (i + k) v || Nat.eqb j v)) (nth k rows [])) /\
  utotal_from i rows = utotal_from i rows' + c /\
  (forall e, In e es <-> exists k j, In j (nth k rows []) /\ (Nat.eqb (i + k) v || Nat.eqb j v) = true /\ e = ordered (i + k) j).
Proof.
  induction rows as [|r rs IH]; intros i; simpl.
  - split; auto. split; [intros [|k]; reflexivity|]. split; [lia|]. intros e; split; [intros []|intros [k [j [H _]]]; destruct k; destruct H].
  - specialize (IH (S i)). destruct (u_rmv_rows v (S i) rs) as [[rs' c'] es']. destruct IH as [LEN [NTH [TOT ES]]].
    split; [simpl; lia|]. split; [|split].
    + intros [|k]; simpl; [rewrite Nat.add_0_r; reflexivity|]. rewrite NTH. replace (S i + k)%nat with (i + S k)%nat by lia. reflexivity.
    + simpl. rewrite TOT. unfold cnt.
      rewrite (filter_split_len (fun j => Nat.eqb i v || Nat.eqb j v) (fun j => Nat.leb i j) r). rewrite Nat2Z.inj_add. lia.
    + intros e. rewrite in_app_iff, ES, in_map_iff. split.
      * intros [[j [E H]]|[k [j [H1 [H2 E]]]]].
        -- apply filter_In in H as [H1 H2]. exists 0%nat, j. rewrite Nat.add_0_r. simpl. auto.
        -- exists (S k), j. simpl. replace (i + S k)%nat with (S i + k)%nat by lia. auto.
      * intros [[|k] [j [H1 [H2 E]]]]; simpl in H1.
        -- left. exists j. rewrite Nat.add_0_r in *. split; auto. apply filter_In; auto.
        -- right. exists k, j. replace (S i + k)%nat with (i + S k)%nat by lia. auto.
Qed.

Lemma lfind_fold_lerase (es : list edge) : forall (m : @lmap L) e,
  lfind e (fold_left (fun m e' => lerase e' m) es m) = if existsb (fun e' => edge_eqb e' e) es then None else lfind e m.
Proof. induction es as [|x es IH]; intros m e; simpl; auto. rewrite IH, lfind_lerase. destruct (edge_eqb x e); simpl; auto. destruct (existsb _ es); auto. Qed.

Lemma u_remove_vertex_spec g v : InvU g -> (v < size g)%nat ->
  let '(g', r) := u_remove_vertex repaired g v in
  r = Done /\ InvU g' /\ size g' = size g /\
  (forall i j, In j (nb g' i) <-> In j (nb g i) /\ i <> v /\ j <> v) /\
  (has_store = true -> forall i j, lfind (i, j) (labels g') = if Nat.eqb i v || Nat.eqb j v then None else lfind (i, j) (labels g)).
Proof.
  intros I Hv. unfold u_remove_vertex, in_range. rewrite (proj2 (Nat.ltb_lt _ _) Hv), (u_len _ I), Nat.leb_refl.
  pose proof (u_rmv_rows_spec v (adj g) 0) as H. destruct (u_rmv_rows v 0 (adj g)) as [[rows c] es].
  destruct H as [LEN [NTH [TOT ES]]]. cbn [v_rmv_labels repaired].
  assert (MEM : forall i j, In j (nth i rows []) <-> In j (nb g i) /\ i <> v /\ j <> v).
  { intros i j. rewrite NTH, filter_In. simpl. fold (nb g i). destruct (Nat.eqb_spec i v), (Nat.eqb_spec j v); simpl; intuition congruence. }
  pose proof (u_lab _ I) as IL.
  assert (ERASED : forall i j, (i <= j)%nat -> In j (nb g i) ->
            existsb (fun e' => edge_eqb e' (i, j)) es = (Nat.eqb i v || Nat.eqb j v)).
  { intros i j Hle Hin. destruct (Nat.eqb i v || Nat.eqb j v) eqn:HIT.
    - apply existsb_exists. exists (i, j). split; [|apply edge_eqb_refl]. apply ES. exists i, j. simpl. fold (nb g i). repeat split; auto.
      unfold ordered. destruct (Nat.ltb_spec i j); auto. f_equal; lia.
    - apply not_true_is_false. rewrite existsb_exists. intros [e [He E]]. destruct (edge_eqb_spec e (i, j)) as [->|]; [|discriminate].
      apply ES in He as [k [j' [H1 [H2 E']]]]. simpl in H2. apply orb_false_iff in HIT as [X Y].
      apply Nat.eqb_neq in X, Y.
      destruct (ordered_cases k j') as [[E'' _]|[E'' _]]; simpl in E'; rewrite E'' in E'; injection E' as -> ->;
        apply orb_true_iff in H2 as [H2|H2]; apply Nat.eqb_eq in H2; congruence. }
  split; auto. split; [|split; auto; split; [intros i j; unfold nb; cbn [adj]; apply MEM|]].
  - constructor; cbn [adj size enum labels].
    + rewrite LEN; apply (u_len _ I).
    + intros i; unfold nb; cbn [adj]. rewrite NTH. apply NoDup_filter, (u_nodup _ I).
    + intros i j; unfold nb; cbn [adj]. rewrite MEM. intros [H _]; apply (u_rng _ I) in H; auto.
    + intros i j; unfold nb; cbn [adj]. rewrite !MEM. intros [H [X Y]]. split; [apply (u_sym _ I); auto|auto].
    + rewrite (u_enum _ I). unfold utotal. lia.
    + destruct has_store; [|rewrite IL; clear; induction es; simpl; auto].
      intros i j; unfold nb; cbn [adj]. rewrite lfind_fold_lerase, MEM.
      destruct (lfind (i, j) (labels g)) eqn:F.
      * assert (X : (i <= j)%nat /\ In j (nb g i)) by (apply IL; congruence). destruct X as [Hle Hin].
        rewrite (ERASED i j Hle Hin). destruct (Nat.eqb_spec i v), (Nat.eqb_spec j v); simpl; split; try congruence; try tauto.
      * destruct (existsb _ es); split; try congruence; intros [Hle [Hin _]]; exfalso;
          assert (lfind (i, j) (labels g) <> None) by (apply IL; auto); congruence.
  - intros HS i j. cbn [labels]. rewrite lfind_fold_lerase. rewrite HS in IL.
    destruct (lfind (i, j) (labels g)) eqn:F.
    + assert (X : (i <= j)%nat /\ In j (nb g i)) by (apply IL; congruence). destruct X as [Hle Hin].
      rewrite (ERASED i j Hle Hin). destruct (Nat.eqb i v || Nat.eqb j v); auto.
    + destruct (existsb _ es), (Nat.eqb i v || Nat.eqb j v); auto.
Qed.

(* ---------- removeSelfLoops: removeEdge(i, i) for every vertex ---------- *)
Lemma u_remove_loops_spec vs : forall g, InvU g -> (forall i, In i vs -> (i < size g)%nat) ->
  let '(g', r) := for_vertices (fun g i => u_remove_edge g i i) vs g in
  r = Done /\ InvU g' /\ size g' = size g /\
  (forall i j, In j (nb g' i) <-> In j (nb g i) /\ ~ (In i vs /\ j = i)) /\
  (forall e, lfind e (labels g') = if existsb (fun i => edge_eqb (i, i) e) vs then None else lfind e (labels g)).
Proof.
  induction vs as [|v vs IH]; intros g I R; cbn [for_vertices].
  - split; auto. split; auto. split; auto. split; [intros; tauto|auto].
  - pose proof (R v (or_introl eq_refl)) as Hv.
    pose proof (u_remove_edge_spec g v v I Hv Hv) as RS.
    destruct (u_remove_edge g v v) as [g1 r1]. destruct RS as [-> [I1 [S1 [E1 L1]]]].
    specialize (IH g1 I1). destruct (for_vertices (fun g i => u_remove_edge g i i) vs g1) as [g' r].
    destruct IH as [-> [I' [S' [E' L']]]]. { intros i Hi; rewrite S1; apply R; right; auto. }
    split; auto. split; auto. split; [congruence|]. split.
    + intros i j. rewrite E', E1. split.
      * intros [[A [B _]] C]. split; auto. intros [[<-|Hin] ->]; [apply B; auto|apply C; auto].
      * intros [A B]. split; [split; [auto|split]|]; intros [X Y]; apply B; subst; auto; simpl; auto.
    + intros e. rewrite L', L1. simpl.
      assert (ordered v v = (v, v)) as -> by (unfold ordered; rewrite Nat.ltb_irrefl; auto).
      destruct (edge_eqb (v, v) e); simpl; auto. destruct (existsb (fun i => edge_eqb (i, i) e) vs); auto.
Qed.
Lemma u_remove_self_loops_spec g : InvU g ->
  let '(g', r) := u_remove_self_loops g in
  r = Done /\ InvU g' /\ size g' = size g /\
  (forall i j, In j (nb g' i) <-> In j (nb g i) /\ i <> j) /\
  (has_store = true -> forall i j, lfind (i, j) (labels g') = if Nat.eqb i j then None else lfind (i, j) (labels g)).
Proof.
  intros I. unfold u_remove_self_loops.
  pose proof (u_remove_loops_spec (seq 0 (size g)) g I) as H.
  destruct (for_vertices _ (seq 0 (size g)) g) as [g' r].
  destruct H as [-> [I' [S' [E' L']]]]. { intros i Hi; apply in_seq in Hi; lia. }
  split; auto. split; auto. split; auto. split.
  - intros i j; rewrite E'. split.
    + intros [A B]; split; auto. intros <-. apply B; split; auto. apply in_seq. apply (u_rng _ I) in A. lia.
    + intros [A B]; split; auto. intros [_ ->]; congruence.
  - intros HS i j; rewrite L'. destruct (Nat.eqb_spec i j) as [<-|Hne].
    + destruct (Nat.ltb_spec i (size g)).
      * replace (existsb _ _) with true; auto. symmetry; apply existsb_exists. exists i; split; [apply in_seq; lia|apply edge_eqb_refl].
      * replace (existsb _ _) with false.
        2:{ symmetry. apply not_true_is_false. rewrite existsb_exists. intros [x [Hx E]]. apply in_seq in Hx.
            destruct (edge_eqb_spec (x, x) (i, i)) as [E0|]; [|discriminate]. injection E0 as ->. lia. }
        (* no label is stored for an out-of-range key *)
        pose proof (u_lab _ I) as UL. rewrite HS in UL. destruct (lfind (i, i) (labels g)) eqn:F; auto.
        exfalso. assert (X : lfind (i, i) (labels g) <> None) by congruence. apply UL in X as [_ X]. apply (u_rng _ I) in X. lia.
    + replace (existsb _ _) with false; auto. symmetry. apply not_true_is_false. rewrite existsb_exists.
      intros [x [Hx E]]. destruct (edge_eqb_spec (x, x) (i, j)) as [E0|]; [|discriminate]. congruence.
Qed.

(* ---------- clearEdges (repaired), resize, setEdgeLabel, removeDuplicateEdges ---------- *)
Lemma u_clear_edges_spec g : InvU g ->
  let '(g', r) := clear_edges repaired g in
  r = Done /\ InvU g' /\ size g' = size g /\ (forall i, nb g' i = []) /\ labels g' = [].
Proof.
  intros I. unfold clear_edges. rewrite (u_len _ I), Nat.leb_refl. cbn [v_clear_labels repaired].
  assert (NB : forall i, nth i (map (fun _ : list nat => @nil nat) (adj g)) [] = []) by (intros; apply nth_map_nil).
  split; auto. split; [|split; auto; split; auto].
  constructor; cbn [adj size enum labels].
  - rewrite map_length; apply (u_len _ I).
  - intros i; unfold nb; cbn [adj]; rewrite NB; constructor.
  - intros i j; unfold nb; cbn [adj]; rewrite NB; intros [].
  - intros i j; unfold nb; cbn [adj]; rewrite NB; intros [].
  - unfold utotal. rewrite utotal_from_map_nil; auto.
  - destruct has_store; auto. intros i j; unfold nb; cbn [adj]; rewrite NB; simpl. split; [congruence|intros [_ []]].
Qed.
Lemma u_resize_spec g n : InvU g -> (size g <= n)%nat ->
  let '(g', r) := resize g n in
  r = Done /\ InvU g' /\ size g' = n /\ (forall i, nb g' i = nb g i) /\ labels g' = labels g.
Proof.
  intros I Hn. unfold resize. destruct (Nat.ltb_spec n (size g)); [lia|].
  assert (E : firstn n (adj g) = adj g) by (apply firstn_all2; rewrite (u_len _ I); auto).
  assert (NB : forall i, nth i (firstn n (adj g) ++ repeat [] (n - length (adj g))) [] = nb g i).
  { intros i. rewrite E. apply nth_app_repeat. }
  split; auto. split; [|split; auto; split; auto].
  constructor; cbn [adj size enum labels].
  - rewrite E, app_length, repeat_length, (u_len _ I). lia.
  - intros i; unfold nb; cbn [adj]; rewrite NB; apply (u_nodup _ I).
  - intros i j; unfold nb; cbn [adj]; rewrite NB. intros Hin; apply (u_rng _ I) in Hin. lia.
  - intros i j; unfold nb; cbn [adj]; rewrite !NB. apply (u_sym _ I).
  - rewrite E. unfold utotal. rewrite utotal_from_app, utotal_from_repeat_nil, (u_enum _ I). unfold utotal. lia.
  - pose proof (u_lab _ I) as IL. destruct has_store; auto. intros i j; unfold nb; cbn [adj]; rewrite NB. apply IL.
Qed.
Lemma u_set_label_inv g a b l : InvU g -> In b (nb g a) ->
  InvU {| adj := adj g; size := size g; enum := enum g; labels := set_label has_store (ordered a b) l (labels g) |}.
Proof.
  intros I Hin. constructor; cbn [adj size enum labels]; try apply I.
  pose proof (u_lab _ I) as IL. unfold set_label. destruct has_store; auto.
  intros i j. unfold nb; cbn [adj]. fold (nb g i). rewrite lfind_lset.
  destruct (edge_eqb_spec (ordered a b) (i, j)) as [E|NE]; [|apply IL].
  split; [intros _|congruence]. pose proof (ordered_le a b) as LE. pose proof (In_ordered g a b I) as IO. rewrite E in LE, IO. simpl in *. tauto.
Qed.
Lemma u_set_label_spec g a b l : InvU g -> (a < size g)%nat -> (b < size g)%nat ->
  u_set_edge_label has_store g a b l false =
  if mem b (nb g a) then ({| adj := adj g; size := size g; enum := enum g; labels := set_label has_store (ordered a b) l (labels g) |}, Done)
  else (g, Thrown InvalidArgument).
Proof.
  intros I Ha Hb. unfold u_set_edge_label, set_edge_label.
  assert (R : in_range g (fst (ordered a b)) && in_range g (snd (ordered a b)) = true).
  { unfold in_range. destruct (ordered_cases a b) as [[-> _]|[-> _]]; simpl; rewrite !(proj2 (Nat.ltb_lt _ _)); auto. }
  rewrite R. pose proof (u_has_edge_val g a b I Ha Hb) as HE. unfold u_has_edge in HE. rewrite HE.
  destruct (mem b (nb g a)); auto. destruct (ordered a b); reflexivity.
Qed.
Lemma u_dedup_nodup i (l : list nat) : forall seen, NoDup l -> (forall x, In x l -> ~ In x seen) -> u_dedup i seen l = (l, 0).
Proof. induction l as [|x t IH]; intros seen ND D; cbn [u_dedup]; auto. inversion ND; subst.
  assert (mem x seen = false) as -> by (apply mem_false, D; simpl; auto).
  rewrite IH; auto. intros y Hy [<-|Hs]; [contradiction|]. apply (D y); simpl; auto. Qed.
Lemma u_remove_duplicates_noop g : InvU g -> u_remove_duplicates g = (g, Done).
Proof.
  intros I. unfold u_remove_duplicates. rewrite (u_len _ I), Nat.leb_refl.
  assert (A : forall (a : list (list nat)) k, (forall l, In l a -> NoDup l) -> u_dedup_rows k a = (a, 0)).
  { induction a as [|x t IH]; intros k H; cbn [u_dedup_rows]; auto.
    rewrite u_dedup_nodup by (auto; apply H; simpl; auto). rewrite IH by (intros; apply H; simpl; auto). reflexivity. }
  rewrite A. { rewrite Z.sub_0_r. destruct g; reflexivity. }
  intros l Hl. apply In_nth with (d := []) in Hl as [i [_ <-]]. apply (u_nodup _ I).
Qed.

End UProofs.
