(* C16 on the UNDIRECTED labelled model: forced insertions (force = true) create duplicate entries in BOTH lists of a non-loop pair
   (one entry for a loop).  The weak invariant every such state satisfies (symmetric multiplicities instead of "no duplicates"),
   what addEdge(force), removeEdge and removeDuplicateEdges do to it. *)
From BG Require Import Base DirectedModel DirectedProofs DirectedIter DirectedUsers DirectedSpec DirectedRefine DirectedObs
  UndirectedModel UndirectedProofs UndirectedIter UndirectedSpec UndirectedRefine UndirectedObs Forced.
Local Open Scope Z_scope.
Local Arguments Z.of_nat : simpl never.
Local Arguments Z.add : simpl never.
Local Arguments Z.sub : simpl never.

(* ---- multiplicities ---- *)
Lemma count_In x l : In x l <-> (0 < count x l)%nat.
Proof. unfold count. induction l as [|y t IH]; cbn [filter length In]; [split; [tauto|lia]|].
  destruct (Nat.eqb_spec x y) as [->|Ne]; cbn [length]; [split; auto; lia|]. rewrite <- IH. split; auto. intros [E|H]; auto; congruence. Qed.
Lemma count_zero x l : ~ In x l <-> count x l = 0%nat.
Proof. rewrite count_In. lia. Qed.
Lemma count_snoc j l x : count j (l ++ [x]) = (count j l + (if Nat.eqb j x then 1 else 0))%nat.
Proof. unfold count. rewrite filter_app, app_length. cbn [filter]. destruct (Nat.eqb j x); cbn [length]; lia. Qed.
Lemma cnt_remove_all i d l : cnt i l = cnt i (remove_all d l) + (if Nat.leb i d then Z.of_nat (count d l) else 0).
Proof. unfold cnt, remove_all, count. induction l as [|x t IH]; cbn [filter length]; [destruct (Nat.leb i d); reflexivity|].
  destruct (Nat.eqb_spec x d) as [->|Ne]; cbn [negb filter].
  - rewrite Nat.eqb_refl. destruct (Nat.leb i d); cbn [length]; lia.
  - destruct (Nat.eqb_spec d x) as [E|_]; [congruence|]. destruct (Nat.leb i x); cbn [length]; destruct (Nat.leb i d); lia. Qed.
Lemma remove_all_idem' d (l : list nat) : remove_all d (remove_all d l) = remove_all d l.
Proof. apply remove_all_notin. rewrite In_remove_all. tauto. Qed.
Lemma upd_same {A} (d : A) i (l : list A) : (i < length l)%nat -> upd i (fun _ => nth i l d) l = l.
Proof. revert i; induction l as [|x t IH]; intros [|i] H; cbn [upd nth length] in *; auto; try lia. f_equal. apply IH. lia. Qed.

(* ---- removeDuplicateEdges, row by row: first components are [dedup], the counter is what the i <= j half loses ---- *)
Lemma u_dedup_fst i l : forall seen, fst (u_dedup i seen l) = dedup seen l.
Proof. induction l as [|x t IH]; intros seen; cbn [u_dedup dedup]; auto. destruct (mem x seen).
  - specialize (IH seen). destruct (u_dedup i seen t) as [r c]. exact IH.
  - specialize (IH (x :: seen)). destruct (u_dedup i (x :: seen) t) as [r c]. cbn [fst] in *. f_equal. exact IH. Qed.
Lemma cnt_cons i x t : cnt i (x :: t) = (if Nat.leb i x then 1 else 0) + cnt i t.
Proof. unfold cnt. cbn [filter]. destruct (Nat.leb i x); cbn [length]; lia. Qed.
Lemma u_dedup_snd i l : forall seen, snd (u_dedup i seen l) = cnt i l - cnt i (dedup seen l).
Proof. induction l as [|x t IH]; intros seen; cbn [u_dedup dedup]; [reflexivity|]. rewrite cnt_cons. destruct (mem x seen).
  - specialize (IH seen). destruct (u_dedup i seen t) as [r c]. cbn [snd] in *. lia.
  - specialize (IH (x :: seen)). destruct (u_dedup i (x :: seen) t) as [r c]. cbn [snd] in *. rewrite cnt_cons. lia. Qed.
Lemma u_dedup_rows_spec rows : forall k,
  fst (u_dedup_rows k rows) = map (dedup []) rows /\ utotal_from k rows = utotal_from k (map (dedup []) rows) + snd (u_dedup_rows k rows).
Proof. induction rows as [|r rs IH]; intros k; cbn [u_dedup_rows map utotal_from]; [split; reflexivity|].
  pose proof (u_dedup_fst k r []) as F. pose proof (u_dedup_snd k r []) as SS. destruct (u_dedup k [] r) as [r' c]. cbn [fst snd] in F, SS.
  destruct (IH (S k)) as [F' S']. destruct (u_dedup_rows (S k) rs) as [rs' c']. cbn [fst snd] in *. subst r' rs'. split; [reflexivity|lia]. Qed.

Section UForced.
Context {L : Type}.
Variable has_store : bool.
Notation dgraph := (@dgraph L).
Implicit Types g : dgraph.
Notation InvU := (@InvU L has_store).

(* the invariant of the undirected graph without "no duplicates": an entry j in list i is matched by an entry i in list j, copy by copy;
   the cached edge number counts the entries of the i <= j half; a label is stored exactly for the connected ordered keys *)
Record WInvU g : Prop := {
  wu_len : length (adj g) = size g;
  wu_rng : forall i j, In j (nb g i) -> (i < size g)%nat /\ (j < size g)%nat;
  wu_sym : forall i j, count j (nb g i) = count i (nb g j);
  wu_enum : enum g = utotal (adj g);
  wu_lab : if has_store then forall i j, lfind (i, j) (labels g) <> None <-> (i <= j)%nat /\ In j (nb g i) else labels g = [] }.

Lemma InvU_WInvU g : InvU g -> WInvU g.
Proof. intros [A B C D E F]; constructor; auto. intros i j.
  rewrite (count_nodup j _ (B i)), (count_nodup i _ (B j)).
  destruct (mem j (nb g i)) eqn:M1, (mem i (nb g j)) eqn:M2; auto; exfalso.
  - apply mem_In, D, mem_In in M1. congruence.
  - apply mem_In, D, mem_In in M2. congruence. Qed.
Lemma wu_In_sym g i j : WInvU g -> In j (nb g i) -> In i (nb g j).
Proof. intros I. rewrite !count_In, (wu_sym _ I i j). auto. Qed.
Lemma WInvU_InvU g : WInvU g -> (forall i, NoDup (nb g i)) -> InvU g.
Proof. intros I B. destruct I as [A C D E F]. constructor; auto. intros i j. rewrite !count_In, (D i j). auto. Qed.

Lemma u_has_edge_weak g a b : WInvU g -> (a < size g)%nat -> (b < size g)%nat -> u_has_edge g a b = Val (mem b (nb g a)).
Proof. intros I Ha Hb. unfold u_has_edge, has_edge, in_range.
  destruct (ordered_cases a b) as [[-> H]|[-> H]]; cbn [fst snd].
  - rewrite (proj2 (Nat.ltb_lt _ _) Ha), (proj2 (Nat.ltb_lt _ _) Hb), (wu_len _ I), (proj2 (Nat.ltb_lt _ _) Ha); reflexivity.
  - rewrite (proj2 (Nat.ltb_lt _ _) Ha), (proj2 (Nat.ltb_lt _ _) Hb), (wu_len _ I), (proj2 (Nat.ltb_lt _ _) Hb); cbn [andb]. f_equal.
    fold (nb g b). destruct (mem b (nb g a)) eqn:M.
    + apply mem_In. apply (wu_In_sym g a b I). apply mem_In; auto.
    + apply mem_false. intros X. apply (wu_In_sym g b a I) in X. apply mem_In in X. congruence.
Qed.

Definition hit (a b i j : nat) : bool := (Nat.eqb i a && Nat.eqb j b) || (Nat.eqb i b && Nat.eqb j a).
Lemma hit_sym a b i j : hit a b i j = hit a b j i.
Proof. unfold hit. destruct (Nat.eqb i a), (Nat.eqb j b), (Nat.eqb i b), (Nat.eqb j a); reflexivity. Qed.
Lemma hit_true a b i j : hit a b i j = true <-> (i = a /\ j = b) \/ (i = b /\ j = a).
Proof. unfold hit. destruct (Nat.eqb_spec i a), (Nat.eqb_spec j b), (Nat.eqb_spec i b), (Nat.eqb_spec j a); cbn [andb orb]; split; auto; try discriminate; intros [[? ?]|[? ?]]; congruence. Qed.
Lemma ordered_key_hit a b i j : (i <= j)%nat -> (edge_eqb (ordered a b) (i, j) = hit a b i j).
Proof. intros Hle. apply eq_true_iff_eq. rewrite hit_true. destruct (edge_eqb_spec (ordered a b) (i, j)) as [E|NE].
  - split; auto. intros _. destruct (ordered_cases a b) as [[E' H]|[E' H]]; rewrite E' in E; injection E as <- <-; auto.
  - split; [discriminate|]. intros [[-> ->]|[-> ->]]; exfalso; apply NE; unfold ordered.
    + destruct (Nat.ltb_spec a b); auto. f_equal; lia.
    + destruct (Nat.ltb_spec a b); auto. lia. Qed.

(* ---------- addEdge(force = true): one more copy in each of the two lists (in the single list for a loop) ---------- *)
Theorem u_forced_add_spec g a b l : WInvU g -> (a < size g)%nat -> (b < size g)%nat ->
  exists g', u_add_edge has_store repaired g a b l true = (g', Done) /\ WInvU g' /\ size g' = size g /\ enum g' = enum g + 1 /\
    (forall i, nb g' i = if Nat.eqb i b then nb g b ++ [a] else if Nat.eqb i a then nb g a ++ [b] else nb g i) /\
    (forall i j, count j (nb g' i) = (count j (nb g i) + (if hit a b i j then 1 else 0))%nat) /\
    u_has_edge g' a b = Val true /\
    (forall e, lfind e (labels g') = if has_store && edge_eqb (ordered a b) e then Some l else lfind e (labels g)).
Proof.
  intros I Ha Hb. unfold u_add_edge. cbn [v_force_checks repaired]. unfold in_range.
  rewrite (proj2 (Nat.ltb_lt _ _) Ha), (proj2 (Nat.ltb_lt _ _) Hb). cbn [andb].
  unfold u_push. rewrite (wu_len _ I), (proj2 (Nat.ltb_lt _ _) Ha), (proj2 (Nat.ltb_lt _ _) Hb). cbn [andb].
  assert (Ha' : (a < length (adj g))%nat) by (rewrite (wu_len _ I); auto).
  assert (Hb' : (b < length (adj g))%nat) by (rewrite (wu_len _ I); auto).
  set (adj' := upd b (fun x => x ++ [a]) (if Nat.eqb a b then adj g else upd a (fun x => x ++ [b]) (adj g))).
  assert (NB : forall i, nth i adj' [] = if Nat.eqb i b then nb g b ++ [a] else if Nat.eqb i a then nb g a ++ [b] else nb g i).
  { intros i. unfold adj'. destruct (Nat.eqb_spec a b) as [->|Hab].
    - rewrite nth_upd by auto. destruct (Nat.eqb_spec i b); reflexivity.
    - rewrite nth_upd2 by auto. destruct (Nat.eqb_spec b a); [congruence|]. reflexivity. }
  assert (CNT : forall i j, count j (nth i adj' []) = (count j (nb g i) + (if hit a b i j then 1 else 0))%nat).
  { intros i j. rewrite NB. unfold hit.
    destruct (Nat.eqb_spec i b) as [->|Hib]; [|destruct (Nat.eqb_spec i a) as [->|Hia]]; rewrite ?count_snoc; cbn [andb orb].
    - destruct (Nat.eqb_spec b a) as [Eba|Hba], (Nat.eqb_spec j b) as [Ejb|Hjb], (Nat.eqb_spec j a) as [Hja|Hja]; cbn [andb orb]; try lia; congruence.
    - destruct (Nat.eqb_spec j b) as [->|Hjb]; cbn [andb orb]; lia.
    - lia. }
  assert (MEM : forall i j, In j (nth i adj' []) <-> In j (nb g i) \/ hit a b i j = true).
  { intros i j. rewrite !count_In, CNT. destruct (hit a b i j); split; try lia; intros [H|H]; try lia; discriminate. }
  eexists; split; [reflexivity|]. split; [|split; [reflexivity|split; [reflexivity|split; [|split; [|split]]]]].
  - constructor; cbn [adj size enum labels].
    + unfold adj'. rewrite upd_length. destruct (Nat.eqb a b); rewrite ?upd_length; apply (wu_len _ I).
    + intros i j; unfold nb; cbn [adj]. rewrite MEM, hit_true. intros [H|[[-> ->]|[-> ->]]]; auto. apply (wu_rng _ I) in H; auto.
    + intros i j; unfold nb; cbn [adj]. rewrite !CNT, (hit_sym a b j i). fold (nb g i) (nb g j). rewrite (wu_sym _ I i j). reflexivity.
    + rewrite (wu_enum _ I). unfold utotal, adj'. destruct (Nat.eqb_spec a b) as [->|Hab].
      * rewrite utotal_upd by auto. cbn [Nat.add]. rewrite cnt_snoc, Nat.leb_refl. lia.
      * rewrite utotal_upd by (rewrite upd_length; auto). rewrite nth_upd_neq by auto. rewrite utotal_upd by auto. cbn [Nat.add].
        rewrite !cnt_snoc. destruct (Nat.leb_spec a b), (Nat.leb_spec b a); lia.
    + pose proof (wu_lab _ I) as IL. unfold set_label. destruct has_store; auto.
      intros i j; unfold nb; cbn [adj]. rewrite lfind_lset, MEM. fold (nb g i).
      destruct (edge_eqb_spec (ordered a b) (i, j)) as [E|NE].
      * split; [intros _|discriminate]. assert (Hle : (i <= j)%nat) by (pose proof (ordered_le a b) as X; rewrite E in X; exact X).
        split; auto. right. rewrite <- (ordered_key_hit a b i j Hle), E. apply edge_eqb_refl.
      * rewrite IL. split; [intros [? ?]; auto|]. intros [Hle [H|H]]; auto. exfalso. apply NE.
        rewrite <- (ordered_key_hit a b i j Hle) in H. destruct (edge_eqb_spec (ordered a b) (i, j)); auto; discriminate.
  - intros i; unfold nb; cbn [adj]. apply NB.
  - intros i j; unfold nb at 1; cbn [adj]. apply CNT.
  - match goal with |- u_has_edge ?g' a b = _ => assert (I' : size g' = size g) by reflexivity; set (G := g') in * end.
    assert (W : mem b (nb G a) = true).
    { apply mem_In. unfold nb, G; cbn [adj]. apply MEM. right. apply hit_true; auto. }
    unfold u_has_edge, has_edge, in_range. rewrite I'.
    assert (LEN : length (adj G) = size g). { unfold G; cbn [adj]. unfold adj'. rewrite upd_length. destruct (Nat.eqb a b); rewrite ?upd_length; apply (wu_len _ I). }
    rewrite LEN.
    destruct (ordered_cases a b) as [[-> H]|[-> H]]; cbn [fst snd].
    + rewrite (proj2 (Nat.ltb_lt _ _) Ha), (proj2 (Nat.ltb_lt _ _) Hb). cbn [andb]. f_equal. exact W.
    + rewrite (proj2 (Nat.ltb_lt _ _) Ha), (proj2 (Nat.ltb_lt _ _) Hb). cbn [andb]. f_equal.
      apply mem_In. unfold G; cbn [adj]. apply MEM. right. apply hit_true; auto.
  - intros e; cbn [labels]. unfold set_label. destruct has_store; cbn [andb]; [apply lfind_lset|reflexivity].
Qed.

(* addEdge(force = false) in a state with duplicates: inserts only when the pair is absent *)
Theorem u_unforced_add_weak g a b l : WInvU g -> (a < size g)%nat -> (b < size g)%nat ->
  u_add_edge has_store repaired g a b l false = if mem b (nb g a) then (g, Done) else u_push has_store g a b l.
Proof. intros I Ha Hb. unfold u_add_edge. rewrite (u_has_edge_weak g a b I Ha Hb). destruct (mem b (nb g a)); reflexivity. Qed.

(* ---------- removeEdge: ALL copies leave both lists; the edge count drops by their number ---------- *)
Theorem u_remove_edge_weak g a b : WInvU g -> (a < size g)%nat -> (b < size g)%nat ->
  exists g', u_remove_edge g a b = (g', Done) /\ WInvU g' /\ size g' = size g /\
    enum g' = enum g - Z.of_nat (count b (nb g a)) /\
    (forall i, nb g' i = if Nat.eqb i a then remove_all b (nb g a) else if Nat.eqb i b then remove_all a (nb g b) else nb g i) /\
    (forall i j, count j (nb g' i) = if hit a b i j then 0%nat else count j (nb g i)) /\
    (forall e, lfind e (labels g') = if edge_eqb (ordered a b) e then None else lfind e (labels g)).
Proof.
  intros I Ha Hb. unfold u_remove_edge, in_range.
  rewrite (proj2 (Nat.ltb_lt _ _) Ha), (proj2 (Nat.ltb_lt _ _) Hb), (wu_len _ I), (proj2 (Nat.ltb_lt _ _) Ha), (proj2 (Nat.ltb_lt _ _) Hb); cbn [andb].
  assert (Ha' : (a < length (adj g))%nat) by (rewrite (wu_len _ I); auto).
  assert (Hb' : (b < length (adj g))%nat) by (rewrite (wu_len _ I); auto).
  fold (nb g a).
  pose proof (length_remove_all b (nb g a)) as LEN.
  pose proof (wu_lab _ I) as IL.
  assert (D : Z.of_nat (length (nb g a)) - Z.of_nat (length (remove_all b (nb g a))) = Z.of_nat (count b (nb g a))) by lia.
  rewrite D.
  assert (CNTG : forall (nbf : nat -> list nat),
     (forall i, nbf i = if Nat.eqb i a then remove_all b (nb g a) else if Nat.eqb i b then remove_all a (nb g b) else nb g i) ->
     forall i j, count j (nbf i) = if hit a b i j then 0%nat else count j (nb g i)).
  { intros nbf NB i j. rewrite NB. unfold hit.
    destruct (Nat.eqb_spec i a) as [->|Hia]; [|destruct (Nat.eqb_spec i b) as [->|Hib]]; cbn [andb orb].
    - destruct (Nat.eqb_spec j b) as [->|Hjb]; cbn [orb]; [apply count_remove_all_eq|].
      rewrite count_remove_all_neq by auto. destruct (Nat.eqb_spec a b) as [->|Hab]; cbn [andb]; [|reflexivity].
      destruct (Nat.eqb_spec j b); [congruence|reflexivity].
    - destruct (Nat.eqb_spec j a) as [->|Hja]; [apply count_remove_all_eq|apply count_remove_all_neq; auto].
    - reflexivity. }
  destruct (Z.ltb_spec 0 (Z.of_nat (count b (nb g a)))) as [POS|ZERO].
  - (* present *)
    set (adj' := upd b (fun x => remove_all a x) (upd a (fun _ => remove_all b (nb g a)) (adj g))).
    assert (NB : forall i, nth i adj' [] = if Nat.eqb i a then remove_all b (nb g a) else if Nat.eqb i b then remove_all a (nb g b) else nb g i).
    { intros i. unfold adj'. rewrite nth_upd2 by auto. fold (nb g a) (nb g b).
      destruct (Nat.eqb_spec i b) as [->|Hib].
      - destruct (Nat.eqb_spec b a) as [->|Hba]; [apply remove_all_idem'|reflexivity].
      - reflexivity. }
    pose proof (CNTG (fun i => nth i adj' []) NB) as CNT. cbv beta in CNT.
    assert (MEM : forall i j, In j (nth i adj' []) <-> In j (nb g i) /\ hit a b i j = false).
    { intros i j. rewrite !count_In, CNT. destruct (hit a b i j); split; try lia; intros [H1 H2]; auto; discriminate. }
    eexists; split; [reflexivity|]. split; [|split; [reflexivity|split; [reflexivity|split; [|split]]]].
    + constructor; cbn [adj size enum labels].
      * unfold adj'. rewrite !upd_length. apply (wu_len _ I).
      * intros i j; unfold nb; cbn [adj]. rewrite MEM. intros [H _]. apply (wu_rng _ I) in H; auto.
      * intros i j; unfold nb; cbn [adj]. rewrite !CNT, (hit_sym a b j i), (wu_sym _ I i j). reflexivity.
      * rewrite (wu_enum _ I). unfold utotal, adj'.
        rewrite utotal_upd by (rewrite upd_length; auto). rewrite utotal_upd by auto. cbn [Nat.add].
        destruct (Nat.eq_dec b a) as [->|Hba].
        -- rewrite nth_upd_eq by auto. fold (nb g a). rewrite remove_all_idem'.
           rewrite (cnt_remove_all a a (nb g a)), Nat.leb_refl. lia.
        -- rewrite nth_upd_neq by auto. fold (nb g a) (nb g b).
           rewrite (cnt_remove_all a b (nb g a)), (cnt_remove_all b a (nb g b)), (wu_sym _ I b a).
           destruct (Nat.leb_spec a b), (Nat.leb_spec b a); lia.
      * destruct has_store; [|rewrite IL; reflexivity].
        intros i j; unfold nb; cbn [adj]. rewrite lfind_lerase, MEM. fold (nb g i).
        destruct (edge_eqb_spec (ordered a b) (i, j)) as [E|NE].
        -- split; [congruence|]. intros [Hle [_ X]]. exfalso. rewrite <- (ordered_key_hit a b i j Hle), E, edge_eqb_refl in X. discriminate.
        -- rewrite IL. split; [intros [Hle H]; repeat split; auto|tauto].
           rewrite <- (ordered_key_hit a b i j Hle). destruct (edge_eqb_spec (ordered a b) (i, j)); auto; contradiction.
    + intros i; unfold nb; cbn [adj]; apply NB.
    + intros i j; unfold nb at 1; cbn [adj]; apply CNT.
    + intros e; cbn [labels]; apply lfind_lerase.
  - (* absent: the list of a is rewritten to itself *)
    assert (Z0 : count b (nb g a) = 0%nat) by lia.
    assert (Na : ~ In b (nb g a)) by (apply count_zero; auto).
    assert (Nb : ~ In a (nb g b)) by (apply count_zero; rewrite (wu_sym _ I b a); auto).
    assert (EQ : upd a (fun _ => remove_all b (nb g a)) (adj g) = adj g).
    { rewrite (remove_all_notin b (nb g a) Na). unfold nb. apply (upd_same [] a (adj g) Ha'). }
    rewrite EQ.
    assert (NB : forall i, nb g i = if Nat.eqb i a then remove_all b (nb g a) else if Nat.eqb i b then remove_all a (nb g b) else nb g i).
    { intros i. destruct (Nat.eqb_spec i a) as [->|]; [rewrite remove_all_notin; auto|]. destruct (Nat.eqb_spec i b) as [->|]; [rewrite remove_all_notin; auto|reflexivity]. }
    exists g. split; [destruct g; reflexivity|]. split; [exact I|]. split; [reflexivity|]. split; [lia|]. split; [exact NB|]. split; [apply (CNTG (nb g) NB)|].
    intros e. destruct (edge_eqb_spec (ordered a b) e) as [<-|]; auto.
    destruct has_store; [|rewrite IL; reflexivity].
    destruct (lfind (ordered a b) (labels g)) eqn:F; auto. exfalso.
    assert (X : lfind (fst (ordered a b), snd (ordered a b)) (labels g) <> None) by (rewrite <- surjective_pairing; congruence).
    apply IL in X as [_ X]. destruct (ordered_cases a b) as [[E _]|[E _]]; rewrite E in X; cbn [fst snd] in X; auto.
Qed.

(* ---------- removeDuplicateEdges: back to the full invariant; every connected pair once; labels untouched ---------- *)
Theorem u_remove_duplicates_spec g : WInvU g ->
  exists g', u_remove_duplicates g = (g', Done) /\ InvU g' /\ size g' = size g /\ labels g' = labels g /\
    (forall i, nb g' i = dedup [] (nb g i)) /\
    (forall i j, In j (nb g' i) <-> In j (nb g i)) /\
    (forall i j, count j (nb g' i) = if mem j (nb g i) then 1%nat else 0%nat) /\
    enum g' = utotal (map (dedup []) (adj g)).
Proof.
  intros I. unfold u_remove_duplicates. rewrite (wu_len _ I), Nat.leb_refl.
  destruct (u_dedup_rows_spec (adj g) 0) as [F SS]. destruct (u_dedup_rows 0 (adj g)) as [rows c]. cbn [fst snd] in F, SS. subst rows.
  assert (NB : forall i, nth i (map (dedup []) (adj g)) [] = dedup [] (nb g i)).
  { intros i. unfold nb. exact (map_nth (dedup []) (adj g) [] i). }
  assert (MEM : forall i j, In j (dedup [] (nb g i)) <-> In j (nb g i)) by (intros; rewrite In_dedup; simpl; tauto).
  assert (EN : enum g - c = utotal (map (dedup []) (adj g))) by (rewrite (wu_enum _ I); unfold utotal; lia).
  eexists; split; [reflexivity|]. split; [|split; [reflexivity|split; [reflexivity|split; [|split; [|split]]]]].
  - constructor; cbn [adj size enum labels].
    + rewrite map_length; apply (wu_len _ I).
    + intros i; unfold nb; cbn [adj]; rewrite NB. apply NoDup_dedup.
    + intros i j; unfold nb; cbn [adj]; rewrite NB, MEM. apply (wu_rng _ I).
    + intros i j; unfold nb; cbn [adj]; rewrite !NB, !MEM. apply (wu_In_sym g i j I).
    + exact EN.
    + pose proof (wu_lab _ I) as IL. destruct has_store; auto. intros i j; unfold nb; cbn [adj]; rewrite NB, MEM. apply IL.
  - intros i; unfold nb; cbn [adj]; apply NB.
  - intros i j; unfold nb at 1; cbn [adj]; rewrite NB. apply MEM.
  - intros i j; unfold nb at 1; cbn [adj]; rewrite NB. rewrite (count_nodup j _ (NoDup_dedup (nb g i) [])).
    destruct (mem j (nb g i)) eqn:Mj.
    + apply mem_In, MEM, mem_In in Mj. rewrite Mj. reflexivity.
    + destruct (mem j (dedup [] (nb g i))) eqn:Md; auto. apply mem_In, MEM, mem_In in Md. congruence.
  - cbn [enum]. exact EN.
Qed.

End UForced.

(* after removeDuplicateEdges the edge number is the number of distinct unordered connected pairs: the length of a duplicate-free list
   holding exactly the pairs (i, j), i <= j, that were connected (by any number of copies) *)
Section UForcedCard.
Context {L : Type}.
Variable has_store : bool.
Corollary u_remove_duplicates_cardinal (g : @dgraph L) : WInvU has_store g ->
  exists g' es, u_remove_duplicates g = (g', Done) /\ enum g' = Z.of_nat (length es) /\ NoDup es /\
    (forall i j, In (i, j) es <-> (i <= j)%nat /\ In j (nb g i)).
Proof.
  intros I. destruct (u_remove_duplicates_spec has_store g I) as [g' [E [I' [S' [_ [_ [M' _]]]]]]].
  exists g', (filter up (flatten g')). split; auto. split; [|split].
  - rewrite (u_enum _ _ I'). symmetry. apply length_filter_up_flatten, (u_len _ _ I').
  - apply NoDup_filter. apply (NoDup_flatten_u has_store g' I').
  - intros i j. rewrite filter_In, DirectedUsers.In_flatten, M'. unfold up; cbn [fst snd]. rewrite Nat.leb_le. split; [tauto|].
    intros [A B]. split; auto. split; auto. rewrite S'. apply (wu_rng _ _ I) in B. tauto.
Qed.
End UForcedCard.
