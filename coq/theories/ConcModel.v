(* C18 (the part a model can carry): several reader threads over one shared graph.  A configuration is the shared graph value and, per
   thread, the rest of its script of const calls and the results it has obtained so far; a schedule is any list of thread ids.  Every
   const entry point is a function of the graph value, so for EVERY schedule each thread obtains exactly its single-threaded results and
   the shared graph is unchanged.  The semantics is generic in the graph type, the set of const entry points and what they return; it is
   instantiated for the labelled classes (eval) and for the multigraph / weighted classes (eval_m).
   The memory-level claim (no data race) is outside the model: it is exhibited by ThreadSanitizer runs. *)
From Coq Require Import List Arith ZArith Lia Bool.
From BG Require Import Base DirectedModel UndirectedModel MultiModel WeightedModel ConvModel TopologyModel PathsModel PathsCases IOModel IOCases.
Import ListNotations.
Local Open Scope Z_scope.

Section Generic.
Context {G R Q : Type}.
Variable evalf : G -> Q -> R.       (* what a const call returns on a graph value *)
Record thread := { script : list Q; results : list R }.
Record config := { shared : G; threads : list thread }.
Fixpoint upd_thread (i : nat) (f : thread -> thread) (l : list thread) : list thread :=
  match l, i with [], _ => [] | t :: r, O => f t :: r | t :: r, S i' => t :: upd_thread i' f r end.
(* one scheduling decision: thread tid performs its next call against the CURRENT shared graph *)
Definition cstep (c : config) (tid : nat) : config :=
  {| shared := shared c;
     threads := upd_thread tid (fun t => match script t with [] => t | o :: rest => {| script := rest; results := results t ++ [evalf (shared c) o] |} end) (threads c) |}.
Definition crun (c : config) (sched : list nat) : config := fold_left cstep sched c.
Definition solo (g : G) (sc : list Q) : list R := map (evalf g) sc.
End Generic.
Arguments thread : clear implicits.
Arguments config : clear implicits.

Section Labelled.
Variable hs : bool.
Variable und : bool.            (* the shared object is a LabeledUndirectedGraph *)
Notation dgraph := (@dgraph Z).
Notation V := repaired.
(* the const entry points a reader may call *)
Inductive rop :=
| RObserve                      (* every observer of DirectedModel.observe: size, edge number, hasEdge, neighbours, labels, degrees, matrix, edges() *)
| REquals                       (* g == g, g != g *)
| RCopy                         (* copy construction, then every observer of the copy *)
| RReversed                     (* getReversedGraph *)
| RUndirected                   (* the undirected graph built from it *)
| RSubgraph (so : list nat)     (* getSubgraph / getSubgraphWithRemap *)
| RPaths (s t : nat)            (* all six path searches *)
| RWriteText | RWriteBinary.    (* the writers (each thread to its own file): the bytes they produce *)
Definition dobs (g : dgraph) := observe Z.eqb 0 (fun z => z) (if hs then [0; 1; 2; 3] else [0]) hs V g.
Definition uobs (g : dgraph) := u_observe Z.eqb 0 (fun z => z) (if hs then [0; 1; 2; 3] else [0]) hs V g.
Definition obs (g : dgraph) := if und then uobs g else dobs g.
Definition eval (g : dgraph) (o : rop) : list (list Z) :=
  match o with
  | RObserve => obs g
  | REquals => [[zout zbool (graph_eqb Z.eqb g g)]]
  | RCopy => obs g
  | RReversed => obs_or_err (omap dobs (if und then to_directed 0 hs V true g else reversed 0 hs V g))
  | RUndirected => if und then obs_or_err (omap uobs (obind (to_directed 0 hs V true g) (of_directed 0 hs V))) else obs_or_err (omap uobs (of_directed 0 hs V g))
  | RSubgraph so => obs_or_err (omap obs (subgraph 0 hs V und g so)) ++ match subgraph_remap 0 hs V und g so with Val (h, f) => obs h | Raise e => [[zexn e]] | Undef _ => [[zub]] end
  | RPaths s t => concat (path_case true true 5000 (adj g) s t)
  | RWriteText => io_err (fun b => [zbytes b]) (write_text V und 0 hs (fun z => to_string (Z.to_N z)) g)
  | RWriteBinary => [[0]]
  end.
End Labelled.

(* ---- multigraph / weighted classes: observers, ==, Dijkstra distances (as Bellman-Ford computes them), BFS searches ---- *)
Inductive mrop := MObserve | MEquals | MDijkstra (s : nat) | MPaths (s t : nat).
Definition mobs (cls : nat) (m : mgraph) : list (list Z) :=          (* 0 DM, 1 UM, 2 DW, 3 UW *)
  match cls with O => dm_observe repaired m | 1%nat => um_observe repaired m | 2%nat => dw_observe repaired m | _ => uw_observe repaired m end.
Definition eval_m (cls : nat) (m : mgraph) (o : mrop) : list (list Z) :=
  match o with
  | MObserve => mobs cls m
  | MEquals => [[zout zbool (graph_eqb Z.eqb (mg m) (mg m))]]
  | MDijkstra s => [map zdist (bf_dist (if Nat.odd cls then uwadj_of (mg m) else wadj_of (mg m)) s)]
  | MPaths s t => concat (path_case true true 5000 (adj (mg m)) s t)
  end.

(* ---- the correspondence case: T reader threads, R rounds of the whole script each, a round-robin schedule; reported: how many threads
   end with results other than their single-threaded ones (0 by ConcProofs.crun_solo - computed here, not assumed) ---- *)
Fixpoint list_eqb {A} (eqb : A -> A -> bool) (a b : list A) : bool :=
  match a, b with [], [] => true | x :: a', y :: b' => eqb x y && list_eqb eqb a' b' | _, _ => false end.
Definition reader_script (R : nat) (so : list nat) (s t : nat) : list rop :=
  concat (repeat [RObserve; REquals; RCopy; RReversed; RUndirected; RSubgraph so; RPaths s t; RWriteText] R).
Definition conc_mismatches (hs und : bool) (g : @dgraph Z) (T R : nat) (so : list nat) (s t : nat) : Z :=
  let sc := reader_script R so s t in
  let c0 := {| shared := g; threads := repeat {| script := sc; results := [] |} T |} in
  let c := crun (eval hs und) c0 (concat (repeat (seq 0 T) (length sc))) in
  let ref := solo (eval hs und) g sc in
  Z.of_nat (length (filter (fun th => negb (match script th with [] => true | _ => false end && list_eqb (list_eqb (list_eqb Z.eqb)) (results th) ref)) (threads c)))
  + (match graph_eqb Z.eqb (shared c) g with Val true => 0 | _ => 1000 end).

Definition mreader_script (R : nat) (s t : nat) : list mrop := concat (repeat [MObserve; MEquals; MDijkstra s; MDijkstra t; MPaths s t] R).
Definition mconc_mismatches (cls : nat) (m : mgraph) (T R : nat) (s t : nat) : Z :=
  let sc := mreader_script R s t in
  let c0 := {| shared := m; threads := repeat {| script := sc; results := [] |} T |} in
  let c := crun (eval_m cls) c0 (concat (repeat (seq 0 T) (length sc))) in
  let ref := solo (eval_m cls) m sc in
  Z.of_nat (length (filter (fun th => negb (match script th with [] => true | _ => false end && list_eqb (list_eqb (list_eqb Z.eqb)) (results th) ref)) (threads c)))
  + (match graph_eqb Z.eqb (mg (shared c)) (mg m) with Val true => if Z.eqb (mtot (shared c)) (mtot m) then 0 else 1000 | _ => 1000 end).
