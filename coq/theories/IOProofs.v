(* C14 / C15 (binary): the little-endian codec round-trips, every record has the fixed layout and length, and the repaired loader
   returns exactly the complete records before ANY cut offset. *)
From Coq Require Import List Arith NArith ZArith Lia Bool.
From BG Require Import Base IOModel.
Import ListNotations.
Local Open Scope N_scope.

Lemma le_bytes_length k : forall x, length (le_bytes k x) = k.
Proof. induction k; intros x; simpl; auto. Qed.
Lemma of_le_bytes_le k : forall x, x < 256 ^ N.of_nat k -> of_le_bytes (le_bytes k x) = x.
Proof.
  induction k as [|k IH]; intros x H.
  - simpl in *. lia.
  - cbn [le_bytes of_le_bytes]. rewrite IH.
    + pose proof (N.div_mod x 256). lia.
    + rewrite Nat2N.inj_succ, N.pow_succ_r' in H. apply N.div_lt_upper_bound; lia.
Qed.
Lemma le_bytes_range k : forall x b, In b (le_bytes k x) -> b < 256.
Proof. induction k; intros x b; simpl; [tauto|]. intros [<-|H]; [apply N.mod_lt; lia|eauto]. Qed.

Lemma skipn_app_exact {A} n (a b : list A) : length a = n -> skipn n (a ++ b) = b.
Proof. intros <-. rewrite skipn_app, skipn_all, Nat.sub_diag. reflexivity. Qed.
Lemma firstn_app_exact {A} n (a b : list A) : length a = n -> firstn n (a ++ b) = a.
Proof. intros <-. rewrite firstn_app, firstn_all, Nat.sub_diag. cbn. apply app_nil_r. Qed.
Definition rec_size (w : nat) : nat := (8 + w)%nat.
Definition rec_ok (w : nat) (r : brecord) : Prop := let '(s, d, l) := r in s < 256 ^ 4 /\ d < 256 ^ 4 /\ l < 256 ^ N.of_nat w.
Lemma enc_record_length w r : length (enc_record w r) = rec_size w.
Proof. destruct r as [[s d] l]. unfold enc_record, rec_size. rewrite !app_length, !le_bytes_length. lia. Qed.
Lemma enc_records_length w rs : length (enc_records w rs) = (length rs * rec_size w)%nat.
Proof. induction rs as [|r t IH]; cbn [enc_records flat_map length]; auto. fold (enc_records w t). rewrite app_length, enc_record_length, IH. lia. Qed.

(* fewer bytes than one record: nothing is returned, whichever of the three reads comes up short *)
Lemma parse_short fuel w b : (length b < rec_size w)%nat -> parse_records fuel w b = [].
Proof.
  intros H. destruct fuel; cbn [parse_records]; auto. unfold rec_size in H. cbv zeta.
  destruct (Nat.ltb_spec (length b) 4) as [|G1]; auto.
  destruct (Nat.ltb_spec (length (skipn 4 b)) 4) as [|G2]; auto.
  destruct (Nat.ltb_spec (length (skipn 4 (skipn 4 b))) w) as [|G3]; auto.
  rewrite !skipn_length in *. lia.
Qed.
(* a complete record in front is decoded to exactly the record that was encoded *)
Lemma parse_cons fuel w r b : rec_ok w r -> parse_records (S fuel) w (enc_record w r ++ b) = r :: parse_records fuel w b.
Proof.
  destruct r as [[s d] l]. intros [Hs [Hd Hl]]. cbn [parse_records]. unfold enc_record.
  set (B1 := le_bytes 4 s). set (B2 := le_bytes 4 d). set (B3 := le_bytes w l).
  assert (L1 : length B1 = 4%nat) by apply le_bytes_length. assert (L2 : length B2 = 4%nat) by apply le_bytes_length. assert (L3 : length B3 = w) by apply le_bytes_length.
  assert (E1 : skipn 4 ((B1 ++ B2 ++ B3) ++ b) = (B2 ++ B3) ++ b) by (rewrite <- !app_assoc; apply skipn_app_exact; auto).
  assert (E2 : skipn 4 ((B2 ++ B3) ++ b) = B3 ++ b) by (rewrite <- !app_assoc; apply skipn_app_exact; auto).
  assert (E3 : skipn w (B3 ++ b) = b) by (apply skipn_app_exact; auto).
  assert (F1 : firstn 4 ((B1 ++ B2 ++ B3) ++ b) = B1) by (rewrite <- !app_assoc; apply firstn_app_exact; auto).
  assert (F2 : firstn 4 ((B2 ++ B3) ++ b) = B2) by (rewrite <- !app_assoc; apply firstn_app_exact; auto).
  assert (F3 : firstn w (B3 ++ b) = B3) by (apply firstn_app_exact; auto).
  cbv zeta.
  rewrite E1, E2, E3, F1, F2, F3.
  assert (Nat.ltb (length ((B1 ++ B2 ++ B3) ++ b)) 4 = false) as -> by (apply Nat.ltb_ge; rewrite !app_length; lia).
  assert (Nat.ltb (length ((B2 ++ B3) ++ b)) 4 = false) as -> by (apply Nat.ltb_ge; rewrite !app_length; lia).
  assert (Nat.ltb (length (B3 ++ b)) w = false) as -> by (apply Nat.ltb_ge; rewrite !app_length; lia).
  unfold B1, B2, B3. rewrite !of_le_bytes_le; auto.
Qed.

(* C14: decoding the encoding of a list of records gives the list back *)
Theorem parse_enc w rs fuel : Forall (rec_ok w) rs -> (length rs <= fuel)%nat -> parse_records (S fuel) w (enc_records w rs) = rs.
Proof.
  revert fuel. induction rs as [|r t IH]; intros fuel H F; cbn [enc_records flat_map].
  - apply parse_short. unfold rec_size; simpl; lia.
  - inversion H; subst. destruct fuel as [|f]; [simpl in F; lia|]. fold (enc_records w t). rewrite parse_cons by auto. f_equal. apply IH; auto. simpl in F; lia.
Qed.

(* C15: cut the file at ANY byte offset k: the loader sees exactly the first k / record-size records, never a piece of the next one *)
Theorem parse_cut w rs : Forall (rec_ok w) rs -> forall k fuel, (k <= length (enc_records w rs))%nat -> (k / rec_size w <= fuel)%nat ->
  parse_records (S fuel) w (firstn k (enc_records w rs)) = firstn (k / rec_size w) rs.
Proof.
  induction rs as [|r t IH]; intros H k fuel Hk F; cbn [enc_records flat_map] in *.
  - rewrite firstn_nil. rewrite (firstn_nil). apply parse_short. unfold rec_size; simpl; lia.
  - inversion H; subst. fold (enc_records w t) in *.
    assert (RS : (0 < rec_size w)%nat) by (unfold rec_size; lia).
    destruct (Nat.lt_ge_cases k (rec_size w)) as [Lt|Ge].
    + rewrite Nat.div_small by auto. cbn [firstn]. apply parse_short. rewrite firstn_length. lia.
    + rewrite firstn_app, enc_record_length. rewrite firstn_all2 by (rewrite enc_record_length; auto).
      assert (DV : (k / rec_size w)%nat = S ((k - rec_size w) / rec_size w)).
      { replace k with ((k - rec_size w) + 1 * rec_size w)%nat at 1 by lia. rewrite Nat.div_add by lia. lia. }
      rewrite DV in *. destruct fuel as [|f]; [lia|]. rewrite parse_cons by auto.
      cbn [firstn]. f_equal. apply IH; auto; [|lia]. rewrite app_length, enc_record_length in Hk. lia.
Qed.

(* the same at the level of the loader: what loadBinaryEdgeList returns on the truncated file is what it returns on the file
   made of the complete records only *)
Corollary load_binary_cut V und w rs k : Forall (rec_ok w) rs -> (k <= length (enc_records w rs))%nat ->
  load_binary V und w (firstn k (enc_records w rs)) = build_graph V und w (firstn (k / rec_size w) rs).
Proof. intros H Hk. unfold load_binary. rewrite firstn_length, Nat.min_l by auto. rewrite parse_cut; auto.
  assert (RS : (0 < rec_size w)%nat) by (unfold rec_size; lia). apply Nat.div_le_upper_bound; nia. Qed.
Corollary load_binary_whole V und w rs : Forall (rec_ok w) rs -> load_binary V und w (enc_records w rs) = build_graph V und w rs.
Proof. intros H. rewrite <- (firstn_all (enc_records w rs)) at 1. rewrite load_binary_cut; auto.
  rewrite enc_records_length, Nat.div_mul by (unfold rec_size; lia). rewrite firstn_all. reflexivity. Qed.
