(* C16 — Forced duplicate edges are counted per copy and removed cleanly.  Statements only; proofs in Forced.v (directed labelled class),
   UForced.v (undirected), ForcedEq.v ("== the graph built without force"), MForced.v / MForcedInv.v (multigraphs). *)
From Coq Require Import List Arith ZArith.
From BG Require Import Base DirectedModel DirectedProofs UndirectedModel UndirectedProofs Equality Forced UForced ForcedEq MultiModel MForced MForcedInv.
Import ListNotations.
Local Open Scope Z_scope.

(* In ANY state reachable with forced insertions (the weak invariant: no "no duplicates" clause) addEdge(force=true) inserts one more copy:
   the pair's multiplicity in the neighbour list and the edge count grow by exactly one, nothing else changes, hasEdge is true,
   the label is the one just given. *)
Theorem C16_forced_add_counts_one_more : forall (L : Type) hs (g : @dgraph L) s d l, WInv hs g -> (s < size g)%nat -> (d < size g)%nat ->
  exists g', add_edge hs repaired g s d l true = (g', Done) /\ WInv hs g' /\ size g' = size g /\ enum g' = enum g + 1 /\
    (forall i j, count j (nb g' i) = (count j (nb g i) + (if Nat.eqb i s && Nat.eqb j d then 1 else 0))%nat) /\
    has_edge g' s d = Val true /\
    (forall e, lfind e (labels g') = if hs && edge_eqb (s, d) e then Some l else lfind e (labels g)).
Proof. intros; apply forced_add_spec; assumption. Qed.
Print Assumptions C16_forced_add_counts_one_more.

(* removeEdge deletes all copies of the pair and only them; the edge count drops by their number *)
Theorem C16_remove_edge_deletes_all_copies : forall (L : Type) hs (g : @dgraph L) s d, WInv hs g -> (s < size g)%nat -> (d < size g)%nat ->
  exists g', remove_edge g s d = (g', Done) /\ WInv hs g' /\ size g' = size g /\
    enum g' = enum g - Z.of_nat (count d (nb g s)) /\
    (forall i, nb g' i = if Nat.eqb i s then remove_all d (nb g s) else nb g i) /\
    (forall i j, count j (nb g' i) = if Nat.eqb i s && Nat.eqb j d then 0%nat else count j (nb g i)) /\
    (forall e, lfind e (labels g') = if edge_eqb (s, d) e then None else lfind e (labels g)).
Proof. intros; apply remove_edge_weak; assumption. Qed.
Print Assumptions C16_remove_edge_deletes_all_copies.

(* removeDuplicateEdges leaves exactly one copy of every connected pair (self-loops included), restores the full invariant of C01
   (so getEdgeNumber = number of distinct pairs) and does not touch the labels *)
Theorem C16_remove_duplicates : forall (L : Type) hs (g : @dgraph L), WInv hs g ->
  exists g', remove_duplicates g = (g', Done) /\ Inv hs g' /\ size g' = size g /\ labels g' = labels g /\
    (forall i, nb g' i = dedup [] (nb g i)) /\
    (forall i j, In j (nb g' i) <-> In j (nb g i)) /\
    (forall i j, count j (nb g' i) = if mem j (nb g i) then 1%nat else 0%nat).
Proof. intros; apply remove_duplicates_spec; assumption. Qed.
Print Assumptions C16_remove_duplicates.

(* non-vacuity: a forced duplicate, then dedup *)
Example C16_example :
  let '(g, r) := run true repaired (init 2) [AddEdge 0 1 7%Z false; AddEdge 0 1 7%Z true; AddEdge 1 1 3%Z true; AddEdge 1 1 3%Z true] in
  r = Done /\ nth 0 (adj g) [] = [1; 1]%nat /\ enum g = 4 /\ fst (remove_duplicates g) = fst (run true repaired (init 2) [AddEdge 0 1 7%Z false; AddEdge 1 1 3%Z false]).
Proof. vm_compute. auto. Qed.

Local Close Scope Z_scope.
(* ---- undirected class: the weak invariant WInvU (symmetric multiplicities instead of "no duplicates"); a forced insertion adds one entry
   to each of the two lists (one for a loop) and one to the edge count; removeEdge removes every copy from both lists; removeDuplicateEdges
   restores the full invariant, the edge count becoming the number of distinct unordered pairs.
   "== the graph built without force": for a history of insertions, forced-then-deduplicated == unforced EXACTLY WHEN repeated insertions of
   a pair agree on the label (the forced run keeps the last label, the unforced one the first) - always for unlabelled graphs.
   Multigraphs: a forced insertion of multiplicity k adds k to the total and 1 to the edge count; removeDuplicateEdges subtracts the stored
   multiplicity once per removed entry and restores the invariant total = sum of stored multiplicities. ---- *)
Theorem C16_undirected_forced_add :
  forall (L : Type) (has_store : bool) (g : (@dgraph L)) (a b : nat) (l : L),
        WInvU has_store g ->
        a < size g ->
        b < size g ->
        exists g' : (@dgraph L),
          u_add_edge has_store repaired g a b l true = (g', Done) /\
          WInvU has_store g' /\
          size g' = size g /\
          enum g' = (enum g + 1)%Z /\
          (forall i : nat, nb g' i = (if i =? b then nb g b ++ [a] else if i =? a then nb g a ++ [b] else nb g i)) /\
          (forall i j : nat, count j (nb g' i) = count j (nb g i) + (if hit a b i j then 1 else 0)) /\
          u_has_edge g' a b = Val true /\ (forall e : edge, lfind e (labels g') = (if has_store && edge_eqb (ordered a b) e then Some l else lfind e (labels g))).
Proof. intros L. exact (@UForced.u_forced_add_spec L). Qed.
Print Assumptions C16_undirected_forced_add.
Theorem C16_undirected_remove_edge :
  forall (L : Type) (has_store : bool) (g : (@dgraph L)) (a b : nat),
        WInvU has_store g ->
        a < size g ->
        b < size g ->
        exists g' : (@dgraph L),
          u_remove_edge g a b = (g', Done) /\
          WInvU has_store g' /\
          size g' = size g /\
          enum g' = (enum g - Z.of_nat (count b (nb g a)))%Z /\
          (forall i : nat, nb g' i = (if i =? a then remove_all b (nb g a) else if i =? b then remove_all a (nb g b) else nb g i)) /\
          (forall i j : nat, count j (nb g' i) = (if hit a b i j then 0 else count j (nb g i))) /\
          (forall e : edge, lfind e (labels g') = (if edge_eqb (ordered a b) e then None else lfind e (labels g))).
Proof. intros L. exact (@UForced.u_remove_edge_weak L). Qed.
Print Assumptions C16_undirected_remove_edge.
Theorem C16_undirected_remove_duplicates :
  forall (L : Type) (has_store : bool) (g : (@dgraph L)),
        WInvU has_store g ->
        exists g' : (@dgraph L),
          u_remove_duplicates g = (g', Done) /\
          InvU has_store g' /\
          size g' = size g /\
          labels g' = labels g /\
          (forall i : nat, nb g' i = dedup [] (nb g i)) /\
          (forall i j : nat, In j (nb g' i) <-> In j (nb g i)) /\
          (forall i j : nat, count j (nb g' i) = (if mem j (nb g i) then 1 else 0)) /\ enum g' = utotal (map (dedup []) (adj g)).
Proof. intros L. exact (@UForced.u_remove_duplicates_spec L). Qed.
Print Assumptions C16_undirected_remove_duplicates.
Theorem C16_undirected_edge_count_after_dedup :
  forall (L : Type) (has_store : bool) (g : (@dgraph L)),
        WInvU has_store g ->
        exists (g' : (@dgraph L)) (es : list (nat * nat)),
          u_remove_duplicates g = (g', Done) /\ enum g' = Z.of_nat (length es) /\ NoDup es /\ (forall i j : nat, In (i, j) es <-> i <= j /\ In j (nb g i)).
Proof. intros L. exact (@UForced.u_remove_duplicates_cardinal L). Qed.
Print Assumptions C16_undirected_edge_count_after_dedup.
Theorem C16_dedup_equals_unforced_iff :
  forall (L : Type) (leqb : L -> L -> bool) (hs : bool) (n : nat) (ops : list ins),
        in_rng n ops ->
        exists (gf gd gu : (@dgraph L)) (b : bool),
          run hs repaired (init n) (adds true ops) = (gf, Done) /\
          remove_duplicates gf = (gd, Done) /\
          run hs repaired (init n) (adds false ops) = (gu, Done) /\ graph_eqb leqb gd gu = Val b /\ (b = true <-> labels_settle leqb hs ops).
Proof. intros L. exact (@ForcedEq.forced_dedup_eqb L). Qed.
Print Assumptions C16_dedup_equals_unforced_iff.
Theorem C16_dedup_equals_unforced :
  forall (L : Type) (leqb : L -> L -> bool) (hs : bool) (n : nat) (ops : list ins),
        in_rng n ops ->
        hs = false \/ same_labels leqb ops ->
        exists gf gd gu : (@dgraph L),
          run hs repaired (init n) (adds true ops) = (gf, Done) /\
          remove_duplicates gf = (gd, Done) /\ run hs repaired (init n) (adds false ops) = (gu, Done) /\ graph_eqb leqb gd gu = Val true.
Proof. intros L. exact (@ForcedEq.forced_dedup_equals_unforced L). Qed.
Print Assumptions C16_dedup_equals_unforced.
Theorem C16_undirected_dedup_equals_unforced_iff :
  forall (L : Type) (leqb : L -> L -> bool) (hs : bool) (n : nat) (ops : list ins),
        in_rng n ops ->
        exists (gf gd gu : (@dgraph L)) (b : bool),
          urun hs repaired (init n) (uadds true ops) = (gf, Done) /\
          u_remove_duplicates gf = (gd, Done) /\
          urun hs repaired (init n) (uadds false ops) = (gu, Done) /\ graph_eqb leqb gd gu = Val b /\ (b = true <-> u_labels_settle leqb hs ops).
Proof. intros L. exact (@ForcedEq.u_forced_dedup_eqb L). Qed.
Print Assumptions C16_undirected_dedup_equals_unforced_iff.
Theorem C16_undirected_dedup_equals_unforced :
  forall (L : Type) (leqb : L -> L -> bool) (hs : bool) (n : nat) (ops : list ins),
        in_rng n ops ->
        hs = false \/ same_labels leqb (map norm ops) ->
        exists gf gd gu : (@dgraph L),
          urun hs repaired (init n) (uadds true ops) = (gf, Done) /\
          u_remove_duplicates gf = (gd, Done) /\ urun hs repaired (init n) (uadds false ops) = (gu, Done) /\ graph_eqb leqb gd gu = Val true.
Proof. intros L. exact (@ForcedEq.u_forced_dedup_equals_unforced L). Qed.
Print Assumptions C16_undirected_dedup_equals_unforced.
Theorem C16_multigraph_forced_add :
  forall (m : mgraph) (s d : nat) (k : Z),
        WInv true (mg m) ->
        s < size (mg m) ->
        d < size (mg m) ->
        k <> 0%Z ->
        exists m' : mgraph,
          dm_add_multiedge repaired m s d k true = (m', Done) /\
          add_edge true repaired (mg m) s d k true = (mg m', Done) /\
          WInv true (mg m') /\
          size (mg m') = size (mg m) /\
          mtot m' = (mtot m + k)%Z /\
          enum (mg m') = (enum (mg m) + 1)%Z /\
          (forall i j : nat, count j (nb (mg m') i) = count j (nb (mg m) i) + (if (i =? s) && (j =? d) then 1 else 0)) /\
          has_edge (mg m') s d = Val true /\ (forall e : edge, lget e (labels (mg m')) = (if edge_eqb (s, d) e then k else lget e (labels (mg m)))).
Proof. exact MForced.dm_forced_add_spec. Qed.
Print Assumptions C16_multigraph_forced_add.
Theorem C16_multigraph_remove_duplicates :
  forall m : mgraph,
        WInv true (mg m) ->
        exists m' : mgraph,
          dm_remove_duplicates m = (m', Done) /\
          remove_duplicates (mg m) = (mg m', Done) /\
          Inv true (mg m') /\
          labels (mg m') = labels (mg m) /\
          (forall i : nat, nb (mg m') i = dedup [] (nb (mg m) i)) /\
          enum (mg m') = (enum (mg m) - dropped (adj (mg m)))%Z /\ mtot m' = (mtot m - (wtotal (labels (mg m)) (adj (mg m)) - wtotal (labels (mg m)) (adj (mg m'))))%Z.
Proof. exact MForced.dm_remove_duplicates_spec. Qed.
Print Assumptions C16_multigraph_remove_duplicates.
Theorem C16_undirected_multigraph_forced_add :
  forall (m : mgraph) (a b : nat) (k : Z),
        WInvU true (mg m) ->
        a < size (mg m) ->
        b < size (mg m) ->
        k <> 0%Z ->
        exists m' : mgraph,
          um_add_multiedge repaired m a b k true = (m', Done) /\
          u_add_edge true repaired (mg m) a b k true = (mg m', Done) /\
          WInvU true (mg m') /\
          size (mg m') = size (mg m) /\
          mtot m' = (mtot m + k)%Z /\
          enum (mg m') = (enum (mg m) + 1)%Z /\
          (forall i j : nat, count j (nb (mg m') i) = count j (nb (mg m) i) + (if hit a b i j then 1 else 0)) /\
          u_has_edge (mg m') a b = Val true /\ (forall e : edge, lget e (labels (mg m')) = (if edge_eqb (ordered a b) e then k else lget e (labels (mg m)))).
Proof. exact MForced.um_forced_add_spec. Qed.
Print Assumptions C16_undirected_multigraph_forced_add.
Theorem C16_undirected_multigraph_remove_duplicates :
  forall m : mgraph,
        WInvU true (mg m) ->
        exists m' : mgraph,
          um_remove_duplicates m = (m', Done) /\
          u_remove_duplicates (mg m) = (mg m', Done) /\
          InvU true (mg m') /\
          labels (mg m') = labels (mg m) /\
          (forall i : nat, nb (mg m') i = dedup [] (nb (mg m) i)) /\
          enum (mg m') = (enum (mg m) - (utotal (adj (mg m)) - utotal (adj (mg m'))))%Z /\
          mtot m' = (mtot m - (uwtotal (labels (mg m)) (adj (mg m)) - uwtotal (labels (mg m)) (adj (mg m'))))%Z.
Proof. exact MForced.um_remove_duplicates_spec. Qed.
Print Assumptions C16_undirected_multigraph_remove_duplicates.
Theorem C16_multigraph_dedup_restores_invariant :
  forall m : mgraph,
        MWInv m ->
        exists m' : mgraph,
          dm_remove_duplicates m = (m', Done) /\
          Totals.TInv m' /\
          size (mg m') = size (mg m) /\
          labels (mg m') = labels (mg m) /\ (forall i j : nat, In j (nb (mg m') i) <-> In j (nb (mg m) i)) /\ mtot m' = Totals.msum (labels (mg m)).
Proof. exact MForcedInv.dm_remove_duplicates_restores. Qed.
Print Assumptions C16_multigraph_dedup_restores_invariant.

(* ---- weighted classes: a forced insertion stores the weight and adds it to the total; removeEdge subtracts (copies x stored weight);
   removeDuplicateEdges subtracts the stored weight once per removed entry.  When all copies of a pair carry the same weight (the proviso of
   the property; MWInv / UMWInv: total = sum over list entries of the stored weight) removeDuplicateEdges restores total = sum of stored weights,
   and forced-then-deduplicated == unforced with equal totals.  Outside the proviso (copies disagreeing on the weight: the single slot keeps
   the last weight while earlier copies stay charged at theirs) the total drifts - WForced.dw_forced_add_drift, closed examples there. ---- *)
From BG Require Import WeightedModel Totals UTotals UMForcedInv WForced WForcedEq.
Theorem C16_weighted_forced_add :
  forall (m : mgraph) (s d : nat) (w : Z),
        WInv true (mg m) ->
        s < size (mg m) ->
        d < size (mg m) ->
        exists m' : mgraph,
          dw_add_edge repaired m s d w true = (m', Done) /\
          add_edge true repaired (mg m) s d w true = (mg m', Done) /\
          WInv true (mg m') /\
          size (mg m') = size (mg m) /\
          mtot m' = (mtot m + w)%Z /\
          enum (mg m') = (enum (mg m) + 1)%Z /\
          (forall i j : nat, count j (nb (mg m') i) = count j (nb (mg m) i) + (if (i =? s) && (j =? d) then 1 else 0)) /\
          has_edge (mg m') s d = Val true /\
          (forall e : edge, lget e (labels (mg m')) = (if edge_eqb (s, d) e then w else lget e (labels (mg m)))) /\ dw_get_weight m' s d true = Val w.
Proof. exact WForced.dw_forced_add_spec. Qed.
Print Assumptions C16_weighted_forced_add.
Theorem C16_weighted_remove_edge :
  forall (m : mgraph) (s d : nat),
        WInv true (mg m) ->
        s < size (mg m) ->
        d < size (mg m) ->
        exists m' : mgraph,
          dw_remove_edge m s d = (m', Done) /\
          remove_edge (mg m) s d = (mg m', Done) /\
          WInv true (mg m') /\
          size (mg m') = size (mg m) /\
          enum (mg m') = (enum (mg m) - Z.of_nat (count d (nb (mg m) s)))%Z /\
          mtot m' = (mtot m - lget (s, d) (labels (mg m)) * Z.of_nat (count d (nb (mg m) s)))%Z /\
          (forall i j : nat, count j (nb (mg m') i) = (if (i =? s) && (j =? d) then 0 else count j (nb (mg m) i))) /\
          has_edge (mg m') s d = Val false /\ (forall e : edge, lget e (labels (mg m')) = (if edge_eqb (s, d) e then 0%Z else lget e (labels (mg m)))).
Proof. exact WForced.dw_remove_edge_weak. Qed.
Print Assumptions C16_weighted_remove_edge.
Theorem C16_weighted_dedup_restores_invariant :
  forall m : mgraph,
        MWInv m ->
        exists m' : mgraph,
          dw_remove_duplicates m = (m', Done) /\
          TInv m' /\
          size (mg m') = size (mg m) /\ labels (mg m') = labels (mg m) /\ (forall i j : nat, In j (nb (mg m') i) <-> In j (nb (mg m) i)) /\ mtot m' = msum (labels (mg m)).
Proof. exact WForced.dw_remove_duplicates_restores. Qed.
Print Assumptions C16_weighted_dedup_restores_invariant.
Theorem C16_undirected_weighted_forced_add :
  forall (m : mgraph) (a b : nat) (w : Z),
        WInvU true (mg m) ->
        a < size (mg m) ->
        b < size (mg m) ->
        exists m' : mgraph,
          uw_add_edge repaired m a b w true = (m', Done) /\
          u_add_edge true repaired (mg m) a b w true = (mg m', Done) /\
          WInvU true (mg m') /\
          size (mg m') = size (mg m) /\
          mtot m' = (mtot m + w)%Z /\
          enum (mg m') = (enum (mg m) + 1)%Z /\
          (forall i j : nat, count j (nb (mg m') i) = count j (nb (mg m) i) + (if hit a b i j then 1 else 0)) /\
          u_has_edge (mg m') a b = Val true /\
          (forall e : edge, lget e (labels (mg m')) = (if edge_eqb (ordered a b) e then w else lget e (labels (mg m)))) /\ uw_get_weight m' a b true = Val w.
Proof. exact WForced.uw_forced_add_spec. Qed.
Print Assumptions C16_undirected_weighted_forced_add.
Theorem C16_undirected_weighted_remove_edge :
  forall (m : mgraph) (a b : nat),
        WInvU true (mg m) ->
        a < size (mg m) ->
        b < size (mg m) ->
        exists m' : mgraph,
          uw_remove_edge m a b = (m', Done) /\
          u_remove_edge (mg m) a b = (mg m', Done) /\
          WInvU true (mg m') /\
          size (mg m') = size (mg m) /\
          enum (mg m') = (enum (mg m) - Z.of_nat (count b (nb (mg m) a)))%Z /\
          mtot m' = (mtot m - lget (ordered a b) (labels (mg m)) * Z.of_nat (count b (nb (mg m) a)))%Z /\
          (forall i j : nat, count j (nb (mg m') i) = (if hit a b i j then 0 else count j (nb (mg m) i))) /\
          u_has_edge (mg m') a b = Val false /\ (forall e : edge, lfind e (labels (mg m')) = (if edge_eqb (ordered a b) e then None else lfind e (labels (mg m)))).
Proof. exact WForced.uw_remove_edge_weak. Qed.
Print Assumptions C16_undirected_weighted_remove_edge.
Theorem C16_undirected_weighted_dedup_restores_invariant :
  forall m : mgraph,
        UMWInv m ->
        exists m' : mgraph,
          uw_remove_duplicates m = (m', Done) /\
          UTInv m' /\
          size (mg m') = size (mg m) /\ labels (mg m') = labels (mg m) /\ (forall i j : nat, In j (nb (mg m') i) <-> In j (nb (mg m) i)) /\ mtot m' = msum (labels (mg m)).
Proof. exact WForced.uw_remove_duplicates_restores. Qed.
Print Assumptions C16_undirected_weighted_dedup_restores_invariant.
Theorem C16_weighted_dedup_equals_unforced :
  forall (n : nat) (ops : list wins),
        in_rng n ops ->
        same_labels Z.eqb ops ->
        exists mf md mu : mgraph,
          WeightedRefine.dw_run (dm_init n) (wadds true ops) = (mf, Done) /\
          dw_remove_duplicates mf = (md, Done) /\
          WeightedRefine.dw_run (dm_init n) (wadds false ops) = (mu, Done) /\ TInv md /\ TInv mu /\ graph_eqb Z.eqb (mg md) (mg mu) = Val true /\ mtot md = mtot mu.
Proof. exact WForcedEq.dw_forced_dedup_equals_unforced. Qed.
Print Assumptions C16_weighted_dedup_equals_unforced.
Theorem C16_undirected_weighted_dedup_equals_unforced :
  forall (n : nat) (ops : list wins),
        in_rng n ops ->
        same_labels Z.eqb (map norm ops) ->
        exists mf md mu : mgraph,
          UWeightedRefine.uw_run (dm_init n) (wadds true ops) = (mf, Done) /\
          uw_remove_duplicates mf = (md, Done) /\
          UWeightedRefine.uw_run (dm_init n) (wadds false ops) = (mu, Done) /\ UTInv md /\ UTInv mu /\ graph_eqb Z.eqb (mg md) (mg mu) = Val true /\ mtot md = mtot mu.
Proof. exact WForcedEq.uw_forced_dedup_equals_unforced. Qed.
Print Assumptions C16_undirected_weighted_dedup_equals_unforced.
Theorem C16_undirected_multigraph_dedup_restores_invariant :
  forall m : mgraph,
        UMWInv m ->
        exists m' : mgraph,
          um_remove_duplicates m = (m', Done) /\
          UTInv m' /\
          size (mg m') = size (mg m) /\ labels (mg m') = labels (mg m) /\ (forall i j : nat, In j (nb (mg m') i) <-> In j (nb (mg m) i)) /\ mtot m' = msum (labels (mg m)).
Proof. exact UMForcedInv.um_remove_duplicates_restores. Qed.
Print Assumptions C16_undirected_multigraph_dedup_restores_invariant.
