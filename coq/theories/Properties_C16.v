(* C16 — Forced duplicate edges are counted per copy and removed cleanly.  Statements only; proofs in Forced.v. *)
From BG Require Import Base DirectedModel DirectedProofs Forced.
Local Open Scope Z_scope.

(* In ANY state reachable with forced insertions (the weak invariant: no "no duplicates" clause) addEdge(force=true) inserts one more copy:
   the pair's multiplicity in the neighbour list and the edge count grow by exactly one, nothing else changes, hasEdge is true,
   the label is the one just given. *)
Theorem C16_forced_add_counts_one_more : forall (L : Type) hs (g : @dgraph L) s d l, WInv hs g -> (s < size g)%nat -> (d < size g)%nat ->
  exists g', add_edge hs repaired g s d l true = (g', Done) /\ WInv hs g' /\ size g' = size g /\ enum g' = enum g + 1 /\
    (forall i j, count j (nb g' i) = (count j (nb g i) + (if Nat.eqb i s && Nat.eqb j d then 1 else 0))%nat) /\
    has_edge g' s d = Val true /\
    (forall e, lfind e (labels g') = if hs && edge_eqb (s, d) e then Some l else lfind e (labels g)).
Proof. intros; apply forced_add_spec; assumption. Qed.
Print Assumptions C16_forced_add_counts_one_more.

(* removeEdge deletes all copies of the pair and only them; the edge count drops by their number *)
Theorem C16_remove_edge_deletes_all_copies : forall (L : Type) hs (g : @dgraph L) s d, WInv hs g -> (s < size g)%nat -> (d < size g)%nat ->
  exists g', remove_edge g s d = (g', Done) /\ WInv hs g' /\ size g' = size g /\
    enum g' = enum g - Z.of_nat (count d (nb g s)) /\
    (forall i, nb g' i = if Nat.eqb i s then remove_all d (nb g s) else nb g i) /\
    (forall i j, count j (nb g' i) = if Nat.eqb i s && Nat.eqb j d then 0%nat else count j (nb g i)) /\
    (forall e, lfind e (labels g') = if edge_eqb (s, d) e then None else lfind e (labels g)).
Proof. intros; apply remove_edge_weak; assumption. Qed.
Print Assumptions C16_remove_edge_deletes_all_copies.

(* removeDuplicateEdges leaves exactly one copy of every connected pair (self-loops included), restores the full invariant of C01
   (so getEdgeNumber = number of distinct pairs) and does not touch the labels *)
Theorem C16_remove_duplicates : forall (L : Type) hs (g : @dgraph L), WInv hs g ->
  exists g', remove_duplicates g = (g', Done) /\ Inv hs g' /\ size g' = size g /\ labels g' = labels g /\
    (forall i, nb g' i = dedup [] (nb g i)) /\
    (forall i j, In j (nb g' i) <-> In j (nb g i)) /\
    (forall i j, count j (nb g' i) = if mem j (nb g i) then 1%nat else 0%nat).
Proof. intros; apply remove_duplicates_spec; assumption. Qed.
Print Assumptions C16_remove_duplicates.

(* non-vacuity: a forced duplicate, then dedup *)
Example C16_example :
  let '(g, r) := run true repaired (init 2) [AddEdge 0 1 7%Z false; AddEdge 0 1 7%Z true; AddEdge 1 1 3%Z true; AddEdge 1 1 3%Z true] in
  r = Done /\ nth 0 (adj g) [] = [1; 1]%nat /\ enum g = 4 /\ fst (remove_duplicates g) = fst (run true repaired (init 2) [AddEdge 0 1 7%Z false; AddEdge 1 1 3%Z false]).
Proof. vm_compute. auto. Qed.
