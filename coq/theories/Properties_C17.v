(* C17 — No undefined behaviour on any valid use of the public API (PARTIAL).  Statements only; proofs in NoUB.v, TextProofs.v, DirectedIter.v, NoUBMore.v (derived classes), NoUBWF.v (range invariant), NoUBObs.v (observers), NoUBPaths.v (searches), NoUBConv.v (constructors, conversions, subgraphs).
   What a model can carry is the LOGIC of definedness: in the models adjacencyList[i] is a checked access, dereferencing end() and
   exhausting a loop are explicit outcomes, and "undefined behaviour" is the UBk / Undef outcome.  The theorems show these outcomes are
   unreachable - for ALL call sequences, valid or not, and ALL file contents, which covers the valid uses the property quantifies over.
   What a model cannot carry: the C++ object model (iterator invalidation in erase(j++), lifetimes of references into the hash map,
   uninitialised memory, signed overflow in machine arithmetic, preconditions inside the standard library).  That part is EXHIBITED by
   running the same generated cases under a build matrix (g++ / clang++, -O0 / -O2, _GLIBCXX_DEBUG on/off, ASan + UBSan) and requiring the
   observations of the model in every configuration. *)
From Coq Require Import List Arith NArith ZArith.
From BG Require Import Bfs Dj PathsModel NoUBPaths.
From BG Require Import Base DirectedModel DirectedIter UndirectedModel MultiModel WeightedModel ConvModel TopologyModel IOModel
  TextProofs NoUB NoUBMore NoUBWF NoUBObs NoUBConv.
Import ListNotations.

(* every constructor establishes the length invariant; every call keeps it and never ends in UB - whatever the arguments and flags *)
Theorem C17_directed_calls_defined : forall (L : Type) hs (g : @dgraph L) o, LenOK g -> fine (snd (step hs repaired g o)) /\ LenOK (fst (step hs repaired g o)).
Proof. intros L hs g o H. exact (step_ok hs g o H). Qed.
Print Assumptions C17_directed_calls_defined.
Theorem C17_undirected_calls_defined : forall (L : Type) hs (g : @dgraph L) o, LenOK g -> fine (snd (ustep hs repaired g o)) /\ LenOK (fst (ustep hs repaired g o)).
Proof. intros L hs g o H. exact (ustep_ok hs g o H). Qed.
Print Assumptions C17_undirected_calls_defined.
Theorem C17_constructor_and_iteration : forall (L : Type) (n : nat), LenOK (@init L n) /\ forall (g : @dgraph L), LenOK g -> safe (iterate repaired g) /\ forall s d v, safe (has_edge g s d) /\ safe (out_neighbours g v).
Proof. intros L n. split; [unfold LenOK, init; cbn; apply repeat_length|]. intros g H. split; [apply iterate_fine; auto|]. intros; split; [apply has_edge_fine|apply out_neighbours_fine]; auto. Qed.
Print Assumptions C17_constructor_and_iteration.
(* the loaders, on arbitrary bytes *)
Theorem C17_loaders_defined : forall (L : Type) und strict hs w (lot : bytes -> outcome L) b, (forall t, safe (lot t)) ->
  safe (load_binary repaired und w b) /\ safe (load_text repaired und strict hs lot b) /\ safe (load_text_names repaired und hs lot b).
Proof. intros L und strict hs w lot b H. split; [apply load_binary_safe|split; [apply load_text_safe|apply load_text_names_safe]; exact H]. Qed.
Print Assumptions C17_loaders_defined.

(* the pinned commit violated the precondition of std::pop_heap (a range that is not a heap for the comparator used): in the model of
   that revision a non-minimal vertex is popped (see Properties_C12.C12_refuted_on_pinned); and addEdge(force=true) indexed unchecked *)
Example C17_refuted_on_pinned : snd (step false pinned (@init nat 2) (AddEdge 2 0 0 true)) = UBk IndexOOB /\ bfs_single false [[]] 3 = Undef IndexOOB.
Proof. vm_compute. auto. Qed.

(* ---- (A) every call of the four derived classes, whatever the arguments (force on or off, zero / negative multiplicities or weights) ---- *)
Theorem C17_directed_multigraph_calls_defined : forall m o, LenOK (mg m) -> fine (snd (dm_step repaired m o)) /\ LenOK (mg (fst (dm_step repaired m o))).
Proof. intros m o H. exact (dm_step_ok m o H). Qed.
Theorem C17_undirected_multigraph_calls_defined : forall m o, LenOK (mg m) -> fine (snd (um_step repaired true m o)) /\ LenOK (mg (fst (um_step repaired true m o))).
Proof. intros m o H. exact (um_step_ok true m o H). Qed.
Theorem C17_directed_weighted_calls_defined : forall m o, LenOK (mg m) -> fine (snd (dw_step repaired m o)) /\ LenOK (mg (fst (dw_step repaired m o))).
Proof. intros m o H. exact (dw_step_ok m o H). Qed.
Theorem C17_undirected_weighted_calls_defined : forall m o, LenOK (mg m) -> fine (snd (uw_step repaired true m o)) /\ LenOK (mg (fst (uw_step repaired true m o))).
Proof. intros m o H. exact (uw_step_ok true m o H). Qed.
Print Assumptions C17_directed_multigraph_calls_defined.
Print Assumptions C17_undirected_multigraph_calls_defined.
Print Assumptions C17_directed_weighted_calls_defined.
Print Assumptions C17_undirected_weighted_calls_defined.
(* contrast: the pinned weighted classes forwarded force = true to the unchecked insertion (the multigraph classes always checked) *)
Example C17_weighted_refuted_on_pinned :
  snd (dw_step pinned (dm_init 2) (WAdd 2 0 1%Z true)) = UBk IndexOOB /\ snd (uw_step pinned false (dm_init 2) (WAdd 0 2 1%Z true)) = UBk IndexOOB.
Proof. vm_compute. auto. Qed.

(* ---- the range invariant: constructors establish it, every call of the six classes keeps it ---- *)
Theorem C17_wellformed_kept : forall (L : Type) hs,
  (forall n, WF (@init L n)) /\
  (forall (g : @dgraph L) o, WF g -> WF (fst (step hs repaired g o))) /\ (forall (g : @dgraph L) o, WF g -> WF (fst (ustep hs repaired g o))) /\
  (forall m o, WF (mg m) -> WF (mg (fst (dm_step repaired m o)))) /\ (forall m o, WF (mg m) -> WF (mg (fst (um_step repaired true m o)))) /\
  (forall m o, WF (mg m) -> WF (mg (fst (dw_step repaired m o)))) /\ (forall m o, WF (mg m) -> WF (mg (fst (uw_step repaired true m o)))).
Proof. intros L hs. split; [apply init_wf|]. split; [apply step_wf|]. split; [apply ustep_wf|]. split; [apply dm_step_wf|]. split; [apply um_step_wf|]. split; [apply dw_step_wf|apply uw_step_wf]. Qed.
Print Assumptions C17_wellformed_kept.

(* ---- (B) observers.  LenOK is enough for all but three ---- *)
Theorem C17_directed_observers_defined : forall (L : Type) leqb (ldef : L) hs (g : @dgraph L), LenOK g ->
  (forall s d, safe (has_edge g s d)) /\ (forall v, safe (out_neighbours g v)) /\ (forall v, safe (out_degree g v)) /\
  (forall s d thr, safe (get_label ldef hs g s d thr)) /\ (forall s d l, safe (has_edge_l leqb ldef hs g s d l)) /\
  (forall v, safe (in_degree repaired g v)) /\ safe (out_degrees g) /\ safe (iterate repaired g) /\ safe (edges_begin repaired g) /\ safe (edges_end repaired g) /\
  (forall h, LenOK h -> safe (graph_eqb leqb g h)) /\
  (WF g -> safe (in_degrees repaired g) /\ safe (adjacency_matrix repaired g)).
Proof. intros L leqb ldef hs g H. repeat split; intros.
  - apply has_edge_fine; auto. - apply out_neighbours_fine; auto. - apply out_degree_fine; auto. - apply get_label_fine. - apply has_edge_l_fine; auto.
  - apply in_degree_fine; auto. - apply out_degrees_fine; auto. - apply iterate_fine; auto. - apply edges_begin_fine; auto. - apply edges_end_fine; auto.
  - apply graph_eqb_fine; auto. - apply in_degrees_fine; auto. - apply adjacency_matrix_fine; auto. Qed.
Theorem C17_undirected_observers_defined : forall (L : Type) leqb (ldef : L) hs (g : @dgraph L), LenOK g ->
  (forall a b, safe (u_has_edge g a b)) /\ (forall a b thr, safe (u_get_label ldef hs g a b thr)) /\ (forall a b l, safe (u_has_edge_l leqb ldef hs g a b l)) /\
  (forall v tw, safe (u_degree g v tw)) /\ (forall tw, safe (u_degrees g tw)) /\ safe (u_iterate repaired g) /\
  (WF g -> forall tw, safe (u_adjacency_matrix g tw)).
Proof. intros L leqb ldef hs g H. repeat split; intros.
  - apply u_has_edge_fine; auto. - apply u_get_label_fine. - apply u_has_edge_l_fine; auto. - apply u_degree_fine; auto. - apply u_degrees_fine; auto.
  - apply u_iterate_fine; auto. - apply u_adjacency_matrix_fine; auto. Qed.
Theorem C17_multigraph_observers_defined : forall m, LenOK (mg m) ->
  (forall s d, safe (dm_get_multiplicity m s d)) /\ (forall v, safe (dm_out_degree m v)) /\ safe (dm_out_degrees repaired m) /\
  (forall v, safe (dm_in_degree repaired m v)) /\ safe (dm_in_degrees repaired m) /\ safe (dm_adjacency_matrix m) /\
  (forall a b, safe (um_has_edge m a b)) /\ (forall a b, safe (um_get_multiplicity m a b)) /\ (forall v tw, safe (um_degree m v tw)) /\
  (forall tw, safe (um_degrees m tw)) /\ (forall tw, safe (um_adjacency_matrix m tw)).
Proof. intros m H. repeat split; intros.
  - apply dm_get_multiplicity_fine. - apply dm_out_degree_fine; auto. - apply dm_out_degrees_fine; auto. - apply dm_in_degree_fine; auto. - apply dm_in_degrees_fine; auto.
  - apply dm_adjacency_matrix_fine; auto. - apply um_has_edge_fine; auto. - apply um_get_multiplicity_fine. - apply um_degree_fine; auto. - apply um_degrees_fine; auto.
  - apply um_adjacency_matrix_fine; auto. Qed.
Theorem C17_weighted_observers_defined : forall m, LenOK (mg m) ->
  (forall s d thr, safe (dw_get_weight m s d thr)) /\ (forall a b thr, safe (uw_get_weight m a b thr)) /\
  safe (weight_matrix (size (mg m)) (mg m) (fun i j => dw_get_weight m i j true)) /\ safe (weight_matrix (size (mg m)) (mg m) (fun i j => uw_get_weight m i j true)).
Proof. intros m H. repeat split; intros.
  - apply dw_get_weight_fine. - apply uw_get_weight_fine. - apply dw_weight_matrix_fine; auto. - apply uw_weight_matrix_fine; auto. Qed.
Print Assumptions C17_directed_observers_defined.
Print Assumptions C17_undirected_observers_defined.
Print Assumptions C17_multigraph_observers_defined.
Print Assumptions C17_weighted_observers_defined.
(* the range part of WF is necessary for the three: a state (not reachable through the repaired API) with a stored neighbour >= getSize() *)
Example C17_enumerating_observers_need_range :
  LenOK bad_state /\ in_degrees repaired bad_state = Undef IndexOOB /\ adjacency_matrix repaired bad_state = Undef IndexOOB /\ u_adjacency_matrix bad_state true = Undef IndexOOB.
Proof. exact enumerating_observers_need_range. Qed.

(* ---- (C) path searches (has_checks = true) on well-formed adjacency structures ---- *)
Theorem C17_path_searches_defined : forall g, Bfs.wf g ->
  (forall s, safe (bfs_single true g s)) /\ (forall s t, safe (find_geodesics true g s t)) /\ (forall s, safe (geodesics_from_vertex true g s)) /\
  (forall fuel s, length g <= fuel -> safe (bfs_all true true fuel g s)) /\
  (forall fuel s t, find_all_geodesics true true fuel g s t <> Undef IndexOOB) /\
  (forall fuel s t, length g <= fuel -> (forall o, bfs_all true true (length g) g s = Val o -> geo_cost o t <= S fuel) -> safe (find_all_geodesics true true fuel g s t)).
Proof. intros g W. repeat split; intros.
  - apply bfs_single_safe; auto. - apply find_geodesics_safe; auto. - apply geodesics_from_vertex_safe; auto. - apply bfs_all_safe; auto.
  - apply find_all_geodesics_no_oob_partial; auto. - apply find_all_geodesics_safe; auto. Qed.
Theorem C17_dijkstra_defined : forall g s cs, safe (dijkstra true g s cs).
Proof. exact dijkstra_safe. Qed.
Theorem C17_path_searches_reject_out_of_range : forall g s t once fuel cs, length g <= s \/ length g <= t ->
  find_geodesics true g s t = Raise OutOfRange /\ find_all_geodesics true once fuel g s t = Raise OutOfRange /\
  (length g <= s -> bfs_single true g s = Raise OutOfRange /\ bfs_all true once fuel g s = Raise OutOfRange /\ geodesics_from_vertex true g s = Raise OutOfRange) /\
  (forall (gw : Dj.wadj), length gw <= s -> dijkstra true gw s cs = Raise OutOfRange).
Proof. intros g s t once fuel cs H. split; [apply find_geodesics_oor; auto|]. split; [apply find_all_geodesics_oor; auto|].
  split; [intros Hs; split; [apply bfs_single_oor; auto|split; [apply bfs_all_oor; auto|apply geodesics_from_vertex_oor; auto]]|intros; apply dijkstra_oor; auto]. Qed.
Print Assumptions C17_path_searches_defined.
Print Assumptions C17_dijkstra_defined.
Print Assumptions C17_path_searches_reject_out_of_range.

(* ---- (D) constructors, conversions, reversal, subgraphs ---- *)
Theorem C17_edge_list_constructors_defined : forall (L : Type) hs (es : list (nat * nat * L)) (zs : list (nat * nat * Z)),
  safe (of_edge_list hs repaired es) /\ safe (u_of_edge_list hs repaired es) /\
  safe (dm_of_edge_list repaired zs) /\ safe (um_of_edge_list repaired zs) /\ safe (dw_of_edge_list repaired zs) /\ safe (uw_of_edge_list repaired zs).
Proof. intros L hs es zs. repeat split; eapply good_safe.
  - apply of_edge_list_good. - apply u_of_edge_list_good. - apply dm_of_edge_list_good. - apply um_of_edge_list_good. - apply dw_of_edge_list_good. - apply uw_of_edge_list_good. Qed.
Theorem C17_conversions_defined : forall (L : Type) (ldef : L) hs und (g : @dgraph L), LenOK g ->
  safe (reversed ldef hs repaired g) /\ (forall keep, safe (to_directed ldef hs repaired keep g)) /\ safe (of_directed ldef hs repaired g) /\
  (forall so, safe (subgraph ldef hs repaired und g so)) /\ (forall so, safe (subgraph_remap ldef hs repaired und g so)).
Proof. intros L ldef hs und g H. repeat split; intros.
  - eapply good_safe; apply reversed_good; auto. - eapply good_safe; apply to_directed_good; auto. - eapply good_safe; apply of_directed_good; auto.
  - eapply good_safe; apply subgraph_good; auto. - apply subgraph_remap_fine; auto. Qed.
Print Assumptions C17_edge_list_constructors_defined.
Print Assumptions C17_conversions_defined.
