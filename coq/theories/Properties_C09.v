(* C09 — Conversions, reversal, copies and edge-list constructors keep edges and labels.  Statements only; proofs in ConvProofs.v.
   PARTIAL: reversal, double reversal and the edge-list constructor are proved for the directed labelled model (every label type);
   getDirectedGraph, undirected-from-directed, their round trip and the constructors of the other classes are tied to the implementation
   and to the spec images (s_direct, s_undirect, folds of the spec insertions) by the correspondence check only. *)
From BG Require Import Base DirectedModel DirectedProofs UndirectedModel Equality ConvProofs.

(* getReversedGraph of any graph satisfying the invariant (zero vertices and isolated vertices included) is defined, has the same size,
   contains exactly (j,i) for every edge (i,j), and (j,i) carries the label of (i,j) *)
Theorem C09_reversed : forall (L : Type) (ldef : L) hs (g : @dgraph L), Inv hs g ->
  exists h, reversed ldef hs repaired g = Val h /\ Inv hs h /\ KeysOK h /\ size h = size g /\
    (forall i j, In i (nb h j) <-> In j (nb g i)) /\
    (hs = true -> forall i j, lfind (j, i) (labels h) = lfind (i, j) (labels g)).
Proof. intros L ldef hs g I; apply (reversed_spec (fun _ _ => true) ldef hs g I). Qed.
Print Assumptions C09_reversed.

(* reversing twice gives a graph that operator== finds equal to the original (for a reflexive label equality) *)
Theorem C09_reversed_twice : forall (L : Type) (leqb : L -> L -> bool) (ldef : L) hs (g : @dgraph L),
  (forall x, leqb x x = true) -> Inv hs g -> KeysOK g ->
  exists h h2, reversed ldef hs repaired g = Val h /\ reversed ldef hs repaired h = Val h2 /\ graph_eqb leqb h2 g = Val true.
Proof. intros L leqb ldef hs g R I K; apply (reversed_twice leqb ldef hs g R I K). Qed.
Print Assumptions C09_reversed_twice.

(* the edge-list constructor, for EVERY list of labelled edges (duplicates, loops, gaps, empty): the result has 1 + largest index vertices
   (lmax = 0 for the empty list), satisfies the invariant, contains exactly the pairs of the list, each with the label of its first
   occurrence - i.e. the graph obtained by adding the edges one at a time *)
Theorem C09_edge_list_constructor : forall (L : Type) hs (es : list (nat * nat * L)),
  exists h, of_edge_list hs repaired es = Val h /\ Inv hs h /\ size h = lmax es /\
    (forall i j, In j (nb h i) <-> exists l, In (i, j, l) es) /\
    (hs = true -> forall i j, lfind (i, j) (labels h) = first_label i j es).
Proof. intros L hs es; apply (of_edge_list_spec hs es). Qed.
Print Assumptions C09_edge_list_constructor.

(* the pinned commit dropped the labels of non-loop edges in getDirectedGraph (kernel-checked witness on the model of that revision) *)
Example C09_refuted_on_pinned :
  let g := fst (UndirectedModel.urun true repaired (init 2) [UndirectedModel.UAdd 0 1 7%Z false]) in
  omap (fun h => lfind (0, 1) (labels h)) (UndirectedModel.to_directed 0%Z true repaired false g) = Val (Some 0%Z) /\
  omap (fun h => lfind (0, 1) (labels h)) (UndirectedModel.to_directed 0%Z true repaired true g) = Val (Some 7%Z).
Proof. vm_compute. auto. Qed.
Example C09_example : omap (fun h => (size h, adj h)) (of_edge_list true repaired [(0, 2, 5%Z); (2, 1, 7%Z); (0, 2, 9%Z); (4, 4, 1%Z)]) = Val (5, [[2]; []; [1]; []; [4]]).
Proof. vm_compute. reflexivity. Qed.
