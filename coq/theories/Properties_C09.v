(* C09 — Conversions, reversal, copies and edge-list constructors keep edges and labels.  Statements only; proofs in ConvProofs.v.
   Proved (every label type): reversal, double reversal and the edge-list constructor of the directed labelled model (ConvProofs.v);
   getDirectedGraph, undirected-from-directed and their round trip (UFoldProofs.v, UConvProofs.v).
   the edge-list constructors of the undirected labelled class, both multigraphs and both weighted graphs (CtorProofs.v).
   PARTIAL only in that copy construction / assignment are identities in a model of immutable values (exercised on the implementation). *)
From BG Require Import Base DirectedModel DirectedProofs UndirectedModel UndirectedProofs Equality ConvProofs UFoldProofs UConvProofs.

(* getReversedGraph of any graph satisfying the invariant (zero vertices and isolated vertices included) is defined, has the same size,
   contains exactly (j,i) for every edge (i,j), and (j,i) carries the label of (i,j) *)
Theorem C09_reversed : forall (L : Type) (ldef : L) hs (g : @dgraph L), Inv hs g ->
  exists h, reversed ldef hs repaired g = Val h /\ Inv hs h /\ KeysOK h /\ size h = size g /\
    (forall i j, In i (nb h j) <-> In j (nb g i)) /\
    (hs = true -> forall i j, lfind (j, i) (labels h) = lfind (i, j) (labels g)).
Proof. intros L ldef hs g I; apply (reversed_spec (fun _ _ => true) ldef hs g I). Qed.
Print Assumptions C09_reversed.

(* reversing twice gives a graph that operator== finds equal to the original (for a reflexive label equality) *)
Theorem C09_reversed_twice : forall (L : Type) (leqb : L -> L -> bool) (ldef : L) hs (g : @dgraph L),
  (forall x, leqb x x = true) -> Inv hs g -> KeysOK g ->
  exists h h2, reversed ldef hs repaired g = Val h /\ reversed ldef hs repaired h = Val h2 /\ graph_eqb leqb h2 g = Val true.
Proof. intros L leqb ldef hs g R I K; apply (reversed_twice leqb ldef hs g R I K). Qed.
Print Assumptions C09_reversed_twice.

(* the edge-list constructor, for EVERY list of labelled edges (duplicates, loops, gaps, empty): the result has 1 + largest index vertices
   (lmax = 0 for the empty list), satisfies the invariant, contains exactly the pairs of the list, each with the label of its first
   occurrence - i.e. the graph obtained by adding the edges one at a time *)
Theorem C09_edge_list_constructor : forall (L : Type) hs (es : list (nat * nat * L)),
  exists h, of_edge_list hs repaired es = Val h /\ Inv hs h /\ size h = lmax es /\
    (forall i j, In j (nb h i) <-> exists l, In (i, j, l) es) /\
    (hs = true -> forall i j, lfind (i, j) (labels h) = first_label i j es).
Proof. intros L hs es; apply (of_edge_list_spec hs es). Qed.
Print Assumptions C09_edge_list_constructor.

(* the pinned commit dropped the labels of non-loop edges in getDirectedGraph (kernel-checked witness on the model of that revision) *)
Example C09_refuted_on_pinned :
  let g := fst (UndirectedModel.urun true repaired (init 2) [UndirectedModel.UAdd 0 1 7%Z false]) in
  omap (fun h => lfind (0, 1) (labels h)) (UndirectedModel.to_directed 0%Z true repaired false g) = Val (Some 0%Z) /\
  omap (fun h => lfind (0, 1) (labels h)) (UndirectedModel.to_directed 0%Z true repaired true g) = Val (Some 7%Z).
Proof. vm_compute. auto. Qed.
Example C09_example : omap (fun h => (size h, adj h)) (of_edge_list true repaired [(0, 2, 5%Z); (2, 1, 7%Z); (0, 2, 9%Z); (4, 4, 1%Z)]) = Val (5, [[2]; []; [1]; []; [4]]).
Proof. vm_compute. reflexivity. Qed.

(* ---- conversions between the directed and the undirected class ---- *)
(* getDirectedGraph: same size, both orientations of every edge (a loop once), each carrying the label of the undirected edge *)
Theorem C09_get_directed_graph : forall (L : Type) (ldef : L) hs (g : @dgraph L), InvU hs g ->
  exists d, to_directed ldef hs repaired true g = Val d /\ Inv hs d /\ KeysOK d /\ size d = size g /\
    (forall i j, In j (nb d i) <-> In j (nb g i)) /\
    (hs = true -> forall i j, lfind (i, j) (labels d) = if mem j (nb g i) then lfind (ordered i j) (labels g) else None) /\
    (forall i j, In j (nb g i) -> get_label ldef hs d i j true = u_get_label ldef hs g i j true).
Proof. intros L ldef hs g. exact (to_directed_spec ldef hs g). Qed.
Print Assumptions C09_get_directed_graph.
(* LabeledUndirectedGraph(const Directed&): {i,j} present iff (i,j) or (j,i) is; when both orientations exist the label is that of the
   orientation whose source is the smaller vertex (the constructor loops over sources in ascending order) *)
Theorem C09_undirected_from_directed : forall (L : Type) (ldef : L) hs (d : @dgraph L), Inv hs d ->
  exists u, of_directed ldef hs repaired d = Val u /\ InvU hs u /\ KeysOK u /\ size u = size d /\
    (forall i j, In j (nb u i) <-> In j (nb d i) \/ In i (nb d j)) /\
    (hs = true -> forall i j, i <= j ->
       lfind (i, j) (labels u) = if mem j (nb d i) then lfind (i, j) (labels d) else if mem i (nb d j) then lfind (j, i) (labels d) else None) /\
    (forall i j, i <= j -> (In j (nb d i) \/ In i (nb d j)) ->
       u_get_label ldef hs u i j true = if mem j (nb d i) then get_label ldef hs d i j true else get_label ldef hs d j i true).
Proof. intros L ldef hs d. exact (of_directed_spec ldef hs d). Qed.
Print Assumptions C09_undirected_from_directed.
(* undirected -> directed -> undirected compares equal (operator==) to the original *)
Theorem C09_undirected_round_trip : forall (L : Type) (leqb : L -> L -> bool) (ldef : L) hs (g : @dgraph L),
  (forall x, leqb x x = true) -> InvU hs g -> KeysOK g ->
  exists d u, to_directed ldef hs repaired true g = Val d /\ of_directed ldef hs repaired d = Val u /\ graph_eqb leqb u g = Val true.
Proof. intros L leqb ldef hs g. exact (undirected_round_trip leqb ldef hs g). Qed.
Print Assumptions C09_undirected_round_trip.

(* ---- edge-list constructors of the other classes, for EVERY list (lmax es = 1 + largest index, 0 for the empty list):
   undirected labelled: {i,j} present iff some entry names it in either orientation, label of the first such entry;
   multigraphs (multiplicities >= 0): multiplicity of a pair = SUM over the entries naming it (an entry with multiplicity 0 adds no edge but
   counts for the size), total = sum of all multiplicities; weighted: weight of the first entry naming the pair (addEdge on a present edge is a
   no-op), total = sum over distinct pairs ---- *)
From Coq Require Import List Arith ZArith.
From BG Require Import MultiModel WeightedModel MultiSpec Totals UTotals ConvModel UFoldProofs CtorProofs.
Theorem C09_undirected_edge_list_constructor :
  forall (L : Type) (has_store : bool) (es : list (nat * nat * L)),
        exists g : (@dgraph L),
          u_of_edge_list has_store repaired es = Val g /\
          InvU has_store g /\
          KeysOK g /\
          size g = lmax es /\
          (forall i j : nat, In j (nb g i) <-> (exists l : L, In (i, j, l) es \/ In (j, i, l) es)) /\
          (has_store = true -> forall e : edge, lfind e (labels g) = ufirst e es) /\
          (has_store = true -> forall i j : nat, lfind (ordered i j) (labels g) = ufirst (ordered i j) es).
Proof. intros L. exact (@CtorProofs.u_of_edge_list_spec L). Qed.
Print Assumptions C09_undirected_edge_list_constructor.
Theorem C09_multigraph_edge_list_constructor :
  forall es : list (nat * nat * Z),
        (forall x : (nat * nat * Z), In x es -> (0 <= snd x)%Z) ->
        exists m : mgraph,
          dm_of_edge_list repaired es = Val m /\
          TInv m /\
          size (mg m) = lmax es /\
          (forall i j : nat, lget (i, j) (labels (mg m)) = mult_sum false (i, j) es) /\
          (forall i j : nat, In j (nb (mg m) i) <-> (0 < mult_sum false (i, j) es)%Z) /\
          (forall i j : nat, i < lmax es -> j < lmax es -> dm_get_multiplicity m i j = Val (mult_sum false (i, j) es)) /\ mtot m = mult_total es.
Proof. exact CtorProofs.dm_of_edge_list_spec. Qed.
Print Assumptions C09_multigraph_edge_list_constructor.
Theorem C09_undirected_multigraph_edge_list_constructor :
  forall es : list (nat * nat * Z),
        (forall x : (nat * nat * Z), In x es -> (0 <= snd x)%Z) ->
        exists m : mgraph,
          um_of_edge_list repaired es = Val m /\
          UTInv m /\
          size (mg m) = lmax es /\
          (forall i j : nat, lget (ordered i j) (labels (mg m)) = mult_sum true (ordered i j) es) /\
          (forall i j : nat, In j (nb (mg m) i) <-> (0 < mult_sum true (ordered i j) es)%Z) /\
          (forall i j : nat, i < lmax es -> j < lmax es -> um_get_multiplicity m i j = Val (mult_sum true (ordered i j) es)) /\ mtot m = mult_total es.
Proof. exact CtorProofs.um_of_edge_list_spec. Qed.
Print Assumptions C09_undirected_multigraph_edge_list_constructor.
Theorem C09_weighted_edge_list_constructor :
  forall es : list (nat * nat * Z),
        exists m : mgraph,
          dw_of_edge_list repaired es = Val m /\
          TInv m /\
          size (mg m) = lmax es /\
          (forall i j : nat, lfind (i, j) (labels (mg m)) = first_label i j es) /\
          (forall i j : nat, In j (nb (mg m) i) <-> (exists w : Z, In (i, j, w) es)) /\ mtot m = wtotal false es.
Proof. exact CtorProofs.dw_of_edge_list_spec. Qed.
Print Assumptions C09_weighted_edge_list_constructor.
Theorem C09_undirected_weighted_edge_list_constructor :
  forall es : list (nat * nat * Z),
        exists m : mgraph,
          uw_of_edge_list repaired es = Val m /\
          UTInv m /\
          size (mg m) = lmax es /\
          (forall e : edge, lfind e (labels (mg m)) = ufirst e es) /\
          (forall i j : nat, lfind (ordered i j) (labels (mg m)) = ufirst (ordered i j) es) /\
          (forall i j : nat, In j (nb (mg m) i) <-> (exists w : Z, In (i, j, w) es \/ In (j, i, w) es)) /\ mtot m = wtotal true es.
Proof. exact CtorProofs.uw_of_edge_list_spec. Qed.
Print Assumptions C09_undirected_weighted_edge_list_constructor.
