(* C19 — Path searches do work polynomial in graph size, never in the number of paths.  Statements only.
   Counted quantity: neighbourhood scans = loop iterations of the models = getOutNeighbours calls of the searches.
   Proved: findVertexPredecessors <= V, findAllVertexPredecessors <= V (after the repair; <= V + E a fortiori), findGeodesicsDijkstra
   <= 1 + E <= V + E + 1 for every legal pop sequence.  The path ENUMERATIONS (findAllGeodesics) are necessarily proportional to their
   output and are not bounded by the property. *)
From Coq Require Import List Arith NArith Lia.
From BG Require Import Base Bfs Dj PathsModel PathsProofs BfsAllProofs.
Import ListNotations.

Theorem C19_single_predecessor_scans : forall (g : adjl) (s : nat), Bfs.wf g -> s < length g ->
  exists o, bfs_single true g s = Val o /\ bo_scans o <= length g.
Proof. intros g s W H. destruct (bfs_single_spec g s W H) as [o [E [B _]]]. exists o; auto. Qed.
Print Assumptions C19_single_predecessor_scans.

Theorem C19_dijkstra_scans : forall (g : Dj.wadj) (s : nat) (cs : list nat) (o : dj_out), Dj.wf g -> s < length g ->
  dijkstra true g s cs = Val o -> do_legal o = true -> do_done o = true -> do_pops o <= 1 + Dj.edges_total g.
Proof. intros g s cs o W H E L D. destruct (dijkstra_spec g s W H cs o E L D) as [_ [_ [_ [_ [B _]]]]]. exact B. Qed.
Print Assumptions C19_dijkstra_scans.

Theorem C19_all_predecessors_scans : forall (g : adjl) (s : nat), Bfs.wf g -> s < length g ->
  exists o, bfs_all true true (length g) g s = Val o /\ ao_scans o <= length g.
Proof. exact BfsAllProofs.C19_all_predecessors_scans. Qed.
Print Assumptions C19_all_predecessors_scans.

(* the pinned commit: one enqueue per discovery. On the width-2 layered graph with 4 layers the search makes 47 scans, V + E = 10 + 16 = 26 *)
Example C19_refuted_on_pinned :
  let g := [[1; 2]; [3; 4]; [3; 4]; [5; 6]; [5; 6]; [7; 8]; [7; 8]; [9]; [9]; []] in
  omap ao_scans (bfs_all true false 5000 g 0) = Val 47 /\ omap ao_scans (bfs_all true true 5000 g 0) = Val 10 /\ length g + length (concat g) = 26.
Proof. vm_compute. auto. Qed.
