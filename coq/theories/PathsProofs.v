(* C11 / C12 / C19: the wrappers of PathsModel inherit the theorems of Bfs.v, Dj.v and DjPred.v; scan counters are bounded;
   findGeodesics returns a walk of minimal length. *)
From Coq Require Import List Arith NArith ZArith Lia Bool.
From BG Require Import Base Bfs Dj DjPred PathsModel.
Import ListNotations.
Local Open Scope nat_scope.

(* ================= single-predecessor BFS ================= *)
Section BfsTop.
Variables (g : adjl) (s : nat).
Hypothesis Hwf : Bfs.wf g.
Hypothesis Hs : s < length g.

(* every discovered vertex other than the source has a recorded predecessor *)
Definition HasPred (st : Bfs.bst) : Prop :=
  Bfs.sized (length g) st /\ forall v k, Bfs.getd (Bfs.dist st) v = Some (S k) -> nth v (Bfs.pred st) None <> None.
Lemma visit1_haspred u du st v : HasPred st -> v < length g -> HasPred (Bfs.visit1 u du st v).
Proof.
  intros [[L1 [L2 L3]] H] Hv. unfold Bfs.visit1. destruct (Bfs.getb (Bfs.disc st) v); [split; [split|]; auto|].
  split; cbn [Bfs.dist Bfs.pred Bfs.disc Bfs.queue].
  - unfold Bfs.sized; cbn [Bfs.dist Bfs.pred Bfs.disc]. rewrite !Bfs.set_nth_length. auto.
  - intros w k. unfold Bfs.getd. destruct (Nat.eq_dec v w) as [->|N].
    + intros _. rewrite Bfs.nth_set_nth_eq by lia. discriminate.
    + rewrite !Bfs.nth_set_nth_neq by auto. apply H.
Qed.
Lemma fold_haspred u du (l : list nat) : forall st, HasPred st -> (forall v, In v l -> v < length g) -> HasPred (fold_left (Bfs.visit1 u du) l st).
Proof. induction l as [|v t IH]; intros st H R; cbn [fold_left]; auto. apply IH; [apply visit1_haspred; auto; apply R; simpl; auto|intros; apply R; simpl; auto]. Qed.
Lemma step_haspred st u q : HasPred st -> HasPred (Bfs.step g u q st).
Proof. intros H. unfold Bfs.step. destruct (Bfs.getd (Bfs.dist st) u) as [du|]; [|destruct H as [[A [B C]] D]; split; [split|]; auto].
  apply fold_haspred; [destruct H as [[A [B C]] D]; split; [split|]; auto|]. intros v Hin. apply (Hwf u v Hin). Qed.
Lemma bfs_haspred fuel : forall st, HasPred st -> HasPred (Bfs.bfs fuel g st).
Proof. induction fuel as [|f IH]; intros st H; cbn [Bfs.bfs]; auto. destruct (Bfs.queue st); auto. apply IH, step_haspred; auto. Qed.
Lemma init_haspred : HasPred (Bfs.init (length g) s).
Proof. split; [unfold Bfs.sized; cbn [Bfs.init Bfs.dist Bfs.pred Bfs.disc]; rewrite ?Bfs.set_nth_length, !repeat_length; auto|].
  intros v k. cbn [Bfs.init Bfs.dist]. unfold Bfs.getd. destruct (Nat.eq_dec s v) as [->|N].
  - rewrite Bfs.nth_set_nth_eq by (rewrite repeat_length; auto). discriminate.
  - rewrite Bfs.nth_set_nth_neq by auto. rewrite Bfs.nth_repeat. discriminate.
Qed.

Lemma bfs_count_spec fuel : forall st k, Bfs.InvB g s st -> length (Bfs.queue st) + Bfs.cf (Bfs.disc st) <= fuel ->
  exists p, bfs_count fuel g st k = (Bfs.bfs fuel g st, p, true) /\ p <= k + (length (Bfs.queue st) + Bfs.cf (Bfs.disc st)).
Proof.
  induction fuel as [|f IH]; intros st k I H; cbn [bfs_count Bfs.bfs].
  - destruct (Bfs.queue st) eqn:Q; [exists k; split; auto; lia|simpl in H; lia].
  - destruct (Bfs.queue st) as [|u q] eqn:Q; [exists k; split; auto; lia|].
    pose proof (Bfs.step_potential g s Hwf Hs st u q I Q) as SP. pose proof (Bfs.step_inv g s Hwf st u q I Q) as I'.
    destruct (IH (Bfs.step g u q st) (S k) I') as [p [E L]]; [rewrite Q in SP; simpl in *; lia|].
    exists p; split; auto. rewrite Q in SP. simpl in *. lia.
Qed.

(* findVertexPredecessors on a well-formed graph from an in-range source: defined; true hop minima (sentinel iff unreachable);
   the predecessor is an in-neighbour exactly one hop closer; and at most one neighbourhood scan per vertex *)
Definition bfs_facts (o : bfs_out) : Prop :=
  length (bo_dist o) = length g /\ length (bo_pred o) = length g /\
  (forall v, match nth v (bo_dist o) None with
             | Some k => Bfs.walk g s v k /\ (forall k', Bfs.walk g s v k' -> k <= k')
             | None => forall k', ~ Bfs.walk g s v k' end) /\
  (forall v p, nth v (bo_pred o) None = Some p -> exists dp, nth p (bo_dist o) None = Some dp /\ nth v (bo_dist o) None = Some (S dp) /\ In v (nth p g [])) /\
  (forall v k, nth v (bo_dist o) None = Some (S k) -> nth v (bo_pred o) None <> None) /\
  (forall v, nth v (bo_dist o) None = None -> nth v (bo_pred o) None = None) /\
  nth s (bo_pred o) None = None.
Theorem bfs_single_spec : exists o, bfs_single true g s = Val o /\ bo_scans o <= length g /\ bfs_facts o.
Proof.
  unfold bfs_single, checked. cbn [forallb]. rewrite (proj2 (Nat.ltb_lt _ _) Hs). cbn [andb].
  destruct (bfs_count_spec (length g) (Bfs.init (length g) s) 0 (Bfs.init_inv g s Hs)) as [p [E L]]; [rewrite (Bfs.init_potential g s Hs); lia|].
  rewrite E. eexists; split; [reflexivity|]. cbn [bo_scans bo_dist bo_pred].
  split; [rewrite (Bfs.init_potential g s Hs) in L; lia|].
  pose proof (Bfs.bfs_single_correct g s Hwf Hs) as [_ [A [B [C D]]]].
  pose proof (bfs_haspred (length g) _ init_haspred) as [[L1 [L2 L3]] HP].
  unfold bfs_facts. cbn [bo_dist bo_pred]. repeat split; auto.
Qed.

(* ---- findGeodesics ---- *)
Lemma is_walk_snoc (l : list nat) p v : is_walk g (l ++ [p]) = true -> mem v (nth p g []) = true -> is_walk g (l ++ [p; v]) = true.
Proof. induction l as [|a t IH]; cbn; intros H M; [rewrite M; auto|]. destruct t as [|b t']; cbn in *.
  - apply andb_prop in H as [H1 _]. rewrite H1, M. auto.
  - apply andb_prop in H as [H1 H2]. rewrite H1. cbn. apply IH; auto. Qed.
Lemma walk0 v : Bfs.walk g s v 0 -> v = s.
Proof. intros W. inversion W; auto. Qed.
Lemma walk_range v k : Bfs.walk g s v k -> v < length g.
Proof. induction 1; auto. eapply Hwf; eauto. Qed.
Lemma parent_walk_spec o : bfs_facts o ->
  forall k v path fuel, nth v (bo_dist o) None = Some (S k) -> k < fuel ->
  exists pre, parent_walk fuel (bo_pred o) s (Some v) path = Val (s :: pre ++ v :: path) /\ length pre = k /\ is_walk g (s :: pre ++ [v]) = true.
Proof.
  intros [LD [LP [W [PR [HP [PN PS]]]]]]. induction k as [|k IH]; intros v path fuel Dv Hf; (destruct fuel as [|f]; [lia|]); cbn [parent_walk].
  - pose proof (W v) as Wv. rewrite Dv in Wv. pose proof (walk_range _ _ (proj1 Wv)) as Hv. rewrite <- LP in Hv. rewrite (nth_error_nth' _ None Hv).
    destruct (nth v (bo_pred o) None) as [p|] eqn:Pv; [|exfalso; apply (HP v 0 Dv); auto].
    destruct (PR v p Pv) as [dp [Dp [Dv' Ein]]]. rewrite Dv in Dv'. injection Dv' as <-.
    pose proof (W p) as Wp. rewrite Dp in Wp. apply proj1, walk0 in Wp. subst p.
    rewrite Nat.eqb_refl. exists []. cbn. split; auto. split; auto. rewrite (proj2 (mem_In _ _) Ein). reflexivity.
  - pose proof (W v) as Wv. rewrite Dv in Wv. pose proof (walk_range _ _ (proj1 Wv)) as Hv. rewrite <- LP in Hv. rewrite (nth_error_nth' _ None Hv).
    destruct (nth v (bo_pred o) None) as [p|] eqn:Pv; [|exfalso; apply (HP v _ Dv); auto].
    destruct (PR v p Pv) as [dp [Dp [Dv' Ein]]]. rewrite Dv in Dv'. injection Dv' as <-.
    assert (Nps : Nat.eqb p s = false).
    { apply Nat.eqb_neq. intros ->. pose proof (W s) as Ws. rewrite Dp in Ws. destruct Ws as [_ Min]. specialize (Min 0 (Bfs.w_nil g s Hs)). lia. }
    rewrite Nps. destruct (IH p (v :: path) f Dp) as [pre [E [Ln IW]]]; [lia|].
    exists (pre ++ [p]). rewrite E. split; [rewrite <- app_assoc; reflexivity|]. split; [rewrite app_length; simpl; lia|].
    rewrite <- app_assoc. cbn [app]. change (s :: pre ++ [p; v]) with ((s :: pre) ++ [p; v]). apply is_walk_snoc; [exact IW|apply mem_In; exact Ein].
Qed.

(* findGeodesics(source, destination): [source] when they coincide, [] when unreachable, otherwise a walk along existing edges from
   source to destination whose number of hops is the minimum over ALL walks *)
Theorem find_geodesics_spec t : t < length g ->
  exists p, find_geodesics true g s t = Val p /\
    ((forall k, ~ Bfs.walk g s t k) /\ p = [] \/
     exists k, Bfs.walk g s t k /\ (forall k', Bfs.walk g s t k' -> k <= k') /\
               length p = S k /\ hd (S (length g)) p = s /\ last p (S (length g)) = t /\ is_walk g p = true).
Proof.
  intros Ht. unfold find_geodesics, checked. cbn [forallb]. rewrite (proj2 (Nat.ltb_lt _ _) Hs), (proj2 (Nat.ltb_lt _ _) Ht). cbn [andb].
  destruct (Nat.eqb_spec s t) as [<-|Nst].
  - exists [s]. split; auto. right. exists 0. split; [apply Bfs.w_nil; auto|]. split; [intros; lia|]. cbn. auto.
  - destruct bfs_single_spec as [o [E [_ F]]]. rewrite E. cbn [obind]. pose proof F as [LD [LP [W [PR [HP [PN PS]]]]]].
    unfold reached. rewrite <- LD in Ht. rewrite (nth_error_nth' _ None Ht). cbn [obind].
    pose proof (W t) as Wt. destruct (nth t (bo_dist o) None) as [k|] eqn:Dt.
    + destruct Wt as [Wk Min]. destruct k as [|k]; [apply walk0 in Wk; congruence|].
      unfold path_from_preds. rewrite (proj2 (Nat.eqb_neq _ _) Nst).
      destruct (parent_walk_spec o F k t [] (S (S k)) Dt) as [pre [E2 [Ln IW]]]; [lia|]. rewrite E2.
      eexists; split; [reflexivity|]. right. exists (S k). split; auto. split; auto.
      split; [cbn [length]; rewrite app_length; cbn [length]; lia|]. split; [reflexivity|]. split; [|exact IW].
      change (s :: pre ++ [t]) with ((s :: pre) ++ [t]). apply last_last.
    + exists []. split; auto.
Qed.
End BfsTop.

(* ================= Dijkstra ================= *)
Section DjTop.
Variables (g : Dj.wadj) (s : nat).
Hypothesis Hwf : Dj.wf g.
Hypothesis Hs : s < length g.

Lemma dj_follow_run : forall cs st k st' k', dj_follow g st cs k = (st', k', true) -> Dj.run g st cs = Some st' /\ k' = k + length cs.
Proof. induction cs as [|c cs IH]; intros st k st' k'; cbn [dj_follow Dj.run length].
  - intros E; injection E as <- <-. split; auto.
  - destruct (Dj.step g st c) as [st1|]; [|discriminate]. intros E. apply IH in E as [R ->]. split; auto. lia. Qed.

(* findGeodesicsDijkstra, for EVERY pop sequence in which each pop is a minimum of the worklist and which empties the worklist:
   true minimum weights (None iff unreachable), the predecessor tree, and at most 1 + E neighbourhood scans *)
Theorem dijkstra_spec cs o : dijkstra true g s cs = Val o -> do_legal o = true -> do_done o = true ->
  (forall v, match nth v (do_dist o) None with
             | Some d => Dj.walk g s v d /\ (forall d', Dj.walk g s v d' -> (d <= d')%N)
             | None => forall d', ~ Dj.walk g s v d' end) /\
  nth s (do_pred o) None = Some s /\
  (forall v, nth v (do_dist o) None = None -> nth v (do_pred o) None = None) /\
  (forall v d, v <> s -> nth v (do_dist o) None = Some d ->
     exists p dp w, nth v (do_pred o) None = Some p /\ nth p (do_dist o) None = Some dp /\ In (v, w) (nth p g []) /\ d = (dp + w)%N) /\
  do_pops o <= 1 + Dj.edges_total g /\ do_pops o = length cs.
Proof.
  unfold dijkstra, checked. cbn [forallb]. rewrite (proj2 (Nat.ltb_lt _ _) Hs). cbn [andb].
  destruct (dj_follow g (Dj.init (length g) s) cs 0) as [[st k] ok] eqn:F. intros E; injection E as <-. cbn [do_legal do_done do_dist do_pred do_pops].
  intros -> Dn. destruct (dj_follow_run cs _ _ _ _ F) as [R ->]. assert (Hw : Dj.work st = []) by (destruct (Dj.work st); [auto|discriminate]).
  split; [exact (Dj.dijkstra_distances g s Hwf Hs cs st R Hw)|].
  destruct (dijkstra_predecessors g s Hwf Hs cs st R Hw) as [A [B C]].
  split; [exact A|]. split; [exact B|]. split; [exact C|]. split; [|reflexivity].
  cbn [plus]. exact (Dj.dijkstra_pop_bound g s Hwf Hs cs st R).
Qed.

(* progress: while the worklist is not empty some pop is legal, so a maximal legal run ends with an empty worklist - after at most 1 + E pops *)
Lemma dle_total a b : Dj.dle a b = true \/ Dj.dle b a = true.
Proof. destruct a as [a|], b as [b|]; cbn; auto. destruct (N.leb_spec a b); auto. right. apply N.leb_le. lia. Qed.
Lemma dle_trans a b c : Dj.dle a b = true -> Dj.dle b c = true -> Dj.dle a c = true.
Proof. destruct a as [a|], b as [b|], c as [c|]; cbn; auto; try discriminate. rewrite !N.leb_le. lia. Qed.
Lemma dle_refl a : Dj.dle a a = true.
Proof. destruct a; cbn; auto. apply N.leb_refl. Qed.
Lemma exists_min (f : nat -> Dj.dopt) (l : list nat) : l <> [] -> exists c, In c l /\ forall x, In x l -> Dj.dle (f c) (f x) = true.
Proof. induction l as [|a t IH]; [congruence|]. intros _. destruct t as [|b t'].
  - exists a. split; [simpl; auto|]. intros x [<-|[]]. apply dle_refl.
  - destruct IH as [c [Hc Hmin]]; [discriminate|]. destruct (dle_total (f a) (f c)) as [H|H].
    + exists a. split; [simpl; auto|]. intros x [<-|Hx]; [apply dle_refl|]. eapply dle_trans; [exact H|apply Hmin; auto].
    + exists c. split; [simpl; auto|]. intros x [<-|Hx]; auto. Qed.
Theorem dijkstra_progress st : Dj.work st <> [] -> exists c, Dj.legal st c = true.
Proof. intros H. destruct (exists_min (Dj.getd (Dj.dist st)) (Dj.work st) H) as [c [Hc Hmin]]. exists c. unfold Dj.legal.
  apply andb_true_intro; split; [apply existsb_exists; exists c; split; auto; apply Nat.eqb_refl|apply forallb_forall; auto]. Qed.
End DjTop.
