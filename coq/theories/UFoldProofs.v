(* Folds of the (unforced) undirected addEdge over a list of labelled pairs: the common engine behind getSubgraph on undirected graphs (C10)
   and the LabeledUndirectedGraph(const Directed&) constructor (C09).  Also: operator== on graphs satisfying the undirected invariant. *)
From BG Require Import Base DirectedModel DirectedProofs DirectedIter DirectedUsers DirectedSpec DirectedRefine DirectedObs Equality ConvProofs
  UndirectedModel UndirectedProofs UndirectedIter UndirectedRefine UndirectedObs.
Local Open Scope Z_scope.
Local Arguments Z.of_nat : simpl never.

Section UFold.
Context {L : Type}.
Variable ldef : L.
Variable has_store : bool.
Notation dgraph := (@dgraph L).
Implicit Types g h : dgraph.
Notation InvU := (InvU has_store).
Notation V := repaired.
Notation ledge := (nat * nat * L)%type.

Lemma init_invU n : InvU (@init L n) /\ KeysOK (@init L n).
Proof. split; [apply (ru_inv _ _ _ (u_init_refines has_store n))|unfold KeysOK; cbn; constructor]. Qed.
Lemma nb_init n i : nb (@init L n) i = [].
Proof. unfold nb, init; cbn [adj]; apply nth_repeat. Qed.

Lemma keys_u_add_edge g a b l f : KeysOK g -> KeysOK (fst (u_add_edge has_store V g a b l f)).
Proof. unfold KeysOK, u_add_edge, u_push. intros H. cbn [v_force_checks repaired].
  destruct f; [destruct (in_range g a && in_range g b)|destruct (u_has_edge g a b) as [[|]| |]]; auto;
  destruct (Nat.ltb a (length (adj g)) && Nat.ltb b (length (adj g))); auto; cbn [fst labels]; apply keys_set_label; auto. Qed.

(* the label stored for the unordered pair {i,j} (EdgeLabel() when there is none) *)
Definition ulab_of g (i j : nat) : L := match lfind (ordered i j) (labels g) with Some l => l | None => ldef end.
Lemma ulab_of_sym g i j : ulab_of g i j = ulab_of g j i.
Proof. unfold ulab_of. rewrite (ordered_sym i j). reflexivity. Qed.
Lemma ordered_in_range g i j : (i < size g)%nat -> (j < size g)%nat -> in_range g (fst (ordered i j)) && in_range g (snd (ordered i j)) = true.
Proof. intros Hi Hj. unfold in_range. destruct (ordered_cases i j) as [[-> _]|[-> _]]; cbn [fst snd]; rewrite !(proj2 (Nat.ltb_lt _ _)); auto. Qed.
Lemma u_label_present g i j : InvU g -> has_store = true -> In j (nb g i) -> lfind (ordered i j) (labels g) <> None.
Proof. intros I HS Hin. pose proof (u_lab _ _ I) as IL. rewrite HS in IL.
  rewrite (surjective_pairing (ordered i j)). apply IL. split; [apply ordered_le|apply (In_ordered has_store g i j I); exact Hin]. Qed.
Lemma u_label_absent g i j : InvU g -> ~ In j (nb g i) -> lfind (ordered i j) (labels g) = None.
Proof. intros I Hin. pose proof (u_lab _ _ I) as IL. pose proof (In_ordered has_store g i j I) as IO. destruct has_store; [|rewrite IL; reflexivity].
  destruct (lfind (ordered i j) (labels g)) eqn:F; [|reflexivity]. exfalso. apply Hin.
  rewrite (surjective_pairing (ordered i j)) in F.
  assert (X : lfind (fst (ordered i j), snd (ordered i j)) (labels g) <> None) by congruence.
  apply IL in X as [_ X]. apply IO. exact X. Qed.
Lemma u_get_label_val g i j : InvU g -> In j (nb g i) -> u_get_label ldef has_store g i j true = Val (ulab_of g i j).
Proof.
  intros I Hin. destruct (u_rng _ _ I _ _ Hin) as [Hi Hj]. unfold u_get_label, get_label, ulab_of. cbv zeta.
  rewrite (ordered_in_range g i j Hi Hj). rewrite <- (surjective_pairing (ordered i j)).
  pose proof (u_label_present g i j I) as P. pose proof (u_lab _ _ I) as IL. destruct has_store.
  - destruct (lfind (ordered i j) (labels g)) eqn:F; [reflexivity|]. exfalso. apply P; auto.
  - rewrite IL. reflexivity.
Qed.

Definition u_add_all (es : list ledge) (o : outcome dgraph) : outcome dgraph :=
  fold_left (fun acc e => obind acc (fun h => UndirectedModel.lift (u_add_edge has_store V h (fst (fst e)) (snd (fst e)) (snd e) false))) es o.
(* the label of the first entry of the list that denotes the unordered pair e (given as its ordered key) *)
Fixpoint ufirst (e : edge) (es : list ledge) : option L :=
  match es with [] => None | (a, b, l) :: t => if edge_eqb (ordered a b) e then Some l else ufirst e t end.

Lemma u_add_all_cons x es o :
  u_add_all (x :: es) o = u_add_all es (obind o (fun h => UndirectedModel.lift (u_add_edge has_store V h (fst (fst x)) (snd (fst x)) (snd x) false))).
Proof. reflexivity. Qed.
Lemma u_add_all_app es1 es2 o : u_add_all (es1 ++ es2) o = u_add_all es2 (u_add_all es1 o).
Proof. unfold u_add_all. apply fold_left_app. Qed.
Lemma u_add_all_raise es e : u_add_all es (Raise e) = Raise e.
Proof. induction es; simpl; auto. Qed.
Lemma u_add_all_undef es k : u_add_all es (@Undef dgraph k) = Undef k.
Proof. induction es; simpl; auto. Qed.

Lemma ufirst_app e es1 es2 : ufirst e (es1 ++ es2) = match ufirst e es1 with Some v => Some v | None => ufirst e es2 end.
Proof. induction es1 as [|[[a b] l] t IH]; cbn [app ufirst]; auto. destruct (edge_eqb (ordered a b) e); auto. Qed.
Lemma ufirst_none e es : ufirst e es = None <-> (forall a b l, In (a, b, l) es -> ordered a b <> e).
Proof. induction es as [|[[a b] l] t IH]; cbn [ufirst]; [split; [intros _ ? ? ? []|auto]|].
  destruct (edge_eqb_spec (ordered a b) e) as [E|NE].
  - split; [discriminate|]. intros H. exfalso. apply (H a b l); simpl; auto.
  - rewrite IH. split; intros H a' b' l' Hin; [destruct Hin as [X|X]; [injection X as <- <- <-; auto|eapply H; eauto]|apply (H a' b' l'); simpl; auto]. Qed.
Lemma ufirst_some e es l : ufirst e es = Some l -> exists a b, In (a, b, l) es /\ ordered a b = e.
Proof. induction es as [|[[a b] l'] t IH]; cbn [ufirst]; [discriminate|].
  destruct (edge_eqb_spec (ordered a b) e) as [E|NE].
  - intros X; injection X as ->. exists a, b; simpl; auto.
  - intros X. destruct (IH X) as [a' [b' [H1 H2]]]. exists a', b'; simpl; auto. Qed.
Lemma ufirst_const e es l : (forall a b l', In (a, b, l') es -> ordered a b = e -> l' = l) ->
  (exists a b l', In (a, b, l') es /\ ordered a b = e) -> ufirst e es = Some l.
Proof. intros C [a [b [l' [Hin E]]]]. destruct (ufirst e es) as [v|] eqn:F.
  - apply ufirst_some in F as [a' [b' [H1 H2]]]. f_equal. eapply C; eauto.
  - exfalso. apply (proj1 (ufirst_none e es) F a b l' Hin E). Qed.

(* a fold of the undirected addEdge over labelled pairs in range: ends normally, keeps the invariant, adds exactly those unordered pairs;
   a pair that was already there keeps its label (so the second visit of an edge changes nothing), a new one gets the label of its first occurrence *)
Lemma u_add_all_spec (es : list ledge) : forall h, InvU h -> KeysOK h -> (forall e, In e es -> (fst (fst e) < size h)%nat /\ (snd (fst e) < size h)%nat) ->
  exists h', u_add_all es (Val h) = Val h' /\ InvU h' /\ KeysOK h' /\ size h' = size h /\
    (forall i j, In j (nb h' i) <-> In j (nb h i) \/ exists l, In (i, j, l) es \/ In (j, i, l) es) /\
    (has_store = true -> forall e, lfind e (labels h') = match lfind e (labels h) with Some v => Some v | None => ufirst e es end).
Proof.
  induction es as [|[[a b] l] t IH]; intros h I K R.
  - exists h. split; [reflexivity|]. split; auto. split; auto. split; auto. split.
    + intros i j. split; [auto|intros [?|[l [[]|[]]]]; auto].
    + intros HS e. cbn [ufirst]. destruct (lfind e (labels h)); auto.
  - rewrite u_add_all_cons. destruct (R (a, b, l) (or_introl eq_refl)) as [Ha Hb]. cbn [fst snd] in *. cbn [obind].
    pose proof (u_add_edge_spec has_store h a b l I Ha Hb) as AS. pose proof (keys_u_add_edge h a b l false K) as KA.
    destruct (u_add_edge has_store V h a b l false) as [h1 r1]. cbn [fst] in KA. destruct AS as [-> [I1 [S1 [E1 L1]]]]. cbn [UndirectedModel.lift].
    destruct (IH h1 I1 KA) as [h' [F [I' [K' [S' [E' L']]]]]]. { intros e He. rewrite S1. apply R; simpl; auto. }
    exists h'. split; [exact F|]. split; auto. split; auto. split; [congruence|]. split.
    + intros i j. rewrite E', E1. split.
      * intros [[H|[[-> ->]|[-> ->]]]|[l' [H|H]]]; auto; right; [exists l|exists l|exists l'|exists l']; simpl; auto.
      * intros [H|[l' [[H|H]|[H|H]]]]; auto; [injection H as -> -> _; auto| |injection H as -> -> _; auto| ]; right; exists l'; auto.
    + intros HS e. rewrite (L' HS), L1, HS. cbn [andb ufirst].
      destruct (edge_eqb_spec (ordered a b) e) as [<-|NE]; [|reflexivity].
      destruct (mem b (nb h a)) eqn:M; cbn [negb].
      * apply mem_In in M. pose proof (u_label_present h a b I HS M) as P. destruct (lfind (ordered a b) (labels h)); [reflexivity|congruence].
      * apply mem_false in M. rewrite (u_label_absent h a b I M). reflexivity.
Qed.
End UFold.

(* ---- operator== on undirected graphs: the verdict is "same size, same edges, equal labels" (the C06 theorem, for InvU) ---- *)
Section UEq.
Context {L : Type}.
Variable leqb : L -> L -> bool.
Variable has_store : bool.
Notation dgraph := (@dgraph L).
Implicit Types g h : dgraph.
Notation InvU := (InvU has_store).

Lemma u_eq_rows_val g h : InvU g -> InvU h -> size g = size h -> forall vs, (forall i, In i vs -> (i < size g)%nat) ->
  eq_rows g h vs = Val (forallb (rows_agree g h) vs).
Proof.
  intros Ig Ih S. induction vs as [|i t IH]; intros R; cbn [eq_rows forallb]; auto.
  assert (Hi : (i < size g)%nat) by (apply R; simpl; auto).
  assert (Hi' : (i < length (adj g))%nat) by (rewrite (u_len _ _ Ig); auto).
  assert (Hi'' : (i < length (adj h))%nat) by (rewrite (u_len _ _ Ih), <- S; auto).
  rewrite (nth_error_nth' _ [] Hi'), (nth_error_nth' _ [] Hi''). fold (nb g i) (nb h i).
  rewrite (all_edges_in_val h i (nb g i) (u_len _ _ Ih)); [|rewrite <- S; auto|intros j Hj; apply (u_rng _ _ Ig) in Hj; lia]. cbn [obind].
  unfold rows_agree at 1. destruct (forallb (fun j => mem j (nb h i)) (nb g i)); cbn [andb]; auto.
  rewrite (all_edges_in_val g i (nb h i) (u_len _ _ Ig) Hi); [|intros j Hj; apply (u_rng _ _ Ih) in Hj; lia]. cbn [obind].
  destruct (forallb (fun j => mem j (nb g i)) (nb h i)); cbn [andb]; auto. apply IH. intros; apply R; simpl; auto.
Qed.
Lemma u_rows_agree_all g h : InvU g -> InvU h -> size g = size h ->
  (forallb (rows_agree g h) (seq 0 (size g)) = true <-> same_edges g h).
Proof.
  intros Ig Ih S. rewrite forallb_forall. split.
  - intros H i j. destruct (Nat.lt_ge_cases i (size g)) as [Hi|Hi].
    + specialize (H i (proj2 (in_seq _ _ _) (conj (Nat.le_0_l _) Hi))). unfold rows_agree in H. apply andb_prop in H as [A B].
      rewrite forallb_forall in A, B. split; intros X; [apply mem_In, A|apply mem_In, B]; auto.
    + split; intros X; [apply (u_rng _ _ Ig) in X|apply (u_rng _ _ Ih) in X]; lia.
  - intros H i _. unfold rows_agree. apply andb_true_intro; split; apply forallb_forall; intros j Hj; apply mem_In, H; auto.
Qed.
Lemma In_filter_up_flatten' g i j : InvU g -> In (i, j) (filter up (flatten g)) <-> (i <= j)%nat /\ In j (nb g i).
Proof. intros I. rewrite filter_In, DirectedUsers.In_flatten. unfold up; cbn [fst snd]. rewrite Nat.leb_le.
  split; [tauto|]. intros [A B]; split; auto. split; auto. apply (u_rng _ _ I) in B. tauto. Qed.
Lemma u_same_edges_enum g h : InvU g -> InvU h -> size g = size h -> same_edges g h -> enum g = enum h.
Proof.
  intros Ig Ih S E. rewrite (u_enum _ _ Ig), (u_enum _ _ Ih), <- (length_filter_up_flatten g (u_len _ _ Ig)), <- (length_filter_up_flatten h (u_len _ _ Ih)). f_equal.
  apply Permutation_length, NoDup_Permutation; [apply NoDup_filter, (NoDup_flatten_u has_store g Ig)|apply NoDup_filter, (NoDup_flatten_u has_store h Ih)|].
  intros [i j]. rewrite (In_filter_up_flatten' g i j Ig), (In_filter_up_flatten' h i j Ih), (E i j). tauto.
Qed.
Lemma u_lmap_eqb_iff g h : InvU g -> InvU h -> KeysOK g -> KeysOK h -> same_edges g h ->
  (lmap_eqb leqb (labels g) (labels h) = true <-> labels_agree leqb g h).
Proof.
  intros Ig Ih Kg Kh E. unfold lmap_eqb. pose proof (u_lab _ _ Ig) as LG. pose proof (u_lab _ _ Ih) as LH.
  destruct has_store.
  - assert (DOM : forall e, lfind e (labels g) <> None <-> lfind e (labels h) <> None).
    { intros [i j]. rewrite LG, LH, (E i j). tauto. }
    assert (LEN : length (labels g) = length (labels h)).
    { rewrite <- (map_length fst (labels g)), <- (map_length fst (labels h)). apply Permutation_length, NoDup_Permutation; auto.
      intros e. rewrite <- !lfind_some_in_keys. apply DOM. }
    rewrite LEN, Nat.eqb_refl. cbn [andb]. rewrite forallb_forall. split.
    + intros H e v v' F1 F2. apply (lfind_In_nodup leqb _ _ _ Kg) in F1. specialize (H _ F1). cbn [fst snd] in H. rewrite F2 in H. auto.
    + intros H [e v] Hin. cbn [fst snd]. pose proof (proj2 (lfind_In_nodup leqb _ _ _ Kg) Hin) as F1.
      destruct (lfind e (labels h)) as [v'|] eqn:F2; [apply (H e v v' F1 F2)|]. exfalso. apply (proj1 (DOM e)); congruence.
  - unfold labels_agree. rewrite LG, LH. cbn. split; [intros _ e v v' F; discriminate|auto].
Qed.
Theorem u_graph_eqb_spec g h : InvU g -> InvU h -> KeysOK g -> KeysOK h ->
  exists b, graph_eqb leqb g h = Val b /\ (b = true <-> size g = size h /\ same_edges g h /\ labels_agree leqb g h).
Proof.
  intros Ig Ih Kg Kh. unfold graph_eqb.
  destruct (Nat.eqb_spec (size g) (size h)) as [S|NS]; cbn [andb].
  2:{ exists false; split; auto. split; [discriminate|intros [X _]; congruence]. }
  destruct (forallb (rows_agree g h) (seq 0 (size g))) eqn:RA.
  - pose proof (proj1 (u_rows_agree_all g h Ig Ih S) RA) as E.
    rewrite (u_same_edges_enum g h Ig Ih S E), Z.eqb_refl. cbn [andb].
    destruct (lmap_eqb leqb (labels g) (labels h)) eqn:LE.
    + rewrite (u_eq_rows_val g h Ig Ih S) by (intros i Hi; apply in_seq in Hi; lia). rewrite RA. exists true; split; auto.
      split; auto. intros _. split; auto. split; auto. apply (u_lmap_eqb_iff g h Ig Ih Kg Kh E); auto.
    + exists false; split; auto. split; [discriminate|]. intros [_ [_ LA]]. apply (u_lmap_eqb_iff g h Ig Ih Kg Kh E) in LA. congruence.
  - assert (NE : ~ same_edges g h) by (intros E; apply (u_rows_agree_all g h Ig Ih S) in E; congruence).
    destruct (Z.eqb (enum g) (enum h) && lmap_eqb leqb (labels g) (labels h)).
    + rewrite (u_eq_rows_val g h Ig Ih S) by (intros i Hi; apply in_seq in Hi; lia). rewrite RA. exists false; split; auto.
      split; [discriminate|intros [_ [E _]]; contradiction].
    + exists false; split; auto. split; [discriminate|intros [_ [E _]]; contradiction].
Qed.
End UEq.
